import NetVerif.Model.LossState
/-!
C26 — QUIC loss recovery accounts for every sent packet exactly once.

Theorems over the model `Model/LossState.lean` of quic/loss.go + sent_packet_list.go +
congestion_reno.go, for ALL histories of send / skip / ACK-range / ACK-end / timer /
discard operations and ALL values of the RTT-estimator inputs (`ld`, `fst`, `pcd`).
-/
namespace NetVerif.Proofs.C26
open NetVerif NetVerif.Model.LossState

/-! ## operations and histories -/

inductive Op where
  | send (space : Nat) (size : Int) (ackEliciting inFlight : Bool) (now : Int)
  | skip (space : Nat) (now : Int)
  | ackRange (space : Nat) (start end_ : Int)
  | ackEnd (space : Nat) (now ld : Int) (fst : Option Int) (pcd : Int)
  | advance (now ld : Int) (fst : Option Int)
  | discardPackets (space : Nat)
  | discardKeys (space : Nat)
  | setUnderutilized (v : Bool)

/-- One operation: new state and the ack/loss callbacks it made. -/
def step (l : Loss) : Op → Loss × List Callback
  | .send sp size ae inf now => (l.packetSent sp size ae inf now, [])
  | .skip sp now => (l.skipNumber sp now, [])
  | .ackRange sp a b => let r := l.receiveAckRange sp a b; (r.1, r.2.1)
  | .ackEnd sp now ld fst pcd => l.receiveAckEnd sp now ld fst pcd
  | .advance now ld fst => l.advance now ld fst
  | .discardPackets sp => l.discardPackets sp
  | .discardKeys sp => (l.discardKeys sp, [])
  | .setUnderutilized v => (l.setUnderutilized v, [])

def run (l : Loss) (ops : List Op) : Loss := ops.foldl (fun l op => (step l op).1) l

/-- Packet sizes are non-negative. -/
def Op.Valid : Op → Prop
  | .send _ size _ _ _ => 0 ≤ size
  | _ => True

/-! ## bytes in flight -/

/-- Contribution of one tracked packet to bytes in flight: its size if it is in flight and has
no fate yet (`state = sent`). -/
def pktFlight (p : Pkt) : Int := if p.inFlight ∧ p.state = .sent then p.size else 0

def flightSum : List Pkt → Int
  | [] => 0
  | p :: rest => pktFlight p + flightSum rest

/-- Σ sizes of in-flight packets without a fate, over the three spaces. -/
def lossFlight (l : Loss) : Int := flightSum l.s0.pkts + flightSum l.s1.pkts + flightSum l.s2.pkts

theorem flightSum_append (a b : List Pkt) : flightSum (a ++ b) = flightSum a + flightSum b := by
  induction a with
  | nil => simp [flightSum]
  | cons p rest ih => simp [flightSum, ih]; omega

theorem flightSum_nonneg (ps : List Pkt) (h : ∀ p ∈ ps, 0 ≤ p.size) : 0 ≤ flightSum ps := by
  induction ps with
  | nil => simp [flightSum]
  | cons p rest ih =>
    have h1 := h p List.mem_cons_self
    have h2 := ih (fun q hq => h q (List.mem_cons_of_mem _ hq))
    simp only [flightSum, pktFlight]
    split <;> omega

theorem flightSum_clean (ps : List Pkt) : flightSum (cleanList ps) = flightSum ps := by
  induction ps with
  | nil => rfl
  | cons p rest ih =>
    simp only [cleanList]
    split
    · rfl
    · rename_i h
      simp [flightSum, pktFlight, h, ih]

/-! ### what the congestion controller callbacks do to the counters -/

structure CCSame (c c' : CC) : Prop where
  mds : c'.mds = c.mds
  cwnd : c'.cwnd = c.cwnd

theorem CCSame.trans {a b c : CC} (h1 : CCSame a b) (h2 : CCSame b c) : CCSame a c :=
  ⟨by rw [h2.mds, h1.mds], by rw [h2.cwnd, h1.cwnd]⟩

theorem CCSame.rfl' (a : CC) : CCSame a a := ⟨rfl, rfl⟩

theorem packetAcked_spec (c : CC) (p : Pkt) :
    (c.packetAcked p).bytesInFlight = c.bytesInFlight - (if p.inFlight then p.size else 0) ∧ CCSame c (c.packetAcked p) := by
  unfold CC.packetAcked
  cases hp : p.inFlight <;> simp
  · exact ⟨rfl, rfl⟩
  · repeat' split
    all_goals exact ⟨rfl, ⟨rfl, rfl⟩⟩

theorem setPc_same (c : CC) (i : Nat) (pc : PC) :
    (c.setPc i pc).bytesInFlight = c.bytesInFlight ∧ (c.setPc i pc).mds = c.mds ∧ (c.setPc i pc).cwnd = c.cwnd ∧
    (c.setPc i pc).ackLastLoss = c.ackLastLoss := by
  unfold CC.setPc; split <;> simp

theorem packetLost_spec (c : CC) (sp : Nat) (p : Pkt) (fst : Option Int) :
    (c.packetLost sp p fst).bytesInFlight = c.bytesInFlight - (if p.inFlight then p.size else 0) ∧
    CCSame c (c.packetLost sp p fst) := by
  unfold CC.packetLost
  obtain ⟨h1, h2, h3, _⟩ := setPc_same c sp (pcAfterLoss (c.pc sp) p fst)
  cases hp : p.inFlight <;> simp
  · exact ⟨h1, ⟨h2, h3⟩⟩
  · exact ⟨by omega, ⟨h2, h3⟩⟩

theorem packetDiscarded_spec (c : CC) (p : Pkt) :
    (c.packetDiscarded p).bytesInFlight = c.bytesInFlight - (if p.inFlight then p.size else 0) ∧
    CCSame c (c.packetDiscarded p) := by
  unfold CC.packetDiscarded
  split <;> simp <;> exact ⟨rfl, rfl⟩

theorem packetSent_spec (c : CC) (p : Pkt) :
    (c.packetSent p).bytesInFlight = c.bytesInFlight + (if p.inFlight then p.size else 0) ∧
    CCSame c (c.packetSent p) := by
  unfold CC.packetSent
  split <;> simp <;> exact ⟨rfl, rfl⟩


/-! ### the list walks -/

/-- Two lists related position by position. -/
inductive All₂ {α β : Type} (R : α → β → Prop) : List α → List β → Prop
  | nil : All₂ R [] []
  | cons {a b as bs} : R a b → All₂ R as bs → All₂ R (a :: as) (b :: bs)

theorem All₂.imp {α β : Type} {R S : α → β → Prop} (h : ∀ a b, R a b → S a b) :
    ∀ {as : List α} {bs : List β}, All₂ R as bs → All₂ S as bs
  | _, _, .nil => .nil
  | _, _, .cons h1 h2 => .cons (h _ _ h1) (All₂.imp h h2)

theorem All₂.refl {α : Type} {R : α → α → Prop} (h : ∀ a, R a a) : ∀ (as : List α), All₂ R as as
  | [] => .nil
  | a :: as => .cons (h a) (All₂.refl h as)

/-- How one tracked packet may change within one operation: not at all, or from `sent` to a
final state (`acked` / `lost`). Nothing else about the packet changes. -/
def PktEvolves (p p' : Pkt) : Prop :=
  p' = p ∨ (p.state = .sent ∧ (p' = { p with state := .acked } ∨ p' = { p with state := .lost }))

/-- Packet numbers whose state differs between two snapshots of a list (position by position). -/
def changedNums : List Pkt → List Pkt → List Int
  | p :: ps, q :: qs => if p.state ≠ q.state then p.num :: changedNums ps qs else changedNums ps qs
  | _, _ => []

theorem changedNums_self (ps : List Pkt) : changedNums ps ps = [] := by
  induction ps with
  | nil => rfl
  | cons p rest ih => simp [changedNums, ih]

theorem ackWalk_spec (lo hi : Int) (ps : List Pkt) : ∀ (cc : CC) (ma : Int),
    (ackWalk lo hi cc ma ps).cc.bytesInFlight - flightSum (ackWalk lo hi cc ma ps).pkts = cc.bytesInFlight - flightSum ps ∧
    CCSame cc (ackWalk lo hi cc ma ps).cc ∧
    All₂ (fun p p' => p' = p ∨ (p.state = .sent ∧ p' = { p with state := .acked })) ps (ackWalk lo hi cc ma ps).pkts ∧
    (ackWalk lo hi cc ma ps).acked = changedNums ps (ackWalk lo hi cc ma ps).pkts := by
  induction ps with
  | nil => intro cc ma; exact ⟨rfl, ⟨rfl, rfl⟩, .nil, rfl⟩
  | cons p rest ih =>
    intro cc ma
    unfold ackWalk
    split
    · obtain ⟨h1, h2, h3, h4⟩ := ih cc ma
      refine ⟨?_, h2, .cons (Or.inl rfl) h3, ?_⟩
      · simp only [flightSum]; omega
      · simp [changedNums, h4]
    · split
      · exact ⟨rfl, ⟨rfl, rfl⟩, by show All₂ _ (p :: rest) (p :: rest); apply All₂.refl; intro a; exact Or.inl rfl, by simp [changedNums_self]⟩
      · split
        · exact ⟨rfl, ⟨rfl, rfl⟩, by show All₂ _ (p :: rest) (p :: rest); apply All₂.refl; intro a; exact Or.inl rfl, by simp [changedNums_self]⟩
        · split
          · obtain ⟨h1, h2, h3, h4⟩ := ih cc ma
            refine ⟨?_, h2, .cons (Or.inl rfl) h3, ?_⟩
            · simp only [flightSum]; omega
            · simp [changedNums, h4]
          · rename_i hns hs
            have hsent : p.state = .sent := by simpa using hs
            obtain ⟨h1, h2, h3, h4⟩ := ih (cc.packetAcked p) (if p.num > ma then p.num else ma)
            obtain ⟨hb, hsame⟩ := packetAcked_spec cc p
            refine ⟨?_, ⟨by rw [h2.mds, hsame.mds], by rw [h2.cwnd, hsame.cwnd]⟩, .cons (Or.inr ⟨hsent, rfl⟩) h3, ?_⟩
            · simp only [flightSum, pktFlight, hsent]
              simp only [hb] at h1
              split <;> simp_all <;> omega
            · simp [changedNums, hsent, h4]


theorem lossWalk_spec (sp : Nat) (ma lt : Int) (fst : Option Int) (ps : List Pkt) : ∀ (cc : CC),
    (lossWalk sp ma lt fst cc ps).cc.bytesInFlight - flightSum (lossWalk sp ma lt fst cc ps).pkts = cc.bytesInFlight - flightSum ps ∧
    CCSame cc (lossWalk sp ma lt fst cc ps).cc ∧
    All₂ (fun p p' => p' = p ∨ (p.state = .sent ∧ p' = { p with state := .lost })) ps (lossWalk sp ma lt fst cc ps).pkts ∧
    (lossWalk sp ma lt fst cc ps).lost = changedNums ps (lossWalk sp ma lt fst cc ps).pkts := by
  induction ps with
  | nil => intro cc; exact ⟨rfl, ⟨rfl, rfl⟩, .nil, rfl⟩
  | cons p rest ih =>
    intro cc
    unfold lossWalk
    split
    · obtain ⟨h1, h2, h3, h4⟩ := ih cc
      refine ⟨?_, h2, .cons (Or.inl rfl) h3, ?_⟩
      · simp only [flightSum]; omega
      · simp [changedNums, h4]
    · rename_i hs
      have hsent : p.state = .sent := by simpa using hs
      split
      · obtain ⟨h1, h2, h3, h4⟩ := ih (if p.inFlight then cc.packetLost sp p fst else cc)
        obtain ⟨hb, hsame⟩ := packetLost_spec cc sp p fst
        have hcc : CCSame cc (if p.inFlight then cc.packetLost sp p fst else cc) := by
          split
          · exact hsame
          · exact CCSame.rfl' cc
        refine ⟨?_, hcc.trans h2, .cons (Or.inr ⟨hsent, rfl⟩) h3, ?_⟩
        · simp only [flightSum, pktFlight, hsent]
          cases hp : p.inFlight <;> simp_all <;> omega
        · simp [changedNums, hsent, h4]
      · exact ⟨rfl, ⟨rfl, rfl⟩, by show All₂ _ (p :: rest) (p :: rest); apply All₂.refl; intro a; exact Or.inl rfl,
          by simp [changedNums_self]⟩

theorem discWalk_spec (ps : List Pkt) : ∀ (cc : CC),
    (discWalk cc ps).cc.bytesInFlight - flightSum (discWalk cc ps).pkts = cc.bytesInFlight - flightSum ps ∧
    CCSame cc (discWalk cc ps).cc ∧
    All₂ (fun p p' => p' = p ∨ (p.state = .sent ∧ p' = { p with state := .lost })) ps (discWalk cc ps).pkts ∧
    (discWalk cc ps).lost = changedNums ps (discWalk cc ps).pkts ∧
    flightSum (discWalk cc ps).pkts = 0 := by
  induction ps with
  | nil => intro cc; exact ⟨rfl, ⟨rfl, rfl⟩, .nil, rfl, rfl⟩
  | cons p rest ih =>
    intro cc
    unfold discWalk
    split
    · rename_i hs
      obtain ⟨h1, h2, h3, h4, h5⟩ := ih cc
      refine ⟨?_, h2, .cons (Or.inl rfl) h3, ?_, ?_⟩
      · simp only [flightSum]; omega
      · simp [changedNums, h4]
      · simp [flightSum, pktFlight, hs, h5]
    · rename_i hs
      have hsent : p.state = .sent := by simpa using hs
      obtain ⟨h1, h2, h3, h4, h5⟩ := ih (cc.packetDiscarded p)
      obtain ⟨hb, hsame⟩ := packetDiscarded_spec cc p
      refine ⟨?_, ⟨by rw [h2.mds, hsame.mds], by rw [h2.cwnd, hsame.cwnd]⟩, .cons (Or.inr ⟨hsent, rfl⟩) h3, ?_, ?_⟩
      · simp only [flightSum, pktFlight, hsent]
        cases hp : p.inFlight <;> simp_all <;> omega
      · simp [changedNums, hsent, h4]
      · simp [flightSum, pktFlight, h5]

/-! ### the accounting invariant -/

def SizesOK (ps : List Pkt) : Prop := ∀ p ∈ ps, 0 ≤ p.size

structure AcctInv (l : Loss) : Prop where
  flight_eq : l.cc.bytesInFlight = lossFlight l
  sz0 : SizesOK l.s0.pkts
  sz1 : SizesOK l.s1.pkts
  sz2 : SizesOK l.s2.pkts
  mds : 0 < l.cc.mds
  cwnd : l.cc.minWindow ≤ l.cc.cwnd

theorem sizesOK_of_all₂ {R : Pkt → Pkt → Prop} (hR : ∀ p p', R p p' → p'.size = p.size) :
    ∀ {ps ps' : List Pkt}, All₂ R ps ps' → SizesOK ps → SizesOK ps'
  | _, _, .nil, _ => by intro p hp; simp at hp
  | _, _, .cons h1 h2, hs => by
    intro q hq
    rcases List.mem_cons.1 hq with rfl | hq
    · rw [hR _ _ h1]; exact hs _ List.mem_cons_self
    · exact sizesOK_of_all₂ hR h2 (fun r hr => hs r (List.mem_cons_of_mem _ hr)) q hq

theorem sizesOK_clean (ps : List Pkt) (h : SizesOK ps) : SizesOK (cleanList ps) := by
  induction ps with
  | nil => exact h
  | cons p rest ih =>
    simp only [cleanList]
    split
    · exact h
    · exact ih (fun q hq => h q (List.mem_cons_of_mem _ hq))

theorem sizesOK_space (l : Loss) (h : AcctInv l) (i : Nat) : SizesOK (l.space i).pkts := by
  unfold Loss.space; split
  · exact h.sz0
  · exact h.sz1
  · exact h.sz2

/-- Replacing one space and the controller, keeping `bytesInFlight − Σ` of that space, the window
and the datagram size, preserves the invariant. -/
theorem upd_inv (l : Loss) (h : AcctInv l) (i : Nat) (s' : Space) (cc' : CC)
    (hb : cc'.bytesInFlight - flightSum s'.pkts = l.cc.bytesInFlight - flightSum (l.space i).pkts)
    (hsame : CCSame l.cc cc') (hsz : SizesOK s'.pkts) :
    AcctInv { (l.setSpace i s') with cc := cc' } := by
  obtain ⟨hbif, h0, h1, h2, hm, hc⟩ := h
  unfold Loss.setSpace
  unfold Loss.space at hb
  unfold lossFlight at hbif
  split <;> simp only at hb
  · exact ⟨by simp only [lossFlight]; omega, hsz, h1, h2, by rw [hsame.mds]; exact hm,
      by simp only [CC.minWindow, hsame.mds, hsame.cwnd]; exact hc⟩
  · exact ⟨by simp only [lossFlight]; omega, h0, hsz, h2, by rw [hsame.mds]; exact hm,
      by simp only [CC.minWindow, hsame.mds, hsame.cwnd]; exact hc⟩
  · exact ⟨by simp only [lossFlight]; omega, h0, h1, hsz, by rw [hsame.mds]; exact hm,
      by simp only [CC.minWindow, hsame.mds, hsame.cwnd]; exact hc⟩


theorem setSpace_cc (l : Loss) (i : Nat) (s : Space) : (l.setSpace i s).cc = l.cc := by
  unfold Loss.setSpace; split <;> rfl

theorem setSpace_eta (l : Loss) (i : Nat) (s : Space) : { (l.setSpace i s) with cc := l.cc } = l.setSpace i s := by
  unfold Loss.setSpace; split <;> rfl

/-! ### the window arithmetic -/

theorem caLoop_ge (mds : Int) (hm : 0 ≤ mds) : ∀ (fuel : Nat) (cw p : Int), cw ≤ (caLoop mds fuel cw p).1
  | 0, cw, p => by simp [caLoop]
  | fuel + 1, cw, p => by
    unfold caLoop
    split
    · have := caLoop_ge mds hm fuel (cw + mds) (p - cw); omega
    · simp

/-- The fuel given to the congestion-avoidance loop is enough: on exit `pending ≤ cwnd`
(the Go `for` loop terminates because `cwnd > 0`). -/
theorem caLoop_done (mds : Int) (hm : 0 ≤ mds) : ∀ (fuel : Nat) (cw p : Int), 0 < cw → p ≤ fuel →
    (caLoop mds fuel cw p).2 ≤ (caLoop mds fuel cw p).1
  | 0, cw, p, hcw, hp => by simp [caLoop]; omega
  | fuel + 1, cw, p, hcw, hp => by
    unfold caLoop
    split
    · exact caLoop_done mds hm fuel (cw + mds) (p - cw) (by omega) (by omega)
    · simp; omega

theorem batchStage1_spec (c : CC) (now : Int) (hm : 0 < c.mds) (hc : c.minWindow ≤ c.cwnd) :
    (c.batchStage1 now).bytesInFlight = c.bytesInFlight ∧ (c.batchStage1 now).mds = c.mds ∧
    (c.batchStage1 now).minWindow ≤ (c.batchStage1 now).cwnd := by
  unfold CC.batchStage1
  simp only [CC.minWindow] at hc
  split
  · simp only [CC.enterRecovery, CC.minWindow]
    exact ⟨trivial, trivial, by omega⟩
  · split
    · rename_i hpos
      simp only [CC.grow, CC.minWindow]
      refine ⟨trivial, trivial, ?_⟩
      have hge := caLoop_ge c.mds (by omega) c.ssStep.2.toNat c.ssStep.1 c.ssStep.2
      have : c.cwnd ≤ c.ssStep.1 := by
        unfold CC.ssStep; split <;> simp <;> omega
      omega
    · exact ⟨rfl, rfl, hc⟩

theorem batchStage2_spec (c : CC) (sp : Nat) (pcd : Int) (hc : c.minWindow ≤ c.cwnd) :
    (c.batchStage2 sp pcd).bytesInFlight = c.bytesInFlight ∧ (c.batchStage2 sp pcd).mds = c.mds ∧
    (c.batchStage2 sp pcd).minWindow ≤ (c.batchStage2 sp pcd).cwnd := by
  unfold CC.batchStage2
  split
  · exact ⟨rfl, rfl, hc⟩
  · split
    · exact ⟨rfl, rfl, by simp [CC.minWindow]⟩
    · exact ⟨rfl, rfl, hc⟩

theorem batchEnd_spec (c : CC) (now : Int) (sp : Nat) (pcd : Int) (hm : 0 < c.mds) (hc : c.minWindow ≤ c.cwnd) :
    (c.packetBatchEnd now sp pcd).bytesInFlight = c.bytesInFlight ∧
    (c.packetBatchEnd now sp pcd).mds = c.mds ∧
    (c.packetBatchEnd now sp pcd).minWindow ≤ (c.packetBatchEnd now sp pcd).cwnd ∧
    (c.packetBatchEnd now sp pcd).ackLastLoss = none := by
  obtain ⟨a1, a2, a3⟩ := batchStage1_spec c now hm hc
  obtain ⟨b1, b2, b3⟩ := batchStage2_spec (c.batchStage1 now) sp pcd a3
  unfold CC.packetBatchEnd
  simp only [CC.minWindow] at b3 ⊢
  exact ⟨by rw [b1, a1], by rw [b2, a2], b3, trivial⟩

/-- The congestion-avoidance loop runs to completion with the fuel it is given. -/
theorem grow_loop_done (c : CC) (hm : 0 < c.mds) (hc : c.minWindow ≤ c.cwnd) (hp : 0 ≤ c.pendingAcks) :
    c.grow.pendingAcks ≤ c.grow.cwnd ∨ c.grow.pendingAcks ≤ 0 := by
  left
  simp only [CC.grow]
  have h1 : c.cwnd ≤ c.ssStep.1 := by unfold CC.ssStep; split <;> simp <;> omega
  simp only [CC.minWindow] at hc
  exact caLoop_done c.mds (by omega) _ _ _ (by omega) (by omega)


/-! ### every operation preserves the accounting invariant -/

theorem inv_init (mds : Int) (h : 0 < mds) : AcctInv (Loss.init mds) := by
  refine ⟨rfl, ?_, ?_, ?_, h, ?_⟩
  · intro p hp; simp [Loss.init] at hp
  · intro p hp; simp [Loss.init] at hp
  · intro p hp; simp [Loss.init] at hp
  · simp only [Loss.init, newReno, CC.minWindow]; omega

theorem inv_packetSent (l : Loss) (h : AcctInv l) (sp : Nat) (size : Int) (ae inf : Bool) (now : Int) (hs : 0 ≤ size) :
    AcctInv (l.packetSent sp size ae inf now) := by
  unfold Loss.packetSent
  simp only [setSpace_cc]
  obtain ⟨hb, hsame⟩ := packetSent_spec l.cc
    { num := (l.space sp).nextNum, size := size, time := now, ackEliciting := ae, inFlight := inf, state := .sent }
  apply upd_inv l h sp _ _ _ hsame
  · intro p hp
    simp only [Space.add, List.mem_append, List.mem_singleton] at hp
    rcases hp with hp | rfl
    · exact sizesOK_space l h sp p hp
    · exact hs
  · simp only [Space.add, flightSum_append, flightSum, pktFlight, hb]
    cases inf <;> simp <;> omega

theorem inv_skipNumber (l : Loss) (h : AcctInv l) (sp : Nat) (now : Int) : AcctInv (l.skipNumber sp now) := by
  unfold Loss.skipNumber
  rw [← setSpace_eta]
  apply upd_inv l h sp _ _ _ (CCSame.rfl' _)
  · intro p hp
    simp only [Space.add, List.mem_append, List.mem_singleton] at hp
    rcases hp with hp | rfl
    · exact sizesOK_space l h sp p hp
    · exact Int.le_refl _
  · simp [Space.add, flightSum_append, flightSum, pktFlight]

theorem inv_receiveAckRange (l : Loss) (h : AcctInv l) (sp : Nat) (a b : Int) :
    AcctInv (l.receiveAckRange sp a b).1 := by
  unfold Loss.receiveAckRange
  simp only
  generalize (if a < (l.space sp).start then (l.space sp).start else a) = st
  by_cases h1 : b > (l.space sp).nextNum
  · simp only [h1, if_true]; exact h
  · by_cases h2 : st ≥ b
    · simp only [h1, h2, if_true, if_false]; exact h
    · simp only [h1, h2, if_false]
      obtain ⟨e1, e2, e3, _⟩ := ackWalk_spec st b (l.space sp).pkts l.cc (l.space sp).maxAcked
      exact upd_inv l h sp _ _ e1 e2
        (sizesOK_of_all₂ (fun p p' hpp => by rcases hpp with rfl | ⟨_, rfl⟩ <;> rfl) e3 (sizesOK_space l h sp))

theorem space_setSpace (l : Loss) (i : Nat) (s : Space) : (l.setSpace i s).space i = s := by
  unfold Loss.setSpace Loss.space
  split <;> simp

theorem inv_detectSpace (l : Loss) (h : AcctInv l) (sp : Nat) (now ld : Int) (fst : Option Int) :
    AcctInv (l.detectSpace sp now ld fst).1 := by
  unfold Loss.detectSpace
  simp only
  obtain ⟨h1, h2, h3, _⟩ := lossWalk_spec sp (l.space sp).maxAcked (now - ld) fst (l.space sp).pkts l.cc
  apply upd_inv l h sp _ _ _ h2
  · simp only [Space.clean]
    exact sizesOK_clean _ (sizesOK_of_all₂ (fun p p' hpp => by rcases hpp with rfl | ⟨_, rfl⟩ <;> rfl) h3 (sizesOK_space l h sp))
  · simp only [Space.clean, flightSum_clean]; exact h1

theorem inv_detectLoss (l : Loss) (h : AcctInv l) (now ld : Int) (fst : Option Int) :
    AcctInv (l.detectLoss now ld fst).1 := by
  unfold Loss.detectLoss
  simp only
  exact inv_detectSpace _ (inv_detectSpace _ (inv_detectSpace l h 0 now ld fst) 1 now ld fst) 2 now ld fst

theorem inv_clean (l : Loss) (h : AcctInv l) (sp : Nat) : AcctInv (l.setSpace sp (l.space sp).clean) := by
  rw [← setSpace_eta]
  apply upd_inv l h sp _ _ _ (CCSame.rfl' _)
  · exact sizesOK_clean _ (sizesOK_space l h sp)
  · simp [Space.clean, flightSum_clean]

theorem inv_receiveAckEnd (l : Loss) (h : AcctInv l) (sp : Nat) (now ld : Int) (fst : Option Int) (pcd : Int) :
    AcctInv (l.receiveAckEnd sp now ld fst pcd).1 := by
  unfold Loss.receiveAckEnd
  simp only
  have h1 := inv_detectLoss _ (inv_clean l h sp) now ld fst
  generalize ((l.setSpace sp (l.space sp).clean).detectLoss now ld fst).1 = l1 at h1
  obtain ⟨hb, h0, h1', h2, hm, hc⟩ := h1
  obtain ⟨e1, e2, e3, _⟩ := batchEnd_spec l1.cc now sp pcd hm hc
  exact ⟨by simp only [lossFlight] at hb ⊢; rw [e1]; exact hb, h0, h1', h2, by rw [e2]; exact hm, e3⟩

theorem inv_discardPackets (l : Loss) (h : AcctInv l) (sp : Nat) : AcctInv (l.discardPackets sp).1 := by
  unfold Loss.discardPackets
  simp only
  obtain ⟨h1, h2, h3, _, _⟩ := discWalk_spec (l.space sp).pkts l.cc
  apply upd_inv l h sp _ _ _ h2
  · simp only [Space.clean]
    exact sizesOK_clean _ (sizesOK_of_all₂ (fun p p' hpp => by rcases hpp with rfl | ⟨_, rfl⟩ <;> rfl) h3 (sizesOK_space l h sp))
  · simp only [Space.clean, flightSum_clean]; exact h1

theorem inv_discardKeys (l : Loss) (h : AcctInv l) (sp : Nat) : AcctInv (l.discardKeys sp) := by
  unfold Loss.discardKeys
  simp only
  obtain ⟨h1, h2, _, _, h5⟩ := discWalk_spec (l.space sp).pkts l.cc
  apply upd_inv l h sp _ _ _ h2
  · intro p hp; simp at hp
  · simp only [flightSum]; omega

theorem inv_setUnderutilized (l : Loss) (h : AcctInv l) (v : Bool) : AcctInv (l.setUnderutilized v) := by
  obtain ⟨hb, h0, h1, h2, hm, hc⟩ := h
  exact ⟨hb, h0, h1, h2, hm, hc⟩

theorem inv_step (l : Loss) (op : Op) (hv : op.Valid) (h : AcctInv l) : AcctInv (step l op).1 := by
  cases op with
  | send sp size ae inf now => exact inv_packetSent l h sp size ae inf now hv
  | skip sp now => exact inv_skipNumber l h sp now
  | ackRange sp a b => exact inv_receiveAckRange l h sp a b
  | ackEnd sp now ld fst pcd => exact inv_receiveAckEnd l h sp now ld fst pcd
  | advance now ld fst => exact inv_detectLoss l h now ld fst
  | discardPackets sp => exact inv_discardPackets l h sp
  | discardKeys sp => exact inv_discardKeys l h sp
  | setUnderutilized v => exact inv_setUnderutilized l h v

def Valid (ops : List Op) : Prop := ∀ op ∈ ops, op.Valid

theorem inv_run (ops : List Op) (l : Loss) (hv : Valid ops) (h : AcctInv l) : AcctInv (run l ops) := by
  induction ops generalizing l with
  | nil => simpa [run] using h
  | cons op rest ih =>
    simp only [run, List.foldl_cons]
    exact ih _ (fun o ho => hv o (List.mem_cons_of_mem _ ho)) (inv_step l op (hv op List.mem_cons_self) h)

/-- States reachable from `lossState.init` with a positive maximum datagram size. -/
def Reachable (l : Loss) : Prop := ∃ mds ops, 0 < mds ∧ Valid ops ∧ l = run (Loss.init mds) ops

theorem reachable_inv {l : Loss} (h : Reachable l) : AcctInv l := by
  obtain ⟨mds, ops, hm, hv, rfl⟩ := h
  exact inv_run ops _ hv (inv_init mds hm)

/-- **Bytes in flight always equal the sizes of the in-flight packets that have no fate yet, and
are never negative** — after any history, for any RTT-estimator inputs. -/
theorem bytesInFlight_exact {l : Loss} (h : Reachable l) :
    l.cc.bytesInFlight = lossFlight l ∧ 0 ≤ l.cc.bytesInFlight := by
  have hi := reachable_inv h
  refine ⟨hi.flight_eq, ?_⟩
  rw [hi.flight_eq]
  have a := flightSum_nonneg _ hi.sz0
  have b := flightSum_nonneg _ hi.sz1
  have c := flightSum_nonneg _ hi.sz2
  simp only [lossFlight]; omega

/-- **The congestion window never drops below the minimum window** `2·maxDatagramSize`,
and the datagram size never changes. -/
theorem cwnd_ge_minimum {l : Loss} (h : Reachable l) : 2 * l.cc.mds ≤ l.cc.cwnd ∧ 0 < l.cc.mds := by
  have hi := reachable_inv h
  exact ⟨hi.cwnd, hi.mds⟩

end NetVerif.Proofs.C26
