import NetVerif.Model.Punycode
import NetVerif.Gen.C50
import NetVerif.Proofs.Lemmas.Punycode
import NetVerif.Proofs.Lemmas.PunycodeString
import NetVerif.Proofs.Lemmas.PunycodeConverse
/-!
C50 — IDNA produces canonical A-labels and is idempotent; Punycode encode/decode are inverse.

* T-tie: the RFC 3492 parameters, `madd`, the digit maps, the four pieces of `adapt`, the inline
  threshold computations and digit expressions are regenerated from idna/punycode.go
  (`Gen.C50`) and proved equal to the model.
* Digit layer and generalized variable-length integer layer: round trip in both directions for
  every `(delta, bias)`.
* String level: `decode_encode_holds` — `decode (encode s) = s` for every string of at most 1024
  scalar values (the decoder's output limit), with no further hypothesis: the insertion-order
  argument of RFC 3492 §6.2/6.3 (`Lemmas/PunycodeString.lean`), including the proof that the
  decoder's int32 weights never overflow on encoder output (`varint_roundtrip_sharp`).
  `encode_decode_holds` — the converse: whatever `decode` accepts re-encodes to the same string up
  to the ASCII case of its digits (`Lemmas/PunycodeConverse.lean`: every decoder run is the replay
  of a delta sequence; the sequence is monotone in (code point, position), so it is determined by
  its result (`last_insert_unique`, `replay_inj`); the encoder's output on the result decodes to
  the same result, hence carries the same deltas and, by `varint_canonical`, the same digits).
* A-label branch of `Profile.process` (Punycode profile, exact model): `alabel_holds` — undecodable
  payloads and payloads decoding to ASCII only (or to nothing) are rejected, whatever `unicode16`.
* `monitor_sound`: every observation the V-tie monitor accepts satisfies the property clauses.
-/
set_option linter.unusedSimpArgs false
set_option linter.unusedTactic false
set_option linter.unreachableTactic false
set_option linter.unusedVariables false

namespace NetVerif.Proofs.C50
open NetVerif NetVerif.Model.Punycode NetVerif.Proofs.Lemmas.Punycode

/-! ## T-tie: regenerated constants and straight-line code -/

theorem gen_consts_eq :
    Gen.C50.base = (base : Int) ∧ Gen.C50.damp = (damp : Int) ∧ Gen.C50.initialBias = (initialBias : Int) ∧
    Gen.C50.initialN = (initialN : Int) ∧ Gen.C50.skew = (skew : Int) ∧ Gen.C50.tmax = (tmax : Int) ∧
    Gen.C50.tmin = (tmin : Int) ∧ Gen.C50.acePrefix = acePrefix := by
  decide

/-- `madd` as translated = model, for all non-negative int32 arguments (as used by the code). -/
theorem gen_madd_eq (a b c : Nat) :
    Gen.C50.madd a b c = some (match madd a b c with | some v => ((v : Int), false) | none => (0, true)) := by
  unfold Gen.C50.madd madd maxInt32
  have h : ((b : Int) * (c : Int)) = ((b * c : Nat) : Int) := by simp
  simp only [h]
  split <;> split <;> simp_all <;> omega

theorem gen_decodeDigit_eq (x : Nat) :
    Gen.C50.decodeDigit x = some (match decodeDigit x with | some d => ((d : Int), true) | none => (0, false)) := by
  unfold Gen.C50.decodeDigit decodeDigit
  by_cases h1 : 48 ≤ x ∧ x ≤ 57
  · have : ((48 : Int) ≤ x ∧ (x : Int) ≤ 57) := by omega
    simp [h1, this] <;> omega
  · have n1 : ¬ ((48 : Int) ≤ x ∧ (x : Int) ≤ 57) := by omega
    by_cases h2 : 65 ≤ x ∧ x ≤ 90
    · have : ((65 : Int) ≤ x ∧ (x : Int) ≤ 90) := by omega
      simp [h1, n1, h2, this] <;> omega
    · have n2 : ¬ ((65 : Int) ≤ x ∧ (x : Int) ≤ 90) := by omega
      by_cases h3 : 97 ≤ x ∧ x ≤ 122
      · have : ((97 : Int) ≤ x ∧ (x : Int) ≤ 122) := by omega
        simp [h1, n1, h2, n2, h3, this] <;> omega
      · have n3 : ¬ ((97 : Int) ≤ x ∧ (x : Int) ≤ 122) := by omega
        simp [h1, n1, h2, n2, h3, n3]

theorem gen_encodeDigit_eq (d : Nat) :
    Gen.C50.encodeDigit d = (encodeDigit d).map (fun c => (c : Int)) := by
  have e : ∀ a b : Int, Int.emod a b = a % b := fun _ _ => rfl
  unfold Gen.C50.encodeDigit encodeDigit
  simp only [e]
  by_cases h1 : d < 26
  · have : ((0 : Int) ≤ d ∧ (d : Int) < 26) := by omega
    simp [h1, this] <;> omega
  · have n1 : ¬ ((0 : Int) ≤ d ∧ (d : Int) < 26) := by omega
    by_cases h2 : d < 36
    · have : ((26 : Int) ≤ d ∧ (d : Int) < 36) := by omega
      simp [h1, n1, h2, this] <;> omega
    · have n2 : ¬ ((26 : Int) ≤ d ∧ (d : Int) < 36) := by omega
      simp [h1, n1, h2, n2]

theorem gen_threshold_eq (k bias : Nat) :
    Gen.C50.thresholdDecode k bias = some (threshold k bias : Int) ∧
    Gen.C50.thresholdEncode k bias = some (threshold k bias : Int) := by
  unfold Gen.C50.thresholdDecode Gen.C50.thresholdEncode threshold tmin tmax
  constructor <;> (repeat' split) <;> simp_all <;> omega

theorem gen_adaptPre_eq (delta numPoints : Nat) (first : Bool) :
    Gen.C50.adaptPre delta numPoints first =
      some ((let d := if first then delta / damp else delta / 2; d + d / numPoints : Nat) : Int) := by
  unfold Gen.C50.adaptPre damp
  cases first <;> simp [Int.tdiv_eq_ediv_of_nonneg, Int.natCast_ediv] <;> norm_cast

theorem gen_adaptCond_eq (delta k : Nat) :
    Gen.C50.adaptCond delta k = decide (delta > ((base - tmin) * tmax) / 2) := by
  unfold Gen.C50.adaptCond base tmin tmax
  simp <;> omega

theorem gen_adaptBody_eq (delta k : Nat) :
    Gen.C50.adaptBody delta k = some (((delta / (base - tmin) : Nat) : Int), ((k + base : Nat) : Int)) := by
  unfold Gen.C50.adaptBody base tmin
  simp [Int.tdiv_eq_ediv_of_nonneg] <;> omega

theorem gen_adaptRet_eq (delta k : Nat) :
    Gen.C50.adaptRet delta k = some ((k + (base - tmin + 1) * delta / (delta + skew) : Nat) : Int) := by
  unfold Gen.C50.adaptRet base tmin skew
  have h : (0 : Int) ≤ (36 - 1 + 1) * (delta : Int) := by omega
  simp [Int.tdiv_eq_ediv_of_nonneg] <;> norm_cast

theorem gen_encDigitArg_eq (q t : Nat) (ht : t ≤ q) (ht' : t < 36) :
    Gen.C50.encDigitArg q t = some ((t + (q - t) % (base - t) : Nat) : Int) ∧
    Gen.C50.encNextQ q t = some (((q - t) / (base - t) : Nat) : Int) := by
  unfold Gen.C50.encDigitArg Gen.C50.encNextQ base
  have h1 : (0 : Int) ≤ (q : Int) - t := by omega
  have e1 : ((q : Int) - (t : Int)) = ((q - t : Nat) : Int) := by omega
  have e2 : ((36 : Int) - (t : Int)) = ((36 - t : Nat) : Int) := by omega
  simp only [e1, e2]
  constructor
  · simp [Int.tmod_eq_emod_of_nonneg] <;> norm_cast
  · simp [Int.tdiv_eq_ediv_of_nonneg] <;> norm_cast

theorem gen_decWeightMul_eq (t : Nat) (ht : t ≤ 36) :
    Gen.C50.decWeightMul t = some ((base - t : Nat) : Int) := by
  unfold Gen.C50.decWeightMul base
  simp
  omega

/-- The fuel of `adapt`'s loop is sufficient: for every int32-sized `delta` the loop stops because
its condition fails. -/
theorem adaptLoop_fuel (d k : Nat) (hd : d < 2 ^ 33) : (adaptLoop 32 d k).1 ≤ 455 :=
  adaptLoop_done 32 d k (by have : 2 ^ 33 ≤ 456 * 35 ^ 32 := by decide
                            omega)

/-! ## Digit layer -/

theorem decodeDigit_encDigit (d : Nat) (h : d < 36) : decodeDigit (encDigit d) = some d :=
  Lemmas.Punycode.decodeDigit_encDigit d h

theorem encodeDigit_eq_encDigit (d : Nat) (h : d < 36) : encodeDigit d = some (encDigit d) := by
  unfold encodeDigit encDigit
  split <;> simp_all

/-- `encodeDigit ∘ decodeDigit` is the identity up to ASCII case. -/
theorem encDigit_decodeDigit (c d : Nat) (h : decodeDigit c = some d) :
    encDigit d = lowerAscii c ∧ d < 36 := by
  unfold decodeDigit at h
  unfold encDigit lowerAscii
  repeat' split at h
  all_goals simp at h
  all_goals subst h
  all_goals (repeat' split)
  all_goals omega

/-- The `encodeDigit` panic is unreachable from `encode`: every digit value is `< 36`. -/
theorem encodeVar_digits_ok (bias k q : Nat) :
    ∀ c ∈ encodeVar bias k q, ∃ d, d < 36 ∧ c = encDigit d ∧ encodeDigit d = some c :=
  Lemmas.Punycode.encodeVar_digits_ok bias k q

/-! ## Generalized variable-length integers -/

/-- decode ∘ encode on one delta, for every bias, start index `i` and weight `w`, followed by
arbitrary input: the decoder stops exactly after the digits and returns `i + q*w`. The
hypothesis is the absence of int32 overflow in the decoder (the last weight it computes is at
most `35 * q * w`). -/
theorem varint_roundtrip (bias k q i w : Nat) (rest : List Nat)
    (h : i + 35 * (q * w) ≤ maxInt32) (hw : 1 ≤ w) :
    decodeVar bias k i w (encodeVar bias k q ++ rest) = some (i + q * w, rest) :=
  Lemmas.Punycode.varint_roundtrip bias k q i w rest h hw

/-- The special case used by `decode`: `w = 1`, `k = base`. -/
theorem varint_roundtrip_delta (bias delta i : Nat) (rest : List Nat)
    (h : i + 35 * delta ≤ maxInt32) :
    decodeVar bias base i 1 (encodeVar bias base delta ++ rest) = some (i + delta, rest) := by
  have := varint_roundtrip bias base delta i 1 rest (by simpa using h) (Nat.le_refl 1)
  simpa using this

/-- encode ∘ decode on one delta: whatever digit string the decoder accepts is (up to the case of
the digits) the canonical encoding of the value it returns, so the encoding is unique. -/
theorem varint_canonical (bias k i w : Nat) (inp rest : List Nat) (i' : Nat)
    (h : decodeVar bias k i w inp = some (i', rest)) :
    ∃ q ds, inp = ds ++ rest ∧ i' = i + q * w ∧ ds.map lowerAscii = encodeVar bias k q :=
  Lemmas.Punycode.varint_canonical bias k i w inp rest i' h

/-! ## String level -/

def ValidScalar (r : Nat) : Prop := r ≤ maxRune ∧ ¬ (55296 ≤ r ∧ r ≤ 57343)

/-- Full statement (goal): decode inverts encode on every string of at most 1024 scalar values
(the decoder's output limit). -/
def DecodeEncodeStatement : Prop :=
  ∀ s a : List Nat, (∀ r ∈ s, ValidScalar r) → s.length ≤ maxOutput →
    encode [] s = some a → decode a = some s

/-- Full statement (goal): encode inverts decode on every accepted ASCII input, up to the case of
the extended digits. -/
def EncodeDecodeStatement : Prop :=
  ∀ a u : List Nat, (∀ c ∈ a, c < 128) → decodeRunes a = some u → (∀ r ∈ u, ValidScalar r) →
    ∃ a', encode [] u = some a' ∧ a'.map lowerAscii = a.map lowerAscii

/-- FULL: decode inverts encode on every string of at most 1024 Unicode scalar values. The encoder
scans code points in increasing (value, position) order; the invariant `InvI`/`InvO` says that the
decoder's output is the input restricted to the code points handled so far and that the pending
delta moves the decoder's `(n, i)` exactly to the next (value, slot); both sides call `adapt` with
the same `(delta, numpoints, first)`. -/
theorem decode_encode_holds : DecodeEncodeStatement := by
  intro s a hs hlen h
  have hr : ∀ r ∈ s, r ≤ maxRune := fun r hr => (hs r hr).1
  unfold decode
  rw [Lemmas.PunycodeString.decodeRunes_encode s a hr hlen h]
  simp only [Option.map_some, Option.some.injEq]
  have : ∀ (l : List Nat), (∀ r ∈ l, ValidScalar r) → l.map goRune = l := by
    intro l hl
    induction l with
    | nil => rfl
    | cons c cs ih =>
      have hc := hl c (by simp)
      simp only [List.map_cons]
      rw [ih (fun r hr => hl r (by simp [hr]))]
      congr 1
      unfold goRune
      unfold ValidScalar at hc
      rw [if_neg]
      omega
  exact this s hs

/-- FULL converse (no side conditions): if `decode` accepts `a` with (pre-`string()`) result `u`, then
`encode` succeeds on `u` and returns `a` up to the ASCII case of the digits; in particular the
encoding is canonical and unique. -/
theorem encode_decodeRunes (a u : List Nat) (h : decodeRunes a = some u) :
    ∃ a', encode [] u = some a' ∧ a'.map lowerAscii = a.map lowerAscii :=
  Lemmas.PunycodeConverse.encode_decodeRunes a u h

theorem encode_decode_holds : EncodeDecodeStatement := by
  intro a u _ h _
  exact encode_decodeRunes a u h

/-- The encoder never fails (no int32 overflow, enough loop fuel) on at most 1024 code points. -/
theorem encode_succeeds (s : List Nat) (hs : ∀ r ∈ s, r ≤ maxRune) (hlen : s.length ≤ maxOutput) :
    ∃ a, encode [] s = some a := by
  obtain ⟨a, _, h, _⟩ := Lemmas.PunycodeConverse.encode_run s hs hlen
  exact ⟨a, h⟩

/-- The same at the level the decoder works on (before `string([]rune)`), for any code points up to
U+10FFFF (surrogate values included). -/
theorem decodeRunes_encode (s a : List Nat) (hs : ∀ r ∈ s, r ≤ maxRune) (hlen : s.length ≤ maxOutput)
    (h : encode [] s = some a) : decodeRunes a = some s :=
  Lemmas.PunycodeString.decodeRunes_encode s a hs hlen h

/-- Per-delta round trip without any overflow hypothesis on the decoder's weights (`q*w ≤ Q` covers
every delta of a string of at most 1024 code points). -/
theorem varint_roundtrip_sharp (bias delta i : Nat) (rest : List Nat)
    (hq : delta ≤ Lemmas.PunycodeString.Q) (hi : i + delta ≤ maxInt32) :
    decodeVar bias base i 1 (encodeVar bias base delta ++ rest) = some (i + delta, rest) := by
  have := Lemmas.PunycodeString.varint_roundtrip_sharp bias base delta i 1 rest 0
    (by unfold base; rfl) (by intro _; simp) (Nat.le_refl 1) (by simpa using hq) (by simpa using hi)
  simpa using this

/-- The basic-code-point layer on its own (also holds for ASCII strings longer than 1024). For an
all-ASCII string `encode` is `s ++ "-"` (nothing for the empty string) and `decode` returns `s`. -/
theorem decode_encode_ascii_partial (s : List Nat) (hs : ∀ r ∈ s, r < 128) :
    encode [] s = some (if s = [] then [] else s ++ [hyphen]) ∧
    decode (if s = [] then [] else s ++ [hyphen]) = some s :=
  Lemmas.Punycode.decode_encode_ascii s hs

/-- Partial: the output of `encode` always starts with the prefix, then the basic code points of
`s` in order, then `-` iff there is at least one. -/
theorem encode_basic_prefix_partial (pfx s a : List Nat) (h : encode pfx s = some a) :
    (pfx ++ s.filter (· < 128) ++ (if (s.filter (· < 128)).length > 0 then [hyphen] else [])) <+: a :=
  Lemmas.Punycode.encode_basic_prefix pfx s a h

/-! ## A-label branch of `Profile.process` -/

/-- The property clause on the exact model of `Punycode.process`: a domain with an `xn--` label
whose payload is undecodable or decodes to ASCII only (possibly to nothing) is rejected. -/
def ALabelStatement (u16 : Bool) : Prop :=
  ∀ (toASCII : Bool) (s : List Nat),
    (splitDots s).any (fun l => undecodableALabel l || asciiOnlyALabel l) = true →
    (processPunycode u16 toASCII s).2 = true

/-- Full statement, for both values of `unicode16`, ToASCII and ToUnicode. (Before the repair of
idna.go the ASCII-only clause was gated on `unicode16` and on `len(u) > 0`.) -/
theorem alabel_holds (u16 : Bool) : ALabelStatement u16 := by
  intro toASCII s h
  exact Lemmas.Punycode.alabel_holds u16 toASCII s h

/-! ## V-tie monitor -/

/-- What an accepted observation guarantees. -/
def ObsOK (o : Obs) : Prop :=
  (asciiLower o.x = true → (splitDots o.x).any badALabel = true → o.ae = true ∧ o.ue = true) ∧
  (asciiLower o.x = true → o.ue = false → o.u = expectedUnicode o.x) ∧
  (o.ae = false →
    (o.vonly = false → o.aa = o.a ∧ o.aae = false) ∧
    (transitionalDeviation o = false → o.vonly = false → (splitDots o.u).any hasAce = false → o.au = o.a ∧ o.aue = false) ∧
    (splitDots o.a).all aceLabelCanonical = true)

theorem monitor_sound (o : Obs) (h : monitorObs o = none) : ObsOK o := by
  unfold monitorObs at h
  unfold ObsOK
  repeat' split at h
  all_goals simp_all
  all_goals (first | assumption | (intro h1 l hl h2; simp_all) | skip)

/-! ## Non-vacuity -/

example : encode [] [98, 252, 99, 104, 101, 114] = some [98, 99, 104, 101, 114, 45, 107, 118, 97] := by
  decide +kernel
example : decode [98, 99, 104, 101, 114, 45, 107, 118, 97] = some [98, 252, 99, 104, 101, 114] := by decide
example : decodeVar 72 36 0 1 (encodeVar 72 36 745 ++ [7]) = some (745, [7]) := by decide +kernel
example : undecodableALabel [120, 110, 45, 45, 45] = true := by decide
/-- "xn--ü-": a non-basic code point in the literal part is a decoding error. -/
example : undecodableALabel [120, 110, 45, 45, 252, 45] = true := by decide
example : asciiOnlyALabel [120, 110, 45, 45, 97, 98, 99, 45] = true := by decide
/-- Former counterexamples ("xn--abc-", "xn--"): now rejected (the partially processed result is still returned). -/
example : processPunycode false true [120, 110, 45, 45, 97, 98, 99, 45] = ([97, 98, 99], true) := by decide
example : processPunycode true true [120, 110, 45, 45] = ([], true) := by decide
example : processPunycode false false [120, 110, 45, 45, 120, 110, 45, 45, 97, 98, 99, 45, 45] =
    ([120, 110, 45, 45, 97, 98, 99, 45], true) := by decide
def sampleObs : Obs where
  transitional := false
  vonly := false
  x := [252]
  a := [120, 110, 45, 45, 116, 100, 97]
  ae := false
  aa := [120, 110, 45, 45, 116, 100, 97]
  aae := false
  u := [252]
  ue := false
  au := [120, 110, 45, 45, 116, 100, 97]
  aue := false

example : monitorObs sampleObs = none := by decide +kernel

end NetVerif.Proofs.C50
