/- C60, part 3: socket control messages (ancillary data) of ipv4 / ipv6 on linux/amd64. -/
import NetVerif.Model.CtlMsg
import NetVerif.Gen.C60Ctl
namespace NetVerif.Proofs.C60Ctl
open NetVerif NetVerif.Model.CtlMsg

/-! ### little-endian fields -/

theorem rdU32_le32 (x : Int) (h0 : 0 ≤ x) (h1 : x < 4294967296) (rest : List Nat) :
    ((rdU32 (le32 x ++ rest) : Nat) : Int) = x := by
  simp [rdU32, le32]; omega

theorem rdI32_le32 (x : Int) (h0 : -2147483648 ≤ x) (h1 : x < 2147483648) (rest : List Nat) :
    rdI32 (le32 x ++ rest) = x := by
  unfold rdI32
  have : ((rdU32 (le32 x ++ rest) : Nat) : Int) = x % 4294967296 := by
    simp [rdU32, le32]; omega
  split <;> omega

theorem le32_length (x : Int) : (le32 x).length = 4 := by simp [le32]
theorem le64_length (x : Int) : (le64 x).length = 8 := by simp [le64, le32]

theorem rdI64_le64 (n : Nat) (h : n < 4294967296) (rest : List Nat) : rdI64 (le64 (n : Int) ++ rest) = n := by
  unfold rdI64 rdU64
  have e1 : ((n : Int) % 4294967296) = n := by omega
  have e2 : ((n : Int) / 4294967296 % 4294967296) = 0 := by omega
  have h1 : rdU32 (le64 (n : Int) ++ rest) = n := by
    have := rdU32_le32 (n : Int) (by omega) (by omega) (le32 ((n : Int) / 4294967296 % 4294967296) ++ rest)
    unfold le64; rw [e1, List.append_assoc]; omega
  have h2 : rdU32 ((le64 (n : Int) ++ rest).drop 4) = 0 := by
    unfold le64; rw [e1, e2]
    simp [le32, rdU32]
  rw [h1, h2]
  split <;> omega

/-- A message as `ControlMessage.Parse` returns it: header and data, without padding. -/
def raw (lvl typ : Int) (data : List Nat) : List Nat :=
  le64 (cmsgLen data.length : Nat) ++ le32 lvl ++ le32 typ ++ data

theorem raw_length (lvl typ : Int) (data : List Nat) : (raw lvl typ data).length = 16 + data.length := by
  simp [raw, le64_length, le32_length]; omega

theorem mkCmsg_eq (lvl typ : Int) (data : List Nat) :
    mkCmsg lvl typ data = raw lvl typ data ++ zeros (cmsgSpace data.length - cmsgLen data.length) := by
  simp [mkCmsg, raw]

theorem msgHeader_raw (lvl typ : Int) (data : List Nat)
    (hl : -2147483648 ≤ lvl ∧ lvl < 2147483648) (ht : -2147483648 ≤ typ ∧ typ < 2147483648) :
    msgHeader (raw lvl typ data) = (lvl, typ, data) := by
  unfold msgHeader raw
  have d8 : (le64 (cmsgLen data.length : Nat) ++ le32 lvl ++ le32 typ ++ data).drop 8 = le32 lvl ++ (le32 typ ++ data) := by
    simp [le64, le32]
  have d12 : (le64 (cmsgLen data.length : Nat) ++ le32 lvl ++ le32 typ ++ data).drop 12 = le32 typ ++ data := by
    simp [le64, le32]
  have d16 : (le64 (cmsgLen data.length : Nat) ++ le32 lvl ++ le32 typ ++ data).drop hdrLen = data := by
    simp [le64, le32, hdrLen]
  rw [d8, d12, d16, rdI32_le32 lvl hl.1 hl.2, rdI32_le32 typ ht.1 ht.2]

/-- **`ControlMessage.Parse` splits a padded message off the front.** -/
theorem splitMsgs_mkCmsg (fuel : Nat) (lvl typ : Int) (data rest : List Nat) (hd : data.length < 4294967000) :
    splitMsgs (fuel + 1) (mkCmsg lvl typ data ++ rest) =
      (match splitMsgs fuel rest with
       | .error e => .error e
       | .ok ms => .ok (raw lvl typ data :: ms)) := by
  have hpad : cmsgSpace data.length - cmsgLen data.length = cmsgSpace data.length - (16 + data.length) := by
    simp [cmsgLen, hdrLen]
  have hsp : 16 + data.length ≤ cmsgSpace data.length := by unfold cmsgSpace hdrLen; omega
  have hlen : (mkCmsg lvl typ data).length = cmsgSpace data.length := by
    rw [mkCmsg_eq, List.length_append, raw_length, hpad]; simp [zeros]; omega
  rw [splitMsgs]
  have hge : (mkCmsg lvl typ data ++ rest).length ≥ hdrLen := by
    rw [List.length_append, hlen]; unfold hdrLen; omega
  rw [if_pos hge]
  have hrd : rdI64 (mkCmsg lvl typ data ++ rest) = ((16 + data.length : Nat) : Int) := by
    have : mkCmsg lvl typ data ++ rest = le64 ((cmsgLen data.length : Nat) : Int) ++
        (le32 lvl ++ le32 typ ++ data ++ zeros (cmsgSpace data.length - cmsgLen data.length) ++ rest) := by
      simp [mkCmsg]
    rw [this, rdI64_le64 _ (by unfold cmsgLen hdrLen; omega)]
    simp [cmsgLen, hdrLen]
  simp only [hrd]
  have c1 : ¬ (((16 + data.length : Nat) : Int) ≤ 0) := by omega
  have c2 : ¬ ((((16 + data.length : Nat) : Int)).toNat < hdrLen) := by rw [Int.toNat_natCast]; unfold hdrLen; omega
  have c3 : ¬ ((((16 + data.length : Nat) : Int)).toNat > (mkCmsg lvl typ data ++ rest).length) := by
    rw [List.length_append, hlen]; simp; omega
  rw [if_neg c1, if_neg c2, if_neg c3]
  have e1 : (((16 + data.length : Nat) : Int)).toNat = 16 + data.length := Int.toNat_natCast _
  rw [e1]
  have e2 : 16 + data.length - hdrLen = data.length := by simp [hdrLen]
  rw [e2]
  have c4 : (mkCmsg lvl typ data ++ rest).length ≥ cmsgSpace data.length := by
    rw [List.length_append, hlen]; omega
  rw [if_pos c4]
  have hdrop : (mkCmsg lvl typ data ++ rest).drop (cmsgSpace data.length) = rest := by
    rw [← hlen, List.drop_left]
  have htake : (mkCmsg lvl typ data ++ rest).take (16 + data.length) = raw lvl typ data := by
    rw [mkCmsg_eq, List.append_assoc, ← raw_length lvl typ data, List.take_left]
  rw [hdrop, htake]
  cases splitMsgs fuel rest <;> rfl


theorem splitMsgs_nil (fuel : Nat) : splitMsgs fuel [] = .ok [] := by
  cases fuel with
  | zero => rfl
  | succ k => rw [splitMsgs]; simp [hdrLen]

abbrev M := Int × Int × List Nat

/-- A sequence of padded control messages, as `Marshal` (or the kernel) lays them out. -/
def enc (ms : List M) : List Nat := ms.flatMap (fun m => mkCmsg m.1 m.2.1 m.2.2)

theorem split_enc (ms : List M) (hs : ∀ m ∈ ms, m.2.2.length < 4294967000) :
    ∀ fuel, ms.length ≤ fuel → splitMsgs fuel (enc ms) = .ok (ms.map (fun m => raw m.1 m.2.1 m.2.2)) := by
  induction ms with
  | nil => intro fuel _; exact splitMsgs_nil fuel
  | cons m r ih =>
    intro fuel hf
    cases fuel with
    | zero => simp at hf
    | succ k =>
      simp only [enc, List.flatMap_cons]
      rw [splitMsgs_mkCmsg k m.1 m.2.1 m.2.2 _ (hs m (by simp))]
      have := ih (fun x hx => hs x (by simp [hx])) k (by simpa using hf)
      simp only [enc] at this
      rw [this]
      rfl

theorem enc_length_ge (ms : List M) : ms.length ≤ (enc ms).length := by
  induction ms with
  | nil => simp [enc]
  | cons m r ih =>
    simp only [enc, List.flatMap_cons, List.length_append, List.length_cons] at ih ⊢
    have : 1 ≤ (mkCmsg m.1 m.2.1 m.2.2).length := by simp [mkCmsg, le64, le32]
    omega

/-! ### IPv4 -/

/-- One message never triggers a nil-function call (repaired `Parse`: every case is guarded by
`ctlOpts[...].name > 0`). -/
theorem cm4_apply_isSome (cm : CM4) (m : List Nat) : (cm.apply m).isSome = true := by
  unfold CM4.apply
  simp only
  (repeat' split) <;> rfl

theorem cm4_applyAll_isSome (ms : List (List Nat)) : ∀ cm : CM4, (cm.applyAll ms).isSome = true := by
  induction ms with
  | nil => intro cm; rfl
  | cons m r ih =>
    intro cm
    unfold CM4.applyAll at ih ⊢
    rw [List.foldl_cons, Option.bind_some]
    have := cm4_apply_isSome cm m
    cases h : cm.apply m with
    | none => rw [h] at this; simp at this
    | some c => exact ih c

/-- **Totality**: `ipv4.ControlMessage.Parse` never panics — for every byte string the result is a
control message or one of the three `internal/socket` errors. (Before the repair a message of level
`IPPROTO_IP` and type 0 called a nil function.) -/
theorem cm4_parse_total (cm : CM4) (b : List Nat) : (∃ c, cm.parse b = .ok c) ∨ (∃ e, cm.parse b = .err e) := by
  unfold CM4.parse
  cases splitMsgs (b.length + 1) b with
  | error e => right; exact ⟨e, rfl⟩
  | ok ms =>
    left
    have := cm4_applyAll_isSome ms cm
    cases h : cm.applyAll ms with
    | none => rw [h] at this; simp at this
    | some c => exact ⟨c, by simp [h]⟩

/-- The old witness (16 bytes: length 16, level 0, type 0) is now ignored like any unknown option. -/
example : (match CM4.zero.parse [16, 0, 0, 0, 0, 0, 0, 0, 0, 0, 0, 0, 0, 0, 0, 0] with
    | .ok c => decide (c = CM4.zero) | _ => false) = true := by decide

theorem cm4_parse_enc (cm0 : CM4) (ms : List M) (hs : ∀ m ∈ ms, m.2.2.length < 4294967000) :
    cm0.parse (enc ms) =
      (match cm0.applyAll (ms.map (fun m => raw m.1 m.2.1 m.2.2)) with | none => .panic | some c => .ok c) := by
  unfold CM4.parse
  rw [split_enc ms hs _ (by have := enc_length_ge ms; omega)]
  rfl

theorem cm4_apply_raw (cm : CM4) (lvl typ : Int) (data : List Nat)
    (hl : -2147483648 ≤ lvl ∧ lvl < 2147483648) (ht : -2147483648 ≤ typ ∧ typ < 2147483648) :
    cm.apply (raw lvl typ data) =
      (if lvl ≠ protocolIP then some cm
       else if typ = ipTTL ∧ data.length ≥ 1 then some { cm with ttl := (data.getD 0 0 : Nat) }
       else if typ = ipPktinfo ∧ data.length ≥ sizeofInetPktinfo then
         some { cm with ifIndex := rdI32 data,
                        dst := (if cm.dst.length < 4 then (data.drop 8).take 4
                                else (data.drop 8).take 4 ++ cm.dst.drop 4) }
       else some cm) := by
  unfold CM4.apply
  rw [msgHeader_raw lvl typ data hl ht]

/-- The `in_pktinfo` payload `Marshal` writes. -/
def pktinfo4 (cm : CM4) : List Nat :=
  (if cm.ifIndex > 0 then le32 cm.ifIndex else zeros 4) ++ (if isV4 cm.src then to4 cm.src else zeros 4) ++ zeros 4

theorem pktinfo4_facts (cm : CM4) (hi : cm.ifIndex < 2147483648) :
    (pktinfo4 cm).length = 12 ∧ rdI32 (pktinfo4 cm) = (if cm.ifIndex > 0 then cm.ifIndex else 0) ∧
    ((pktinfo4 cm).drop 8).take 4 = zeros 4 := by
  have hsp : (if isV4 cm.src then to4 cm.src else zeros 4).length = 4 := by
    split
    · rename_i h
      unfold isV4 at h
      unfold to4
      split <;> simp_all
    · simp [zeros]
  have hif : (if cm.ifIndex > 0 then le32 cm.ifIndex else zeros 4).length = 4 := by
    split <;> simp [le32, zeros]
  refine ⟨by simp only [pktinfo4, List.length_append, hsp, hif]; simp [zeros], ?_, ?_⟩
  · unfold pktinfo4
    split
    · rw [List.append_assoc]
      exact rdI32_le32 _ (by omega) hi _
    · simp [rdI32, rdU32, zeros]
  · unfold pktinfo4
    have : ((if cm.ifIndex > 0 then le32 cm.ifIndex else zeros 4) ++
        (if isV4 cm.src then to4 cm.src else zeros 4)).length = 8 := by simp [hsp, hif]
    rw [← this, List.drop_left]
    simp [zeros]

/-- **IPv4 control message, Marshal then Parse** (Linux): the interface index survives; the source
address travels as `Spec_dst`, which `Parse` does not read (`Dst`, read from `Addr`, is receive-only),
and TTL is never marshalled. -/
theorem cm4_roundtrip (cm : CM4) (hi : cm.ifIndex < 2147483648) :
    CM4.zero.parse cm.marshal =
      .ok (if isV4 cm.src || decide (cm.ifIndex > 0) then ⟨0, [], zeros 4, if cm.ifIndex > 0 then cm.ifIndex else 0⟩
           else CM4.zero) := by
  obtain ⟨f1, f2, f3⟩ := pktinfo4_facts cm hi
  have hm : cm.marshal = if isV4 cm.src || decide (cm.ifIndex > 0) then enc [(protocolIP, ipPktinfo, pktinfo4 cm)] else enc [] := by
    unfold CM4.marshal pktinfo4 enc
    split <;> simp
  rw [hm]
  split
  · rw [cm4_parse_enc _ _ (by intro m hm; simp at hm; subst hm; simp only; omega)]
    simp only [List.map_cons, List.map_nil, CM4.applyAll, List.foldl_cons, List.foldl_nil, Option.bind_some]
    rw [cm4_apply_raw _ _ _ _ (by decide) (by decide)]
    have e1 : ¬ (protocolIP ≠ protocolIP) := by simp
    have e2 : ¬ (ipPktinfo = ipTTL ∧ (pktinfo4 cm).length ≥ 1) := by intro h; exact absurd h.1 (by decide)
    have e4 : ipPktinfo = ipPktinfo ∧ (pktinfo4 cm).length ≥ sizeofInetPktinfo := ⟨rfl, by rw [f1]; decide⟩
    rw [if_neg e1, if_neg e2, if_pos e4]
    simp [CM4.zero, f2, f3]
  · rw [cm4_parse_enc _ _ (by simp)]
    simp [CM4.applyAll]

/-- **IPv4, receive format**: a TTL message followed by an `in_pktinfo` message (as the kernel delivers them
with IP_RECVTTL / IP_PKTINFO) parses to exactly those values. -/
theorem cm4_receive (ttl : Nat) (ifi : Int) (hi : -2147483648 ≤ ifi ∧ ifi < 2147483648)
    (spec dst : List Nat) (hs : spec.length = 4) (hd : dst.length = 4) :
    CM4.zero.parse (enc [(protocolIP, ipTTL, [ttl]), (protocolIP, ipPktinfo, le32 ifi ++ spec ++ dst)]) =
      .ok ⟨ttl, [], dst, ifi⟩ := by
  have hl : (le32 ifi ++ spec ++ dst).length = 12 := by simp [le32, hs, hd]
  have hrd : rdI32 (le32 ifi ++ spec ++ dst) = ifi := by
    rw [List.append_assoc]; exact rdI32_le32 _ hi.1 hi.2 _
  have hdst : ((le32 ifi ++ spec ++ dst).drop 8).take 4 = dst := by
    have : (le32 ifi ++ spec).length = 8 := by simp [le32, hs]
    rw [← this, List.drop_left, ← hd, List.take_length]
  rw [cm4_parse_enc _ _ (by
    intro m hm
    simp only [List.mem_cons, List.not_mem_nil, or_false] at hm
    rcases hm with h | h <;> subst h <;> simp only [List.length_cons, List.length_nil, hl] <;> omega)]
  simp only [List.map_cons, List.map_nil, CM4.applyAll, List.foldl_cons, List.foldl_nil, Option.bind_some]
  rw [cm4_apply_raw _ _ _ _ (by decide) (by decide)]
  have e1 : ¬ (protocolIP ≠ protocolIP) := by simp
  have e2 : ipTTL = ipTTL ∧ [ttl].length ≥ 1 := ⟨rfl, by simp⟩
  rw [if_neg e1, if_pos e2]
  simp only [Option.bind_some]
  rw [cm4_apply_raw _ _ _ _ (by decide) (by decide)]
  have e3 : ¬ (ipPktinfo = ipTTL ∧ (le32 ifi ++ spec ++ dst).length ≥ 1) := by intro h; exact absurd h.1 (by decide)
  have e5 : ipPktinfo = ipPktinfo ∧ (le32 ifi ++ spec ++ dst).length ≥ sizeofInetPktinfo := ⟨rfl, by rw [hl]; decide⟩
  rw [if_neg e1, if_neg e3, if_pos e5]
  simp [CM4.zero]
  exact ⟨by rw [← List.append_assoc]; exact hdst, by rw [← List.append_assoc]; exact hrd⟩


/-! ### IPv6 -/

theorem cm6_parse_enc (cm0 : CM6) (ms : List M) (hs : ∀ m ∈ ms, m.2.2.length < 4294967000) :
    cm0.parse (enc ms) = .ok ((ms.map (fun m => raw m.1 m.2.1 m.2.2)).foldl CM6.apply cm0) := by
  unfold CM6.parse
  rw [split_enc ms hs _ (by have := enc_length_ge ms; omega)]

theorem cm6_apply_raw (cm : CM6) (lvl typ : Int) (data : List Nat)
    (hl : -2147483648 ≤ lvl ∧ lvl < 2147483648) (ht : -2147483648 ≤ typ ∧ typ < 2147483648) :
    cm.apply (raw lvl typ data) =
      (if lvl ≠ protocolIPv6 then cm
       else if typ = ipv6Tclass ∧ data.length ≥ 4 then { cm with trafficClass := (rdU32 data : Nat) }
       else if typ = ipv6Hoplimit ∧ data.length ≥ 4 then { cm with hopLimit := (rdU32 data : Nat) }
       else if typ = ipv6Pktinfo ∧ data.length ≥ sizeofInet6Pktinfo then
         { cm with dst := setDst16 cm.dst (data.take 16), ifIndex := rdI32 (data.drop 16) }
       else if typ = ipv6Pathmtu ∧ data.length ≥ sizeofIPv6Mtuinfo then
         { cm with dst := setDst16 cm.dst ((data.drop 8).take 16), ifIndex := (rdU32 (data.drop 24) : Nat),
                   mtu := (rdU32 (data.drop 28) : Nat) }
       else cm) := by
  unfold CM6.apply
  rw [msgHeader_raw lvl typ data hl ht]

theorem cm6_apply_tclass (cm : CM6) (x : Int) (h : 0 ≤ x ∧ x < 4294967296) :
    cm.apply (raw protocolIPv6 ipv6Tclass (le32 x)) = { cm with trafficClass := x } := by
  rw [cm6_apply_raw _ _ _ _ (by decide) (by decide)]
  have e1 : ¬ (protocolIPv6 ≠ protocolIPv6) := by simp
  have e2 : ipv6Tclass = ipv6Tclass ∧ (le32 x).length ≥ 4 := ⟨rfl, by simp [le32]⟩
  rw [if_neg e1, if_pos e2]
  have := rdU32_le32 x h.1 h.2 []
  simp only [List.append_nil] at this
  rw [this]

theorem cm6_apply_hoplimit (cm : CM6) (x : Int) (h : 0 ≤ x ∧ x < 4294967296) :
    cm.apply (raw protocolIPv6 ipv6Hoplimit (le32 x)) = { cm with hopLimit := x } := by
  rw [cm6_apply_raw _ _ _ _ (by decide) (by decide)]
  have e1 : ¬ (protocolIPv6 ≠ protocolIPv6) := by simp
  have e2 : ¬ (ipv6Hoplimit = ipv6Tclass ∧ (le32 x).length ≥ 4) := by intro h; exact absurd h.1 (by decide)
  have e3 : ipv6Hoplimit = ipv6Hoplimit ∧ (le32 x).length ≥ 4 := ⟨rfl, by simp [le32]⟩
  rw [if_neg e1, if_neg e2, if_pos e3]
  have := rdU32_le32 x h.1 h.2 []
  simp only [List.append_nil] at this
  rw [this]

theorem cm6_apply_pktinfo (cm : CM6) (addr : List Nat) (ha : addr.length = 16) (ifi : Int)
    (h : -2147483648 ≤ ifi ∧ ifi < 2147483648) :
    cm.apply (raw protocolIPv6 ipv6Pktinfo (addr ++ le32 ifi)) =
      { cm with dst := setDst16 cm.dst addr, ifIndex := ifi } := by
  rw [cm6_apply_raw _ _ _ _ (by decide) (by decide)]
  have e1 : ¬ (protocolIPv6 ≠ protocolIPv6) := by simp
  have e2 : ¬ (ipv6Pktinfo = ipv6Tclass ∧ (addr ++ le32 ifi).length ≥ 4) := by intro h; exact absurd h.1 (by decide)
  have e3 : ¬ (ipv6Pktinfo = ipv6Hoplimit ∧ (addr ++ le32 ifi).length ≥ 4) := by intro h; exact absurd h.1 (by decide)
  have e4 : ipv6Pktinfo = ipv6Pktinfo ∧ (addr ++ le32 ifi).length ≥ sizeofInet6Pktinfo :=
    ⟨rfl, by simp [le32, ha, sizeofInet6Pktinfo]⟩
  rw [if_neg e1, if_neg e2, if_neg e3, if_pos e4]
  have t : (addr ++ le32 ifi).take 16 = addr := by rw [← ha, List.take_left]
  have d : (addr ++ le32 ifi).drop 16 = le32 ifi := by rw [← ha, List.drop_left]
  have r := rdI32_le32 ifi h.1 h.2 []
  simp only [List.append_nil] at r
  rw [t, d, r]

/-- The `in6_pktinfo` payload `Marshal` writes. -/
def pktinfo6 (cm : CM6) : List Nat :=
  (if isV6only cm.src then cm.src else zeros 16) ++ (if cm.ifIndex > 0 then le32 cm.ifIndex else zeros 4)

/-- **IPv6 control message, Marshal then Parse** (Linux): traffic class, hop limit and interface index
survive; the address of `in6_pktinfo` is written from `Src` and read back as `Dst`; `NextHop` has no
control option on Linux and `MTU` is receive-only. -/
theorem cm6_roundtrip (cm : CM6) (htc : 0 ≤ cm.trafficClass ∧ cm.trafficClass < 4294967296)
    (hhl : 0 ≤ cm.hopLimit ∧ cm.hopLimit < 4294967296) (hi : 0 ≤ cm.ifIndex ∧ cm.ifIndex < 2147483648) :
    CM6.zero.parse cm.marshal =
      .ok ⟨cm.trafficClass, cm.hopLimit, [],
           (if isV6only cm.src || decide (cm.ifIndex > 0) then (if isV6only cm.src then cm.src else zeros 16) else []),
           cm.ifIndex, [], 0⟩ := by
  have hm : cm.marshal = enc ((if cm.trafficClass > 0 then [(protocolIPv6, ipv6Tclass, le32 cm.trafficClass)] else []) ++
      (if cm.hopLimit > 0 then [(protocolIPv6, ipv6Hoplimit, le32 cm.hopLimit)] else []) ++
      (if isV6only cm.src || decide (cm.ifIndex > 0) then
        [(protocolIPv6, ipv6Pktinfo, (if isV6only cm.src then cm.src else zeros 16) ++ (if cm.ifIndex > 0 then le32 cm.ifIndex else le32 0))] else [])) := by
    unfold CM6.marshal enc
    have hz : le32 0 = zeros 4 := by decide
    rw [hz]
    split <;> split <;> split <;> simp
  have hal : ((if isV6only cm.src then cm.src else zeros 16)).length = 16 := by
    split
    · rename_i h; unfold isV6only at h; simp at h; exact h.1
    · simp [zeros]
  rw [hm, cm6_parse_enc _ _ (by
    intro m hmm
    simp only [List.mem_append] at hmm
    rcases hmm with (h | h) | h
    · split at h <;> simp at h; subst h; simp [le32]
    · split at h <;> simp at h; subst h; simp [le32]
    · split at h <;> simp at h; subst h
      simp only [List.length_append, hal]
      split <;> simp [le32])]
  simp only [List.map_append, List.foldl_append]
  -- traffic class
  have s1 : List.foldl CM6.apply CM6.zero
      (List.map (fun m => raw m.1 m.2.1 m.2.2) (if cm.trafficClass > 0 then [(protocolIPv6, ipv6Tclass, le32 cm.trafficClass)] else [])) =
      { CM6.zero with trafficClass := cm.trafficClass } := by
    split
    · simp only [List.map_cons, List.map_nil, List.foldl_cons, List.foldl_nil]
      exact cm6_apply_tclass _ _ htc
    · have : cm.trafficClass = 0 := by omega
      simp [CM6.zero, this]
  rw [s1]
  have s2 : ∀ c : CM6, List.foldl CM6.apply c
      (List.map (fun m => raw m.1 m.2.1 m.2.2) (if cm.hopLimit > 0 then [(protocolIPv6, ipv6Hoplimit, le32 cm.hopLimit)] else [])) =
      (if cm.hopLimit > 0 then { c with hopLimit := cm.hopLimit } else c) := by
    intro c
    split
    · simp only [List.map_cons, List.map_nil, List.foldl_cons, List.foldl_nil]
      exact cm6_apply_hoplimit _ _ hhl
    · rfl
  rw [s2]
  have hcur : (if cm.hopLimit > 0 then { ({ CM6.zero with trafficClass := cm.trafficClass } : CM6) with hopLimit := cm.hopLimit }
      else { CM6.zero with trafficClass := cm.trafficClass }) =
      (⟨cm.trafficClass, cm.hopLimit, [], [], 0, [], 0⟩ : CM6) := by
    split
    · rfl
    · have : cm.hopLimit = 0 := by omega
      rw [this]; rfl
  rw [hcur]
  by_cases hp : (isV6only cm.src || decide (cm.ifIndex > 0)) = true
  · rw [if_pos hp, if_pos hp]
    simp only [List.map_cons, List.map_nil, List.foldl_cons, List.foldl_nil]
    have hidx : (if cm.ifIndex > 0 then le32 cm.ifIndex else le32 0) = le32 cm.ifIndex := by
      split
      · rfl
      · have : cm.ifIndex = 0 := by omega
        rw [this]
    rw [hidx, cm6_apply_pktinfo _ _ hal _ ⟨by omega, hi.2⟩]
    simp [setDst16]
  · rw [if_neg hp, if_neg hp]
    have hi0 : cm.ifIndex = 0 := by
      simp only [Bool.or_eq_true, decide_eq_true_eq, not_or] at hp
      omega
    simp only [List.map_nil, List.foldl_nil]
    rw [hi0]

/-- **IPv6, receive format**: an `ip6_mtuinfo` message (IPV6_PATHMTU) yields destination, scope and MTU. -/
theorem cm6_receive_pathmtu (pre addr : List Nat) (hp : pre.length = 8) (ha : addr.length = 16)
    (scope mtu : Int) (hs : 0 ≤ scope ∧ scope < 4294967296) (hm : 0 ≤ mtu ∧ mtu < 4294967296) :
    CM6.zero.parse (enc [(protocolIPv6, ipv6Pathmtu, pre ++ addr ++ le32 scope ++ le32 mtu)]) =
      .ok ⟨0, 0, [], addr, scope, [], mtu⟩ := by
  have hl : (pre ++ addr ++ le32 scope ++ le32 mtu).length = 32 := by simp [le32, hp, ha]
  rw [cm6_parse_enc _ _ (by
    intro m hmm
    simp only [List.mem_cons, List.not_mem_nil, or_false] at hmm
    subst hmm
    show (pre ++ addr ++ le32 scope ++ le32 mtu).length < 4294967000
    rw [hl]; omega)]
  simp only [List.map_cons, List.map_nil, List.foldl_cons, List.foldl_nil]
  rw [cm6_apply_raw _ _ _ _ (by decide) (by decide)]
  have e1 : ¬ (protocolIPv6 ≠ protocolIPv6) := by simp
  have e2 : ¬ (ipv6Pathmtu = ipv6Tclass ∧ (pre ++ addr ++ le32 scope ++ le32 mtu).length ≥ 4) := by intro h; exact absurd h.1 (by decide)
  have e3 : ¬ (ipv6Pathmtu = ipv6Hoplimit ∧ (pre ++ addr ++ le32 scope ++ le32 mtu).length ≥ 4) := by intro h; exact absurd h.1 (by decide)
  have e4 : ¬ (ipv6Pathmtu = ipv6Pktinfo ∧ (pre ++ addr ++ le32 scope ++ le32 mtu).length ≥ sizeofInet6Pktinfo) := by intro h; exact absurd h.1 (by decide)
  have e5 : ipv6Pathmtu = ipv6Pathmtu ∧ (pre ++ addr ++ le32 scope ++ le32 mtu).length ≥ sizeofIPv6Mtuinfo := ⟨rfl, by rw [hl]; decide⟩
  rw [if_neg e1, if_neg e2, if_neg e3, if_neg e4, if_pos e5]
  have d8 : ((pre ++ addr ++ le32 scope ++ le32 mtu).drop 8).take 16 = addr := by
    rw [List.append_assoc, List.append_assoc, ← hp, List.drop_left, ← ha, List.take_left]
  have d24 : (pre ++ addr ++ le32 scope ++ le32 mtu).drop 24 = le32 scope ++ le32 mtu := by
    have : (pre ++ addr).length = 24 := by simp [hp, ha]
    rw [List.append_assoc (pre ++ addr), ← this, List.drop_left]
  have d28 : (pre ++ addr ++ le32 scope ++ le32 mtu).drop 28 = le32 mtu := by
    have : (pre ++ addr ++ le32 scope).length = 28 := by simp [hp, ha, le32]
    rw [← this, List.drop_left]
  have r1 := rdU32_le32 scope hs.1 hs.2 (le32 mtu)
  have r2 := rdU32_le32 mtu hm.1 hm.2 []
  simp only [List.append_nil] at r2
  rw [d8, d24, d28, r1, r2]
  simp [CM6.zero, setDst16]

/-! ### T-tie: sizes, offsets, option names regenerated from the sources -/

theorem gen_ctl_layout :
    Gen.C60Ctl.sizeofCmsghdr = hdrLen ∧ (Gen.C60Ctl.iana_ProtocolIP : Int) = protocolIP ∧
    (Gen.C60Ctl.iana_ProtocolIPv6 : Int) = protocolIPv6 ∧
    Gen.C60Ctl.sizeof_inetPktinfo = sizeofInetPktinfo ∧ Gen.C60Ctl.layoutSize_inetPktinfo = sizeofInetPktinfo ∧
    Gen.C60Ctl.inetPktinfo_Ifindex = (0, 4) ∧ Gen.C60Ctl.inetPktinfo_Spec_dst = (4, 4) ∧ Gen.C60Ctl.inetPktinfo_Addr = (8, 4) ∧
    Gen.C60Ctl.sizeof_inet6Pktinfo = sizeofInet6Pktinfo ∧ Gen.C60Ctl.layoutSize_inet6Pktinfo = sizeofInet6Pktinfo ∧
    Gen.C60Ctl.inet6Pktinfo_Addr = (0, 16) ∧ Gen.C60Ctl.inet6Pktinfo_Ifindex = (16, 4) ∧
    Gen.C60Ctl.sizeof_ipv6Mtuinfo = sizeofIPv6Mtuinfo ∧ Gen.C60Ctl.layoutSize_ipv6Mtuinfo = sizeofIPv6Mtuinfo ∧
    Gen.C60Ctl.ipv6Mtuinfo_Addr_Addr = (8, 16) ∧ Gen.C60Ctl.ipv6Mtuinfo_Addr_Scope_id = (24, 4) ∧
    Gen.C60Ctl.ipv6Mtuinfo_Mtu = (28, 4) := by decide

/-- The Linux `ctlOpts` tables: exactly the options the model knows, with their names and lengths
(no entry for IPv4 Dst / Interface nor for IPv6 NextHop). -/
theorem gen_ctlOpts_eq :
    Gen.C60Ctl.ctlOpts_ipv4 = [("ctlTTL", ipTTL.toNat, 1), ("ctlPacketInfo", ipPktinfo.toNat, sizeofInetPktinfo)] ∧
    Gen.C60Ctl.ctlOpts_ipv6 = [("ctlTrafficClass", ipv6Tclass.toNat, 4), ("ctlHopLimit", ipv6Hoplimit.toNat, 4),
      ("ctlPacketInfo", ipv6Pktinfo.toNat, sizeofInet6Pktinfo), ("ctlPathMTU", ipv6Pathmtu.toNat, sizeofIPv6Mtuinfo)] := by
  decide

end NetVerif.Proofs.C60Ctl
