import NetVerif.Model.HttpProxy
import NetVerif.Proofs.Lemmas.NetIP
/-!
C52 — httpproxy: proxy selection follows the documented NO_PROXY rules.

Specification side (declarative): a NO_PROXY string is a comma separated list of VALUES; each value
is read as an `Entry` (`*`, CIDR, IP[:port], domain[:port] with "subdomains only" flag); a request
BYPASSES the proxy iff its host is `localhost`, a loopback IP, or SOME entry matches it.
Implementation side (model of the Go code): `init` builds two ordered matcher lists with an early
return on `*`; `useProxy` walks them (IP matchers only for IP literals).
-/
namespace NetVerif.Proofs.C52
open NetVerif.Model.NetIP NetVerif.Model.HttpProxy

/-! ### the documented rule -/

/-- One NO_PROXY value as the documentation reads it. `dotted` is the domain with its leading
dot (".example.com", after IDNA); `port = []` means "any port". -/
inductive Entry where
  | star
  | cidr (ip : List Nat) (ones bits : Nat)
  | ip (ip : List Nat) (port : List Nat)
  | domain (dotted : List Nat) (subOnly : Bool) (port : List Nat)
  deriving DecidableEq

/-- The entry a value denotes (`none`: the value is empty/malformed and ignored). -/
def stepEntry : Step → Option Entry
  | .skip => none
  | .star => some .star
  | .addCIDR ip ones bits => some (.cidr ip ones bits)
  | .addIP ip port => some (.ip ip port)
  | .addDomain h port mh => some (.domain h (!mh) port)

/-- All entries of a NO_PROXY string, in order. -/
def entries (O : Oracles) (noProxy : List Nat) : List Entry :=
  (splitComma noProxy).filterMap (fun v => stepEntry (pieceStep O v))

def PortOK (eport rport : List Nat) : Prop := eport = [] ∨ eport = rport

/-- The host as it is compared: white space trimmed, lower-cased, and without the trailing dot of a
fully qualified spelling ("example.com." is the name "example.com"). -/
def canonHost (r : Req) : List Nat := trimSuffixDot (toLower (trimSpace r.host))

/-- "entry `e` matches request `r`". -/
def EntryMatches (e : Entry) (r : Req) : Prop :=
  match e with
  | .star => True
  | .cidr nip ones bits => ∃ ip, r.ip = some ip ∧ contains nip ones bits ip = true
  | .ip eip port => ∃ ip, r.ip = some ip ∧ ipEqual eip ip = true ∧ PortOK port r.port
  | .domain dotted subOnly port =>
    r.ip = none ∧ PortOK port r.port ∧
      (dotted <:+ canonHost r ∨ (subOnly = false ∧ canonHost r = dotted.drop 1))

/-- The documented "no proxy" condition. -/
def Bypass (O : Oracles) (noProxy : List Nat) (r : Req) : Prop :=
  canonHost r = localhost ∨ (∃ ip, r.ip = some ip ∧ isLoopback ip = true) ∨
  ∃ e ∈ entries O noProxy, EntryMatches e r

/-! ### the matcher lists `init` builds -/

def ipOf : List Step → List Matcher
  | [] => []
  | .addCIDR ip ones bits :: t => .cidr ip ones bits :: ipOf t
  | .addIP ip port :: t => .ip ip port :: ipOf t
  | _ :: t => ipOf t

def domOf : List Step → List Matcher
  | [] => []
  | .addDomain h port mh :: t => .domain h port mh :: domOf t
  | _ :: t => domOf t

/-- `init`'s loop: `*` anywhere wins (everything else is dropped); otherwise the IP/CIDR values
and the domain values are collected in order. -/
theorem initLoop_eq (O : Oracles) (ps : List (List Nat)) (ipM domM : List Matcher) :
    initLoop O ps ipM domM =
      if Step.star ∈ ps.map (pieceStep O) then ([.all], [.all])
      else (ipM ++ ipOf (ps.map (pieceStep O)), domM ++ domOf (ps.map (pieceStep O))) := by
  induction ps generalizing ipM domM with
  | nil => simp [initLoop, ipOf, domOf]
  | cons p rest ih =>
    simp only [initLoop, List.map_cons, List.mem_cons]
    cases hp : pieceStep O p <;> simp [ih, ipOf, domOf, List.append_assoc]

/-- Star anywhere in NO_PROXY: both matcher lists are the single `allMatch`. -/
theorem init_star (O : Oracles) (cgi : Bool) (hp sp : Option (List Nat)) (np : List Nat)
    (h : Entry.star ∈ entries O np) :
    (init O cgi hp sp np).ipMatchers = [.all] ∧ (init O cgi hp sp np).domainMatchers = [.all] := by
  have hs : Step.star ∈ (splitComma np).map (pieceStep O) := by
    simp only [entries, List.mem_filterMap] at h
    obtain ⟨v, hv, he⟩ := h
    simp only [List.mem_map]
    refine ⟨v, hv, ?_⟩
    cases hq : pieceStep O v <;> simp [hq, stepEntry] at he ⊢
  simp [init, initLoop_eq, hs]

private theorem portOK_iff (a b : List Nat) : (a == [] || a == b) = true ↔ PortOK a b := by
  simp [PortOK]

/-- What one step contributes to the walk. -/
private def headB (r : Req) : Step → Bool
  | .addCIDR a b c => r.ip.isSome && (Matcher.cidr a b c).matches (canonHost r) r.port r.ip
  | .addIP a b => r.ip.isSome && (Matcher.ip a b).matches (canonHost r) r.port r.ip
  | .addDomain h p mh => (Matcher.domain h p mh).matches (canonHost r) r.port r.ip
  | _ => false

private def walkB (r : Req) (steps : List Step) : Bool :=
  (r.ip.isSome && (ipOf steps).any (fun m => m.matches (canonHost r) r.port r.ip)) ||
    (domOf steps).any (fun m => m.matches (canonHost r) r.port r.ip)

private theorem walkB_cons (r : Req) (s : Step) (t : List Step) :
    walkB r (s :: t) = (headB r s || walkB r t) := by
  unfold walkB
  cases s <;> simp only [ipOf, domOf, headB, List.any_cons, Bool.false_or]
  all_goals generalize r.ip.isSome = i
  all_goals generalize (ipOf t).any _ = A
  all_goals generalize (domOf t).any _ = D
  all_goals generalize Matcher.matches _ _ _ _ = h
  all_goals cases i <;> cases h <;> cases A <;> cases D <;> rfl

private theorem headB_iff (r : Req) (s : Step) (hs : s ≠ .star) :
    headB r s = true ↔ ∃ e, stepEntry s = some e ∧ EntryMatches e r := by
  cases s with
  | skip => simp [headB, stepEntry]
  | star => exact absurd rfl hs
  | addCIDR a b c =>
    cases hip : r.ip <;> simp [headB, stepEntry, Matcher.matches, EntryMatches, hip]
  | addIP a b =>
    cases hip : r.ip <;> simp [headB, stepEntry, Matcher.matches, EntryMatches, hip, PortOK]
  | addDomain h p mh =>
    cases hip : r.ip <;> cases mh <;>
      simp [headB, stepEntry, Matcher.matches, EntryMatches, hip, PortOK, hasSuffix]
    all_goals exact and_comm

/-- The two matcher walks of `useProxy` (no `*` present) = "some entry matches". -/
private theorem walk_iff (steps : List Step) (r : Req) (hns : Step.star ∉ steps) :
    walkB r steps = true ↔ ∃ e ∈ steps.filterMap stepEntry, EntryMatches e r := by
  induction steps with
  | nil => simp [walkB, ipOf, domOf]
  | cons s t ih =>
    have hns' : Step.star ∉ t := fun h => hns (List.mem_cons_of_mem _ h)
    have hs : s ≠ .star := fun h => hns (h ▸ List.mem_cons_self)
    rw [walkB_cons, Bool.or_eq_true, ih hns', headB_iff r s hs]
    cases hse : stepEntry s <;> simp [hse]

/-! ### the property -/

/-- Without `*`: the matcher lists are the IP/CIDR values and the domain values, in order. -/
theorem init_nostar (O : Oracles) (cgi : Bool) (hp sp : Option (List Nat)) (np : List Nat)
    (h : Step.star ∉ (splitComma np).map (pieceStep O)) :
    (init O cgi hp sp np).ipMatchers = ipOf ((splitComma np).map (pieceStep O)) ∧
    (init O cgi hp sp np).domainMatchers = domOf ((splitComma np).map (pieceStep O)) := by
  simp [init, initLoop_eq, h]

private theorem star_step_iff (O : Oracles) (np : List Nat) :
    Step.star ∈ (splitComma np).map (pieceStep O) ↔ Entry.star ∈ entries O np := by
  simp only [entries, List.mem_filterMap, List.mem_map]
  constructor
  · rintro ⟨v, hv, he⟩
    exact ⟨v, hv, by simp [he, stepEntry]⟩
  · rintro ⟨v, hv, he⟩
    refine ⟨v, hv, ?_⟩
    cases hq : pieceStep O v <;> simp [hq, stepEntry] at he ⊢

private theorem entries_eq (O : Oracles) (np : List Nat) :
    entries O np = ((splitComma np).map (pieceStep O)).filterMap stepEntry := by
  simp [entries, List.filterMap_map, Function.comp_def]

/-- The matcher walk of `useProxy` over the lists built by `init` succeeds iff some entry matches. -/
private theorem walk_init (O : Oracles) (cgi : Bool) (hp sp : Option (List Nat)) (np : List Nat) (r : Req) :
    ((r.ip.isSome && (init O cgi hp sp np).ipMatchers.any (fun m => m.matches (canonHost r) r.port r.ip)) ||
      (init O cgi hp sp np).domainMatchers.any (fun m => m.matches (canonHost r) r.port r.ip)) = true ↔
    ∃ e ∈ entries O np, EntryMatches e r := by
  by_cases hs : Step.star ∈ (splitComma np).map (pieceStep O)
  · have hs' := (star_step_iff O np).1 hs
    obtain ⟨h1, h2⟩ := init_star O cgi hp sp np hs'
    rw [h1, h2]
    simp only [List.any_cons, Matcher.matches, List.any_nil, Bool.or_false, Bool.or_true, true_iff]
    exact ⟨.star, hs', trivial⟩
  · obtain ⟨h1, h2⟩ := init_nostar O cgi hp sp np hs
    rw [h1, h2, entries_eq]
    exact walk_iff _ r hs

/-- **C52, NO_PROXY part.** For every NO_PROXY string, every behaviour of the (unmodelled) parsers
and every request: `useProxy` answers "no proxy" exactly when the documented bypass condition
holds. -/
theorem useProxy_false_iff_bypass (O : Oracles) (cgi : Bool) (hp sp : Option (List Nat)) (np : List Nat)
    (r : Req) :
    useProxy (init O cgi hp sp np) r = false ↔ Bypass O np r := by
  have hw := walk_init O cgi hp sp np r
  unfold useProxy
  unfold Bypass
  unfold canonHost at hw ⊢
  by_cases hl : trimSuffixDot (toLower (trimSpace r.host)) = localhost
  · simp [hl]
  · simp only [hl, if_false, false_or]
    rw [← hw]
    generalize (init O cgi hp sp np).ipMatchers.any _ = A
    generalize (init O cgi hp sp np).domainMatchers.any _ = D
    cases hip : r.ip with
    | none => cases A <;> cases D <;> simp
    | some ip => cases hlb : isLoopback ip <;> cases A <;> cases D <;> simp [hlb]

/-- The literal statement of C52's NO_PROXY clause: for ALL configurations and ALL requests. -/
def BypassExactlyWhenDocumented : Prop :=
  ∀ (O : Oracles) (cgi : Bool) (hp sp : Option (List Nat)) (np : List Nat) (r : Req),
    useProxy (init O cgi hp sp np) r = false ↔ Bypass O np r

def noOracles : Oracles :=
  { parseCIDR := fun _ => none, splitHostPort := fun _ => none, parseIP := fun _ => none, idna := fun _ => none }

/-- **The statement holds in full** (after the repair of `unsplittable-addr-bypass`: host and port
reach `useProxyHostPort` without a `JoinHostPort`/`SplitHostPort` round trip, so every request has
a host and nothing is exempted silently). -/
theorem holds : BypassExactlyWhenDocumented :=
  fun O cgi hp sp np r => useProxy_false_iff_bypass O cgi hp sp np r

/-! ### scheme selection and CGI refusal -/

private theorem init_fields (O : Oracles) (cgi : Bool) (hp sp : Option (List Nat)) (np : List Nat) :
    (init O cgi hp sp np).cgi = cgi ∧ (init O cgi hp sp np).httpProxy = hp ∧
      (init O cgi hp sp np).httpsProxy = sp := by
  simp [init]

private theorem proxyForURL_init (O : Oracles) (cgi : Bool) (hp sp : Option (List Nat)) (np : List Nat) (r : Req) :
    proxyForURL (init O cgi hp sp np) r =
      if r.scheme = schemeHTTPS then
        (match sp with
         | none => .noProxy
         | some u => if useProxy (init O cgi hp sp np) r then .proxy u else .noProxy)
      else if r.scheme = schemeHTTP then
        (match hp with
         | none => .noProxy
         | some u => if cgi then .errCGI else if useProxy (init O cgi hp sp np) r then .proxy u else .noProxy)
      else .noProxy := by
  obtain ⟨h1, h2, h3⟩ := init_fields O cgi hp sp np
  generalize hc : init O cgi hp sp np = c at *
  unfold proxyForURL
  rw [h1, h2, h3]
  cases sp <;> cases hp <;> rfl

private theorem http_ne_https : schemeHTTP ≠ schemeHTTPS := by decide

/-- https requests: HTTPS_PROXY, unless the bypass condition holds. -/
theorem https_selection (O : Oracles) (cgi : Bool) (hp sp : Option (List Nat)) (np : List Nat) (r : Req)
    (hs : r.scheme = schemeHTTPS) (u : List Nat) (hu : sp = some u) :
    (Bypass O np r → proxyForURL (init O cgi hp sp np) r = .noProxy) ∧
    (¬ Bypass O np r → proxyForURL (init O cgi hp sp np) r = .proxy u) := by
  subst hu
  have hb := useProxy_false_iff_bypass O cgi hp (some u) np r
  rw [proxyForURL_init]
  cases hup : useProxy (init O cgi hp (some u) np) r <;> simp_all

/-- http requests outside CGI: HTTP_PROXY, unless the bypass condition holds. -/
theorem http_selection (O : Oracles) (hp sp : Option (List Nat)) (np : List Nat) (r : Req)
    (hs : r.scheme = schemeHTTP) (u : List Nat) (hu : hp = some u) :
    (Bypass O np r → proxyForURL (init O false hp sp np) r = .noProxy) ∧
    (¬ Bypass O np r → proxyForURL (init O false hp sp np) r = .proxy u) := by
  subst hu
  have hb := useProxy_false_iff_bypass O false (some u) sp np r
  rw [proxyForURL_init]
  cases hup : useProxy (init O false (some u) sp np) r <;> simp_all [http_ne_https]

/-- CGI refusal: with REQUEST_METHOD set, an http request with HTTP_PROXY configured is refused
(whatever NO_PROXY says); https requests are unaffected (`https_selection` holds for any `cgi`). -/
theorem cgi_refusal (O : Oracles) (hp sp : Option (List Nat)) (np : List Nat) (r : Req)
    (hs : r.scheme = schemeHTTP) (u : List Nat) (hu : hp = some u) :
    proxyForURL (init O true hp sp np) r = .errCGI := by
  subst hu
  rw [proxyForURL_init]
  simp [hs, http_ne_https]

/-- No proxy is returned when the scheme's proxy is not configured or the scheme is neither. -/
theorem no_proxy_configured (O : Oracles) (cgi : Bool) (hp sp : Option (List Nat)) (np : List Nat) (r : Req)
    (h : (r.scheme = schemeHTTPS ∧ sp = none) ∨ (r.scheme = schemeHTTP ∧ hp = none) ∨
         (r.scheme ≠ schemeHTTPS ∧ r.scheme ≠ schemeHTTP)) :
    proxyForURL (init O cgi hp sp np) r = .noProxy := by
  rw [proxyForURL_init]
  rcases h with ⟨hs, hn⟩ | ⟨hs, hn⟩ | ⟨h1, h2'⟩
  · simp [hs, hn]
  · simp [hs, http_ne_https, hn]
  · simp [h1, h2']

/-- The proxy returned is never the other scheme's setting: a returned proxy is exactly the
setting selected by the request scheme (and, for http, CGI is off). -/
theorem result_is_selected (O : Oracles) (cgi : Bool) (hp sp : Option (List Nat)) (np : List Nat) (r : Req)
    (u : List Nat) (h : proxyForURL (init O cgi hp sp np) r = .proxy u) :
    (r.scheme = schemeHTTPS ∧ sp = some u) ∨ (r.scheme = schemeHTTP ∧ hp = some u ∧ cgi = false) := by
  rw [proxyForURL_init] at h
  by_cases hs : r.scheme = schemeHTTPS
  · left
    cases sp <;> simp [hs] at h
    split at h <;> simp_all
  · by_cases hh : r.scheme = schemeHTTP
    · right
      cases hp <;> cases cgi <;> simp [hh, http_ne_https] at h
      split at h <;> simp_all
    · simp [hs, hh] at h

/-! ### how each documented form of a NO_PROXY value is read (`pieceStep`) -/

/-- `h` is a strict subdomain of `name`: `h = pre ++ "." ++ name`. -/
def IsSubdomainOf (h name : List Nat) : Prop := ∃ pre, h = pre ++ 46 :: name

/-- Meaning of a domain entry whose dotted form is `"." ++ name`: the name itself (unless
"subdomains only") and every subdomain, optionally restricted to a port; never an IP literal. -/
theorem domain_entry_meaning (name port : List Nat) (subOnly : Bool) (r : Req) :
    EntryMatches (.domain (46 :: name) subOnly port) r ↔
      r.ip = none ∧ PortOK port r.port ∧
        (IsSubdomainOf (canonHost r) name ∨ (subOnly = false ∧ canonHost r = name)) := by
  simp only [EntryMatches, IsSubdomainOf, List.IsSuffix, List.drop_succ_cons, List.drop_zero]
  constructor
  · rintro ⟨h1, h2, h3⟩
    refine ⟨h1, h2, ?_⟩
    rcases h3 with ⟨t, ht⟩ | h3
    · exact Or.inl ⟨t, ht.symm⟩
    · exact Or.inr h3
  · rintro ⟨h1, h2, h3⟩
    refine ⟨h1, h2, ?_⟩
    rcases h3 with ⟨t, ht⟩ | h3
    · exact Or.inl ⟨t, ht.symm⟩
    · exact Or.inr h3

/-- `*` is recognised exactly when the trimmed, lower-cased value is the single byte `*`. -/
theorem piece_star_iff (O : Oracles) (v : List Nat) :
    pieceStep O v = .star ↔ toLower (trimSpace v) = star := by
  unfold pieceStep
  constructor
  · intro h
    by_cases h0 : toLower (trimSpace v) = []
    · simp [h0] at h
    · by_cases h1 : toLower (trimSpace v) = star
      · exact h1
      · simp only [h0, h1, if_false] at h
        repeat' split at h
        all_goals simp_all
  · intro h
    simp [h, star]

/-- CIDR form. -/
theorem piece_cidr (O : Oracles) (v ip : List Nat) (ones bits : Nat)
    (h0 : toLower (trimSpace v) ≠ []) (h1 : toLower (trimSpace v) ≠ star)
    (hc : O.parseCIDR (toLower (trimSpace v)) = some (ip, ones, bits)) :
    stepEntry (pieceStep O v) = some (.cidr ip ones bits) := by
  simp [pieceStep, h0, h1, hc, stepEntry]

/-- `host` and `port` of a value: `net.SplitHostPort` if it succeeds, else the whole value, no port. -/
def HostPortOf (O : Oracles) (p h port : List Nat) : Prop :=
  (O.splitHostPort p = none ∧ h = p ∧ port = []) ∨
  (O.splitHostPort p = some (h, port) ∧ h ≠ [] ∧ ¬ (h.head? = some 91 ∧ h.getLast? = some 93))

/-- IP[:port] form. -/
theorem piece_ip (O : Oracles) (v h port ip : List Nat)
    (h0 : toLower (trimSpace v) ≠ []) (h1 : toLower (trimSpace v) ≠ star)
    (hc : O.parseCIDR (toLower (trimSpace v)) = none)
    (hhp : HostPortOf O (toLower (trimSpace v)) h port) (hip : O.parseIP h = some ip) :
    stepEntry (pieceStep O v) = some (.ip ip port) := by
  rcases hhp with ⟨hs, rfl, rfl⟩ | ⟨hs, hne, hb⟩
  · simp [pieceStep, h0, h1, hc, hs, hip, stepEntry]
  · simp [pieceStep, h0, h1, hc, hs, hne, hb, hip, stepEntry]

private theorem hasPrefix_starDot (h : List Nat) (hsd : hasPrefix h starDot = true) :
    ∃ t, h = 42 :: 46 :: t := by
  match h with
  | [] => simp [hasPrefix, starDot] at hsd
  | [a] => simp [hasPrefix, starDot, List.isPrefixOf] at hsd
  | a :: b :: t =>
    simp [hasPrefix, starDot, List.isPrefixOf] at hsd
    exact ⟨t, by simp [hsd.1, hsd.2]⟩

/-- Domain[:port] forms: `*.d` and `.d` mean "subdomains of d only", a plain `d` means "d and its
subdomains".  (`idnaASCII` is the identity on ASCII input.) -/
theorem piece_domain (O : Oracles) (v h port : List Nat)
    (h0 : toLower (trimSpace v) ≠ []) (h1 : toLower (trimSpace v) ≠ star)
    (hc : O.parseCIDR (toLower (trimSpace v)) = none)
    (hhp : HostPortOf O (toLower (trimSpace v)) h port) (hip : O.parseIP h = none)
    (hd0 : trimSuffixDot h ≠ []) :
    stepEntry (pieceStep O v) = some
      (if hasPrefix (trimSuffixDot h) starDot then .domain (idnaASCII O ((trimSuffixDot h).drop 1)) true port
       else if (trimSuffixDot h).head? = some 46 then .domain (idnaASCII O (trimSuffixDot h)) true port
       else .domain (idnaASCII O (46 :: trimSuffixDot h)) false port) := by
  have hne : h ≠ [] := by
    rcases hhp with ⟨_, rfl, _⟩ | ⟨_, hne, _⟩
    · exact h0
    · exact hne
  have hstep : pieceStep O v =
      (let phost1 := if hasPrefix (trimSuffixDot h) starDot then (trimSuffixDot h).drop 1 else trimSuffixDot h
       let matchHost := phost1.head? != some 46
       let phost2 := if matchHost then 46 :: phost1 else phost1
       Step.addDomain (idnaASCII O phost2) port matchHost) := by
    rcases hhp with ⟨hs, rfl, rfl⟩ | ⟨hs, _, hb⟩
    · simp [pieceStep, h0, h1, hc, hs, hip, hd0]
    · simp [pieceStep, h1, hc, hs, hne, hb, hip, h0, hd0]
  rw [hstep]
  generalize trimSuffixDot h = d
  by_cases hsd : hasPrefix d starDot = true
  · -- "*.d": after dropping '*' the string starts with '.'
    obtain ⟨t, rfl⟩ := hasPrefix_starDot d hsd
    simp [hsd, stepEntry]
  · by_cases hd : d.head? = some 46 <;> simp [hsd, hd, stepEntry]

/-- A value that is only a dot (after the port is removed) is ignored. -/
theorem piece_dot_ignored (O : Oracles) (v h port : List Nat)
    (h0 : toLower (trimSpace v) ≠ []) (h1 : toLower (trimSpace v) ≠ star)
    (hc : O.parseCIDR (toLower (trimSpace v)) = none)
    (hhp : HostPortOf O (toLower (trimSpace v)) h port) (hip : O.parseIP h = none)
    (hd0 : trimSuffixDot h = []) : pieceStep O v = .skip := by
  have hne : h ≠ [] := by
    rcases hhp with ⟨_, rfl, _⟩ | ⟨_, hne, _⟩
    · exact h0
    · exact hne
  rcases hhp with ⟨hs, rfl, rfl⟩ | ⟨hs, _, hb⟩
  · simp [pieceStep, h0, h1, hc, hs, hip, hd0]
  · simp [pieceStep, h1, hc, hs, hne, hb, hip, h0, hd0]

theorem idnaASCII_ascii (O : Oracles) (v : List Nat) (h : isASCII v = true) : idnaASCII O v = v := by
  simp [idnaASCII, h]

/-- Meaning of an IP entry in terms of normalised addresses (IPv4-mapped IPv6 = IPv4). -/
theorem ip_entry_meaning (eip port : List Nat) (r : Req) (he : Lemmas.NetIP.IPWF eip)
    (hr : ∀ ip, r.ip = some ip → Lemmas.NetIP.IPWF ip) :
    EntryMatches (.ip eip port) r ↔
      ∃ ip, r.ip = some ip ∧ Lemmas.NetIP.norm eip = Lemmas.NetIP.norm ip ∧ PortOK port r.port := by
  simp only [EntryMatches]
  constructor
  · rintro ⟨ip, h1, h2, h3⟩
    exact ⟨ip, h1, (Lemmas.NetIP.ipEqual_iff eip ip he (hr ip h1)).1 h2, h3⟩
  · rintro ⟨ip, h1, h2, h3⟩
    exact ⟨ip, h1, (Lemmas.NetIP.ipEqual_iff eip ip he (hr ip h1)).2 h2, h3⟩

/-! ### non-vacuity: concrete configurations and requests -/

private def fooCom : List Nat := [102, 111, 111, 46, 99, 111, 109]            -- "foo.com"
private def xFooCom : List Nat := [120, 46, 102, 111, 111, 46, 99, 111, 109]  -- "x.foo.com"
private def xfooCom : List Nat := [120, 102, 111, 111, 46, 99, 111, 109]      -- "xfoo.com"
private def p80 : List Nat := [56, 48]
private def proxyURL : List Nat := [112]
private def mkReq (host : List Nat) : Req :=
  { scheme := schemeHTTP, host := host, port := p80, ip := none }

/-- NO_PROXY=" FOO.com ,.foo.com": "foo.com" and "x.foo.com" bypass, "xfoo.com" is proxied. -/
example : proxyForURL (init noOracles false (some proxyURL) none ([32, 70, 79, 79] ++ [46, 99, 111, 109, 32, 44, 46] ++ fooCom)) (mkReq fooCom) = .noProxy := by decide
example : proxyForURL (init noOracles false (some proxyURL) none ([32, 70, 79, 79] ++ [46, 99, 111, 109, 32, 44, 46] ++ fooCom)) (mkReq xFooCom) = .noProxy := by decide
example : proxyForURL (init noOracles false (some proxyURL) none ([32, 70, 79, 79] ++ [46, 99, 111, 109, 32, 44, 46] ++ fooCom)) (mkReq xfooCom) = .proxy proxyURL := by decide
/-- ".foo.com" alone: subdomains only. -/
example : proxyForURL (init noOracles false (some proxyURL) none (46 :: fooCom)) (mkReq fooCom) = .proxy proxyURL := by decide
example : proxyForURL (init noOracles false (some proxyURL) none (46 :: fooCom)) (mkReq xFooCom) = .noProxy := by decide
/-- The old witness of `unsplittable-addr-bypass`, host `a]b`: with an empty NO_PROXY it is now
proxied (before the repair: silently not), and it still honours `*`. -/
example : proxyForURL (init noOracles false (some proxyURL) none []) (mkReq [97, 93, 98]) = .proxy proxyURL := by decide
example : ¬ Bypass noOracles [] (mkReq [97, 93, 98]) := by
  have hc : canonHost (mkReq [97, 93, 98]) ≠ localhost := by decide
  simp [Bypass, entries, splitComma, pieceStep, trimSpace, trimLeft, trimRight, toLower, stepEntry, mkReq]
  exact hc
example : proxyForURL (init noOracles false (some proxyURL) none [42]) (mkReq [97, 93, 98]) = .noProxy := by decide
/-- Regression for the repaired defect `localhost-case-sensitive`: " LocalHost" is localhost. -/
example : proxyForURL (init noOracles false (some proxyURL) none []) (mkReq [76, 111, 99, 97, 108, 72, 111, 115, 116]) = .noProxy := by decide
/-- Regression for the repaired defect `noproxy-trailing-dot`: rooted spellings on either side.
NO_PROXY="foo.com" vs host "foo.com." and "x.foo.com."; NO_PROXY="foo.com." vs host "foo.com";
"localhost." is localhost; "xfoo.com." is still proxied. -/
example : proxyForURL (init noOracles false (some proxyURL) none fooCom) (mkReq (fooCom ++ [46])) = .noProxy := by decide
example : proxyForURL (init noOracles false (some proxyURL) none fooCom) (mkReq (xFooCom ++ [46])) = .noProxy := by decide
example : proxyForURL (init noOracles false (some proxyURL) none (fooCom ++ [46])) (mkReq fooCom) = .noProxy := by decide
example : proxyForURL (init noOracles false (some proxyURL) none []) (mkReq (localhost ++ [46])) = .noProxy := by decide
example : proxyForURL (init noOracles false (some proxyURL) none fooCom) (mkReq (xfooCom ++ [46])) = .proxy proxyURL := by decide
/-- "x,*,y": everything bypasses; CGI refuses http. -/
example : proxyForURL (init noOracles false (some proxyURL) none [120, 44, 42, 44, 121]) (mkReq fooCom) = .noProxy := by decide
example : proxyForURL (init noOracles true (some proxyURL) none []) (mkReq fooCom) = .errCGI := by decide
/-- A CIDR entry (as `net.ParseCIDR` would return 10.0.0.0/8) and an IP request 10.1.2.3 / 11.1.2.3. -/
private def cidrOracles : Oracles :=
  { noOracles with parseCIDR := fun s => if s = [49] then some ([10, 0, 0, 0], 8, 32) else none }
example : useProxy (init cidrOracles false none none [49])
    { scheme := schemeHTTP, host := [], port := p80, ip := some [10, 1, 2, 3] } = false := by decide
example : useProxy (init cidrOracles false none none [49])
    { scheme := schemeHTTP, host := [], port := p80, ip := some [11, 1, 2, 3] } = true := by decide
example : useProxy (init cidrOracles false none none [49])
    { scheme := schemeHTTP, host := [], port := p80,
      ip := some [0, 0, 0, 0, 0, 0, 0, 0, 0, 0, 255, 255, 10, 1, 2, 3] } = false := by decide

end NetVerif.Proofs.C52
