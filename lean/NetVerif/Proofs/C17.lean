import NetVerif.Model.H2Client
/-! # C17 — HTTP/2 client stream limits and stream-ID order (first theorem; grown below) -/
namespace NetVerif.Proofs.C17
open NetVerif.Model.H2Client

/-- `awaitOpenSlotForStreamLocked` lets a request through only below the limit. -/
theorem await_go_below_limit (c : CC) (h : c.await = .go) : c.count < c.maxConc := by
  unfold CC.await at h
  split at h
  · cases h
  · split at h
    · cases h
    · split at h
      · assumption
      · cases h

end NetVerif.Proofs.C17
