import NetVerif.Model.H2Client
import NetVerif.Gen.C17
/-!
# C17 — HTTP/2 client: stream limits and stream-ID order

Part 1: theorems about the mechanism model (`CC`) for all histories of mechanism steps.
Part 2: soundness of the trace monitor: every trace `accepts` lets through satisfies the
wire-level property (`WireProp`) and its readable corollaries.
-/
namespace NetVerif.Proofs.C17
open NetVerif.Model.H2Client

/-! ## Part 1: mechanism -/

/-- `awaitOpenSlotForStreamLocked` lets a request through only when the streams it tracks plus
the unconfirmed resets are below the limit. -/
theorem await_go_below_limit (c : CC) (h : c.await = .go) :
    c.streams.length + c.pendingResets < c.maxConc := by
  unfold CC.await at h
  split at h
  · cases h
  · split at h
    · cases h
    · split at h
      · assumption
      · cases h

/-- ... and only on a connection that is not closed. -/
theorem await_go_not_closed (c : CC) (h : c.await = .go) : c.closed = false := by
  unfold CC.await at h
  split at h
  · cases h
  · split at h
    · cases h
    · rename_i h2
      cases hc : c.closed
      · rfl
      · simp [hc] at h2

/-- Steps of the mechanism (every way the Go code changes the counters). -/
inductive Act where
  | reserve                      -- ClientConn.ReserveNewRequest (pool)
  | enter                        -- writeRequest: decrStreamReservationsLocked
  | release                      -- cleanupWriteRequest with cs.ID == 0
  | openStream                   -- awaitOpenSlotForStreamLocked returns nil; addStreamLocked
  | forget (id : Nat)            -- forgetStreamID
  | cancelReset (id : Nat)       -- cleanupWriteRequest's RST_STREAM(CANCEL) path, then forgetStreamID
  | settings (m : Option Nat)    -- processSettingsNoWrite
  | pingAck                      -- processPing (ack)
  | frameRead (hd : Bool)        -- streamByID
  | goAway (last code : Nat)     -- setGoAway
  | close                        -- closeForError / read loop cleanup / closeIfIdle
  | doNotReuse
deriving Repr, DecidableEq

/-- `none`: the step is not enabled (only `openStream` has a guard: it blocks or fails). -/
def step (c : CC) : Act → Option CC
  | .reserve => some c.reserve.2
  | .enter => some c.decrReservation
  | .release => some c.decrReservation
  | .openStream => if c.await = .go then some c.addStream else none
  | .forget id => some (c.forget id)
  | .cancelReset id => some ((c.noteCancelReset id).1.forget id)
  | .settings m => some (c.settings m)
  | .pingAck => some c.pingAck
  | .frameRead hd => some (c.frameRead hd)
  | .goAway l code => some (c.setGoAway l code).1
  | .close => some { c with closed := true }
  | .doNotReuse => some { c with doNotReuse := true }

/-- Run a history; the second component logs the stream IDs opened, oldest first. -/
def run (c : CC) : List Act → Option (CC × List Nat)
  | [] => some (c, [])
  | a :: as =>
    match step c a with
    | none => none
    | some c' =>
      match run c' as with
      | none => none
      | some (c'', log) => some (c'', if a = .openStream then c.nextID :: log else log)

theorem step_nextID (c c' : CC) (a : Act) (h : step c a = some c') :
    c'.nextID = if a = .openStream then c.nextID + 2 else c.nextID := by
  cases a <;> simp [step] at h ⊢
  case reserve => subst h; unfold CC.reserve; split <;> rfl
  case enter => subst h; rfl
  case release => subst h; rfl
  case openStream => obtain ⟨_, h⟩ := h; subst h; rfl
  case forget => subst h; rfl
  case cancelReset id => subst h; unfold CC.noteCancelReset CC.forget; split <;> rfl
  case settings m =>
    subst h; unfold CC.settings
    cases m with
    | none => simp only; split <;> rfl
    | some v => rfl
  case pingAck => subst h; unfold CC.pingAck; split <;> rfl
  case frameRead => subst h; rfl
  case goAway => subst h; rfl
  case close => subst h; rfl
  case doNotReuse => subst h; rfl

/-- Every ID in the log is at least the `nextStreamID` at the start, has its parity, and the log
is strictly increasing. -/
theorem run_log (c : CC) (acts : List Act) (c' : CC) (log : List Nat)
    (h : run c acts = some (c', log)) :
    log.Pairwise (· < ·) ∧ (∀ id ∈ log, c.nextID ≤ id ∧ id % 2 = c.nextID % 2) := by
  induction acts generalizing c c' log with
  | nil => simp [run] at h; obtain ⟨_, rfl⟩ := h; simp
  | cons a as ih =>
    simp only [run] at h
    split at h
    · cases h
    · rename_i c1 hs
      split at h
      · cases h
      · rename_i c2 log2 hr
        have hn := step_nextID c c1 a hs
        have ⟨hp, hall⟩ := ih c1 c2 log2 hr
        simp only [Option.some.injEq, Prod.mk.injEq] at h
        obtain ⟨_, rfl⟩ := h
        by_cases ha : a = .openStream
        · simp only [ha, if_true] at hn ⊢
          refine ⟨List.pairwise_cons.mpr ⟨?_, hp⟩, ?_⟩
          · intro x hx
            have := (hall x hx).1
            omega
          · intro id hid
            rcases List.mem_cons.mp hid with rfl | hid
            · exact ⟨Nat.le_refl _, rfl⟩
            · have := hall id hid
              omega
        · simp only [ha, if_false] at hn ⊢
          refine ⟨hp, ?_⟩
          intro id hid
          have := hall id hid
          rw [hn] at this
          exact this

/-- C17, first clause, for all histories of a fresh connection: the IDs the client assigns are
odd and strictly increasing. -/
theorem ids_odd_increasing (strict : Bool) (acts : List Act) (c' : CC) (log : List Nat)
    (h : run { strict := strict } acts = some (c', log)) :
    log.Pairwise (· < ·) ∧ ∀ id ∈ log, id % 2 = 1 := by
  have ⟨hp, hall⟩ := run_log _ acts c' log h
  exact ⟨hp, fun id hid => (hall id hid).2⟩

/-- C17, strict clause on the mechanism: whenever a stream is opened, the streams the client
tracks (which include every stream open on the wire) plus the unconfirmed resets stay within
the limit afterwards; in particular open streams ≤ limit. -/
theorem open_within_limit (c c' : CC) (h : step c .openStream = some c') :
    c.streams.length + c.pendingResets < c.maxConc ∧
    c'.streams.length + c'.pendingResets ≤ c'.maxConc ∧ c'.streams.length ≤ c'.maxConc := by
  simp only [step] at h
  split at h
  · rename_i hgo
    have hlt := await_go_below_limit c hgo
    simp only [Option.some.injEq] at h
    subst h
    simp only [CC.addStream, List.length_cons] at hlt ⊢
    omega
  · cases h

/-- Limit lowered below (or to) the current count: no new stream can be opened until the count
has dropped below the limit — in every state, hence along every history. -/
theorem at_limit_blocks (c : CC) (h : c.maxConc ≤ c.streams.length + c.pendingResets) :
    step c .openStream = none := by
  simp only [step]
  split
  · rename_i hgo
    have := await_go_below_limit c hgo
    omega
  · rfl

theorem lowered_limit_blocks (c : CC) (m : Nat) (h : m ≤ c.streams.length + c.pendingResets) :
    step (c.settings (some m)) .openStream = none := by
  apply at_limit_blocks
  simpa [CC.settings] using h

/-- Progress (the repaired stall): on an open, usable connection a waiting request is let through
as soon as streams + pending resets are below the limit, however many requests are queued
behind it with reservations. -/
theorem waiter_let_through (c : CC) (hc : c.closed = false) (hi : c.idleCanTake = true)
    (h : c.streams.length + c.pendingResets < c.maxConc) : c.await = .go := by
  unfold CC.await
  simp [hc, hi, h]

/-- ... so the step is enabled whatever the number of reservations. -/
theorem waiter_progress (c : CC) (hc : c.closed = false) (hi : c.idleCanTake = true)
    (h : c.streams.length + c.pendingResets < c.maxConc) :
    step c .openStream = some c.addStream := by
  simp [step, waiter_let_through c hc hi h]

/-- C17, non-strict clause on the mechanism: `ReserveNewRequest` (what the pool calls) refuses a
connection at its limit. The only exception in the code is a closed connection that was never
used (it takes one request, which fails without opening a stream: `closed_never_opens`). -/
theorem nonstrict_reserve_below_limit (c : CC) (hs : c.strict = false) (h : c.reserve.1 = true) :
    c.count < c.maxConc ∨ (c.nextID = 1 ∧ c.reserved = 0 ∧ c.closed = true ∧ c.closedOnIdle = false) := by
  unfold CC.reserve at h
  split at h
  · rename_i hc
    unfold CC.idleCanTake at hc
    split at hc
    · cases hc
    · simp only [hs] at hc
      split at hc
      · rename_i hex
        right
        simp at hex
        exact ⟨hex.1.1.1, hex.1.1.2, hex.1.2, hex.2⟩
      · left
        simp at hc
        exact hc.1
  · cases h

theorem closed_never_opens (c : CC) (h : c.closed = true) : step c .openStream = none := by
  simp only [step]
  split
  · rename_i hgo
    have := await_go_not_closed c hgo
    simp [h] at this
  · rfl

/-- Strict mode: the pool is always told yes on a usable connection (requests then wait in
`awaitOpenSlotForStreamLocked`). -/
theorem strict_reserve_ignores_limit (c : CC) (hs : c.strict = true) (hu : c.isUsable = true)
    (hsu : c.singleUse = false) : c.reserve.1 = true := by
  unfold CC.reserve CC.idleCanTake
  simp [hs, hu, hsu]

/-- The history that stalled before the repair (limit 1, one finished stream, two queued
requests; corpus/C17/strict_stall.ops): the head waiter is now let through. -/
example :
    ∃ c log, run { strict := true }
        [.settings (some 1), .reserve, .enter, .openStream, .reserve, .enter, .reserve, .forget 1]
        = some (c, log) ∧ c.streams = [] ∧ c.reserved = 1 ∧ c.await = .go := by
  refine ⟨_, _, rfl, ?_, ?_, ?_⟩ <;> decide

/-! Non-vacuity -/
example : step ({ maxConc := 1 } : CC) .openStream = some { maxConc := 1, streams := [1], nextID := 3 } := by decide
example : step ({ maxConc := 1, streams := [1], nextID := 3 } : CC) .openStream = none := by decide
example : ({ maxConc := 1, streams := [1], nextID := 3 } : CC).reserve.1 = false := by decide
example : ({ maxConc := 1, streams := [1], nextID := 3, strict := true } : CC).reserve.1 = true := by decide

/-! ## T-tie: the comparison sites regenerated from transport.go equal the model's -/

theorem gen_initialMax_eq : NetVerif.Gen.C17.initialMaxConcurrentStreams = initialMaxConcurrentStreams := rfl

theorem gen_defaultMax_eq : NetVerif.Gen.C17.defaultMaxConcurrentStreams = defaultMaxConcurrentStreams := rfl

/-- `currentRequestCountLocked` as written in Go is the model's `count`. -/
theorem gen_count_eq (c : CC) :
    NetVerif.Gen.C17.count c.streams.length c.reserved c.pendingResets = c.count := rfl

/-- On an open, usable connection `awaitOpenSlotForStreamLocked` proceeds exactly when the
comparison written in Go holds. -/
theorem gen_slotFree_eq (c : CC) (hc : c.closed = false) (hi : c.idleCanTake = true) :
    c.await = .go ↔
      NetVerif.Gen.C17.slotFree c.streams.length c.reserved c.pendingResets c.maxConc = true := by
  unfold CC.await NetVerif.Gen.C17.slotFree
  simp only [hc, hi, Bool.false_and, Bool.not_true, Bool.or_self, decide_eq_true_eq]
  by_cases h : c.streams.length + c.pendingResets < c.maxConc
  · simp [h]
  · simp [h]

/-- Non-strict `idleStateLocked` on an open connection is the comparison written in Go and
`isUsableLocked`. -/
theorem gen_poolOkay_eq (c : CC) (hs : c.strict = false) (hsu : c.singleUse = false)
    (hc : c.closed = false) :
    c.idleCanTake =
      (NetVerif.Gen.C17.poolOkay c.streams.length c.reserved c.pendingResets c.maxConc && c.isUsable) := by
  unfold CC.idleCanTake NetVerif.Gen.C17.poolOkay NetVerif.Gen.C17.count CC.count
  simp [hs, hsu, hc]

/-! ## Part 2: the trace monitor -/

/-- The wire-level property of a whole trace: every event passes `wireCheck` in the wire state
reached by the events before it. -/
def WireProp (strict : Bool) (tr : List Ev) : Prop :=
  ∀ pre e post, tr = pre ++ e :: post → wireCheck strict (fun c => wireState c pre) e = true

theorem ev_ok {m m' : Mon} {e : Ev} (h : m.ev e = .ok m') :
    wireCheck m.strict m.w e = true ∧ m'.strict = m.strict ∧ m'.w = fun c => (m.w c).upd c e := by
  unfold Mon.ev at h
  split at h
  · cases h
  · rename_i hc
    split at h
    · cases h
    · cases h
      simp at hc
      exact ⟨hc, rfl, rfl⟩

theorem run_ok (m m' : Mon) (tr : List Ev) (h : m.run tr = .ok m') :
    ∀ pre e post, tr = pre ++ e :: post →
      wireCheck m.strict (fun c => pre.foldl (fun w e => w.upd c e) (m.w c)) e = true := by
  induction tr generalizing m with
  | nil => intro pre e post hp; simp at hp
  | cons a as ih =>
    simp only [Mon.run] at h
    split at h
    · cases h
    · rename_i m1 h1
      have ⟨hc, hs, hw⟩ := ev_ok h1
      intro pre e post hp
      cases pre with
      | nil =>
        simp at hp
        obtain ⟨rfl, _⟩ := hp
        simpa using hc
      | cons p ps =>
        simp at hp
        obtain ⟨rfl, rfl⟩ := hp
        have := ih m1 h ps e post rfl
        rw [hs, hw] at this
        simpa [List.foldl_cons] using this

/-- Soundness: an accepted trace satisfies the wire-level property. -/
theorem accepted_wireProp (strict : Bool) (tr : List Ev) (h : accepts strict tr = true) :
    WireProp strict tr := by
  unfold accepts at h
  split at h
  · rename_i m' hr
    intro pre e post hp
    have := run_ok (Mon.init strict) m' tr hr pre e post hp
    simpa [Mon.init, wireState] using this
  · cases h

/-- Accepted traces: stream IDs are odd. -/
theorem accepted_ids_odd (strict : Bool) (tr pre post : List Ev) (c id r : Nat) (es : Bool)
    (h : accepts strict tr = true) (hp : tr = pre ++ .hdr c id r es :: post) : id % 2 = 1 := by
  have := accepted_wireProp strict tr h pre _ post hp
  simp [wireCheck] at this
  exact this.1.1.1

theorem upd_lastID_mono (w : WConn) (c : Nat) (e : Ev)
    (h : ∀ id r es, e = .hdr c id r es → w.lastID < id) : w.lastID ≤ (w.upd c e).lastID := by
  cases e <;> simp only [WConn.upd] <;> (try split) <;> simp_all
  case hdr.isTrue c' id r es hc =>
    have := h
    omega

/-- `lastID` never decreases along a trace whose HEADERS all pass the check. -/
theorem lastID_mono (c : Nat) (w : WConn) (tr : List Ev)
    (h : ∀ pre e post, tr = pre ++ e :: post → ∀ id r es, e = .hdr c id r es →
      (pre.foldl (fun w e => w.upd c e) w).lastID < id) :
    w.lastID ≤ (tr.foldl (fun w e => w.upd c e) w).lastID := by
  induction tr generalizing w with
  | nil => simp
  | cons a as ih =>
    simp only [List.foldl_cons]
    have h0 := upd_lastID_mono w c a (fun id r es he => by
      have := h [] a as rfl id r es he
      simpa using this)
    have h1 := ih (w.upd c a) (fun pre e post hp id r es he => by
      have := h (a :: pre) e post (by simp [hp]) id r es he
      simpa using this)
    omega

/-- Accepted traces: stream IDs on one connection are strictly increasing. -/
theorem accepted_ids_increasing (strict : Bool) (tr pre mid post : List Ev) (c id r id' r' : Nat)
    (es es' : Bool) (h : accepts strict tr = true)
    (hp : tr = pre ++ .hdr c id r es :: (mid ++ .hdr c id' r' es' :: post)) : id < id' := by
  have hw := accepted_wireProp strict tr h
  -- the second HEADERS is checked against the state after pre ++ hdr :: mid
  have h2 := hw (pre ++ .hdr c id r es :: mid) (.hdr c id' r' es') post (by simp [hp])
  simp only [wireCheck, Bool.and_eq_true, decide_eq_true_eq] at h2
  have hlt := h2.1.1.2
  -- lastID after `pre ++ [hdr]` is id, and it does not decrease over `mid`
  have hsplit : wireState c (pre ++ .hdr c id r es :: mid)
      = mid.foldl (fun w e => w.upd c e) ((wireState c pre).upd c (.hdr c id r es)) := by
    simp [wireState, List.foldl_append]
  have hid : ((wireState c pre).upd c (.hdr c id r es)).lastID = id := by simp [WConn.upd]
  have hmono := lastID_mono c ((wireState c pre).upd c (.hdr c id r es)) mid
    (fun p e q hpq id2 r2 es2 he => by
      have := hw (pre ++ .hdr c id r es :: p) e (q ++ .hdr c id' r' es' :: post)
        (by simp [hp, hpq])
      subst he
      simp only [wireCheck, Bool.and_eq_true, decide_eq_true_eq] at this
      have := this.1.1.2
      simpa [wireState, List.foldl_append] using this)
  rw [hsplit] at hlt
  omega

/-- Accepted strict-mode traces: at every HEADERS the number of streams open on the wire,
including the new one, is within the limit of the last SETTINGS the client was given. -/
theorem accepted_strict_limit (tr pre post : List Ev) (c id r : Nat) (es : Bool)
    (h : accepts true tr = true) (hp : tr = pre ++ .hdr c id r es :: post) :
    (wireState c pre).opn.length + 1 ≤ (wireState c pre).limit := by
  have := accepted_wireProp true tr h pre _ post hp
  simp [wireCheck] at this
  exact this.1.2

/-- Accepted strict-mode traces: once the limit is at or below the number of open streams
(e.g. lowered by SETTINGS), the next event on that connection is not a new stream. -/
theorem accepted_lowered_limit_no_new_stream (tr pre post : List Ev) (c : Nat) (e : Ev)
    (h : accepts true tr = true) (hp : tr = pre ++ e :: post)
    (hfull : (wireState c pre).limit ≤ (wireState c pre).opn.length) :
    ∀ id r es, e ≠ .hdr c id r es := by
  intro id r es he
  subst he
  have := accepted_strict_limit tr pre post c id r es h hp
  omega

/-- Accepted non-strict traces: the pool never hands out a connection whose open streams plus
already assigned requests have reached its limit. -/
theorem accepted_pool_below_limit (tr pre post : List Ev) (r c : Nat) (f : Bool)
    (h : accepts false tr = true) (hp : tr = pre ++ .pick r c f :: post) :
    (wireState c pre).opn.length + (wireState c pre).pend.length < (wireState c pre).limit := by
  have := accepted_wireProp false tr h pre _ post hp
  simp [wireCheck] at this
  exact this.1

/-! Non-vacuity: a trace that exercises the limit is accepted; opening past the limit and a
pool selection at the limit are rejected. -/
def demoOK : List Ev :=
  [.pick 0 0 true, .hdr 0 1 0 true, .setMax 0 (some 1), .pick 1 0 false, .sresp 0 1 true, .hdr 0 3 1 true]

example : accepts true demoOK = true := by decide
example : accepts true [.pick 0 0 true, .hdr 0 1 0 true, .setMax 0 (some 1), .pick 1 0 false, .hdr 0 3 1 true] = false := by decide
example : accepts false [.pick 0 0 true, .hdr 0 1 0 true, .setMax 0 (some 1), .pick 1 0 false] = false := by decide
example : accepts false [.pick 0 0 true, .hdr 0 1 0 true, .pick 1 0 false, .hdr 0 1 1 true] = false := by decide

end NetVerif.Proofs.C17
