import NetVerif.Proofs.C08
/-!
C08, "when a window becomes available again, pending response data is eventually sent", on the model:
a DATA frame that `Consume` refuses because a window is exhausted (or negative) is handed out, in part or
whole, by the very next `Consume` after a WINDOW_UPDATE that makes `available()` positive again.
(`processWindowUpdate` ends with `scheduleFrameWrite`, which is what calls `Pop`/`Consume` again; that call
chain is covered by the liveness clause of the trace oracle.)
-/
namespace NetVerif.Proofs.C08
open NetVerif.Model.SendWin NetVerif.Model.Flow NetVerif.Proofs.SendWin NetVerif.Proofs.SendWinFlow

/-- stream window exhausted or negative (e.g. after a SETTINGS shrink), connection window positive -/
theorem stream_wu_resumes_data (s : Send) (sid len : Nat) (a inc : Int) (hs : sid ≠ 0)
    (h7 : IsInt32 s.conn) (ha : IsInt32 a) (ea : tget s.wins sid = some a) (hlen : 0 < len)
    (hmf : 0 < s.maxFrame) (hblocked : a ≤ 0) (hconn : 0 < s.conn) (hinc : 0 < inc) (hincM : inc ≤ maxWindow)
    (hopen : 0 < a + inc) :
    s.consume sid len 2147483647 = none ∧
    (s.windowUpdate sid inc).2 = [] ∧
    ∃ n s', (s.windowUpdate sid inc).1.consume sid len 2147483647 = some (n, s') ∧ 0 < n := by
  have hI : IsInt32 inc := by unfold IsInt32; unfold maxWindow at hincM; omega
  have hsum : IsInt32 (a + inc) := by unfold IsInt32 at *; unfold maxWindow at hincM; omega
  have av0 := avail_le s a
  have blocked : s.consume sid len 2147483647 = none :=
    (consume_none_iff s sid len 2147483647 a h7 ha ea).2 ⟨hlen, by simp only [Int.min_def]; split <;> split <;> omega⟩
  have sp := outflow_add_spec (s.flow a) inc ha hI
  have hr : ((s.flow a).add inc).1 = true := sp.1.2 hsum
  have e := sp.2.1 hr
  have hz : ¬ inc = 0 := by omega
  have hstate : s.windowUpdate sid inc = ({ s with wins := tset s.wins sid (a + inc) }, []) := by
    simp only [Send.windowUpdate, hs, if_false, hz, ea, hr, if_true, e]
    rfl
  refine ⟨blocked, by rw [hstate], ?_⟩
  rw [hstate]
  have ea' : tget ({ s with wins := tset s.wins sid (a + inc) } : Send).wins sid = some (a + inc) := by
    simp [tget_tset, ea]
  have avail' : 0 < (({ s with wins := tset s.wins sid (a + inc) } : Send).flow (a + inc)).available := by
    simp only [Send.flow, Outflow.available]
    by_cases hlt : s.conn < a + inc <;> simp only [hlt, if_true, if_false] <;> omega
  obtain ⟨n, s', h1, h2, _⟩ := consume_progress ({ s with wins := tset s.wins sid (a + inc) } : Send) sid len
    2147483647 (a + inc) h7 hsum ea' hlen avail' (by omega) hmf
  exact ⟨n, s', h1, h2⟩

/-- connection window exhausted, stream window positive -/
theorem conn_wu_resumes_data (s : Send) (sid len : Nat) (a inc : Int)
    (h7 : IsInt32 s.conn) (ha : IsInt32 a) (ea : tget s.wins sid = some a) (hlen : 0 < len)
    (hmf : 0 < s.maxFrame) (hblocked : s.conn ≤ 0) (hstream : 0 < a) (hinc : 0 < inc) (hincM : inc ≤ maxWindow)
    (hopen : 0 < s.conn + inc) :
    s.consume sid len 2147483647 = none ∧
    (s.windowUpdate 0 inc).2 = [] ∧
    ∃ n s', (s.windowUpdate 0 inc).1.consume sid len 2147483647 = some (n, s') ∧ 0 < n := by
  have hI : IsInt32 inc := by unfold IsInt32; unfold maxWindow at hincM; omega
  have hsum : IsInt32 (s.conn + inc) := by unfold IsInt32 at *; unfold maxWindow at hincM; omega
  have av0 := avail_le s a
  have blocked : s.consume sid len 2147483647 = none :=
    (consume_none_iff s sid len 2147483647 a h7 ha ea).2 ⟨hlen, by simp only [Int.min_def]; split <;> split <;> omega⟩
  have sp := outflow_add_spec (Outflow.mk s.conn none) inc h7 hI
  have hr : ((Outflow.mk s.conn none).add inc).1 = true := sp.1.2 hsum
  have e := sp.2.1 hr
  have hz : ¬ inc = 0 := by omega
  have hstate : s.windowUpdate 0 inc = ({ s with conn := s.conn + inc }, []) := by
    simp only [Send.windowUpdate, if_true, hz, if_false, hr, e]
  refine ⟨blocked, by rw [hstate], ?_⟩
  rw [hstate]
  have avail' : 0 < (({ s with conn := s.conn + inc } : Send).flow a).available := by
    simp only [Send.flow, Outflow.available]
    by_cases hlt : s.conn + inc < a <;> simp only [hlt, if_true, if_false] <;> omega
  obtain ⟨n, s', h1, h2, _⟩ := consume_progress ({ s with conn := s.conn + inc } : Send) sid len
    2147483647 a hsum ha ea hlen avail' (by omega) hmf
  exact ⟨n, s', h1, h2⟩

end NetVerif.Proofs.C08
