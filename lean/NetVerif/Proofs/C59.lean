import NetVerif.Model.WebSocket
/-!
C59 — WebSocket messages cross the connection intact.
Property theorems on the model of hybi.go / websocket.go.
-/
namespace NetVerif.Proofs.C59
open NetVerif.Model.WebSocket

/-! ### Masking -/

theorem xor_cancel (a b : Nat) : (a ^^^ b) ^^^ b = a := by
  rw [Nat.xor_assoc, Nat.xor_self, Nat.xor_zero]

/-- Masking with the same key at the same position is an involution (for every key, of any shape). -/
theorem maskBytes_involutive (key : List Nat) (pos : Nat) (bs : List Nat) :
    maskBytes key pos (maskBytes key pos bs) = bs := by
  induction bs generalizing pos with
  | nil => rfl
  | cons b bs ih => simp [maskBytes, xor_cancel, ih]

theorem maskBytes_length (key : List Nat) (pos : Nat) (bs : List Nat) :
    (maskBytes key pos bs).length = bs.length := by
  induction bs generalizing pos with
  | nil => rfl
  | cons b bs ih => simp [maskBytes, ih]

/-! ### Length field -/

/-- The length field decodes to the length for every payload length below 2^63, across the
7-bit / 16-bit / 64-bit forms (boundaries 125/126 and 65535/65536 included). -/
theorem lenField_spec (n : Nat) (h : n < 2 ^ 63) :
    (lenField n).1 < 128 ∧ (lenField n).2.length = extLen (lenField n).1 ∧
    decodeLen (lenField n).1 (lenField n).2 = n := by
  unfold lenField
  by_cases h1 : n ≤ 125
  · simp [h1, extLen, decodeLen]; omega
  · by_cases h2 : n < 65536
    · simp [h1, h2, extLen, decodeLen, beBytes, beFold]; omega
    · simp [h1, h2, extLen, decodeLen, beBytes, beFold]; omega

theorem takeExact_append (xs r : List Nat) : takeExact xs.length (xs ++ r) = some (xs, r) := by
  simp [takeExact]

/-- Header of a frame written for `msg`. -/
def headerOf (fin : Bool) (rsv op : Nat) (mask : Option (List Nat)) (msg : List Nat) : Header :=
  { fin := fin, rsv := rsv, op := op, len := msg.length, mask := mask }

/-- Reading the header of a written frame. -/
theorem readHeader_writeFrame (fin : Bool) (rsv op : Nat) (mask : Option (List Nat))
    (msg tail bs : List Nat) (hr : rsv < 8) (ho : op < 16) (hl : msg.length < 2 ^ 63)
    (hw : writeFrame fin rsv op mask msg = some bs) :
    ∃ sz, readHeader (bs ++ tail) =
      some (headerOf fin rsv op mask msg, sz,
            (match mask with | none => msg | some key => maskBytes key 0 msg) ++ tail) := by
  unfold writeFrame at hw
  obtain ⟨hlt, hlen, hdec⟩ := lenField_spec msg.length hl
  generalize lenField msg.length = lf at *
  obtain ⟨l7, ext⟩ := lf
  simp only at hlt hlen hdec hw
  have hfin : ((if fin then 128 else 0) + rsv * 16 + op) / 128 % 2 = 1 ↔ fin = true := by
    cases fin <;> simp <;> omega
  have hrsv : ((if fin then 128 else 0) + rsv * 16 + op) / 16 % 8 = rsv := by
    cases fin <;> simp <;> omega
  have hop : ((if fin then 128 else 0) + rsv * 16 + op) % 16 = op := by
    cases fin <;> simp <;> omega
  cases mask with
  | none =>
    simp only [Option.some.injEq] at hw
    subst hw
    have e1 : l7 / 128 % 2 = 0 := by omega
    have e2 : l7 % 128 = l7 := by omega
    have := takeExact_append ext (msg ++ tail)
    rw [hlen] at this
    refine ⟨2 + extLen l7, ?_⟩
    simp [readHeader, e1, e2, this, hfin, hrsv, hop, hdec, headerOf]
  | some key =>
    by_cases hk : key.length = 4
    · simp only [hk, ne_eq, not_true_eq_false, ↓reduceIte, Option.some.injEq] at hw
      subst hw
      have e1 : (128 + l7) / 128 % 2 = 1 := by omega
      have e2 : (128 + l7) % 128 = l7 := by omega
      have e1' : (l7 / 128 + 1) % 2 = 1 := by omega
      have t1 := takeExact_append ext (key ++ (maskBytes key 0 msg ++ tail))
      rw [hlen] at t1
      have t2 := takeExact_append key (maskBytes key 0 msg ++ tail)
      rw [hk] at t2
      refine ⟨2 + extLen l7 + 4, ?_⟩
      simp [readHeader, e1, e1', e2, t1, t2, hfin, hrsv, hop, hdec, headerOf, List.append_assoc]
    · simp [hk] at hw

/-- **Frame round trip**: every frame the writer produces (any FIN/RSV/opcode, payload of any
length below 2^63 — in particular across the 125/126 and 65535/65536 boundaries — masked with any
4-byte key or unmasked), followed by anything, reads back as the same header, the same payload,
and leaves exactly the following bytes. -/
theorem readFrame_writeFrame (fin : Bool) (rsv op : Nat) (mask : Option (List Nat))
    (msg tail bs : List Nat) (hr : rsv < 8) (ho : op < 16) (hl : msg.length < 2 ^ 63)
    (hw : writeFrame fin rsv op mask msg = some bs) :
    readFrame (bs ++ tail) = some (headerOf fin rsv op mask msg, msg, tail) := by
  obtain ⟨sz, h⟩ := readHeader_writeFrame fin rsv op mask msg tail bs hr ho hl hw
  unfold readFrame
  rw [h]
  cases mask with
  | none => simp [headerOf, unmask]
  | some key => simp [headerOf, unmask, maskBytes_length, maskBytes_involutive]


/-! ### Connection level: what `Codec.Receive` returns for frames sent by a conforming peer -/

/-- The mask a conforming peer of `c` uses: a server's peer is a client and masks with `key`;
a client's peer is a server and never masks. -/
def peerMask (isServer : Bool) (key : List Nat) : Option (List Nat) :=
  if isServer then some key else none

/-- payload bytes as they appear on the wire -/
def wirePayload (isServer : Bool) (key msg : List Nat) : List Nat :=
  match peerMask isServer key with
  | none => msg
  | some k => maskBytes k 0 msg

theorem unmask_wirePayload (isServer : Bool) (key msg : List Nat) (fin : Bool) (rsv op n : Nat) :
    unmask { fin := fin, rsv := rsv, op := op, len := n, mask := peerMask isServer key } 0
      (wirePayload isServer key msg) = msg := by
  unfold unmask wirePayload peerMask
  cases isServer <;> simp [maskBytes_involutive]

theorem wirePayload_length (isServer : Bool) (key msg : List Nat) :
    (wirePayload isServer key msg).length = msg.length := by
  unfold wirePayload peerMask
  cases isServer <;> simp [maskBytes_length]

/-- Header read for a frame from a conforming peer. -/
theorem readHeader_peerFrame (c : Conn) (op : Nat) (key msg tail bs : List Nat)
    (ho : op < 16) (hl : msg.length < 2 ^ 63)
    (hw : writeFrame true 0 op (peerMask c.isServer key) msg = some bs)
    (hin : c.input = bs ++ tail) :
    ∃ sz, readHeader c.input =
      some (headerOf true 0 op (peerMask c.isServer key) msg, sz,
            wirePayload c.isServer key msg ++ tail) := by
  obtain ⟨sz, h⟩ := readHeader_writeFrame true 0 op _ msg tail bs (by omega) ho hl hw
  exact ⟨sz, by rw [hin, h]; rfl⟩

/-- A conforming peer's frame never trips the mask enforcement. -/
theorem peerMask_ok (isServer : Bool) (key : List Nat) :
    ¬ (isServer = true ∧ peerMask isServer key = none) ∧
    (isServer = false → peerMask isServer key = none) := by
  cases isServer <;> simp [peerMask]

/-- **A text/binary message within the limit is delivered intact**: same payload type, same bytes,
and exactly the following bytes remain unread. -/
theorem receiveLoop_data (fuel : Nat) (c : Conn) (op : Nat) (key msg tail bs : List Nat)
    (hop : op = opText ∨ op = opBinary) (hl : msg.length < 2 ^ 63)
    (hmax : msg.length ≤ c.maxPayload)
    (hw : writeFrame true 0 op (peerMask c.isServer key) msg = some bs)
    (hin : c.input = bs ++ tail) :
    receiveLoop (fuel + 1) c = (.msg op msg, { c with input := tail, payloadType := op }) := by
  have ho : op < 16 := by rcases hop with h | h <;> simp [h, opText, opBinary]
  obtain ⟨sz, h⟩ := readHeader_peerFrame c op key msg tail bs ho hl hw hin
  obtain ⟨m1, m2⟩ := peerMask_ok c.isServer key
  have hnc : op ≠ opContinuation := by rcases hop with h | h <;> simp [h, opText, opBinary, opContinuation]
  have hlen : ¬ (msg.length > c.maxPayload) := by omega
  have hu := unmask_wirePayload c.isServer key msg true 0 op msg.length
  unfold receiveLoop
  simp only [h, headerOf]
  simp [m1, hop, hnc, hlen, wirePayload_length, List.take_left', List.drop_left', hu]
  rcases hop with h | h <;> simp [h] <;> exact m2

/-- **An oversized message is refused** (`ErrFrameTooLarge`) and left on the wire. -/
theorem receiveLoop_tooLarge (fuel : Nat) (c : Conn) (op : Nat) (key msg tail bs : List Nat)
    (hop : op = opText ∨ op = opBinary) (hl : msg.length < 2 ^ 63)
    (hmax : msg.length > c.maxPayload)
    (hw : writeFrame true 0 op (peerMask c.isServer key) msg = some bs)
    (hin : c.input = bs ++ tail) :
    receiveLoop (fuel + 1) c =
      (.tooLarge, { c with input := wirePayload c.isServer key msg ++ tail, payloadType := op,
                           pending := msg.length, hasPending := true }) := by
  have ho : op < 16 := by rcases hop with h | h <;> simp [h, opText, opBinary]
  obtain ⟨sz, h⟩ := readHeader_peerFrame c op key msg tail bs ho hl hw hin
  obtain ⟨m1, m2⟩ := peerMask_ok c.isServer key
  unfold receiveLoop
  simp only [h, headerOf]
  simp [m1, hop, hmax]
  rcases hop with h | h <;> simp [h] <;> exact m2

/-- **…without corrupting the next message**: the `Receive` call after an `ErrFrameTooLarge`
behaves exactly like a `Receive` on a connection positioned at the first byte after the
oversized frame. -/
theorem receive_after_tooLarge (c : Conn) (key msg tail : List Nat)
    (hin : c.input = wirePayload c.isServer key msg ++ tail)
    (hp : c.hasPending = true) (hpl : c.pending = msg.length) :
    receive c = receive { c with input := tail, pending := 0, hasPending := false } := by
  unfold receive
  simp [hp, hin, hpl, ← wirePayload_length c.isServer key msg, List.drop_left']

/-- **PINGs are answered** with a PONG carrying the same payload (control payloads are at most 125
bytes), unmasked from a server and masked from a client, and reception continues with the next frame. -/
theorem receiveLoop_ping (fuel : Nat) (c : Conn) (key msg tail bs : List Nat)
    (hl : msg.length ≤ maxControlPayload)
    (hw : writeFrame true 0 opPing (peerMask c.isServer key) msg = some bs)
    (hin : c.input = bs ++ tail) :
    receiveLoop (fuel + 1) c =
      receiveLoop fuel { c with input := tail, written := c.written ++ [(opPong, msg, !c.isServer)] } := by
  have hl' : msg.length < 2 ^ 63 := by simp [maxControlPayload] at hl; omega
  obtain ⟨sz, h⟩ := readHeader_peerFrame c opPing key msg tail bs (by simp [opPing]) hl' hw hin
  obtain ⟨m1, m2⟩ := peerMask_ok c.isServer key
  have hu := unmask_wirePayload c.isServer key msg true 0 opPing msg.length
  rw [receiveLoop]
  simp only [h, headerOf]
  simp [opPing] at hu
  have hnn : ¬ (c.isServer = false ∧ ¬ peerMask c.isServer key = none) := fun ⟨a, b⟩ => b (m2 a)
  simp [m1, hnn, opPing, opContinuation, opText, opBinary, opClose, opPong, handlerWrite,
    wirePayload_length, List.take_left', List.drop_left', hu, List.take_of_length_le hl]

/-- An unsolicited PONG is consumed silently. -/
theorem receiveLoop_pong (fuel : Nat) (c : Conn) (key msg tail bs : List Nat)
    (hl : msg.length < 2 ^ 63)
    (hw : writeFrame true 0 opPong (peerMask c.isServer key) msg = some bs)
    (hin : c.input = bs ++ tail) :
    receiveLoop (fuel + 1) c = receiveLoop fuel { c with input := tail } := by
  obtain ⟨sz, h⟩ := readHeader_peerFrame c opPong key msg tail bs (by simp [opPong]) hl hw hin
  obtain ⟨m1, m2⟩ := peerMask_ok c.isServer key
  rw [receiveLoop]
  simp only [h, headerOf]
  have hnn : ¬ (c.isServer = false ∧ ¬ peerMask c.isServer key = none) := fun ⟨a, b⟩ => b (m2 a)
  simp [m1, hnn, opPing, opContinuation, opText, opBinary, opClose, opPong,
    wirePayload_length, List.drop_left']

/-- **A peer that violates the masking rule is disconnected**: a server receiving an unmasked frame,
or a client receiving a masked one, answers with a Close frame (status 1002) and reports EOF;
the offending payload is never delivered. -/
theorem receiveLoop_mask_violation (fuel : Nat) (c : Conn) (h : Header) (sz : Nat) (r : List Nat)
    (hh : readHeader c.input = some (h, sz, r))
    (hv : (c.isServer = true ∧ h.mask = none) ∨ (c.isServer = false ∧ h.mask ≠ none)) :
    receiveLoop (fuel + 1) c =
      (.eof, { c with input := r, written := c.written ++ [(opClose, [3, 234], !c.isServer)] }) := by
  unfold receiveLoop
  simp only [hh]
  rcases hv with ⟨h1, h2⟩ | ⟨h1, h2⟩
  · simp [h1, h2, handlerWrite]
  · simp [h1, h2, handlerWrite]

/-- The writer role: frames a connection sends itself (`Conn.Write`, `Codec.Send`, PONG, CLOSE) are
masked exactly when the connection is a client. (`hybiFrameWriterFactory.needMaskingKey = request == nil`.) -/
theorem handlerWrite_masked_iff_client (c : Conn) (op : Nat) (msg : List Nat) :
    (handlerWrite c op msg).written = c.written ++ [(op, msg, !c.isServer)] := rfl

/-! ### Whole sessions -/

/-- A message as a conforming peer sends it: opcode (text/binary), masking key, payload. -/
structure Msg where
  op : Nat
  key : List Nat
  data : List Nat

def Msg.WF (m : Msg) (maxPayload : Nat) : Prop :=
  (m.op = opText ∨ m.op = opBinary) ∧ m.key.length = 4 ∧ m.data.length < 2 ^ 63 ∧
  m.data.length ≤ maxPayload

/-- The byte stream a conforming peer produces for a message list. -/
def stream (isServer : Bool) : List Msg → List Nat
  | [] => []
  | m :: ms => (writeFrame true 0 m.op (peerMask isServer m.key) m.data).getD [] ++ stream isServer ms

theorem writeFrame_isSome (isServer : Bool) (m : Msg) (h : m.key.length = 4) :
    ∃ bs, writeFrame true 0 m.op (peerMask isServer m.key) m.data = some bs := by
  unfold writeFrame peerMask
  cases isServer <;> simp [h]

/-- **Messages cross the connection intact**: for every list of text/binary messages (any payloads,
any masking keys, sizes up to the receiver's limit) written by a conforming peer, followed by any
further bytes, successive `Receive` calls return exactly those messages — same payload types, same
bytes, same order, nothing duplicated or dropped — and leave exactly the further bytes unread. -/
theorem receiveN_stream (ms : List Msg) (c : Conn) (tail : List Nat)
    (hwf : ∀ m ∈ ms, m.WF c.maxPayload) (hp : c.hasPending = false)
    (hin : c.input = stream c.isServer ms ++ tail) :
    (receiveN ms.length c).1 = ms.map (fun m => RecvResult.msg m.op m.data) ∧
    (receiveN ms.length c).2.input = tail := by
  induction ms generalizing c with
  | nil => simp [receiveN, hin, stream]
  | cons m ms ih =>
    obtain ⟨hop, hk, hl, hmax⟩ := hwf m (by simp)
    obtain ⟨bs, hbs⟩ := writeFrame_isSome c.isServer m hk
    have hin' : c.input = bs ++ (stream c.isServer ms ++ tail) := by
      rw [hin]; simp [stream, hbs, List.append_assoc]
    have hrecv : receive c = (.msg m.op m.data,
        { c with input := stream c.isServer ms ++ tail, payloadType := m.op }) := by
      unfold receive
      simp only [hp, Bool.false_eq_true, ↓reduceIte]
      rw [receiveLoop_data c.input.length c m.op m.key m.data _ bs hop hl hmax hbs hin', hp]
    have := ih { c with input := stream c.isServer ms ++ tail, payloadType := m.op }
      (fun m' hm' => hwf m' (by simp [hm'])) hp rfl
    simp only [List.length_cons, receiveN, hrecv, List.map_cons]
    exact ⟨by rw [this.1], this.2⟩

/-! ### Non-vacuity: the hypotheses are met by concrete sessions -/

example : writeFrame true 0 opText (peerMask true [1, 2, 3, 4]) [104, 105] =
    some [129, 130, 1, 2, 3, 4, 105, 107] := by decide
example : (receiveN 3 (newConn true 10
    ([129, 130, 1, 2, 3, 4, 105, 107] ++ [137, 128, 9, 9, 9, 9] ++ [130, 129, 0, 0, 0, 0, 7]))).1 =
    [.msg 1 [104, 105], .msg 2 [7], .eof] := by decide

end NetVerif.Proofs.C59
