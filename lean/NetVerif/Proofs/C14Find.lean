import NetVerif.Proofs.C14
import NetVerif.Model.H2Norm
/-!
C14, part 4 — the request direction, as the code is: `clientFrames` (what the Transport writes for
a submitted request) against the receive state machine.

The literal statement "every request the Transport sends is delivered" is FALSE of the unchanged
code: a request with `Body == nil` and a non-empty `Trailer` gets a HEADERS frame without END_STREAM
and nothing else (`Req.neverEnds`), so the stream never completes (`full_false`; reproduced on the
real Transport/Server by the harness under the signature `nil-body-with-trailers-never-ends`).
Outside that region the frames decode to exactly `clientNorm r` (`holds_partial`).
-/
namespace NetVerif.Proofs.C14
open NetVerif NetVerif.Model.H2Frame NetVerif.Model.H2Msg NetVerif.Model.H2Norm

/-- the full statement: whatever the plan (SETTINGS, schedule) and lawful codec, the frames the
Transport writes for a request are accepted by the receiver as exactly the normalised request. -/
def RequestDeliveredStatement : Prop :=
  ∀ (C : Codec) (sync : C.S → C.D → Prop), Lawful C sync → ∀ (s : C.S) (d : C.D), sync s d →
    ∀ (p : Plan), 0 < p.maxHdr → 0 < p.maxData → ∀ (r : Req),
      ∃ d', decodeFrames C.dec d p.sid (clientFrames C s p r).1 = some (clientNorm r, d')

/-- a POST without body announcing one trailer. -/
def witnessReq : Req :=
  { method := str "POST", scheme := str "https", host := [], uhost := str "example.com", path := str "/",
    contentLength := 0, nilBody := true, body := [], header := [], trailer := [(str "X-T", [str "v"])],
    gzip := false }

theorem witness_neverEnds : witnessReq.neverEnds = true := by decide +kernel

/-- the frames written for the witness are a single HEADERS frame without END_STREAM: the
receiver is left waiting in phase `body`. -/
theorem witness_not_delivered :
    decodeFrames simpleCodec.dec () 1 (clientFrames simpleCodec () { sid := 1, maxHdr := 16384, maxData := 16384 } witnessReq).1
      = none := by decide +kernel

theorem full_false : ¬ RequestDeliveredStatement := by
  intro h
  obtain ⟨d', hd⟩ := h simpleCodec (fun _ _ => True) simpleCodec_lawful () () trivial
    { sid := 1, maxHdr := 16384, maxData := 16384 } (by decide) (by decide) witnessReq
  rw [witness_not_delivered] at hd
  cases hd

theorem reqFields_ne_nil (r : Req) : reqFields r ≠ [] := by simp [reqFields]

/-- **Outside the excluded region the request is delivered**: for every lawful codec, plan and
request that is not `neverEnds`, the frames the Transport writes decode to exactly `clientNorm r`
(header fields in `enumerateHeaders` order, body, trailers) and leave the codec states in sync. -/
theorem holds_partial (C : Codec) (sync : C.S → C.D → Prop) (hC : Lawful C sync) (s : C.S) (d : C.D)
    (hs : sync s d) (p : Plan) (hh : 0 < p.maxHdr) (hd : 0 < p.maxData) (r : Req)
    (hr : r.neverEnds = false) :
    ∃ d', decodeFrames C.dec d p.sid (clientFrames C s p r).1 = some (clientNorm r, d') ∧
      sync (clientFrames C s p r).2 d' := by
  unfold clientFrames
  simp only [hr, Bool.false_eq_true, ↓reduceIte]
  exact decode_encode C sync hC s d hs { p with earlyEnd := r.earlyEnd } hh hd (clientNorm r)
    (reqFields_ne_nil r)

/-- the excluded region is exactly "no body but announced trailers". -/
theorem neverEnds_iff (r : Req) : r.neverEnds = true ↔ (r.actualCL = 0 ∧ r.trailer ≠ []) := by
  unfold Req.neverEnds
  cases h : r.trailer <;> simp

/-- non-vacuity of `holds_partial`: an ordinary POST with body and trailers is in its domain. -/
example : ({ witnessReq with nilBody := false, body := [1, 2, 3], contentLength := 3 } : Req).neverEnds = false := by
  decide +kernel

end NetVerif.Proofs.C14
