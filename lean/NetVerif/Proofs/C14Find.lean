import NetVerif.Proofs.C14
import NetVerif.Model.H2Norm
/-!
C14, part 4 — the request direction: `clientFrames` (what the Transport writes for a submitted
request: `encodeAndWriteHeaders` + `writeRequestBody`) against the receive state machine.

History: before the upstream repair "fix: http2: Transport never ended the stream of a request
with no body but a non-empty Trailer" a request with `Body == nil` and announced trailers got a
HEADERS frame without END_STREAM and nothing else, and this statement was false
(`full_false` + `holds_partial`). The repaired code puts END_STREAM on HEADERS whenever there is no
body (`endStream := !res.HasBody`); the statement now holds in full and the old witness is an
`example` below and a regression input in `corpus/C14/`.
-/
namespace NetVerif.Proofs.C14
open NetVerif NetVerif.Model.H2Frame NetVerif.Model.H2Msg NetVerif.Model.H2Norm

/-- the full statement: whatever the plan (SETTINGS, schedule) and lawful codec, the frames the
Transport writes for a request are accepted by the receiver as exactly the normalised request. -/
def RequestDeliveredStatement : Prop :=
  ∀ (C : Codec) (sync : C.S → C.D → Prop), Lawful C sync → ∀ (s : C.S) (d : C.D), sync s d →
    ∀ (p : Plan), 0 < p.maxHdr → 0 < p.maxData → ∀ (r : Req),
      ∃ d', decodeFrames C.dec d p.sid (clientFrames C s p r).1 = some (clientNorm r, d')

theorem reqFields_ne_nil (r : Req) : reqFields r ≠ [] := by simp [reqFields]

/-- **Every request is delivered**: for every lawful codec, plan and request, the frames the
Transport writes decode to exactly `clientNorm r` (header fields in `enumerateHeaders` order, body,
trailers) and leave the codec states in sync. -/
theorem request_delivered (C : Codec) (sync : C.S → C.D → Prop) (hC : Lawful C sync) (s : C.S) (d : C.D)
    (hs : sync s d) (p : Plan) (hh : 0 < p.maxHdr) (hd : 0 < p.maxData) (r : Req) :
    ∃ d', decodeFrames C.dec d p.sid (clientFrames C s p r).1 = some (clientNorm r, d') ∧
      sync (clientFrames C s p r).2 d' := by
  unfold clientFrames
  exact decode_encode C sync hC s d hs { p with earlyEnd := r.earlyEnd } hh hd (clientNorm r)
    (reqFields_ne_nil r)

theorem holds : RequestDeliveredStatement := by
  intro C sync hC s d hs p hh hd r
  obtain ⟨d', h, _⟩ := request_delivered C sync hC s d hs p hh hd r
  exact ⟨d', h⟩

theorem chunks_nil (max : Nat) (cuts : List Nat) : chunks max cuts [] = [] := by
  cases cuts <;> simp [chunks, splitBlock, splitLoop]

/-- a request without a body is a single header block carrying END_STREAM on its HEADERS frame,
whether or not trailers are announced. -/
theorem bodyless_ends_on_headers (C : Codec) (s : C.S) (p : Plan) (r : Req) (h : r.hasBody = false) :
    (clientFrames C s p r).1 = writeHeaderBlock p.sid true p.maxHdr (C.enc s (reqFields r)).1 := by
  simp [clientFrames, encodeFrames, clientNorm, Req.earlyEnd, h, chunks_nil]

/-! ### SETTINGS_MAX_HEADER_LIST_SIZE: a header list within the advertised limit is never truncated -/

/-- the receiver's size accounting (`readMetaFrame`) keeps the whole list iff its RFC size is at
most the advertised limit — in particular a list of EXACTLY the limit is delivered. -/
theorem sizeLoop_isSome_iff : ∀ (fs : List Field) (limit : Nat),
    (sizeLoop limit fs).isSome = true ↔ headerListSize fs ≤ limit
  | [], limit => by simp [sizeLoop, headerListSize]
  | f :: fs, limit => by
    unfold sizeLoop headerListSize
    split
    · simp; omega
    · rw [sizeLoop_isSome_iff fs]; omega

theorem sizeLoop_at_limit (fs : List Field) : sizeLoop (headerListSize fs) fs = some 0 := by
  induction fs with
  | nil => rfl
  | cons f fs ih =>
    unfold sizeLoop headerListSize
    have : ¬ (f.name.length + f.value.length + 32 > f.name.length + f.value.length + 32 + headerListSize fs) := by omega
    simp only [this, ↓reduceIte]
    have h2 : f.name.length + f.value.length + 32 + headerListSize fs - (f.name.length + f.value.length + 32)
        = headerListSize fs := by omega
    rw [h2, ih]

/-- whatever the Transport does send (`clientRefuses = false`) fits the server's accounting. -/
theorem sent_request_not_truncated (r : Req) (limit : Nat) (hl : 0 < limit)
    (h : clientRefuses r limit = false) : (sizeLoop limit (clientNorm r).headers).isSome = true := by
  rw [sizeLoop_isSome_iff]
  simp [clientRefuses, hl] at h
  simpa [clientNorm] using h

/-- the former witness of `full_false`: a POST without body announcing one trailer. -/
def witnessReq : Req :=
  { method := str "POST", scheme := str "https", host := [], uhost := str "example.com", path := str "/",
    contentLength := 0, nilBody := true, body := [], header := [], trailer := [(str "X-T", [str "v"])],
    gzip := false }

/-- it now satisfies the statement: its frames are accepted as `clientNorm witnessReq` … -/
example : ∃ d', decodeFrames simpleCodec.dec () 1
      (clientFrames simpleCodec () { sid := 1, maxHdr := 16384, maxData := 16384 } witnessReq).1
    = some (clientNorm witnessReq, d') :=
  holds simpleCodec (fun _ _ => True) simpleCodec_lawful () () trivial
    { sid := 1, maxHdr := 16384, maxData := 16384 } (by decide) (by decide) witnessReq

/-- … which still announces the trailer in the header block but carries no trailers, and whose
single HEADERS frame has END_STREAM. -/
example : (clientNorm witnessReq).trailers = [] ∧
    (⟨str "trailer", str "X-T"⟩ : Field) ∈ (clientNorm witnessReq).headers ∧
    witnessReq.earlyEnd = true := by decide +kernel

end NetVerif.Proofs.C14
