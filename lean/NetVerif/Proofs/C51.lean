import NetVerif.Model.PublicSuffix
import NetVerif.Gen.C51
import NetVerif.Proofs.Lemmas.PublicSuffix
/-!
C51 — public-suffix lookups follow the PSL algorithm.

* `suffix_eq_spec` (main): for ANY rule list without normal/exception conflicts, the loop of
  `PublicSuffix` run on the trie gen.go builds from the list (`nodeAt`) returns the public suffix
  the PSL algorithm selects (`specLen`): longest match, wildcards, exceptions, default `*`.
* `flat_eq_walk`: the loop over the packed `nodes`/`children` tables equals the loop over the trie
  those tables denote; `find_sound`/`find_complete`: the binary search over a strictly increasing
  child range finds exactly the node with the label.
* ICANN flag (`flag_eq_spec`, `psl_holds`): the returned flag is the flag of the prevailing rule.
  (Before the repair of list.go a parent-only node overwrote the flag with `true`; the old
  witnesses are kept as `example`s that now satisfy the statement.)
* `etld1_*`: `EffectiveTLDPlusOne` = public suffix plus one label, error when there is none.
* T-tie: bit layout of the packed tables.
-/
namespace NetVerif.Proofs.C51
open NetVerif NetVerif.Model.PublicSuffix NetVerif.Proofs.Lemmas.PublicSuffix

/-! ## T-tie: packed-table layout -/

theorem gen_layout_eq :
    2 ^ (Gen.C51.nodesBitsTextOffset + Gen.C51.nodesBitsTextLength) = 4194304 ∧
    2 ^ (Gen.C51.nodesBitsTextOffset + Gen.C51.nodesBitsTextLength + Gen.C51.nodesBitsICANN) = 8388608 ∧
    2 ^ Gen.C51.nodesBitsICANN = 2 ∧ 2 ^ Gen.C51.nodesBitsChildren = 1024 ∧
    2 ^ Gen.C51.childrenBitsLo = 16384 ∧ 2 ^ Gen.C51.childrenBitsHi = 16384 ∧
    2 ^ (Gen.C51.childrenBitsLo + Gen.C51.childrenBitsHi) = 268435456 ∧
    2 ^ Gen.C51.childrenBitsNodeType = 4 ∧
    2 ^ (Gen.C51.childrenBitsLo + Gen.C51.childrenBitsHi + Gen.C51.childrenBitsNodeType) = 1073741824 ∧
    2 ^ Gen.C51.childrenBitsWildcard = 2 ∧ Gen.C51.nodesBits = 40 ∧
    Gen.C51.nodeTypeNormal = 0 ∧ Gen.C51.nodeTypeException = 1 ∧ Gen.C51.nodeTypeParentOnly = 2 := by
  decide

/-! ## Main theorem: trie walk = PSL algorithm (public suffix) -/

/-- Well-formed rule list: no label sequence is both a normal and an exception rule, there is no
wildcard rule with an empty parent (the default rule `*` is implicit, not a list entry), and
rules with the same label sequence (`b.c`, `*.b.c`) are in the same section (the packed trie has
one ICANN bit per node). -/
def WF (rules : List Rule) : Prop :=
  NoConflict rules ∧ hasWild rules [] = false ∧ FlagConsistent rules

/-- For any well-formed rule list and any domain, the `PublicSuffix` loop on the trie built from
the rules selects the PSL public suffix (longest match, wildcard, exception, default `*`). -/
theorem suffix_eq_spec (rules : List Rule) (hwf : WF rules) (d : List Nat) :
    (walkResult (nodeAt rules) d).1 = specLen (listIndex rules) d := by
  unfold walkResult specLen
  simp only
  rw [walk_eq_specGo rules hwf.1 d [] initSt (by simp [initSt, hwf.2.1])]
  rfl

/-- The loop over the packed tables = the loop over the trie the tables denote (`Flat.look`). -/
theorem flat_eq_walk (f : Flat) (d : List Nat) : flatResult f d = walkResult f.look d := by
  unfold flatResult walkResult
  have := Lemmas.PublicSuffix.flat_eq_walk f d [] 0 f.numTLD initSt
    { icann := false, ntype := 2, wildcard := false } (by simp [Flat.reach])
  simp only [List.length_nil] at this
  rw [this]

/-- Chain: if the packed tables denote the trie built from the rules along the paths of `d`
(this is what the driver checks for every query), `PublicSuffix` returns the PSL public suffix. -/
theorem flat_suffix_eq_spec (f : Flat) (rules : List Rule) (hwf : WF rules) (d : List Nat)
    (hrep : ∀ p, p <+: d → f.look p = nodeAt rules p) :
    (flatResult f d).1 = specLen (listIndex rules) d := by
  rw [flat_eq_walk, ← suffix_eq_spec rules hwf d]
  unfold walkResult
  simp only
  rw [walk_congr f.look (nodeAt rules) d [] initSt (fun p hp => hrep p (by simpa using hp))]

/-! ## Binary search -/

theorem find_sound (lab : Nat → Nat) (x fuel lo hi i : Nat) (h : find lab x fuel lo hi = some i) :
    lo ≤ i ∧ i < hi ∧ lab i = x :=
  Lemmas.PublicSuffix.find_sound lab x fuel lo hi i h

/-- On a strictly increasing range `find` (with the fuel `Flat.child` gives it) returns the node
with the label whenever there is one. -/
theorem find_complete (lab : Nat → Nat) (x lo hi i : Nat)
    (hs : ∀ a b, lo ≤ a → a < b → b < hi → lab a < lab b) (h1 : lo ≤ i) (h2 : i < hi) (hx : lab i = x) :
    find lab x (hi - lo + 1) lo hi = some i :=
  Lemmas.PublicSuffix.find_complete lab x _ lo hi i hs h1 h2 hx (by omega)

/-! ## ICANN flag -/

/-- The returned flag is the ICANN flag of the prevailing rule (`false` for the default rule). -/
theorem flag_eq_spec (rules : List Rule) (hwf : WF rules) (d : List Nat) :
    (walkResult (nodeAt rules) d).2 = specFlag rules d := by
  unfold walkResult specFlag
  simp only
  rw [walk_flag_eq rules hwf.1 hwf.2.2 d [] initSt (by simp [initSt, hwf.2.1]) (by simp [initSt])]
  rfl

/-- Full statement: for every well-formed rule list and every domain, `PublicSuffix` on the trie built
from the rules returns the PSL public suffix AND the ICANN flag of the prevailing rule. -/
theorem psl_holds (rules : List Rule) (hwf : WF rules) (d : List Nat) :
    walkResult (nodeAt rules) d = (specLen (listIndex rules) d, specFlag rules d) :=
  Prod.ext (suffix_eq_spec rules hwf d) (flag_eq_spec rules hwf d)

/-- The same through the packed tables, when they denote the trie of the rules along `d`. -/
theorem flat_psl_holds (f : Flat) (rules : List Rule) (hwf : WF rules) (d : List Nat)
    (hrep : ∀ p, p <+: d → f.look p = nodeAt rules p) :
    flatResult f d = (specLen (listIndex rules) d, specFlag rules d) := by
  rw [flat_eq_walk, ← psl_holds rules hwf d]
  unfold walkResult
  simp only
  rw [walk_congr f.look (nodeAt rules) d [] initSt (fun p hp => hrep p (by simpa using hp))]

/-- Former counterexample (code before the repair returned `true`): rules `{b.a}` (private), domain
`x.a`: no rule matches, default rule, not ICANN. -/
example : walkResult (nodeAt [{ kind := .normal, labels := [1, 2], icann := false }]) [1, 3] = (1, false) := by
  decide

/-- Former counterexample, the shape found in the embedded list (`x.dualstack.us-east-1.amazonaws.com`):
rules `{a (private), c.b.a}`, domain `x.b.a`: suffix `a`, private. -/
example :
    let rules : List Rule := [{ kind := .normal, labels := [1], icann := false },
                              { kind := .normal, labels := [1, 2, 3], icann := false }]
    walkResult (nodeAt rules) [1, 2, 9] = (1, false) ∧ specFlag rules [1, 2, 9] = false := by
  decide

/-! ## EffectiveTLDPlusOne -/

theorem etld1_some (e : Bool) (n k r : Nat) (h : etld1 e n (some k) = some r) :
    e = false ∧ r = k + 1 ∧ r ≤ n := by
  unfold etld1 at h
  split at h
  · simp at h
  · simp only at h
    split at h
    · simp at h
    · simp at h; subst h; simp_all; omega

theorem etld1_none_iff (e : Bool) (n k : Nat) :
    etld1 e n (some k) = none ↔ (e = true ∨ n ≤ k) := by
  unfold etld1
  cases e <;> simp

/-! ## Non-vacuity -/

/-- A rule list with a normal rule, a wildcard and an exception is well-formed and exercises all
branches: `ck`-style rules `*.2.1`, `!7.2.1`, plus `1`. -/
def sampleRules : List Rule :=
  [{ kind := .normal, labels := [1], icann := true },
   { kind := .wildcard, labels := [1, 2], icann := true },
   { kind := .exception, labels := [1, 2, 7], icann := true }]

example : walkResult (nodeAt sampleRules) [1, 2, 5, 6] = (3, true) := by decide
example : walkResult (nodeAt sampleRules) [1, 2, 7, 6] = (2, true) := by decide
example : walkResult (nodeAt sampleRules) [9, 2] = (1, false) := by decide
example : specLen (listIndex sampleRules) [1, 2, 5, 6] = 3 := by decide
example : find (fun i => 2 * i) 6 9 0 8 = some 3 := by decide

end NetVerif.Proofs.C51
