import NetVerif.Proofs.Lemmas.H2Msg
/-!
C14 — HTTP/2 request/response exchange is delivered faithfully end to end.

Part 1 (this file): the message ⇄ frames model of `Model/H2Msg.lean`.

* fragmentation (`splitHeaderBlock`, `ClientConn.writeHeaders`): the fragments concatenate to the
  block, are non-empty and ≤ max, the first is a HEADERS and the rest CONTINUATIONs, exactly the last
  carries END_HEADERS;
* DATA chunking: for every cut sequence the payloads concatenate to the body and are ≤ max;
* the receive state machine / monitor (`step`, `decodeFrames`): every accepted frame sequence has
  exactly one END_STREAM frame, followed only by CONTINUATION frames of the same header block, and
  the delivered body is the in-order concatenation of the DATA payloads;
* composition: `decodeFrames (encodeFrames σ m) = m` for every plan σ (SETTINGS and schedule) and
  every lawful header codec, threading the codec state (so a sequence of messages round-trips).

The byte level (9-byte framing of C06) is in `Proofs/C14Wire.lean`, the normalisations in
`Proofs/C14Norm.lean`.
-/
namespace NetVerif.Proofs.C14
open NetVerif NetVerif.Model.H2Frame NetVerif.Model.H2Msg NetVerif.Proofs.H2MsgLemmas

/-! ### Header block fragmentation -/

/-- ∀ block, ∀ maxFrameSize > 0: concatenating the fragments gives back the block. -/
theorem fragments_concat (max : Nat) (hmax : 0 < max) (hb : Bytes) :
    (splitBlock max hb).flatten = hb :=
  splitLoop_flatten max hmax _ hb (Nat.le_refl _)

/-- every fragment is non-empty and at most `max` bytes. -/
theorem fragments_bounded (max : Nat) (hmax : 0 < max) (hb : Bytes) :
    ∀ f ∈ splitBlock max hb, 0 < f.length ∧ f.length ≤ max :=
  splitLoop_bounds max hmax _ hb

/-- a non-empty block yields at least one fragment (an empty block yields no frame at all, as in Go). -/
theorem fragments_nonempty (max : Nat) (hb : Bytes) (h : hb ≠ []) : splitBlock max hb ≠ [] :=
  splitBlock_ne_nil max hb h

theorem fragments_empty (max : Nat) : splitBlock max [] = [] := rfl

/-- The frames of one header block (`writeHeaders` / `splitHeaderBlock`+`writeHeaderBlock`):
their fragments concatenate to the block; each payload ≤ max; the first frame is the HEADERS
carrying the END_STREAM decision, all others are CONTINUATIONs; END_HEADERS is set on the last
frame and on no other. -/
theorem headerBlock_frames (sid : Nat) (es : Bool) (max : Nat) (hmax : 0 < max) (hb : Bytes) (hne : hb ≠ []) :
    ((writeHeaderBlock sid es max hb).map SFrame.frag).flatten = hb ∧
    (∀ f ∈ writeHeaderBlock sid es max hb, 0 < f.len ∧ f.len ≤ max) ∧
    (writeHeaderBlock sid es max hb).map SFrame.endHeaders =
      List.replicate ((writeHeaderBlock sid es max hb).length - 1) false ++ [true] ∧
    (∃ eh frag rest, writeHeaderBlock sid es max hb = .headers sid es eh frag :: rest ∧
      ∀ g ∈ rest, g.isContinuation = true ∧ g.endStream = false) := by
  unfold writeHeaderBlock
  have hfr := fragments_nonempty max hb hne
  have hb' := fragments_bounded max hmax hb
  refine ⟨by rw [headerFrames_frag, fragments_concat max hmax], ?_, ?_, ?_⟩
  · intro f hf
    have hm : f.frag ∈ (headerFrames sid es (splitBlock max hb)).map SFrame.frag := List.mem_map_of_mem hf
    rw [headerFrames_frag] at hm
    have hl : f.len = f.frag.length := by
      cases hsp : splitBlock max hb with
      | nil => exact absurd hsp hfr
      | cons a rest =>
        rw [hsp] at hf
        simp only [headerFrames, List.mem_cons] at hf
        rcases hf with h | h
        · subst h; rfl
        · have := contFrames_isCont sid rest f h
          cases f <;> simp_all [SFrame.isContinuation, SFrame.len, SFrame.frag]
    rw [hl]; exact hb' _ hm
  · cases hsp : splitBlock max hb with
    | nil => exact absurd hsp hfr
    | cons a rest =>
      cases rest with
      | nil => simp [headerFrames, contFrames, SFrame.endHeaders]
      | cons b rest' =>
        have := contFrames_endHeaders sid (b :: rest') (by simp)
        simp [headerFrames, SFrame.endHeaders, this, contFrames_length, List.replicate_succ]
  · cases hsp : splitBlock max hb with
    | nil => exact absurd hsp hfr
    | cons a rest =>
      exact ⟨rest.isEmpty, a, contFrames sid rest, rfl,
        fun g hg => ⟨contFrames_isCont sid rest g hg, contFrames_endStream sid rest g hg⟩⟩

/-! ### DATA chunking -/

/-- for any cut sequence the DATA payloads concatenate to the body. -/
theorem data_chunks_concat (sid : Nat) (e : Bool) (max : Nat) (hmax : 0 < max) (cuts : List Nat) (body : Bytes) :
    ((dataFrames sid e (chunks max cuts body)).map SFrame.dataBytes).flatten = body := by
  rw [dataFrames_data, chunks_flatten max hmax]

/-- every DATA payload is at most the maximum frame size. -/
theorem data_chunks_bounded (max : Nat) (hmax : 0 < max) (cuts : List Nat) (body : Bytes) :
    ∀ c ∈ chunks max cuts body, c.length ≤ max :=
  chunks_le max hmax cuts body

/-! ### The lawful header codec -/

/-- What the theorems assume about HPACK (proved for the real HPACK in C01–C05): with encoder
and decoder states in sync, a block decodes to the encoded list and the states stay in sync;
a non-empty field list never encodes to the empty block. -/
structure Lawful (C : Codec) (sync : C.S → C.D → Prop) : Prop where
  roundtrip : ∀ s d fs, sync s d →
    ∃ d', C.dec d (C.enc s fs).1 = some (fs, d') ∧ sync (C.enc s fs).2 d'
  nonempty : ∀ s fs, fs ≠ [] → (C.enc s fs).1 ≠ []

/-! ### Monitor soundness: what every accepted frame sequence satisfies -/

/-- an END_STREAM frame has been processed. -/
def ended : Phase → Bool
  | .done => true
  | .hdrBlock es _ => es
  | .trlBlock _ => true
  | _ => false

@[simp] theorem ended_ite (es : Bool) : ended (if es = true then Phase.done else Phase.body) = es := by
  cases es <;> rfl

theorem step_inv {D : Type} {dec : D → Bytes → Option (List Field × D)} {d d' : D} {st st' : StreamSt}
    {f : SFrame} (h : step dec d st f = some (d', st')) :
    ended st'.phase = (ended st.phase || f.endStream) ∧
    (ended st.phase = true → f.endStream = false ∧ f.isContinuation = true) ∧
    st'.body = st.body ++ f.dataBytes := by
  cases hph : st.phase <;> cases f <;>
    simp only [step, hph, finishHdr, finishTrl] at h <;>
    (repeat' (split at h)) <;>
    (try cases h) <;>
    simp_all [ended, SFrame.endStream, SFrame.dataBytes, StreamSt.body, SFrame.isContinuation]

def esCount (fs : List SFrame) : Nat := (fs.filter SFrame.endStream).length

theorem run_inv {D : Type} {dec : D → Bytes → Option (List Field × D)} :
    ∀ (fs : List SFrame) (d d' : D) (st st' : StreamSt), run dec d st fs = some (d', st') →
      st'.body = st.body ++ (fs.map SFrame.dataBytes).flatten ∧
      esCount fs + (if ended st.phase then 1 else 0) = (if ended st'.phase then 1 else 0) ∧
      (ended st.phase = true → ∀ g ∈ fs, g.isContinuation = true ∧ g.endStream = false) := by
  intro fs
  induction fs with
  | nil => intro d d' st st' h; simp [run] at h; obtain ⟨_, rfl⟩ := h; simp [esCount]
  | cons f fs ih =>
    intro d d' st st' h
    simp only [run] at h
    cases hs : step dec d st f with
    | none => simp [hs] at h
    | some p =>
      obtain ⟨d1, st1⟩ := p
      simp only [hs] at h
      obtain ⟨he, hc, hb⟩ := step_inv hs
      obtain ⟨ib, ic, it⟩ := ih d1 d' st1 st' h
      refine ⟨by rw [ib, hb]; simp [List.append_assoc], ?_, ?_⟩
      · unfold esCount at ic ⊢
        simp only [List.filter_cons]
        cases hen : ended st.phase
        · cases hfe : f.endStream <;> simp_all <;> omega
        · have := (hc hen).1
          simp_all
      · intro hen g hg
        have hf := hc hen
        have hen1 : ended st1.phase = true := by rw [he, hen]; rfl
        rcases List.mem_cons.mp hg with h1 | h1
        · subst h1; exact ⟨hf.2, hf.1⟩
        · exact it hen1 g h1

theorem run_split {D : Type} {dec : D → Bytes → Option (List Field × D)} :
    ∀ (fs : List SFrame) (d d' : D) (st st' : StreamSt), run dec d st fs = some (d', st') →
      ended st.phase = false → ended st'.phase = true →
      ∃ pre f post, fs = pre ++ f :: post ∧ f.endStream = true ∧ (∀ g ∈ pre, g.endStream = false) ∧
        ∀ g ∈ post, g.isContinuation = true ∧ g.endStream = false := by
  intro fs
  induction fs with
  | nil => intro d d' st st' h h0 h1; simp [run] at h; obtain ⟨_, rfl⟩ := h; simp_all
  | cons f fs ih =>
    intro d d' st st' h h0 h1
    simp only [run] at h
    cases hs : step dec d st f with
    | none => simp [hs] at h
    | some p =>
      obtain ⟨d1, st1⟩ := p
      simp only [hs] at h
      obtain ⟨he, _, _⟩ := step_inv hs
      cases hfe : f.endStream
      · have h10 : ended st1.phase = false := by rw [he, h0, hfe]; rfl
        obtain ⟨pre, f', post, rfl, hf', hpre, hpost⟩ := ih d1 d' st1 st' h h10 h1
        refine ⟨f :: pre, f', post, rfl, hf', ?_, hpost⟩
        intro g hg
        rcases List.mem_cons.mp hg with h2 | h2
        · subst h2; exact hfe
        · exact hpre g h2
      · have h11 : ended st1.phase = true := by rw [he, hfe]; simp
        exact ⟨[], f, fs, rfl, hfe, by simp, (run_inv fs d1 d' st1 st' h).2.2 h11⟩

/-- **Monitor soundness.** Every frame sequence the receive state machine accepts as message `m`:
(1) delivers as body exactly the in-order concatenation of the DATA payloads;
(2) contains exactly one frame with END_STREAM;
(3) that frame is the last frame of the message except for the CONTINUATION frames completing
    its own header block (trailers / headers-only message), and no earlier frame has END_STREAM. -/
theorem accepted_sound {D : Type} (dec : D → Bytes → Option (List Field × D)) (d d' : D) (sid : Nat)
    (fs : List SFrame) (m : Msg) (h : decodeFrames dec d sid fs = some (m, d')) :
    m.body = (fs.map SFrame.dataBytes).flatten ∧
    esCount fs = 1 ∧
    ∃ pre f post, fs = pre ++ f :: post ∧ f.endStream = true ∧ (∀ g ∈ pre, g.endStream = false) ∧
      ∀ g ∈ post, g.isContinuation = true ∧ g.endStream = false := by
  unfold decodeFrames at h
  split at h
  · rename_i d1 st hr
    split at h
    · rename_i hdone
      cases h
      obtain ⟨hb, hc, _⟩ := run_inv fs d d' { sid := sid } st hr
      have h1 : ended st.phase = true := by rw [hdone]; rfl
      refine ⟨by simpa [StreamSt.msg, StreamSt.body] using hb, ?_, run_split fs d d' _ st hr rfl h1⟩
      rw [h1] at hc; simpa [ended] using hc
    · cases h
  · cases h

/-! ### Composition: decode ∘ encode = id -/

private theorem body_of_chunks (chs : List Bytes) : (chs.reverse ++ []).reverse.flatten = chs.flatten := by simp

/-- **`decodeFrames (encodeFrames σ m) = m` for all settings/schedules σ.**
For every lawful header codec whose encoder and decoder are in sync, every plan `p` (stream id,
header fragment limit > 0, DATA limit > 0, arbitrary cut sequence, both END_STREAM placements)
and every message with a non-empty header list (there is always `:status` / `:method`), the frames
decode to exactly the message, and the codec states are in sync again afterwards. -/
theorem decode_encode (C : Codec) (sync : C.S → C.D → Prop) (hC : Lawful C sync) (s : C.S) (d : C.D)
    (hs : sync s d) (p : Plan) (hh : 0 < p.maxHdr) (hd : 0 < p.maxData) (m : Msg) (hm : m.headers ≠ []) :
    ∃ d', decodeFrames C.dec d p.sid (encodeFrames C s p m).1 = some (m, d') ∧
      sync (encodeFrames C s p m).2 d' := by
  obtain ⟨d1, hdec1, hs1⟩ := hC.roundtrip s d m.headers hs
  have hne1 := hC.nonempty s m.headers hm
  have hfr1 := fragments_nonempty p.maxHdr _ hne1
  have hcat1 := fragments_concat p.maxHdr hh (C.enc s m.headers).1
  have hbody := chunks_flatten p.maxData hd p.cuts m.body
  obtain ⟨hdrs, body, trls⟩ := m
  simp only at hdec1 hs1 hne1 hfr1 hcat1 hbody hm
  unfold encodeFrames decodeFrames
  simp only
  by_cases ht : trls.isEmpty = true
  · have htn : trls = [] := List.isEmpty_iff.mp ht
    subst htn
    simp only [List.isEmpty_nil, ite_true]
    by_cases h1 : ((chunks p.maxData p.cuts body).isEmpty && p.earlyEnd) = true
    · -- END_STREAM on HEADERS
      simp only [h1, ite_true]
      have hce : chunks p.maxData p.cuts body = [] := by
        have := (Bool.and_eq_true _ _).mp h1
        exact List.isEmpty_iff.mp this.1
      have hb0 : body = [] := by rw [← hbody, hce]; rfl
      refine ⟨d1, ?_, hs1⟩
      unfold writeHeaderBlock
      rw [run_headerFrames C.dec p.sid true _ hfr1 d { sid := p.sid } rfl rfl, hcat1]
      simp [finishHdr, hdec1, StreamSt.msg, StreamSt.body, hb0]
    · simp only [h1, Bool.false_eq_true, ↓reduceIte]
      by_cases h2 : ((chunks p.maxData p.cuts body).isEmpty || p.sepEnd) = true
      · -- separate empty DATA with END_STREAM
        simp only [h2, ↓reduceIte]
        refine ⟨d1, ?_, hs1⟩
        unfold writeHeaderBlock
        rw [List.append_assoc, run_append, run_headerFrames C.dec p.sid false _ hfr1 d { sid := p.sid } rfl rfl, hcat1]
        simp only [finishHdr, hdec1, Option.bind_some, Bool.false_eq_true, ite_false]
        rw [run_append, run_dataFrames C.dec p.sid false _ d1 _ rfl rfl]
        simp [run, step, SFrame.sid, StreamSt.msg, StreamSt.body, hbody]
      · -- END_STREAM on the last DATA
        simp only [h2, Bool.false_eq_true, ↓reduceIte]
        have hcne : (chunks p.maxData p.cuts body).isEmpty = false := by
          cases hc : (chunks p.maxData p.cuts body).isEmpty <;> simp_all
        refine ⟨d1, ?_, hs1⟩
        unfold writeHeaderBlock
        rw [run_append, run_headerFrames C.dec p.sid false _ hfr1 d { sid := p.sid } rfl rfl, hcat1]
        simp only [finishHdr, hdec1, Option.bind_some, Bool.false_eq_true, ite_false]
        rw [run_dataFrames C.dec p.sid true _ d1 _ rfl rfl]
        simp [hcne, StreamSt.msg, StreamSt.body, hbody]
  · -- trailers
    have htne : trls ≠ [] := by intro h; subst h; simp at ht
    simp only [ht, Bool.false_eq_true, ↓reduceIte]
    obtain ⟨d2, hdec2, hs2⟩ := hC.roundtrip (C.enc s hdrs).2 d1 trls hs1
    have hne2 := hC.nonempty (C.enc s hdrs).2 trls htne
    have hfr2 := fragments_nonempty p.maxHdr _ hne2
    have hcat2 := fragments_concat p.maxHdr hh (C.enc (C.enc s hdrs).2 trls).1
    refine ⟨d2, ?_, hs2⟩
    unfold writeHeaderBlock
    rw [List.append_assoc, run_append, run_headerFrames C.dec p.sid false _ hfr1 d { sid := p.sid } rfl rfl, hcat1]
    simp only [finishHdr, hdec1, Option.bind_some, Bool.false_eq_true, ite_false]
    rw [run_append, run_dataFrames C.dec p.sid false _ d1 _ rfl rfl]
    simp only [Option.bind_some, Bool.false_and, Bool.false_eq_true, ite_false]
    rw [run_trailerFrames C.dec p.sid _ hfr2 d1 _ rfl rfl, hcat2]
    simp [finishTrl, hdec2, StreamSt.msg, StreamSt.body, hbody]

/-- **END_STREAM exactly once, on the final frame of the message** — headers-only, with body
(either placement) and with trailers: the encoded frame sequence contains exactly one END_STREAM
frame; nothing but the CONTINUATIONs of its own header block follows it. -/
theorem encode_endStream_once (C : Codec) (sync : C.S → C.D → Prop) (hC : Lawful C sync) (s : C.S) (d : C.D)
    (hs : sync s d) (p : Plan) (hh : 0 < p.maxHdr) (hd : 0 < p.maxData) (m : Msg) (hm : m.headers ≠ []) :
    esCount (encodeFrames C s p m).1 = 1 ∧
    ∃ pre f post, (encodeFrames C s p m).1 = pre ++ f :: post ∧ f.endStream = true ∧
      (∀ g ∈ pre, g.endStream = false) ∧ ∀ g ∈ post, g.isContinuation = true ∧ g.endStream = false := by
  obtain ⟨d', hdec, _⟩ := decode_encode C sync hC s d hs p hh hd m hm
  exact (accepted_sound C.dec d d' p.sid _ m hdec).2

/-- the body travels as the concatenation of the DATA payloads of the encoding. -/
theorem encode_body (C : Codec) (sync : C.S → C.D → Prop) (hC : Lawful C sync) (s : C.S) (d : C.D)
    (hs : sync s d) (p : Plan) (hh : 0 < p.maxHdr) (hd : 0 < p.maxData) (m : Msg) (hm : m.headers ≠ []) :
    (((encodeFrames C s p m).1).map SFrame.dataBytes).flatten = m.body := by
  obtain ⟨d', hdec, _⟩ := decode_encode C sync hC s d hs p hh hd m hm
  exact (accepted_sound C.dec d d' p.sid _ m hdec).1.symm

/-! ### Non-vacuity -/

/-- a lawful codec exists (length-prefixed fields, stateless): the hypotheses of the theorems
above are satisfiable. -/
def encFields : List Field → Bytes
  | [] => []
  | f :: fs => f.name.length :: f.value.length :: (f.name ++ (f.value ++ encFields fs))

def decFields : Nat → Bytes → Option (List Field)
  | _, [] => some []
  | 0, _ :: _ => none
  | _ + 1, [_] => none
  | n + 1, a :: b :: rest =>
    if rest.length < a + b then none
    else (decFields n (rest.drop (a + b))).map (fun fs => ⟨rest.take a, (rest.drop a).take b⟩ :: fs)

theorem decFields_encFields : ∀ (fs : List Field) (fuel : Nat), fs.length ≤ fuel →
    decFields fuel (encFields fs) = some fs
  | [], fuel, _ => by cases fuel <;> rfl
  | f :: fs, 0, h => by simp at h
  | f :: fs, fuel + 1, h => by
    have ih := decFields_encFields fs fuel (by simpa using h)
    obtain ⟨n, v⟩ := f
    simp only [encFields, decFields, List.length_append]
    have h1 : ¬ (n.length + (v.length + (encFields fs).length) < n.length + v.length) := by omega
    have h2 : (n ++ (v ++ encFields fs)).drop (n.length + v.length) = encFields fs := by
      rw [← List.append_assoc, List.drop_left' (by simp)]
    simp [h1, h2, ih]

theorem encFields_length_ge : ∀ fs : List Field, fs.length ≤ (encFields fs).length
  | [] => by simp [encFields]
  | f :: fs => by have := encFields_length_ge fs; simp [encFields]; omega

def simpleCodec : Codec where
  S := Unit
  D := Unit
  enc := fun _ fs => (encFields fs, ())
  dec := fun _ bs => (decFields bs.length bs).map (fun fs => (fs, ()))

theorem simpleCodec_lawful : Lawful simpleCodec (fun _ _ => True) where
  roundtrip := by
    intro s d fs _
    refine ⟨(), ?_, trivial⟩
    simp [simpleCodec, decFields_encFields fs _ (encFields_length_ge fs)]
  nonempty := by
    intro s fs h
    cases fs with
    | nil => exact absurd rfl h
    | cons f fs => simp [simpleCodec, encFields]

/-- the round trip instantiated: a message with CONTINUATION-forcing fragment size 2, cuts and
trailers, through the concrete codec. -/
example : decodeFrames simpleCodec.dec () 3
    (encodeFrames simpleCodec () { sid := 3, maxHdr := 2, maxData := 3, cuts := [1, 0, 5], sepEnd := true }
      { headers := [⟨[58, 109], [71]⟩, ⟨[120], [1, 2, 3]⟩], body := [9, 8, 7, 6, 5, 4], trailers := [⟨[116], [0]⟩] }).1
    = some ({ headers := [⟨[58, 109], [71]⟩, ⟨[120], [1, 2, 3]⟩], body := [9, 8, 7, 6, 5, 4], trailers := [⟨[116], [0]⟩] }, ()) := by
  rfl

example : splitBlock 3 [1, 2, 3, 4, 5, 6, 7] = [[1, 2, 3], [4, 5, 6], [7]] := rfl
example : chunks 4 [2, 0, 9] [1, 2, 3, 4, 5, 6, 7, 8, 9, 10, 11] = [[1, 2], [], [3, 4, 5, 6], [7, 8, 9, 10], [11]] := rfl
example : writeHeaderBlock 5 true 2 [9, 8, 7] =
    [.headers 5 true false [9, 8], .continuation 5 true [7]] := rfl

end NetVerif.Proofs.C14
