import NetVerif.Model.TimeSeries
import NetVerif.Gen.C61
import NetVerif.Proofs.Lemmas.TimeSeriesHistory
import NetVerif.Proofs.Lemmas.TimeSeriesLevels
/-!
C61 — time series keep an exact total of all observations.

Part 1 (this file, full strength): for every history of operations (adds at
arbitrary times — in or out of order, far past, far future — interleaved with
`Total`, `Latest`, `LatestBuckets`, `ComputeRange` and `Clear`), `Total()`
returns exactly the sum of the observations added since the last `Clear`.
The invariant is `total + (dirty ? pending : 0) = Σ`.
-/
namespace NetVerif.Proofs.C61
open NetVerif.Model.TimeSeries
open NetVerif.Proofs.TSRange (obsIn inI64 timesInRange alignedFinest)

/-- Sum of the observations of a history, restarting at every `Clear`. -/
def sumFrom (acc : Int) : List Op → Int
  | [] => acc
  | .add _ v :: rest => sumFrom (acc + v) rest
  | .clear :: rest => sumFrom 0 rest
  | _ :: rest => sumFrom acc rest

/-- The invariant relating `total`, `pending` and `dirty`: a clean `pending` is zero, so
`total + (dirty ? pending : 0) = total + pending = Σ`. -/
def Inv (s : TS) (σ : Int) : Prop :=
  s.total.v + s.pending.v = σ ∧ (s.dirty = false → s.pending.v = 0) ∧
  s.total.approx = false ∧ s.pending.approx = false

theorem advance_fields (s : TS) (t : Int) :
    (s.advance t).total = s.total ∧ (s.advance t).pending = s.pending ∧
    (s.advance t).dirty = s.dirty ∧ (s.advance t).pendingTime = s.pendingTime ∧
    (s.advance t).lastAdd = s.lastAdd ∧ (s.advance t).n = s.n := by
  unfold TS.advance
  split
  · simp
  · split <;> simp

theorem inv_advance {s : TS} {σ : Int} (t : Int) (h : Inv s σ) : Inv (s.advance t) σ := by
  obtain ⟨a, b, c, _, _, _⟩ := advance_fields s t
  unfold Inv at *
  rw [a, b, c]; exact h

theorem inv_mergePending {s : TS} {σ : Int} (h : Inv s σ) :
    Inv s.mergePending σ ∧ s.mergePending.dirty = false := by
  unfold TS.mergePending
  obtain ⟨h1, h2, h3, h4⟩ := h
  by_cases hd : s.dirty
  · simp [hd, Inv, TS.mergeValue, Obs.add, Obs.zero, h3, h4] at *
    omega
  · simp [hd, Inv] at *
    exact ⟨h1, h2, h3, h4⟩

theorem inv_mergeValue {s : TS} {σ : Int} (v t : Int) (h : Inv s σ) :
    Inv (s.mergeValue (Obs.exact v) t) (σ + v) := by
  obtain ⟨h1, h2, h3, h4⟩ := h
  simp [Inv, TS.mergeValue, Obs.add, Obs.exact, h3, h4] at *
  exact ⟨by omega, h2⟩

theorem inv_catchUp {s : TS} {σ : Int} (now : Int) (h : Inv s σ) : Inv (s.catchUp now) σ := by
  have h1 : Inv ((if s.end0 < now then s.advance now else s).mergePending) σ := by
    split
    · exact (inv_mergePending (inv_advance now h)).1
    · exact (inv_mergePending h).1
  exact h1

theorem inv_add {s : TS} {σ : Int} (t v : Int) (h : Inv s σ) :
    Inv (s.addWithTime (Obs.exact v) t) (σ + v) := by
  unfold TS.addWithTime
  have h0 : Inv (if t > s.lastAdd then { s with lastAdd := t } else s) σ := by
    split
    · exact h
    · exact h
  generalize (if t > s.lastAdd then { s with lastAdd := t } else s) = s0 at h0
  simp only []
  split
  · obtain ⟨⟨h1, h2, h3, h4⟩, hd⟩ := inv_mergePending (inv_advance t h0)
    have := h2 hd
    simp [Inv, Obs.exact] at *
    exact ⟨by omega, h3⟩
  · split
    · obtain ⟨h1, h2, h3, h4⟩ := h0
      simp [Inv, Obs.add, Obs.exact] at *
      exact ⟨by omega, h3, h4⟩
    · exact inv_mergeValue v t h0

theorem inv_init (n : Nat) (res : List Int) : Inv (TS.init n res) 0 := by
  simp [Inv, TS.init, Obs.zero]

theorem inv_clear (s : TS) : Inv s.clear 0 := by
  simp [Inv, TS.clear, Obs.zero]

theorem inv_latest {s : TS} {σ : Int} (now level num : Int) (h : Inv s σ) :
    Inv (s.latest now level num).1 σ := by
  unfold TS.latest
  have := inv_catchUp now h
  simp only []
  split
  · exact this
  · split <;> exact this

theorem inv_latestBuckets {s : TS} {σ : Int} (now level num : Int) (h : Inv s σ) :
    Inv (s.latestBuckets now level num).1 σ := by
  unfold TS.latestBuckets
  have := inv_catchUp now h
  split
  · exact h
  · split
    · exact h
    · simp only []
      split <;> exact this

theorem inv_computeRange {s : TS} {σ : Int} (a b num : Int) (h : Inv s σ) :
    Inv (s.computeRange a b num).1 σ := by
  unfold TS.computeRange
  have := (inv_mergePending h).1
  split
  · exact h
  · split
    · exact h
    · simp only []
      split
      · exact h
      · split <;> exact this

theorem inv_step {s : TS} {σ : Int} (op : Op) (h : Inv s σ) : Inv (s.step op) (sumFrom σ [op]) := by
  cases op with
  | add t v => exact inv_add t v h
  | total => exact (inv_mergePending h).1
  | latest now level num => exact inv_latest now level num h
  | latestBuckets now level num => exact inv_latestBuckets now level num h
  | computeRange a b num => exact inv_computeRange a b num h
  | clear => exact inv_clear s

theorem sumFrom_cons (σ : Int) (op : Op) (ops : List Op) :
    sumFrom σ (op :: ops) = sumFrom (sumFrom σ [op]) ops := by
  cases op <;> simp [sumFrom]

theorem inv_run {s : TS} {σ : Int} (ops : List Op) (h : Inv s σ) : Inv (s.run ops) (sumFrom σ ops) := by
  induction ops generalizing s σ with
  | nil => simpa [TS.run, sumFrom] using h
  | cons op ops ih =>
    rw [sumFrom_cons]
    simpa [TS.run] using ih (inv_step op h)

/-- **C61, total.** For every configuration and every history — adds at any times (in or out of
order, far past, far future), interleaved with `Total`/`Latest`/`LatestBuckets`/`ComputeRange`/`Clear` —
`Total()` returns exactly (no approximation flag) the sum of the observations added since the last `Clear`. -/
theorem total_exact (n : Nat) (res : List Int) (ops : List Op) :
    ((TS.init n res).run ops).totalOp.2 = ⟨sumFrom 0 ops, false⟩ := by
  obtain ⟨⟨h1, h2, h3, _⟩, hd⟩ := inv_mergePending (inv_run ops (inv_init n res))
  have := h2 hd
  unfold TS.totalOp
  simp only []
  generalize ((TS.init n res).run ops).mergePending = s at *
  cases hs : s.total with
  | mk v a => simp [hs] at *; exact ⟨by omega, h3⟩

/-- The invariant of DESIGN §7: after every history, `total + (dirty ? pending : 0) = Σ`. -/
theorem total_pending_invariant (n : Nat) (res : List Int) (ops : List Op) :
    let s := (TS.init n res).run ops
    s.total.v + (if s.dirty then s.pending.v else 0) = sumFrom 0 ops := by
  obtain ⟨h1, h2, _, _⟩ := inv_run ops (inv_init n res)
  simp only []
  split
  · exact h1
  · rename_i hd
    have := h2 (by simpa using hd)
    omega

/-- Non-vacuity: a concrete out-of-order history on the 64-bucket / 10-level configuration. -/
example : ((TS.init 2 [1, 3]).run [.add 100 5, .add 7 (-2), .latest 200 0 1, .add 150 4, .computeRange 0 10 1]).totalOp.2
    = ⟨7, false⟩ := by decide

/-! ### Part 2: bucket-aligned ranges (statement, counterexample on the unchanged code) -/

/- `obsIn a b 0 ops` (observations of the history with time in `(a, b]` — the bucket convention of
`mergeValue`: a bucket ending at `E` holds `E - size < t ≤ E`), `timesInRange` (all add / clock times inside
the int64-nanosecond range where `Time.UnixNano` is defined), `alignedFinest s a b` (range aligned to the
finest level's grid, starting inside its window) are defined in Proofs/Lemmas/TimeSeriesHistory. -/

/-- C61, second clause, for the public `TimeSeries` configuration: a bucket-aligned range inside
the finest retained window reports exactly the observations added in it. -/
def RangeStatement : Prop :=
  ∀ (ops : List Op) (a b : Int), timesInRange ops = true →
    alignedFinest (TS.newTimeSeries.run ops) a b = true →
    ((TS.newTimeSeries.run ops).range a b).2 = some ⟨obsIn a b 0 ops, false⟩

/-- **C61, second clause (finest level)** — holds at full strength on the repaired code (`Latest` /
`LatestBuckets` keep `pendingTime` in step with the advanced finest level): for every history with
in-range times — adds in or out of order, far past, far future, interleaved with
`Total`/`Latest`/`LatestBuckets`/`ComputeRange`/`Clear` — a bucket-aligned range inside the finest retained
window reports exactly the observations added in it, with no approximation. -/
theorem range_holds : RangeStatement := by
  intro ops a b hin hal
  exact TSRange.range_exact_full 64 1000000000 _ (by decide) (by decide) (by decide) (by decide) ops a b hin hal

/-- The same for `MinuteHourSeries` (60 buckets of 1 s). -/
theorem range_holds_minuteHour (ops : List Op) (a b : Int) (hin : timesInRange ops = true)
    (hal : alignedFinest (TS.newMinuteHourSeries.run ops) a b = true) :
    ((TS.newMinuteHourSeries.run ops).range a b).2 = some ⟨obsIn a b 0 ops, false⟩ :=
  TSRange.range_exact_full 60 1000000000 _ (by decide) (by decide) (by decide) (by decide) ops a b hin hal

/-- The history that used to refute the statement (add at 0.5 s, `Latest` with the clock at 30 s, add at
10.5 s; seconds after 1 700 000 000): before the repair the second observation was filed under the bucket
ending at 30 s and `Range(10 s, 11 s)` reported 0. -/
def witnessOps : List Op :=
  [.add 1700000000500000000 5, .latest 1700000030000000000 0 1, .add 1700000010500000000 7]

/-- The old witness now satisfies the statement: the aligned range `(10 s, 11 s]` reports the 7, and the
newest bucket no longer contains it. -/
example :
    timesInRange witnessOps = true ∧
    alignedFinest (TS.newTimeSeries.run witnessOps) 1700000010000000000 1700000011000000000 = true ∧
    ((TS.newTimeSeries.run witnessOps).range 1700000010000000000 1700000011000000000).2 = some ⟨7, false⟩ ∧
    obsIn 1700000010000000000 1700000011000000000 0 witnessOps = 7 ∧
    ((TS.newTimeSeries.run witnessOps).latest 1700000030000000000 0 1).2 = some ⟨0, false⟩ := by decide +kernel

/-- Σ of the ten `TimeSeries` resolutions (≈ 150 days in ns). -/
def tsSizeSum : Int := timeSeriesResolutions.sum

/-- **C61, second clause, EVERY level of the ten-level `TimeSeries`** (1 s … 16 weeks, including the three
week-based resolutions, whose grid is relative to the zero time until the level's first advance): for every
history of adds (in or out of order, rollovers, far jumps), `Total`/`Latest`/`LatestBuckets`/`ComputeRange`
reads and `Clear`s with `minDur ≤ t` and `t + Σ resolutions ≤ maxDur` for every add / clock time, a range
aligned to the bucket grid of the level `ComputeRange` picks — the finest level whose retained window
contains the start — and starting inside that window is reported exactly (no interpolation). -/
theorem range_aligned_exact_timeseries (ops : List Op) (a b : Int)
    (hin : TSRange.timesFit tsSizeSum ops = true)
    (hal : TSRange.alignedPicked (TS.newTimeSeries.run ops) a b = true) :
    ((TS.newTimeSeries.run ops).range a b).2 = some ⟨obsIn a b 0 ops, false⟩ :=
  TSRange.range_aligned_exact 64 1000000000 _ (by decide) (by decide) (by decide) (by decide)
    (by unfold TSRange.resOK; decide) (by decide) ops a b hin hal

/-- Non-vacuity at a WEEK-based level (week grid = multiples of 604 800 s; W0 = 1 700 092 800 s): adds at
W0+100 000 s, W0−300 000 s (out of order, previous week), W0+30 weeks+5 s (rolls every level up to 1 day over
completely), W0+200 000 s (out of order again). The week-aligned range (W0, W0+1 week] is outside the 1-day
level's window, so `ComputeRange` picks the 1-week level; it reports 5 + 9. -/
def weekOps : List Op :=
  [.add 1700192800000000000 5, .add 1699792800000000000 2, .add 1718236805000000000 1, .add 1700292800000000000 9]

example :
    TSRange.timesFit tsSizeSum weekOps = true ∧
    TSRange.alignedPicked (TS.newTimeSeries.run weekOps) 1700092800000000000 1700697600000000000 = true ∧
    (pickLevel 64 1700092800000000000 (TS.newTimeSeries.run weekOps).mergePending.levels).map (·.size) = some 604800000000000 ∧
    obsIn 1700092800000000000 1700697600000000000 0 weekOps = 14 ∧
    ((TS.newTimeSeries.run weekOps).range 1700092800000000000 1700697600000000000).2 = some ⟨14, false⟩ := by
  decide +kernel

/-- **C61, second clause, EVERY level — `MinuteHourSeries`** (60 buckets; 1 s and 1 min): for every history
of adds (in or out of order, rollovers, far jumps) interleaved with `Total`/`Latest`/`LatestBuckets`/
`ComputeRange`, a range aligned to the bucket grid of the level `ComputeRange` picks — the finest level whose
retained window contains the start — and starting inside that window is reported exactly (the
proportional-interpolation branch is not taken). Instance of `TSRange.range_aligned_exact`, which holds for
every configuration whose resolutions are multiples of the finest one (itself dividing the zero time). -/
theorem range_aligned_exact (ops : List Op) (a b : Int)
    (hin : TSRange.timesFit minuteHourSeriesResolutions.sum ops = true)
    (hal : TSRange.alignedPicked (TS.newMinuteHourSeries.run ops) a b = true) :
    ((TS.newMinuteHourSeries.run ops).range a b).2 = some ⟨obsIn a b 0 ops, false⟩ :=
  TSRange.range_aligned_exact 60 1000000000 _ (by decide) (by decide) (by decide) (by decide)
    (by unfold TSRange.resOK; decide) (by decide) ops a b hin hal

/-- Non-vacuity (coarser level, out-of-order adds, a rollover of the 1 s level between adds), seconds after
1 700 000 040: adds at 100.5, 3.2 (out of order), 250.5 (rolls the 60-bucket 1 s level over completely),
95 (out of order again); the minute-aligned range (60 s, 120 s] lies outside the 1 s window (190.x, 251], so
`ComputeRange` picks the 1 min level; the hypotheses hold and the range reports 5 + 9. -/
def coarseOps : List Op :=
  [.add 1700000140500000000 5, .add 1700000043200000000 2, .add 1700000290500000000 1, .add 1700000135000000000 9]

example :
    TSRange.timesFit minuteHourSeriesResolutions.sum coarseOps = true ∧
    TSRange.alignedPicked (TS.newMinuteHourSeries.run coarseOps) 1700000100000000000 1700000160000000000 = true ∧
    (pickLevel 60 1700000100000000000 (TS.newMinuteHourSeries.run coarseOps).mergePending.levels).map (·.size) = some 60000000000 ∧
    obsIn 1700000100000000000 1700000160000000000 0 coarseOps = 14 ∧
    ((TS.newMinuteHourSeries.run coarseOps).range 1700000100000000000 1700000160000000000).2 = some ⟨14, false⟩ := by
  decide +kernel

/-! ### T-tie: configuration tables regenerated from the Go source -/

theorem gen_numBuckets_eq :
    Gen.C61.timeSeriesNumBuckets = timeSeriesNumBuckets ∧
    Gen.C61.minuteHourSeriesNumBuckets = minuteHourSeriesNumBuckets ∧
    Gen.C61.bucketCount = bucketCount := by decide

theorem gen_resolutions_eq :
    Gen.C61.timeSeriesResolutions = timeSeriesResolutions ∧
    Gen.C61.minuteHourSeriesResolutions = minuteHourSeriesResolutions := by decide

/-- Every resolution is positive, strictly smaller than the next and divides it. -/
def chainOK : List Int → Bool
  | a :: b :: rest => decide (0 < a ∧ a < b ∧ b % a = 0) && chainOK (b :: rest)
  | [a] => decide (0 < a)
  | [] => false

/-- The regenerated resolution tables are non-empty divisibility chains (what `init` demands, and
what makes every coarser bucket grid a sub-grid of the finest one), and 64 buckets of the coarsest
level still fit an int64 duration. -/
theorem gen_resolutions_chain :
    chainOK Gen.C61.timeSeriesResolutions = true ∧ chainOK Gen.C61.minuteHourSeriesResolutions = true ∧
    (∀ r ∈ Gen.C61.timeSeriesResolutions, r * Gen.C61.timeSeriesNumBuckets ≤ maxDur) ∧
    (∀ r ∈ Gen.C61.minuteHourSeriesResolutions, r * Gen.C61.minuteHourSeriesNumBuckets ≤ maxDur) := by decide

/-- The public constructors are covered by `total_exact`. -/
theorem total_exact_public (ops : List Op) :
    (TS.newTimeSeries.run ops).totalOp.2 = ⟨sumFrom 0 ops, false⟩ ∧
    (TS.newMinuteHourSeries.run ops).totalOp.2 = ⟨sumFrom 0 ops, false⟩ :=
  ⟨total_exact _ _ ops, total_exact _ _ ops⟩

end NetVerif.Proofs.C61
