import NetVerif.Proofs.Lemmas.H2Frame
import NetVerif.Gen.C06
import NetVerif.Gen.C07
/-!
C07 — HTTP/2 frame reader validates arbitrary input.

For ANY byte stream and any `SetMaxReadFrameSize` / `MaxHeaderListSize`:
* a returned frame is never longer than the configured maximum (`readFrame_ok_shape`,
  `readMeta_length_le`), carries the header that was on the wire and consumed exactly
  9 + length bytes;
* frames violating the stream-ID rules are reported as errors (`parseFrame_ok`,
  `streamRule_violation_reported`);
* HEADERS/CONTINUATION contiguity: every header the reader accepts is admissible in the
  reader's state, a violating header yields `ConnectionError(PROTOCOL_ERROR)`
  (`readFrame_order`, `contiguity_violation_reported`, `readTrace_contiguous`);
* a returned MetaHeadersFrame has pseudo-headers first, known, pairwise distinct, request and
  response pseudo-headers not mixed, valid regular names and valid values, and its header list
  size is within MaxHeaderListSize; when it is not marked Truncated it is the complete decoded
  list (`readMeta_guarantees`, `readMeta_complete`).
"Never panics" is not a theorem about Go (the Lean model is total by construction); it is
sampled by the D-tie (`recover` ⇒ result `panic` ⇒ oracle failure).
-/
set_option linter.unusedSimpArgs false
namespace NetVerif.Proofs.C07
open NetVerif NetVerif.Model.H2Frame NetVerif.Proofs.H2FrameLemmas

/-! ### T-tie -/

/-- the token table, the pseudo-header names of `checkPseudos` and the default of
`maxHeaderListSize` in the Go source are the model's. -/
theorem gen_tables_eq :
    (∀ b, b < 256 → Gen.C07.isTokenTable[b]? = some (isTokenByte b)) ∧
    Gen.C07.isTokenTable.length = 256 ∧
    Gen.C07.pseudo_isRequest = pseudoRequest ∧ Gen.C07.pseudo_isResponse = pseudoResponse ∧
    (∀ n, Gen.C07.maxHeaderListSize n = some (maxHeaderListSize n)) := by
  refine ⟨by decide +kernel, by decide +kernel, by decide +kernel, by decide +kernel, ?_⟩
  intro n
  unfold Gen.C07.maxHeaderListSize maxHeaderListSize
  split <;> simp

/-- the framing constants the reader model uses are those of the Go source. -/
theorem gen_constants_eq :
    Gen.C06.allFrameType = [("FrameData", frameData), ("FrameHeaders", frameHeaders),
      ("FramePriority", framePriority), ("FrameRSTStream", frameRSTStream),
      ("FrameSettings", frameSettings), ("FramePushPromise", framePushPromise),
      ("FramePing", framePing), ("FrameGoAway", frameGoAway),
      ("FrameWindowUpdate", frameWindowUpdate), ("FrameContinuation", frameContinuation),
      ("FramePriorityUpdate", framePriorityUpdate)] ∧
    Gen.C06.flagHeadersEndHeaders = flagEndHeaders ∧ Gen.C06.flagContinuationEndHeaders = flagEndHeaders ∧
    Gen.C06.flagHeadersPadded = flagPadded ∧ Gen.C06.flagHeadersPriority = flagPriority ∧
    Gen.C06.flagDataPadded = flagPadded ∧ Gen.C06.flagPushPromisePadded = flagPadded ∧
    Gen.C06.flagSettingsAck = flagAck ∧
    Gen.C06.errCodeProtocol = errCodeProtocol ∧ Gen.C06.errCodeFlowControl = errCodeFlowControl ∧
    Gen.C06.errCodeFrameSize = errCodeFrameSize ∧ Gen.C06.errCodeCompression = errCodeCompression ∧
    Gen.C06.frameHeaderLen = frameHeaderLen ∧ Gen.C06.maxFrameSize = maxFrameSize ∧
    Gen.C06.frameParsers = [(frameData, "parseDataFrame"), (frameHeaders, "parseHeadersFrame"),
      (framePriority, "parsePriorityFrame"), (frameRSTStream, "parseRSTStreamFrame"),
      (frameSettings, "parseSettingsFrame"), (framePushPromise, "parsePushPromise"),
      (framePing, "parsePingFrame"), (frameGoAway, "parseGoAwayFrame"),
      (frameWindowUpdate, "parseWindowUpdateFrame"), (frameContinuation, "parseContinuationFrame"),
      (framePriorityUpdate, "parsePriorityUpdateFrame")] := by decide

/-- T-fact on the reader's state: the receiver fields the read-path methods of `Framer` assign are
exactly these. `lastHeaderStream` is the model's `Framer.lastHeaderStream`; `errDetail` (error text),
`lastFrame` (frame invalidation) and `lastFrameType` (used only in an error message) do not influence
what a later `ReadFrame` returns and are not modelled. A new field written on the read path — e.g. a
counter that accumulates over the Framer's lifetime — changes the regenerated list and breaks this
theorem until the model accounts for it. -/
theorem gen_reader_state_eq :
    Gen.C06.readerWrittenFields =
      [("ReadFrameHeader", ["errDetail"]), ("ReadFrameForHeader", ["lastFrame"]), ("ReadFrame", []),
       ("checkFrameOrder", ["lastFrameType", "lastHeaderStream"]), ("connError", ["errDetail"]),
       ("readMetaFrame", ["errDetail"])] := by decide

/-- `SetMaxReadFrameSize` as translated from the Go source is the model's clamp. -/
theorem gen_setMaxReadFrameSize_eq (old v : Nat) :
    Gen.C06.setMaxReadFrameSize old v = some (setMaxReadFrameSize v) := by
  unfold Gen.C06.setMaxReadFrameSize setMaxReadFrameSize maxFrameSize
  split <;> rfl

/-! ### Frame length, stream-ID rules -/

/-- the stream-ID rules: stream-bound frame types need a non-zero stream id,
connection-level types stream id 0. -/
def StreamRule (fh : FrameHeader) : Prop :=
  (fh.type ∈ [frameData, frameHeaders, framePriority, frameRSTStream, framePushPromise, frameContinuation] → fh.streamID ≠ 0) ∧
  (fh.type ∈ [frameSettings, framePing, frameGoAway, framePriorityUpdate] → fh.streamID = 0)

/-- a HEADERS / CONTINUATION frame object is only produced for that type byte. -/
def KindOK (fh : FrameHeader) (f : Frame) : Prop :=
  (∀ h0 prio frag, f = .headers h0 prio frag → fh.type = frameHeaders) ∧
  (∀ h0 frag, f = .continuation h0 frag → fh.type = frameContinuation)

macro "finish_parse" h:ident : tactic => `(tactic|
  (all_goals (try cases $h:ident)
   all_goals simp_all [Frame.header, StreamRule, KindOK, frameData, frameHeaders, framePriority, frameRSTStream, framePushPromise,
      frameContinuation, frameSettings, framePing, frameGoAway, framePriorityUpdate, frameWindowUpdate]))

/-- a frame is returned only with the header it came with, and only if that header obeys the
stream-ID rules (violations are reported as errors). -/
theorem parseFrame_ok (fh : FrameHeader) (p : List Nat) (f : Frame) (h : parseFrame fh p = .ok f) :
    f.header = fh ∧ StreamRule fh ∧ KindOK fh f := by
  unfold parseFrame at h
  split at h
  · unfold parseData at h
    repeat' split at h
    finish_parse h
  split at h
  · unfold parseHeaders readPrio at h
    repeat' split at h
    finish_parse h
  split at h
  · unfold parsePriority at h
    repeat' split at h
    finish_parse h
  split at h
  · unfold parseRSTStream at h
    repeat' split at h
    finish_parse h
  split at h
  · unfold parseSettings at h
    repeat' split at h
    finish_parse h
  split at h
  · unfold parsePushPromise at h
    repeat' split at h
    finish_parse h
  split at h
  · unfold parsePing at h
    repeat' split at h
    finish_parse h
  split at h
  · unfold parseGoAway at h
    repeat' split at h
    finish_parse h
  split at h
  · unfold parseWindowUpdate at h
    repeat' split at h
    finish_parse h
  split at h
  · unfold parseContinuation at h
    repeat' split at h
    finish_parse h
  split at h
  · unfold parsePriorityUpdate at h
    repeat' split at h
    finish_parse h
  · finish_parse h

/-- "Frames violating stream-ID rules … are reported as errors". -/
theorem streamRule_violation_reported (fh : FrameHeader) (p : List Nat) (h : ¬ StreamRule fh) :
    ∃ e, parseFrame fh p = .error e := by
  cases hp : parseFrame fh p with
  | error e => exact ⟨e, rfl⟩
  | ok f => exact absurd (parseFrame_ok fh p f hp).2.1 h

/-- `SetMaxReadFrameSize` never yields a limit above 2^24-1. -/
theorem setMaxReadFrameSize_le (v : Nat) : setMaxReadFrameSize v ≤ maxFrameSize ∧ setMaxReadFrameSize v ≤ v := by
  unfold setMaxReadFrameSize maxFrameSize
  split <;> omega

/-- For any byte stream: a returned frame is not longer than the configured maximum read size,
has exactly the header that was read (31-bit stream id), obeys the stream-ID rules, and the
call consumed exactly 9 + length bytes. -/
theorem readFrame_ok_shape (fr : Framer) (bs : List Nat) (f : Frame) (h : (readFrame fr bs).res = .ok f) :
    f.header.length ≤ fr.maxReadSize ∧ (readFrame fr bs).hdr = some f.header ∧
    bs.length = 9 + f.header.length + (readFrame fr bs).rest.length ∧
    StreamRule f.header ∧ f.header.streamID < 2147483648 := by
  unfold readFrame at h ⊢
  split at h
  · cases h
  · rename_i b0 b1 b2 t fl s0 s1 s2 s3 body
    simp only at h ⊢
    split at h
    · cases h
    rename_i hmax
    split at h
    · cases h
    rename_i last' hord
    simp only [hmax, hord, ↓reduceIte] at h ⊢
    split at h
    · cases h
    rename_i hlen
    simp only [hlen, ↓reduceIte] at h ⊢
    obtain ⟨hh, hr, _⟩ := parseFrame_ok _ _ _ h
    rw [hh]
    refine ⟨by omega, rfl, ?_, hh ▸ hr, ?_⟩
    · simp only [List.length_cons, List.length_drop]; omega
    · simp only [decodeHeader]; omega
  · cases h

/-! ### HEADERS / CONTINUATION contiguity -/

/-- what `checkFrameOrder` admits in state `last` (the stream with an open header block, or 0). -/
def Admissible (last : Nat) (fh : FrameHeader) : Prop :=
  (last ≠ 0 → fh.type = frameContinuation ∧ fh.streamID = last) ∧
  (last = 0 → fh.type ≠ frameContinuation)

/-- the state after an admitted header. -/
def nextLast (last : Nat) (fh : FrameHeader) : Nat :=
  if fh.type = frameHeaders ∨ fh.type = frameContinuation then
    (if hasFlag fh.flags flagEndHeaders then 0 else fh.streamID)
  else last

theorem checkFrameOrder_ok_iff (last l' : Nat) (fh : FrameHeader) :
    checkFrameOrder last fh = .ok l' ↔ Admissible last fh ∧ l' = nextLast last fh := by
  unfold checkFrameOrder Admissible nextLast
  by_cases h0 : last = 0
  · subst h0
    by_cases h9 : fh.type = frameContinuation
    · simp [h9]
    · by_cases h1 : fh.type = frameHeaders
      · simp [h9, h1, frameHeaders, frameContinuation]
        constructor <;> (intro h; exact h.symm)
      · simp [h9, h1]
        constructor <;> (intro h; exact h.symm)
  · by_cases h9 : fh.type = frameContinuation
    · by_cases hs : fh.streamID = last
      · simp [h0, h9, hs]
        constructor <;> (intro h; exact h.symm)
      · simp [h0, h9, hs]
    · simp [h0, h9]

theorem checkFrameOrder_error (last : Nat) (fh : FrameHeader) (e : RErr) (h : checkFrameOrder last fh = .error e) :
    e = .conn errCodeProtocol ∧ ¬ Admissible last fh := by
  constructor
  · unfold checkFrameOrder at h
    repeat' split at h
    all_goals (cases h; try rfl)
  · intro ha
    have := (checkFrameOrder_ok_iff last (nextLast last fh) fh).2 ⟨ha, rfl⟩
    rw [this] at h; cases h

/-- Every header `ReadFrame` gets past `ReadFrameHeader` with is within the size limit and
admissible in the current HEADERS/CONTINUATION state, and the state moves accordingly. -/
theorem readFrame_order (fr : Framer) (bs : List Nat) (fh : FrameHeader) (h : (readFrame fr bs).hdr = some fh) :
    fh.length ≤ fr.maxReadSize ∧ Admissible fr.lastHeaderStream fh ∧
    (readFrame fr bs).fr = { fr with lastHeaderStream := nextLast fr.lastHeaderStream fh } := by
  unfold readFrame at h ⊢
  split at h
  · cases h
  · rename_i b0 b1 b2 t fl s0 s1 s2 s3 body
    simp only at h ⊢
    split at h
    · cases h
    rename_i hmax
    split at h
    · cases h
    rename_i last' hord
    simp only [hmax, hord, ↓reduceIte] at h ⊢
    obtain ⟨ha, hl⟩ := (checkFrameOrder_ok_iff _ _ _).1 hord
    split at h <;> (injection h with h; subst h; rename_i hlen; simp only [hlen, ↓reduceIte]; exact ⟨by omega, ha, by rw [hl]⟩)
  · cases h

/-- "Frames violating … HEADERS/CONTINUATION contiguity are reported as errors": a complete
9-byte header within the size limit that is not admissible makes `ReadFrame` return
`ConnectionError(PROTOCOL_ERROR)`, whatever follows. -/
theorem contiguity_violation_reported (fr : Framer) (b0 b1 b2 t fl s0 s1 s2 s3 : Nat) (body : List Nat)
    (hmax : (decodeHeader b0 b1 b2 t fl s0 s1 s2 s3).length ≤ fr.maxReadSize)
    (hbad : ¬ Admissible fr.lastHeaderStream (decodeHeader b0 b1 b2 t fl s0 s1 s2 s3)) :
    (readFrame fr (b0 :: b1 :: b2 :: t :: fl :: s0 :: s1 :: s2 :: s3 :: body)).res
      = .error (.conn errCodeProtocol) := by
  simp only [readFrame]
  have h1 : ¬ (decodeHeader b0 b1 b2 t fl s0 s1 s2 s3).length > fr.maxReadSize := by omega
  simp only [h1, ↓reduceIte]
  cases hc : checkFrameOrder fr.lastHeaderStream (decodeHeader b0 b1 b2 t fl s0 s1 s2 s3) with
  | error e => simp only [(checkFrameOrder_error _ _ _ hc).1]
  | ok l' => exact absurd ((checkFrameOrder_ok_iff _ _ _).1 hc).1 hbad

/-- the headers accepted by up to `n` successive `ReadFrame` calls, until the first terminal error
(a StreamError is not terminal: `terminalReadFrameError`). -/
def readTrace : Nat → Framer → List Nat → List FrameHeader
  | 0, _, _ => []
  | n + 1, fr, bs =>
    match (readFrame fr bs).hdr with
    | none => []
    | some fh =>
      fh :: (match (readFrame fr bs).res with
        | .error e => if e.terminal then [] else readTrace n (readFrame fr bs).fr (readFrame fr bs).rest
        | .ok _ => readTrace n (readFrame fr bs).fr (readFrame fr bs).rest)

inductive Contiguous : Nat → List FrameHeader → Prop
  | nil (last : Nat) : Contiguous last []
  | cons {last : Nat} {fh : FrameHeader} {rest : List FrameHeader} :
      Admissible last fh → Contiguous (nextLast last fh) rest → Contiguous last (fh :: rest)

/-- Over a whole connection: after a HEADERS/CONTINUATION without END_HEADERS on stream `s` the
next accepted frame is a CONTINUATION on `s`, and a CONTINUATION is accepted only then — for every
byte stream, every limit and every number of calls. -/
theorem readTrace_contiguous (n : Nat) (fr : Framer) (bs : List Nat) :
    Contiguous fr.lastHeaderStream (readTrace n fr bs) := by
  induction n generalizing fr bs with
  | zero => exact .nil _
  | succ n ih =>
    unfold readTrace
    cases hh : (readFrame fr bs).hdr with
    | none => exact .nil _
    | some fh =>
      obtain ⟨_, ha, hfr⟩ := readFrame_order fr bs fh hh
      simp only
      refine .cons ha ?_
      have hl : (readFrame fr bs).fr.lastHeaderStream = nextLast fr.lastHeaderStream fh := by rw [hfr]
      cases hres : (readFrame fr bs).res with
      | error e =>
        simp only
        split
        · exact .nil _
        · rw [← hl]; exact ih _ _
      | ok f => simp only; rw [← hl]; exact ih _ _

/-! ### MetaHeadersFrame guarantees (ReadMetaHeaders) -/

/-- pseudo-header fields form a prefix of the list. -/
def PseudoFirst : List Field → Prop
  | [] => True
  | f :: rest => if f.isPseudo then PseudoFirst rest else ∀ g ∈ rest, g.isPseudo = false

/-- a field `readMetaFrame` may keep: valid value, and a valid wire name unless it is a pseudo-header. -/
def FieldOK (f : Field) : Prop :=
  validHeaderFieldValue f.value = true ∧ (f.isPseudo = false → validWireHeaderFieldName f.name = true)

/-- header list size as `readMetaFrame` accounts it (`HeaderField.Size()`, a uint32, per field). -/
def sizeSum (fs : List Field) : Nat := (fs.map Field.size).sum

structure Inv (limit : Nat) (st : MetaState) : Prop where
  ok : ∀ f ∈ st.fields, FieldOK f
  size : sizeSum st.fields + st.remainSize ≤ limit
  pf : PseudoFirst st.fields
  saw : st.sawRegular = false → ∀ f ∈ st.fields, f.isPseudo = true

theorem pseudoFirst_append (fs : List Field) (f : Field) (h : PseudoFirst fs)
    (hp : f.isPseudo = true → ∀ g ∈ fs, g.isPseudo = true) : PseudoFirst (fs ++ [f]) := by
  induction fs with
  | nil => simp [PseudoFirst]
  | cons a rest ih =>
    simp only [List.cons_append, PseudoFirst] at h ⊢
    by_cases ha : a.isPseudo = true
    · simp only [ha, ↓reduceIte] at h ⊢
      exact ih h (fun hf g hg => hp hf g (by simp [hg]))
    · simp only [ha] at h ⊢
      intro g hg
      simp only [List.mem_append, List.mem_singleton] at hg
      rcases hg with hg | hg
      · exact h g hg
      · subst hg
        cases hgp : g.isPseudo with
        | false => rfl
        | true => exact absurd (hp hgp a (by simp)) ha

theorem sizeSum_append (fs : List Field) (f : Field) : sizeSum (fs ++ [f]) = sizeSum fs + f.size := by
  simp [sizeSum]

theorem metaEmit_inv (limit : Nat) (st : MetaState) (f : Field) (h : Inv limit st) : Inv limit (metaEmit st f) := by
  unfold metaEmit
  cases he : st.enabled with
  | false => simpa [he] using h
  | true =>
    by_cases hi : metaInvalid st f = true
    · simp only [hi, Bool.not_true, Bool.false_eq_true, ↓reduceIte]
      exact ⟨h.ok, h.size, h.pf, fun hs => h.saw (by simp at hs; exact hs.1)⟩
    by_cases hsz : f.size > st.remainSize
    · simp only [hi, hsz, Bool.not_true, Bool.false_eq_true, ↓reduceIte]
      exact ⟨h.ok, by have := h.size; simp only; omega, h.pf, fun hs => h.saw (by simp at hs; exact hs.1)⟩
    simp only [hi, hsz, Bool.not_true, Bool.false_eq_true, ↓reduceIte]
    have hinv : metaInvalid st f = false := by simpa using hi
    unfold metaInvalid at hinv
    simp only [Bool.or_eq_false_iff, Bool.not_eq_false'] at hinv
    obtain ⟨⟨_, hval⟩, hrest⟩ := hinv
    have hname : f.isPseudo = false → validWireHeaderFieldName f.name = true := by
      intro hp; simpa [hp] using hrest
    have hsaw : f.isPseudo = true → st.sawRegular = false := by
      intro hp; simpa [hp] using hrest
    refine ⟨?_, ?_, ?_, ?_⟩
    · intro g hg
      simp only [List.mem_append, List.mem_singleton] at hg
      rcases hg with hg | hg
      · exact h.ok g hg
      · subst hg; exact ⟨hval, hname⟩
    · simp only [sizeSum_append]; have := h.size; omega
    · exact pseudoFirst_append _ _ h.pf (fun hp => h.saw (hsaw hp))
    · intro hs g hg
      simp only [Bool.or_eq_false_iff, Bool.not_eq_false'] at hs
      simp only [List.mem_append, List.mem_singleton] at hg
      rcases hg with hg | hg
      · exact h.saw hs.1 g hg
      · subst hg; exact hs.2

theorem foldl_inv (limit : Nat) (fs : List Field) (st : MetaState) (h : Inv limit st) :
    Inv limit (fs.foldl metaEmit st) := by
  induction fs generalizing st with
  | nil => exact h
  | cons f rest ih => exact ih _ (metaEmit_inv limit st f h)

theorem metaLoop_inv (limit : Nat) (fuel : Nat) (fr : Framer) (st : MetaState) (frag : List Nat) (ended : Bool)
    (decs : List FragDec) (bs : List Nat) (st' : MetaState) (fr' : Framer) (rest' : List Nat) (h : Inv limit st)
    (hr : metaLoop fuel fr st frag ended decs bs = (.ok st', fr', rest')) : Inv limit st' := by
  induction fuel generalizing fr st frag ended decs bs with
  | zero => simp [metaLoop] at hr
  | succ n ih =>
    unfold metaLoop at hr
    split at hr
    · cases hr
    split at hr
    · cases hr
    generalize hmw : metaWrite st (decs.headD {}) = w at hr
    obtain ⟨st1, werr⟩ := w
    have hst1 : Inv limit st1 := by
      have : st1 = (decs.headD {}).fields.foldl metaEmit st := by
        simp only [metaWrite, Prod.mk.injEq] at hmw; exact hmw.1.symm
      rw [this]; exact foldl_inv limit _ st h
    simp only at hr
    cases werr with
    | true => simp at hr
    | false =>
      simp only [Bool.false_eq_true, ↓reduceIte] at hr
      cases ended with
      | true =>
        simp only [↓reduceIte, Prod.mk.injEq, Except.ok.injEq] at hr
        rw [← hr.1]; exact hst1
      | false =>
        simp only [Bool.false_eq_true, ↓reduceIte] at hr
        split at hr
        · simp at hr
        · exact ih _ _ _ _ _ _ hst1 hr
        · simp at hr
theorem takeWhile_eq_filter (fs : List Field) (h : PseudoFirst fs) :
    fs.takeWhile Field.isPseudo = fs.filter Field.isPseudo := by
  induction fs with
  | nil => rfl
  | cons a rest ih =>
    simp only [PseudoFirst] at h
    by_cases ha : a.isPseudo = true
    · simp only [ha, ↓reduceIte] at h
      simp [List.takeWhile, List.filter, ha, ih h]
    · simp only [ha] at h
      have : rest.filter Field.isPseudo = [] := by
        rw [List.filter_eq_nil_iff]; intro g hg; simp [h g hg]
      simp [List.takeWhile, List.filter, ha, this]

theorem checkPseudosLoop_spec (pf seen : List Field) (rq rs rq' rs' : Bool)
    (h : checkPseudosLoop pf seen rq rs = some (rq', rs'))
    (hn : (seen.map (·.name)).Nodup) :
    (∀ f ∈ pf, f.name ∈ pseudoRequest ∨ f.name ∈ pseudoResponse) ∧
    ((seen ++ pf).map (·.name)).Nodup ∧
    (rq' = true ↔ rq = true ∨ ∃ f ∈ pf, f.name ∈ pseudoRequest) ∧
    (rs' = true ↔ rs = true ∨ ∃ f ∈ pf, f.name ∈ pseudoResponse) := by
  induction pf generalizing seen rq rs with
  | nil =>
    simp only [checkPseudosLoop, Option.some.injEq, Prod.mk.injEq] at h
    simp [hn, h.1, h.2]
  | cons hf rest ih =>
    unfold checkPseudosLoop at h
    have key : ∀ (rq1 rs1 : Bool), checkPseudosLoop rest (seen ++ [hf]) rq1 rs1 = some (rq', rs') →
        seen.any (fun h2 => h2.name == hf.name) = false →
        (∀ f ∈ rest, f.name ∈ pseudoRequest ∨ f.name ∈ pseudoResponse) ∧
        ((seen ++ hf :: rest).map (·.name)).Nodup ∧
        (rq' = true ↔ rq1 = true ∨ ∃ f ∈ rest, f.name ∈ pseudoRequest) ∧
        (rs' = true ↔ rs1 = true ∨ ∃ f ∈ rest, f.name ∈ pseudoResponse) := by
      intro rq1 rs1 h1 hany
      have hnot : hf.name ∉ seen.map (·.name) := by
        intro hm
        simp only [List.mem_map] at hm
        obtain ⟨g, hg, hge⟩ := hm
        have : seen.any (fun h2 => h2.name == hf.name) = true := by
          simp only [List.any_eq_true]; exact ⟨g, hg, by simp [hge]⟩
        rw [this] at hany; cases hany
      have hn' : ((seen ++ [hf]).map (·.name)).Nodup := by
        simp only [List.map_append, List.map_cons, List.map_nil]
        rw [List.nodup_append]
        refine ⟨hn, by simp, ?_⟩
        intro a ha b hb
        simp only [List.mem_singleton] at hb
        subst hb
        intro hab; subst hab; exact hnot ha
      have := ih (seen ++ [hf]) rq1 rs1 h1 hn'
      simpa [List.append_assoc] using this
    split at h
    · rename_i hreq
      split at h
      · cases h
      rename_i hany
      have hmem : hf.name ∈ pseudoRequest := by simpa using hreq
      obtain ⟨k1, k2, k3, k4⟩ := key true rs h (by simpa using hany)
      refine ⟨?_, k2, ?_, ?_⟩
      · intro f hfm
        simp only [List.mem_cons] at hfm
        rcases hfm with rfl | hfm
        · exact Or.inl hmem
        · exact k1 f hfm
      · rw [k3]; simp only [true_or, true_iff]; exact Or.inr ⟨hf, by simp, hmem⟩
      · rw [k4]
        constructor
        · rintro (h1 | ⟨f, hfm, hfr⟩)
          · exact Or.inl h1
          · exact Or.inr ⟨f, by simp [hfm], hfr⟩
        · rintro (h1 | ⟨f, hfm, hfr⟩)
          · exact Or.inl h1
          · simp only [List.mem_cons] at hfm
            rcases hfm with rfl | hfm
            · exact absurd hfr (by revert hmem; generalize f.name = nm; intro h1 h2; revert h1 h2; simp [pseudoRequest, pseudoResponse]; intro h1; rcases h1 with rfl | rfl | rfl | rfl | rfl <;> simp)
            · exact Or.inr ⟨f, hfm, hfr⟩
    · rename_i hreq
      split at h
      · rename_i hresp
        split at h
        · cases h
        rename_i hany
        have hmem : hf.name ∈ pseudoResponse := by simpa using hresp
        have hnreq : hf.name ∉ pseudoRequest := by simpa using hreq
        obtain ⟨k1, k2, k3, k4⟩ := key rq true h (by simpa using hany)
        refine ⟨?_, k2, ?_, ?_⟩
        · intro f hfm
          simp only [List.mem_cons] at hfm
          rcases hfm with rfl | hfm
          · exact Or.inr hmem
          · exact k1 f hfm
        · rw [k3]
          constructor
          · rintro (h1 | ⟨f, hfm, hfr⟩)
            · exact Or.inl h1
            · exact Or.inr ⟨f, by simp [hfm], hfr⟩
          · rintro (h1 | ⟨f, hfm, hfr⟩)
            · exact Or.inl h1
            · simp only [List.mem_cons] at hfm
              rcases hfm with rfl | hfm
              · exact absurd hfr hnreq
              · exact Or.inr ⟨f, hfm, hfr⟩
        · rw [k4]; simp only [true_or, true_iff]; exact Or.inr ⟨hf, by simp, hmem⟩
      · cases h

theorem parseFrame_headers_type (fh : FrameHeader) (p : List Nat) (h0 : FrameHeader) (prio : PriorityParam)
    (frag : List Nat) (h : parseFrame fh p = .ok (.headers h0 prio frag)) : h0.type = frameHeaders := by
  obtain ⟨hh, _, hk⟩ := parseFrame_ok fh p _ h
  simp only [Frame.header] at hh
  rw [hh]; exact hk.1 _ _ _ rfl

/-- The guarantees of a returned `MetaHeadersFrame`, for ANY byte stream, limits and ANY behaviour
of the HPACK decoder on the fragments: the HEADERS frame it wraps respects the read size limit and
has a non-zero stream id; pseudo-header fields come first, are known names, pairwise distinct, and
request and response pseudo-headers are not mixed; every value is valid and every regular name is
a valid lower-case token; the accounted header list size is within `MaxHeaderListSize`. -/
theorem readMeta_guarantees (fr : Framer) (mhls : Nat) (orc : HpackOracle) (bs : List Nat)
    (h : FrameHeader) (prio : PriorityParam) (fields : List Field) (trunc : Bool)
    (hres : (readMeta fr mhls orc bs).res = .ok (.metaHeaders h prio fields trunc)) :
    h.length ≤ fr.maxReadSize ∧ h.streamID ≠ 0 ∧
    PseudoFirst fields ∧
    (∀ f ∈ fields, f.isPseudo = true → f.name ∈ pseudoRequest ∨ f.name ∈ pseudoResponse) ∧
    ((fields.filter Field.isPseudo).map (·.name)).Nodup ∧
    ¬ ((∃ f ∈ fields, f.isPseudo = true ∧ f.name ∈ pseudoRequest) ∧
       (∃ f ∈ fields, f.isPseudo = true ∧ f.name ∈ pseudoResponse)) ∧
    (∀ f ∈ fields, FieldOK f) ∧
    sizeSum fields ≤ maxHeaderListSize mhls := by
  unfold readMeta at hres
  simp only at hres
  split at hres
  · cases hres
  · rename_i h0 prio0 frag hrd
    obtain ⟨hlen, _, _, hrule, _⟩ := readFrame_ok_shape fr bs _ hrd
    split at hres
    · cases hres
    · rename_i st fr' rest' hloop
      split at hres
      · cases hres
      split at hres
      · cases hres
      split at hres
      · cases hres
      rename_i _ _ hcp
      simp only [MetaReadResult.mk.injEq, Except.ok.injEq, MFrame.metaHeaders.injEq] at hres
      obtain ⟨hh0, _, hfields, _⟩ := hres
      subst hh0
      subst hfields
      have hinv0 : Inv (maxHeaderListSize mhls) { remainSize := maxHeaderListSize mhls } :=
        ⟨by simp, by simp [sizeSum], by simp [PseudoFirst], by simp⟩
      have hinv := metaLoop_inv _ _ _ _ _ _ _ _ _ _ _ hinv0 hloop
      have hty : h0.type = frameHeaders := by
        have := readFrame_ok_shape fr bs _ hrd
        -- the frame is a HEADERS frame only if its type byte says so
        unfold readFrame at hrd
        split at hrd
        · cases hrd
        · simp only at hrd
          split at hrd
          · cases hrd
          split at hrd
          · cases hrd
          split at hrd
          · cases hrd
          exact parseFrame_headers_type _ _ _ _ _ hrd
        · cases hrd
      have hsid : h0.streamID ≠ 0 := hrule.1 (by simp [hty, Frame.header, frameHeaders, frameData])
      simp only [Bool.not_eq_true', Bool.not_eq_false] at hcp
      unfold checkPseudos at hcp
      split at hcp
      · cases hcp
      rename_i rq rs hl
      obtain ⟨k1, k2, k3, k4⟩ := checkPseudosLoop_spec _ [] false false rq rs hl (by simp)
      have htw := takeWhile_eq_filter _ hinv.pf
      unfold pseudoFields at k1 k2 k3 k4
      rw [htw] at k1 k2 k3 k4
      refine ⟨hlen, hsid, hinv.pf, ?_, by simpa using k2, ?_, hinv.ok, by have := hinv.size; omega⟩
      · intro f hf hp
        exact k1 f (by simp [List.mem_filter, hf, hp])
      · rintro ⟨⟨f, hf, hp, hfr⟩, ⟨g, hg, hgp, hgr⟩⟩
        have h1 : rq = true := k3.2 (Or.inr ⟨f, by simp [List.mem_filter, hf, hp], hfr⟩)
        have h2 : rs = true := k4.2 (Or.inr ⟨g, by simp [List.mem_filter, hg, hgp], hgr⟩)
        simp [h1, h2] at hcp
  · cases hres


/-- with field sizes below 2^32 (always the case for strings that fit in memory on the wire path:
`HeaderField.Size()` is computed in uint32) the accounted size is the true RFC 7541 size. -/
theorem sizeSum_true (fs : List Field) (h : ∀ f ∈ fs, f.name.length + f.value.length + 32 < 4294967296) :
    sizeSum fs = (fs.map (fun f => f.name.length + f.value.length + 32)).sum := by
  induction fs with
  | nil => rfl
  | cons a rest ih =>
    have ha := h a (by simp)
    have := ih (fun f hf => h f (by simp [hf]))
    simp only [sizeSum, List.map_cons, List.sum_cons] at this ⊢
    rw [this]; simp only [Field.size]; omega

/-- In ReadMetaHeaders mode every frame that is not a HEADERS frame is returned exactly as
without it (so `readFrame_ok_shape`, the stream-ID rules and contiguity apply unchanged), and a
bare HEADERS frame is never returned. -/
theorem readMeta_plain (fr : Framer) (mhls : Nat) (orc : HpackOracle) (bs : List Nat) (f : Frame)
    (hres : (readMeta fr mhls orc bs).res = .ok (.plain f)) :
    (readFrame fr bs).res = .ok f ∧ (∀ h p fr, f ≠ .headers h p fr) ∧
    (readMeta fr mhls orc bs).fr = (readFrame fr bs).fr ∧ (readMeta fr mhls orc bs).rest = (readFrame fr bs).rest := by
  unfold readMeta at hres ⊢
  simp only at hres ⊢
  split at hres
  · cases hres
  · split at hres
    · cases hres
    · split at hres
      · cases hres
      split at hres
      · cases hres
      split at hres
      · cases hres
      · cases hres
  · rename_i f0 hnh hrd
    simp only [Except.ok.injEq, MFrame.plain.injEq] at hres
    subst hres
    simp only [hrd]
    refine ⟨trivial, ?_, ?_, ?_⟩
    · intro h p fr' he; exact hnh h p fr' he
    · trivial
    · trivial

/-- an error result of ReadMetaHeaders mode on a non-HEADERS frame is the plain reader's error. -/
theorem readMeta_error_of_plain_error (fr : Framer) (mhls : Nat) (orc : HpackOracle) (bs : List Nat) (e : RErr)
    (h : (readFrame fr bs).res = .error e) : (readMeta fr mhls orc bs).res = .error e := by
  unfold readMeta
  simp only [h]

/-! ### Fuel sufficiency and completeness -/


/-- The fuel of `metaLoop` is only a termination device: any two values above the number of
remaining bytes give the same result (each CONTINUATION consumes at least 9 bytes), so the
out-of-fuel branch is unreachable from `readMeta`, which starts with `rest.length + 1`. -/
theorem metaLoop_fuel (f1 f2 : Nat) (fr : Framer) (st : MetaState) (frag : List Nat) (ended : Bool)
    (decs : List FragDec) (bs : List Nat) (h1 : bs.length < f1) (h2 : bs.length < f2) :
    metaLoop f1 fr st frag ended decs bs = metaLoop f2 fr st frag ended decs bs := by
  induction f1 generalizing f2 fr st frag ended decs bs with
  | zero => omega
  | succ n ih =>
    cases f2 with
    | zero => omega
    | succ m =>
      simp only [metaLoop]
      split
      · rfl
      split
      · rfl
      generalize metaWrite st (decs.headD {}) = w
      obtain ⟨st1, werr⟩ := w
      simp only
      split
      · rfl
      split
      · rfl
      split
      · rfl
      · rename_i h frag' hres
        have hs := (readFrame_ok_shape fr bs _ hres).2.2.1
        exact ih _ _ _ _ _ _ _ (by omega) (by omega)
      · rfl


/-- as long as neither `invalid` nor `Truncated` is set, emission is enabled and `Fields` is
everything the decoder has emitted so far (`E`). -/
def Complete (E : List Field) (st : MetaState) : Prop :=
  st.truncated = false → st.invalid = false → st.enabled = true ∧ st.fields = E

theorem metaEmit_complete (E : List Field) (st : MetaState) (f : Field) (h : Complete E st) :
    Complete (E ++ [f]) (metaEmit st f) := by
  unfold metaEmit
  cases he : st.enabled with
  | false =>
    simp only [Bool.not_false, ↓reduceIte]
    intro ht hi
    have := (h ht hi).1
    rw [he] at this; cases this
  | true =>
    by_cases hi : metaInvalid st f = true
    · simp only [hi, Bool.not_true, Bool.false_eq_true, ↓reduceIte]
      intro _ hinv; simp at hinv
    by_cases hsz : f.size > st.remainSize
    · simp only [hi, hsz, Bool.not_true, Bool.false_eq_true, ↓reduceIte]
      intro ht; simp at ht
    simp only [hi, hsz, Bool.not_true, Bool.false_eq_true, ↓reduceIte]
    intro ht hinv
    simp only at ht hinv
    exact ⟨rfl, by rw [(h ht hinv).2]⟩

theorem foldl_complete (fs E : List Field) (st : MetaState) (h : Complete E st) :
    Complete (E ++ fs) (fs.foldl metaEmit st) := by
  induction fs generalizing E st with
  | nil => simpa using h
  | cons f rest ih =>
    have := ih (E ++ [f]) (metaEmit st f) (metaEmit_complete E st f h)
    simpa [List.append_assoc] using this

theorem metaLoop_complete (fuel : Nat) (fr : Framer) (st : MetaState) (frag : List Nat) (ended : Bool)
    (decs : List FragDec) (bs : List Nat) (st' : MetaState) (fr' : Framer) (rest' : List Nat) (E : List Field)
    (h : Complete E st)
    (hr : metaLoop fuel fr st frag ended decs bs = (.ok st', fr', rest')) :
    ∃ n, 1 ≤ n ∧ Complete (E ++ (decs.take n).flatMap (·.fields)) st' := by
  induction fuel generalizing fr st frag ended decs bs E with
  | zero => simp [metaLoop] at hr
  | succ k ih =>
    unfold metaLoop at hr
    split at hr
    · cases hr
    split at hr
    · cases hr
    generalize hmw : metaWrite st (decs.headD {}) = w at hr
    obtain ⟨st1, werr⟩ := w
    have hst1 : Complete (E ++ (decs.headD {}).fields) st1 := by
      have : st1 = (decs.headD {}).fields.foldl metaEmit st := by
        simp only [metaWrite, Prod.mk.injEq] at hmw; exact hmw.1.symm
      rw [this]; exact foldl_complete _ E st h
    have hhead : (decs.headD {}).fields = (decs.take 1).flatMap (·.fields) := by
      cases decs <;> simp
    simp only at hr
    cases werr with
    | true => simp at hr
    | false =>
      simp only [Bool.false_eq_true, ↓reduceIte] at hr
      cases ended with
      | true =>
        simp only [↓reduceIte, Prod.mk.injEq, Except.ok.injEq] at hr
        refine ⟨1, Nat.le_refl 1, ?_⟩
        rw [← hr.1, ← hhead]; exact hst1
      | false =>
        simp only [Bool.false_eq_true, ↓reduceIte] at hr
        split at hr
        · simp at hr
        · obtain ⟨n, hn, hc⟩ := ih _ _ _ _ _ _ _ hst1 hr
          refine ⟨n + 1, by omega, ?_⟩
          have : (decs.take (n + 1)).flatMap (·.fields) = (decs.headD {}).fields ++ (decs.tail.take n).flatMap (·.fields) := by
            cases decs <;> simp
          rw [this, ← List.append_assoc]; exact hc
        · simp at hr

/-- A MetaHeadersFrame that is NOT marked Truncated carries the complete decoded header list: its
`Fields` are exactly the fields the HPACK decoder produced for the (first `n ≥ 1`) fragments of
the header block, none dropped. Together with `readMeta_guarantees` this is "within
MaxHeaderListSize unless marked Truncated". -/
theorem readMeta_complete (fr : Framer) (mhls : Nat) (orc : HpackOracle) (bs : List Nat)
    (h : FrameHeader) (prio : PriorityParam) (fields : List Field)
    (hres : (readMeta fr mhls orc bs).res = .ok (.metaHeaders h prio fields false)) :
    ∃ n, 1 ≤ n ∧ fields = (orc.decs.take n).flatMap (·.fields) := by
  unfold readMeta at hres
  simp only at hres
  split at hres
  · cases hres
  · split at hres
    · cases hres
    · rename_i st fr' rest' hloop
      split at hres
      · cases hres
      split at hres
      · cases hres
      rename_i hinv
      split at hres
      · cases hres
      simp only [MetaReadResult.mk.injEq, Except.ok.injEq, MFrame.metaHeaders.injEq] at hres
      obtain ⟨_, _, hfields, htr⟩ := hres
      have h0 : Complete [] { remainSize := maxHeaderListSize mhls } := by
        intro _ _; exact ⟨rfl, rfl⟩
      obtain ⟨n, hn, hc⟩ := metaLoop_complete _ _ _ _ _ _ _ _ _ _ [] h0 hloop
      refine ⟨n, hn, ?_⟩
      rw [← hfields]
      simpa using (hc htr (by simpa using hinv)).2
  · cases hres


/-- The reference predicate: a field name passes `validWireHeaderFieldName` iff it is non-empty and
every BYTE is an ASCII (< 0x80) token character that is not an upper-case letter. In particular no
name containing a multi-byte UTF-8 sequence passes, whatever the low byte of the rune is (the Go
code ranges over runes: a rune ≥ 0x80 — or RuneError for invalid UTF-8 — fails `IsTokenRune`, and
every byte of a multi-byte sequence is ≥ 0x80). -/
theorem validWireHeaderFieldName_iff (v : List Nat) :
    validWireHeaderFieldName v = true ↔
      v ≠ [] ∧ ∀ b ∈ v, b < 128 ∧ isTokenByte b = true ∧ ¬ (65 ≤ b ∧ b ≤ 90) := by
  unfold validWireHeaderFieldName
  cases v with
  | nil => simp
  | cons a rest =>
    simp only [List.isEmpty_cons, Bool.not_false, Bool.true_and, List.all_eq_true, ne_eq, reduceCtorEq,
      not_false_eq_true, true_and]
    constructor
    · intro h b hb
      have := h b hb
      simp only [Bool.and_eq_true, decide_eq_true_eq, Bool.not_eq_true', Bool.and_eq_false_iff,
        decide_eq_false_iff_not] at this
      exact ⟨this.1.1, this.1.2, by omega⟩
    · intro h b hb
      obtain ⟨h1, h2, h3⟩ := h b hb
      simp only [Bool.and_eq_true, decide_eq_true_eq, Bool.not_eq_true', Bool.and_eq_false_iff,
        decide_eq_false_iff_not]
      exact ⟨⟨h1, h2⟩, by omega⟩

/-- `bš` (U+0161 = C5 A1, low byte 'a'), `ab①` (U+2461), `𐁡` (U+10061): rejected by the model. -/
example : validWireHeaderFieldName [98, 197, 161] = false ∧ validWireHeaderFieldName [97, 98, 226, 145, 161] = false ∧
    validWireHeaderFieldName [240, 144, 129, 161] = false ∧ validWireHeaderFieldName [98, 97] = true := by decide

/-! ### Non-vacuity -/

/-- a HEADERS frame (stream 1, END_HEADERS) whose block decodes to `:method: GET`, `a: b`. -/
example : (readMeta newFramer 0
      { decs := [{ fields := [⟨[58, 109, 101, 116, 104, 111, 100], [71, 69, 84]⟩, ⟨[97], [98]⟩] }] }
      [0, 0, 1, 1, 4, 0, 0, 0, 1, 130]).res
    = .ok (.metaHeaders ⟨1, 1, 4, 1⟩ {} [⟨[58, 109, 101, 116, 104, 111, 100], [71, 69, 84]⟩, ⟨[97], [98]⟩] false) := by
  rfl
/-- the same block with MaxHeaderListSize 40: the second field is dropped and Truncated set. -/
example : (readMeta newFramer 42
      { decs := [{ fields := [⟨[58, 109, 101, 116, 104, 111, 100], [71, 69, 84]⟩, ⟨[97], [98]⟩] }] }
      [0, 0, 1, 1, 4, 0, 0, 0, 1, 130]).res
    = .ok (.metaHeaders ⟨1, 1, 4, 1⟩ {} [⟨[58, 109, 101, 116, 104, 111, 100], [71, 69, 84]⟩] true) := by
  rfl
/-- a pseudo-header after a regular field is a stream error. -/
example : (readMeta newFramer 0
      { decs := [{ fields := [⟨[97], [98]⟩, ⟨[58, 109, 101, 116, 104, 111, 100], [71, 69, 84]⟩] }] }
      [0, 0, 1, 1, 4, 0, 0, 0, 1, 130]).res = .error (.stream 1 errCodeProtocol) := by
  rfl
/-- CONTINUATION on another stream while a header block is open is not admissible. -/
example : ¬ Admissible 3 ⟨0, frameContinuation, 4, 5⟩ := by simp [Admissible]
example : Admissible 3 ⟨0, frameContinuation, 4, 3⟩ := by simp [Admissible]
example : ¬ StreamRule ⟨0, frameData, 0, 0⟩ := by simp [StreamRule, frameData]

end NetVerif.Proofs.C07
