import NetVerif.Model.QuicStream
import NetVerif.Model.QuicMonitor
import NetVerif.Gen.C20
import NetVerif.Proofs.C24
import NetVerif.Proofs.Lemmas.QuicMonitor
import NetVerif.Proofs.Lemmas.QuicRecv
/-!
C19 — QUIC streams deliver bytes reliably and in order over a faulty network.

* Monitor theorems (trace level, all arrival orders): on every accepted trace the bytes returned by
  the reads of a stream are, at every moment, a prefix of the bytes written by the peer; EOF only
  after the writer closed and exactly at `|W|`; `Close` nil only once the peer holds `[0,|W|)` and FIN;
  at quiescence every cleanly closed stream is delivered completely.
* Mechanism theorems on the exact stream model (D-tied state for state), using the range-set
  semantics of C24: the received set grows by exactly the frame's range; `Read` hands out only the
  contiguous prefix `[in.start, inset[0].end)` and reports EOF only at the final size; send
  bookkeeping: an acknowledged range moves from unsent to acked, a lost range returns to unsent
  except for what was acknowledged meanwhile; "all data acked" means every byte of `[0, out.end)`.
-/
namespace NetVerif.Proofs.C19
open NetVerif.Model NetVerif.Model.QuicStream
open NetVerif.Model.Rangeset (RS Rg)
open NetVerif.Proofs.C24 (Mem WF mem_add wf_add mem_sub wf_sub wf_sub_partial)

/-! ### T-tie (shared generated file) -/
theorem gen_consts : Gen.C20.autoFlushSize = autoFlushSize ∧ Gen.C20.pipebufSize = chunk := by decide

/-! ### receive side -/

/-- The range recorded by `handleData` after the duplicate trim. -/
def trimmedOff (s : Stream) (off e : Int) : Int :=
  match s.inset with
  | r0 :: _ => if r0.s ≤ off ∧ off < r0.e then (if e ≤ r0.e then e else r0.e) else off
  | [] => off

/-- An accepted STREAM frame adds exactly its range to the received set (the trimmed part was
already there), whatever the arrival order, duplication or overlap; the set stays well-formed. -/
theorem handleData_inset (c : Conn) (s : Stream) (off : Int) (b : List Nat) (fin : Bool)
    (hwf : WF s.inset) (h0 : (handleData c s off b fin).2.2 = 0)
    (hopen : ¬ (s.inclosed.isSet = true ∨ s.inresetcode ≠ -1)) :
    WF (handleData c s off b fin).2.1.inset ∧
    ∀ x, Mem (handleData c s off b fin).2.1.inset x ↔ (Mem s.inset x ∨ (off ≤ x ∧ x < off + b.length)) := by
  have key : (handleData c s off b fin).2.1.inset = Rangeset.add s.inset (trimmedOff s off (off + b.length)) (off + b.length) := by
    unfold handleData at h0 ⊢
    simp only [] at h0 ⊢
    by_cases h1 : checkStreamBounds s.inwin s.insize s.inp.stop (off + b.length) fin = 0
    · simp only [h1, ne_eq, not_true_eq_false, if_false, hopen] at h0 ⊢
      by_cases h3 : s.insize = -1 ∧ off + (b.length : Int) > s.inp.stop
      · simp only [h3, and_self, if_true] at h0 ⊢
        by_cases h5 : (bytesReceived c.usedLimit c.sentLimit (off + b.length - s.inp.stop)).1 = 0
        · simp only [h5, ne_eq, not_true_eq_false, if_false] at h0 ⊢
          unfold trimmedOff
          cases hs : s.inset with
          | nil => cases fin <;> simp
          | cons r0 rest =>
            by_cases hc : r0.s ≤ off ∧ off < r0.e <;> cases fin <;> simp [hc]
        · simp [h5] at h0
      · simp only [h3, if_false, ne_eq, not_true_eq_false] at h0 ⊢
        unfold trimmedOff
        cases hs : s.inset with
        | nil => cases fin <;> simp
        | cons r0 rest =>
          by_cases hc : r0.s ≤ off ∧ off < r0.e <;> cases fin <;> simp [hc]
    · simp [h1] at h0
  rw [key]
  have hlen : (0 : Int) ≤ b.length := Int.natCast_nonneg _
  -- the trimmed offset lies between off and e, and [off, trimmed) is already in the set
  have htr : off ≤ trimmedOff s off (off + b.length) ∧ trimmedOff s off (off + b.length) ≤ off + b.length ∧
      ∀ x, off ≤ x → x < trimmedOff s off (off + b.length) → Mem s.inset x := by
    unfold trimmedOff
    cases hs : s.inset with
    | nil => simp; omega
    | cons r0 rest =>
      by_cases hc : r0.s ≤ off ∧ off < r0.e
      · simp only [hc, and_self, if_true]
        by_cases he : off + (b.length : Int) ≤ r0.e
        · simp only [he, if_true]
          refine ⟨by omega, by omega, ?_⟩
          intro x h1 h2; exact ⟨r0, by simp, by omega, by omega⟩
        · simp only [he, if_false]
          refine ⟨by omega, by omega, ?_⟩
          intro x h1 h2; exact ⟨r0, by simp, by omega, by omega⟩
      · simp only [hc, if_false]
        refine ⟨by omega, by omega, ?_⟩
        intro x h1 h2; omega
  refine ⟨wf_add _ _ _ hwf htr.2.1, ?_⟩
  intro x
  rw [mem_add _ _ _ hwf htr.2.1]
  constructor
  · rintro (h | h)
    · left; exact h
    · right; omega
  · rintro (h | h)
    · left; exact h
    · by_cases hx : x < trimmedOff s off (off + b.length)
      · left; exact htr.2.2 x h.1 hx
      · right; omega

/-- **No dangling fast-path buffer after CloseRead** (repaired code, `discardInbufLocked`): `CloseRead`
empties `inbuf` before the pipe releases its chunks, so a later `Read` never takes the lock-free path
through a released buffer: it fails (closed / reset) and returns no bytes.  Together with
`Read` filling `inbuf` only from `Pipe.peek` of the stream's own pipe, `Read` can only return bytes of
the stream's own pipe window. -/
theorem closeRead_clears_inbuf (c c' : Conn) (s : Stream) (n : Nat) (hw : s.writeOnly = false) :
    (closeRead c s).2.inbuf = [] ∧ (closeRead c s).2.inbufoff = 0 ∧
      ((QuicStream.read c' (closeRead c s).2 n).2.2 = .errClosed ∨
       (QuicStream.read c' (closeRead c s).2 n).2.2 = .errReset) := by
  have hshape : (closeRead c s).2.inbuf = [] ∧ (closeRead c s).2.inbufoff = 0 ∧
      (closeRead c s).2.inclosed.isSet = true ∧ (closeRead c s).2.writeOnly = false := by
    unfold closeRead
    simp only [hw, Bool.false_eq_true, if_false]
    refine ⟨trivial, trivial, ?_, trivial⟩
    by_cases hc : (Rangeset.isrange s.inset 0 s.insize = true ∨ s.inresetcode ≠ -1)
    · simp [hc, SV.isSet]
    · cases hi : s.inclosed <;> simp [hc, hi, SV.set, SV.isSet]
  obtain ⟨h1, h2, h3, h4⟩ := hshape
  refine ⟨h1, h2, ?_⟩
  generalize closeRead c s = r at *
  have hcan : r.2.canRead = true := by unfold Stream.canRead; simp [h3]
  unfold QuicStream.read
  simp only [h4, h1, h2, hcan]
  by_cases hr : r.2.inresetcode ≠ -1
  · right; simp [hr]
  · left; simp [hr, h3]

/-- The lock-free path of `Read` is taken only while `inbuf` holds unread bytes, and then returns
exactly those bytes; `inbuf` is only ever assigned from `Pipe.peek` of the stream's own pipe. -/
theorem read_fast_path_bytes (c : Conn) (s : Stream) (n : Nat) (hw : s.writeOnly = false)
    (hf : s.inbuf.length > s.inbufoff) :
    (QuicStream.read c s n).2.2 = .data ((s.inbuf.drop s.inbufoff).take (min n (s.inbuf.length - s.inbufoff))) false := by
  unfold QuicStream.read
  simp [hw, hf]

/-! ### byte-level refinement of the receive side through the chunked pipe -/
section Bytes
open NetVerif.Proofs.Lemmas.QuicRecv

/-- **What the peer's reads are made of.**  Start from a fresh stream and deliver ANY sequence of STREAM
frames carrying slices of one sender byte sequence `w` (any order, duplication, overlap, any alignment
to the 4096-byte pipe chunks).  Then for every `k` such that `[0,k)` has been received, the slow path's
`pipe.copy(0, k)` returns exactly `w[0..k)`: right length, right bytes, in order — and no pipe primitive
has panicked.  (`Read` hands out `pipe.copy(in.start, min(len(b), inset[0].end - in.start))`, see
`copy_bytes` for an arbitrary read position and `read_fast` / `peek_bytes` for the lock-free buffer.) -/
theorem received_prefix_reads_back (w : List Nat) (frames : List (Int × List Nat × Bool))
    (hf : ∀ f ∈ frames, FrameOf w f.1 f.2.1) (c : Conn) (s : Stream)
    (h1 : s.inp = Pipe.empty) (h2 : s.inset = []) (h3 : s.inbuf = []) (h4 : s.inbufoff = 0)
    (ho : isOpen s) (hp : s.panicked = false) (k : Nat)
    (hk : ∀ x, 0 ≤ x → x < (k : Int) → Mem (frames.foldl feed (c, s)).2.inset x) :
    (frames.foldl feed (c, s)).2.panicked = false ∧
    ∃ bytes, Pipe.copy (frames.foldl feed (c, s)).2.inp 0 k = some bytes ∧ bytes.length = k ∧
      ∀ i : Nat, i < k → bytes[i]? = w[i]? := by
  obtain ⟨spec', hri, _, hst, hpan, _, _⟩ := frames_RI w frames hf c s NetVerif.Proofs.C30.Spec.empty (fresh_RI w s h1 h2 h3 h4) ho
  have hs0 : (frames.foldl feed (c, s)).2.inp.start = 0 := by rw [hst, h1]; rfl
  refine ⟨by rw [hpan, hp], ?_⟩
  obtain ⟨bytes, e1, e2, e3⟩ := copy_bytes w _ spec' hri k (by rw [hs0]; intro x a b; exact hk x a (by omega))
  rw [hs0] at e1
  refine ⟨bytes, e1, e2, fun i hi => ?_⟩
  have := e3 i hi
  rw [hs0] at this
  rw [this]; unfold wAt; simp

/-- the receive-side history alphabet: a delivered STREAM frame or an application `Read(n)` -/
inductive ROp where
  | frame (off : Int) (b : List Nat) (fin : Bool)
  | read (n : Nat)

/-- state: connection counters, the stream, and the concatenation of everything `Read` returned so far -/
def rstep (st : Conn × Stream × List Nat) : ROp → Conn × Stream × List Nat
  | .frame off b fin => ((feed (st.1, st.2.1) (off, b, fin)).1, (feed (st.1, st.2.1) (off, b, fin)).2, st.2.2)
  | .read n => ((QuicStream.read st.1 st.2.1 n).1, (QuicStream.read st.1 st.2.1 n).2.1,
                st.2.2 ++ bytesOf (QuicStream.read st.1 st.2.1 n).2.2)

/-- every frame of the history carries a slice of the sender's byte sequence `w` -/
def FramesOf (w : List Nat) (ops : List ROp) : Prop :=
  ∀ op ∈ ops, match op with | .frame off b _ => FrameOf w off b | .read _ => True

def HInv (w : List Nat) (st : Conn × Stream × List Nat) : Prop :=
  (∃ spec, RI w st.2.1 spec) ∧ Pre st.2.1 ∧ isOpen st.2.1 ∧ (st.2.2.length : Int) = pos st.2.1 ∧
    ∀ i : Nat, i < st.2.2.length → st.2.2[i]? = wAt w i

theorem rstep_inv (w : List Nat) (st : Conn × Stream × List Nat) (op : ROp) (h : HInv w st)
    (hop : match op with | .frame off b _ => FrameOf w off b | .read _ => True) :
    HInv w (rstep st op) ∧ (∀ n, op = .read n → (QuicStream.read st.1 st.2.1 n).2.2 ≠ .panic) := by
  obtain ⟨⟨spec, hri⟩, hpre, hopen, hlen, hbytes⟩ := h
  cases op with
  | frame off b fin =>
    have := feed_post w st.1 st.2.1 spec (off, b, fin) hri hpre hopen hop
    refine ⟨⟨this.1, this.2.1, this.2.2.1, ?_, hbytes⟩, fun n hn => by cases hn⟩
    show (st.2.2.length : Int) = pos (feed (st.1, st.2.1) (off, b, fin)).2
    rw [this.2.2.2]; exact hlen
  | read n =>
    have hp := read_post w st.1 st.2.1 spec n hri hpre hopen
    refine ⟨⟨hp.ri, hp.pre, hp.opn, ?_, ?_⟩, fun m hm => by cases hm; exact hp.nopanic⟩
    · show ((st.2.2 ++ bytesOf (QuicStream.read st.1 st.2.1 n).2.2).length : Int) = pos (QuicStream.read st.1 st.2.1 n).2.1
      rw [hp.adv, List.length_append]; omega
    · intro i hi
      show (st.2.2 ++ bytesOf (QuicStream.read st.1 st.2.1 n).2.2)[i]? = wAt w i
      by_cases hlt : i < st.2.2.length
      · rw [List.getElem?_append_left hlt]; exact hbytes i hlt
      · have hi0 : i < (st.2.2 ++ bytesOf (QuicStream.read st.1 st.2.1 n).2.2).length := hi
        have hi' : i < st.2.2.length + (bytesOf (QuicStream.read st.1 st.2.1 n).2.2).length := by
          rw [List.length_append] at hi0; exact hi0
        rw [List.getElem?_append_right (by omega)]
        rw [hp.bytes (i - st.2.2.length) (by omega)]
        congr 1; omega

theorem run_inv (w : List Nat) (ops : List ROp) (hops : FramesOf w ops) :
    ∀ st, HInv w st → HInv w (ops.foldl rstep st) := by
  induction ops with
  | nil => intro st h; exact h
  | cons op rest ih =>
    intro st h
    exact ih (fun o ho => hops o (by simp [ho])) _ (rstep_inv w st op h (hops op (by simp))).1

/-- **In order, without duplication, exactly the sender's bytes — at byte level, for all histories.**
Take a fresh stream and ANY interleaving of delivered STREAM frames that carry slices of one sender
byte sequence `w` (any order, duplication, overlap, alignment to the 4096-byte pipe chunks; refused
frames included) with application reads of any sizes (both the lock-free fast path and the slow path
through `pipe.copy` / `discardBefore` / `peek`).  Then the concatenation of everything `Read` has
returned is exactly `w.take p`, where `p` is the read position. -/
theorem reads_are_prefix (w : List Nat) (ops : List ROp) (hops : FramesOf w ops) (c : Conn) (s : Stream)
    (h1 : s.inp = Pipe.empty) (h2 : s.inset = []) (h3 : s.inbuf = []) (h4 : s.inbufoff = 0) (ho : isOpen s) :
    (ops.foldl rstep (c, s, [])).2.2 = w.take (pos (ops.foldl rstep (c, s, [])).2.1).toNat := by
  have h0 : HInv w (c, s, []) := by
    refine ⟨⟨_, fresh_RI w s h1 h2 h3 h4⟩, ?_, ho, ?_, fun i hi => by simp at hi⟩
    · intro x hx hx2
      have : x < s.inp.start + (s.inbuf.length : Int) := hx2
      rw [h1, h3] at this; simp [Pipe.empty] at this; omega
    · show (([] : List Nat).length : Int) = s.inp.start + s.inbufoff
      rw [h1, h4]; simp [Pipe.empty]
  obtain ⟨_, _, _, hlen, hbytes⟩ := run_inv w ops hops _ h0
  generalize (ops.foldl rstep (c, s, [])) = st at *
  apply List.ext_getElem?
  intro i
  rw [List.getElem?_take]
  by_cases hi : i < st.2.2.length
  · have hi2 : i < (pos st.2.1).toNat := by omega
    rw [if_pos hi2, hbytes i hi]
    unfold wAt; simp
  · have hi2 : ¬ i < (pos st.2.1).toNat := by omega
    rw [if_neg hi2]
    exact List.getElem?_eq_none (by omega)

/-- … and no pipe primitive (`copy`, `peek`, `writeAt`) is ever called outside its window: no `Read` of
such a history ends in the model's `panic` result. -/
theorem reads_never_panic (w : List Nat) (ops : List ROp) (hops : FramesOf w ops) (c : Conn) (s : Stream)
    (h1 : s.inp = Pipe.empty) (h2 : s.inset = []) (h3 : s.inbuf = []) (h4 : s.inbufoff = 0) (ho : isOpen s)
    (n : Nat) :
    (QuicStream.read (ops.foldl rstep (c, s, [])).1 (ops.foldl rstep (c, s, [])).2.1 n).2.2 ≠ .panic := by
  have h0 : HInv w (c, s, []) := by
    refine ⟨⟨_, fresh_RI w s h1 h2 h3 h4⟩, ?_, ho, ?_, fun i hi => by simp at hi⟩
    · intro x hx hx2
      have : x < s.inp.start + (s.inbuf.length : Int) := hx2
      rw [h1, h3] at this; simp [Pipe.empty] at this; omega
    · show (([] : List Nat).length : Int) = s.inp.start + s.inbufoff
      rw [h1, h4]; simp [Pipe.empty]
  have hinv := run_inv w ops hops _ h0
  exact (rstep_inv w _ (.read n) hinv trivial).2 n rfl

/-- one step keeps the final-size invariant, and a recorded final size never changes -/
theorem rstep_fin (w : List Nat) (st : Conn × Stream × List Nat) (op : ROp) (h : HInv w st) (hfi : FinInv st.2.1)
    (hop : match op with | .frame off b _ => FrameOf w off b | .read _ => True) :
    FinInv (rstep st op).2.1 ∧ (st.2.1.insize ≠ -1 → (rstep st op).2.1.insize = st.2.1.insize) := by
  obtain ⟨⟨spec, hri⟩, hpre, hopen, _, _⟩ := h
  cases op with
  | frame off b fin => exact feed_fin w st.1 st.2.1 spec (off, b, fin) hri hfi hopen hop
  | read n =>
    show FinInv (QuicStream.read st.1 st.2.1 n).2.1 ∧ (_ → (QuicStream.read st.1 st.2.1 n).2.1.insize = _)
    cases hw : st.2.1.writeOnly
    case true =>
      have hr : QuicStream.read st.1 st.2.1 n = (st.1, st.2.1, .errWriteOnly) := by unfold QuicStream.read; simp [hw]
      rw [hr]; exact ⟨hfi, fun _ => rfl⟩
    case false =>
      have hk := (read_more w st.1 st.2.1 spec n hri hpre hopen hfi hw).2.2
      refine ⟨?_, fun _ => hk.1⟩
      unfold FinInv; rw [hk.1, hk.2]; exact hfi

theorem run_fin (w : List Nat) (ops : List ROp) (hops : FramesOf w ops) :
    ∀ st, HInv w st → FinInv st.2.1 →
      FinInv (ops.foldl rstep st).2.1 ∧ (st.2.1.insize ≠ -1 → (ops.foldl rstep st).2.1.insize = st.2.1.insize) := by
  induction ops with
  | nil => intro st _ hf; exact ⟨hf, fun _ => rfl⟩
  | cons op rest ih =>
    intro st h hf
    have h1 := rstep_inv w st op h (hops op (by simp))
    have h2 := rstep_fin w st op h hf (hops op (by simp))
    have h3 := ih (fun o ho => hops o (by simp [ho])) _ h1.1 h2.1
    refine ⟨h3.1, fun hne => ?_⟩
    have := h2.2 hne
    simp only [List.foldl_cons]
    rw [h3.2 (by rw [this]; exact hne), this]

theorem fresh_HInv (w : List Nat) (c : Conn) (s : Stream) (h1 : s.inp = Pipe.empty) (h2 : s.inset = [])
    (h3 : s.inbuf = []) (h4 : s.inbufoff = 0) (ho : isOpen s) : HInv w (c, s, []) := by
  refine ⟨⟨_, fresh_RI w s h1 h2 h3 h4⟩, ?_, ho, ?_, fun i hi => by simp at hi⟩
  · intro x hx hx2
    have : x < s.inp.start + (s.inbuf.length : Int) := hx2
    rw [h1, h3] at this; simp [Pipe.empty] at this; omega
  · show (([] : List Nat).length : Int) = s.inp.start + s.inbufoff
    rw [h1, h4]; simp [Pipe.empty]

/-- **A recorded final size never changes**, whatever frames (consistent with one sender) and reads follow. -/
theorem final_size_never_changes (w : List Nat) (ops1 ops2 : List ROp) (hops : FramesOf w (ops1 ++ ops2))
    (c : Conn) (s : Stream) (h1 : s.inp = Pipe.empty) (h2 : s.inset = []) (h3 : s.inbuf = []) (h4 : s.inbufoff = 0)
    (h5 : s.insize = -1) (ho : isOpen s)
    (hne : (ops1.foldl rstep (c, s, [])).2.1.insize ≠ -1) :
    ((ops1 ++ ops2).foldl rstep (c, s, [])).2.1.insize = (ops1.foldl rstep (c, s, [])).2.1.insize := by
  have h0 := fresh_HInv w c s h1 h2 h3 h4 ho
  have hf1 : FramesOf w ops1 := fun o ho => hops o (by simp [ho])
  have hf2 : FramesOf w ops2 := fun o ho => hops o (by simp [ho])
  have hi1 := run_inv w ops1 hf1 _ h0
  have hfin1 := (run_fin w ops1 hf1 _ h0 (Or.inl h5)).1
  rw [List.foldl_append]
  exact (run_fin w ops2 hf2 _ hi1 hfin1).2 hne

/-- **EOF exactly at the end**, in every reachable state: after any history of frames (consistent with one
sender `w`, FIN included) and reads, `Read(n)` reports io.EOF — alone or together with the last bytes —
iff a final size has been recorded (FIN received), the lock-free buffer is drained, and the read
position reaches that final size. -/
theorem eof_iff (w : List Nat) (ops : List ROp) (hops : FramesOf w ops) (c : Conn) (s : Stream)
    (h1 : s.inp = Pipe.empty) (h2 : s.inset = []) (h3 : s.inbuf = []) (h4 : s.inbufoff = 0) (h5 : s.insize = -1)
    (ho : isOpen s) (n : Nat) (hw : (ops.foldl rstep (c, s, [])).2.1.writeOnly = false) :
    let st := ops.foldl rstep (c, s, [])
    isEOF (QuicStream.read st.1 st.2.1 n).2.2 ↔
      (st.2.1.insize ≠ -1 ∧ ¬ st.2.1.inbuf.length > st.2.1.inbufoff ∧
        pos (QuicStream.read st.1 st.2.1 n).2.1 = st.2.1.insize) := by
  have h0 := fresh_HInv w c s h1 h2 h3 h4 ho
  obtain ⟨⟨spec, hri⟩, hpre, hopen, _, _⟩ := run_inv w ops hops _ h0
  have hfi := (run_fin w ops hops _ h0 (Or.inl h5)).1
  exact (read_more w _ _ spec n hri hpre hopen hfi hw).1

/-- **Data is available exactly when the contiguous received prefix extends beyond the position**, in every
reachable state: `Read(n)` with `n > 0` returns at least one byte iff the byte at the read position has
been received (everything before it has been, by `Pre`). -/
theorem read_available_iff (w : List Nat) (ops : List ROp) (hops : FramesOf w ops) (c : Conn) (s : Stream)
    (h1 : s.inp = Pipe.empty) (h2 : s.inset = []) (h3 : s.inbuf = []) (h4 : s.inbufoff = 0) (h5 : s.insize = -1)
    (ho : isOpen s) (n : Nat) (hn : 0 < n) (hw : (ops.foldl rstep (c, s, [])).2.1.writeOnly = false) :
    let st := ops.foldl rstep (c, s, [])
    (0 < (bytesOf (QuicStream.read st.1 st.2.1 n).2.2).length ↔ Mem st.2.1.inset (pos st.2.1)) ∧
    (∀ x, 0 ≤ x → x < pos st.2.1 → Mem st.2.1.inset x) := by
  have h0 := fresh_HInv w c s h1 h2 h3 h4 ho
  obtain ⟨⟨spec, hri⟩, hpre, hopen, _, _⟩ := run_inv w ops hops _ h0
  have hfi := (run_fin w ops hops _ h0 (Or.inl h5)).1
  refine ⟨(read_more w _ _ spec n hri hpre hopen hfi hw).2.1 hn, fun x hx hx2 => hpre x hx ?_⟩
  have := hri.off
  unfold pos at hx2; omega

/-- non-vacuity: out-of-order, overlapping frames of `w = [10,11,12,13,14,15]` -/
example : FrameOf [10, 11, 12, 13, 14, 15] 3 [13, 14, 15] ∧ FrameOf [10, 11, 12, 13, 14, 15] 0 [10, 11, 12, 13] ∧
    FrameOf [10, 11, 12, 13, 14, 15] 2 [12] := by
  refine ⟨⟨by decide, by decide, ?_⟩, ⟨by decide, by decide, ?_⟩, ⟨by decide, by decide, ?_⟩⟩
  · intro i hi
    have : i = 0 ∨ i = 1 ∨ i = 2 := by simp at hi; omega
    rcases this with rfl | rfl | rfl <;> decide
  · intro i hi
    have : i = 0 ∨ i = 1 ∨ i = 2 ∨ i = 3 := by simp at hi; omega
    rcases this with rfl | rfl | rfl | rfl <;> decide
  · intro i hi
    have : i = 0 := by simp at hi; omega
    subst this; decide

end Bytes

/-! ### send side bookkeeping -/

/-- membership in a plain list of ranges (the acked set while it is being iterated) -/
def MemL (l : List Rg) (x : Int) : Prop := ∃ r ∈ l, r.s ≤ x ∧ x < r.e

/-- `for _, a := range s.outacked { s.outunsent.sub(a.start, a.end) }` removes exactly the acked offsets. -/
theorem foldl_sub_spec (acked : List Rg) : ∀ (u : RS), WF u → (∀ a ∈ acked, a.s < a.e) →
    WF (acked.foldl (fun u a => Rangeset.sub u a.s a.e) u) ∧
    ∀ x, Mem (acked.foldl (fun u a => Rangeset.sub u a.s a.e) u) x ↔ (Mem u x ∧ ¬ MemL acked x) := by
  induction acked with
  | nil => intro u hu _; simp [MemL]; exact hu
  | cons a rest ih =>
    intro u hu hne
    have ha : a.s < a.e := hne a (by simp)
    have hw := wf_sub u a.s a.e hu (by omega)
    have := ih (Rangeset.sub u a.s a.e) hw (fun r hr => hne r (by simp [hr]))
    simp only [List.foldl_cons]
    refine ⟨this.1, ?_⟩
    intro x
    rw [this.2 x, mem_sub u a.s a.e hu (by omega) x]
    unfold MemL
    constructor
    · rintro ⟨⟨h1, h2⟩, h3⟩
      refine ⟨h1, ?_⟩
      rintro ⟨r, hr, hx⟩
      cases hr with
      | head => exact h2 hx
      | tail _ hr' => exact h3 ⟨r, hr', hx⟩
    · rintro ⟨h1, h2⟩
      refine ⟨⟨h1, fun hx => h2 ⟨a, by simp, hx⟩⟩, fun ⟨r, hr, hx⟩ => h2 ⟨r, by simp [hr], hx⟩⟩

theorem wf_ranges_nonempty (l : RS) (h : WF l) : ∀ a ∈ l, a.s < a.e := by
  obtain ⟨b, hb⟩ := h
  intro a ha
  exact (NetVerif.Proofs.C24.chain_bound_of_mem hb ha).2

/-- **A lost STREAM frame's bytes return to `unsent`**, except for the ones acknowledged in the
meantime (e.g. through a retransmission): after `ackOrLossData(…, packetLost)` the unsent set is
`(unsent ∪ [start,end)) \ acked`, and the acked set is untouched. -/
theorem loss_returns_to_unsent (s : Stream) (pn st en : Int) (fin : Bool) (hse : st ≤ en)
    (hr : s.outreset.isSet = false) (hu : WF s.outunsent) (ha : WF s.outacked) :
    let s' := ackOrLossData s pn st en fin false
    s'.outacked = s.outacked ∧ WF s'.outunsent ∧
    ∀ x, Mem s'.outunsent x ↔ ((Mem s.outunsent x ∨ (st ≤ x ∧ x < en)) ∧ ¬ Mem s.outacked x) := by
  have hspec := foldl_sub_spec s.outacked (Rangeset.add s.outunsent st en) (wf_add _ _ _ hu hse)
    (wf_ranges_nonempty _ ha)
  unfold ackOrLossData
  simp only []
  cases fin <;> simp [hr] <;> refine ⟨hspec.1, ?_⟩ <;> intro x <;>
    rw [hspec.2 x, mem_add _ _ _ hu hse x] <;> rfl

/-- **An acknowledged range moves from `unsent` to `acked`**: acked' = acked ∪ [start,end),
unsent' = unsent \ [start,end). -/
theorem ack_moves_to_acked (s : Stream) (pn st en : Int) (fin : Bool) (hse : st ≤ en)
    (hr : s.outreset.isSet = false) (hu : WF s.outunsent) (ha : WF s.outacked) :
    let s' := ackOrLossData s pn st en fin true
    (∀ x, Mem s'.outacked x ↔ (Mem s.outacked x ∨ (st ≤ x ∧ x < en))) ∧
    (∀ x, Mem s'.outunsent x ↔ (Mem s.outunsent x ∧ ¬ (st ≤ x ∧ x < en))) := by
  have h1 := mem_add s.outacked st en ha hse
  have h2 := mem_sub s.outunsent st en hu hse
  unfold ackOrLossData
  simp only []
  cases fin <;> simp [hr] <;> (refine ⟨?_, ?_⟩ <;> intro x <;> (repeat' split) <;> simp_all)

/-- `Close` returns nil only under `allAcked`; with data written that means every byte of
`[0, out.end)` has been acknowledged and the FIN as well. -/
theorem allAcked_means_everything (s : Stream) (ha : WF s.outacked) (hpos : 0 < s.out.stop)
    (h : s.allAcked = true) :
    s.outclosed = .received ∧ ∀ x, Mem s.outacked x ↔ (0 ≤ x ∧ x < s.out.stop) := by
  unfold Stream.allAcked at h
  simp only [Bool.and_eq_true] at h
  refine ⟨?_, (NetVerif.Proofs.C24.isrange_iff s.outacked 0 s.out.stop ha hpos).1 h.2⟩
  cases hc : s.outclosed <;> simp_all [SV.isReceived]

/-- A frame sent by the STREAM loop is removed from `unsent` (it is now in flight). -/
theorem flushLocked_adds (s : Stream) (hu : WF s.outunsent) (hfl : s.outflushed ≤ s.out.stop)
    (hb : s.outbuf = 0 ∧ s.outbufoff = 0) :
    ∀ x, Mem (flushLocked s).outunsent x ↔
      (Mem s.outunsent x ∨ (s.outflushed ≤ x ∧ x < imin s.outwin s.out.stop ∧ s.outflushed < s.outwin)) := by
  intro x
  unfold flushLocked flushFast
  simp only [hb, and_self, if_true]
  by_cases h1 : s.outflushed < s.outwin
  · simp only [h1, if_true]
    have hle : s.outflushed ≤ (if s.outwin ≤ s.out.stop then s.outwin else s.out.stop) := by split <;> omega
    rw [mem_add _ _ _ hu hle x]
    unfold imin
    constructor
    · rintro (h | h)
      · left; exact h
      · right; simp only [h1, and_true]; exact ⟨h.1, h.2⟩
    · rintro (h | h)
      · left; exact h
      · right; exact ⟨h.1, h.2.1⟩
  · simp only [h1, if_false]
    constructor
    · intro h; left; exact h
    · rintro (h | h)
      · exact h
      · simp [h1] at h

/-! ### the FIN is recorded as sent only when it is on the wire (repaired code) -/

/-- `appendStreamFrame` sets the FIN bit only on an untruncated frame for which FIN was requested. -/
theorem streamFrameFit_fin (a id off size : Int) (fin : Bool) (n : Int)
    (h : streamFrameFit a id off size fin = some (n, true)) : n = size ∧ fin = true := by
  unfold streamFrameFit at h
  simp only [] at h
  generalize (if off ≠ 0 then szv off else 0) = o at h
  by_cases h1 : (a - 1 - szv id - o - szv size < 0 ∨ (a - 1 - szv id - o - szv size = 0 ∧ size > 0))
  · rw [if_pos h1] at h; exact absurd h (by simp)
  · rw [if_neg h1] at h
    by_cases h2 : a - 1 - szv id - o - szv size < size
    · rw [if_pos h2] at h; simp at h
    · rw [if_neg h2] at h; simp only [Option.some.injEq, Prod.mk.injEq] at h; exact ⟨h.1.symm, h.2⟩

/-- **No phantom FIN**: an iteration of the STREAM loop moves `outclosed` to "sent in packet pn" only
when the frame it just wrote carries the FIN bit (the same bit the packet's `sentPacket` record keeps,
so the fate of that packet reaches `outclosed.ackOrLoss`); a truncated frame — e.g. a PTO probe that did
not fit — leaves `outclosed` alone, so a FIN lost earlier is still reported lost and sent again. -/
theorem markFin_spec (s : Stream) (wireFin : Bool) (pn : Int) :
    (wireFin = false → markFin s wireFin pn = s) ∧
    (wireFin = true → (markFin s wireFin pn).outclosed = .sent pn) ∧
    (markFin s wireFin pn).outunsent = s.outunsent ∧ (markFin s wireFin pn).outacked = s.outacked := by
  unfold markFin; cases wireFin <;> simp

/-- … and the loss of the packet that carried the FIN puts the FIN back to "unsent" exactly when that
packet is the one recorded. -/
theorem fin_loss_rescheduled (s : Stream) (pn st en : Int) (h : s.outclosed = .sent pn) :
    (ackOrLossData s pn st en true false).outclosed = .unsent := by
  unfold ackOrLossData
  simp only [h, SV.ackOrLoss]
  by_cases hr : s.outreset.isSet = true <;> simp [hr]

/-! ### PTO back-off after the handshake (repaired code; not D-tied, witnessed by the net tie) -/

/-- `ptoPeriod = ptoBasePeriod << ptoBackoffCount` (loss.go), in milliseconds. -/
def ptoPeriodMs (baseMs backoff : Nat) : Nat := baseMs * 2 ^ backoff

/-- the events that move `ptoBackoffCount`: a PTO expiry, an ACK that resets it (any Handshake / 1-RTT
ACK; a client ignores Initial ACKs), and — repaired code, RFC 9002 §6.2.2 / A.4 — discarding the keys of
a packet number space. -/
inductive PtoEv where | expired | ackReset | ackIgnored | keysDiscarded
deriving DecidableEq, Repr

def ptoStep (k : Nat) : PtoEv → Nat
  | .expired => k + 1
  | .ackReset => 0
  | .ackIgnored => k
  | .keysDiscarded => 0

/-- Whatever happened during the handshake, once the Handshake keys are discarded (handshake confirmed)
the first application-data probe timeout is the base period again. -/
theorem pto_backoff_reset_on_key_discard (evs : List PtoEv) (k0 baseMs : Nat) :
    ptoPeriodMs baseMs (ptoStep (evs.foldl ptoStep k0) .keysDiscarded) = baseMs := by
  simp [ptoStep, ptoPeriodMs]

/-- The old behaviour (no reset): 13 unanswered client probes during a lossy handshake and a 26 ms base
period put the first 1-RTT probe 213 s away, far beyond the 30 s default idle timeout. -/
example : ptoPeriodMs 26 ((List.replicate 13 PtoEv.expired).foldl ptoStep 0) = 212992 := by decide

/-! ### monitor -/
section Monitor
open NetVerif.Model.QuicMonitor

theorem written_append (h : List Ev) (e : Ev) (s : Nat) (id : Int) :
    written (h ++ [e]) s id = written h s id ++ written [e] s id := by
  unfold written
  induction h with
  | nil => simp
  | cons a rest ih =>
    simp only [List.cons_append, List.foldr_cons]
    rw [ih]
    cases a <;> simp
    split <;> simp

theorem readBytes_append (h : List Ev) (e : Ev) (s : Nat) (id : Int) :
    readBytes (h ++ [e]) s id = readBytes h s id ++ readBytes [e] s id := by
  unfold readBytes
  induction h with
  | nil => simp
  | cons a rest ih =>
    simp only [List.cons_append, List.foldr_cons]
    rw [ih]
    cases a <;> simp
    split <;> simp

/-- the invariant: what was read is a prefix of what the peer wrote -/
def PrefixInv (h : List Ev) : Prop := ∀ s id, readBytes h s id <+: written h (peer s) id

theorem prefix_extend (rb w b : List Nat) (hp : rb <+: w) (hb : (w.drop rb.length).take b.length = b) :
    rb ++ b <+: w := by
  obtain ⟨t, ht⟩ := hp
  subst ht
  simp at hb
  refine ⟨t.drop b.length, ?_⟩
  rw [List.append_assoc]
  congr 1
  conv => rhs; rw [← List.take_append_drop b.length t]
  rw [hb]

theorem step_preserves (h : List Ev) (e : Ev) (hi : PrefixInv h) (hk : okEv 19 h e = true) :
    PrefixInv (h ++ [e]) := by
  intro s id
  rw [readBytes_append, written_append]
  have hp := hi s id
  cases e with
  | read s' id' b =>
    by_cases hc : s' = s ∧ id' = id
    · obtain ⟨rfl, rfl⟩ := hc
      have hw : written [Ev.read s' id' b] (peer s') id' = [] := by simp [written]
      have hr : readBytes [Ev.read s' id' b] s' id' = b := by simp [readBytes]
      rw [hw, hr, List.append_nil]
      simp only [okEv] at hk
      simp at hk
      exact prefix_extend _ _ _ hp hk
    · have hr : readBytes [Ev.read s' id' b] s id = [] := by simp [readBytes, hc]
      have hw : written [Ev.read s' id' b] (peer s) id = [] := by simp [written]
      rw [hw, hr, List.append_nil, List.append_nil]; exact hp
  | write s' id' b =>
    have hr : readBytes [Ev.write s' id' b] s id = [] := by simp [readBytes]
    rw [hr, List.append_nil]
    exact List.IsPrefix.trans hp (List.prefix_append _ _)
  | _ => simpa [readBytes, written] using hp

theorem run_preserves (tr : List Ev) : ∀ (h h' : List Ev), PrefixInv h → run 19 h tr = some h' → PrefixInv h' := by
  induction tr with
  | nil => intro h h' hi hr; simp [run] at hr; subst hr; exact hi
  | cons e rest ih =>
    intro h h' hi hr
    unfold run at hr
    by_cases hk : okEv 19 h e = true
    · simp only [hk, if_true] at hr
      exact ih _ _ (step_preserves h e hi hk) hr
    · simp [hk] at hr

theorem run_history (tr : List Ev) : ∀ (h h' : List Ev), run 19 h tr = some h' → h' = h ++ tr := by
  induction tr with
  | nil => intro h h' hr; simp [run] at hr; simp [hr]
  | cons e rest ih =>
    intro h h' hr
    unfold run at hr
    by_cases hk : okEv 19 h e = true
    · simp only [hk, if_true] at hr
      rw [ih _ _ hr]; simp
    · simp [hk] at hr

theorem accepts_prefix (tr pre suf : List Ev) (heq : tr = pre ++ suf) (h : accepts 19 tr = true) :
    accepts 19 pre = true := by
  rw [NetVerif.Proofs.Lemmas.QuicMonitor.accepts_iff] at h ⊢
  intro p e sf hp
  exact h p e (sf ++ suf) (by rw [heq, hp]; simp)

/-- **In-order delivery without duplication**: on every trace the C19 monitor accepts, and at every
moment of it, the concatenation of the `Read` results of a stream is a prefix of the bytes the peer
has written to it so far — for every network behaviour (the trace constrains nothing about arrival
order, loss or duplication). -/
theorem monitor_reads_prefix_of_writes (tr pre suf : List Ev) (heq : tr = pre ++ suf)
    (h : accepts 19 tr = true) (s : Nat) (id : Int) :
    readBytes pre s id <+: written pre (peer s) id := by
  have hp := accepts_prefix tr pre suf heq h
  unfold accepts at hp
  cases hr : run 19 [] pre with
  | none => simp [hr] at hp
  | some h' =>
    have hinv := run_preserves pre [] h' (by intro s id; simp [readBytes, written]) hr
    have := run_history pre [] h' hr
    simp at this
    subst this
    exact hinv s id

/-- **EOF, Close and quiescence clauses** of an accepted trace: EOF only after the writer closed and
with exactly `|W|` bytes read; `Close` returned nil only after the peer had received every byte of
`[0,|W|)` and a FIN; when the harness declares the network quiescent every cleanly closed stream
(not reset, reader did not stop) has been read completely and ended with EOF; STREAM frames carry only
bytes that were written, and FIN only at `|W|` after the close. -/
theorem monitor_sound (tr : List Ev) (h : accepts 19 tr = true) :
    (∀ pre suf s id, tr = pre ++ .eof s id :: suf →
        wclosed pre (peer s) id = true ∧ (readBytes pre s id).length = (written pre (peer s) id).length) ∧
    (∀ pre suf s id, tr = pre ++ .closeok s id :: suf →
        wclosed pre s id = true ∧ rxFin pre (peer s) id = true ∧
        ((written pre s id).length = 0 ∨
          Rangeset.isrange (rxSet pre (peer s) id) 0 (written pre s id).length = true)) ∧
    (∀ pre suf, tr = pre ++ .fin :: suf → deliveredAll pre 0 = true ∧ deliveredAll pre 1 = true) ∧
    (∀ pre suf s id (off len : Int) fin, tr = pre ++ .txStream s id off len fin :: suf →
        off + len ≤ (written pre s id).length ∧
        (fin = true → wclosed pre s id = true ∧ off + len = (written pre s id).length)) := by
  have hall := (NetVerif.Proofs.Lemmas.QuicMonitor.accepts_iff 19 tr).1 h
  refine ⟨?_, ?_, ?_, ?_⟩
  · intro pre suf s id heq
    have := hall pre _ suf heq
    simp only [okEv] at this
    simpa using this
  · intro pre suf s id heq
    have := hall pre _ suf heq
    simp only [okEv] at this
    simp at this
    exact ⟨this.1.1, this.1.2, this.2.imp (fun h => by simp [h]) (fun h => h)⟩
  · intro pre suf heq
    have := hall pre _ suf heq
    simp only [okEv] at this
    simpa using this
  · intro pre suf s id off len fin heq
    have := hall pre _ suf heq
    simp only [okEv] at this
    simp at this
    obtain ⟨_, h1, h2⟩ := this
    refine ⟨h1, ?_⟩
    intro hf
    rcases h2 with h2 | h2
    · simp [hf] at h2
    · exact h2

/-- non-vacuity: a complete little transfer with a retransmission is accepted … -/
example : accepts 19
    [.init 0 100 50, .init 1 100 50, .write 0 2 [7, 8, 9], .wclose 0 2, .txStream 0 2 0 3 true,
     .txStream 0 2 0 3 true, .rxStream 1 2 0 3 true, .read 1 2 [7, 8], .read 1 2 [9], .eof 1 2,
     .closeok 0 2, .fin] = true := by decide
/-- … a reordered or duplicated byte at the reader is not. -/
example : accepts 19 [.write 0 2 [7, 8, 9], .read 1 2 [8]] = false := by decide
example : accepts 19 [.write 0 2 [7, 8, 9], .read 1 2 [7], .read 1 2 [7]] = false := by decide
example : accepts 19 [.write 0 2 [7], .wclose 0 2, .eof 1 2] = false := by decide

end Monitor

end NetVerif.Proofs.C19
