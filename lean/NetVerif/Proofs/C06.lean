import NetVerif.Proofs.Lemmas.H2Frame
import NetVerif.Gen.C06
/-!
C06 — HTTP/2 Framer: every frame produced by a `Framer.Write*` method with
arguments the method accepts is read back by `Framer.ReadFrame` as the same
frame type with the same flags, stream ID and payload fields, padding removed.

`ReadsBack bs last last' f` says: a Framer whose HEADERS/CONTINUATION state is
`last` and whose read limit admits the frame, reading from `bs ++ rest`, returns
exactly `f` (whose header is the written header), moves to state `last'` and
leaves exactly `rest` in the reader. One theorem per Write method; all
arguments are universally quantified, the only hypotheses are the ranges of
the Go parameter types (uint8/uint32) and, where the Go method does not
validate it, the 31-bit stream id range of the property's quantifier.
-/
set_option linter.unusedSimpArgs false
namespace NetVerif.Proofs.C06
open NetVerif NetVerif.Model.H2Frame NetVerif.Proofs.H2FrameLemmas

/-! ### T-tie: constants, dispatch table, stream-id predicates -/

/-- every constant the model uses has the value currently in the Go source; the lists are
complete (a new frame type / flag / setting / error code changes the left-hand side). -/
theorem gen_constants_eq :
    Gen.C06.allFrameType = [("FrameData", frameData), ("FrameHeaders", frameHeaders),
      ("FramePriority", framePriority), ("FrameRSTStream", frameRSTStream),
      ("FrameSettings", frameSettings), ("FramePushPromise", framePushPromise),
      ("FramePing", framePing), ("FrameGoAway", frameGoAway),
      ("FrameWindowUpdate", frameWindowUpdate), ("FrameContinuation", frameContinuation),
      ("FramePriorityUpdate", framePriorityUpdate)] ∧
    Gen.C06.allFlags = [("FlagDataEndStream", flagEndStream), ("FlagDataPadded", flagPadded),
      ("FlagHeadersEndStream", flagEndStream), ("FlagHeadersEndHeaders", flagEndHeaders),
      ("FlagHeadersPadded", flagPadded), ("FlagHeadersPriority", flagPriority),
      ("FlagSettingsAck", flagAck), ("FlagPingAck", flagAck),
      ("FlagContinuationEndHeaders", flagEndHeaders), ("FlagPushPromiseEndHeaders", flagEndHeaders),
      ("FlagPushPromisePadded", flagPadded)] ∧
    Gen.C06.settingInitialWindowSize = settingInitialWindowSize ∧
    Gen.C06.errCodeProtocol = errCodeProtocol ∧ Gen.C06.errCodeFlowControl = errCodeFlowControl ∧
    Gen.C06.errCodeFrameSize = errCodeFrameSize ∧ Gen.C06.errCodeCompression = errCodeCompression ∧
    Gen.C06.frameHeaderLen = frameHeaderLen ∧ Gen.C06.maxFrameSize = maxFrameSize := by decide

/-- T-fact on the reader's state: the receiver fields the read-path methods of `Framer` assign are
exactly these. `lastHeaderStream` is the model's `Framer.lastHeaderStream`; `errDetail` (error text),
`lastFrame` (frame invalidation) and `lastFrameType` (used only in an error message) do not influence
what a later `ReadFrame` returns and are not modelled. A new field written on the read path — e.g. a
counter that accumulates over the Framer's lifetime — changes the regenerated list and breaks this
theorem until the model accounts for it. -/
theorem gen_reader_state_eq :
    Gen.C06.readerWrittenFields =
      [("ReadFrameHeader", ["errDetail"]), ("ReadFrameForHeader", ["lastFrame"]), ("ReadFrame", []),
       ("checkFrameOrder", ["lastFrameType", "lastHeaderStream"]), ("connError", ["errDetail"]),
       ("readMetaFrame", ["errDetail"])] := by decide

/-- the dispatch of `parseFrame` is the Go table `frameParsers` (absent ⇒ `parseUnknownFrame`). -/
theorem gen_frameParsers_eq :
    Gen.C06.frameParsers = [(frameData, "parseDataFrame"), (frameHeaders, "parseHeadersFrame"),
      (framePriority, "parsePriorityFrame"), (frameRSTStream, "parseRSTStreamFrame"),
      (frameSettings, "parseSettingsFrame"), (framePushPromise, "parsePushPromise"),
      (framePing, "parsePingFrame"), (frameGoAway, "parseGoAwayFrame"),
      (frameWindowUpdate, "parseWindowUpdateFrame"), (frameContinuation, "parseContinuationFrame"),
      (framePriorityUpdate, "parsePriorityUpdateFrame")] := by decide

private theorem and_bit31 (s : Nat) : s &&& 2147483648 = 0 ↔ s / 2147483648 % 2 = 0 := by
  have h2 : s.testBit 31 = decide (s / 2147483648 % 2 = 1) := Nat.testBit_eq_decide_div_mod_eq
  constructor
  · intro h
    have h3 : (s &&& 2^31).testBit 31 = false := by
      rw [show (2:Nat)^31 = 2147483648 from rfl, h]; simp
    rw [Nat.testBit_and, Nat.testBit_two_pow] at h3
    simp [h2] at h3; omega
  · intro h
    apply Nat.eq_of_testBit_eq
    intro i
    rw [show (2147483648:Nat) = 2^31 from rfl, Nat.testBit_and, Nat.testBit_two_pow]
    by_cases hi : 31 = i
    · subst hi
      have : s.testBit 31 = false := by rw [h2]; simp; omega
      simp [this]
    · simp [hi]

/-- `validStreamID` / `validStreamIDOrZero` as translated from the Go source equal the model's
(on uint32 arguments). -/
theorem gen_validStreamID_eq (s : Nat) (h : s < 4294967296) :
    Gen.C06.validStreamID s = some (validStreamID s) ∧
    Gen.C06.validStreamIDOrZero s = some (validStreamIDOrZero s) := by
  have hb := and_bit31 s
  have hlt : s / 2147483648 % 2 = 0 ↔ s < 2147483648 := by omega
  unfold Gen.C06.validStreamID Gen.C06.validStreamIDOrZero validStreamID validStreamIDOrZero
  simp only [Nat.one_mul, hb, hlt]
  by_cases h0 : s = 0 <;> by_cases h1 : s < 2147483648 <;> simp [h0, h1]

/-- `Flags.Has(v)` (`f&v == v`) is the bit test of the model for the single-bit flags used. -/
theorem hasFlag_eq_and : ∀ f, f < 256 → ∀ v ∈ [flagEndStream, flagEndHeaders, flagPadded, flagPriority],
    hasFlag f v = ((f &&& v) == v) := by decide +kernel

/-! ### Round trip -/

def ReadsBack (bs : List Nat) (last last' : Nat) (f : Frame) : Prop :=
  ∀ (fr : Framer) (rest : List Nat), fr.lastHeaderStream = last → bs.length ≤ fr.maxReadSize + 9 →
    readFrame fr (bs ++ rest) = ⟨.ok f, some f.header, { fr with lastHeaderStream := last' }, rest⟩

/-- the default Framer (`NewFramer`: limit 2^24-1, no pending header block) admits every
frame any Write method can produce. -/
theorem newFramer_admits {t fl sid : Nat} {payload bs : List Nat}
    (hw : frameBytes t fl sid payload = .ok bs) :
    newFramer.lastHeaderStream = 0 ∧ bs.length ≤ newFramer.maxReadSize + 9 := by
  obtain ⟨h, rfl⟩ := frameBytes_ok hw
  simp [newFramer, maxFrameSize]; omega

private theorem readsBack_of {t fl sid : Nat} {payload bs : List Nat} {last last' : Nat} {f : Frame}
    (hw : frameBytes t fl sid payload = .ok bs) (hsid : sid < 2147483648)
    (hord : checkFrameOrder last ⟨payload.length, t, fl, sid⟩ = .ok last')
    (hp : parseFrame ⟨payload.length, t, fl, sid⟩ payload = .ok f)
    (hh : f.header = ⟨payload.length, t, fl, sid⟩) : ReadsBack bs last last' f := by
  intro fr rest hl hmax
  have hb := (frameBytes_ok hw).2
  have hlen : bs.length = payload.length + 9 := by rw [hb]; simp
  subst hl
  rw [readFrame_frameBytes fr t fl sid payload rest bs hsid hw (by omega) last' hord, hp, hh]

private theorem frameBytes_length {t fl sid : Nat} {payload bs : List Nat}
    (hw : frameBytes t fl sid payload = .ok bs) : payload.length = bs.length - 9 := by
  rw [(frameBytes_ok hw).2]; simp

private theorem readPrio_prioBytes (p : PriorityParam) (rest : List Nat) (h : p.streamDep < 2147483648) :
    readPrio (prioBytes p ++ rest) = .ok (rest, p) := by
  obtain ⟨dep, excl, w⟩ := p
  simp only at h
  have hv : dep + b2n excl 2147483648 < 4294967296 := by cases excl <;> simp [b2n] <;> omega
  simp only [prioBytes, be32, List.cons_append, List.nil_append, readPrio, rd32_be32 _ hv]
  cases excl <;> simp [b2n] <;> omega

private theorem isZero_iff (p : PriorityParam) : p.isZero = true ↔ p = {} := by
  obtain ⟨dep, excl, w⟩ := p
  simp [PriorityParam.isZero, and_assoc]

private theorem take_frag (frag : List Nat) (n : Nat) :
    (frag ++ List.replicate n 0).take ((frag ++ List.replicate n 0).length - n) = frag := by
  have : (frag ++ List.replicate n 0).length - n = frag.length := by simp
  rw [this]; simp

private theorem validSid {sid : Nat} (h : ¬ (!validStreamID sid) = true) : sid ≠ 0 ∧ sid < 2147483648 := by
  simpa [validStreamID] using h

/-- DATA (`WriteData` = `pad = none`, `WriteDataPadded`). -/
theorem data_roundtrip (sid : Nat) (es : Bool) (data : List Nat) (pad : Option (List Nat)) (bs : List Nat)
    (hw : writeData sid es data pad = .ok bs) :
    ReadsBack bs 0 0 (.data ⟨bs.length - 9, frameData,
      b2n es flagEndStream + b2n pad.isSome flagPadded, sid⟩ data) := by
  unfold writeData at hw
  split at hw
  · cases hw
  rename_i hv
  have hsid := validSid hv
  cases pad with
  | none =>
    simp only at hw
    rw [← frameBytes_length hw]
    refine readsBack_of hw hsid.2 (by simp [checkFrameOrder, frameData, frameContinuation, frameHeaders]) ?_ rfl
    cases es <;> simp [parseFrame, parseData, frameData, hsid.1, hasFlag, b2n, flagEndStream, flagPadded]
  | some p =>
    simp only at hw
    split at hw
    · cases hw
    split at hw
    · cases hw
    rw [← frameBytes_length hw]
    refine readsBack_of hw hsid.2 (by simp [checkFrameOrder, frameData, frameContinuation, frameHeaders]) ?_ ?_
    · cases es <;> simp [parseFrame, parseData, frameData, hsid.1, hasFlag, b2n, flagEndStream, flagPadded]
    · simp [Frame.header, b2n]

/-- the flags `WriteHeaders` sets. -/
def headersFlags (es eh : Bool) (padLen : Nat) (prio : PriorityParam) : Nat :=
  b2n (padLen != 0) flagPadded + b2n es flagEndStream + b2n eh flagEndHeaders + b2n (!prio.isZero) flagPriority

/-- HEADERS with every combination of END_STREAM / END_HEADERS / padding / priority. The Framer
afterwards expects a CONTINUATION on `sid` iff END_HEADERS was not set. -/
theorem headers_roundtrip (sid : Nat) (frag : List Nat) (es eh : Bool) (padLen : Nat) (prio : PriorityParam)
    (bs : List Nat) (hw : writeHeaders sid frag es eh padLen prio = .ok bs) :
    ReadsBack bs 0 (if eh then 0 else sid)
      (.headers ⟨bs.length - 9, frameHeaders, headersFlags es eh padLen prio, sid⟩ prio frag) := by
  unfold writeHeaders at hw
  split at hw
  · cases hw
  rename_i hv
  have hsid := validSid hv
  split at hw
  · cases hw
  rename_i hdep
  rw [← frameBytes_length hw]
  refine readsBack_of hw hsid.2 ?_ ?_ rfl
  · cases eh <;> by_cases hp : padLen = 0 <;> cases es <;> cases hz : prio.isZero <;>
      simp [checkFrameOrder, frameHeaders, frameContinuation, hasFlag, b2n, hp, hz, flagPadded,
        flagEndStream, flagEndHeaders, flagPriority]
  · cases hz : prio.isZero
    · -- priority present
      have hd : prio.streamDep < 2147483648 := by
        simpa [hz, validStreamIDOrZero] using hdep
      by_cases hp : padLen = 0
      · cases eh <;> cases es <;>
          simp [parseFrame, parseHeaders, frameHeaders, frameData, hsid.1, hasFlag, b2n, hp, hz, flagPadded,
            flagEndStream, flagEndHeaders, flagPriority, headersFlags, List.append_assoc,
            readPrio_prioBytes prio _ hd]
      · cases eh <;> cases es <;>
          simp [parseFrame, parseHeaders, frameHeaders, frameData, hsid.1, hasFlag, b2n, hp, hz, flagPadded,
            flagEndStream, flagEndHeaders, flagPriority, headersFlags, List.append_assoc,
            readPrio_prioBytes prio _ hd, take_frag]
    · have hz' : prio = {} := (isZero_iff prio).1 hz
      subst hz'
      by_cases hp : padLen = 0
      · cases eh <;> cases es <;>
          simp [parseFrame, parseHeaders, frameHeaders, frameData, hsid.1, hasFlag, b2n, hp, hz, flagPadded,
            flagEndStream, flagEndHeaders, flagPriority, headersFlags, PriorityParam.isZero]
      · cases eh <;> cases es <;>
          simp [parseFrame, parseHeaders, frameHeaders, frameData, hsid.1, hasFlag, b2n, hp, hz, flagPadded,
            flagEndStream, flagEndHeaders, flagPriority, headersFlags, PriorityParam.isZero, take_frag]

private theorem order_plain {len t fl sid : Nat} (h1 : t ≠ frameHeaders)
    (h9 : t ≠ frameContinuation) : checkFrameOrder 0 ⟨len, t, fl, sid⟩ = .ok 0 := by
  simp [checkFrameOrder, h1, h9]

/-- PRIORITY. -/
theorem priority_roundtrip (sid : Nat) (p : PriorityParam) (bs : List Nat)
    (hw : writePriority sid p = .ok bs) :
    ReadsBack bs 0 0 (.priority ⟨5, framePriority, 0, sid⟩ p) := by
  unfold writePriority at hw
  split at hw
  · cases hw
  rename_i hv
  have hsid := validSid hv
  split at hw
  · cases hw
  rename_i hdep
  have hd : p.streamDep < 2147483648 := by simpa [validStreamIDOrZero] using hdep
  refine readsBack_of hw hsid.2 (order_plain (by decide) (by decide)) ?_ rfl
  obtain ⟨dep, excl, w⟩ := p
  simp only at hd
  have hv2 : dep + b2n excl 2147483648 < 4294967296 := by cases excl <;> simp [b2n] <;> omega
  simp only [prioBytes, be32, List.cons_append, List.nil_append, parseFrame, parsePriority, framePriority,
    frameData, frameHeaders, rd32_be32 _ hv2]
  cases excl <;> simp [b2n, hsid.1] <;> omega

/-- RST_STREAM (`code` is a uint32). -/
theorem rstStream_roundtrip (sid code : Nat) (bs : List Nat) (hc : code < 4294967296)
    (hw : writeRSTStream sid code = .ok bs) :
    ReadsBack bs 0 0 (.rstStream ⟨4, frameRSTStream, 0, sid⟩ code) := by
  unfold writeRSTStream at hw
  split at hw
  · cases hw
  rename_i hv
  have hsid := validSid hv
  refine readsBack_of hw hsid.2 (order_plain (by decide) (by decide)) ?_ rfl
  simp [be32, parseFrame, parseRSTStream, frameRSTStream, frameData, frameHeaders, framePriority,
    rd32_be32 _ hc, hsid.1]

/-- PING (`data` is the `[8]byte` argument). -/
theorem ping_roundtrip (ack : Bool) (data bs : List Nat) (hd : data.length = 8)
    (hw : writePing ack data = .ok bs) :
    ReadsBack bs 0 0 (.ping ⟨8, framePing, b2n ack flagAck, 0⟩ data) := by
  unfold writePing at hw
  have hl : data.length = 8 := hd
  refine readsBack_of (payload := data) hw (by decide) (order_plain (by decide) (by decide)) ?_ ?_
  · simp [parseFrame, parsePing, framePing, frameData, frameHeaders, framePriority, frameRSTStream,
      frameSettings, framePushPromise, hl]
  · simp [Frame.header, hl]

/-- GOAWAY (`code` is a uint32; the last-stream-id is masked to 31 bits by the writer, so for
a 31-bit `maxSid` the field read back is `maxSid` itself). -/
theorem goAway_roundtrip (maxSid code : Nat) (debug bs : List Nat) (hc : code < 4294967296)
    (hw : writeGoAway maxSid code debug = .ok bs) :
    ReadsBack bs 0 0 (.goAway ⟨bs.length - 9, frameGoAway, 0, 0⟩ (maxSid % 2147483648) code debug) := by
  unfold writeGoAway at hw
  rw [← frameBytes_length hw]
  refine readsBack_of hw (by decide) (order_plain (by decide) (by decide)) ?_ rfl
  have hm : maxSid % 2147483648 < 4294967296 := by omega
  simp only [be32, List.cons_append, List.nil_append, parseFrame, parseGoAway, frameGoAway, frameData, frameHeaders,
    framePriority, frameRSTStream, frameSettings, framePushPromise, framePing, rd32_be32 _ hc, rd32_be32 _ hm]
  simp

theorem goAway_roundtrip_31bit (maxSid : Nat) (h : maxSid < 2147483648) : maxSid % 2147483648 = maxSid := by
  omega

/-- WINDOW_UPDATE. The Go method does not validate the stream id, so the 31-bit range of the
property's quantifier is a hypothesis here. -/
theorem windowUpdate_roundtrip (sid incr : Nat) (bs : List Nat) (hsid : sid < 2147483648)
    (hw : writeWindowUpdate sid incr = .ok bs) :
    ReadsBack bs 0 0 (.windowUpdate ⟨4, frameWindowUpdate, 0, sid⟩ incr) := by
  unfold writeWindowUpdate at hw
  split at hw
  · cases hw
  rename_i hi
  have hi' : 1 ≤ incr ∧ incr ≤ 2147483647 := by
    simp at hi; omega
  refine readsBack_of hw hsid (order_plain (by decide) (by decide)) ?_ rfl
  have hm : incr < 4294967296 := by omega
  simp only [be32, parseFrame, parseWindowUpdate, frameWindowUpdate, frameGoAway, frameData, frameHeaders,
    framePriority, frameRSTStream, frameSettings, framePushPromise, framePing, rd32_be32 _ hm]
  have h1 : incr % 2147483648 = incr := by omega
  have h2 : incr ≠ 0 := by omega
  simp [h1, h2]

/-- CONTINUATION: admitted by a Framer that is in the middle of `sid`'s header block. -/
theorem continuation_roundtrip (sid : Nat) (eh : Bool) (frag bs : List Nat)
    (hw : writeContinuation sid eh frag = .ok bs) :
    ReadsBack bs sid (if eh then 0 else sid)
      (.continuation ⟨bs.length - 9, frameContinuation, b2n eh flagEndHeaders, sid⟩ frag) := by
  unfold writeContinuation at hw
  split at hw
  · cases hw
  rename_i hv
  have hsid := validSid hv
  rw [← frameBytes_length hw]
  refine readsBack_of hw hsid.2 ?_ ?_ rfl
  · cases eh <;> simp [checkFrameOrder, frameContinuation, frameHeaders, hasFlag, b2n, flagEndHeaders, hsid.1]
  · simp [parseFrame, parseContinuation, frameContinuation, frameWindowUpdate, frameGoAway, frameData, frameHeaders,
      framePriority, frameRSTStream, frameSettings, framePushPromise, framePing, hsid.1]

/-- PUSH_PROMISE with/without padding and END_HEADERS. -/
theorem pushPromise_roundtrip (sid promiseID : Nat) (frag : List Nat) (eh : Bool) (padLen : Nat) (bs : List Nat)
    (hw : writePushPromise sid promiseID frag eh padLen = .ok bs) :
    ReadsBack bs 0 0 (.pushPromise ⟨bs.length - 9, framePushPromise,
      b2n (padLen != 0) flagPadded + b2n eh flagEndHeaders, sid⟩ promiseID frag) := by
  unfold writePushPromise at hw
  split at hw
  · cases hw
  rename_i hv
  have hsid := validSid hv
  split at hw
  · cases hw
  rename_i hv2
  have hpid := validSid hv2
  rw [← frameBytes_length hw]
  refine readsBack_of hw hsid.2 (order_plain (by decide) (by decide)) ?_ rfl
  have hm : promiseID < 4294967296 := by omega
  have h1 : promiseID % 2147483648 = promiseID := by omega
  by_cases hp : padLen = 0
  · cases eh <;>
      simp [parseFrame, parsePushPromise, framePushPromise, frameData, frameHeaders, framePriority, frameRSTStream,
        frameSettings, hsid.1, hasFlag, b2n, hp, flagPadded, flagEndHeaders, be32, rd32_be32 _ hm, h1]
  · cases eh <;>
      simp [parseFrame, parsePushPromise, framePushPromise, frameData, frameHeaders, framePriority, frameRSTStream,
        frameSettings, hsid.1, hasFlag, b2n, hp, flagPadded, flagEndHeaders, be32, rd32_be32 _ hm, h1, take_frag]

/-- PRIORITY_UPDATE (stream 0 frame carrying the prioritized stream id and the field value). -/
theorem priorityUpdate_roundtrip (sid : Nat) (priority bs : List Nat)
    (hw : writePriorityUpdate sid priority = .ok bs) :
    ReadsBack bs 0 0 (.priorityUpdate ⟨bs.length - 9, framePriorityUpdate, 0, 0⟩ sid priority) := by
  unfold writePriorityUpdate at hw
  split at hw
  · cases hw
  rename_i hv
  have hsid := validSid hv
  rw [← frameBytes_length hw]
  refine readsBack_of hw (by decide) (order_plain (by decide) (by decide)) ?_ rfl
  have hm : sid < 4294967296 := by omega
  have h1 : sid % 2147483648 = sid := by omega
  simp [parseFrame, parsePriorityUpdate, framePriorityUpdate, frameContinuation, frameWindowUpdate, frameGoAway,
    frameData, frameHeaders, framePriority, frameRSTStream, frameSettings, framePushPromise, framePing,
    be32, rd32_be32 _ hm, h1, hsid.1]

/-- SETTINGS ACK. -/
theorem settingsAck_roundtrip (bs : List Nat) (hw : writeSettingsAck = .ok bs) :
    ReadsBack bs 0 0 (.settings ⟨0, frameSettings, flagAck, 0⟩ []) := by
  unfold writeSettingsAck at hw
  refine readsBack_of (payload := []) hw (by decide) (order_plain (by decide) (by decide)) ?_ rfl
  simp [parseFrame, parseSettings, frameSettings, frameData, frameHeaders, framePriority, frameRSTStream,
    hasFlag, flagAck, settingsOf, settingsValue]

/-- Raw frame of a type this package has no parser for: read back as `UnknownFrame` with the
same type, flags, stream id and payload. -/
theorem raw_roundtrip_unknown (t fl sid : Nat) (payload bs : List Nat) (hsid : sid < 2147483648)
    (ht : ∀ p ∈ Gen.C06.frameParsers, p.1 ≠ t)
    (hw : writeRawFrame t fl sid payload = .ok bs) :
    ReadsBack bs 0 0 (.unknown ⟨bs.length - 9, t, fl, sid⟩ payload) := by
  unfold writeRawFrame at hw
  rw [← frameBytes_length hw]
  simp [Gen.C06.frameParsers] at ht
  obtain ⟨h0, h1, h2, h3, h4, h5, h6, h7, h8, h9, h16⟩ := ht
  refine readsBack_of hw hsid (order_plain (by simp [frameHeaders]; omega) (by simp [frameContinuation]; omega)) ?_ rfl
  simp [parseFrame, framePriorityUpdate, frameContinuation, frameWindowUpdate, frameGoAway,
    frameData, frameHeaders, framePriority, frameRSTStream, frameSettings, framePushPromise, framePing,
    Ne.symm h0, Ne.symm h1, Ne.symm h2, Ne.symm h3, Ne.symm h4, Ne.symm h5, Ne.symm h6, Ne.symm h7, Ne.symm h8,
    Ne.symm h9, Ne.symm h16]

/-- Raw frame of any type: `ReadFrame` hands exactly the written header and payload to the
parser its type byte denotes (so it reads back as whatever typed frame — or error — that parser
yields for this payload), provided `checkFrameOrder` admits the header. -/
theorem raw_roundtrip_typed (fr : Framer) (t fl sid : Nat) (payload bs rest : List Nat) (hsid : sid < 2147483648)
    (hw : writeRawFrame t fl sid payload = .ok bs) (hmax : bs.length ≤ fr.maxReadSize + 9) (last' : Nat)
    (hord : checkFrameOrder fr.lastHeaderStream ⟨payload.length, t, fl, sid⟩ = .ok last') :
    readFrame fr (bs ++ rest) =
      ⟨parseFrame ⟨payload.length, t, fl, sid⟩ payload, some ⟨payload.length, t, fl, sid⟩,
       { fr with lastHeaderStream := last' }, rest⟩ := by
  unfold writeRawFrame at hw
  have hl := frameBytes_length hw
  exact readFrame_frameBytes fr t fl sid payload rest bs hsid hw (by omega) last' hord

/-! ### SETTINGS: the one Write method whose accepted arguments do not all read back -/

/-- ranges of the Go types: `SettingID` is a uint16, `Val` a uint32. -/
def SettingsWF (ss : List (Nat × Nat)) : Prop := ∀ s ∈ ss, s.1 < 65536 ∧ s.2 < 4294967296

/-- the excluded region: the first INITIAL_WINDOW_SIZE setting exceeds 2^31-1. -/
def IWSOverflow (ss : List (Nat × Nat)) : Bool :=
  match settingsValue settingInitialWindowSize ss with
  | some v => decide (v > 2147483647)
  | none => false

private theorem settingsOf_settingsBytes (ss : List (Nat × Nat)) (h : SettingsWF ss) :
    settingsOf (settingsBytes ss) = ss := by
  induction ss with
  | nil => simp [settingsBytes, settingsOf]
  | cons s rest ih =>
    obtain ⟨id, v⟩ := s
    have h1 := h (id, v) (by simp)
    simp only at h1
    have hr : SettingsWF rest := fun x hx => h x (by simp [hx])
    simp only [settingsBytes, settingBytes, be32, List.cons_append, List.nil_append, settingsOf, ih hr,
      rd32_be32 _ h1.2]
    have : id / 256 % 256 * 256 + id % 256 = id := by omega
    rw [this]

private theorem settingsBytes_length (ss : List (Nat × Nat)) : (settingsBytes ss).length = 6 * ss.length := by
  induction ss with
  | nil => simp [settingsBytes]
  | cons s rest ih => simp [settingsBytes, settingBytes, be32, ih]; omega

/-- SETTINGS reads back as the same list of settings, outside the excluded region. -/
theorem settings_roundtrip_holds_partial (ss : List (Nat × Nat)) (bs : List Nat) (hwf : SettingsWF ss)
    (hno : IWSOverflow ss = false) (hw : writeSettings ss = .ok bs) :
    ReadsBack bs 0 0 (.settings ⟨bs.length - 9, frameSettings, 0, 0⟩ ss) := by
  unfold writeSettings at hw
  rw [← frameBytes_length hw]
  refine readsBack_of hw (by decide) (order_plain (by decide) (by decide)) ?_ rfl
  have h6 : (settingsBytes ss).length % 6 = 0 := by rw [settingsBytes_length]; omega
  simp only [parseFrame, parseSettings, frameSettings, frameData, frameHeaders, framePriority, frameRSTStream,
    settingsOf_settingsBytes ss hwf, h6]
  unfold IWSOverflow at hno
  cases hv : settingsValue settingInitialWindowSize ss with
  | none => simp [hasFlag, flagAck]
  | some v =>
    rw [hv] at hno
    have : ¬ v > 2147483647 := by simpa using hno
    simp [hasFlag, flagAck, this]

/-- The full C06 statement for `WriteSettings`: every accepted argument list reads back. -/
def SettingsRoundTripStatement : Prop :=
  ∀ (ss : List (Nat × Nat)) (bs : List Nat), SettingsWF ss → writeSettings ss = .ok bs →
    ReadsBack bs 0 0 (.settings ⟨bs.length - 9, frameSettings, 0, 0⟩ ss)

/-- It is false on the code as it is: `WriteSettings(Setting{INITIAL_WINDOW_SIZE, 2^31})` succeeds
and `ReadFrame` answers `ConnectionError(FLOW_CONTROL_ERROR)`. -/
theorem settings_roundtrip_full_false : ¬ SettingsRoundTripStatement := by
  intro h
  have hw : writeSettings [(4, 2147483648)] = .ok [0, 0, 6, 4, 0, 0, 0, 0, 0, 0, 4, 128, 0, 0, 0] := by rfl
  have h1 := h [(4, 2147483648)] _ (by simp [SettingsWF]) hw newFramer [] rfl (by decide)
  have h2 := congrArg ReadResult.res h1
  have h3 : (readFrame newFramer ([0, 0, 6, 4, 0, 0, 0, 0, 0, 0, 4, 128, 0, 0, 0] ++ [])).res
      = .error (.conn errCodeFlowControl) := by rfl
  rw [h3] at h2
  cases h2

/-- In the excluded region the frame is accepted by the writer and always rejected by the reader
with FLOW_CONTROL_ERROR (this is exactly where the Go oracle reports the known finding). -/
theorem settings_overflow_rejected (ss : List (Nat × Nat)) (bs : List Nat) (hwf : SettingsWF ss)
    (hov : IWSOverflow ss = true) (hw : writeSettings ss = .ok bs) (fr : Framer) (rest : List Nat)
    (hl : fr.lastHeaderStream = 0) (hmax : bs.length ≤ fr.maxReadSize + 9) :
    (readFrame fr (bs ++ rest)).res = .error (.conn errCodeFlowControl) := by
  unfold writeSettings at hw
  have hlen := frameBytes_length hw
  have hord : checkFrameOrder fr.lastHeaderStream ⟨(settingsBytes ss).length, frameSettings, 0, 0⟩ = .ok 0 := by
    rw [hl]; exact order_plain (by decide) (by decide)
  rw [readFrame_frameBytes fr frameSettings 0 0 _ rest bs (by decide) hw (by omega) 0 hord]
  have h6 : (settingsBytes ss).length % 6 = 0 := by rw [settingsBytes_length]; omega
  simp only [parseFrame, parseSettings, frameSettings, frameData, frameHeaders, framePriority, frameRSTStream,
    settingsOf_settingsBytes ss hwf, h6]
  unfold IWSOverflow at hov
  cases hv : settingsValue settingInitialWindowSize ss with
  | none => rw [hv] at hov; cases hov
  | some v =>
    rw [hv] at hov
    have : v > 2147483647 := by simpa using hov
    simp [hasFlag, flagAck, this]

/-! ### Acceptance: which arguments a Write method takes, and what it writes -/

/-- every successful write is the 9-byte header plus a payload below 2^24 bytes
(`ErrFrameTooLarge` otherwise), and the 24-bit length field is the payload length. -/
theorem write_shape {t fl sid : Nat} {payload bs : List Nat} (hw : frameBytes t fl sid payload = .ok bs) :
    bs.length = 9 + payload.length ∧ payload.length < 16777216 ∧
    bs.take 3 = [payload.length / 65536 % 256, payload.length / 256 % 256, payload.length % 256] := by
  obtain ⟨h, rfl⟩ := frameBytes_ok hw
  simp; omega

theorem frameBytes_accepts_iff (t fl sid : Nat) (payload : List Nat) :
    (∃ bs, frameBytes t fl sid payload = .ok bs) ↔ payload.length < 16777216 := by
  unfold frameBytes
  split
  · simp; omega
  · simp; omega

/-- `WriteDataPadded` accepts exactly: a non-zero 31-bit stream id, at most 255 padding bytes,
all zero, and a total payload below 2^24. -/
theorem writeData_accepts_iff (sid : Nat) (es : Bool) (data : List Nat) (pad : Option (List Nat)) :
    (∃ bs, writeData sid es data pad = .ok bs) ↔
      (sid ≠ 0 ∧ sid < 2147483648) ∧
      (match pad with
       | none => data.length < 16777216
       | some p => p.length ≤ 255 ∧ (∀ b ∈ p, b = 0) ∧ 1 + data.length + p.length < 16777216) := by
  unfold writeData
  by_cases hv : validStreamID sid = true
  · have hs : sid ≠ 0 ∧ sid < 2147483648 := by simpa [validStreamID] using hv
    cases pad with
    | none => simp [hv, hs, frameBytes_accepts_iff]
    | some p =>
      simp only [hv, Bool.not_true, Bool.false_eq_true, ↓reduceIte]
      by_cases hp : p.length > 255
      · simp [hp]; omega
      · by_cases hz : p.any (· != 0) = true
        · simp only [hp, hz, ↓reduceIte]
          simp at hz
          obtain ⟨b, hb, hb0⟩ := hz
          simp [hs]
          intro _ hall
          exact absurd (hall b hb) hb0
        · simp only [hp, hz, ↓reduceIte, frameBytes_accepts_iff]
          simp at hz
          simp [hs, hz]
          rw [frameBytes_accepts_iff]
          simp
          constructor
          · intro h; exact ⟨by omega, hz, by omega⟩
          · intro h; omega
  · have hs : ¬ (sid ≠ 0 ∧ sid < 2147483648) := by simpa [validStreamID] using hv
    simp [hv, hs]

/-! ### Whole sessions: a sequence of written frames reads back frame by frame -/

/-- `ReadFrame` called `n` times, stopping at the first error. -/
def readFrames : Nat → Framer → List Nat → List Frame
  | 0, _, _ => []
  | n + 1, fr, bs =>
    match (readFrame fr bs).res with
    | .ok f => f :: readFrames n (readFrame fr bs).fr (readFrame fr bs).rest
    | .error _ => []

/-- a sequence of (bytes written, frame) whose HEADERS/CONTINUATION states chain up. -/
inductive Chain : Nat → List (List Nat × Frame) → Nat → Prop
  | nil (l : Nat) : Chain l [] l
  | cons {l l' l'' : Nat} {bs : List Nat} {f : Frame} {rest : List (List Nat × Frame)} :
      ReadsBack bs l l' f → Chain l' rest l'' → Chain l ((bs, f) :: rest) l''

/-- Writing any sequence of frames whose header blocks are contiguous (each `ReadsBack` from the
state the previous one left) and reading the concatenated bytes returns exactly those frames,
in order, and consumes exactly those bytes. -/
theorem session_roundtrip {l l' : Nat} {items : List (List Nat × Frame)} (h : Chain l items l')
    (fr : Framer) (tail : List Nat) (hfr : fr.lastHeaderStream = l)
    (hmax : ∀ it ∈ items, it.1.length ≤ fr.maxReadSize + 9) :
    readFrames items.length fr (items.flatMap (·.1) ++ tail) = items.map (·.2) := by
  induction h generalizing fr with
  | nil l => simp [readFrames]
  | @cons l0 l1 l2 bs f rest hrb _ ih =>
    have h1 := hrb fr (rest.flatMap (·.1) ++ tail) hfr (hmax (bs, f) (by simp))
    simp only [List.flatMap_cons, List.append_assoc, List.length_cons, readFrames, h1, List.map_cons]
    congr 1
    exact ih { fr with lastHeaderStream := l1 } rfl (fun it hit => hmax it (by simp [hit]))

/-! ### One Framer, many calls: the write buffer never leaks into a later frame -/

/-- `startWrite … endWrite` on a Framer whose buffer holds anything is `frameBytes`: the stale
content is dropped by `startWrite`. -/
theorem endWriteS_startWriteS (w : List Nat) (t fl sid : Nat) (payload : List Nat) :
    (endWriteS (startWriteS w t fl sid ++ payload)).1 = frameBytes t fl sid payload := by
  unfold endWriteS startWriteS frameBytes
  simp only [List.cons_append, List.nil_append, List.length_cons, List.drop_succ_cons, List.drop_zero]
  have : payload.length + 1 + 1 + 1 + 1 + 1 + 1 + 1 + 1 + 1 - 9 = payload.length := by omega
  rw [this]
  split <;> rfl

/-- The result of a Write call — the bytes handed to the writer, or the error — does not depend on
what earlier calls left in the Framer's write buffer: it is the result on a fresh Framer. -/
theorem runCall_result (w : List Nat) (c : Call) : (runCall w c).1 = c.fresh := by
  cases c with
  | data sid es d pad =>
    simp only [runCall, Call.fresh, writeData]
    split
    · rfl
    cases pad with
    | none => simp only; exact endWriteS_startWriteS _ _ _ _ _
    | some p =>
      simp only
      split
      · rfl
      split
      · rfl
      simp only [List.append_assoc, List.singleton_append]
      exact endWriteS_startWriteS _ _ _ _ _
  | headers sid frag es eh padLen prio =>
    simp only [runCall, Call.fresh, writeHeaders]
    split
    · rfl
    split
    · rfl
    simp only [List.append_assoc]
    exact endWriteS_startWriteS _ _ _ _ _
  | priority sid p =>
    simp only [runCall, Call.fresh, writePriority]
    split
    · rfl
    split
    · rfl
    exact endWriteS_startWriteS _ _ _ _ _
  | rstStream sid code =>
    simp only [runCall, Call.fresh, writeRSTStream]
    split
    · rfl
    exact endWriteS_startWriteS _ _ _ _ _
  | settings ss => exact endWriteS_startWriteS _ _ _ _ _
  | settingsAck =>
    have := endWriteS_startWriteS w frameSettings flagAck 0 []
    simpa [runCall, Call.fresh, writeSettingsAck] using this
  | ping ack d => exact endWriteS_startWriteS _ _ _ _ _
  | goAway m c d =>
    simp only [runCall, Call.fresh, writeGoAway, List.append_assoc]
    exact endWriteS_startWriteS _ _ _ _ _
  | windowUpdate sid incr =>
    simp only [runCall, Call.fresh, writeWindowUpdate]
    split
    · rfl
    exact endWriteS_startWriteS _ _ _ _ _
  | continuation sid eh frag =>
    simp only [runCall, Call.fresh, writeContinuation]
    split
    · rfl
    exact endWriteS_startWriteS _ _ _ _ _
  | pushPromise sid pid frag eh padLen =>
    simp only [runCall, Call.fresh, writePushPromise]
    split
    · rfl
    split
    · rfl
    simp only [List.append_assoc]
    exact endWriteS_startWriteS _ _ _ _ _
  | priorityUpdate sid p =>
    simp only [runCall, Call.fresh, writePriorityUpdate]
    split
    · rfl
    simp only [List.append_assoc]
    exact endWriteS_startWriteS _ _ _ _ _
  | raw t fl sid p => exact endWriteS_startWriteS _ _ _ _ _

/-- The write-buffer invariant over call sequences: on one Framer, starting from any buffer content,
every call of any sequence yields exactly what it yields on a fresh Framer — in particular a call
rejected after `startWrite` (invalid StreamDep / PromiseID, ErrFrameTooLarge) leaves nothing behind
that a later accepted call would emit: the bytes written by an accepted call are exactly that frame. -/
theorem runCalls_results (w : List Nat) (cs : List Call) : (runCalls w cs).1 = cs.map Call.fresh := by
  induction cs generalizing w with
  | nil => rfl
  | cons c rest ih => simp only [runCalls, List.map_cons, runCall_result, ih]

/-! ### Non-vacuity: the hypotheses are satisfiable by non-trivial values -/

example : ∃ bs, writeData 77 true [1, 2, 3] (some [0, 0]) = .ok bs := ⟨_, rfl⟩
example : ∃ bs, writeHeaders 5 [1, 2, 3] true false 7 ⟨3, true, 200⟩ = .ok bs := ⟨_, rfl⟩
example : ∃ bs, writePushPromise 1 2 [9, 9] true 3 = .ok bs := ⟨_, rfl⟩
example : ∃ bs, writeSettings [(1, 4096), (4, 2147483647)] = .ok bs ∧
    IWSOverflow [(1, 4096), (4, 2147483647)] = false := ⟨_, rfl, rfl⟩
example : IWSOverflow [(3, 100), (4, 4294967295), (4, 1)] = true := rfl
/-- a WriteHeaders rejected after `startWrite` leaves a partial frame in the buffer … -/
example : runCall [] (.headers 1 [7] false true 5 ⟨2147483648, false, 0⟩)
    = (.error .depStreamID, [0, 0, 0, 1, 44, 0, 0, 0, 1, 5]) := rfl
/-- … which the next accepted call does not emit. -/
example : (runCalls [] [.headers 1 [7] false true 5 ⟨2147483648, false, 0⟩, .ping false [1, 2, 3, 4, 5, 6, 7, 8]]).1
    = [.error .depStreamID, .ok [0, 0, 8, 6, 0, 0, 0, 0, 0, 1, 2, 3, 4, 5, 6, 7, 8]] := rfl
example : ∃ bs, writeRawFrame 200 255 77 [1, 2] = .ok bs ∧ ∀ p ∈ Gen.C06.frameParsers, p.1 ≠ 200 :=
  ⟨_, rfl, by decide⟩
/-- a HEADERS without END_HEADERS followed by its CONTINUATION chain up. -/
example (b1 b2 : List Nat) (h1 : writeHeaders 3 [1] false false 0 {} = .ok b1)
    (h2 : writeContinuation 3 true [2] = .ok b2) :
    ∃ f1 f2, Chain 0 [(b1, f1), (b2, f2)] 0 :=
  ⟨_, _, .cons (headers_roundtrip _ _ _ _ _ _ _ h1) (.cons (continuation_roundtrip _ _ _ _ h2) (.nil _))⟩

end NetVerif.Proofs.C06
