import NetVerif.Model.Httpguts
import NetVerif.Gen.C55
/-!
C55 — httpguts header validity checks match the RFC grammar.

Specification side (this file): `tchar` (RFC 9110 §5.6.2), `FieldValueByte` (no CTL but HTAB),
`elements` (the comma-separated elements, characterised by `elements_join`/`elements_no_comma`),
`IsTrim` (declarative OWS trimming), `FoldEq` (ASCII case-insensitive equality of ASCII strings).
Model side: `NetVerif.Model.Httpguts`; regenerated side: `NetVerif.Gen.C55`.
-/
namespace NetVerif.Proofs.C55
open NetVerif NetVerif.Model.Httpguts

/-! ## Specification -/

/-- RFC 9110 §5.6.2: tchar = "!" / "#" / "$" / "%" / "&" / "'" / "*" / "+" / "-" / "." /
    "^" / "_" / "`" / "|" / "~" / DIGIT / ALPHA -/
def tchar (b : Nat) : Prop :=
  b ∈ [33, 35, 36, 37, 38, 39, 42, 43, 45, 46, 94, 95, 96, 124, 126] ∨
  (48 ≤ b ∧ b ≤ 57) ∨ (65 ≤ b ∧ b ≤ 90) ∨ (97 ≤ b ∧ b ≤ 122)

instance : DecidablePred tchar := fun b => by unfold tchar; infer_instance

/-- A byte allowed in a field value: not a control byte (0–31, 127), except horizontal tab. -/
def FieldValueByte (b : Nat) : Prop := ¬ ((b < 32 ∨ b = 127) ∧ b ≠ 9)

def OWS (b : Nat) : Prop := b = 32 ∨ b = 9

/-- ASCII lower-casing of one byte. -/
def asciiLower (b : Nat) : Nat := if 65 ≤ b ∧ b ≤ 90 then b + 32 else b

/-- ASCII case-insensitive equality where the left string is pure ASCII. -/
def FoldEq (t u : List Nat) : Prop :=
  t.length = u.length ∧ (∀ b ∈ t, b < 128) ∧ t.map asciiLower = u.map asciiLower

/-- The comma-separated elements of a value. -/
def elements : List Nat → List (List Nat)
  | [] => [[]]
  | b :: rest =>
    if b = 44 then [] :: elements rest
    else (b :: (elements rest).headD []) :: (elements rest).tail

/-- Joining with commas. -/
def joinComma : List (List Nat) → List Nat
  | [] => []
  | [e] => e
  | e :: es => e ++ 44 :: joinComma es

/-- `t` is `e` with all leading and trailing SP / HTAB removed. -/
def IsTrim (e t : List Nat) : Prop :=
  ∃ l r, e = l ++ t ++ r ∧ (∀ b ∈ l, OWS b) ∧ (∀ b ∈ r, OWS b) ∧
    (∀ h, t.head? = some h → ¬ OWS h) ∧ (∀ h, t.getLast? = some h → ¬ OWS h)

/-! ## T-tie: regenerated tables and byte predicates equal the model's -/

theorem gen_isTokenTable_eq : Gen.C55.isTokenTable = isTokenTable := by decide +kernel
theorem gen_validHostByte_eq : Gen.C55.validHostByte = validHostByte := by decide +kernel
theorem gen_isOWS_eq : Gen.C55.isOWS = isOWS := rfl
theorem gen_isLWS_eq : Gen.C55.isLWS = isLWS := rfl
theorem gen_isCTL_eq : Gen.C55.isCTL = isCTL := rfl
theorem gen_lowerASCII_eq : Gen.C55.lowerASCII = lowerASCII := rfl
theorem gen_isTokenRune_eq : Gen.C55.isTokenRune = isTokenRune := by
  funext r; unfold Gen.C55.isTokenRune isTokenRune; rw [gen_isTokenTable_eq]; rfl

/-! ## The table is the tchar predicate -/

theorem table_length : Gen.C55.isTokenTable.length = 256 := by decide +kernel

private theorem table_tchar_lt : ∀ b, b < 256 → (isTokenByte b = true ↔ tchar b) := by decide +kernel

/-- `isTokenTable[b]` ⇔ `tchar b`, for all 256 bytes (and trivially beyond). -/
theorem table_eq_tchar (b : Nat) : isTokenByte b = true ↔ tchar b := by
  by_cases h : b < 256
  · exact table_tchar_lt b h
  · have hlen : isTokenTable.length = 256 := by decide +kernel
    have : isTokenByte b = false := by
      unfold isTokenByte
      rw [List.getD_eq_getElem?_getD, List.getElem?_eq_none (by omega)]; rfl
    rw [this]
    constructor
    · intro h'; cases h'
    · intro h'; unfold tchar at h'; simp at h'; omega

/-- The regenerated table itself satisfies the tchar predicate on every byte. -/
theorem gen_table_eq_tchar (b : Nat) : Gen.C55.isTokenTable.getD b false = true ↔ tchar b := by
  rw [gen_isTokenTable_eq]; exact table_eq_tchar b

/-! ## ValidHeaderFieldName -/

private theorem nameLoop_iff (v : List Nat) : nameLoop v = true ↔ ∀ b ∈ v, tchar b := by
  induction v with
  | nil => simp [nameLoop]
  | cons b rest ih =>
    unfold nameLoop
    by_cases hb : isTokenByte b = true
    · have := (table_eq_tchar b).1 hb
      simp [hb, ih, this]
    · have hn : ¬ tchar b := fun h => hb ((table_eq_tchar b).2 h)
      simp [hb, hn]

/-- `ValidHeaderFieldName(s)` holds exactly when `s` is a non-empty RFC 9110 token. -/
theorem validHeaderFieldName_iff (v : List Nat) :
    validHeaderFieldName v = true ↔ v ≠ [] ∧ ∀ b ∈ v, tchar b := by
  unfold validHeaderFieldName
  cases v with
  | nil => simp
  | cons b rest => simp [nameLoop_iff]

/-! ## IsTokenRune -/

/-- For every non-negative rune value (in particular every rune of a string):
    `IsTokenRune r` ⇔ `r` is an ASCII tchar. -/
theorem isTokenRune_iff (r : Int) (h0 : 0 ≤ r) :
    isTokenRune r = true ↔ r < 128 ∧ tchar r.toNat := by
  unfold isTokenRune runeSelf
  by_cases h : r < 128
  · have e : (r % 256).toNat = r.toNat := by omega
    have := table_eq_tchar r.toNat
    unfold isTokenByte at this
    have hd : decide (r < ((128 : Nat) : Int)) = true := by simpa using h
    rw [hd, e]
    simpa [h] using this
  · simp [h]

/-- Runes ≥ 0x80 (all non-ASCII code points, U+FFFD included) are never token runes. -/
theorem isTokenRune_nonascii (r : Int) (h : 128 ≤ r) : isTokenRune r = false := by
  unfold isTokenRune runeSelf
  have : ¬ r < 128 := by omega
  simp [this]

/-- Outside the rune domain: `byte(r)` wraps, so a NEGATIVE int32 such as `'!' - 256` is
    reported as a token rune. No string yields a negative rune; recorded as an observation. -/
theorem isTokenRune_negative_wrap_witness : isTokenRune (-223) = true := by decide

/-! ## ValidHeaderFieldValue -/

/-- `ValidHeaderFieldValue(s)` ⇔ `s` contains no control byte other than HTAB. -/
theorem validHeaderFieldValue_iff (v : List Nat) :
    validHeaderFieldValue v = true ↔ ∀ b ∈ v, FieldValueByte b := by
  induction v with
  | nil => simp [validHeaderFieldValue]
  | cons b rest ih =>
    unfold validHeaderFieldValue
    by_cases hb : (isCTL b && !isLWS b) = true
    · have : ¬ FieldValueByte b := by
        unfold FieldValueByte
        simp [isCTL, isLWS] at hb
        omega
      simp [hb, this]
    · have : FieldValueByte b := by
        unfold FieldValueByte
        simp [isCTL, isLWS] at hb
        omega
      simp [hb, ih, this]

/-- CR, LF and NUL are always rejected (and so is every other control byte but HTAB, and DEL). -/
theorem validHeaderFieldValue_rejects_crlfnul (v : List Nat) (h : validHeaderFieldValue v = true) :
    13 ∉ v ∧ 10 ∉ v ∧ 0 ∉ v ∧ 127 ∉ v := by
  rw [validHeaderFieldValue_iff] at h
  refine ⟨?_, ?_, ?_, ?_⟩ <;> intro hm <;> have := h _ hm <;> unfold FieldValueByte at this <;> omega

/-- HTAB, SP, visible ASCII and obs-text bytes are accepted. -/
theorem validHeaderFieldValue_accepts (v : List Nat)
    (h : ∀ b ∈ v, b = 9 ∨ (32 ≤ b ∧ b ≠ 127)) : validHeaderFieldValue v = true := by
  rw [validHeaderFieldValue_iff]
  intro b hb; have := h b hb; unfold FieldValueByte; omega

/-! ## trimOWS -/

private theorem isOWS_iff (b : Nat) : isOWS b = true ↔ OWS b := by
  unfold isOWS OWS; simp

private theorem trimLeft_append_ows (l x : List Nat) (h : ∀ b ∈ l, OWS b) :
    trimLeft (l ++ x) = trimLeft x := by
  induction l with
  | nil => rfl
  | cons b l ih =>
    have hb : isOWS b = true := (isOWS_iff b).2 (h b (by simp))
    simp only [List.cons_append, trimLeft, hb, if_true]
    exact ih (fun c hc => h c (by simp [hc]))

private theorem trimLeft_head_not_ows (x : List Nat) (h : ∀ a, x.head? = some a → ¬ OWS a) :
    trimLeft x = x := by
  cases x with
  | nil => rfl
  | cons b r =>
    have : isOWS b = false := by
      have := h b rfl
      cases hb : isOWS b
      · rfl
      · exact absurd ((isOWS_iff b).1 hb) this
    simp [trimLeft, this]

private theorem trimLeft_decomp (x : List Nat) :
    ∃ l, x = l ++ trimLeft x ∧ (∀ b ∈ l, OWS b) ∧ (∀ a, (trimLeft x).head? = some a → ¬ OWS a) := by
  induction x with
  | nil => exact ⟨[], rfl, by simp, by simp [trimLeft]⟩
  | cons b r ih =>
    by_cases hb : isOWS b = true
    · obtain ⟨l, h1, h2, h3⟩ := ih
      refine ⟨b :: l, ?_, ?_, ?_⟩
      · simp only [trimLeft, hb, if_true, List.cons_append]; rw [← h1]
      · intro c hc
        cases hc with
        | head => exact (isOWS_iff _).1 hb
        | tail _ hc => exact h2 c hc
      · simpa [trimLeft, hb] using h3
    · refine ⟨[], ?_, by simp, ?_⟩
      · simp [trimLeft, hb]
      · intro a ha
        simp [trimLeft, hb] at ha
        subst ha
        intro ho; exact hb ((isOWS_iff _).2 ho)

/-- `trimOWS` removes exactly the leading and trailing SP / HTAB bytes. -/
theorem trimOWS_isTrim (e : List Nat) : IsTrim e (trimOWS e) := by
  obtain ⟨l, h1, h2, h3⟩ := trimLeft_decomp e
  obtain ⟨r', g1, g2, g3⟩ := trimLeft_decomp (trimLeft e).reverse
  refine ⟨l, r'.reverse, ?_, h2, ?_, ?_, ?_⟩
  · have : trimLeft e = (trimLeft (trimLeft e).reverse).reverse ++ r'.reverse := by
      have := congrArg List.reverse g1
      simpa using this
    unfold trimOWS trimRight
    rw [List.append_assoc, ← this]; exact h1
  · intro b hb; exact g2 b (by simpa using hb)
  · intro a ha
    unfold trimOWS trimRight at ha
    -- the head of the result is the head of `trimLeft e` unless the result is empty
    cases hx : trimLeft e with
    | nil => simp [hx, trimLeft] at ha
    | cons c cs =>
      by_cases hr : (trimLeft (trimLeft e).reverse) = []
      · simp [hr] at ha
      · have hc : ¬ OWS c := h3 c (by simp [hx])
        -- result ++ r'.reverse = c :: cs and result ≠ [] ⇒ head result = c
        have e2 : (trimLeft (trimLeft e).reverse).reverse ++ r'.reverse = c :: cs := by
          have := congrArg List.reverse g1
          rw [hx] at this ⊢
          simpa using this.symm
        cases hres : (trimLeft (trimLeft e).reverse).reverse with
        | nil => simp at hres; exact absurd hres hr
        | cons d ds =>
          rw [hres] at ha e2
          simp at ha e2
          rw [← ha, e2.1]; exact hc
  · intro a ha
    unfold trimOWS trimRight at ha
    rw [List.getLast?_reverse] at ha
    exact g3 a ha

/-- Uniqueness: any `t` that is a trim of `e` is what `trimOWS` returns. -/
theorem isTrim_unique (e t : List Nat) (h : IsTrim e t) : trimOWS e = t := by
  obtain ⟨l, r, he, hl, hr, hh, hlast⟩ := h
  subst he
  unfold trimOWS trimRight
  rw [List.append_assoc, trimLeft_append_ows l _ hl]
  cases t with
  | nil =>
    have : trimLeft ([] ++ r) = [] := by
      have := trimLeft_append_ows r [] hr
      simpa [trimLeft] using this
    rw [this]; rfl
  | cons c cs =>
    have h1 : trimLeft ((c :: cs) ++ r) = (c :: cs) ++ r :=
      trimLeft_head_not_ows _ (by intro a ha; exact hh a (by simpa using ha))
    rw [h1, List.reverse_append,
      trimLeft_append_ows r.reverse _ (by intro b hb; exact hr b (by simpa using hb))]
    rw [trimLeft_head_not_ows]
    · simp
    · intro a ha
      rw [List.head?_reverse] at ha
      exact hlast a ha

/-! ## tokenEqual -/

private theorem lowerASCII_eq (b : Nat) (h : b < 128) : lowerASCII b = asciiLower b := by
  unfold lowerASCII asciiLower
  by_cases h1 : 65 ≤ b <;> by_cases h2 : b ≤ 90 <;> simp [h1, h2] <;> omega

private theorem asciiLower_lt (b : Nat) : asciiLower b < 128 ↔ b < 128 := by
  unfold asciiLower; split <;> omega

private theorem lowerASCII_ge (c : Nat) (h : 128 ≤ c) : lowerASCII c = c := by
  unfold lowerASCII
  have : ¬ c ≤ 90 := by omega
  simp [this]

private theorem tokenEqualLoop_iff (t u : List Nat) (hlen : t.length = u.length) :
    tokenEqualLoop t u = true ↔ (∀ b ∈ t, b < 128) ∧ t.map asciiLower = u.map asciiLower := by
  induction t generalizing u with
  | nil => cases u with
    | nil => simp [tokenEqualLoop]
    | cons _ _ => simp at hlen
  | cons b r ih =>
    cases u with
    | nil => simp at hlen
    | cons c r2 =>
      have hl : r.length = r2.length := by simpa using hlen
      unfold tokenEqualLoop runeSelf
      by_cases hb : b ≥ 128
      · have : ¬ b < 128 := by omega
        simp [hb, this]
      · have hb' : b < 128 := by omega
        simp only [hb, if_false]
        by_cases hc : c < 128
        · rw [lowerASCII_eq b hb', lowerASCII_eq c hc]
          by_cases he : asciiLower b = asciiLower c
          · simp [he, ih r2 hl, hb']
          · simp [he]
        · have hc' : lowerASCII c = c := lowerASCII_ge c (by omega)
          have hne : lowerASCII b ≠ lowerASCII c := by
            rw [hc', lowerASCII_eq b hb']
            have := (asciiLower_lt b).2 hb'
            omega
          have hne2 : asciiLower b ≠ asciiLower c := by
            have h1 := (asciiLower_lt b).2 hb'
            have h2 : ¬ asciiLower c < 128 := fun h => hc ((asciiLower_lt c).1 h)
            omega
          simp [hne, hne2]

/-- `tokenEqual t u` ⇔ same length, `t` pure ASCII, equal after ASCII lower-casing. -/
theorem tokenEqual_iff (t u : List Nat) : tokenEqual t u = true ↔ FoldEq t u := by
  unfold tokenEqual FoldEq
  by_cases h : t.length = u.length
  · simp [h, tokenEqualLoop_iff t u h]
  · simp [h]

/-! ## The comma-separated elements -/

theorem elements_ne_nil (v : List Nat) : elements v ≠ [] := by
  cases v with
  | nil => simp [elements]
  | cons b r => unfold elements; split <;> simp

/-- Joining the elements with commas gives the value back. -/
theorem elements_join (v : List Nat) : joinComma (elements v) = v := by
  induction v with
  | nil => rfl
  | cons b r ih =>
    unfold elements
    have hne := elements_ne_nil r
    cases he : elements r with
    | nil => exact absurd he hne
    | cons e es =>
      rw [he] at ih
      by_cases hb : b = 44
      · subst hb; simp [joinComma, ih]
      · simp only [hb, if_false, List.headD_cons, List.tail_cons]
        cases es with
        | nil => simp [joinComma] at ih ⊢; exact ih
        | cons e2 es2 => simp [joinComma] at ih ⊢; exact ih

/-- No element contains a comma. -/
theorem elements_no_comma (v : List Nat) : ∀ e ∈ elements v, 44 ∉ e := by
  induction v with
  | nil => simp [elements]
  | cons b r ih =>
    unfold elements
    have hne := elements_ne_nil r
    cases he : elements r with
    | nil => exact absurd he hne
    | cons e es =>
      rw [he] at ih
      by_cases hb : b = 44
      · subst hb
        intro x hx
        simp at hx
        rcases hx with rfl | rfl | hx
        · simp
        · exact ih _ (by simp)
        · exact ih _ (by simp [hx])
      · intro x hx
        simp [hb] at hx
        rcases hx with rfl | hx
        · have := ih e (by simp)
          simp; exact ⟨fun h => hb h.symm, this⟩
        · exact ih _ (by simp [hx])

/-- The decomposition is unique: any comma-free lists whose comma-join is `v` are `elements v`. -/
theorem elements_unique (es : List (List Nat)) (hne : es ≠ [])
    (hc : ∀ e ∈ es, 44 ∉ e) : elements (joinComma es) = es := by
  induction es with
  | nil => exact absurd rfl hne
  | cons e rest ih =>
    have he : 44 ∉ e := hc e (by simp)
    cases rest with
    | nil =>
      simp only [joinComma]
      clear ih hc hne
      induction e with
      | nil => rfl
      | cons b r ihr =>
        have hb : b ≠ 44 := fun h => he (by simp [h])
        have hr : 44 ∉ r := fun h => he (by simp [h])
        simp [elements, hb, ihr hr]
    | cons e2 rest2 =>
      have ih' := ih (by simp) (fun x hx => hc x (by simp [hx]))
      simp only [joinComma] at ih' ⊢
      clear hc hne ih
      induction e with
      | nil => simp [elements]; exact ih'
      | cons b r ihr =>
        have hb : b ≠ 44 := fun h => he (by simp [h])
        have hr : 44 ∉ r := fun h => he (by simp [h])
        have := ihr hr
        simp only [List.cons_append, elements, hb, if_false]
        rw [this]; simp

private theorem elements_append_nocomma (a r : List Nat) (h : 44 ∉ a) :
    elements (a ++ r) = (a ++ (elements r).headD []) :: (elements r).tail := by
  induction a with
  | nil =>
    have hne := elements_ne_nil r
    cases he : elements r with
    | nil => exact absurd he hne
    | cons e es => simp [he]
  | cons b a ih =>
    have hb : b ≠ 44 := fun hh => h (by simp [hh])
    have ha : 44 ∉ a := fun hh => h (by simp [hh])
    simp only [List.cons_append, elements, hb, if_false]
    rw [ih ha]; simp

/-! ## headerValueContainsToken -/

private theorem hvctLoop_iff (tok : List Nat) (rest acc : List Nat) (h : 44 ∉ acc) :
    hvctLoop tok acc rest = true ↔
      ∃ e ∈ elements (acc.reverse ++ rest), tokenEqual (trimOWS e) tok = true := by
  induction rest generalizing acc with
  | nil =>
    have h' : 44 ∉ acc.reverse := by simpa using h
    rw [elements_append_nocomma _ _ h']
    simp [hvctLoop, elements]
  | cons b rest ih =>
    have h' : 44 ∉ acc.reverse := by simpa using h
    unfold hvctLoop
    by_cases hb : b = 44
    · subst hb
      rw [elements_append_nocomma _ _ h']
      have := ih [] (by simp)
      simp only [List.reverse_nil, List.nil_append] at this
      by_cases ht : tokenEqual (trimOWS acc.reverse) tok = true
      · simp [ht, elements]
      · simp [ht, elements, this]
    · have hn : (b == 44) = false := by simp [hb]
      simp only [hn]
      have := ih (b :: acc) (by simp; exact ⟨fun hh => hb hh.symm, h⟩)
      simpa [List.reverse_cons, List.append_assoc] using this

/-- One value: found ⇔ some comma-separated element, OWS-trimmed, is fold-equal to the token. -/
theorem headerValueContainsToken_iff (v tok : List Nat) :
    headerValueContainsToken v tok = true ↔ ∃ e ∈ elements v, FoldEq (trimOWS e) tok := by
  unfold headerValueContainsToken
  rw [hvctLoop_iff tok v [] (by simp)]
  simp [tokenEqual_iff]

/-- `HeaderValuesContainsToken(values, token)` ⇔ the token equals, ASCII case-insensitively,
    some comma-separated element (surrounding SP/HTAB trimmed; the element being ASCII) of one
    of the values. -/
theorem headerValuesContainsToken_iff (vs : List (List Nat)) (tok : List Nat) :
    headerValuesContainsToken vs tok = true ↔
      ∃ v ∈ vs, ∃ e ∈ elements v, ∃ t, IsTrim e t ∧ FoldEq t tok := by
  induction vs with
  | nil => simp [headerValuesContainsToken]
  | cons v vs ih =>
    unfold headerValuesContainsToken
    have key : headerValueContainsToken v tok = true ↔ ∃ e ∈ elements v, ∃ t, IsTrim e t ∧ FoldEq t tok := by
      rw [headerValueContainsToken_iff]
      constructor
      · rintro ⟨e, he, hf⟩; exact ⟨e, he, _, trimOWS_isTrim e, hf⟩
      · rintro ⟨e, he, t, ht, hf⟩; exact ⟨e, he, by rw [isTrim_unique e t ht]; exact hf⟩
    by_cases hv : headerValueContainsToken v tok = true
    · simp only [hv, if_true, true_iff]
      exact ⟨v, by simp, key.1 hv⟩
    · simp only [hv, Bool.false_eq_true, if_false]
      rw [ih]
      constructor
      · rintro ⟨w, hw, rest⟩; exact ⟨w, by simp [hw], rest⟩
      · rintro ⟨w, hw, rest⟩
        simp at hw
        rcases hw with rfl | hw
        · exact absurd (key.2 rest) hv
        · exact ⟨w, hw, rest⟩

/-! ## The literal reading (no ASCII side condition) -/

/-- The property read literally: equality after ASCII case folding, for ANY byte strings. -/
def ContainsTokenLiteralStatement : Prop :=
  ∀ (vs : List (List Nat)) (tok : List Nat),
    headerValuesContainsToken vs tok = true ↔
      ∃ v ∈ vs, ∃ e ∈ elements v, (trimOWS e).map asciiLower = tok.map asciiLower

/-- …is false for non-ASCII "tokens": `tokenEqual` never matches a string with a byte ≥ 0x80
    ("No UTF-8 or non-ASCII allowed in tokens"), e.g. token "é" in value "é". RFC tokens are ASCII,
    so this lies outside what the property calls a token; it is documented, not a defect. -/
theorem containsToken_literal_false : ¬ ContainsTokenLiteralStatement := by
  intro h
  have := (h [[195, 169]] [195, 169]).2 ⟨[195, 169], by simp, [195, 169], by decide, by decide⟩
  revert this; decide

private theorem map_lower_ascii (t u : List Nat) (hu : ∀ b ∈ u, b < 128)
    (h : t.map asciiLower = u.map asciiLower) : t.length = u.length ∧ ∀ b ∈ t, b < 128 := by
  induction t generalizing u with
  | nil => cases u with
    | nil => simp
    | cons _ _ => simp at h
  | cons b r ih =>
    cases u with
    | nil => simp at h
    | cons c r2 =>
      simp at h
      have := ih r2 (fun x hx => hu x (by simp [hx])) h.2
      have hc := hu c (by simp)
      have hb : b < 128 := (asciiLower_lt b).1 (by rw [h.1]; exact (asciiLower_lt c).2 hc)
      refine ⟨by simp [this.1], ?_⟩
      intro x hx
      simp at hx
      rcases hx with rfl | hx
      · exact hb
      · exact this.2 x hx

/-- The literal statement holds whenever the token is pure ASCII (every RFC 9110 token is). -/
theorem containsToken_literal_holds_partial (vs : List (List Nat)) (tok : List Nat)
    (hascii : ∀ b ∈ tok, b < 128) :
    headerValuesContainsToken vs tok = true ↔
      ∃ v ∈ vs, ∃ e ∈ elements v, (trimOWS e).map asciiLower = tok.map asciiLower := by
  rw [headerValuesContainsToken_iff]
  constructor
  · rintro ⟨v, hv, e, he, t, ht, hf⟩
    refine ⟨v, hv, e, he, ?_⟩
    rw [isTrim_unique e t ht]; exact hf.2.2
  · rintro ⟨v, hv, e, he, hm⟩
    have := map_lower_ascii _ _ hascii hm
    exact ⟨v, hv, e, he, _, trimOWS_isTrim e, this.1, this.2, hm⟩

/-- Every RFC token is ASCII, so the previous theorem covers all tokens in the RFC sense. -/
theorem tchar_ascii (b : Nat) (h : tchar b) : b < 128 := by
  unfold tchar at h; simp at h; omega

/-! ## Non-vacuity -/

example : validHeaderFieldName [67, 111, 110, 116, 101, 110, 116, 45, 84, 121, 112, 101] = true := by decide
example : validHeaderFieldName [97, 32, 98] = false := by decide
example : validHeaderFieldValue [97, 9, 32, 200, 98] = true := by decide
example : validHeaderFieldValue [97, 13, 10, 98] = false := by decide
example : isTokenRune 97 = true ∧ isTokenRune 0x41 = true ∧ isTokenRune 40 = false ∧ isTokenRune 0xe9 = false := by decide
-- "gzip, Chunked ,x" contains "chunked"
example : headerValuesContainsToken [[103, 122, 105, 112, 44, 32, 67, 104, 117, 110, 107, 101, 100, 32, 44, 120]]
    [99, 104, 117, 110, 107, 101, 100] = true := by decide
example : elements [97, 44, 44, 98] = [[97], [], [98]] := by decide
example : FoldEq [65, 98] [97, 66] := by unfold FoldEq; decide

end NetVerif.Proofs.C55
