import NetVerif.Proofs.C14
import NetVerif.Proofs.C06
/-!
C14, part 2 — the message round trip through the 9-byte framing of `Model/H2Frame.lean`.

`encodeMessage σ m` = header block (abstract lawful codec) ∘ `splitHeaderBlock` ∘ DATA chunking ∘
`Framer.WriteHeaders/WriteContinuation/WriteData`; `decodeMessage` = `Framer.ReadFrame` until the
bytes are exhausted ∘ the receive state machine. The per-frame facts are C06's theorems
(`headers_roundtrip`, `continuation_roundtrip`, `data_roundtrip`), reused here unchanged.
-/
set_option linter.unusedSimpArgs false
namespace NetVerif.Proofs.C14
open NetVerif NetVerif.Model.H2Frame NetVerif.Model.H2Msg NetVerif.Proofs.H2MsgLemmas
open NetVerif.Proofs.H2FrameLemmas NetVerif.Proofs.C06

/-- `checkFrameOrder` on stream frames: the Framer's `lastHeaderStream` after the frame, or
`none` if the Framer would refuse it. -/
def nextLast (last : Nat) : SFrame → Option Nat
  | .headers sid _ eh _ => if last = 0 then some (if eh then 0 else sid) else none
  | .continuation sid eh _ => if last ≠ 0 ∧ sid = last then some (if eh then 0 else sid) else none
  | .data _ _ _ => if last = 0 then some 0 else none

def ordered : Nat → List SFrame → Option Nat
  | last, [] => some last
  | last, f :: fs =>
    match nextLast last f with
    | some l => ordered l fs
    | none => none

theorem ordered_append : ∀ (fs gs : List SFrame) (a b c : Nat),
    ordered a fs = some b → ordered b gs = some c → ordered a (fs ++ gs) = some c := by
  intro fs
  induction fs with
  | nil => intro gs a b c h1 h2; simp [ordered] at h1; subst h1; simpa using h2
  | cons f fs ih =>
    intro gs a b c h1 h2
    simp only [ordered, List.cons_append] at h1 ⊢
    cases hn : nextLast a f with
    | none => simp [hn] at h1
    | some l => simp only [hn] at h1 ⊢; exact ih gs l b c h1 h2

/-- stream ids the Framer accepts. -/
def ValidSid (sid : Nat) : Prop := sid ≠ 0 ∧ sid < 2147483648

private theorem frameBytes_exists (t fl sid : Nat) (payload : List Nat) (h : payload.length < 16777216) :
    ∃ bs, frameBytes t fl sid payload = .ok bs ∧ bs.length = payload.length + 9 := by
  unfold frameBytes
  have : ¬ payload.length ≥ 16777216 := by omega
  simp [this]

private theorem validSid_bool {sid : Nat} (h : ValidSid sid) : validStreamID sid = true := by
  obtain ⟨h0, h1⟩ := h
  simp [validStreamID, h0, h1]

private theorem flags_headers (es eh : Bool) :
    hasFlag (headersFlags es eh 0 {}) flagEndStream = es ∧
    hasFlag (headersFlags es eh 0 {}) flagEndHeaders = eh := by
  cases es <;> cases eh <;> decide

private theorem flags_cont (eh : Bool) : hasFlag (b2n eh flagEndHeaders) flagEndHeaders = eh := by
  cases eh <;> decide

private theorem flags_data (es : Bool) :
    hasFlag (b2n es flagEndStream + b2n false flagPadded) flagEndStream = es := by
  cases es <;> decide

/-- one frame: it can be written, has 9 + payload bytes, and a Framer in the right header-block
state reads it back as the same stream frame. -/
theorem sframe_readsBack (f : SFrame) (hs : ValidSid f.sid) (hl : f.len < 16777216) :
    ∃ b, f.bytes = .ok b ∧ b.length = f.len + 9 ∧
      ∀ last last', nextLast last f = some last' →
        ∃ F, ReadsBack b last last' F ∧ ofFrame F = some f := by
  have hv := validSid_bool hs
  cases f with
  | headers sid es eh frag =>
    simp only [SFrame.sid, SFrame.len] at hs hl hv
    obtain ⟨b, hb, hlen⟩ := frameBytes_exists frameHeaders (headersFlags es eh 0 {}) sid frag hl
    have hw : writeHeaders sid frag es eh 0 {} = .ok b := by
      simp [writeHeaders, hv, PriorityParam.isZero, ← hb, headersFlags]
    refine ⟨b, hw, by simpa [SFrame.len] using hlen, ?_⟩
    intro last last' hn
    simp only [nextLast] at hn
    split at hn
    · rename_i h0
      cases hn; subst h0
      refine ⟨_, headers_roundtrip sid frag es eh 0 {} b hw, ?_⟩
      simp [ofFrame, (flags_headers es eh).1, (flags_headers es eh).2]
    · cases hn
  | continuation sid eh frag =>
    simp only [SFrame.sid, SFrame.len] at hs hl hv
    obtain ⟨b, hb, hlen⟩ := frameBytes_exists frameContinuation (b2n eh flagEndHeaders) sid frag hl
    have hw : writeContinuation sid eh frag = .ok b := by simp [writeContinuation, hv, ← hb]
    refine ⟨b, hw, by simpa [SFrame.len] using hlen, ?_⟩
    intro last last' hn
    simp only [nextLast] at hn
    split at hn
    · rename_i h0
      cases hn
      obtain ⟨_, rfl⟩ := h0
      refine ⟨_, continuation_roundtrip sid eh frag b hw, ?_⟩
      simp [ofFrame, flags_cont eh]
    · cases hn
  | data sid es p =>
    simp only [SFrame.sid, SFrame.len] at hs hl hv
    obtain ⟨b, hb, hlen⟩ := frameBytes_exists frameData (b2n es flagEndStream) sid p hl
    have hw : writeData sid es p none = .ok b := by simp [writeData, hv, ← hb]
    refine ⟨b, hw, by simpa [SFrame.len] using hlen, ?_⟩
    intro last last' hn
    simp only [nextLast] at hn
    split at hn
    · rename_i h0
      cases hn; subst h0
      refine ⟨_, data_roundtrip sid es p none b hw, ?_⟩
      simp [ofFrame, flags_data es]
    · cases hn

/-- a well-ordered sequence of valid stream frames: it can be written, and `ReadFrame` until
exhaustion returns exactly the sequence. -/
theorem readAll_framesBytes : ∀ (fs : List SFrame) (last last' : Nat),
    (∀ f ∈ fs, ValidSid f.sid ∧ f.len < 16777216) → ordered last fs = some last' →
    ∃ bs, framesBytes fs = .ok bs ∧ fs.length ≤ bs.length ∧
      ∀ (fr : Framer) (fuel : Nat), fr.lastHeaderStream = last → (∀ f ∈ fs, f.len ≤ fr.maxReadSize) →
        fs.length ≤ fuel → readAll fuel fr bs = some fs := by
  intro fs
  induction fs with
  | nil =>
    intro last last' _ _
    refine ⟨[], rfl, by simp, ?_⟩
    intro fr fuel _ _ _
    cases fuel <;> simp [readAll]
  | cons f fs ih =>
    intro last last' hv ho
    simp only [ordered] at ho
    cases hn : nextLast last f with
    | none => simp [hn] at ho
    | some l =>
      simp only [hn] at ho
      obtain ⟨hvs, hvl⟩ := hv f (by simp)
      obtain ⟨b, hb, hblen, hrb⟩ := sframe_readsBack f hvs hvl
      obtain ⟨F, hF, hof⟩ := hrb last l hn
      obtain ⟨bs, hbs, hbl, hread⟩ := ih l last' (fun g hg => hv g (by simp [hg])) ho
      refine ⟨b ++ bs, by simp [framesBytes, hb, hbs], by simp; omega, ?_⟩
      intro fr fuel hfr hmax hfuel
      cases fuel with
      | zero => simp at hfuel
      | succ n =>
        have hne : (b ++ bs).isEmpty = false := by
          cases b with
          | nil => simp at hblen
          | cons _ _ => rfl
        have h1 := hF fr bs hfr (by have := hmax f (by simp); omega)
        simp only [readAll, hne, Bool.false_eq_true, ↓reduceIte, h1, hof]
        rw [hread { fr with lastHeaderStream := l } n rfl (fun g hg => hmax g (by simp [hg]))
          (by simpa using hfuel)]

/-! ### the frames of an encoded message are valid, bounded and well ordered -/

/-- frames on stream `sid`, payload ≤ `lim`, leaving the Framer between header blocks. -/
def Good (sid lim : Nat) (fs : List SFrame) : Prop :=
  (∀ f ∈ fs, f.sid = sid ∧ f.len ≤ lim) ∧ ordered 0 fs = some 0

theorem good_nil (sid lim : Nat) : Good sid lim [] := ⟨by simp, rfl⟩

theorem good_append {sid lim : Nat} {fs gs : List SFrame} (h1 : Good sid lim fs) (h2 : Good sid lim gs) :
    Good sid lim (fs ++ gs) := by
  refine ⟨?_, ordered_append fs gs 0 0 0 h1.2 h2.2⟩
  intro f hf
  rcases List.mem_append.mp hf with h | h
  · exact h1.1 f h
  · exact h2.1 f h

private theorem ordered_cont (sid : Nat) (hs : sid ≠ 0) : ∀ frs : List Bytes, frs ≠ [] →
    ordered sid (contFrames sid frs) = some 0
  | [], h => absurd rfl h
  | [_], _ => by simp [contFrames, ordered, nextLast, hs]
  | f :: g :: rest, _ => by
    have := ordered_cont sid hs (g :: rest) (by simp)
    simp [contFrames, ordered, nextLast, hs, this]

private theorem cont_sid_len (sid : Nat) : ∀ (frs : List Bytes) (f : SFrame), f ∈ contFrames sid frs →
    f.sid = sid ∧ f.frag ∈ frs ∧ f.len = f.frag.length
  | [], f, h => by simp [contFrames] at h
  | [a], f, h => by simp [contFrames] at h; subst h; simp [SFrame.sid, SFrame.frag, SFrame.len]
  | a :: g :: rest, f, h => by
    simp only [contFrames, List.mem_cons] at h
    rcases h with h | h
    · subst h; simp [SFrame.sid, SFrame.frag, SFrame.len]
    · obtain ⟨h1, h2, h3⟩ := cont_sid_len sid (g :: rest) f h
      exact ⟨h1, by simp at h2 ⊢; right; exact h2, h3⟩

theorem good_headerBlock (sid : Nat) (hs : sid ≠ 0) (es : Bool) (max : Nat) (hmax : 0 < max) (lim : Nat)
    (hlim : max ≤ lim) (hb : Bytes) : Good sid lim (writeHeaderBlock sid es max hb) := by
  unfold writeHeaderBlock
  have hbd := fragments_bounded max hmax hb
  cases hsp : splitBlock max hb with
  | nil => exact good_nil sid lim
  | cons a rest =>
    rw [hsp] at hbd
    refine ⟨?_, ?_⟩
    · intro f hf
      simp only [headerFrames, List.mem_cons] at hf
      rcases hf with h | h
      · subst h
        have := (hbd a (by simp)).2
        simp [SFrame.sid, SFrame.len]; omega
      · obtain ⟨h1, h2, h3⟩ := cont_sid_len sid rest f h
        have := (hbd f.frag (by simp [h2])).2
        exact ⟨h1, by omega⟩
    · cases rest with
      | nil => simp [headerFrames, contFrames, ordered, nextLast]
      | cons b rest' =>
        have := ordered_cont sid hs (b :: rest') (by simp)
        simp [headerFrames, ordered, nextLast, this]

theorem good_dataFrames (sid lim : Nat) (e : Bool) : ∀ chs : List Bytes, (∀ c ∈ chs, c.length ≤ lim) →
    Good sid lim (dataFrames sid e chs)
  | [], _ => good_nil sid lim
  | [c], h => ⟨by simp [dataFrames, SFrame.sid, SFrame.len, h c], by simp [dataFrames, ordered, nextLast]⟩
  | c :: c2 :: rest, h => by
    have ih := good_dataFrames sid lim e (c2 :: rest) (fun x hx => h x (by simp [hx]))
    refine ⟨?_, ?_⟩
    · intro f hf
      simp only [dataFrames, List.mem_cons] at hf
      rcases hf with h1 | h1
      · subst h1; simp [SFrame.sid, SFrame.len, h c]
      · exact ih.1 f (by simpa [dataFrames] using h1)
    · have := ih.2
      simp only [dataFrames, ordered, nextLast, ↓reduceIte]
      exact this

theorem good_encodeFrames (C : Codec) (s : C.S) (p : Plan) (hs : p.sid ≠ 0) (hh : 0 < p.maxHdr)
    (hd : 0 < p.maxData) (lim : Nat) (hlh : p.maxHdr ≤ lim) (hld : p.maxData ≤ lim) (m : Msg) :
    Good p.sid lim (encodeFrames C s p m).1 := by
  have hchunks : ∀ c ∈ chunks p.maxData p.cuts m.body, c.length ≤ lim := fun c hc => by
    have := data_chunks_bounded p.maxData hd p.cuts m.body c hc; omega
  have gH := fun es hb => good_headerBlock p.sid hs es p.maxHdr hh lim hlh hb
  have gD := fun e => good_dataFrames p.sid lim e _ hchunks
  have gE : Good p.sid lim [SFrame.data p.sid true []] :=
    ⟨by simp [SFrame.sid, SFrame.len], by simp [ordered, nextLast]⟩
  unfold encodeFrames
  simp only
  split
  · split
    · exact gH _ _
    · split
      · exact good_append (good_append (gH _ _) (gD _)) gE
      · exact good_append (gH _ _) (gD _)
  · exact good_append (good_append (gH _ _) (gD _)) (gH _ _)

/-! ### the composition through the bytes -/

/-- **`decodeMessage (encodeMessage σ m) = m` for all settings σ**, through HPACK (abstract, lawful) ∘
`splitHeaderBlock` ∘ DATA chunking ∘ the 9-byte framing: for a valid stream id, fragment and DATA
limits within the receiver's `MaxReadFrameSize` (itself ≤ 2^24-1), any cut sequence and either
END_STREAM placement, the bytes written decode to exactly the message and leave the header codec
states in sync. -/
theorem decodeMessage_encodeMessage (C : Codec) (sync : C.S → C.D → Prop) (hC : Lawful C sync)
    (s : C.S) (d : C.D) (hsy : sync s d) (p : Plan) (hsid : ValidSid p.sid)
    (hh : 0 < p.maxHdr) (hd : 0 < p.maxData) (maxRead : Nat) (hmr : maxRead ≤ 16777215)
    (hlh : p.maxHdr ≤ maxRead) (hld : p.maxData ≤ maxRead) (m : Msg) (hm : m.headers ≠ []) :
    ∃ bs d', (encodeMessage C s p m).1 = .ok bs ∧
      decodeMessage C.dec d maxRead p.sid bs = some (m, d') ∧ sync (encodeMessage C s p m).2 d' := by
  obtain ⟨d', hdec, hs'⟩ := decode_encode C sync hC s d hsy p hh hd m hm
  have hg := good_encodeFrames C s p hsid.1 hh hd maxRead hlh hld m
  have hvalid : ∀ f ∈ (encodeFrames C s p m).1, ValidSid f.sid ∧ f.len < 16777216 := by
    intro f hf
    obtain ⟨h1, h2⟩ := hg.1 f hf
    exact ⟨by rw [h1]; exact hsid, by omega⟩
  obtain ⟨bs, hbs, hfuel, hread⟩ := readAll_framesBytes _ 0 0 hvalid hg.2
  refine ⟨bs, d', hbs, ?_, hs'⟩
  unfold decodeMessage
  have hmrs : setMaxReadFrameSize maxRead = maxRead := by
    unfold setMaxReadFrameSize maxFrameSize; split <;> omega
  rw [hread { maxReadSize := setMaxReadFrameSize maxRead } bs.length rfl
    (fun f hf => by rw [hmrs]; exact (hg.1 f hf).2) hfuel]
  exact hdec

/-- non-vacuity: the concrete lawful codec, a message with CONTINUATION, cuts and trailers,
through the bytes. -/
example : ∃ bs, (encodeMessage simpleCodec () { sid := 3, maxHdr := 4, maxData := 3, cuts := [1, 5] }
      { headers := [⟨[58, 109], [71]⟩, ⟨[120], [1, 2, 3]⟩], body := [9, 8, 7, 6, 5], trailers := [⟨[116], [0]⟩] }).1 = .ok bs ∧
    decodeMessage simpleCodec.dec () 16384 3 bs =
      some ({ headers := [⟨[58, 109], [71]⟩, ⟨[120], [1, 2, 3]⟩], body := [9, 8, 7, 6, 5], trailers := [⟨[116], [0]⟩] }, ()) := by
  obtain ⟨bs, d', h1, h2, _⟩ := decodeMessage_encodeMessage simpleCodec (fun _ _ => True) simpleCodec_lawful () () trivial
    { sid := 3, maxHdr := 4, maxData := 3, cuts := [1, 5] } ⟨by decide, by decide⟩ (by decide) (by decide) 16384
    (by decide) (by decide) (by decide)
    { headers := [⟨[58, 109], [71]⟩, ⟨[120], [1, 2, 3]⟩], body := [9, 8, 7, 6, 5], trailers := [⟨[116], [0]⟩] } (by simp)
  exact ⟨bs, h1, h2⟩

end NetVerif.Proofs.C14
