import NetVerif.Model.Qpack
import NetVerif.Model.QpackHuffTable
import NetVerif.Gen.C33
/-!
C33 — QPACK field sections round-trip and the decoder rejects bad input safely.
-/
namespace NetVerif.Proofs.C33
open NetVerif NetVerif.Model.H3Stream NetVerif.Model.Qpack

/-! ### T-tie: regenerated tables and constants -/

theorem gen_staticTable_eq : Gen.C33.staticTable = Model.QpackStatic.staticTable := by decide +kernel

theorem gen_staticTable_length : Gen.C33.staticTable.length = 99 := by decide +kernel

theorem gen_huffman_eq :
    Gen.C33.huffmanCodes = Model.QpackHuffTable.huffmanCodes ∧
    Gen.C33.huffmanCodeLen = Model.QpackHuffTable.huffmanCodeLen := by decide +kernel

theorem gen_error_codes_eq :
    Gen.C33.errQPACKDecompressionFailed = cQpackDecompressionFailed ∧
    Gen.C33.errH3MessageError = cMessageError ∧
    Gen.C33.errH3FrameError = cFrameError ∧
    Gen.C33.mayIndex = 0 ∧ Gen.C33.neverIndex = 255 := by decide

end NetVerif.Proofs.C33
