import NetVerif.Model.Qpack
import NetVerif.Model.QpackHuffman
import NetVerif.Proofs.C04
import NetVerif.Gen.C33
import NetVerif.Proofs.Lemmas.QpackRT
import NetVerif.Proofs.Lemmas.H3Safe
/-!
C33 — QPACK field sections round-trip and the decoder rejects bad input safely.

Model: `Model/Qpack.lean` over the stream model `Model/H3Stream.lean`.
The Huffman code is a parameter (`Huff`) constrained by `HuffOK` in the round-trip theorem.
Preconditions of the round trip that the property text leaves implicit but its second sentence
implies (the decoder must reject them): no empty field name, pseudo-headers first.
-/
namespace NetVerif.Proofs.C33
open NetVerif NetVerif.Model.H3Stream NetVerif.Model.Qpack NetVerif.Proofs.QpackBasic NetVerif.Proofs.C33RT

/-! ### T-tie: regenerated tables and constants -/

theorem gen_staticTable_eq : Gen.C33.staticTable = Model.QpackStatic.staticTable := by decide +kernel

theorem gen_staticTable_length : Gen.C33.staticTable.length = 99 := by decide +kernel

/-- The Huffman table extracted for C33 from http2/hpack/tables.go is the table the C04 Huffman
model and proofs are about (both regenerated on every run). -/
theorem gen_huffman_eq :
    Gen.C33.huffmanCodes = Gen.Huffman.codes ∧ Gen.C33.huffmanCodeLen = Gen.Huffman.lens := by decide +kernel

theorem gen_error_codes_eq :
    Gen.C33.errQPACKDecompressionFailed = cQpackDecompressionFailed ∧
    Gen.C33.errH3MessageError = cMessageError ∧
    Gen.C33.errH3FrameError = cFrameError ∧
    Gen.C33.mayIndex = 0 ∧ Gen.C33.neverIndex = 255 := by decide

/-! ### Round trip -/

/-- The Huffman hypotheses hold for the HPACK Huffman model of C04 (`decode_appendHuffman`,
`appendHuffman_eq_encode`, `encodeLength_eq` over the regenerated code table). -/
theorem huffOK : HuffOK Model.QpackHuffman.huff := by
  constructor
  · intro s hs
    show Model.QpackHuffman.dec (Model.Huffman.appendHuffman s) = some s
    unfold Model.QpackHuffman.dec
    rw [NetVerif.Proofs.C04.decode_appendHuffman s hs]
  · intro s hs
    show (Model.Huffman.appendHuffman s).length = Model.Huffman.encodeLength s
    rw [NetVerif.Proofs.C04.appendHuffman_eq_encode s hs, NetVerif.Proofs.C04.encodeLength_eq]

/-- The encoder's choice "Huffman only when shorter" on the concrete codec: the literal carries
the Huffman form exactly when `HuffmanEncodeLength(s) < len(s)`, and its H bit says which. -/
theorem string_choice (first p : Nat) (s : List Nat) :
    appendPrefixedString Model.QpackHuffman.huff first p s =
      if Model.Huffman.encodeLength s < s.length then
        appendPrefixedInt (first + 2 ^ p) p (Model.Huffman.encodeLength s) ++ Model.Huffman.appendHuffman s
      else appendPrefixedInt first p s.length ++ s := rfl

/-- **Full round trip, no Huffman hypothesis**: with the HPACK Huffman model of C04 and the
regenerated static table, for every list of fields over byte strings whose lower-cased form the
decoder is specified to accept, `decode (encode fs)` returns exactly the lower-cased
printable-ASCII-named fields, in order, never-index flags and values preserved, and consumes
exactly the encoded section. -/
theorem roundtrip (fs : List Field)
    (hsize : ∀ f ∈ fs, f.name.length < 2 ^ 62 ∧ f.value.length < 2 ^ 62 ∧ Bytes f.value)
    (hwf : PseudoFirst false (expected fs))
    (rest : List Nat) (s : St) (hdead : s.dead = false)
    (hdata : s.data = encode Model.QpackHuffman.huff Gen.C33.staticTable fs ++ rest)
    (hlim : s.lim = ((encode Model.QpackHuffman.huff Gen.C33.staticTable fs).length : Int)) :
    ∃ s', decode Model.QpackHuffman.huff Gen.C33.staticTable s = ⟨expected fs, .ok () s'⟩ ∧
      s'.lim = 0 ∧ s'.data = rest ∧ s'.dead = false :=
  decode_encode Model.QpackHuffman.huff huffOK Gen.C33.staticTable (by rw [gen_staticTable_length]; decide)
    fs hsize hwf rest s hdead hdata hlim

/-- Non-vacuity: a field list with a pseudo-header, an upper-case name, a never-indexed field and a
name that is dropped satisfies the hypotheses. -/
example : PseudoFirst false (expected [⟨false, [58, 112], [47]⟩, ⟨true, [65, 98], [1, 2]⟩, ⟨false, [200], []⟩]) := by
  simp [expected, lowerHeader, isAsciiPrint, lowerByte, PseudoFirst]

/-- The names delivered are lower-cased and printable ASCII. -/
theorem expected_names_lower (fs : List Field) : ∀ f ∈ expected fs, ∃ g ∈ fs, lowerHeader g.name = some f.name ∧
    f.never = g.never ∧ f.value = g.value := by
  intro f hf
  simp only [expected, List.mem_filterMap] at hf
  obtain ⟨g, hg, h⟩ := hf
  cases hn : lowerHeader g.name with
  | none => simp [hn] at h
  | some n => simp [hn] at h; subst h; exact ⟨g, hg, hn, rfl, rfl⟩

/-! ### Prefixed integers -/

/-- Round trip: after the first byte `b` of `appendPrefixedInt first p v` has been read, reading
the integer returns `v` and consumes exactly the remaining bytes of the encoding. -/
theorem prefixedInt_roundtrip (first p v : Nat) (hp : p ≤ 8) (hf : first % 2 ^ p = 0) (hv : v < 2 ^ 62)
    (b : Nat) (tl : List Nat) (henc : appendPrefixedInt first p v = b :: tl)
    (s : St) (t : List Nat) (hd : s.dead = false) (hpr : s.primed = true)
    (hdata : s.data = tl ++ t) (hlim : (tl.length : Int) ≤ s.lim) :
    ∃ s', readPrefixedIntWithByte s b p = .ok v s' ∧ s'.data = t ∧ s'.lim = s.lim - tl.length := by
  obtain ⟨s', h, hadv, _⟩ := readPrefixedIntWithByte_append first p v hp hf hv b tl henc s t hd hpr hdata hlim
  exact ⟨s', h, by rw [hadv.data, hdata]; simp, hadv.lim⟩

/-- Overflow guard: whatever the bytes, an accepted prefixed integer fits in an int64. -/
theorem prefixedInt_bounded (s s' : St) (first p v : Nat) (hp : p ≤ 8)
    (h : readPrefixedIntWithByte s first p = .ok v s') : v ≤ maxInt64 := by
  have hM2 : 2 ^ p ≤ 256 := by
    have : 2 ^ p ≤ 2 ^ 8 := Nat.pow_le_pow_right (by omega) hp
    simpa using this
  have hM1 : 1 ≤ 2 ^ p := Nat.one_le_two_pow
  unfold readPrefixedIntWithByte at h
  generalize 2 ^ p = M at *
  simp only at h
  split at h
  · simp at h
    obtain ⟨rfl, _⟩ := h
    have := Nat.mod_lt first (by omega : M > 0)
    unfold maxInt64; omega
  · split at h
    · split at h
      · cases h
      · simp at h; obtain ⟨rfl, _⟩ := h
        unfold maxInt64 at *; omega
    all_goals cases h

/-! ### The decoder rejects what it must -/

/-- Required Insert Count ≠ 0 is rejected with QPACK_DECOMPRESSION_FAILED and no field is delivered. -/
theorem rejects_nonzero_ric (H : Huff) (tbl : List (List Nat × List Nat)) (s s1 : St) (b ric : Nat)
    (h : readPrefixedInt s 8 = .ok (b, ric) s1) (hric : ric ≠ 0) :
    decode H tbl s = ⟨[], .err (.plain cQpackDecompressionFailed) s1⟩ := by
  unfold decode; rw [h]; simp [hric, qpackErr]

/-- References to the dynamic table (indexed with T=0, name reference with T=0, both post-base
forms) are never accepted. -/
theorem rejects_dynamic (H : Huff) (tbl : List (List Nat × List Nat)) (s : St) (b : Nat)
    (hb : (128 ≤ b ∧ b < 192) ∨ (64 ≤ b ∧ b < 128 ∧ b / 16 % 2 = 0) ∨ (8 ≤ b ∧ b < 32)) :
    ∀ f s', decodeFieldLine H tbl s b ≠ .ok f s' := by
  intro f s' h
  unfold decodeFieldLine at h
  rcases hb with ⟨h1, h2⟩ | ⟨h1, h2, h3⟩ | ⟨h1, h2⟩
  · have : b / 64 % 2 = 0 := by omega
    simp only [show b ≥ 128 from h1, if_true, decodeIndexedFieldLine, Out.bind] at h
    split at h
    · simp [this] at h
    all_goals cases h
  · have hn : ¬ b ≥ 128 := by omega
    simp only [hn, if_false, show b ≥ 64 from h1, if_true, decodeLiteralNameRef, Out.bind] at h
    split at h
    · simp [h3] at h
    all_goals cases h
  · have h128 : ¬ b ≥ 128 := by omega
    have h64 : ¬ b ≥ 64 := by omega
    have h32 : ¬ b ≥ 32 := by omega
    simp [h128, h64, h32, show b ≥ 8 from h1] at h

/-- A static index outside the table (≥ 99 for the regenerated table) is rejected. -/
theorem rejects_bad_static_index (s s1 : St) (b idx : Nat) (hb : b ≥ 128)
    (h : readPrefixedIntWithByte s b 6 = .ok idx s1) (hidx : idx ≥ 99) :
    ∀ H : Huff, ∃ e, decodeFieldLine H Gen.C33.staticTable s b = .err e s1 := by
  intro H
  have hnone : Gen.C33.staticTable[idx]? = none := by
    apply List.getElem?_eq_none; rw [gen_staticTable_length]; exact hidx
  unfold decodeFieldLine
  simp only [hb, if_true, decodeIndexedFieldLine, Out.bind, h, staticTableEntry, hnone]
  split
  · exact ⟨_, rfl⟩
  · exact ⟨_, rfl⟩

/-- An invalid Huffman string is rejected. -/
theorem rejects_bad_huffman (H : Huff) (s s1 s3 : St) (first p size : Nat) (data : List Nat)
    (h1 : readPrefixedIntWithByte s first p = .ok size s1)
    (hlim : ¬ (s1.lim ≥ 0 ∧ (size : Int) > s1.lim))
    (h3 : readFull { s1 with allocs := (2 * min size s1.data.length + 512, s1.data.length) :: s1.allocs } size = .ok data s3)
    (hbit : first / 2 ^ p % 2 = 1) (hbad : H.dec data = none) :
    readPrefixedStringWithByte H s first p = .err (.plain cQpackDecompressionFailed) s3 := by
  unfold readPrefixedStringWithByte
  rw [h1]; simp only [hlim, if_false]; rw [h3]; simp [hbit, hbad, qpackErr]

/-! Names are non-empty and pseudo-headers precede regular fields in everything handed to the
callback, whatever the input bytes and however the decode ends (`PseudoFirst false`). -/

/-- The `sawNonPseudo` flag after delivering `fs`. -/
def sawAfter : Bool → List Field → Bool
  | saw, [] => saw
  | saw, f :: fs =>
    (match f.name with
     | [] => sawAfter saw fs
     | c :: _ => if c = 58 then sawAfter saw fs else sawAfter true fs)

theorem pseudoFirst_snoc (f : Field) (c : Nat) (cs : List Nat) (hname : f.name = c :: cs) :
    ∀ (acc : List Field) (saw0 : Bool), PseudoFirst saw0 acc → (c = 58 → sawAfter saw0 acc = false) →
    PseudoFirst saw0 (acc ++ [f]) ∧ sawAfter saw0 (acc ++ [f]) = (if c = 58 then sawAfter saw0 acc else true) := by
  intro acc
  induction acc with
  | nil =>
    intro saw0 _ h
    simp only [List.nil_append, PseudoFirst, sawAfter, hname]
    by_cases hc : c = 58
    · simp [hc] at h ⊢; exact h
    · simp [hc]
  | cons g acc ih =>
    intro saw0 hpf h
    simp only [List.cons_append, PseudoFirst, sawAfter] at hpf h ⊢
    cases hg : g.name with
    | nil => simp [hg] at hpf
    | cons d ds =>
      simp only [hg] at hpf h ⊢
      by_cases hd : d = 58
      · simp only [hd, if_true] at hpf h ⊢
        obtain ⟨r1, r2⟩ := ih saw0 hpf.2 h
        exact ⟨⟨hpf.1, r1⟩, r2⟩
      · simp only [hd, if_false] at hpf h ⊢
        exact ih true hpf h

theorem decodeLoop_fields_ok (H : Huff) (tbl : List (List Nat × List Nat)) :
    ∀ (fuel : Nat) (s : St) (saw : Bool) (acc : List Field),
    PseudoFirst false acc → sawAfter false acc = saw →
    PseudoFirst false (decodeLoop H tbl fuel s saw acc).fields := by
  intro fuel
  induction fuel with
  | zero => intro s saw acc h _; simpa [decodeLoop] using h
  | succ k ih =>
    intro s saw acc hacc hsaw
    unfold decodeLoop
    split
    · split
      · split
        · rename_i f s2 _
          split
          · exact hacc
          · rename_i c cs hname
            split
            · split
              · exact hacc
              · rename_i hc hs
                have := pseudoFirst_snoc f c cs hname acc false hacc (by intro _; rw [hsaw]; simpa using hs)
                exact ih s2 saw (acc ++ [f]) this.1 (by rw [this.2]; simp [hc, hsaw])
            · rename_i hc
              have := pseudoFirst_snoc f c cs hname acc false hacc (by intro h; exact absurd h hc)
              exact ih s2 true (acc ++ [f]) this.1 (by rw [this.2]; simp [hc])
        all_goals exact hacc
      all_goals exact hacc
    · exact hacc

/-- For arbitrary bytes: no empty name and no pseudo-header after a regular field ever reaches the callback. -/
theorem decode_fields_ok (H : Huff) (tbl : List (List Nat × List Nat)) (s : St) :
    PseudoFirst false (decode H tbl s).fields := by
  unfold decode
  split
  · split
    · simp [PseudoFirst]
    · split
      · exact decodeLoop_fields_ok H tbl _ _ false [] (by simp [PseudoFirst]) rfl
      all_goals simp [PseudoFirst]
  all_goals simp [PseudoFirst]

/-- Empty names and misplaced pseudo-headers end the decode with H3_MESSAGE_ERROR: one loop step. -/
theorem rejects_empty_name_or_late_pseudo (H : Huff) (tbl : List (List Nat × List Nat)) (fuel : Nat)
    (s s1 s2 : St) (saw : Bool) (acc : List Field) (b : Nat) (f : Field)
    (hlim : s.lim > 0) (hb : readByte s = .ok b s1) (hf : decodeFieldLine H tbl s1 b = .ok f s2)
    (hbad : f.name = [] ∨ (∃ cs, f.name = 58 :: cs ∧ saw = true)) :
    decodeLoop H tbl (fuel + 1) s saw acc = ⟨acc, .err (.plain cMessageError) s2⟩ := by
  unfold decodeLoop
  simp only [hlim, if_true, hb, hf]
  rcases hbad with h | ⟨cs, h, hs⟩
  · simp [h]
  · simp [h, hs]

/-- First bytes below 8 match no representation and are rejected as an empty name. -/
theorem unassigned_first_byte_empty_name (H : Huff) (tbl : List (List Nat × List Nat)) (s : St) (b : Nat) (hb : b < 8) :
    decodeFieldLine H tbl s b = .ok ⟨false, [], []⟩ s := by
  unfold decodeFieldLine
  have h1 : ¬ b ≥ 128 := by omega
  have h2 : ¬ b ≥ 64 := by omega
  have h3 : ¬ b ≥ 32 := by omega
  have h4 : ¬ b ≥ 8 := by omega
  simp [h1, h2, h3, h4]

/-! ### Peer-controlled allocations

Before the repair (`fix: internal/http3: do not allocate a peer-declared QPACK string length up front`)
`readPrefixedStringWithByte` did `make([]byte, size)` and the statement below was FALSE
(witness: 2^42 bytes allocated for a 9-byte section). The repaired code grows the buffer as
bytes arrive; the model records the capacity bound `2 * (bytes obtained) + 512`. -/

def finalSt {α : Type} : Out α → Option St
  | .ok _ s => some s
  | .err _ s => some s
  | .panic => none
  | .hang => none

open NetVerif.Proofs.H3Safe in
/-- "Allocations are bounded by the bytes actually received", for every decode on a live stream,
whatever the bytes, the declared frame length and the way the decode ends. -/
def AllocStatement : Prop :=
  ∀ (H : Huff) (tbl : List (List Nat × List Nat)) (s : St), s.dead = false → AllocsBounded s →
    (decode H tbl s).final ≠ .panic ∧
    ∀ st', finalSt (decode H tbl s).final = some st' → AllocsBounded st'

open NetVerif.Proofs.H3Safe in
theorem alloc_holds : AllocStatement := by
  intro H tbl s hd hb
  have h := safe_decode H tbl s ⟨hd, hb⟩
  revert h
  cases (decode H tbl s).final with
  | ok a s' => intro h; exact ⟨by simp, by intro st' hs; simp [finalSt] at hs; subst hs; exact h.2⟩
  | err e s' => intro h; exact ⟨by simp, by intro st' hs; simp [finalSt] at hs; subst hs; exact h.2⟩
  | panic => intro h; exact False.elim h
  | hang => intro _; exact ⟨by simp, by intro st' hs; simp [finalSt] at hs⟩

def Hid : Huff := { encLen := fun s => s.length, enc := fun s => s, dec := fun s => some s }

/-- The old witness of DESIGN §10 (literal of length 2^42 in a frame of declared length 2^62 - 1). -/
def allocWitnessBig : St :=
  { St.fresh [0, 0, 0x27, 0xf9, 0xff, 0xff, 0xff, 0xff, 0x7f] with lim := 4611686018427387903 }

/-- On the repaired model the old witness is rejected after a 512-byte allocation. -/
example : (decode Hid [] allocWitnessBig).final =
    .err (.plain cQpackDecompressionFailed)
      { data := [], primed := true, dead := false, lim := 4611686018427387894, allocs := [(512, 0)] } := by rfl

example : NetVerif.Proofs.H3Safe.AllocsBounded
    { data := [], primed := true, dead := false, lim := 4611686018427387894, allocs := [(512, 0)] } := by
  intro a ha; simp at ha; subst ha; simp

/-- The frame-limit guard is still there: a declared literal length beyond the remaining declared
frame length is rejected before anything is read. -/
theorem alloc_guard (H : Huff) (s s1 : St) (first p size : Nat)
    (h1 : readPrefixedIntWithByte s first p = .ok size s1) (hl : s1.lim ≥ 0) (hbig : (size : Int) > s1.lim) :
    readPrefixedStringWithByte H s first p = .err (.plain cQpackDecompressionFailed) s1 := by
  unfold readPrefixedStringWithByte
  rw [h1]
  simp [hl, hbig, qpackErr]

end NetVerif.Proofs.C33
