import NetVerif.Model.Rangeset
/-!
C24 — QUIC range sets behave exactly like integer sets.
-/
namespace NetVerif.Proofs.C24
open NetVerif.Model.Rangeset

/-- Set semantics of a range list. -/
def Mem (l : RS) (x : Int) : Prop := ∃ r ∈ l, r.s ≤ x ∧ x < r.e

/-- Every range is non-empty and starts strictly after `b`, the end of its
predecessor: sorted, pairwise disjoint, non-adjacent. -/
def Chain (b : Int) : List Rg → Prop
  | [] => True
  | r :: rest => b < r.s ∧ r.s < r.e ∧ Chain r.e rest

/-- Well-formed range list: sorted, non-empty ranges, disjoint, non-adjacent. -/
def WF (l : RS) : Prop := ∃ b, Chain b l

@[simp] theorem mem_nil (x : Int) : Mem [] x ↔ False := by simp [Mem]

@[simp] theorem mem_cons (r : Rg) (l : RS) (x : Int) :
    Mem (r :: l) x ↔ ((r.s ≤ x ∧ x < r.e) ∨ Mem l x) := by simp [Mem]

theorem chain_mono {b b' : Int} {l : RS} (h : Chain b l) (hb : b' ≤ b) : Chain b' l := by
  cases l with
  | nil => trivial
  | cons r rest => exact ⟨by have := h.1; omega, h.2.1, h.2.2⟩

theorem chain_lt_of_mem {b : Int} {l : RS} (h : Chain b l) {x : Int} (hx : Mem l x) : b < x := by
  induction l generalizing b with
  | nil => simp at hx
  | cons r rest ih =>
    rcases (mem_cons r rest x).1 hx with h1 | h1
    · have := h.1; omega
    · have := ih h.2.2 h1; have := h.1; have := h.2.1; omega

theorem wf_cons_iff (r : Rg) (rest : RS) : WF (r :: rest) ↔ r.s < r.e ∧ Chain r.e rest := by
  constructor
  · rintro ⟨b, h⟩; exact ⟨h.2.1, h.2.2⟩
  · rintro ⟨h1, h2⟩; exact ⟨r.s - 1, by omega, h1, h2⟩

theorem removeranges_one (a : Rg) (rest : RS) (k : Nat) :
    removeranges (a :: rest) 1 (1 + k) = a :: rest.drop k := by
  unfold removeranges
  by_cases hk : k = 0
  · subst hk; simp
  · simp [Nat.add_comm 1 k, hk]

/-- The coalescing loop: the merged end only grows, what is left is a chain strictly
beyond it, and `[lo, e) ∪ rest = [lo, e') ∪ (rest minus the absorbed ranges)`. -/
theorem coalesce_spec (rest : RS) : ∀ (b e lo : Int), Chain b rest → lo ≤ b → b ≤ e →
    e ≤ (coalesce e rest).1 ∧ Chain (coalesce e rest).1 (rest.drop (coalesce e rest).2) ∧
    ∀ x, ((lo ≤ x ∧ x < (coalesce e rest).1) ∨ Mem (rest.drop (coalesce e rest).2) x) ↔
         ((lo ≤ x ∧ x < e) ∨ Mem rest x) := by
  induction rest with
  | nil => intro b e lo _ _ _; simp [coalesce, Chain]
  | cons r rest ih =>
    intro b e lo hc hlo hbe
    obtain ⟨h1, h2, h3⟩ := hc
    unfold coalesce
    by_cases hge : e ≥ r.s
    · simp only [hge, if_true, List.drop_succ_cons]
      generalize he' : (if r.e > e then r.e else e) = e'
      have hE : e ≤ e' ∧ r.e ≤ e' ∧ (e' = r.e ∨ e' = e) := by
        subst he'; split <;> omega
      obtain ⟨i1, i2, i3⟩ := ih r.e e' lo h3 (by omega) (by omega)
      refine ⟨by omega, i2, ?_⟩
      intro x
      rw [i3 x, mem_cons]
      constructor
      · rintro (h | h)
        · by_cases hx : x < e
          · left; omega
          · right; left; omega
        · right; right; exact h
      · rintro (h | h | h)
        · left; omega
        · left; omega
        · right; exact h
    · simp only [hge, if_false, List.drop_zero]
      exact ⟨by omega, ⟨by omega, h2, h3⟩, fun _ => trivial⟩

/-- The `add` loop on a chain: the result is a chain with the same lower bound and
denotes the union. -/
theorem addLoop_spec (l : RS) : ∀ (b st en : Int), Chain b l → b < st → st < en →
    Chain b (addLoop st en l) ∧
    ∀ x, Mem (addLoop st en l) x ↔ (Mem l x ∨ (st ≤ x ∧ x < en)) := by
  induction l with
  | nil =>
    intro b st en _ hb hse
    simp [addLoop, Chain, hb, hse]
  | cons r rest ih =>
    intro b st en hc hb hse
    obtain ⟨h1, h2, h3⟩ := hc
    unfold addLoop
    by_cases c1 : r.s > en
    · simp only [c1, if_true]
      refine ⟨⟨hb, hse, by omega, h2, h3⟩, ?_⟩
      intro x; simp only [mem_cons]
      constructor
      · rintro (h | h | h)
        · right; exact h
        · left; left; exact h
        · left; right; exact h
      · rintro ((h | h) | h)
        · right; left; exact h
        · right; right; exact h
        · left; exact h
    · simp only [c1, if_false]
      by_cases c2 : st > r.e
      · simp only [c2, if_true]
        obtain ⟨i1, i2⟩ := ih r.e st en h3 (by omega) hse
        refine ⟨⟨h1, h2, i1⟩, ?_⟩
        intro x; simp only [mem_cons, i2 x]
        constructor
        · rintro (h | h | h)
          · left; left; exact h
          · left; right; exact h
          · right; exact h
        · rintro ((h | h) | h)
          · left; exact h
          · right; left; exact h
          · right; right; exact h
      · simp only [c2, if_false]
        generalize hs' : (if st < r.s then st else r.s) = s'
        have hS : s' ≤ st ∧ s' ≤ r.s ∧ (s' = st ∨ s' = r.s) := by subst hs'; split <;> omega
        by_cases c3 : en ≤ r.e
        · simp only [c3, if_true]
          refine ⟨⟨by show b < s'; omega, by show s' < r.e; omega, h3⟩, ?_⟩
          intro x; simp only [mem_cons]
          constructor
          · rintro (h | h)
            · by_cases hx : r.s ≤ x
              · left; left; omega
              · right; omega
            · left; right; exact h
          · rintro ((h | h) | h)
            · left; omega
            · right; exact h
            · left; omega
        · simp only [c3, if_false]
          rw [removeranges_one]
          obtain ⟨j1, j2, j3⟩ := coalesce_spec rest r.e en s' h3 (by omega) (by omega)
          refine ⟨⟨by show b < s'; omega, by show s' < (coalesce en rest).1; omega, j2⟩, ?_⟩
          intro x; rw [mem_cons, j3 x, mem_cons]
          constructor
          · rintro (h | h)
            · by_cases hx : r.s ≤ x ∧ x < r.e
              · left; left; exact hx
              · right; omega
            · left; right; exact h
          · rintro ((h | h) | h)
            · left; omega
            · right; exact h
            · left; omega

/-- **add, set semantics, every pair of arguments**: `add(start, end)` denotes the union with
`[start, end)`; an empty or inverted range (`start ≥ end`) denotes the empty set and is a no-op. -/
theorem mem_add_all (l : RS) (st en : Int) (hwf : WF l) (x : Int) :
    Mem (add l st en) x ↔ (Mem l x ∨ (st ≤ x ∧ x < en)) := by
  unfold add
  by_cases he : st ≥ en
  · rw [if_pos he]
    constructor
    · intro h; left; exact h
    · rintro (h | h)
      · exact h
      · omega
  · rw [if_neg he]
    obtain ⟨b, hb⟩ := hwf
    have hc : Chain (Min.min b (st - 1)) l := chain_mono hb (by omega)
    exact (addLoop_spec l _ st en hc (by omega) (by omega)).2 x

/-- **add preserves well-formedness** (sorted, non-empty, disjoint, non-adjacent), every pair of arguments. -/
theorem wf_add_all (l : RS) (st en : Int) (hwf : WF l) : WF (add l st en) := by
  unfold add
  by_cases he : st ≥ en
  · rw [if_pos he]; exact hwf
  · rw [if_neg he]
    obtain ⟨b, hb⟩ := hwf
    have hc : Chain (Min.min b (st - 1)) l := chain_mono hb (by omega)
    exact ⟨_, (addLoop_spec l _ st en hc (by omega) (by omega)).1⟩

/-- **add, set semantics** (signature kept for importers; the order hypothesis is no longer needed). -/
theorem mem_add (l : RS) (st en : Int) (hwf : WF l) (_h : st ≤ en) (x : Int) :
    Mem (add l st en) x ↔ (Mem l x ∨ (st ≤ x ∧ x < en)) := mem_add_all l st en hwf x

/-- **add preserves well-formedness** (signature kept for importers). -/
theorem wf_add (l : RS) (st en : Int) (hwf : WF l) (_h : st ≤ en) : WF (add l st en) := wf_add_all l st en hwf

/-! ### sub -/

/-- What the `sub` loop computes on a sorted list, written as a plain recursion
(whole ranges are dropped one by one instead of by a final `removeranges`). -/
def subS (st en : Int) : List Rg → List Rg
  | [] => []
  | r :: rest =>
    if en < r.s then r :: rest
    else if r.e < st then r :: subS st en rest
    else if st ≤ r.s ∧ en ≥ r.e then subS st en rest
    else if st ≤ r.s then ⟨en, r.e⟩ :: subS st en rest
    else if en ≥ r.e then ⟨r.s, st⟩ :: subS st en rest
    else ⟨r.s, st⟩ :: ⟨en, r.e⟩ :: rest

/-- The tail of `sub` after the loop, with the already processed prefix `pre` made explicit. -/
def finish (pre : List Rg) (q : SubRes) : List Rg :=
  if q.early then pre ++ q.l
  else match q.rf with
    | none => pre ++ q.l
    | some f => removeranges (pre ++ q.l) f q.rt

theorem sub_eq_finish (l : RS) (st en : Int) (hlt : st < en) :
    sub l st en = finish [] (subLoop st en l 0 none 0) := by
  unfold sub; rw [if_neg (by omega)]; rfl

theorem sub_noop (l : RS) (st en : Int) (h : st ≥ en) : sub l st en = l := by
  unfold sub; rw [if_pos h]

theorem sub_empty (l : RS) (st : Int) : sub l st st = l := by
  exact sub_noop l st st (Int.le_refl _)

theorem finish_cons (pre : List Rg) (a : Rg) (q : SubRes) :
    finish pre ⟨a :: q.l, q.rf, q.rt, q.early⟩ = finish (pre ++ [a]) q := by
  simp [finish, List.append_assoc]

theorem removeranges_append (pre l : List Rg) (f : Nat) (hf : f ≤ pre.length) :
    removeranges (pre ++ l) f pre.length = pre.take f ++ l := by
  unfold removeranges
  by_cases h : f = pre.length
  · subst h; simp
  · simp [h, List.take_append_of_le_length hf]

/-- the loop breaks at once. -/
def Brk (en : Int) : List Rg → Prop
  | [] => True
  | r :: _ => en < r.s

theorem subLoop_brk {st en : Int} {l : List Rg} (h : Brk en l) (i : Nat) (rf : Option Nat) (rt : Nat) :
    subLoop st en l i rf rt = ⟨l, rf, rt, false⟩ := by
  cases l with
  | nil => rfl
  | cons r rest => simp only [Brk] at h; simp [subLoop, h]

theorem subS_brk {st en : Int} {l : List Rg} (h : Brk en l) : subS st en l = l := by
  cases l with
  | nil => rfl
  | cons r rest => simp only [Brk] at h; simp [subS, h]

theorem brk_of_chain {b en : Int} {l : List Rg} (h : Chain b l) (hb : en ≤ b) : Brk en l := by
  cases l with
  | nil => trivial
  | cons r rest => have := h.1; show en < r.s; omega

/-- Once `removefrom` is set and `removeto` is the current index, on a chain lying at or after `st`. -/
theorem finish_marked (st en : Int) (l : List Rg) : ∀ (b : Int) (pre : List Rg) (i f : Nat),
    Chain b l → st ≤ b → pre.length = i → f ≤ i →
    finish pre (subLoop st en l i (some f) i) = pre.take f ++ subS st en l := by
  induction l with
  | nil =>
    intro b pre i f _ _ hi hf
    subst hi
    simp [subLoop, finish, subS]
    have := removeranges_append pre [] f hf
    simpa using this
  | cons r rest ih =>
    intro b pre i f hc hb hi hf
    obtain ⟨h1, h2, h3⟩ := hc
    subst hi
    unfold subLoop subS
    by_cases c1 : en < r.s
    · simp only [c1, if_true]
      simp only [finish]
      exact removeranges_append pre (r :: rest) f hf
    · simp only [c1, if_false]
      have c2 : ¬ (r.e < st) := by omega
      simp only [c2, if_false]
      by_cases c3 : st ≤ r.s ∧ en ≥ r.e
      · simp only [c3, and_self, if_true]
        rw [finish_cons]
        have := ih r.e (pre ++ [r]) (pre.length + 1) f h3 (by omega) (by simp) (by omega)
        rw [this, List.take_append_of_le_length hf]
      · simp only [c3, if_false]
        have c4 : st ≤ r.s := by omega
        simp only [c4, if_true]
        have hbrk : Brk en rest := brk_of_chain h3 (by omega)
        rw [subLoop_brk hbrk, subS_brk hbrk]
        simp only [finish]
        exact removeranges_append pre (⟨en, r.e⟩ :: rest) f hf

/-- The Go loop of `sub` followed by `removeranges` equals the plain recursion on every chain. -/
theorem finish_unmarked (st en : Int) (l : List Rg) : ∀ (b : Int) (pre : List Rg) (i : Nat),
    Chain b l → pre.length = i →
    finish pre (subLoop st en l i none 0) = pre ++ subS st en l := by
  induction l with
  | nil => intro b pre i _ _; simp [subLoop, finish, subS]
  | cons r rest ih =>
    intro b pre i hc hi
    obtain ⟨h1, h2, h3⟩ := hc
    subst hi
    unfold subLoop subS
    by_cases c1 : en < r.s
    · simp [c1, finish]
    · simp only [c1, if_false]
      by_cases c2 : r.e < st
      · simp only [c2, if_true]
        rw [finish_cons, ih r.e (pre ++ [r]) (pre.length + 1) h3 (by simp)]
        simp
      · simp only [c2, if_false]
        by_cases c3 : st ≤ r.s ∧ en ≥ r.e
        · simp only [c3, and_self, if_true]
          rw [finish_cons]
          have := finish_marked st en rest r.e (pre ++ [r]) (pre.length + 1) pre.length h3 (by omega)
            (by simp) (by omega)
          rw [this]; simp
        · simp only [c3, if_false]
          by_cases c4 : st ≤ r.s
          · simp only [c4, if_true]
            have hbrk : Brk en rest := brk_of_chain h3 (by omega)
            rw [subLoop_brk hbrk, subS_brk hbrk]
            simp [finish]
          · simp only [c4, if_false]
            by_cases c5 : en ≥ r.e
            · simp only [c5, if_true]
              rw [finish_cons, ih r.e (pre ++ [Rg.mk r.s st]) (pre.length + 1) h3 (by simp)]
              simp
            · simp [c5, finish]

/-- `sub` as executed by the Go code (index bookkeeping, one final `removeranges`) equals
the plain recursion on every well-formed set. -/
theorem sub_eq_subS (l : RS) (st en : Int) (hwf : WF l) (hlt : st < en) :
    sub l st en = subS st en l := by
  obtain ⟨b, hb⟩ := hwf
  rw [sub_eq_finish l st en hlt, finish_unmarked st en l b [] 0 hb rfl]; simp

/-- `x` lies strictly inside a stored range. -/
def Inside (l : RS) (x : Int) : Prop := ∃ r ∈ l, r.s < x ∧ x < r.e

theorem inside_cons (r : Rg) (l : RS) (x : Int) :
    Inside (r :: l) x ↔ ((r.s < x ∧ x < r.e) ∨ Inside l x) := by simp [Inside]

theorem subS_spec (st en : Int) (l : RS) : ∀ (b : Int), Chain b l → st ≤ en →
    (∀ x, Mem (subS st en l) x ↔ (Mem l x ∧ ¬ (st ≤ x ∧ x < en))) ∧
    ((st < en ∨ ¬ Inside l st) → Chain b (subS st en l)) := by
  induction l with
  | nil => intro b _ _; simp [subS, Chain]
  | cons r rest ih =>
    intro b hc hse
    obtain ⟨h1, h2, h3⟩ := hc
    obtain ⟨im, ic⟩ := ih r.e h3 hse
    have hrest : ∀ x, Mem rest x → r.e < x := fun x hx => chain_lt_of_mem h3 hx
    have hins : (st < en ∨ ¬ Inside (r :: rest) st) → (st < en ∨ ¬ Inside rest st) := by
      rintro (h | h)
      · left; exact h
      · right; intro h'; exact h ((inside_cons r rest st).2 (Or.inr h'))
    unfold subS
    by_cases c1 : en < r.s
    · simp only [c1, if_true]
      refine ⟨?_, fun _ => ⟨h1, h2, h3⟩⟩
      intro x; rw [mem_cons]
      constructor
      · rintro (h | h)
        · exact ⟨Or.inl h, by omega⟩
        · have := hrest x h; exact ⟨Or.inr h, by omega⟩
      · rintro ⟨h, _⟩; exact h
    · simp only [c1, if_false]
      by_cases c2 : r.e < st
      · simp only [c2, if_true]
        refine ⟨?_, fun hh => ⟨h1, h2, ic (hins hh)⟩⟩
        intro x; rw [mem_cons, mem_cons, im x]
        constructor
        · rintro (h | ⟨h, h'⟩)
          · exact ⟨Or.inl h, by omega⟩
          · exact ⟨Or.inr h, h'⟩
        · rintro ⟨h | h, h'⟩
          · left; exact h
          · right; exact ⟨h, h'⟩
      · simp only [c2, if_false]
        by_cases c3 : st ≤ r.s ∧ en ≥ r.e
        · simp only [c3, and_self, if_true]
          refine ⟨?_, fun hh => chain_mono (ic (hins hh)) (by omega)⟩
          intro x; rw [mem_cons, im x]
          constructor
          · rintro ⟨h, h'⟩; exact ⟨Or.inr h, h'⟩
          · rintro ⟨h | h, h'⟩
            · omega
            · exact ⟨h, h'⟩
        · simp only [c3, if_false]
          by_cases c4 : st ≤ r.s
          · simp only [c4, if_true]
            refine ⟨?_, fun hh => ⟨by show b < en; omega, by show en < r.e; omega, ic (hins hh)⟩⟩
            intro x; rw [mem_cons, mem_cons, im x]
            constructor
            · rintro (h | ⟨h, h'⟩)
              · exact ⟨Or.inl (by simp only [] at h; omega), by simp only [] at h; omega⟩
              · exact ⟨Or.inr h, h'⟩
            · rintro ⟨h | h, h'⟩
              · left; show en ≤ x ∧ x < r.e; omega
              · right; exact ⟨h, h'⟩
          · simp only [c4, if_false]
            by_cases c5 : en ≥ r.e
            · simp only [c5, if_true]
              refine ⟨?_, fun hh => ⟨h1, by show r.s < st; omega, chain_mono (ic (hins hh)) (by show st ≤ r.e; omega)⟩⟩
              intro x; rw [mem_cons, mem_cons, im x]
              constructor
              · rintro (h | ⟨h, h'⟩)
                · exact ⟨Or.inl (by simp only [] at h; omega), by simp only [] at h; omega⟩
                · exact ⟨Or.inr h, h'⟩
              · rintro ⟨h | h, h'⟩
                · left; show r.s ≤ x ∧ x < st; omega
                · right; exact ⟨h, h'⟩
            · simp only [c5, if_false]
              refine ⟨?_, ?_⟩
              · intro x; rw [mem_cons, mem_cons, mem_cons]
                constructor
                · rintro (h | h | h)
                  · exact ⟨Or.inl (by simp only [] at h; omega), by simp only [] at h; omega⟩
                  · exact ⟨Or.inl (by simp only [] at h; omega), by simp only [] at h; omega⟩
                  · have := hrest x h; exact ⟨Or.inr h, by omega⟩
                · rintro ⟨h | h, h'⟩
                  · by_cases hx : x < st
                    · left; show r.s ≤ x ∧ x < st; omega
                    · right; left; show en ≤ x ∧ x < r.e; omega
                  · right; right; exact h
              · intro hh
                have hlt : st < en := by
                  rcases hh with h | h
                  · exact h
                  · exfalso; apply h; rw [inside_cons]; left; omega
                exact ⟨h1, by show r.s < st; omega, by show st < en; exact hlt, by show en < r.e; omega, h3⟩

/-- **sub, set semantics, every pair of arguments**: `sub(start, end)` denotes the difference with
`[start, end)`; an empty or inverted range is a no-op. -/
theorem mem_sub_all (l : RS) (st en : Int) (hwf : WF l) (x : Int) :
    Mem (sub l st en) x ↔ (Mem l x ∧ ¬ (st ≤ x ∧ x < en)) := by
  by_cases he : st ≥ en
  · rw [sub_noop l st en he]
    exact ⟨fun hm => ⟨hm, by omega⟩, fun hm => hm.1⟩
  · rw [sub_eq_subS l st en hwf (by omega)]
    obtain ⟨b, hb⟩ := hwf
    exact (subS_spec st en l b hb (by omega)).1 x

/-- **sub preserves well-formedness** (sorted, non-empty, disjoint, non-adjacent), every pair of arguments. -/
theorem wf_sub_all (l : RS) (st en : Int) (hwf : WF l) : WF (sub l st en) := by
  by_cases he : st ≥ en
  · rw [sub_noop l st en he]; exact hwf
  · rw [sub_eq_subS l st en hwf (by omega)]
    obtain ⟨b, hb⟩ := hwf
    exact ⟨b, (subS_spec st en l b hb (by omega)).2 (Or.inl (by omega))⟩

/-- **sub, set semantics** (signature kept for importers; the order hypothesis is no longer needed). -/
theorem mem_sub (l : RS) (st en : Int) (hwf : WF l) (_h : st ≤ en) (x : Int) :
    Mem (sub l st en) x ↔ (Mem l x ∧ ¬ (st ≤ x ∧ x < en)) := mem_sub_all l st en hwf x

/-- **sub preserves well-formedness** (signature kept for importers). -/
theorem wf_sub (l : RS) (st en : Int) (hwf : WF l) (_h : st ≤ en) : WF (sub l st en) := wf_sub_all l st en hwf

/-- Kept for importers (the exclusion hypothesis is no longer needed since the repair). -/
theorem wf_sub_partial (l : RS) (st en : Int) (hwf : WF l) (h : st ≤ en)
    (_hx : ¬ (st = en ∧ Inside l st)) : WF (sub l st en) := wf_sub l st en hwf h

/-- The literal statement "every `sub` keeps the ranges non-adjacent". -/
def WfSubStatement : Prop := ∀ (l : RS) (st en : Int), WF l → st ≤ en → WF (sub l st en)

/-- It holds (it was false before the repair of `sub`: `sub(5,5)` used to split `[0,10)`). -/
theorem wf_sub_statement_holds : WfSubStatement := fun l st en hwf h => wf_sub l st en hwf h

/-- The old witness now satisfies the statement. -/
example : sub [⟨0, 10⟩] 5 5 = [⟨0, 10⟩] := by decide

/-! ### queries -/

theorem contains_chain (l : RS) : ∀ (b x : Int), Chain b l → (contains l x = true ↔ Mem l x) := by
  induction l with
  | nil => intro b x _; simp [contains]
  | cons r rest ih =>
    intro b x hc
    obtain ⟨h1, h2, h3⟩ := hc
    unfold contains
    rw [mem_cons]
    by_cases c1 : x ≥ r.e
    · rw [if_pos c1, ih r.e x h3]
      constructor
      · intro h; exact Or.inr h
      · rintro (h | h)
        · omega
        · exact h
    · rw [if_neg c1]
      by_cases c2 : r.s ≤ x
      · rw [if_pos c2]
        exact ⟨fun _ => Or.inl ⟨c2, by omega⟩, fun _ => rfl⟩
      · rw [if_neg c2]
        constructor
        · intro h; cases h
        · rintro (h | h)
          · omega
          · have := chain_lt_of_mem h3 h; omega

/-- **contains** answers membership. -/
theorem contains_iff (l : RS) (hwf : WF l) (x : Int) : contains l x = true ↔ Mem l x := by
  obtain ⟨b, hb⟩ := hwf; exact contains_chain l b x hb

theorem rangeContaining_chain (l : RS) : ∀ (b x : Int), Chain b l →
    (Mem l x → rangeContaining l x ∈ l ∧ (rangeContaining l x).s ≤ x ∧ x < (rangeContaining l x).e) ∧
    (¬ Mem l x → rangeContaining l x = ⟨0, 0⟩) := by
  induction l with
  | nil => intro b x _; simp [rangeContaining]
  | cons r rest ih =>
    intro b x hc
    obtain ⟨h1, h2, h3⟩ := hc
    obtain ⟨i1, i2⟩ := ih r.e x h3
    unfold rangeContaining
    rw [mem_cons]
    by_cases c1 : x ≥ r.e
    · rw [if_pos c1]
      constructor
      · rintro (h | h)
        · omega
        · obtain ⟨a, b', c⟩ := i1 h; exact ⟨List.mem_cons_of_mem _ a, b', c⟩
      · intro h; exact i2 (fun h' => h (Or.inr h'))
    · rw [if_neg c1]
      by_cases c2 : r.s ≤ x
      · rw [if_pos c2]
        refine ⟨fun _ => ⟨List.mem_cons_self, c2, by omega⟩, fun h => ?_⟩
        exfalso; apply h; left; omega
      · rw [if_neg c2]
        refine ⟨?_, fun _ => rfl⟩
        rintro (h | h)
        · omega
        · have := chain_lt_of_mem h3 h; omega

/-- **rangeContaining** returns a stored range that contains `x` … -/
theorem rangeContaining_mem (l : RS) (hwf : WF l) (x : Int) (hx : Mem l x) :
    rangeContaining l x ∈ l ∧ (rangeContaining l x).s ≤ x ∧ x < (rangeContaining l x).e := by
  obtain ⟨b, hb⟩ := hwf; exact (rangeContaining_chain l b x hb).1 hx

/-- … and `[0,0)` when `x` is not in the set. -/
theorem rangeContaining_not_mem (l : RS) (hwf : WF l) (x : Int) (hx : ¬ Mem l x) :
    rangeContaining l x = ⟨0, 0⟩ := by
  obtain ⟨b, hb⟩ := hwf; exact (rangeContaining_chain l b x hb).2 hx

theorem chain_bound_of_mem {b : Int} {l : RS} (h : Chain b l) {r : Rg} (hr : r ∈ l) : b < r.s ∧ r.s < r.e := by
  induction l generalizing b with
  | nil => simp at hr
  | cons q rest ih =>
    rcases List.mem_cons.1 hr with h1 | h1
    · subst h1; exact ⟨h.1, h.2.1⟩
    · have := ih h.2.2 h1; have := h.1; have := h.2.1; omega

theorem range_maximal_chain (l : RS) : ∀ (b : Int) (r : Rg), Chain b l → r ∈ l →
    ¬ Mem l (r.s - 1) ∧ ¬ Mem l r.e := by
  induction l with
  | nil => intro b r _ hr; simp at hr
  | cons q rest ih =>
    intro b r hb hr
    obtain ⟨h1, h2, h3⟩ := hb
    rcases List.mem_cons.1 hr with e | hr'
    · subst e
      constructor
      · rw [mem_cons]; rintro (h | h)
        · omega
        · have := chain_lt_of_mem h3 h; omega
      · rw [mem_cons]; rintro (h | h)
        · omega
        · have := chain_lt_of_mem h3 h; omega
    · obtain ⟨j1, j2⟩ := ih q.e r h3 hr'
      have hb := chain_bound_of_mem h3 hr'
      constructor
      · rw [mem_cons]; rintro (h | h)
        · omega
        · exact j1 h
      · rw [mem_cons]; rintro (h | h)
        · omega
        · exact j2 h

/-- Every stored range is a **maximal run** of the set: its members are in the set, the integer
just before it and the integer just after it are not. (So `rangeContaining` returns the maximal
interval of the set around `x`.) -/
theorem range_maximal (l : RS) (hwf : WF l) (r : Rg) (hr : r ∈ l) :
    (∀ x, r.s ≤ x → x < r.e → Mem l x) ∧ ¬ Mem l (r.s - 1) ∧ ¬ Mem l r.e := by
  refine ⟨fun x h1 h2 => ⟨r, hr, h1, h2⟩, ?_⟩
  obtain ⟨b, hb⟩ := hwf
  exact range_maximal_chain l b r hb hr

/-- **min** is the least element (and `0` for the empty set). -/
theorem min_spec (l : RS) (hwf : WF l) :
    (l = [] → Model.Rangeset.min l = 0) ∧ (l ≠ [] → Mem l (Model.Rangeset.min l) ∧ ∀ x, Mem l x → Model.Rangeset.min l ≤ x) := by
  cases l with
  | nil => simp [Model.Rangeset.min]
  | cons r rest =>
    obtain ⟨h2, h3⟩ := (wf_cons_iff r rest).1 hwf
    refine ⟨fun h => by simp at h, fun _ => ⟨?_, ?_⟩⟩
    · show Mem (r :: rest) r.s; rw [mem_cons]; left; omega
    · intro x hx; show r.s ≤ x
      rcases (mem_cons r rest x).1 hx with h | h
      · omega
      · have := chain_lt_of_mem h3 h; omega

theorem last_chain (l : RS) : ∀ (b : Int), Chain b l → l ≠ [] →
    ∃ r, l.getLast? = some r ∧ r ∈ l ∧ ∀ x, Mem l x → x < r.e := by
  induction l with
  | nil => intro b _ h; exact absurd rfl h
  | cons q rest ih =>
    intro b hb _
    obtain ⟨h1, h2, h3⟩ := hb
    cases rest with
    | nil =>
      refine ⟨q, rfl, List.mem_cons_self, ?_⟩
      intro x hx; simp at hx; omega
    | cons q' rest' =>
      obtain ⟨r, e1, e2, e3⟩ := ih q.e h3 (by simp)
      refine ⟨r, by rw [List.getLast?_cons_cons]; exact e1, List.mem_cons_of_mem _ e2, ?_⟩
      intro x hx
      rcases (mem_cons q _ x).1 hx with h | h
      · have hq := chain_bound_of_mem h3 e2; omega
      · exact e3 x h

/-- int64 range of every stored endpoint (a typing fact of `rangeset[int64]`). -/
def InBounds (l : RS) : Prop := ∀ r ∈ l, -9223372036854775808 ≤ r.s ∧ r.e ≤ 9223372036854775807

theorem wrap64_id (x : Int) (h1 : -9223372036854775808 ≤ x) (h2 : x ≤ 9223372036854775807) : wrap64 x = x := by
  unfold wrap64; omega

/-- **end** is one past the greatest element, **max** is the greatest element (`0` for the empty set). -/
theorem max_end_spec (l : RS) (hwf : WF l) (hb : InBounds l) :
    (l = [] → Model.Rangeset.max l = 0 ∧ end_ l = 0) ∧
    (l ≠ [] → end_ l = Model.Rangeset.max l + 1 ∧ Mem l (Model.Rangeset.max l) ∧ ∀ x, Mem l x → x ≤ Model.Rangeset.max l) := by
  constructor
  · intro h; subst h; simp [Model.Rangeset.max, end_]
  · intro hne
    obtain ⟨b, hc⟩ := hwf
    obtain ⟨r, e1, e2, e3⟩ := last_chain l b hc hne
    have hr := chain_bound_of_mem hc e2
    have hb' := hb r e2
    have hm : Model.Rangeset.max l = r.e - 1 := by
      unfold Model.Rangeset.max; rw [e1]; exact wrap64_id _ (by omega) (by omega)
    have he : end_ l = r.e := by unfold end_; rw [e1]
    rw [hm, he]
    refine ⟨by omega, ⟨r, e2, by omega, by omega⟩, ?_⟩
    intro x hx; have := e3 x hx; omega

/-- **numRanges** is the length of the canonical list. -/
theorem numRanges_eq (l : RS) : numRanges l = l.length := rfl

/-! ### canonical form -/

theorem chain_head_le {b : Int} {q : Rg} {l : RS} (h : Chain b (q :: l)) {x : Int} (hx : Mem (q :: l) x) : q.s ≤ x := by
  rcases (mem_cons q l x).1 hx with h1 | h1
  · omega
  · have := chain_lt_of_mem h.2.2 h1; have := h.2.1; omega

theorem canonical_chain (a : RS) : ∀ (b : RS) (ba bb : Int), Chain ba a → Chain bb b →
    (∀ x, Mem a x ↔ Mem b x) → a = b := by
  induction a with
  | nil =>
    intro b ba bb _ hb h
    cases b with
    | nil => rfl
    | cons q b' =>
      exfalso
      have : Mem (q :: b') q.s := by rw [mem_cons]; left; have := hb.2.1; omega
      exact (mem_nil q.s).1 ((h q.s).2 this)
  | cons r a' ih =>
    intro b ba bb ha hb h
    cases b with
    | nil =>
      exfalso
      have : Mem (r :: a') r.s := by rw [mem_cons]; left; have := ha.2.1; omega
      exact (mem_nil r.s).1 ((h r.s).1 this)
    | cons q b' =>
      have ha2 := ha.2.1
      have hb2 := hb.2.1
      have m1 : Mem (r :: a') r.s := by rw [mem_cons]; left; omega
      have m2 : Mem (q :: b') q.s := by rw [mem_cons]; left; omega
      have s1 : q.s ≤ r.s := chain_head_le hb ((h r.s).1 m1)
      have s2 : r.s ≤ q.s := chain_head_le ha ((h q.s).2 m2)
      have hs : r.s = q.s := by omega
      have he : r.e = q.e := by
        rcases Int.lt_trichotomy r.e q.e with hlt | heq | hgt
        · exfalso
          have : Mem (q :: b') r.e := by rw [mem_cons]; left; omega
          rcases (mem_cons r a' r.e).1 ((h r.e).2 this) with h1 | h1
          · omega
          · have := chain_lt_of_mem ha.2.2 h1; omega
        · exact heq
        · exfalso
          have : Mem (r :: a') q.e := by rw [mem_cons]; left; omega
          rcases (mem_cons q b' q.e).1 ((h q.e).1 this) with h1 | h1
          · omega
          · have := chain_lt_of_mem hb.2.2 h1; omega
      have hrq : r = q := by
        cases r; cases q; simp only [Rg.mk.injEq]; exact ⟨hs, he⟩
      subst hrq
      have htl : ∀ x, Mem a' x ↔ Mem b' x := by
        intro x
        constructor
        · intro hx
          have hgt := chain_lt_of_mem ha.2.2 hx
          rcases (mem_cons r b' x).1 ((h x).1 ((mem_cons r a' x).2 (Or.inr hx))) with h1 | h1
          · omega
          · exact h1
        · intro hx
          have hgt := chain_lt_of_mem hb.2.2 hx
          rcases (mem_cons r a' x).1 ((h x).2 ((mem_cons r b' x).2 (Or.inr hx))) with h1 | h1
          · omega
          · exact h1
      rw [ih b' r.e r.e ha.2.2 hb.2.2 htl]

/-- **Canonical form**: two well-formed range lists denoting the same set are equal, so any correct
implementation that keeps the representation invariant agrees with this model list for list. -/
theorem canonical (a b : RS) (ha : WF a) (hb : WF b) (h : ∀ x, Mem a x ↔ Mem b x) : a = b := by
  obtain ⟨ba, ha⟩ := ha
  obtain ⟨bb, hb⟩ := hb
  exact canonical_chain a b ba bb ha hb h

/-- **isrange** on a non-empty interval: true exactly when the set is `[start, end)`. -/
theorem isrange_iff (l : RS) (st en : Int) (hwf : WF l) (h : st < en) :
    isrange l st en = true ↔ ∀ x, Mem l x ↔ (st ≤ x ∧ x < en) := by
  constructor
  · intro hi
    match l, hi with
    | [], hi => simp [isrange] at hi; omega
    | [r], hi =>
      simp [isrange] at hi
      intro x; rw [mem_cons, hi.1, hi.2]; simp
    | _ :: _ :: _, hi => simp [isrange] at hi
  · intro hm
    have hw : WF [Rg.mk st en] := ⟨st - 1, by show st - 1 < st; omega, h, trivial⟩
    have : l = [Rg.mk st en] := canonical l _ hwf hw (by intro x; rw [hm x, mem_cons]; simp)
    subst this; simp [isrange]

/-- **isrange** on an empty interval: only the literal `(0, 0)` on the empty set (Go: `case 0: return start == 0 && end == 0`). -/
theorem isrange_empty_iff (l : RS) (st en : Int) (hwf : WF l) (h : en ≤ st) :
    isrange l st en = true ↔ (l = [] ∧ st = 0 ∧ en = 0) := by
  match l, hwf with
  | [], _ => simp [isrange]
  | [r], hwf =>
    have := ((wf_cons_iff r []).1 hwf).1
    simp [isrange]; omega
  | _ :: _ :: _, _ => simp [isrange]

/-! ### size -/

/-- The integers of one range, in increasing order. -/
def seg (r : Rg) : List Int := (List.range (r.e - r.s).toNat).map (fun (i : Nat) => r.s + (i : Int))

/-- All elements of the set, enumerated range by range. -/
def elems : RS → List Int
  | [] => []
  | r :: rest => seg r ++ elems rest

theorem mem_seg (r : Rg) (x : Int) : x ∈ seg r ↔ (r.s ≤ x ∧ x < r.e) := by
  simp only [seg, List.mem_map, List.mem_range]
  constructor
  · rintro ⟨i, hi, rfl⟩; omega
  · intro h; exact ⟨(x - r.s).toNat, by omega, by omega⟩

theorem seg_sorted (r : Rg) : (seg r).Pairwise (· < ·) := by
  simp only [seg, List.pairwise_map]
  exact List.Pairwise.imp (fun h => by omega) List.pairwise_lt_range

theorem elems_chain (l : RS) : ∀ b, Chain b l →
    ((elems l).length : Int) = sizeZ l ∧ (∀ x, x ∈ elems l ↔ Mem l x) ∧ (elems l).Pairwise (· < ·) := by
  induction l with
  | nil => intro b _; simp [elems, sizeZ]
  | cons r rest ih =>
    intro b hc
    obtain ⟨h1, h2, h3⟩ := hc
    obtain ⟨i1, i2, i3⟩ := ih r.e h3
    refine ⟨?_, ?_, ?_⟩
    · simp only [elems, List.length_append, sizeZ, seg, List.length_map, List.length_range]
      push_cast; omega
    · intro x; simp only [elems, List.mem_append, mem_seg, mem_cons, i2 x]
    · simp only [elems]
      rw [List.pairwise_append]
      refine ⟨seg_sorted r, i3, ?_⟩
      intro a ha c hc'
      have := (mem_seg r a).1 ha
      have := chain_lt_of_mem h3 ((i2 c).1 hc')
      omega

/-- **size**: the exact sum of the range sizes is the number of integers in the set — `elems l`
enumerates the set strictly increasingly (hence without repetition) and has that length. -/
theorem size_card (l : RS) (hwf : WF l) :
    ((elems l).length : Int) = sizeZ l ∧ (∀ x, x ∈ elems l ↔ Mem l x) ∧ (elems l).Pairwise (· < ·) := by
  obtain ⟨b, hb⟩ := hwf; exact elems_chain l b hb

/-- `size()` is that number whenever it fits int64 (Go's running sum wraps otherwise). -/
theorem size_eq_card (l : RS) (hwf : WF l) (h : sizeZ l ≤ 9223372036854775807) :
    size l = ((elems l).length : Int) := by
  have h0 := (size_card l hwf).1
  unfold size; rw [wrap64_id _ (by omega) h]; exact h0.symm

/-! ### all histories -/

/-- Contract of one operation: a range has `start ≤ end` (the state argument is kept for importers). -/
def OpOk (_l : RS) : Op → Prop
  | .add st en => st ≤ en
  | .sub st en => st ≤ en

def Valid : List Op → RS → Prop
  | [], _ => True
  | op :: ops, l => OpOk l op ∧ Valid ops (applyOp l op)

/-- The mathematical set, as a predicate, after one operation. -/
def specStep (S : Int → Prop) : Op → Int → Prop
  | .add st en => fun x => S x ∨ (st ≤ x ∧ x < en)
  | .sub st en => fun x => S x ∧ ¬ (st ≤ x ∧ x < en)

def specRun (ops : List Op) (S : Int → Prop) : Int → Prop := ops.foldl specStep S

/-- Refinement, by induction over the history. -/
theorem history_refines (ops : List Op) : ∀ (l : RS) (S : Int → Prop), WF l → (∀ x, Mem l x ↔ S x) →
    Valid ops l → WF (run ops l) ∧ ∀ x, Mem (run ops l) x ↔ specRun ops S x := by
  induction ops with
  | nil => intro l S hwf hm _; exact ⟨hwf, hm⟩
  | cons op ops ih =>
    intro l S hwf hm hv
    obtain ⟨hok, hv'⟩ := hv
    show WF (run ops (applyOp l op)) ∧ ∀ x, Mem (run ops (applyOp l op)) x ↔ specRun ops (specStep S op) x
    apply ih (applyOp l op) (specStep S op) _ _ hv'
    · cases op with
      | add st en => exact wf_add l st en hwf hok
      | sub st en => exact wf_sub l st en hwf hok
    · intro x
      cases op with
      | add st en =>
        show Mem (add l st en) x ↔ (S x ∨ (st ≤ x ∧ x < en))
        rw [mem_add l st en hwf hok x, hm x]
      | sub st en =>
        show Mem (sub l st en) x ↔ (S x ∧ ¬ (st ≤ x ∧ x < en))
        rw [mem_sub l st en hwf hok x, hm x]

/-- Operations on ranges: `start ≤ end` (empty ranges included). -/
def Ordered : Op → Prop
  | .add st en => st ≤ en
  | .sub st en => st ≤ en

theorem valid_of_ordered (ops : List Op) : ∀ l, (∀ op ∈ ops, Ordered op) → Valid ops l := by
  induction ops with
  | nil => intro _ _; trivial
  | cons op ops ih =>
    intro l h
    refine ⟨?_, ih _ (fun o ho => h o (List.mem_cons_of_mem _ ho))⟩
    have := h op List.mem_cons_self
    cases op with
    | add st en => exact this
    | sub st en => exact this

/-- **C24 over all histories**: after any sequence of `add`/`sub` of ranges (`start ≤ end`) the list is
sorted, non-empty ranges, disjoint, non-adjacent, and denotes exactly the mathematical set. -/
theorem history_correct (ops : List Op) (h : ∀ op ∈ ops, Ordered op) :
    WF (run ops []) ∧ ∀ x, Mem (run ops []) x ↔ specRun ops (fun _ => False) x :=
  history_refines ops [] (fun _ => False) ⟨0, trivial⟩ (fun x => by simp) (valid_of_ordered ops [] h)

/-- Query answers after any history are those of the mathematical set. -/
theorem history_contains (ops : List Op) (h : ∀ op ∈ ops, Ordered op) (x : Int) :
    contains (run ops []) x = true ↔ specRun ops (fun _ => False) x := by
  obtain ⟨hw, hm⟩ := history_correct ops h
  rw [contains_iff _ hw x, hm x]

/-- Two histories that denote the same set produce the same list (representation is canonical). -/
theorem history_canonical (ops ops' : List Op) (h : ∀ op ∈ ops, Ordered op) (h' : ∀ op ∈ ops', Ordered op)
    (hs : ∀ x, specRun ops (fun _ => False) x ↔ specRun ops' (fun _ => False) x) :
    run ops [] = run ops' [] := by
  obtain ⟨hw, hm⟩ := history_correct ops h
  obtain ⟨hw', hm'⟩ := history_correct ops' h'
  exact canonical _ _ hw hw' (fun x => by rw [hm x, hm' x, hs x])

/-- **C24 over ALL histories, all int64 (indeed all integer) arguments**, inverted pairs included:
the list is well-formed and denotes exactly the mathematical set. -/
theorem history_all (ops : List Op) : ∀ (l : RS) (S : Int → Prop), WF l → (∀ x, Mem l x ↔ S x) →
    WF (run ops l) ∧ ∀ x, Mem (run ops l) x ↔ specRun ops S x := by
  induction ops with
  | nil => intro l S hwf hm; exact ⟨hwf, hm⟩
  | cons op ops ih =>
    intro l S hwf hm
    show WF (run ops (applyOp l op)) ∧ ∀ x, Mem (run ops (applyOp l op)) x ↔ specRun ops (specStep S op) x
    apply ih (applyOp l op) (specStep S op)
    · cases op with
      | add st en => exact wf_add_all l st en hwf
      | sub st en => exact wf_sub_all l st en hwf
    · intro x
      cases op with
      | add st en =>
        show Mem (add l st en) x ↔ (S x ∨ (st ≤ x ∧ x < en))
        rw [mem_add_all l st en hwf x, hm x]
      | sub st en =>
        show Mem (sub l st en) x ↔ (S x ∧ ¬ (st ≤ x ∧ x < en))
        rw [mem_sub_all l st en hwf x, hm x]

/-- From the empty set, for every operation sequence whatsoever. -/
theorem history_all_from_empty (ops : List Op) :
    WF (run ops []) ∧ ∀ x, Mem (run ops []) x ↔ specRun ops (fun _ => False) x :=
  history_all ops [] (fun _ => False) ⟨0, trivial⟩ (fun x => by simp)

/-- The old witnesses of the inverted-range report now satisfy the statement. -/
example : run [.add 10 5] [] = [] := by decide
example : run [.add 0 20, .sub 10 5] [] = [⟨0, 20⟩] := by decide

/-- The literal statement of C24 (every op with `start ≤ end`). -/
def HistoryStatement : Prop :=
  ∀ ops : List Op, (∀ op ∈ ops, match op with | .add st en => st ≤ en | .sub st en => st ≤ en) →
    WF (run ops [])

/-- It holds at full strength (false before the repair: `add 0 10; sub 5 5` left `[0,5) [5,10)`). -/
theorem history_statement_holds : HistoryStatement := by
  intro ops h
  refine (history_correct ops ?_).1
  intro op hop
  have := h op hop
  cases op with
  | add st en => exact this
  | sub st en => exact this

/-- The old witness now satisfies the statement. -/
example : run [.add 0 10, .sub 5 5] [] = [⟨0, 10⟩] := by decide

/-! ### int64 bounds are preserved (no hypothesis on reachable states) -/

/-- Every stored endpoint lies in `[lo, hi]`. -/
def Bnd (lo hi : Int) (l : RS) : Prop := ∀ r ∈ l, lo ≤ r.s ∧ r.e ≤ hi

theorem bnd_cons {lo hi : Int} {r : Rg} {l : RS} : Bnd lo hi (r :: l) ↔ (lo ≤ r.s ∧ r.e ≤ hi) ∧ Bnd lo hi l := by
  simp [Bnd]

theorem bnd_append {lo hi : Int} {a b : RS} : Bnd lo hi (a ++ b) ↔ Bnd lo hi a ∧ Bnd lo hi b := by
  simp only [Bnd, List.mem_append]
  exact ⟨fun h => ⟨fun r hr => h r (Or.inl hr), fun r hr => h r (Or.inr hr)⟩,
    fun h r hr => hr.elim (h.1 r) (h.2 r)⟩

theorem bnd_take {lo hi : Int} {l : RS} (h : Bnd lo hi l) (k : Nat) : Bnd lo hi (l.take k) :=
  fun r hr => h r (List.mem_of_mem_take hr)

theorem bnd_drop {lo hi : Int} {l : RS} (h : Bnd lo hi l) (k : Nat) : Bnd lo hi (l.drop k) :=
  fun r hr => h r (List.mem_of_mem_drop hr)

theorem bnd_removeranges {lo hi : Int} {l : RS} (h : Bnd lo hi l) (i j : Nat) :
    Bnd lo hi (removeranges l i j) := by
  unfold removeranges
  split
  · exact h
  · exact bnd_append.2 ⟨bnd_take h i, bnd_drop h j⟩

theorem coalesce_le (hi : Int) (rest : RS) : ∀ e, e ≤ hi → (∀ r ∈ rest, r.e ≤ hi) → (coalesce e rest).1 ≤ hi := by
  induction rest with
  | nil => intro e he _; simpa [coalesce] using he
  | cons r rest ih =>
    intro e he hr
    unfold coalesce
    split
    · exact ih _ (by have := hr r List.mem_cons_self; split <;> omega)
        (fun q hq => hr q (List.mem_cons_of_mem _ hq))
    · exact he

theorem bnd_addLoop (lo hi st en : Int) (h1 : lo ≤ st) (h2 : en ≤ hi) (l : RS) :
    Bnd lo hi l → Bnd lo hi (addLoop st en l) := by
  induction l with
  | nil => intro _; unfold addLoop; exact bnd_cons.2 ⟨⟨h1, h2⟩, fun _ h => by simp at h⟩
  | cons r rest ih =>
    intro hb
    obtain ⟨hr, hrest⟩ := bnd_cons.1 hb
    unfold addLoop
    split
    · exact bnd_cons.2 ⟨⟨h1, h2⟩, hb⟩
    · split
      · exact bnd_cons.2 ⟨hr, ih hrest⟩
      · have hs' : lo ≤ (if st < r.s then st else r.s) := by split <;> omega
        simp only
        split
        · exact bnd_cons.2 ⟨⟨hs', hr.2⟩, hrest⟩
        · apply bnd_removeranges
          exact bnd_cons.2 ⟨⟨hs', coalesce_le hi rest en h2 (fun q hq => (hrest q hq).2)⟩, hrest⟩

/-- **add keeps every endpoint within the bounds of its arguments and of the old set.** -/
theorem bnd_add (lo hi : Int) (l : RS) (st en : Int) (h : Bnd lo hi l) (h1 : lo ≤ st) (h2 : en ≤ hi) :
    Bnd lo hi (add l st en) := by
  unfold add; split
  · exact h
  · exact bnd_addLoop lo hi st en h1 h2 l h

theorem bnd_subLoop (lo hi st en : Int) (h1 : lo ≤ en) (h2 : st ≤ hi) (l : RS) :
    ∀ (i : Nat) (rf : Option Nat) (rt : Nat), Bnd lo hi l → Bnd lo hi (subLoop st en l i rf rt).l := by
  induction l with
  | nil => intro i rf rt h; simpa [subLoop] using h
  | cons r rest ih =>
    intro i rf rt hb
    obtain ⟨hr, hrest⟩ := bnd_cons.1 hb
    unfold subLoop
    split
    · exact hb
    · split
      · exact bnd_cons.2 ⟨hr, ih _ _ _ hrest⟩
      · split
        · exact bnd_cons.2 ⟨hr, ih _ _ _ hrest⟩
        · split
          · exact bnd_cons.2 ⟨⟨h1, hr.2⟩, ih _ _ _ hrest⟩
          · split
            · exact bnd_cons.2 ⟨⟨hr.1, h2⟩, ih _ _ _ hrest⟩
            · exact bnd_cons.2 ⟨⟨hr.1, h2⟩, bnd_cons.2 ⟨⟨h1, hr.2⟩, hrest⟩⟩

/-- **sub keeps every endpoint within the bounds of its arguments and of the old set.** -/
theorem bnd_sub (lo hi : Int) (l : RS) (st en : Int) (h : Bnd lo hi l) (h1 : lo ≤ en) (h2 : st ≤ hi) :
    Bnd lo hi (sub l st en) := by
  unfold sub; split
  · exact h
  · have hq := bnd_subLoop lo hi st en h1 h2 l 0 none 0 h
    simp only
    split
    · exact hq
    · split
      · exact hq
      · exact bnd_removeranges hq _ _

theorem inBounds_iff_bnd (l : RS) : InBounds l ↔ Bnd (-9223372036854775808) 9223372036854775807 l := Iff.rfl

/-- The arguments of an operation are int64 values. -/
def I64 (x : Int) : Prop := -9223372036854775808 ≤ x ∧ x ≤ 9223372036854775807

def OpI64 : Op → Prop
  | .add st en => I64 st ∧ I64 en
  | .sub st en => I64 st ∧ I64 en

theorem inBounds_add (l : RS) (st en : Int) (h : InBounds l) (h1 : I64 st) (h2 : I64 en) :
    InBounds (add l st en) := bnd_add _ _ l st en h h1.1 h2.2

theorem inBounds_sub (l : RS) (st en : Int) (h : InBounds l) (h1 : I64 st) (h2 : I64 en) :
    InBounds (sub l st en) := bnd_sub _ _ l st en h h2.1 h1.2

theorem bnd_run (lo hi : Int) (ops : List Op) : ∀ l, Bnd lo hi l →
    (∀ op ∈ ops, match op with | .add st en => lo ≤ st ∧ en ≤ hi | .sub st en => lo ≤ en ∧ st ≤ hi) →
    Bnd lo hi (run ops l) := by
  induction ops with
  | nil => intro l h _; exact h
  | cons op ops ih =>
    intro l h hops
    show Bnd lo hi (run ops (applyOp l op))
    apply ih _ _ (fun o ho => hops o (List.mem_cons_of_mem _ ho))
    have := hops op List.mem_cons_self
    cases op with
    | add st en => exact bnd_add lo hi l st en h this.1 this.2
    | sub st en => exact bnd_sub lo hi l st en h this.1 this.2

/-- **Every state reachable with int64 arguments stores int64 endpoints** (no order needed). -/
theorem inBounds_run (ops : List Op) (h : ∀ op ∈ ops, OpI64 op) : InBounds (run ops []) := by
  apply bnd_run _ _ ops [] (fun _ hr => by simp at hr)
  intro op hop
  have := h op hop
  cases op with
  | add st en => exact ⟨this.1.1, this.2.2⟩
  | sub st en => exact ⟨this.2.1, this.1.2⟩

/-- **min/max/end on every reachable state** (histories of ranges with int64 arguments):
`max_end_spec` without the `InBounds` hypothesis. -/
theorem max_end_reachable (ops : List Op) (h : ∀ op ∈ ops, Ordered op) (h64 : ∀ op ∈ ops, OpI64 op) :
    (run ops [] = [] → Model.Rangeset.max (run ops []) = 0 ∧ end_ (run ops []) = 0) ∧
    (run ops [] ≠ [] → end_ (run ops []) = Model.Rangeset.max (run ops []) + 1 ∧
      Mem (run ops []) (Model.Rangeset.max (run ops [])) ∧
      ∀ x, Mem (run ops []) x → x ≤ Model.Rangeset.max (run ops [])) :=
  max_end_spec _ (history_correct ops h).1 (inBounds_run ops h64)

theorem sizeZ_le (hi : Int) (l : RS) : ∀ (b lo : Int), Chain b l → (∀ r ∈ l, lo ≤ r.s ∧ r.e ≤ hi) → lo ≤ hi →
    sizeZ l ≤ hi - lo := by
  induction l with
  | nil => intro b lo _ _ h; simp only [sizeZ]; omega
  | cons r rest ih =>
    intro b lo hc hb hlo
    have hr := hb r List.mem_cons_self
    have := ih r.e r.e hc.2.2 (fun q hq =>
      ⟨by have := (chain_bound_of_mem hc.2.2 hq).1; omega, (hb q (List.mem_cons_of_mem _ hq)).2⟩) hr.2
    simp only [sizeZ]; omega

/-- **size on every reachable state**: always the number of elements modulo 2^64 (Go's int64 sum) … -/
theorem size_reachable (ops : List Op) (h : ∀ op ∈ ops, Ordered op) :
    size (run ops []) = wrap64 ((elems (run ops [])).length : Int) ∧
    (∀ x, x ∈ elems (run ops []) ↔ specRun ops (fun _ => False) x) ∧
    (elems (run ops [])).Pairwise (· < ·) := by
  obtain ⟨hw, hm⟩ := history_correct ops h
  obtain ⟨c1, c2, c3⟩ := size_card _ hw
  exact ⟨by unfold size; rw [c1], fun x => by rw [c2 x, hm x], c3⟩

/-- … and exactly the number of elements when all arguments are non-negative int64 values (every
use in package quic: packet numbers, stream offsets, connection-ID sequence numbers). -/
theorem size_reachable_nonneg (ops : List Op) (h : ∀ op ∈ ops, Ordered op)
    (hnn : ∀ op ∈ ops, match op with
      | .add st en => 0 ≤ st ∧ en ≤ 9223372036854775807
      | .sub st en => 0 ≤ en ∧ st ≤ 9223372036854775807) :
    size (run ops []) = ((elems (run ops [])).length : Int) := by
  obtain ⟨hw, _⟩ := history_correct ops h
  have hb : Bnd 0 9223372036854775807 (run ops []) := bnd_run 0 _ ops [] (fun _ hr => by simp at hr) hnn
  obtain ⟨b, hc⟩ := hw
  exact size_eq_card _ ⟨b, hc⟩ (by have := sizeZ_le _ _ b 0 hc hb (by omega); omega)

/-! ### non-vacuity -/

example : WF [⟨0, 5⟩, ⟨7, 9⟩] := ⟨-1, by decide, by decide, by decide, by decide, trivial⟩
example : add [⟨0, 5⟩, ⟨7, 9⟩, ⟨20, 30⟩] 5 8 = [⟨0, 9⟩, ⟨20, 30⟩] := by decide
example : sub [⟨0, 9⟩, ⟨20, 30⟩] 3 25 = [⟨0, 3⟩, ⟨25, 30⟩] := by decide
example : sub [⟨0, 2⟩, ⟨4, 6⟩, ⟨8, 9⟩, ⟨20, 30⟩] 1 25 = [⟨0, 1⟩, ⟨25, 30⟩] := by decide
example : ∀ op ∈ [Op.add 0 10, Op.sub 3 5, Op.sub 4 4], Ordered op := by
  intro op hop
  simp only [List.mem_cons, List.mem_nil_iff, or_false] at hop
  rcases hop with e | e | e <;> subst e
  · show (0:Int) ≤ 10; decide
  · show (3:Int) ≤ 5; decide
  · show (4:Int) ≤ 4; decide

end NetVerif.Proofs.C24
