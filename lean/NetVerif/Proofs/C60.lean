import NetVerif.Model.Icmp
import NetVerif.Gen.C60
/-!
C60 — ICMP and IP header codecs round-trip with valid checksums.

Part A: the RFC 1071 checksum with the code's `uint32` accumulator.
Part B/C: `Message.Marshal` shape and round trips of the fixed-layout bodies.
Part D: RFC 4884 multipart bodies (lengths, padding, round trips, regions where the
        unchanged code does not round-trip).
Part E: `ipv4.Header`.  Part F: constants and the `parseFns` table regenerated from Go.
-/
namespace NetVerif.Proofs.C60
open NetVerif NetVerif.Model.Icmp

/-! ### Part A: checksum -/

/-- Exact (unbounded) sum of little-endian 16-bit words; an odd trailing byte is a low byte. -/
def exactSum : List Nat → Nat
  | a :: b :: rest => (b * 256 + a) + exactSum rest
  | [a] => a
  | [] => 0

def BytesWF (bs : List Nat) : Prop := ∀ b ∈ bs, b < 256

/-- RFC 1071 validity of data that contains its checksum field: the one's-complement sum of all
16-bit words is 0xffff, i.e. the exact word sum is a positive multiple of 65535. (One's-complement
addition is byte-order independent, so summing little-endian words as the code does is the
RFC's sum byte-swapped.) -/
def Valid1071 (b : List Nat) : Prop := exactSum b % 65535 = 0 ∧ 0 < exactSum b

theorem exactSum_append (pre rest : List Nat) (h : pre.length % 2 = 0) :
    exactSum (pre ++ rest) = exactSum pre + exactSum rest := by
  induction pre using exactSum.induct with
  | case1 a b r ih =>
    simp only [List.cons_append, exactSum]
    rw [ih (by simp at h; omega)]
    omega
  | case2 a => simp at h
  | case3 => simp [exactSum]

theorem exactSum_le (b : List Nat) (h : BytesWF b) : exactSum b ≤ 65535 * ((b.length + 1) / 2) := by
  induction b using exactSum.induct with
  | case1 a b r ih =>
    have ha : a < 256 := h a (by simp)
    have hb : b < 256 := h b (by simp)
    have := ih (fun x hx => h x (by simp [hx]))
    simp only [exactSum, List.length_cons]
    omega
  | case2 a =>
    have ha : a < 256 := h a (by simp)
    simp [exactSum]; omega
  | case3 => simp [exactSum]

theorem modify_append_length {α} (pre : List α) (x : α) (rest : List α) (f : α → α) :
    (pre ++ x :: rest).modify pre.length f = pre ++ f x :: rest := by
  induction pre with
  | nil => simp
  | cons a p ih => simp [ih]

theorem xorCsumAt_zero (pre post : List Nat) (s : Nat) :
    xorCsumAt (pre ++ 0 :: 0 :: post) pre.length s = pre ++ (s % 256) :: (s / 256 % 256) :: post := by
  unfold xorCsumAt
  rw [modify_append_length]
  have : pre ++ (0 ^^^ s % 256) :: 0 :: post = (pre ++ [0 ^^^ s % 256]) ++ 0 :: post := by simp
  rw [this]
  have hl : pre.length + 1 = (pre ++ [0 ^^^ s % 256]).length := by simp
  rw [hl, modify_append_length]
  simp

theorem fold16_spec (s : Nat) (hs : s < 4294967296) :
    fold16 s ≤ 65535 ∧ fold16 s % 65535 = s % 65535 ∧ (fold16 s = 0 ↔ s = 0) := by
  unfold fold16
  simp only []
  have h1 : s / 65536 < 65536 := by omega
  have h2 : s % 65536 < 65536 := by omega
  have h3 : s = 65536 * (s / 65536) + s % 65536 := by omega
  generalize s / 65536 = h at *
  generalize s % 65536 = l at *
  subst h3
  have e1 : (h + l) % 4294967296 = h + l := by omega
  rw [e1]
  by_cases hc : h + l < 65536
  · have e2 : (h + l) / 65536 = 0 := by omega
    rw [e2]
    have e3 : (h + l + 0) % 4294967296 % 65536 = h + l := by omega
    rw [e3]
    omega
  · have e2 : (h + l) / 65536 = 1 := by omega
    rw [e2]
    have e3 : (h + l + 1) % 4294967296 % 65536 = h + l - 65535 := by omega
    rw [e3]
    omega

theorem addCarry_spec (s w : Nat) (hs : s < 4294967296) (hw : w < 65536) :
    addCarry s w < 4294967296 ∧ addCarry s w % 65535 = (s + w) % 65535 ∧ (addCarry s w = 0 ↔ s + w = 0) := by
  unfold addCarry
  simp only
  by_cases hc : s + w < 4294967296
  · have e : (s + w) % 4294967296 = s + w := Nat.mod_eq_of_lt hc
    rw [e, if_neg (by omega)]
    omega
  · have e : (s + w) % 4294967296 = s + w - 4294967296 := by omega
    rw [e, if_pos (by omega)]
    have e2 : (s + w - 4294967296 + 1) % 4294967296 = s + w - 4294967296 + 1 := by omega
    rw [e2]
    omega

/-- The accumulator after the loop: congruent to the exact word sum modulo 0xffff and zero only when the
sum is zero — for EVERY length (the end-around carry makes the 32-bit wrap-around harmless). -/
theorem sumWords_spec (b : List Nat) (hwf : BytesWF b) :
    ∀ s, s < 4294967296 →
      sumWords s b < 4294967296 ∧ sumWords s b % 65535 = (s + exactSum b) % 65535 ∧
      (sumWords s b = 0 ↔ s + exactSum b = 0) := by
  induction b using exactSum.induct with
  | case1 a b rest ih =>
    intro s hs
    have ha : a < 256 := hwf a (by simp)
    have hb : b < 256 := hwf b (by simp)
    obtain ⟨c1, c2, c3⟩ := addCarry_spec s (b * 256 + a) hs (by omega)
    obtain ⟨r1, r2, r3⟩ := ih (fun x hx => hwf x (by simp [hx])) _ c1
    simp only [sumWords, exactSum]
    refine ⟨r1, ?_, ?_⟩
    · rw [r2]; omega
    · rw [r3]; omega
  | case2 a =>
    intro s hs
    have ha : a < 256 := hwf a (by simp)
    simp only [sumWords, exactSum]
    exact addCarry_spec s a hs (by omega)
  | case3 =>
    intro s hs
    simp only [sumWords, exactSum]
    omega

/-- `checksum b` is the complement of a 16-bit value congruent to the exact word sum modulo 0xffff, zero
only when the sum is zero. -/
theorem checksum_spec (b : List Nat) (hwf : BytesWF b) :
    ∃ f, checksum b = 65535 - f ∧ f ≤ 65535 ∧ f % 65535 = exactSum b % 65535 ∧ (f = 0 ↔ exactSum b = 0) := by
  obtain ⟨r1, r2, r3⟩ := sumWords_spec b hwf 0 (by decide)
  obtain ⟨f1, f2, f3⟩ := fold16_spec _ r1
  refine ⟨fold16 (sumWords 0 b), rfl, f1, ?_, ?_⟩
  · rw [f2, r2, Nat.zero_add]
  · rw [f3, r3, Nat.zero_add]

/-- **RFC 1071, every length.** For every byte list with a zero checksum field at an even offset,
inserting `checksum` (low byte first, as the code stores it) yields data whose one's-complement word sum
is 0xffff. (Before the repair of `checksum` — end-around carry in the loop — this needed
`length ≤ 131076`, beyond which the 32-bit accumulator wrapped.) -/
theorem checksum_rfc1071 (pre post : List Nat) (hpre : pre.length % 2 = 0)
    (hwf : BytesWF (pre ++ 0 :: 0 :: post)) :
    Valid1071 (xorCsumAt (pre ++ 0 :: 0 :: post) pre.length (checksum (pre ++ 0 :: 0 :: post))) := by
  rw [xorCsumAt_zero]
  have hS : exactSum (pre ++ 0 :: 0 :: post) = exactSum pre + exactSum post := by
    rw [exactSum_append _ _ hpre]; simp [exactSum]
  obtain ⟨f, hc, f1, f2, f3⟩ := checksum_spec _ hwf
  rw [hc, hS] at *
  unfold Valid1071
  rw [exactSum_append _ _ hpre]
  simp only [exactSum]
  have hcw : (65535 - f) / 256 % 256 * 256 + (65535 - f) % 256 = 65535 - f := by omega
  rw [hcw]
  omega

theorem xorCsumAt_hdr (a b : Nat) (post : List Nat) (s : Nat) :
    xorCsumAt (a :: b :: 0 :: 0 :: post) 2 s = a :: b :: (s % 256) :: (s / 256 % 256) :: post :=
  xorCsumAt_zero [a, b] post s

/-! #### the former counterexample (131078 bytes) is now an ordinary valid message -/

/-- ICMPv4 echo request with ID = Seq = 0xffff and data `d`, checksum field zero. -/
def echoFF (d : List Nat) : List Nat := 8 :: 0 :: 0 :: 0 :: 255 :: 255 :: 255 :: 255 :: d

/-- The witness data: 131070 bytes 0xff. -/
def wrapData : List Nat := List.replicate (2 * 65535) 255

theorem wrapData_wf : BytesWF wrapData := by
  intro b hb
  have hb' : b ∈ List.replicate (2 * 65535) 255 := hb
  rw [List.mem_replicate] at hb'
  omega

/-- ICMPv4 echo request, ID = Seq = 0xffff, 131070 data bytes 0xff: 131078 bytes. With the former
`uint32` accumulator without carry, `checksum` returned 0xfff8 and the message did not verify. -/
def wrapWitness : List Nat := echoFF wrapData

theorem wrapWitness_wf : BytesWF wrapWitness := by
  intro b hb
  have hb' : b ∈ 8 :: 0 :: 0 :: 0 :: 255 :: 255 :: 255 :: 255 :: wrapData := hb
  simp only [List.mem_cons] at hb'
  rcases hb' with h | h | h | h | h | h | h | h | h
  all_goals first | omega | exact wrapData_wf b h

/-- The old witness now satisfies the statement. -/
example : Valid1071 (xorCsumAt wrapWitness 2 (checksum wrapWitness)) :=
  checksum_rfc1071 [8, 0] (255 :: 255 :: 255 :: 255 :: wrapData) (by rfl) wrapWitness_wf

/-! ### Part B: shape of `Message.Marshal` -/

/-- The marshalled body that `Message.Marshal` appends. -/
def bodyBytes (m : Msg) : Option (List Nat) :=
  if m.body ≠ Body.noBody ∧ m.body.len m.proto ≠ 0 then m.body.marshal m.proto else some []

/-- ICMPv4: header, checksum (low byte first, as the code stores it), body. -/
theorem marshal_v4 (m : Msg) (hp : m.proto = protocolICMP) (mb : List Nat) (hb : bodyBytes m = some mb) :
    m.marshal none =
      some ([m.typ % 256, u8 m.code, checksum ([m.typ % 256, u8 m.code, 0, 0] ++ mb) % 256,
             checksum ([m.typ % 256, u8 m.code, 0, 0] ++ mb) / 256 % 256] ++ mb) := by
  unfold bodyBytes at hb
  rw [hp] at hb
  unfold Msg.marshal
  simp only [hp, hb]
  have hne : ¬ (protocolICMP = protocolIPv6ICMP) := by decide
  simp only [hne, if_false, List.nil_append]
  have hw : [m.typ % 256, u8 m.code, 0, 0] ++ mb = m.typ % 256 :: u8 m.code :: 0 :: 0 :: mb := rfl
  rw [hw, xorCsumAt_hdr]
  rfl

/-- ICMPv6 without pseudo-header: checksum left zero for the kernel. -/
theorem marshal_v6_nopsh (m : Msg) (hp : m.proto = protocolIPv6ICMP) (mb : List Nat) (hb : bodyBytes m = some mb) :
    m.marshal none = some ([m.typ % 256, u8 m.code, 0, 0] ++ mb) := by
  unfold bodyBytes at hb
  rw [hp] at hb
  unfold Msg.marshal
  simp [hb, hp]

/-- **ICMPv4 output always carries a valid RFC 1071 checksum** — every message the model can marshal,
every body size. -/
theorem marshal_v4_checksum_valid (m : Msg) (hp : m.proto = protocolICMP) (ht : m.typ < 256)
    (mb wire : List Nat) (hb : bodyBytes m = some mb) (hwf : BytesWF mb)
    (hw : m.marshal none = some wire) : Valid1071 wire := by
  have hu : u8 m.code < 256 := by unfold u8; omega
  have hpre : BytesWF ([m.typ % 256, u8 m.code] ++ 0 :: 0 :: mb) := by
    intro b hbm
    simp at hbm
    rcases hbm with h | h | h | h
    · rw [h]; exact Nat.mod_lt _ (by decide)
    · rw [h]; exact hu
    · rw [h]; decide
    · exact hwf b h
  unfold Msg.marshal at hw
  unfold bodyBytes at hb
  rw [hp] at hb
  simp only [hp, hb] at hw
  have hne : ¬ (protocolICMP = protocolIPv6ICMP) := by decide
  simp only [hne, if_false, List.nil_append] at hw
  have hsh : [m.typ % 256, u8 m.code, 0, 0] ++ mb = [m.typ % 256, u8 m.code] ++ 0 :: 0 :: mb := rfl
  rw [hsh] at hw
  injection hw with hw
  subst hw
  exact checksum_rfc1071 [m.typ % 256, u8 m.code] mb (by simp) hpre

/-- The full statement "ICMPv4 output always carries a valid checksum" over ALL body sizes. -/
def ChecksumStatement : Prop :=
  ∀ (m : Msg) (mb wire : List Nat), m.proto = protocolICMP → m.typ < 256 → bodyBytes m = some mb →
    BytesWF mb → m.marshal none = some wire → Valid1071 wire

/-- **It holds** (it was false beyond 131076 bytes before the repair of `checksum`). -/
theorem checksum_holds : ChecksumStatement :=
  fun m mb wire hp ht hb hwf hw => marshal_v4_checksum_valid m hp ht mb wire hb hwf hw

theorem echo_bodyBytes (proto typ : Nat) (code : Int) (ck : Nat) (id seq : Int) (d : List Nat) :
    bodyBytes ⟨proto, typ, code, ck, .echo id seq d⟩ = some (be16 id ++ be16 seq ++ d) := by
  unfold bodyBytes
  simp [Body.len, Body.marshal]

/-! ### Part C: round trips of the fixed-layout bodies -/

theorem be16_rd16 (x : Int) (h0 : 0 ≤ x) (h1 : x < 65536) (rest : List Nat) :
    ((rd16 (be16 x ++ rest) : Nat) : Int) = x := by
  simp [rd16, be16]
  omega

theorem be32_rd32 (x : Int) (h0 : 0 ≤ x) (h1 : x < 4294967296) (rest : List Nat) :
    ((rd32 (be32 x ++ rest) : Nat) : Int) = x := by
  simp [rd32, be32]
  omega

theorem u8_id (x : Int) (h0 : 0 ≤ x) (h1 : x < 256) : ((u8 x : Nat) : Int) = x := by
  unfold u8; omega

/-- `ParseMessage` on `[type, code, c0, c1] ++ body`. -/
theorem parseMessage_hdr (proto typ code c0 c1 : Nat) (rest : List Nat)
    (hp : proto = protocolICMP ∨ proto = protocolIPv6ICMP) :
    parseMessage proto (typ :: code :: c0 :: c1 :: rest) =
      (parseBody proto typ rest).map (fun body => ⟨proto, typ, (code : Int), c0 * 256 + c1, body⟩) := by
  unfold parseMessage
  have h : ¬ (proto ≠ protocolICMP ∧ proto ≠ protocolIPv6ICMP) := by
    rcases hp with h | h <;> simp [h, protocolICMP, protocolIPv6ICMP]
  simp only [List.length_cons, h, if_false]
  have hl : ¬ (rest.length + 1 + 1 + 1 + 1 < 4) := by omega
  simp only [hl, if_false, List.getD_cons_zero, List.getD_cons_succ, List.drop_succ_cons, List.drop_zero, rd16]
  cases parseBody proto typ rest <;> simp

theorem parseBody_echo (proto typ : Nat) (hk : parserKind proto typ = .echo) (id seq : Int) (data : List Nat)
    (hid : 0 ≤ id ∧ id < 65536) (hseq : 0 ≤ seq ∧ seq < 65536) :
    parseBody proto typ (be16 id ++ be16 seq ++ data) = some (.echo id seq data) := by
  have e1 := be16_rd16 id hid.1 hid.2 (be16 seq ++ data)
  have e2 := be16_rd16 seq hseq.1 hseq.2 data
  have d2 : (be16 id ++ be16 seq ++ data).drop 2 = be16 seq ++ data := by simp [be16]
  have d4 : (be16 id ++ be16 seq ++ data).drop 4 = data := by simp [be16]
  have hl : ¬ ((be16 id ++ be16 seq ++ data).length < 4) := by simp [be16]
  unfold parseBody
  rw [hk]
  simp only [hl, if_false, d2, d4]
  rw [List.append_assoc, e1, e2]

/-- A message as sent (checksum field of the struct is ignored by `Marshal`). -/
def mkMsg (proto typ : Nat) (code : Int) (body : Body) : Msg := ⟨proto, typ, code, 0, body⟩

/-- Round trip modulo the received checksum: `ParseMessage(Marshal(m))` is `m` with some checksum. -/
def RoundTrips (proto typ : Nat) (code : Int) (body : Body) (psh : Option (List Nat)) : Prop :=
  ∃ wire, (mkMsg proto typ code body).marshal psh = some wire ∧
    (parseMessage proto wire).map (fun m => (m.proto, m.typ, m.code, m.body)) = some (proto, typ, code, body)

/-- **Echo / echo reply, ICMPv4 and ICMPv6 (no pseudo-header), every data size.** -/
theorem echo_roundtrip (proto typ : Nat) (hp : proto = protocolICMP ∨ proto = protocolIPv6ICMP)
    (ht : typ < 256) (hk : parserKind proto typ = .echo) (code id seq : Int) (data : List Nat)
    (hc : 0 ≤ code ∧ code < 256) (hid : 0 ≤ id ∧ id < 65536) (hseq : 0 ≤ seq ∧ seq < 65536) :
    RoundTrips proto typ code (.echo id seq data) none := by
  have hb := echo_bodyBytes proto typ code 0 id seq data
  have hpb := parseBody_echo proto typ hk id seq data hid hseq
  have hu := u8_id code hc.1 hc.2
  have htm : typ % 256 = typ := Nat.mod_eq_of_lt ht
  rcases hp with hp | hp
  · have hm := marshal_v4 (mkMsg proto typ code (.echo id seq data)) hp _ hb
    refine ⟨_, hm, ?_⟩
    simp only [mkMsg, List.cons_append, List.nil_append, htm]
    rw [parseMessage_hdr _ _ _ _ _ _ (Or.inl hp), hpb]
    simp [hu]
  · have hm := marshal_v6_nopsh (mkMsg proto typ code (.echo id seq data)) hp _ hb
    refine ⟨_, hm, ?_⟩
    simp only [mkMsg, List.cons_append, List.nil_append, htm]
    rw [parseMessage_hdr _ _ _ _ _ _ (Or.inr hp), hpb]
    simp [hu]

theorem copyAt_exact (pre old new post : List Nat) (h : old.length = new.length) :
    copyAt (pre ++ old ++ post) pre.length new = pre ++ new ++ post := by
  unfold copyAt
  have h1 : (pre ++ old ++ post).length - pre.length = old.length + post.length := by simp
  have h2 : new.take (old.length + post.length) = new := by
    apply List.take_of_length_le; omega
  rw [h1, h2]
  have h3 : (pre ++ old ++ post).take pre.length = pre := by simp
  have h4 : (pre ++ old ++ post).drop (pre.length + new.length) = post := by
    rw [← h, List.append_assoc, ← List.drop_drop]
    simp
  rw [h3, h4]

theorem zeros_add (a b : Nat) : zeros (a + b) = zeros a ++ zeros b := by
  simp [zeros, List.replicate_append_replicate]

theorem pp6_bytes (ptr : Int) (data : List Nat) :
    copyAt (copyAt (zeros (4 + data.length)) 0 (be32 ptr)) 4 data = be32 ptr ++ data := by
  have e1 : zeros (4 + data.length) = [] ++ zeros 4 ++ zeros data.length := by
    rw [zeros_add]; simp
  have hl : (be32 ptr).length = 4 := by simp [be32]
  have := copyAt_exact [] (zeros 4) (be32 ptr) (zeros data.length) (by simp [zeros, hl])
  simp only [List.length_nil] at this
  rw [e1, this]
  have := copyAt_exact (be32 ptr) (zeros data.length) data [] (by simp [zeros])
  simp only [hl, List.append_nil] at this
  simpa using this

/-- Generic assembly: body bytes + body parser ⇒ round trip (ICMPv4, or ICMPv6 without pseudo-header). -/
theorem roundtrip_of (proto typ : Nat) (hp : proto = protocolICMP ∨ proto = protocolIPv6ICMP)
    (ht : typ < 256) (code : Int) (hc : 0 ≤ code ∧ code < 256) (body body' : Body) (mb : List Nat)
    (hb : bodyBytes (mkMsg proto typ code body) = some mb)
    (hpb : parseBody proto typ mb = some body') :
    ∃ wire, (mkMsg proto typ code body).marshal none = some wire ∧
      (parseMessage proto wire).map (fun m => (m.proto, m.typ, m.code, m.body)) = some (proto, typ, code, body') := by
  have hu := u8_id code hc.1 hc.2
  have htm : typ % 256 = typ := Nat.mod_eq_of_lt ht
  rcases hp with hp | hp
  · have hm := marshal_v4 (mkMsg proto typ code body) hp _ hb
    refine ⟨_, hm, ?_⟩
    simp only [mkMsg, List.cons_append, List.nil_append, htm]
    rw [parseMessage_hdr _ _ _ _ _ _ (Or.inl hp), hpb]
    simp [hu]
  · have hm := marshal_v6_nopsh (mkMsg proto typ code body) hp _ hb
    refine ⟨_, hm, ?_⟩
    simp only [mkMsg, List.cons_append, List.nil_append, htm]
    rw [parseMessage_hdr _ _ _ _ _ _ (Or.inr hp), hpb]
    simp [hu]

/-- **Extended echo reply.** -/
theorem extEchoReply_roundtrip (proto typ : Nat) (hp : proto = protocolICMP ∨ proto = protocolIPv6ICMP)
    (ht : typ < 256) (hk : parserKind proto typ = .xrep) (code id seq state : Int) (active v4 v6 : Bool)
    (hc : 0 ≤ code ∧ code < 256) (hid : 0 ≤ id ∧ id < 65536) (hseq : 0 ≤ seq ∧ seq < 256)
    (hst : 0 ≤ state ∧ state < 8) :
    RoundTrips proto typ code (.extEchoReply id seq state active v4 v6) none := by
  apply roundtrip_of proto typ hp ht code hc _ _
    (be16 id ++ [u8 seq, (state % 8).toNat * 32 + (if active then 4 else 0) + (if v4 then 2 else 0) + (if v6 then 1 else 0)])
  · unfold bodyBytes mkMsg
    simp [Body.len, Body.marshal]
  · unfold parseBody
    rw [hk]
    have e1 := be16_rd16 id hid.1 hid.2
      [u8 seq, (state % 8).toNat * 32 + (if active then 4 else 0) + (if v4 then 2 else 0) + (if v6 then 1 else 0)]
    have e2 := u8_id seq hseq.1 hseq.2
    have hl : (be16 id).length = 2 := by simp [be16]
    simp only [List.length_append, hl, List.length_cons, List.length_nil]
    simp only [show ¬ (2 + (0 + 1 + 1) < 4) by omega, if_false, e1]
    have g2 : (be16 id ++ [u8 seq, (state % 8).toNat * 32 + (if active then 4 else 0) + (if v4 then 2 else 0) + (if v6 then 1 else 0)]).getD 2 0 = u8 seq := by
      simp [be16]
    have g3 : (be16 id ++ [u8 seq, (state % 8).toNat * 32 + (if active then 4 else 0) + (if v4 then 2 else 0) + (if v6 then 1 else 0)]).getD 3 0 =
        (state % 8).toNat * 32 + (if active then 4 else 0) + (if v4 then 2 else 0) + (if v6 then 1 else 0) := by
      simp [be16]
    rw [g2, g3, e2]
    have hs : ((state % 8).toNat : Int) = state := by omega
    generalize hn : (state % 8).toNat = n at *
    have hn8 : n < 8 := by omega
    cases active <;> cases v4 <;> cases v6 <;> simp <;> omega

/-- **Packet too big** (ICMPv6). -/
theorem packetTooBig_roundtrip (typ : Nat) (ht : typ < 256) (hk : parserKind protocolIPv6ICMP typ = .ptb)
    (code mtu : Int) (data : List Nat) (hc : 0 ≤ code ∧ code < 256) (hm : 0 ≤ mtu ∧ mtu < 4294967296) :
    RoundTrips protocolIPv6ICMP typ code (.packetTooBig mtu data) none := by
  apply roundtrip_of _ typ (Or.inr rfl) ht code hc _ _ (be32 mtu ++ data)
  · unfold bodyBytes mkMsg
    simp [Body.len, Body.marshal]
  · unfold parseBody
    rw [hk]
    have e1 := be32_rd32 mtu hm.1 hm.2 data
    have hl : ¬ ((be32 mtu ++ data).length < 4) := by simp [be32]
    have d4 : (be32 mtu ++ data).drop 4 = data := by simp [be32]
    simp only [hl, if_false, d4, e1]

/-- **Parameter problem, ICMPv6** (no RFC 4884 structure; extensions must be empty — see
`paramprob_v6_exts_dropped`). -/
theorem paramProb_v6_roundtrip (typ : Nat) (ht : typ < 256) (hk : parserKind protocolIPv6ICMP typ = .pp)
    (code ptr : Int) (data : List Nat) (hc : 0 ≤ code ∧ code < 256) (hm : 0 ≤ ptr ∧ ptr < 4294967296) :
    RoundTrips protocolIPv6ICMP typ code (.paramProb ptr data []) none := by
  apply roundtrip_of _ typ (Or.inr rfl) ht code hc _ _ (be32 ptr ++ data)
  · unfold bodyBytes mkMsg
    have hne : ¬ (protocolIPv6ICMP = protocolICMP) := by decide
    simp [Body.len, Body.marshal, multipartLens, hne, pp6_bytes]
  · unfold parseBody
    rw [hk]
    have e1 := be32_rd32 ptr hm.1 hm.2 data
    have hl : ¬ ((be32 ptr ++ data).length < 4) := by simp [be32]
    have d4 : (be32 ptr ++ data).drop 4 = data := by simp [be32]
    simp only [hl, if_false, d4, e1]
    simp

/-- **Raw body under a type without a registered parser.** -/
theorem raw_roundtrip (proto typ : Nat) (hp : proto = protocolICMP ∨ proto = protocolIPv6ICMP)
    (ht : typ < 256) (hk : parserKind proto typ = .raw) (code : Int) (data : List Nat)
    (hc : 0 ≤ code ∧ code < 256) :
    RoundTrips proto typ code (.raw data) none := by
  apply roundtrip_of proto typ hp ht code hc _ _ data
  · unfold bodyBytes mkMsg
    simp [Body.len, Body.marshal]
  · unfold parseBody
    rw [hk]

/-! ### Part D: RFC 4884 multipart bodies -/

/-- `multipartMessageOrigDatagramLen`: at least 128, covers the datagram, aligned to 4 (ICMPv4) or
8 (ICMPv6) octets once past 128, with less than one unit of padding. -/
theorem origDatagramLen_spec (n : Nat) :
    (128 ≤ origDatagramLen protocolICMP n ∧ n ≤ origDatagramLen protocolICMP n ∧
     origDatagramLen protocolICMP n % 4 = 0 ∧ (128 ≤ n → origDatagramLen protocolICMP n < n + 4)) ∧
    (128 ≤ origDatagramLen protocolIPv6ICMP n ∧ n ≤ origDatagramLen protocolIPv6ICMP n ∧
     origDatagramLen protocolIPv6ICMP n % 8 = 0 ∧ (128 ≤ n → origDatagramLen protocolIPv6ICMP n < n + 8)) := by
  unfold origDatagramLen
  have h1 : ¬ (protocolIPv6ICMP = protocolICMP) := by decide
  simp only [h1, if_false, if_true]
  constructor <;> split <;> omega

/-- Without extensions the body is the 4 leading octets plus the datagram, unpadded. -/
theorem multipartLens_noext (proto : Nat) (w : Bool) (data : List Nat) :
    multipartLens proto w data [] = (4 + data.length, data.length) := by
  simp [multipartLens]

/-- With extensions (`extLen > 0`): 4 leading octets, padded datagram, 4-octet extension header, objects. -/
theorem multipartLens_ext (proto : Nat) (data : List Nat) (exts : List Ext)
    (h : 0 < (exts.map (Ext.len proto)).sum) :
    multipartLens proto true data exts =
      (4 + 4 + origDatagramLen proto data.length + (exts.map (Ext.len proto)).sum,
       origDatagramLen proto data.length) := by
  unfold multipartLens
  have : decide ((exts.map (Ext.len proto)).sum > 0) = true := by simpa using h
  simp [this]

theorem marshalMultipart_noext (proto : Nat) (w : Bool) (data : List Nat) :
    marshalMultipart proto w data [] = zeros 4 ++ data := by
  unfold marshalMultipart
  rw [multipartLens_noext]
  simp only [List.length_nil, Nat.lt_irrefl, if_false, gt_iff_lt]
  have e1 : zeros (4 + data.length) = zeros 4 ++ zeros data.length ++ [] := by rw [zeros_add]; simp
  have hl : (zeros 4).length = 4 := by simp [zeros]
  have := copyAt_exact (zeros 4) (zeros data.length) data [] (by simp [zeros])
  rw [hl] at this
  rw [e1, this]; simp

/-- The RFC 4884 compatibility heuristic: a body without extensions is re-read as "128 octets of
datagram + extension structure" exactly when octet 128 onwards looks like an extension header. -/
def legacyAmbiguous (data : List Nat) : Bool :=
  decide (data.length ≥ 136) && validExtensionHeader (data.drop 128)

theorem parseMultipart_noext (proto typ : Nat) (hx : isExtEchoRequest proto typ = false) (b0 b1 b2 b3 : Nat)
    (hl : (if proto = protocolICMP then 4 * b1 else if proto = protocolIPv6ICMP then 8 * b0 else 0) = 0)
    (data : List Nat) (hamb : legacyAmbiguous data = false) :
    parseMultipart proto typ (b0 :: b1 :: b2 :: b3 :: data) = (data, []) := by
  unfold parseMultipart
  simp only [List.getD_cons_zero, List.getD_cons_succ, hl, List.length_cons, List.drop_succ_cons, List.drop_zero]
  by_cases hd : data = []
  · subst hd; simp
  · have hne : ¬ (data.length + 1 + 1 + 1 + 1 = 4) := by
      have : data.length ≠ 0 := fun h => hd (List.eq_nil_of_length_eq_zero h)
      omega
    simp only [hne, if_false]
    have hpe : parseExtensions proto typ data 0 = none := by
      unfold parseExtensions
      simp only [hx, Bool.false_eq_true, if_false]
      have h128 : (128 > 0 ∨ 0 + 8 > data.length) := Or.inl (by omega)
      simp only [h128, if_true]
      unfold legacyAmbiguous at hamb
      by_cases hlen : 128 + 8 > data.length
      · simp [hlen]
      · have hge : data.length ≥ 136 := by omega
        simp only [hge, decide_true, Bool.true_and] at hamb
        simp [hlen, hamb]
    rw [hpe]

theorem kind_du_cases (proto typ : Nat) (h : parserKind proto typ = .du) :
    (proto = protocolICMP ∧ typ = v4DstUnreach) ∨ (proto = protocolIPv6ICMP ∧ typ = v6DstUnreach) := by
  unfold parserKind at h
  (repeat' split at h) <;> simp_all

theorem kind_te_cases (proto typ : Nat) (h : parserKind proto typ = .te) :
    (proto = protocolICMP ∧ typ = v4TimeExceeded) ∨ (proto = protocolIPv6ICMP ∧ typ = v6TimeExceeded) := by
  unfold parserKind at h
  (repeat' split at h) <;> simp_all

theorem kind_pp_cases (proto typ : Nat) (h : parserKind proto typ = .pp) :
    (proto = protocolICMP ∧ typ = v4ParamProb) ∨ (proto = protocolIPv6ICMP ∧ typ = v6ParamProb) := by
  unfold parserKind at h
  (repeat' split at h) <;> simp_all

theorem kind_not_xreq (proto typ : Nat) (h : parserKind proto typ = .du ∨ parserKind proto typ = .te ∨ parserKind proto typ = .pp) :
    isExtEchoRequest proto typ = false := by
  unfold parserKind at h
  unfold isExtEchoRequest
  simp only [protocolICMP, protocolIPv6ICMP, v4DstUnreach, v4TimeExceeded, v4ParamProb, v4Echo, v4EchoReply,
    v4ExtEchoRequest, v4ExtEchoReply, v6DstUnreach, v6PacketTooBig, v6TimeExceeded, v6ParamProb, v6EchoRequest,
    v6EchoReply, v6ExtEchoRequest, v6ExtEchoReply] at *
  by_cases h1 : proto = 1
  · subst h1
    by_cases h2 : typ = 42
    · subst h2; simp at h
    · simp [h2]
  · by_cases h2 : proto = 58
    · subst h2
      by_cases h3 : typ = 160
      · subst h3; simp at h
      · simp [h3]
    · simp [h1, h2]

/-- **Destination unreachable without extensions**, ICMPv4 and ICMPv6, every datagram size: exact
round trip unless the datagram itself triggers the RFC 4884 compatibility heuristic. -/
theorem dstUnreach_noext_roundtrip (proto typ : Nat) (ht : typ < 256) (hk : parserKind proto typ = .du)
    (code : Int) (hc : 0 ≤ code ∧ code < 256) (data : List Nat) (hamb : legacyAmbiguous data = false) :
    RoundTrips proto typ code (.dstUnreach data []) none := by
  have hcases := kind_du_cases proto typ hk
  have hp : proto = protocolICMP ∨ proto = protocolIPv6ICMP := by
    rcases hcases with h | h
    · exact Or.inl h.1
    · exact Or.inr h.1
  apply roundtrip_of proto typ hp ht code hc _ _ (zeros 4 ++ data)
  · unfold bodyBytes mkMsg
    simp only [Body.len, Body.marshal, multipartLens_noext, marshalMultipart_noext]
    have hv : validExtensions proto (if proto = protocolICMP then v4DstUnreach else v6DstUnreach) [] = true := by
      rcases hcases with ⟨h1, _⟩ | ⟨h1, _⟩ <;> subst h1 <;> decide
    simp [hv, lengthAttrOK]
  · unfold parseBody
    rw [hk]
    have hz : zeros 4 ++ data = 0 :: 0 :: 0 :: 0 :: data := rfl
    rw [hz, parseMultipart_noext proto typ (kind_not_xreq _ _ (Or.inl hk)) 0 0 0 0 (by simp) data hamb]
    simp

/-- **Time exceeded without extensions.** -/
theorem timeExceeded_noext_roundtrip (proto typ : Nat) (ht : typ < 256) (hk : parserKind proto typ = .te)
    (code : Int) (hc : 0 ≤ code ∧ code < 256) (data : List Nat) (hamb : legacyAmbiguous data = false) :
    RoundTrips proto typ code (.timeExceeded data []) none := by
  have hcases := kind_te_cases proto typ hk
  have hp : proto = protocolICMP ∨ proto = protocolIPv6ICMP := by
    rcases hcases with h | h
    · exact Or.inl h.1
    · exact Or.inr h.1
  apply roundtrip_of proto typ hp ht code hc _ _ (zeros 4 ++ data)
  · unfold bodyBytes mkMsg
    simp only [Body.len, Body.marshal, multipartLens_noext, marshalMultipart_noext]
    have hv : validExtensions proto (if proto = protocolICMP then v4TimeExceeded else v6TimeExceeded) [] = true := by
      rcases hcases with ⟨h1, _⟩ | ⟨h1, _⟩ <;> subst h1 <;> decide
    simp [hv, lengthAttrOK]
  · unfold parseBody
    rw [hk]
    have hz : zeros 4 ++ data = 0 :: 0 :: 0 :: 0 :: data := rfl
    rw [hz, parseMultipart_noext proto typ (kind_not_xreq _ _ (Or.inr (Or.inl hk))) 0 0 0 0 (by simp) data hamb]
    simp

/-- **Parameter problem (ICMPv4) without extensions.** -/
theorem paramProb_v4_noext_roundtrip (typ : Nat) (ht : typ < 256) (hk : parserKind protocolICMP typ = .pp)
    (code ptr : Int) (hc : 0 ≤ code ∧ code < 256) (hptr : 0 ≤ ptr ∧ ptr < 256)
    (data : List Nat) (hamb : legacyAmbiguous data = false) :
    RoundTrips protocolICMP typ code (.paramProb ptr data []) none := by
  apply roundtrip_of protocolICMP typ (Or.inl rfl) ht code hc _ _ (u8 ptr :: 0 :: 0 :: 0 :: data)
  · unfold bodyBytes mkMsg
    simp only [Body.len, Body.marshal, multipartLens_noext, marshalMultipart_noext]
    simp [validExtensions, zeros, lengthAttrOK]
  · unfold parseBody
    rw [hk]
    rw [parseMultipart_noext protocolICMP typ (kind_not_xreq _ _ (Or.inr (Or.inr hk))) _ 0 0 0 (by simp) data hamb]
    have := u8_id ptr hptr.1 hptr.2
    have hne : ¬ (protocolICMP = protocolIPv6ICMP) := by decide
    simp [hne, this]

/-! #### regions where the unchanged code does not round-trip (concrete witnesses) -/

/-- Body of `ParseMessage(Marshal(m))`. -/
def roundBody (m : Msg) : Option Body :=
  (m.marshal none).bind fun w => (parseMessage m.proto w).map (·.body)

theorem roundBody_of_roundTrips (proto typ : Nat) (code : Int) (body : Body)
    (h : RoundTrips proto typ code body none) : roundBody (mkMsg proto typ code body) = some body := by
  obtain ⟨wire, hm, hp⟩ := h
  unfold roundBody
  rw [hm]
  simp only [Option.bind_some, mkMsg]
  cases hpm : parseMessage proto wire with
  | none => simp [hpm] at hp
  | some m => simp [hpm] at hp ⊢; exact hp.2.2.2

/-- A 140-byte original datagram whose octets 128… are `20 00 00 00 | 00 08 09 09 01 02 03 04`. -/
def legacyData : List Nat := zeros 128 ++ [32, 0, 0, 0, 0, 8, 9, 9, 1, 2, 3, 4]

/-- **RFC 4884 compatibility heuristic**: a destination-unreachable message WITHOUT extensions whose
datagram looks like an extension structure at octet 128 parses back with a 128-byte datagram and a
phantom extension object. -/
theorem legacy128_witness :
    legacyAmbiguous legacyData = true ∧
    roundBody (mkMsg protocolICMP v4DstUnreach 0 (.dstUnreach legacyData [])) =
      some (.dstUnreach (zeros 128) [.raw [0, 8, 9, 9, 1, 2, 3, 4]]) := by
  decide +kernel

/-- The no-extension round trip as the property states it (all datagrams). -/
def NoExtStatement : Prop :=
  ∀ (data : List Nat), RoundTrips protocolICMP v4DstUnreach 0 (.dstUnreach data []) none

theorem noext_full_false : ¬ NoExtStatement := by
  intro h
  have h1 := roundBody_of_roundTrips _ _ _ _ (h legacyData)
  rw [legacy128_witness.2] at h1
  exact absurd h1 (by decide +kernel)

/-- … and holds outside the (decidable) ambiguous region. -/
theorem noext_holds_partial (data : List Nat) (h : legacyAmbiguous data = false) :
    RoundTrips protocolICMP v4DstUnreach 0 (.dstUnreach data []) none :=
  dstUnreach_noext_roundtrip _ _ (by decide) (by decide) 0 (by omega) data h

/-- **Length attribute range check** (repaired): with extensions, a padded datagram of 1024 octets would
need the length attribute 256, which does not fit its octet; `Marshal` now refuses (before the repair it
stored 0 and the message parsed back without extensions). -/
theorem lengthAttr_rejected_witness :
    (mkMsg protocolICMP v4TimeExceeded 0 (.timeExceeded (zeros 1021) [.mpls 1 1 []])).marshal none = none ∧
    ((mkMsg protocolICMP v4TimeExceeded 0 (.timeExceeded (zeros 1017) [.mpls 1 1 []])).marshal none).map
        (fun w => (w.length, w.getD 5 99)) = some (8 + 1020 + 8, 255) := by
  decide +kernel

/-- **ICMPv6 parameter problem with extensions is refused** (repaired; RFC 4884 does not extend this
message — before the repair `Marshal` silently dropped the extensions). -/
theorem paramprob_v6_exts_rejected (ptr : Int) (data : List Nat) (e : Ext) (es : List Ext) :
    Body.marshal protocolIPv6ICMP (.paramProb ptr data (e :: es)) = none := by
  have hne : ¬ (protocolIPv6ICMP = protocolICMP) := by decide
  simp [Body.marshal, hne]

/-! ### Part E: `ipv4.Header` (Linux field order) -/

/-- Headers the wire format represents faithfully: version 4, `Len = 20 + len(Options)`, options a
multiple of 4 and at most 40 bytes, every field within its wire width, IPv4 addresses. -/
def HeaderWF (h : Header) : Prop :=
  h.version = 4 ∧ h.len = 20 + h.options.length ∧ h.options.length % 4 = 0 ∧ h.options.length ≤ 40 ∧
  (0 ≤ h.tos ∧ h.tos < 256) ∧ (0 ≤ h.totalLen ∧ h.totalLen < 65536) ∧ (0 ≤ h.id ∧ h.id < 65536) ∧
  (0 ≤ h.flags ∧ h.flags < 8) ∧ (0 ≤ h.fragOff ∧ h.fragOff < 8192) ∧ (0 ≤ h.ttl ∧ h.ttl < 256) ∧
  (0 ≤ h.protocol ∧ h.protocol < 256) ∧ (0 ≤ h.cksum ∧ h.cksum < 65536) ∧
  h.src.length = 4 ∧ h.dst.length = 4

theorem list4 (l : List Nat) (h : l.length = 4) : ∃ a b c d, l = [a, b, c, d] := by
  match l, h with
  | [a, b, c, d], _ => exact ⟨a, b, c, d, rfl⟩

/-- **IPv4 header round trip**: `ParseHeader(h.Marshal()) = h` on `HeaderWF`. -/
theorem header_roundtrip (h : Header) (hwf : HeaderWF h) :
    ∃ wire, h.marshal = .ok wire ∧ wire.length = 20 + h.options.length ∧ parseHeader wire = .ok h := by
  obtain ⟨hv, hl, ho4, ho40, htos, htl, hid, hfl, hfo, httl, hpr, hck, hs, hd⟩ := hwf
  obtain ⟨s0, s1, s2, s3, hs'⟩ := list4 _ hs
  obtain ⟨d0, d1, d2, d3, hd'⟩ := list4 _ hd
  cases h with
  | mk version len tos totalLen id flags fragOff ttl protocol cksum src dst options =>
  simp only at hv hl ho4 ho40 htos htl hid hfl hfo httl hpr hck hs' hd'
  subst hv hl hs' hd'
  have hlen : ¬ ((20 : Int) + options.length < (headerLen : Nat)) := by simp [headerLen]; omega
  have e_tl := be16_rd16 totalLen htl.1 htl.2
  have e_id := be16_rd16 id hid.1 hid.2
  have e_ck := be16_rd16 cksum hck.1 hck.2
  have hff : 0 ≤ fragOff % 8192 + flags * 8192 ∧ fragOff % 8192 + flags * 8192 < 65536 := by omega
  have e_ff := be16_rd16 (fragOff % 8192 + flags * 8192) hff.1 hff.2
  have u_tos := u8_id tos htos.1 htos.2
  have u_ttl := u8_id ttl httl.1 httl.2
  have u_pr := u8_id protocol hpr.1 hpr.2
  refine ⟨[4 * 16 + (headerLen + options.length) / 4 % 16, u8 tos] ++ be16 totalLen ++ be16 id ++
      be16 (fragOff % 8192 + flags * 8192) ++ [u8 ttl, u8 protocol] ++ be16 cksum ++
      [s0, s1, s2, s3] ++ [d0, d1, d2, d3] ++ options, ?_, ?_, ?_⟩
  · have hopt : ¬ (options.length % 4 ≠ 0 ∨ headerLen + options.length > 60) := by
      simp only [headerLen]; omega
    simp only [Header.marshal, hlen, if_false, isV4, hopt]
    simp [last4]
  · simp [be16]; omega
  · have hq : (headerLen + options.length) / 4 % 16 * 4 = 20 + options.length := by
      simp only [headerLen]; omega
    simp only [parseHeader, be16, List.cons_append, List.nil_append, List.length_cons, List.length_append,
      List.length_nil, List.getD_cons_zero, List.getD_cons_succ, List.drop_succ_cons, List.drop_zero]
    have hq2 : (4 * 16 + (headerLen + options.length) / 4 % 16) % 16 * 4 = 20 + options.length := by omega
    have hq3 : (4 * 16 + (headerLen + options.length) / 4 % 16) / 16 = 4 := by omega
    rw [hq2, hq3]
    rw [if_neg (by simp only [headerLen]; omega), if_neg (by omega)]
    simp only [rd16, List.getD_cons_zero, List.getD_cons_succ, headerLen]
    have hopt : (if 20 + options.length > 20 then List.take (20 + options.length - 20) options else []) = options := by
      split
      · rw [show 20 + options.length - 20 = options.length by omega, List.take_length]
      · have : options.length = 0 := by omega
        exact (List.eq_nil_of_length_eq_zero this).symm
    simp only [List.take_succ_cons, List.take_zero, List.drop_succ_cons, List.drop_zero, hopt]
    congr 1
    simp only [Header.mk.injEq, and_true, true_and]
    clear hq hq2 hq3 hlen hs hd
    unfold u8 at *
    refine ⟨?_, ?_, ?_, ?_, ?_, ?_, ?_, ?_, ?_, ?_⟩
    all_goals omega

/-- **`Header.Marshal` refuses options the 4-bit header length cannot represent** (repaired: before, a
length that is not a multiple of 4 or a header longer than 60 bytes was encoded with a wrong IHL and the
options did not survive `Parse`). -/
theorem header_marshal_options (h : Header) (w : List Nat) (hm : h.marshal = .ok w) :
    h.options.length % 4 = 0 ∧ h.options.length ≤ 40 := by
  unfold Header.marshal at hm
  split at hm
  · simp at hm
  · simp only at hm
    split at hm
    · simp at hm
    · rename_i hc
      simp only [headerLen] at hc
      omega

/-! ### Part F: constants and the `parseFns` table regenerated from the Go source -/

theorem gen_protocols_eq :
    Gen.C60.iana_ProtocolICMP = protocolICMP ∧ Gen.C60.iana_ProtocolIPv6ICMP = protocolIPv6ICMP ∧
    Gen.C60.iana_AddrFamilyIPv4 = addrFamilyIPv4 ∧ Gen.C60.iana_AddrFamilyIPv6 = addrFamilyIPv6 ∧
    Gen.C60.v4_Version = 4 ∧ Gen.C60.v4_HeaderLen = headerLen := by decide

theorem gen_types_eq :
    Gen.C60.v4_ICMPTypeEchoReply = v4EchoReply ∧ Gen.C60.v4_ICMPTypeDestinationUnreachable = v4DstUnreach ∧
    Gen.C60.v4_ICMPTypeEcho = v4Echo ∧ Gen.C60.v4_ICMPTypeTimeExceeded = v4TimeExceeded ∧
    Gen.C60.v4_ICMPTypeParameterProblem = v4ParamProb ∧ Gen.C60.v4_ICMPTypeExtendedEchoRequest = v4ExtEchoRequest ∧
    Gen.C60.v4_ICMPTypeExtendedEchoReply = v4ExtEchoReply ∧
    Gen.C60.v6_ICMPTypeDestinationUnreachable = v6DstUnreach ∧ Gen.C60.v6_ICMPTypePacketTooBig = v6PacketTooBig ∧
    Gen.C60.v6_ICMPTypeTimeExceeded = v6TimeExceeded ∧ Gen.C60.v6_ICMPTypeParameterProblem = v6ParamProb ∧
    Gen.C60.v6_ICMPTypeEchoRequest = v6EchoRequest ∧ Gen.C60.v6_ICMPTypeEchoReply = v6EchoReply ∧
    Gen.C60.v6_ICMPTypeExtendedEchoRequest = v6ExtEchoRequest ∧ Gen.C60.v6_ICMPTypeExtendedEchoReply = v6ExtEchoReply := by
  decide

theorem gen_extension_consts_eq :
    Gen.C60.icmp_extensionVersion = extensionVersion ∧ Gen.C60.icmp_classMPLSLabelStack = classMPLSLabelStack ∧
    Gen.C60.icmp_typeIncomingMPLSLabelStack = typeIncomingMPLSLabelStack ∧
    Gen.C60.icmp_classInterfaceInfo = classInterfaceInfo ∧ Gen.C60.icmp_classInterfaceIdent = classInterfaceIdent ∧
    (Gen.C60.icmp_typeInterfaceByName : Int) = typeInterfaceByName ∧
    (Gen.C60.icmp_typeInterfaceByIndex : Int) = typeInterfaceByIndex ∧
    (Gen.C60.icmp_typeInterfaceByAddress : Int) = typeInterfaceByAddress ∧
    Gen.C60.icmp_attrMTU = attrMTU ∧ Gen.C60.icmp_attrName = attrName ∧
    Gen.C60.icmp_attrIPAddr = attrIPAddr ∧ Gen.C60.icmp_attrIfIndex = attrIfIndex := by decide

def pkOfName (s : String) : PK :=
  if s = "parseEcho" then .echo else if s = "parseExtendedEchoRequest" then .xreq
  else if s = "parseExtendedEchoReply" then .xrep else if s = "parseDstUnreach" then .du
  else if s = "parseTimeExceeded" then .te else if s = "parseParamProb" then .pp
  else if s = "parsePacketTooBig" then .ptb else .raw

/-- The model's dispatch is exactly the regenerated `parseFns` map: every entry selects the same
parser, and every (protocol, type) without an entry falls back to the raw body. -/
theorem gen_parseFns_eq :
    (∀ e ∈ Gen.C60.parseFns, parserKind e.1 e.2.1 = pkOfName e.2.2 ∧ pkOfName e.2.2 ≠ .raw) ∧
    (∀ p ∈ [protocolICMP, protocolIPv6ICMP], ∀ t ∈ List.range 256,
      (Gen.C60.parseFns.all fun e => !(e.1 == p && e.2.1 == t)) = true → parserKind p t = .raw) := by
  decide +kernel

end NetVerif.Proofs.C60
