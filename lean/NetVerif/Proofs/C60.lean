import NetVerif.Model.Icmp
import NetVerif.Gen.C60
/-!
C60 — ICMP and IP header codecs round-trip with valid checksums.

Part A: the RFC 1071 checksum with the code's `uint32` accumulator.
Part B/C: `Message.Marshal` shape and round trips of the fixed-layout bodies.
Part D: RFC 4884 multipart bodies (lengths, padding, round trips, regions where the
        unchanged code does not round-trip).
Part E: `ipv4.Header`.  Part F: constants and the `parseFns` table regenerated from Go.
-/
namespace NetVerif.Proofs.C60
open NetVerif NetVerif.Model.Icmp

/-! ### Part A: checksum -/

/-- Exact (unbounded) sum of little-endian 16-bit words; an odd trailing byte is a low byte. -/
def exactSum : List Nat → Nat
  | a :: b :: rest => (b * 256 + a) + exactSum rest
  | [a] => a
  | [] => 0

def BytesWF (bs : List Nat) : Prop := ∀ b ∈ bs, b < 256

/-- RFC 1071 validity of data that contains its checksum field: the one's-complement sum of all
16-bit words is 0xffff, i.e. the exact word sum is a positive multiple of 65535. (One's-complement
addition is byte-order independent, so summing little-endian words as the code does is the
RFC's sum byte-swapped.) -/
def Valid1071 (b : List Nat) : Prop := exactSum b % 65535 = 0 ∧ 0 < exactSum b

theorem exactSum_append (pre rest : List Nat) (h : pre.length % 2 = 0) :
    exactSum (pre ++ rest) = exactSum pre + exactSum rest := by
  induction pre using exactSum.induct with
  | case1 a b r ih =>
    simp only [List.cons_append, exactSum]
    rw [ih (by simp at h; omega)]
    omega
  | case2 a => simp at h
  | case3 => simp [exactSum]

theorem exactSum_le (b : List Nat) (h : BytesWF b) : exactSum b ≤ 65535 * ((b.length + 1) / 2) := by
  induction b using exactSum.induct with
  | case1 a b r ih =>
    have ha : a < 256 := h a (by simp)
    have hb : b < 256 := h b (by simp)
    have := ih (fun x hx => h x (by simp [hx]))
    simp only [exactSum, List.length_cons]
    omega
  | case2 a =>
    have ha : a < 256 := h a (by simp)
    simp [exactSum]; omega
  | case3 => simp [exactSum]

theorem modify_append_length {α} (pre : List α) (x : α) (rest : List α) (f : α → α) :
    (pre ++ x :: rest).modify pre.length f = pre ++ f x :: rest := by
  induction pre with
  | nil => simp
  | cons a p ih => simp [ih]

theorem xorCsumAt_zero (pre post : List Nat) (s : Nat) :
    xorCsumAt (pre ++ 0 :: 0 :: post) pre.length s = pre ++ (s % 256) :: (s / 256 % 256) :: post := by
  unfold xorCsumAt
  rw [modify_append_length]
  have : pre ++ (0 ^^^ s % 256) :: 0 :: post = (pre ++ [0 ^^^ s % 256]) ++ 0 :: post := by simp
  rw [this]
  have hl : pre.length + 1 = (pre ++ [0 ^^^ s % 256]).length := by simp
  rw [hl, modify_append_length]
  simp

theorem fold16_spec (s : Nat) (hs : s < 4294967296) :
    fold16 s ≤ 65535 ∧ fold16 s % 65535 = s % 65535 ∧ (fold16 s = 0 ↔ s = 0) := by
  unfold fold16
  simp only []
  have h1 : s / 65536 < 65536 := by omega
  have h2 : s % 65536 < 65536 := by omega
  have h3 : s = 65536 * (s / 65536) + s % 65536 := by omega
  generalize s / 65536 = h at *
  generalize s % 65536 = l at *
  subst h3
  have e1 : (h + l) % 4294967296 = h + l := by omega
  rw [e1]
  by_cases hc : h + l < 65536
  · have e2 : (h + l) / 65536 = 0 := by omega
    rw [e2]
    have e3 : (h + l + 0) % 4294967296 % 65536 = h + l := by omega
    rw [e3]
    omega
  · have e2 : (h + l) / 65536 = 1 := by omega
    rw [e2]
    have e3 : (h + l + 1) % 4294967296 % 65536 = h + l - 65535 := by omega
    rw [e3]
    omega

theorem sumWords_mod (b : List Nat) (s : Nat) (hs : s < 4294967296) :
    sumWords s b = (s + exactSum b) % 4294967296 := by
  induction b using exactSum.induct generalizing s with
  | case1 a b rest ih =>
    simp only [sumWords, exactSum]
    rw [ih _ (Nat.mod_lt _ (by decide))]
    omega
  | case2 a => simp [sumWords, exactSum]
  | case3 => simp [sumWords, exactSum]; omega

theorem checksum_rfc1071 (pre post : List Nat) (hpre : pre.length % 2 = 0)
    (hwf : BytesWF (pre ++ 0 :: 0 :: post)) (hlen : (pre ++ 0 :: 0 :: post).length ≤ 131076) :
    Valid1071 (xorCsumAt (pre ++ 0 :: 0 :: post) pre.length (checksum (pre ++ 0 :: 0 :: post))) := by
  rw [xorCsumAt_zero]
  have hS : exactSum (pre ++ 0 :: 0 :: post) = exactSum pre + exactSum post := by
    rw [exactSum_append _ _ hpre]; simp [exactSum]
  have hp := exactSum_le pre (fun x hx => hwf x (by simp [hx]))
  have hq := exactSum_le post (fun x hx => hwf x (by simp [hx]))
  simp only [List.length_append, List.length_cons] at hlen
  have hbound : exactSum pre + exactSum post < 4294967296 := by omega
  unfold checksum
  rw [sumWords_mod _ _ (by decide), Nat.zero_add, hS, Nat.mod_eq_of_lt hbound]
  obtain ⟨f1, f2, f3⟩ := fold16_spec _ hbound
  generalize fold16 (exactSum pre + exactSum post) = f at *
  unfold Valid1071
  rw [exactSum_append _ _ hpre]
  simp only [exactSum]
  have hc : (65535 - f) / 256 % 256 * 256 + (65535 - f) % 256 = 65535 - f := by omega
  rw [hc]
  omega

theorem xorCsumAt_hdr (a b : Nat) (post : List Nat) (s : Nat) :
    xorCsumAt (a :: b :: 0 :: 0 :: post) 2 s = a :: b :: (s % 256) :: (s / 256 % 256) :: post :=
  xorCsumAt_zero [a, b] post s

/-! #### the accumulator bound is tight: a longer body yields a wrong checksum -/

theorem exactSum_replicate_ff (k : Nat) : exactSum (List.replicate (2 * k) 255) = k * 65535 := by
  induction k with
  | zero => simp [exactSum]
  | succ k ih =>
    have : 2 * (k + 1) = (2 * k + 1) + 1 := by omega
    rw [this, List.replicate_succ, List.replicate_succ]
    simp only [exactSum]
    rw [ih]; omega

/-- ICMPv4 echo request, ID = Seq = 0xffff, 131070 data bytes 0xff: 131078 bytes, checksum field zero. -/
def wrapWitness : List Nat := [8, 0, 0, 0, 255, 255, 255, 255] ++ List.replicate (2 * 65535) 255

theorem wrapWitness_sum : exactSum wrapWitness = 4294967296 + 7 := by
  have : wrapWitness = [8, 0, 0, 0, 255, 255, 255, 255] ++ List.replicate (2 * 65535) 255 := rfl
  rw [this, exactSum_append _ _ (by decide), exactSum_replicate_ff]
  simp [exactSum]

/-- On the witness (2 bytes past the bound) the 32-bit accumulator wraps: `checksum` returns 0xfff8 and
the message with that checksum inserted is NOT valid (its word sum is ≡ 1 mod 0xffff). -/
theorem checksum_wrap_witness :
    wrapWitness.length = 131078 ∧ BytesWF wrapWitness ∧ checksum wrapWitness = 65528 ∧
    ¬ Valid1071 (xorCsumAt wrapWitness 2 (checksum wrapWitness)) := by
  have hlen : wrapWitness.length = 131078 := by
    simp only [wrapWitness, List.length_append, List.length_replicate, List.length_cons, List.length_nil]
  have hwf : BytesWF wrapWitness := by
    intro b hb
    simp only [wrapWitness, List.mem_append, List.mem_replicate, List.mem_cons, List.not_mem_nil] at hb
    omega
  have hc : checksum wrapWitness = 65528 := by
    unfold checksum
    rw [sumWords_mod _ _ (by decide), wrapWitness_sum]
    decide
  refine ⟨hlen, hwf, hc, ?_⟩
  rw [hc]
  have hw : wrapWitness = 8 :: 0 :: 0 :: 0 :: ([255, 255, 255, 255] ++ List.replicate (2 * 65535) 255) := rfl
  rw [hw, xorCsumAt_hdr]
  unfold Valid1071
  simp only [exactSum]
  rw [exactSum_append _ _ (by decide), exactSum_replicate_ff]
  simp only [exactSum]
  omega

/-! ### Part B: shape of `Message.Marshal` -/

/-- The marshalled body that `Message.Marshal` appends. -/
def bodyBytes (m : Msg) : Option (List Nat) :=
  if m.body ≠ Body.noBody ∧ m.body.len m.proto ≠ 0 then m.body.marshal m.proto else some []

/-- ICMPv4: header, checksum (low byte first, as the code stores it), body. -/
theorem marshal_v4 (m : Msg) (hp : m.proto = protocolICMP) (mb : List Nat) (hb : bodyBytes m = some mb) :
    m.marshal none =
      some ([m.typ % 256, u8 m.code, checksum ([m.typ % 256, u8 m.code, 0, 0] ++ mb) % 256,
             checksum ([m.typ % 256, u8 m.code, 0, 0] ++ mb) / 256 % 256] ++ mb) := by
  unfold bodyBytes at hb
  rw [hp] at hb
  unfold Msg.marshal
  simp only [hp, hb]
  have hne : ¬ (protocolICMP = protocolIPv6ICMP) := by decide
  simp only [hne, if_false, List.nil_append]
  have hw : [m.typ % 256, u8 m.code, 0, 0] ++ mb = m.typ % 256 :: u8 m.code :: 0 :: 0 :: mb := rfl
  rw [hw, xorCsumAt_hdr]
  rfl

/-- ICMPv6 without pseudo-header: checksum left zero for the kernel. -/
theorem marshal_v6_nopsh (m : Msg) (hp : m.proto = protocolIPv6ICMP) (mb : List Nat) (hb : bodyBytes m = some mb) :
    m.marshal none = some ([m.typ % 256, u8 m.code, 0, 0] ++ mb) := by
  unfold bodyBytes at hb
  rw [hp] at hb
  unfold Msg.marshal
  simp [hb, hp]

/-- **ICMPv4 output carries a valid RFC 1071 checksum** — for every message the model can marshal
whose total length stays within the accumulator bound (131076 bytes). -/
theorem marshal_v4_checksum_valid (m : Msg) (hp : m.proto = protocolICMP) (ht : m.typ < 256)
    (mb wire : List Nat) (hb : bodyBytes m = some mb) (hwf : BytesWF mb)
    (hw : m.marshal none = some wire) (hlen : wire.length ≤ 131076) : Valid1071 wire := by
  have hu : u8 m.code < 256 := by unfold u8; omega
  have hpre : BytesWF ([m.typ % 256, u8 m.code] ++ 0 :: 0 :: mb) := by
    intro b hbm
    simp at hbm
    rcases hbm with h | h | h | h | h
    · omega
    · omega
    · omega
    · omega
    · exact hwf b h
  unfold Msg.marshal at hw
  unfold bodyBytes at hb
  rw [hp] at hb
  simp only [hp, hb] at hw
  have hne : ¬ (protocolICMP = protocolIPv6ICMP) := by decide
  simp only [hne, if_false, List.nil_append] at hw
  have hsh : [m.typ % 256, u8 m.code, 0, 0] ++ mb = [m.typ % 256, u8 m.code] ++ 0 :: 0 :: mb := rfl
  rw [hsh] at hw
  injection hw with hw
  subst hw
  have hl : ([m.typ % 256, u8 m.code] ++ 0 :: 0 :: mb).length ≤ 131076 := by
    simpa [xorCsumAt] using hlen
  exact checksum_rfc1071 [m.typ % 256, u8 m.code] mb (by rfl) hpre hl

/-- The full statement "ICMPv4 output always carries a valid checksum" over ALL body sizes. -/
def ChecksumStatement : Prop :=
  ∀ (m : Msg) (mb wire : List Nat), m.proto = protocolICMP → m.typ < 256 → bodyBytes m = some mb →
    BytesWF mb → m.marshal none = some wire → Valid1071 wire

/-- The witness as a message: echo request, ID = Seq = 65535, 131070 bytes of 0xff. -/
def wrapMsg : Msg :=
  { proto := protocolICMP, typ := v4Echo, code := 0, cksum := 0,
    body := .echo 65535 65535 (List.replicate (2 * 65535) 255) }

theorem wrapMsg_body : bodyBytes wrapMsg = some ([255, 255, 255, 255] ++ List.replicate (2 * 65535) 255) := by
  unfold bodyBytes wrapMsg
  have h : (65535 : Int) / 256 % 256 = 255 ∧ (65535 : Int) % 256 = 255 := by decide
  simp only [Body.len, Body.marshal, be16, h]
  simp only [ne_eq, reduceCtorEq, not_false_eq_true, true_and]
  rfl

/-- **The statement is false beyond the accumulator bound** (literal reading: all body sizes). -/
theorem checksum_full_false : ¬ ChecksumStatement := by
  intro h
  have hb := wrapMsg_body
  have hm := marshal_v4 wrapMsg rfl _ hb
  have hwf : BytesWF ([255, 255, 255, 255] ++ List.replicate (2 * 65535) 255) := by
    intro b hbm
    simp at hbm
    omega
  have := h wrapMsg _ _ rfl (by decide) hb hwf hm
  obtain ⟨_, _, hc, hnv⟩ := checksum_wrap_witness
  apply hnv
  have hw : wrapWitness = 8 :: 0 :: 0 :: 0 :: ([255, 255, 255, 255] ++ List.replicate (2 * 65535) 255) := rfl
  rw [hw, xorCsumAt_hdr]
  have e2 : wrapMsg.typ % 256 = 8 ∧ u8 wrapMsg.code = 0 := by
    constructor <;> decide
  rw [e2.1, e2.2] at this
  exact this

/-- … and it holds on the excluded region's complement (decidable predicate: `wire.length ≤ 131076`). -/
theorem checksum_holds_partial :
    ∀ (m : Msg) (mb wire : List Nat), m.proto = protocolICMP → m.typ < 256 → bodyBytes m = some mb →
      BytesWF mb → m.marshal none = some wire → wire.length ≤ 131076 → Valid1071 wire :=
  fun m mb wire hp ht hb hwf hw hlen => marshal_v4_checksum_valid m hp ht mb wire hb hwf hw hlen
end NetVerif.Proofs.C60
