import NetVerif.Model.ChanSem
/-!
Invariant lemmas for the gate (C29): per-goroutine well-formedness and local token
conservation for one step of the select machine on `Model.ChanSem.gate`.
-/
namespace NetVerif.Proofs.GateInv
set_option linter.unusedSimpArgs false
open NetVerif.Model.ChanSem

/-- Channel store of a gate: both channels have capacity 1 and are never closed. -/
def SWf (σ : Store GCh) : Prop :=
  (σ .set).cap = 1 ∧ (σ .unset).cap = 1 ∧ (σ .set).closed = false ∧ (σ .unset).closed = false

/-- Per-goroutine invariant: where a goroutine can be inside a gate method, and how the
ghost `holding` relates to the client's belief `owns`. -/
def GG.wf (g : GG) : Prop :=
  (g.cont = [] ∧ g.owns = g.holding) ∨
  (g.holding = false ∧ g.owns = false ∧
     ((g.meth = .lock ∧ g.cont = gate.lock) ∨
      (g.meth = .waitAndLock ∧ (g.cont = gate.waitAndLock ∨ g.cont = gate.waitAndLock.tail)) ∨
      (g.meth = .lockIfSet ∧ g.cont = gate.lockIfSet))) ∨
  (g.holding = true ∧ g.owns = true ∧ g.meth = .unlock ∧ g.cont = instantiate gate.unlock g.arg)

/-- Everything one step of one goroutine does, as seen from outside. -/
structure StepFacts (σ : Store GCh) (g : GG) (σ' : Store GCh) (g' : GG) : Prop where
  swf : SWf σ'
  wf : GG.wf g'
  /-- local token conservation -/
  cons : tokens σ' + b2n g'.holding = tokens σ + b2n g.holding
  /-- the store changes only when the token moves -/
  frame : g'.holding = g.holding → σ' = σ
  /-- the token is given back only by the send that completes `unlock(arg)` -/
  release : g.holding = true → g'.holding = false →
    g.meth = .unlock ∧ g.cont ≠ [] ∧ g'.cont = [] ∧ g'.owns = false ∧
    (σ' .set).len = (σ .set).len + b2n g.arg ∧ (σ' .unset).len = (σ .unset).len + b2n (!g.arg)
  /-- the token is taken only by a receive that completes a locking call -/
  acquire : g.holding = false → g'.holding = true →
    g.cont ≠ [] ∧ g'.cont = [] ∧ g'.owns = true ∧
    ((g'.took = some .set ∧ 0 < (σ .set).len ∧ (g.meth = .lock → g'.last = some .tt)) ∨
     (g'.took = some .unset ∧ 0 < (σ .unset).len ∧ g.meth = .lock ∧ g'.last = some .ff))
  /-- `waitAndLock` returns nil only by receiving from `set`, an error only if ctx is done -/
  wait : g.meth = .waitAndLock → g.cont ≠ [] → g'.cont = [] →
    (g'.last = some .nil ∧ g'.holding = true ∧ g'.took = some .set ∧ 0 < (σ .set).len) ∨
    (g'.last = some .err ∧ g.ctx = true ∧ g'.holding = false ∧ σ' = σ)
  /-- `lockIfSet` -/
  lockIfSet : g.meth = .lockIfSet → g.cont ≠ [] → g'.cont = [] →
    (g'.last = some .tt ∧ g'.holding = true ∧ g'.took = some .set ∧ 0 < (σ .set).len) ∨
    (g'.last = some .ff ∧ (σ .set).len = 0 ∧ g'.holding = false ∧ σ' = σ)
  /-- `lock` completes only by taking the token -/
  lockDone : g.meth = .lock → g.cont ≠ [] → g'.cont = [] → g.holding = false ∧ g'.holding = true
  /-- `unlock` completes only by giving the token back -/
  unl : g.meth = .unlock → g.cont ≠ [] → g'.cont = [] → g.holding = true ∧ g'.holding = false
  /-- a call in progress keeps its method, argument -/
  same : g.cont ≠ [] → g'.meth = g.meth ∧ g'.arg = g.arg
  /-- a goroutine that is not inside a call only starts one -/
  idle : g.cont = [] → g'.holding = g.holding ∧ g'.owns = g.owns

macro "gfin" : tactic => `(tactic| (
  constructor <;>
    simp_all [SWf, upd, GG.wf, holdAfter, tookAfter, tokens, b2n, acquired, gate, instantiate,
              GateSrc.body, GMeth.isUnlock] <;> omega))

theorem step_local {σ σ' : Store GCh} {g g' : GG} {a : GAct}
    (hσ : SWf σ) (hg : GG.wf g) (h : g.step gate σ a = some (σ', g')) :
    StepFacts σ g σ' g' := by
  obtain ⟨c1, c2, k1, k2⟩ := hσ
  cases a with
  | call m arg =>
    simp only [GG.step] at h
    split at h
    · rename_i hc
      simp at h
      obtain ⟨rfl, rfl⟩ := h
      simp at hc
      obtain ⟨hc1, hc2⟩ := hc
      rcases hg with ⟨_, ho⟩ | ⟨_, _, hh⟩ | ⟨_, _, _, hh⟩
      · cases m <;> gfin
      · rcases hh with ⟨_, hh⟩ | ⟨_, hh | hh⟩ | ⟨_, hh⟩ <;> simp [hh, gate] at hc1
      · cases hb : g.arg <;> simp [hh, hb, gate, instantiate] at hc1
    · simp at h
  | cancel =>
    simp only [GG.step] at h
    split at h
    · simp at h
    · simp at h
      obtain ⟨rfl, rfl⟩ := h
      rcases hg with ⟨_, ho⟩ | ⟨_, _, hh⟩ | ⟨_, _, _, hh⟩
      · gfin
      · rcases hh with ⟨_, hh⟩ | ⟨_, hh | hh⟩ | ⟨_, hh⟩ <;> gfin
      · gfin
  | run p =>
    rcases hg with ⟨hc, ho⟩ | ⟨hh, ho, hm⟩ | ⟨hh, ho, hm, hc⟩
    · simp [GG.step, hc] at h
    · rcases hm with ⟨hm, hc⟩ | ⟨hm, hc | hc⟩ | ⟨hm, hc⟩
      all_goals
        cases p with
        | dflt =>
          simp [GG.step, hc, gate, Sel.step, Arm.enabled, k1, k2, GG.after] at h
          try (obtain ⟨hl, rfl, rfl⟩ := h; gfin)
        | arm k =>
          match k with
          | 0 =>
            simp [GG.step, hc, gate, Sel.step, Arm.enabled, Arm.fire, k1, k2, GG.after] at h
            obtain ⟨hl, rfl, rfl⟩ := h
            gfin
          | 1 =>
            simp [GG.step, hc, gate, Sel.step, Arm.enabled, Arm.fire, k1, k2, GG.after] at h
            first
              | done
              | (obtain ⟨hl, rfl, rfl⟩ := h; gfin)
              | (cases hx : g.ctx <;> simp [hx] at h
                 obtain ⟨_, _, _, ⟨rfl, rfl, rfl⟩, h⟩ := h
                 simp at h
                 obtain ⟨rfl, rfl⟩ := h
                 gfin)
          | k+2 => simp [GG.step, hc, gate, Sel.step] at h
    · cases hb : g.arg <;> simp [hb, gate, instantiate] at hc
      all_goals
        cases p with
        | dflt => simp [GG.step, hc, Sel.step] at h
        | arm k =>
          match k with
          | 0 =>
            simp [GG.step, hc, Sel.step, Arm.enabled, Arm.fire, GG.after] at h
            obtain ⟨hl, rfl, rfl⟩ := h
            gfin
          | k+1 => simp [GG.step, hc, Sel.step] at h

/-! ### counting holders in a list of goroutines -/

theorem holders_set (gs : List GG) (i : Nat) (g g' : GG) (h : gs[i]? = some g) :
    holders (gs.set i g') + b2n g.holding = holders gs + b2n g'.holding := by
  induction gs generalizing i with
  | nil => simp at h
  | cons x xs ih =>
    cases i with
    | zero =>
      simp at h; subst h
      simp [holders]; omega
    | succ i =>
      simp at h
      have := ih i h
      simp [holders] at this ⊢; omega

theorem holders_zero {gs : List GG} (h : holders gs = 0) : ∀ g ∈ gs, g.holding = false := by
  induction gs with
  | nil => simp
  | cons x xs ih =>
    simp [holders] at h
    intro g hg
    simp at hg
    rcases hg with rfl | hg
    · cases hx : g.holding <;> simp [b2n, hx] at h ⊢
    · exact ih (by simpa [holders] using h.2) g hg

theorem holders_pos {gs : List GG} {i : Nat} {g : GG} (h : gs[i]? = some g) (hh : g.holding = true) :
    1 ≤ holders gs := by
  induction gs generalizing i with
  | nil => simp at h
  | cons x xs ih =>
    cases i with
    | zero => simp at h; subst h; simp [holders, b2n, hh]
    | succ i => simp at h; have := ih h; simp [holders] at this ⊢; omega

/-- At most one holder ⇒ two holding goroutines are the same goroutine. -/
theorem holders_unique {gs : List GG} (h : holders gs ≤ 1) {i j : Nat} {g1 g2 : GG}
    (h1 : gs[i]? = some g1) (h2 : gs[j]? = some g2) (hh1 : g1.holding = true) (hh2 : g2.holding = true) :
    i = j := by
  induction gs generalizing i j with
  | nil => simp at h1
  | cons x xs ih =>
    simp [holders] at h
    cases i with
    | zero =>
      cases j with
      | zero => rfl
      | succ j =>
        simp at h1 h2; subst h1
        have := holders_pos h2 hh2
        simp [b2n, hh1, holders] at h this; omega
    | succ i =>
      cases j with
      | zero =>
        simp at h1 h2; subst h2
        have := holders_pos h1 hh1
        simp [b2n, hh2, holders] at h this; omega
      | succ j =>
        simp at h1 h2
        have := ih (by simp [holders]; omega) h1 h2
        omega

end NetVerif.Proofs.GateInv
