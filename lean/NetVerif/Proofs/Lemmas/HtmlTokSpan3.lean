import NetVerif.Proofs.Lemmas.HtmlTokSpan2
/-! Span order, part 3: declarations, tags, Next. -/
namespace NetVerif.Proofs.Lemmas.HtmlTokSpan
open NetVerif.Model.HtmlTokExact NetVerif.Proofs.Lemmas.HtmlTokExact

/-- lower bound `lo` on the cursor, plus frame -/
def Low (lo : Nat) (z r : Z) : Prop :=
  lo ≤ r.rawEnd ∧ r.rawEnd ≤ r.inp.size ∧ r.inp = z.inp ∧ r.rawStart = z.rawStart ∧ r.finalErr = z.finalErr

theorem low_of_mono {lo : Nat} {z r : Z} (h : lo ≤ z.rawEnd) (m : Mono z r) : Low lo z r :=
  ⟨Nat.le_trans h m.1, m.2.1, m.2.2.1, m.2.2.2.1, m.2.2.2.2⟩

theorem Low.trans_mono {lo : Nat} {a b c : Z} (h1 : Low lo a b) (h2 : Mono b c) : Low lo a c :=
  ⟨Nat.le_trans h1.1 h2.1, h2.2.1, h2.2.2.1.trans h1.2.2.1, h2.2.2.2.1.trans h1.2.2.2.1, h2.2.2.2.2.trans h1.2.2.2.2⟩

theorem ok_of_low {lo : Nat} {z r : Z} (h : Ok z) (m : Low lo z r) : Ok r :=
  ⟨m.2.1, by rw [m.2.2.2.2]; exact h.2⟩

theorem low_readDoctype (z : Z) (h : Ok z) (hd : z.dataStart ≤ z.inp.size) :
    Low (min z.rawEnd z.dataStart) z (readDoctype z).2 ∧
    ((readDoctype z).1 = false → (readDoctype z).2.dataStart = z.dataStart) := by
  have hb := back_matchWord true doctypeWord z h hd
  unfold readDoctype
  split
  · rename_i z1 heq
    rw [heq] at hb
    obtain ⟨⟨b1, b2, b3, b4, b5, b6⟩, _⟩ := hb
    exact ⟨⟨b1, b2, b3, b4, b5⟩, fun _ => b6⟩
  · rename_i u z1 heq
    rw [heq] at hb
    obtain ⟨⟨b1, b2, b3, b4, b5, b6⟩, _⟩ := hb
    have hl : Low (min z.rawEnd z.dataStart) z z1 := ⟨b1, b2, b3, b4, b5⟩
    have hok1 := ok_of_low h hl
    have hw := mono_skipWhiteSpace z1 hok1
    simp only []
    split
    · exact ⟨hl.trans_mono hw, fun e => by simp at e⟩
    · exact ⟨(hl.trans_mono hw).trans_mono (mono_readUntilCloseAngle _ (ok_of_mono hok1 hw)), fun e => by simp at e⟩

theorem low_readCDATA (z : Z) (h : Ok z) (hd : z.dataStart ≤ z.inp.size) :
    Low (min z.rawEnd z.dataStart) z (readCDATA z).2 := by
  have hb := back_matchWord false cdataWord z h hd
  unfold readCDATA
  split
  · rename_i z1 heq
    rw [heq] at hb
    obtain ⟨⟨b1, b2, b3, b4, b5, b6⟩, _⟩ := hb
    exact ⟨b1, b2, b3, b4, b5⟩
  · rename_i u z1 heq
    rw [heq] at hb
    obtain ⟨⟨b1, b2, b3, b4, b5, b6⟩, _⟩ := hb
    have hl : Low (min z.rawEnd z.dataStart) z z1 := ⟨b1, b2, b3, b4, b5⟩
    exact hl.trans_mono (mono_cdataLoop _ _ { z1 with dataStart := z1.rawEnd } (ok_of_low h hl))

theorem mono_readMarkupDeclaration (z : Z) (h : Ok z) : Mono z (readMarkupDeclaration z).2 := by
  unfold readMarkupDeclaration
  simp only []
  have h0 : Ok { z with dataStart := z.rawEnd } := h
  have hm0 : Mono z { z with dataStart := z.rawEnd } := Mono.refl z h
  have hds0 : ({ z with dataStart := z.rawEnd } : Z).dataStart = z.rawEnd := rfl
  have hre0 : ({ z with dataStart := z.rawEnd } : Z).rawEnd = z.rawEnd := rfl
  generalize ({ z with dataStart := z.rawEnd } : Z) = z0 at h0 hm0 hds0 hre0 ⊢
  have hr1 := rb z0 h0
  have hok1 := ok_of_mono h0 hr1.1
  have hds1 : (readByte z0).2.dataStart = z0.dataStart := by
    have := NetVerif.Proofs.Lemmas.HtmlTokMaxBuf.rt_readByte z0
    simp only [NetVerif.Proofs.Lemmas.HtmlTokMaxBuf.rt, Prod.mk.injEq] at this; exact this.2
  split
  · exact hm0.trans hr1.1
  · rename_i e1; simp only [ne_eq, Decidable.not_not] at e1
    have hr2 := rb _ hok1
    have hok2 := ok_of_mono hok1 hr2.1
    have hds2 : (readByte (readByte z0).2).2.dataStart = z0.dataStart := by
      have := NetVerif.Proofs.Lemmas.HtmlTokMaxBuf.rt_readByte (readByte z0).2
      simp only [NetVerif.Proofs.Lemmas.HtmlTokMaxBuf.rt, Prod.mk.injEq] at this; rw [this.2, hds1]
    have hm2 := (hm0.trans hr1.1).trans hr2.1
    split
    · exact hm2
    · rename_i e2; simp only [ne_eq, Decidable.not_not] at e2
      split
      · exact hm2.trans (mono_commentLoop _ _ _ _ hok2)
      · have p1 := hr1.2.2 e1
        have p2 := hr2.2.2 e2
        -- after `z.raw.end -= 2` we are back at the entry position, which is data.start
        have hzu : (unread (readByte (readByte z0).2).2 2).rawEnd = z.rawEnd := by
          simp only [unread, p2, p1, hre0]; omega
        have hdsu : (unread (readByte (readByte z0).2).2 2).dataStart = z.rawEnd := by
          simp only [unread, hds2, hds0]
        have hmu : Mono z (unread (readByte (readByte z0).2).2 2) := by
          obtain ⟨a1, a2, a3, a4, a5⟩ := hm2
          refine ⟨by rw [hzu]; exact Nat.le_refl _, ?_, a3, a4, a5⟩
          show (readByte (readByte z0).2).2.rawEnd - 2 ≤ (readByte (readByte z0).2).2.inp.size
          omega
        generalize (unread (readByte (readByte z0).2).2 2) = zu at hzu hdsu hmu ⊢
        have hoku := ok_of_mono h hmu
        have hdu : zu.dataStart ≤ zu.inp.size := by rw [hdsu, hmu.2.2.1]; exact h.1
        have hdt := low_readDoctype zu hoku hdu
        have toMono : ∀ r : Z, Low (min zu.rawEnd zu.dataStart) zu r → Mono z r := by
          intro r hl
          obtain ⟨l1, l2, l3, l4, l5⟩ := hl
          rw [hzu, hdsu, Nat.min_self] at l1
          exact ⟨l1, l2, l3.trans hmu.2.2.1, l4.trans hmu.2.2.2.1, l5.trans hmu.2.2.2.2⟩
        split
        · rename_i z3 heq; rw [heq] at hdt; exact toMono _ hdt.1
        · rename_i z3 heq
          rw [heq] at hdt
          simp only at hdt
          have hm3 := toMono _ hdt.1
          have hds3 : z3.dataStart = z.rawEnd := by rw [hdt.2 trivial, hdsu]
          have hok3 := ok_of_mono h hm3
          split
          · exact hm3
          · have hdc := low_readCDATA z3 hok3 (by rw [hds3, hm3.2.2.1]; exact h.1)
            have toMono3 : ∀ r : Z, Low (min z3.rawEnd z3.dataStart) z3 r → Mono z r := by
              intro r hl
              obtain ⟨l1, l2, l3, l4, l5⟩ := hl
              have : z.rawEnd ≤ min z3.rawEnd z3.dataStart := by rw [hds3]; exact Nat.le_min.2 ⟨hm3.1, Nat.le_refl _⟩
              exact ⟨Nat.le_trans this l1, l2, l3.trans hm3.2.2.1, l4.trans hm3.2.2.2.1, l5.trans hm3.2.2.2.2⟩
            split
            · split
              · rename_i z4 heq4; rw [heq4] at hdc; exact toMono3 _ hdc
              · rename_i z4 heq4; rw [heq4] at hdc
                have hm4 := toMono3 _ hdc
                split
                · exact hm4
                · exact hm4.trans (mono_readUntilCloseAngle _ (ok_of_mono h hm4))
            · exact hm3.trans (mono_readUntilCloseAngle _ hok3)

/-! ### tags -/

theorem mono_tagNameLoop (f : Nat) (z : Z) (h : Ok z) : Mono z (tagNameLoop f z) := by
  induction f generalizing z with
  | zero => exact Mono.refl z h
  | succ f ih =>
    have hr := rb z h
    have hu := mono_unread1 z h
    simp only [tagNameLoop]
    split
    · exact hr.1
    · rename_i e; simp only [ne_eq, Decidable.not_not] at e
      repeat' split
      all_goals first | exact hr.1 | exact hu e | exact hr.1.trans (ih _ (ok_of_mono h hr.1))

theorem mono_attrKeyLoop (f : Nat) (z : Z) (h : Ok z) : Mono z (attrKeyLoop f z) := by
  induction f generalizing z with
  | zero => exact Mono.refl z h
  | succ f ih =>
    have hr := rb z h
    have hu := mono_unread1 z h
    simp only [attrKeyLoop]
    split
    · exact hr.1
    · rename_i e; simp only [ne_eq, Decidable.not_not] at e
      repeat' split
      all_goals first | exact hr.1 | exact hu e | exact hr.1.trans (ih _ (ok_of_mono h hr.1))

theorem mono_quotedValLoop (f q : Nat) (z : Z) (h : Ok z) : Mono z (quotedValLoop f q z) := by
  induction f generalizing z with
  | zero => exact Mono.refl z h
  | succ f ih =>
    have hr := rb z h
    simp only [quotedValLoop]
    repeat' split
    all_goals first | exact hr.1 | exact hr.1.trans (ih _ (ok_of_mono h hr.1))

theorem mono_unquotedValLoop (f : Nat) (z : Z) (h : Ok z) : Mono z (unquotedValLoop f z) := by
  induction f generalizing z with
  | zero => exact Mono.refl z h
  | succ f ih =>
    have hr := rb z h
    have hu := mono_unread1 z h
    simp only [unquotedValLoop]
    split
    · exact hr.1
    · rename_i e; simp only [ne_eq, Decidable.not_not] at e
      repeat' split
      all_goals first | exact hr.1 | exact hu e | exact hr.1.trans (ih _ (ok_of_mono h hr.1))

theorem mono_readTagName (z : Z) (h : Ok z) : Mono z (readTagName z) := by
  unfold readTagName; exact mono_tagNameLoop _ { z with dataStart := z.rawEnd - 1 } h

theorem mono_readTagAttrKey (z : Z) (h : Ok z) : Mono z (readTagAttrKey z) := by
  unfold readTagAttrKey; exact mono_attrKeyLoop _ { z with pkStart := z.rawEnd } h

theorem mono_readTagAttrVal (z : Z) (h : Ok z) : Mono z (readTagAttrVal z) := by
  unfold readTagAttrVal
  simp only []
  have h0 : Ok { z with pvStart := z.rawEnd, pvEnd := z.rawEnd } := h
  have hm0 : Mono z { z with pvStart := z.rawEnd, pvEnd := z.rawEnd } := Mono.refl z h
  generalize ({ z with pvStart := z.rawEnd, pvEnd := z.rawEnd } : Z) = z0 at h0 hm0 ⊢
  have hw := hm0.trans (mono_skipWhiteSpace z0 h0)
  have hokw := ok_of_mono h hw
  generalize skipWhiteSpace z0 = z1 at hw hokw ⊢
  split
  · exact hw
  · have hr := rb z1 hokw
    have hu := mono_unread1 z1 hokw
    have hm1 := hw.trans hr.1
    have hok1 := ok_of_mono h hm1
    split
    · exact hm1
    · rename_i e2; simp only [ne_eq, Decidable.not_not] at e2
      split
      · exact hm1
      · split
        · exact hw.trans (hu e2)
        · have hw2 := hm1.trans (mono_skipWhiteSpace _ hok1)
          have hokw2 := ok_of_mono h hw2
          generalize skipWhiteSpace (readByte z1).2 = z2 at hw2 hokw2 ⊢
          split
          · exact hw2
          · have hr2 := rb z2 hokw2
            have hu2 := mono_unread1 z2 hokw2
            have hm2 := hw2.trans hr2.1
            have hok2 := ok_of_mono h hm2
            split
            · exact hm2
            · rename_i e4; simp only [ne_eq, Decidable.not_not] at e4
              split
              · exact hw2.trans (hu2 e4)
              · split
                · exact hm2.trans (mono_quotedValLoop _ _ { (readByte z2).2 with pvStart := (readByte z2).2.rawEnd } hok2)
                · exact hm2.trans (mono_unquotedValLoop _ { (readByte z2).2 with pvStart := (readByte z2).2.rawEnd - 1 } hok2)

theorem mono_tagLoop (f : Nat) (sa : Bool) (z : Z) (h : Ok z) : Mono z (tagLoop f sa z) := by
  induction f generalizing z with
  | zero => exact Mono.refl z h
  | succ f ih =>
    have hr := rb z h
    have hu := mono_unread1 z h
    simp only [tagLoop]
    split
    · exact hr.1
    · rename_i hno; simp only [not_or, ne_eq, Decidable.not_not] at hno
      have hmu := hu hno.1
      have hk := hmu.trans (mono_readTagAttrKey _ (ok_of_mono h hmu))
      have hv := hk.trans (mono_readTagAttrVal _ (ok_of_mono h hk))
      generalize readTagAttrVal (readTagAttrKey (unread (readByte z).2)) = zv at hv ⊢
      have key : ∀ z' : Z, Mono z z' → Mono z (if (skipWhiteSpace z').err ≠ .none then skipWhiteSpace z'
          else tagLoop f sa (skipWhiteSpace z')) := by
        intro z' hz'
        have hw := hz'.trans (mono_skipWhiteSpace z' (ok_of_mono h hz'))
        split
        · exact hw
        · exact hw.trans (ih _ (ok_of_mono h hw))
      split
      · exact key _ hv
      · exact key _ hv

theorem mono_readTag (sa : Bool) (z : Z) (h : Ok z) : Mono z (readTag sa z) := by
  unfold readTag
  simp only []
  have h0 : Ok { z with nAttr := 0, lastValEnd := 0, attrNames := [] } := h
  have hn : Mono z (readTagName { z with nAttr := 0, lastValEnd := 0, attrNames := [] }) := mono_readTagName _ h0
  have hw := hn.trans (mono_skipWhiteSpace _ (ok_of_mono h hn))
  split
  · exact hw
  · exact hw.trans (mono_tagLoop _ _ _ (ok_of_mono h hw))

theorem mono_readStartTag (z : Z) (h : Ok z) : Mono z (readStartTag z).2 := by
  unfold readStartTag
  simp only []
  have ht := mono_readTag true z h
  generalize readTag true z = z1 at ht ⊢
  repeat' split
  all_goals exact ht

/-! ### Next -/

theorem span_finishText {z0 : Z} (z : Z) (h : Span z0 z) : Span z0 (finishText z).2 := by
  unfold finishText
  split
  · exact h
  · exact h

theorem mono_endTagOpen (z : Z) (h : Ok z) : Mono z (endTagOpen z).2 := by
  unfold endTagOpen
  have hr := rb z h
  have hu := mono_unread1 z h
  have hok := ok_of_mono h hr.1
  simp only []
  split
  · unfold finishText; split <;> exact hr.1
  · rename_i e; simp only [ne_eq, Decidable.not_not] at e
    split
    · exact hr.1
    · split
      · have ht := hr.1.trans (mono_readTag false _ hok)
        split <;> exact ht
      · exact (hu e).trans (mono_readUntilCloseAngle _ (ok_of_mono h (hu e)))

theorem span_dispatch (k c : Nat) (z : Z) (h : Ok z) (hs2 : z.rawStart + 2 ≤ z.rawEnd) : Span z (dispatch k c z).2 := by
  have hs : z.rawStart ≤ z.rawEnd := by omega
  unfold dispatch
  split
  · rename_i hlt
    exact ⟨by simp only []; omega, by simp only []; have := h.1; omega, rfl, rfl, rfl⟩
  · rename_i hge
    split
    · exact span_of_mono hs (mono_readStartTag z h)
    · split
      · exact span_of_mono hs (mono_endTagOpen z h)
      · split
        · exact span_of_mono hs (mono_readMarkupDeclaration z h)
        · -- `<?` : two bytes of this token have been read, so `raw.end--` stays inside it
          have hoku : Ok (unread z) := ⟨by show z.rawEnd - 1 ≤ z.inp.size; have h1 : z.rawEnd ≤ z.inp.size := h.1; omega, h.2⟩
          have hsu : (unread z).rawStart ≤ (unread z).rawEnd := by show z.rawStart ≤ z.rawEnd - 1; omega
          have hsp : Span (unread z) (readUntilCloseAngle (unread z)) :=
            span_of_mono hsu (mono_readUntilCloseAngle _ hoku)
          exact hsp

theorem span_mainLoop (f : Nat) (z : Z) (h : Ok z) (hs : z.rawStart ≤ z.rawEnd) : Span z (mainLoop f z).2 := by
  induction f generalizing z with
  | zero => exact span_refl z h hs
  | succ f ih =>
    have hr := rb z h
    have hok := ok_of_mono h hr.1
    have hs1 : (readByte z).2.rawStart ≤ (readByte z).2.rawEnd := by
      have := hr.1.1; rw [hr.1.2.2.2.1]; omega
    simp only [mainLoop]
    split
    · exact span_finishText _ (span_of_mono hs hr.1)
    · rename_i e1; simp only [ne_eq, Decidable.not_not] at e1
      split
      · exact Span.of_trans hr.1 (ih _ hok hs1)
      · have hr2 := rb _ hok
        have hok2 := ok_of_mono hok hr2.1
        have hm2 := hr.1.trans hr2.1
        split
        · exact span_finishText _ (span_of_mono hs hm2)
        · rename_i e2; simp only [ne_eq, Decidable.not_not] at e2
          have p1 := hr.2.2 e1
          have p2 := hr2.2.2 e2
          split
          · have hu := mono_unread1 _ hok e2
            have hmu := hr.1.trans hu
            exact Span.of_trans hmu (ih _ (ok_of_mono h hmu) (by have := hmu.1; rw [hmu.2.2.2.1]; omega))
          · exact Span.of_trans hm2 (span_dispatch _ _ _ hok2 (by rw [hm2.2.2.2.1, p2, p1]; omega))

/-- **Span order**: after every `Next` the token's raw span satisfies
`rawStart ≤ rawEnd ≤ len(input)` (and `Next` can be called again). -/
theorem next_span (z : Z) (h : Ok z) :
    (next z).2.rawStart ≤ (next z).2.rawEnd ∧ Ok (next z).2 := by
  have hst : Ok (startToken z) := h
  have hss : (startToken z).rawStart ≤ (startToken z).rawEnd := Nat.le_refl _
  have key : Span (startToken z) (next z).2 := by
    unfold next
    simp only []
    generalize startToken z = z1 at hst hss ⊢
    split
    · exact span_refl z1 hst hss
    · split
      · have ha := span_rawTextAttempt z1 hst hss
        generalize rawTextAttempt z1 = z2 at ha ⊢
        split
        · exact ha
        · obtain ⟨a1, a2, a3, a4, a5⟩ := ha
          have hok2 : Ok z2 := ⟨a2, by rw [a5]; exact hst.2⟩
          obtain ⟨b1, b2, b3, b4, b5⟩ := span_mainLoop (z2.inp.size + 2) z2 hok2 a1
          exact ⟨b1, b2, b3.trans a3, b4.trans a4, b5.trans a5⟩
      · exact span_mainLoop _ z1 hst hss
  obtain ⟨k1, k2, k3, k4, k5⟩ := key
  exact ⟨k1, k2, by rw [k5]; exact h.2⟩

end NetVerif.Proofs.Lemmas.HtmlTokSpan
