import NetVerif.Proofs.Lemmas.DnsMsg
/-!
The Builder against `Message.Pack`.

The Builder packs every record onto a buffer whose 12 header bytes are still zero (they are
written by `Finish`), `Message.AppendPack` onto a buffer that starts with the real header. The
packers look at the buffer only through its length and through `compressionDepth` of map entries,
and under the compression invariant (no pointer leads below offset 12) both are the same for two
buffers that agree from offset 12 on. So an accepted Builder call sequence produces exactly the
bytes of `Message.Pack` of the message it describes.
-/
namespace NetVerif.Proofs.DnsBuilder
open NetVerif.Model.Dns NetVerif.Proofs.Dns NetVerif.Proofs.C36 NetVerif.Proofs.DnsMsg

variable {k : Nat}

attribute [local irreducible] compressionDepth

/-! ## Without a map the buffer is never looked at -/

theorem packLoop_none_buf (b1 b2 : Bytes) : ∀ (rest lab out : Bytes),
    packLoop b1 rest lab out none = packLoop b2 rest lab out none := by
  intro rest
  induction rest with
  | nil => intro lab out; simp [packLoop]
  | cons c rest ih =>
    intro lab out
    rw [packLoop_cons, packLoop_cons]
    simp only [ih]

theorem packName_none_buf (n b1 b2 : Bytes) : packName n b1 none = packName n b2 none := by
  unfold packName
  rw [packLoop_none_buf b1 b2]

/-! ## With a map: buffers that agree from `k` on, under the invariant -/

theorem usable_congr {b1 b2 : Bytes} (hs : SameFrom k b1 b2) {key : Bytes} {m : CompMap}
    {ls : List Bytes} (hkey : key = textOf ls) (hok : LabelsOK ls) (hlen : (textOf ls).length ≤ 254)
    (hinv : CompInvUpTo k key.length b1 m) : usable b1 key m = usable b2 key m := by
  unfold usable
  cases hl : lookup key m with
  | none => simp [Option.filter]
  | some p =>
    rcases hinv key p (Nat.le_refl _) hl with ⟨hkp, _, ls', d, e, hkey', hok', hd, h10⟩
    have : ls' = ls := textOf_inj _ _ hok' hok (by rw [← hkey', hkey])
    subst this
    have d1 := compressionDepth_of_decodes hd hok hlen h10
    have d2 := compressionDepth_of_decodes (hd.transfer hs hkp) hok hlen h10
    simp only [Option.filter, d1, d2]

theorem packLabels_congr {b1 b2 : Bytes} (hs : SameFrom k b1 b2) :
    ∀ (ls : List Bytes) (out : Bytes) (m : CompMap),
    LabelsOK ls → (textOf ls).length ≤ 254 → CompInvUpTo k (textOf ls).length (b1 ++ out) m →
    packLabels b1 ls out m = packLabels b2 ls out m := by
  intro ls
  induction ls with
  | nil => intro out m _ _ _; simp [packLabels]
  | cons l ls ih =>
    intro out m hok hlen hinv
    have hls : LabelsOK ls := fun x hx => hok x (by simp [hx])
    have hlen' : (textOf ls).length ≤ 254 := by simp [textOf] at hlen; omega
    have hu := usable_congr (hs.append out) rfl hok hlen hinv
    rw [packLabels, packLabels, ← hu, ← hs.1]
    cases usable (b1 ++ out) (textOf (l :: ls)) m with
    | some p => rfl
    | none => exact ih _ _ hls hlen' (compInvUpTo_step hinv)

theorem packName_congr {b1 b2 : Bytes} (hs : SameFrom k b1 b2) (n : Bytes) (comp : Option CompMap)
    (hc : Canonical n) (hinv : CompInvOpt k b1 comp) : packName n b1 comp = packName n b2 comp := by
  cases comp with
  | none => exact packName_none_buf n b1 b2
  | some m =>
    rcases hc with ⟨hlen, hroot | ⟨ls, hne, hok, rfl⟩⟩
    · subst hroot; simp [packName]
    · rw [packName_textOf hne hok hlen, packName_textOf hne hok hlen,
        packLoop_labels_some b1 ls [] m hok, packLoop_labels_some b2 ls [] m hok,
        packLabels_congr hs ls [] m hok hlen (by intro key p _ h; simpa using hinv key p h)]

theorem packBody_congr {b1 b2 : Bytes} (hs : SameFrom k b1 b2) (hk : k ≤ b1.length) (b : Body)
    (comp : Option CompMap) (hwf : WFBody b) (hinv : CompInvOpt k b1 comp) :
    packBody b b1 comp = packBody b b2 comp := by
  cases b with
  | a ip => rfl
  | aaaa ip => rfl
  | ns n => exact packName_congr hs n comp hwf hinv
  | cname n => exact packName_congr hs n comp hwf hinv
  | ptr n => exact packName_congr hs n comp hwf hinv
  | mx pref n =>
    simp only [packBody]
    rw [packName_congr (hs.append (u16 pref)) n comp hwf.2 (hinv.append _)]
  | txt ss => rfl
  | soa ns mbox a b c d e =>
    rcases hwf with ⟨hc1, hc2, _⟩
    simp only [packBody]
    rw [← packName_congr hs ns comp hc1 hinv]
    cases hn : packName ns b1 comp with
    | error e => rfl
    | ok res =>
      rcases res with ⟨x1, c1⟩
      simp only []
      rcases packName_spec b1 ns x1 comp c1 hinv hk hc1 hn with ⟨_, g2, _⟩
      rw [packName_congr (hs.append x1) mbox c1 hc2 g2]
  | srv p w port t =>
    simp only [packBody]
    rw [packName_none_buf t (b1 ++ u16 p ++ u16 w ++ u16 port) (b2 ++ u16 p ++ u16 w ++ u16 port)]
  | opt opts => rfl
  | svcb p t ps => rfl
  | https p t ps => rfl
  | unknown t data => rfl

theorem packQuestion_congr {b1 b2 : Bytes} (hs : SameFrom k b1 b2) (q : Question) (comp : Option CompMap)
    (hwf : WFQuestion q) (hinv : CompInvOpt k b1 comp) :
    packQuestion q b1 comp = packQuestion q b2 comp := by
  unfold packQuestion
  rw [packName_congr hs q.name comp hwf.1 hinv]

theorem packResource_congr {b1 b2 : Bytes} (hs : SameFrom k b1 b2) (hk : k ≤ b1.length) (r : Resource)
    (comp : Option CompMap) (hwf : WFResource r) (hinv : CompInvOpt k b1 comp) :
    packResource r b1 comp = packResource r b2 comp := by
  rcases hwf with ⟨hc, _, _, hb⟩
  unfold packResource
  rw [← packName_congr hs r.hdr.name comp hc hinv]
  cases hn : packName r.hdr.name b1 comp with
  | error e => rfl
  | ok res =>
    rcases res with ⟨nb, c1⟩
    simp only []
    rcases packName_spec b1 r.hdr.name nb comp c1 hinv hk hc hn with ⟨_, g2, _⟩
    have key : ∀ (tail : Bytes), packBody r.body (b1 ++ nb ++ u16 r.body.realType ++ u16 r.hdr.cls ++ u32 r.hdr.ttl ++ tail) c1 =
        packBody r.body (b2 ++ nb ++ u16 r.body.realType ++ u16 r.hdr.cls ++ u32 r.hdr.ttl ++ tail) c1 := by
      intro tail
      have hs' : SameFrom k (b1 ++ nb ++ u16 r.body.realType ++ u16 r.hdr.cls ++ u32 r.hdr.ttl ++ tail)
          (b2 ++ nb ++ u16 r.body.realType ++ u16 r.hdr.cls ++ u32 r.hdr.ttl ++ tail) :=
        ((((hs.append nb).append _).append _).append _).append _
      have hi : CompInvOpt k (b1 ++ nb ++ u16 r.body.realType ++ u16 r.hdr.cls ++ u32 r.hdr.ttl ++ tail) c1 := by
        have := g2.append (u16 r.body.realType ++ u16 r.hdr.cls ++ u32 r.hdr.ttl ++ tail)
        simpa [List.append_assoc] using this
      exact packBody_congr hs' (by simp; omega) r.body c1 hb hi
    rw [← key]
    cases hbp : packBody r.body (b1 ++ nb ++ u16 r.body.realType ++ u16 r.hdr.cls ++ u32 r.hdr.ttl ++ u16 r.hdr.length) c1 with
    | error e => rfl
    | ok res2 =>
      rcases res2 with ⟨bb, c2⟩
      simp only []
      rw [← key]

theorem packQuestions_congr : ∀ (qs : List Question) {b1 b2 : Bytes} (comp : Option CompMap),
    SameFrom k b1 b2 → k ≤ b1.length → (∀ q ∈ qs, WFQuestion q) → CompInvOpt k b1 comp →
    packQuestions qs b1 comp = packQuestions qs b2 comp := by
  intro qs
  induction qs with
  | nil => intro b1 b2 comp _ _ _ _; rfl
  | cons q qs ih =>
    intro b1 b2 comp hs hk hwf hinv
    unfold packQuestions
    rw [← packQuestion_congr hs q comp (hwf q (by simp)) hinv]
    cases h1 : packQuestion q b1 comp with
    | error e => rfl
    | ok res =>
      rcases res with ⟨x1, c1⟩
      simp only []
      rcases packQuestion_spec b1 x1 q comp c1 hinv hk (hwf q (by simp)) h1 with ⟨_, g2, _⟩
      rw [ih c1 (hs.append x1) (by simp; omega) (fun x hx => hwf x (by simp [hx])) g2]

theorem packResources_congr : ∀ (rs : List Resource) {b1 b2 : Bytes} (comp : Option CompMap),
    SameFrom k b1 b2 → k ≤ b1.length → (∀ r ∈ rs, WFResource r) → CompInvOpt k b1 comp →
    packResources rs b1 comp = packResources rs b2 comp := by
  intro rs
  induction rs with
  | nil => intro b1 b2 comp _ _ _ _; rfl
  | cons r rs ih =>
    intro b1 b2 comp hs hk hwf hinv
    unfold packResources
    rw [← packResource_congr hs hk r comp (hwf r (by simp)) hinv]
    cases h1 : packResource r b1 comp with
    | error e => rfl
    | ok res =>
      rcases res with ⟨x1, c1⟩
      simp only []
      rcases packResource_spec b1 x1 r comp c1 hinv hk (hwf r (by simp)) h1 with ⟨_, g2, _⟩
      rw [ih c1 (hs.append x1) (by simp; omega) (fun x hx => hwf x (by simp [hx])) g2]

/-! ## All records of a message as one sequence -/

inductive Rec
  | q (q : Question)
  | r (r : Resource)

def packRec : Rec → Bytes → Option CompMap → Except Err (Bytes × Option CompMap)
  | .q q, buf, c => packQuestion q buf c
  | .r r, buf, c => packResource r buf c

def packRecs : List Rec → Bytes → Option CompMap → Except Err (Bytes × Option CompMap)
  | [], _, comp => .ok ([], comp)
  | x :: xs, buf, comp =>
    match packRec x buf comp with
    | .error e => .error e
    | .ok (b1, c1) =>
      match packRecs xs (buf ++ b1) c1 with
      | .error e => .error e
      | .ok (b2, c2) => .ok (b1 ++ b2, c2)

def WFRec : Rec → Prop
  | .q q => WFQuestion q
  | .r r => WFResource r

/-- the records of a message in wire order -/
def recs (m : Message) : List Rec :=
  m.questions.map .q ++ (m.answers.map .r ++ (m.authorities.map .r ++ m.additionals.map .r))

theorem packRecs_append : ∀ (xs ys : List Rec) (buf : Bytes) (c : Option CompMap),
    packRecs (xs ++ ys) buf c =
      match packRecs xs buf c with
      | .error e => .error e
      | .ok (b1, c1) =>
        match packRecs ys (buf ++ b1) c1 with
        | .error e => .error e
        | .ok (b2, c2) => .ok (b1 ++ b2, c2) := by
  intro xs
  induction xs with
  | nil =>
    intro ys buf c
    simp only [List.nil_append, packRecs, List.append_nil]
    cases packRecs ys buf c with
    | error e => rfl
    | ok res => rcases res with ⟨b2, c2⟩; rfl
  | cons x xs ih =>
    intro ys buf c
    simp only [List.cons_append, packRecs]
    cases packRec x buf c with
    | error e => rfl
    | ok res =>
      rcases res with ⟨b1, c1⟩
      simp only []
      rw [ih]
      cases packRecs xs (buf ++ b1) c1 with
      | error e => rfl
      | ok res2 =>
        rcases res2 with ⟨b2, c2⟩
        simp only [List.append_assoc]
        cases packRecs ys (buf ++ (b1 ++ b2)) c2 with
        | error e => rfl
        | ok res3 => rcases res3 with ⟨b3, c3⟩; simp

theorem packRecs_map_q : ∀ (qs : List Question) (buf : Bytes) (c : Option CompMap),
    packRecs (qs.map .q) buf c = packQuestions qs buf c := by
  intro qs
  induction qs with
  | nil => intro buf c; rfl
  | cons q qs ih =>
    intro buf c
    simp only [List.map_cons, packRecs, packRec, packQuestions, ih]
    cases packQuestion q buf c with
    | error e => rfl
    | ok r =>
      rcases r with ⟨b1, c1⟩
      simp only []
      cases packQuestions qs (buf ++ b1) c1 <;> rfl

theorem packRecs_map_r : ∀ (rs : List Resource) (buf : Bytes) (c : Option CompMap),
    packRecs (rs.map .r) buf c = packResources rs buf c := by
  intro rs
  induction rs with
  | nil => intro buf c; rfl
  | cons r rs ih =>
    intro buf c
    simp only [List.map_cons, packRecs, packRec, packResources, ih]
    cases packResource r buf c with
    | error e => rfl
    | ok x =>
      rcases x with ⟨b1, c1⟩
      simp only []
      cases packResources rs (buf ++ b1) c1 <;> rfl

theorem packRec_spec (x : Rec) (msg bs : Bytes) (comp comp' : Option CompMap)
    (hinv : CompInvOpt k msg comp) (hk : k ≤ msg.length) (hwf : WFRec x)
    (hp : packRec x msg comp = .ok (bs, comp')) : CompInvOpt k (msg ++ bs) comp' := by
  cases x with
  | q q => exact (packQuestion_spec msg bs q comp comp' hinv hk hwf hp).2.1
  | r r => exact (packResource_spec msg bs r comp comp' hinv hk hwf hp).2.1

theorem packRecs_congr : ∀ (xs : List Rec) {b1 b2 : Bytes} (comp : Option CompMap),
    SameFrom k b1 b2 → k ≤ b1.length → (∀ x ∈ xs, WFRec x) → CompInvOpt k b1 comp →
    packRecs xs b1 comp = packRecs xs b2 comp := by
  intro xs
  induction xs with
  | nil => intro b1 b2 comp _ _ _ _; rfl
  | cons x xs ih =>
    intro b1 b2 comp hs hk hwf hinv
    have hx : packRec x b1 comp = packRec x b2 comp := by
      cases x with
      | q q => exact packQuestion_congr hs q comp (hwf (.q q) (by simp)) hinv
      | r r => exact packResource_congr hs hk r comp (hwf (.r r) (by simp)) hinv
    unfold packRecs
    rw [← hx]
    cases h1 : packRec x b1 comp with
    | error e => rfl
    | ok res =>
      rcases res with ⟨x1, c1⟩
      simp only []
      have g2 := packRec_spec x b1 x1 comp c1 hinv hk (hwf x (by simp)) h1
      rw [ih c1 (hs.append x1) (by simp; omega) (fun y hy => hwf y (by simp [hy])) g2]

/-- `Message.AppendPack` in terms of the record sequence -/
theorem packMessageWith_recs (m : Message) (comp : Option CompMap)
    (h1 : m.questions.length ≤ 65535) (h2 : m.answers.length ≤ 65535)
    (h3 : m.authorities.length ≤ 65535) (h4 : m.additionals.length ≤ 65535) :
    packMessageWith m comp =
      match packRecs (recs m) (packHeader m.hdr m.questions.length m.answers.length m.authorities.length
          m.additionals.length) comp with
      | .error e => .error e
      | .ok (B, _) => .ok (packHeader m.hdr m.questions.length m.answers.length m.authorities.length
          m.additionals.length ++ B) := by
  have n1 : ¬ m.questions.length > 65535 := by omega
  have n2 : ¬ m.answers.length > 65535 := by omega
  have n3 : ¬ m.authorities.length > 65535 := by omega
  have n4 : ¬ m.additionals.length > 65535 := by omega
  unfold packMessageWith
  simp only [n1, n2, n3, n4, if_false]
  generalize packHeader m.hdr m.questions.length m.answers.length m.authorities.length
    m.additionals.length = H
  rw [recs, packRecs_append, packRecs_map_q]
  cases packQuestions m.questions H comp with
  | error e => rfl
  | ok r1 =>
    rcases r1 with ⟨b1, c1⟩
    simp only []
    rw [packRecs_append, packRecs_map_r]
    cases packResources m.answers (H ++ b1) c1 with
    | error e => rfl
    | ok r2 =>
      rcases r2 with ⟨b2, c2⟩
      simp only []
      rw [packRecs_append]
      simp only [packRecs_map_r]
      cases packResources m.authorities (H ++ b1 ++ b2) c2 with
      | error e => rfl
      | ok r3 =>
        rcases r3 with ⟨b3, c3⟩
        simp only []
        cases packResources m.additionals (H ++ b1 ++ b2 ++ b3) c3 with
        | error e => rfl
        | ok r4 => rcases r4 with ⟨b4, c4⟩; simp

/-! ## Accepted Builder calls -/

theorem step_start_ok {b : Builder} {s : Nat} (h : (b.step (.start s)).2 = none) :
    1 ≤ b.sec ∧ b.sec ≤ s ∧ (b.step (.start s)).1 = { b with sec := s } := by
  simp only [Builder.step] at h ⊢
  split at h
  · simp at h
  · split at h
    · simp at h
    · rename_i h1 h2
      simp only [h1, h2, if_false]
      exact ⟨by omega, by omega, trivial⟩

theorem incr_ok {b b1 : Builder} (h : b.incr = .ok b1) :
    b1.msg = b.msg ∧ b1.sec = b.sec ∧ b1.id = b.id ∧ b1.bits = b.bits ∧ b1.comp = b.comp ∧
    ((b.sec = 2 ∧ b.nq ≠ 65535 ∧ b1.nq = b.nq + 1 ∧ b1.na = b.na ∧ b1.nu = b.nu ∧ b1.nr = b.nr) ∨
     (b.sec = 3 ∧ b.na ≠ 65535 ∧ b1.nq = b.nq ∧ b1.na = b.na + 1 ∧ b1.nu = b.nu ∧ b1.nr = b.nr) ∨
     (b.sec = 4 ∧ b.nu ≠ 65535 ∧ b1.nq = b.nq ∧ b1.na = b.na ∧ b1.nu = b.nu + 1 ∧ b1.nr = b.nr) ∨
     (b.sec ≠ 2 ∧ b.sec ≠ 3 ∧ b.sec ≠ 4 ∧ b.nr ≠ 65535 ∧ b1.nq = b.nq ∧ b1.na = b.na ∧ b1.nu = b.nu ∧
       b1.nr = b.nr + 1)) := by
  unfold Builder.incr at h
  split at h
  · rename_i h2
    split at h
    · simp at h
    · simp at h; subst h; simp; omega
  · split at h
    · rename_i h2 h3
      split at h
      · simp at h
      · simp at h; subst h; simp; omega
    · split at h
      · rename_i h2 h3 h4
        split at h
        · simp at h
        · simp at h; subst h; simp; omega
      · rename_i h2 h3 h4
        split at h
        · simp at h
        · simp at h; subst h; simp; omega

theorem step_question_ok {b : Builder} {q : Question} (h : (b.step (.question q)).2 = none) :
    b.sec = 2 ∧ ∃ bs c b1, packQuestion q b.msg b.comp = .ok (bs, c) ∧
      ({ b with comp := c } : Builder).incr = .ok b1 ∧
      (b.step (.question q)).1 = { b1 with msg := b.msg ++ bs } := by
  simp only [Builder.step] at h
  split at h
  · simp at h
  · split at h
    · simp at h
    · rename_i h1 h2
      split at h
      · simp at h
      · rename_i bs c hq
        split at h
        · simp at h
        · rename_i b1 hi
          refine ⟨by omega, bs, c, b1, hq, hi, ?_⟩
          simp [Builder.step, h1, h2, hq, hi]

theorem step_resource_ok {b : Builder} {r : Resource} (h : (b.step (.resource r)).2 = none) :
    3 ≤ b.sec ∧ b.sec ≤ 5 ∧ ∃ bs c b1, packResource r b.msg b.comp = .ok (bs, c) ∧
      ({ b with comp := c } : Builder).incr = .ok b1 ∧
      (b.step (.resource r)).1 = { b1 with msg := b.msg ++ bs } := by
  simp only [Builder.step] at h
  split at h
  · simp at h
  · split at h
    · simp at h
    · rename_i h1 h2
      split at h
      · simp at h
      · rename_i nb c1 hn
        split at h
        · simp at h
        · rename_i bb c2 hb
          split at h
          · simp at h
          · rename_i bs c hr
            split at h
            · simp at h
            · rename_i b1 hi
              refine ⟨by omega, by omega, bs, c, b1, hr, hi, ?_⟩
              simp only [Builder.step, h1, h2, if_false, hn, hb, hr, hi]

theorem step_finish_ok {b : Builder} (h : (b.step .finish).2 = none) :
    1 ≤ b.sec ∧ (b.step .finish).1 = { b with sec := 6 } := by
  simp only [Builder.step] at h ⊢
  split at h
  · simp at h
  · rename_i h1
    simp only [h1, if_false]
    exact ⟨by omega, trivial⟩

/-! ## The message an accepted call sequence describes -/

def addRes (sec : Nat) (m : Message) (r : Resource) : Message :=
  if sec = 3 then { m with answers := m.answers ++ [r] }
  else if sec = 4 then { m with authorities := m.authorities ++ [r] }
  else { m with additionals := m.additionals ++ [r] }

/-- one call: new section and message (`sec` is the Builder's section) -/
def describeStep (sec : Nat) (m : Message) : BOp → Nat × Message
  | .start s => (s, m)
  | .question q => (sec, { m with questions := m.questions ++ [q] })
  | .resource r => (sec, addRes sec m r)
  | .finish => (6, m)
  | .enableCompression => (sec, m)

def describeAux : Nat → Message → List BOp → Message
  | _, m, [] => m
  | sec, m, op :: ops => describeAux (describeStep sec m op).1 (describeStep sec m op).2 ops

/-- the message described by the calls after `NewBuilder(h)`: questions and records in call order,
each record in the section that was current when it was added -/
def describe (h : Header) (ops : List BOp) : Message :=
  describeAux 1 { hdr := h, questions := [], answers := [], authorities := [], additionals := [] } ops

def WFOp : BOp → Prop
  | .question q => WFQuestion q
  | .resource r => WFResource r
  | _ => True

def Z : Bytes := List.replicate 12 0

/-- Builder state `b` holds exactly the message `m` packed so far (compression `comp0`). -/
structure BInv (comp0 : Option CompMap) (b : Builder) (m : Message) : Prop where
  sec_ge : 1 ≤ b.sec
  hid : b.id = m.hdr.id % 65536
  hbits : b.bits = m.hdr.bits
  hnq : b.nq = m.questions.length
  hna : b.na = m.answers.length
  hnu : b.nu = m.authorities.length
  hnr : b.nr = m.additionals.length
  cnt : b.nq ≤ 65535 ∧ b.na ≤ 65535 ∧ b.nu ≤ 65535 ∧ b.nr ≤ 65535
  e2 : b.sec < 2 → m.questions = []
  e3 : b.sec < 3 → m.answers = []
  e4 : b.sec < 4 → m.authorities = []
  e5 : b.sec < 5 → m.additionals = []
  wf : ∀ x ∈ recs m, WFRec x
  hpack : ∃ B, b.msg = Z ++ B ∧ packRecs (recs m) Z comp0 = .ok (B, b.comp)

theorem packRecs_snoc {xs : List Rec} {x : Rec} {buf B bs : Bytes} {c0 c1 c2 : Option CompMap}
    (h1 : packRecs xs buf c0 = .ok (B, c1)) (h2 : packRec x (buf ++ B) c1 = .ok (bs, c2)) :
    packRecs (xs ++ [x]) buf c0 = .ok (B ++ bs, c2) := by
  rw [packRecs_append, h1]
  simp [packRecs, h2]

theorem step_question_ok' {b : Builder} {q : Question} (h : (b.step (.question q)).2 = none) :
    b.sec = 2 ∧ ∃ bs c, packQuestion q b.msg b.comp = .ok (bs, c) ∧ b.nq ≠ 65535 ∧
      (b.step (.question q)).1 = { b with msg := b.msg ++ bs, comp := c, nq := b.nq + 1 } := by
  rcases step_question_ok h with ⟨hsec, bs, c, b1, hq, hi, heq⟩
  refine ⟨hsec, bs, c, hq, ?_⟩
  simp only [Builder.incr, hsec, if_true] at hi
  split at hi
  · simp at hi
  · rename_i hn
    simp at hi
    subst hi
    refine ⟨hn, ?_⟩
    rw [heq]; cases b; simp_all

theorem step_resource_ok' {b : Builder} {r : Resource} (h : (b.step (.resource r)).2 = none) :
    ∃ bs c, packResource r b.msg b.comp = .ok (bs, c) ∧
      ((b.sec = 3 ∧ b.na ≠ 65535 ∧
          (b.step (.resource r)).1 = { b with msg := b.msg ++ bs, comp := c, na := b.na + 1 }) ∨
       (b.sec = 4 ∧ b.nu ≠ 65535 ∧
          (b.step (.resource r)).1 = { b with msg := b.msg ++ bs, comp := c, nu := b.nu + 1 }) ∨
       (b.sec = 5 ∧ b.nr ≠ 65535 ∧
          (b.step (.resource r)).1 = { b with msg := b.msg ++ bs, comp := c, nr := b.nr + 1 })) := by
  rcases step_resource_ok h with ⟨h3, h5, bs, c, b1, hq, hi, heq⟩
  refine ⟨bs, c, hq, ?_⟩
  have hcases : b.sec = 3 ∨ b.sec = 4 ∨ b.sec = 5 := by omega
  rcases hcases with hs | hs | hs
  · left
    simp only [Builder.incr, hs, Nat.reduceEqDiff, if_false, if_true] at hi
    split at hi
    · simp at hi
    · rename_i hn; simp at hi; subst hi; refine ⟨hs, hn, ?_⟩; rw [heq]; cases b; simp_all
  · right; left
    simp only [Builder.incr, hs, Nat.reduceEqDiff, if_false, if_true] at hi
    split at hi
    · simp at hi
    · rename_i hn; simp at hi; subst hi; refine ⟨hs, hn, ?_⟩; rw [heq]; cases b; simp_all
  · right; right
    simp only [Builder.incr, hs, Nat.reduceEqDiff, if_false, if_true] at hi
    split at hi
    · simp at hi
    · rename_i hn; simp at hi; subst hi; refine ⟨hs, hn, ?_⟩; rw [heq]; cases b; simp_all

@[simp] theorem addRes_hdr (s : Nat) (m : Message) (r : Resource) : (addRes s m r).hdr = m.hdr := by
  unfold addRes; split <;> (try split) <;> rfl

theorem recs_addQ (m : Message) (q : Question) (ha : m.answers = []) (hu : m.authorities = [])
    (hr : m.additionals = []) : recs { m with questions := m.questions ++ [q] } = recs m ++ [.q q] := by
  simp [recs, ha, hu, hr]

theorem step_inv {comp0 : Option CompMap} {b : Builder} {m : Message} (op : BOp)
    (hinv : BInv comp0 b m) (hne : op ≠ .enableCompression) (hwf : WFOp op)
    (hacc : (b.step op).2 = none) :
    BInv comp0 (b.step op).1 (describeStep b.sec m op).2 ∧ (b.step op).1.sec = (describeStep b.sec m op).1 := by
  rcases hinv with ⟨sge, hid, hbits, hnq, hna, hnu, hnr, cnt, e2, e3, e4, e5, wf, B, hmsg, hpk⟩
  cases op with
  | enableCompression => exact absurd rfl hne
  | start s =>
    rcases step_start_ok hacc with ⟨_, hle, heq⟩
    rw [heq]
    refine ⟨⟨?_, hid, hbits, hnq, hna, hnu, hnr, cnt, ?_, ?_, ?_, ?_, wf, B, hmsg, hpk⟩, rfl⟩
    · show 1 ≤ s; omega
    · intro h; exact e2 (by have : s < 2 := h; omega)
    · intro h; exact e3 (by have : s < 3 := h; omega)
    · intro h; exact e4 (by have : s < 4 := h; omega)
    · intro h; exact e5 (by have : s < 5 := h; omega)
  | finish =>
    rcases step_finish_ok hacc with ⟨_, heq⟩
    rw [heq]
    refine ⟨⟨?_, hid, hbits, hnq, hna, hnu, hnr, cnt, ?_, ?_, ?_, ?_, wf, B, hmsg, hpk⟩, rfl⟩
    · show 1 ≤ 6; omega
    · intro h; have : (6 : Nat) < 2 := h; omega
    · intro h; have : (6 : Nat) < 3 := h; omega
    · intro h; have : (6 : Nat) < 4 := h; omega
    · intro h; have : (6 : Nat) < 5 := h; omega
  | question q =>
    rcases step_question_ok' hacc with ⟨hsec, bs, c, hq, hn, heq⟩
    have ha : m.answers = [] := e3 (by omega)
    have hu : m.authorities = [] := e4 (by omega)
    have hr : m.additionals = [] := e5 (by omega)
    have hrecs := recs_addQ m q ha hu hr
    rw [heq]
    refine ⟨⟨sge, hid, hbits, ?_, hna, hnu, hnr, ?_, ?_, fun _ => ha, fun _ => hu, fun _ => hr, ?_,
      B ++ bs, ?_, ?_⟩, rfl⟩
    · show b.nq + 1 = (m.questions ++ [q]).length
      simp [hnq]
    · show b.nq + 1 ≤ 65535 ∧ b.na ≤ 65535 ∧ b.nu ≤ 65535 ∧ b.nr ≤ 65535
      omega
    · intro h; have : b.sec < 2 := h; omega
    · intro x hx
      simp only [describeStep, hrecs, List.mem_append, List.mem_singleton] at hx
      rcases hx with hx | rfl
      · exact wf x hx
      · exact hwf
    · show b.msg ++ bs = Z ++ (B ++ bs)
      simp [hmsg]
    · simp only [describeStep, hrecs]
      exact packRecs_snoc hpk (by rw [← hmsg]; exact hq)
  | resource r =>
    rcases step_resource_ok' hacc with ⟨bs, c, hq, hcase⟩
    have hsec : b.sec = 3 ∨ b.sec = 4 ∨ b.sec = 5 := by
      rcases hcase with ⟨h, _⟩ | ⟨h, _⟩ | ⟨h, _⟩ <;> omega
    have hrecs : recs (addRes b.sec m r) = recs m ++ [.r r] := by
      unfold addRes
      rcases hsec with h | h | h
      · simp [h, recs, e4 (by omega), e5 (by omega)]
      · simp [h, recs, e5 (by omega)]
      · simp [h, recs]
    have hwf' : ∀ x ∈ recs (addRes b.sec m r), WFRec x := by
      intro x hx
      rw [hrecs] at hx
      simp only [List.mem_append, List.mem_singleton] at hx
      rcases hx with hx | rfl
      · exact wf x hx
      · exact hwf
    have hpk' : packRecs (recs (addRes b.sec m r)) Z comp0 = .ok (B ++ bs, c) := by
      rw [hrecs]
      exact packRecs_snoc hpk (by rw [← hmsg]; exact hq)
    have hmsg' : b.msg ++ bs = Z ++ (B ++ bs) := by simp [hmsg]
    rcases hcase with ⟨h, hn, heq⟩ | ⟨h, hn, heq⟩ | ⟨h, hn, heq⟩
    · rw [heq]
      refine ⟨⟨sge, by show b.id = _; simp [describeStep, hid], by show b.bits = _; simp [describeStep, hbits],
        ?_, ?_, ?_, ?_, ?_, ?_, ?_, ?_, ?_, hwf', B ++ bs, hmsg', hpk'⟩, rfl⟩
      · show b.nq = (addRes b.sec m r).questions.length; simp [addRes, h, hnq]
      · show b.na + 1 = (addRes b.sec m r).answers.length; simp [addRes, h, hna]
      · show b.nu = (addRes b.sec m r).authorities.length; simp [addRes, h, hnu]
      · show b.nr = (addRes b.sec m r).additionals.length; simp [addRes, h, hnr]
      · show b.nq ≤ 65535 ∧ b.na + 1 ≤ 65535 ∧ b.nu ≤ 65535 ∧ b.nr ≤ 65535; omega
      · intro hh; have : b.sec < 2 := hh; omega
      · intro hh; have : b.sec < 3 := hh; omega
      · intro hh; show (addRes b.sec m r).authorities = []; simp [addRes, h, e4 (by omega)]
      · intro hh; show (addRes b.sec m r).additionals = []; simp [addRes, h, e5 (by omega)]
    · rw [heq]
      refine ⟨⟨sge, by show b.id = _; simp [describeStep, hid], by show b.bits = _; simp [describeStep, hbits],
        ?_, ?_, ?_, ?_, ?_, ?_, ?_, ?_, ?_, hwf', B ++ bs, hmsg', hpk'⟩, rfl⟩
      · show b.nq = (addRes b.sec m r).questions.length; simp [addRes, h, hnq]
      · show b.na = (addRes b.sec m r).answers.length; simp [addRes, h, hna]
      · show b.nu + 1 = (addRes b.sec m r).authorities.length; simp [addRes, h, hnu]
      · show b.nr = (addRes b.sec m r).additionals.length; simp [addRes, h, hnr]
      · show b.nq ≤ 65535 ∧ b.na ≤ 65535 ∧ b.nu + 1 ≤ 65535 ∧ b.nr ≤ 65535; omega
      · intro hh; have : b.sec < 2 := hh; omega
      · intro hh; have : b.sec < 3 := hh; omega
      · intro hh; have : b.sec < 4 := hh; omega
      · intro hh; show (addRes b.sec m r).additionals = []; simp [addRes, h, e5 (by omega)]
    · rw [heq]
      refine ⟨⟨sge, by show b.id = _; simp [describeStep, hid], by show b.bits = _; simp [describeStep, hbits],
        ?_, ?_, ?_, ?_, ?_, ?_, ?_, ?_, ?_, hwf', B ++ bs, hmsg', hpk'⟩, rfl⟩
      · show b.nq = (addRes b.sec m r).questions.length; simp [addRes, h, hnq]
      · show b.na = (addRes b.sec m r).answers.length; simp [addRes, h, hna]
      · show b.nu = (addRes b.sec m r).authorities.length; simp [addRes, h, hnu]
      · show b.nr + 1 = (addRes b.sec m r).additionals.length; simp [addRes, h, hnr]
      · show b.nq ≤ 65535 ∧ b.na ≤ 65535 ∧ b.nu ≤ 65535 ∧ b.nr + 1 ≤ 65535; omega
      · intro hh; have : b.sec < 2 := hh; omega
      · intro hh; have : b.sec < 3 := hh; omega
      · intro hh; have : b.sec < 4 := hh; omega
      · intro hh; have : b.sec < 5 := hh; omega

theorem run_cons (b : Builder) (op : BOp) (ops : List BOp) :
    (b.run (op :: ops)).1 = ((b.step op).1.run ops).1 ∧
    (b.run (op :: ops)).2 = (b.step op).2 :: ((b.step op).1.run ops).2 := by
  simp [Builder.run]

theorem run_inv {comp0 : Option CompMap} : ∀ (ops : List BOp) (b : Builder) (m : Message),
    BInv comp0 b m → (∀ op ∈ ops, op ≠ .enableCompression ∧ WFOp op) →
    (∀ e ∈ (b.run ops).2, e = none) →
    BInv comp0 (b.run ops).1 (describeAux b.sec m ops) := by
  intro ops
  induction ops with
  | nil => intro b m hinv _ _; simpa [Builder.run, describeAux] using hinv
  | cons op ops ih =>
    intro b m hinv hops hacc
    rw [(run_cons b op ops).2] at hacc
    have h1 : (b.step op).2 = none := hacc _ (by simp)
    rcases step_inv op hinv (hops op (by simp)).1 (hops op (by simp)).2 h1 with ⟨hinv', hsec⟩
    have := ih (b.step op).1 _ hinv' (fun o ho => hops o (by simp [ho])) (fun e he => hacc e (by simp [he]))
    rw [(run_cons b op ops).1, describeAux, ← hsec]
    exact this

theorem u16_mod (x : Nat) : u16 (x % 65536) = u16 x := by
  simp only [u16]
  have h1 : x % 65536 / 256 % 256 = x / 256 % 256 := by omega
  have h2 : x % 65536 % 256 = x % 256 := by omega
  rw [h1, h2]

/-- the Builder right after `NewBuilder(h)` (and `EnableCompression()` if `compress`) -/
def startBuilder (h : Header) (compress : Bool) : Builder :=
  if compress then ((newBuilder h).step .enableCompression).1 else newBuilder h

def startComp (compress : Bool) : Option CompMap := if compress then some [] else none

/-- **An accepted Builder call sequence produces exactly the bytes of `Message.Pack`** (of
`AppendPack` without the map, when compression was not enabled) of the message it describes.
Accepted: every call returned nil; compression is chosen before the first record. -/
theorem builder_eq_pack (h : Header) (compress : Bool) (ops : List BOp)
    (hops : ∀ op ∈ ops, op ≠ .enableCompression ∧ WFOp op)
    (hacc : ∀ e ∈ ((startBuilder h compress).run ops).2, e = none) :
    packMessageWith (describe h ops) (startComp compress) =
      .ok ((startBuilder h compress).run ops).1.bytes := by
  have h0 : BInv (startComp compress) (startBuilder h compress)
      { hdr := h, questions := [], answers := [], authorities := [], additionals := [] } := by
    have hb : startBuilder h compress = { newBuilder h with comp := startComp compress } := by
      cases compress <;> simp [startBuilder, startComp, Builder.step, newBuilder]
    rw [hb]
    refine ⟨by simp [newBuilder], rfl, rfl, rfl, rfl, rfl, rfl, by simp [newBuilder], fun _ => rfl,
      fun _ => rfl, fun _ => rfl, fun _ => rfl, by intro x hx; simp [recs] at hx, [], by simp [newBuilder, Z], ?_⟩
    simp [recs, packRecs]
  have hsec : (startBuilder h compress).sec = 1 := by
    cases compress <;> simp [startBuilder, Builder.step, newBuilder]
  have hfin := run_inv ops _ _ h0 hops hacc
  rw [hsec] at hfin
  rcases hfin with ⟨_, hid, hbits, hnq, hna, hnu, hnr, cnt, _, _, _, _, wf, B, hmsg, hpk⟩
  have hdesc : describe h ops = describeAux 1
      { hdr := h, questions := [], answers := [], authorities := [], additionals := [] } ops := rfl
  rw [← hdesc] at hid hbits hnq hna hnu hnr wf hpk
  generalize describe h ops = m at *
  generalize ((startBuilder h compress).run ops).1 = b at *
  have hH : (packHeader m.hdr m.questions.length m.answers.length m.authorities.length
      m.additionals.length).length = 12 := by simp [packHeader, u16]
  have hs : SameFrom 12 Z (packHeader m.hdr m.questions.length m.answers.length m.authorities.length
      m.additionals.length) := by
    refine ⟨by simp [Z, hH], ?_⟩
    rw [List.drop_eq_nil_of_le (by simp [Z]), List.drop_eq_nil_of_le (by omega)]
  have hci : CompInvOpt 12 Z (startComp compress) := by
    cases compress
    · trivial
    · exact compInv_nil 12 _
  have hcong := packRecs_congr (recs m) (startComp compress) hs (by simp [Z]) wf hci
  rw [hpk] at hcong
  rw [packMessageWith_recs m _ (by omega) (by omega) (by omega) (by omega), ← hcong]
  simp only [Builder.bytes, packHeader, hid, hbits, hnq, hna, hnu, hnr, hmsg, u16_mod]
  have : (Z ++ B).drop 12 = B := by
    have : Z.length = 12 := by simp [Z]
    rw [← this, List.drop_left]
  rw [this]

/-- the records of the described message are the well-formed records of the calls -/
theorem builder_describe_wf (h : Header) (compress : Bool) (ops : List BOp)
    (hops : ∀ op ∈ ops, op ≠ .enableCompression ∧ WFOp op)
    (hacc : ∀ e ∈ ((startBuilder h compress).run ops).2, e = none) :
    (describe h ops).hdr = h ∧ ∀ x ∈ recs (describe h ops), WFRec x := by
  have h0 : BInv (startComp compress) (startBuilder h compress)
      { hdr := h, questions := [], answers := [], authorities := [], additionals := [] } := by
    have hb : startBuilder h compress = { newBuilder h with comp := startComp compress } := by
      cases compress <;> simp [startBuilder, startComp, Builder.step, newBuilder]
    rw [hb]
    refine ⟨by simp [newBuilder], rfl, rfl, rfl, rfl, rfl, rfl, by simp [newBuilder], fun _ => rfl,
      fun _ => rfl, fun _ => rfl, fun _ => rfl, by intro x hx; simp [recs] at hx, [], by simp [newBuilder, Z], ?_⟩
    simp [recs, packRecs]
  have hsec : (startBuilder h compress).sec = 1 := by
    cases compress <;> simp [startBuilder, Builder.step, newBuilder]
  have hfin := run_inv ops _ _ h0 hops hacc
  rw [hsec] at hfin
  refine ⟨?_, hfin.wf⟩
  -- the header never changes
  have : ∀ (ops : List BOp) (sec : Nat) (m : Message), (describeAux sec m ops).hdr = m.hdr := by
    intro ops
    induction ops with
    | nil => intro sec m; rfl
    | cons op ops ih =>
      intro sec m
      rw [describeAux, ih]
      cases op <;> simp [describeStep]
  exact this ops 1 _

/-- **A failed Builder call** leaves the message bytes, the section and the counters alone; the
only thing it may change is the compression map (which `Name.pack` updates in place before the
call fails). -/
theorem step_failed (b : Builder) (op : BOp) (h : (b.step op).2 ≠ none) :
    (b.step op).1.msg = b.msg ∧ (b.step op).1.sec = b.sec ∧ (b.step op).1.id = b.id ∧
    (b.step op).1.bits = b.bits ∧ (b.step op).1.nq = b.nq ∧ (b.step op).1.na = b.na ∧
    (b.step op).1.nu = b.nu ∧ (b.step op).1.nr = b.nr := by
  cases op <;> simp only [Builder.step] at h ⊢ <;> (repeat' split) <;> simp_all

end NetVerif.Proofs.DnsBuilder
