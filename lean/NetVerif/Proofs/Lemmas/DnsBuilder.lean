import NetVerif.Proofs.Lemmas.DnsMsg
/-!
The Builder against `Message.Pack`.

The Builder packs every record onto a buffer whose 12 header bytes are still zero (they are
written by `Finish`), `Message.AppendPack` onto a buffer that starts with the real header. The
packers look at the buffer only through its length and through `compressionDepth` of map entries,
and under the compression invariant (no pointer leads below offset 12) both are the same for two
buffers that agree from offset 12 on. So an accepted Builder call sequence produces exactly the
bytes of `Message.Pack` of the message it describes.
-/
namespace NetVerif.Proofs.DnsBuilder
open NetVerif.Model.Dns NetVerif.Proofs.Dns NetVerif.Proofs.C36 NetVerif.Proofs.DnsMsg

variable {k : Nat}

/-! ## Without a map the buffer is never looked at -/

theorem packLoop_none_buf (b1 b2 : Bytes) : ∀ (rest lab out : Bytes),
    packLoop b1 rest lab out none = packLoop b2 rest lab out none := by
  intro rest
  induction rest with
  | nil => intro lab out; simp [packLoop]
  | cons c rest ih =>
    intro lab out
    rw [packLoop_cons, packLoop_cons]
    simp only [ih]

theorem packName_none_buf (n b1 b2 : Bytes) : packName n b1 none = packName n b2 none := by
  unfold packName
  rw [packLoop_none_buf b1 b2]

/-! ## With a map: buffers that agree from `k` on, under the invariant -/

theorem usable_congr {b1 b2 : Bytes} (hs : SameFrom k b1 b2) {key : Bytes} {m : CompMap}
    {ls : List Bytes} (hkey : key = textOf ls) (hok : LabelsOK ls) (hlen : (textOf ls).length ≤ 254)
    (hinv : CompInvUpTo k key.length b1 m) : usable b1 key m = usable b2 key m := by
  unfold usable
  cases hl : lookup key m with
  | none => rfl
  | some p =>
    rcases hinv key p (Nat.le_refl _) hl with ⟨hkp, _, ls', d, e, hkey', hok', hd, h10⟩
    have : ls' = ls := textOf_inj _ _ hok' hok (by rw [← hkey', hkey])
    subst this
    have d1 := compressionDepth_of_decodes hd hok hlen h10
    have d2 := compressionDepth_of_decodes (hd.transfer hs hkp) hok hlen h10
    simp [Option.filter, d1, d2]

theorem packLabels_congr {b1 b2 : Bytes} (hs : SameFrom k b1 b2) :
    ∀ (ls : List Bytes) (out : Bytes) (m : CompMap),
    LabelsOK ls → (textOf ls).length ≤ 254 → CompInvUpTo k (textOf ls).length (b1 ++ out) m →
    packLabels b1 ls out m = packLabels b2 ls out m := by
  intro ls
  induction ls with
  | nil => intro out m _ _ _; simp [packLabels]
  | cons l ls ih =>
    intro out m hok hlen hinv
    have hls : LabelsOK ls := fun x hx => hok x (by simp [hx])
    have hlen' : (textOf ls).length ≤ 254 := by simp [textOf] at hlen; omega
    have hu := usable_congr (hs.append out) rfl hok hlen hinv
    rw [packLabels, packLabels, ← hu, ← hs.1]
    cases usable (b1 ++ out) (textOf (l :: ls)) m with
    | some p => rfl
    | none => exact ih _ _ hls hlen' (compInvUpTo_step hinv)

theorem packName_congr {b1 b2 : Bytes} (hs : SameFrom k b1 b2) (n : Bytes) (comp : Option CompMap)
    (hc : Canonical n) (hinv : CompInvOpt k b1 comp) : packName n b1 comp = packName n b2 comp := by
  cases comp with
  | none => exact packName_none_buf n b1 b2
  | some m =>
    rcases hc with ⟨hlen, hroot | ⟨ls, hne, hok, rfl⟩⟩
    · subst hroot; simp [packName]
    · rw [packName_textOf hne hok hlen, packName_textOf hne hok hlen,
        packLoop_labels_some b1 ls [] m hok, packLoop_labels_some b2 ls [] m hok,
        packLabels_congr hs ls [] m hok hlen (by intro key p _ h; simpa using hinv key p h)]

theorem packBody_congr {b1 b2 : Bytes} (hs : SameFrom k b1 b2) (hk : k ≤ b1.length) (b : Body)
    (comp : Option CompMap) (hwf : WFBody b) (hinv : CompInvOpt k b1 comp) :
    packBody b b1 comp = packBody b b2 comp := by
  cases b with
  | a ip => rfl
  | aaaa ip => rfl
  | ns n => exact packName_congr hs n comp hwf hinv
  | cname n => exact packName_congr hs n comp hwf hinv
  | ptr n => exact packName_congr hs n comp hwf hinv
  | mx pref n =>
    simp only [packBody]
    rw [packName_congr (hs.append (u16 pref)) n comp hwf.2 (hinv.append _)]
  | txt ss => rfl
  | soa ns mbox a b c d e =>
    rcases hwf with ⟨hc1, hc2, _⟩
    simp only [packBody]
    rw [← packName_congr hs ns comp hc1 hinv]
    cases hn : packName ns b1 comp with
    | error e => rfl
    | ok res =>
      rcases res with ⟨x1, c1⟩
      simp only []
      rcases packName_spec b1 ns x1 comp c1 hinv hk hc1 hn with ⟨_, g2, _⟩
      rw [packName_congr (hs.append x1) mbox c1 hc2 g2]
  | srv p w port t =>
    simp only [packBody]
    rw [packName_none_buf t (b1 ++ u16 p ++ u16 w ++ u16 port) (b2 ++ u16 p ++ u16 w ++ u16 port)]
  | opt opts => rfl
  | svcb p t ps => rfl
  | https p t ps => rfl
  | unknown t data => rfl

theorem packQuestion_congr {b1 b2 : Bytes} (hs : SameFrom k b1 b2) (q : Question) (comp : Option CompMap)
    (hwf : WFQuestion q) (hinv : CompInvOpt k b1 comp) :
    packQuestion q b1 comp = packQuestion q b2 comp := by
  unfold packQuestion
  rw [packName_congr hs q.name comp hwf.1 hinv]

theorem packResource_congr {b1 b2 : Bytes} (hs : SameFrom k b1 b2) (hk : k ≤ b1.length) (r : Resource)
    (comp : Option CompMap) (hwf : WFResource r) (hinv : CompInvOpt k b1 comp) :
    packResource r b1 comp = packResource r b2 comp := by
  rcases hwf with ⟨hc, _, _, hb⟩
  unfold packResource
  rw [← packName_congr hs r.hdr.name comp hc hinv]
  cases hn : packName r.hdr.name b1 comp with
  | error e => rfl
  | ok res =>
    rcases res with ⟨nb, c1⟩
    simp only []
    rcases packName_spec b1 r.hdr.name nb comp c1 hinv hk hc hn with ⟨_, g2, _⟩
    have key : ∀ (tail : Bytes), packBody r.body (b1 ++ nb ++ u16 r.body.realType ++ u16 r.hdr.cls ++ u32 r.hdr.ttl ++ tail) c1 =
        packBody r.body (b2 ++ nb ++ u16 r.body.realType ++ u16 r.hdr.cls ++ u32 r.hdr.ttl ++ tail) c1 := by
      intro tail
      have hs' : SameFrom k (b1 ++ nb ++ u16 r.body.realType ++ u16 r.hdr.cls ++ u32 r.hdr.ttl ++ tail)
          (b2 ++ nb ++ u16 r.body.realType ++ u16 r.hdr.cls ++ u32 r.hdr.ttl ++ tail) :=
        ((((hs.append nb).append _).append _).append _).append _
      have hi : CompInvOpt k (b1 ++ nb ++ u16 r.body.realType ++ u16 r.hdr.cls ++ u32 r.hdr.ttl ++ tail) c1 := by
        have := g2.append (u16 r.body.realType ++ u16 r.hdr.cls ++ u32 r.hdr.ttl ++ tail)
        simpa [List.append_assoc] using this
      exact packBody_congr hs' (by simp; omega) r.body c1 hb hi
    rw [← key]
    cases hbp : packBody r.body (b1 ++ nb ++ u16 r.body.realType ++ u16 r.hdr.cls ++ u32 r.hdr.ttl ++ u16 r.hdr.length) c1 with
    | error e => rfl
    | ok res2 =>
      rcases res2 with ⟨bb, c2⟩
      simp only []
      rw [← key]

theorem packQuestions_congr : ∀ (qs : List Question) {b1 b2 : Bytes} (comp : Option CompMap),
    SameFrom k b1 b2 → k ≤ b1.length → (∀ q ∈ qs, WFQuestion q) → CompInvOpt k b1 comp →
    packQuestions qs b1 comp = packQuestions qs b2 comp := by
  intro qs
  induction qs with
  | nil => intro b1 b2 comp _ _ _ _; rfl
  | cons q qs ih =>
    intro b1 b2 comp hs hk hwf hinv
    unfold packQuestions
    rw [← packQuestion_congr hs q comp (hwf q (by simp)) hinv]
    cases h1 : packQuestion q b1 comp with
    | error e => rfl
    | ok res =>
      rcases res with ⟨x1, c1⟩
      simp only []
      rcases packQuestion_spec b1 x1 q comp c1 hinv hk (hwf q (by simp)) h1 with ⟨_, g2, _⟩
      rw [ih c1 (hs.append x1) (by simp; omega) (fun x hx => hwf x (by simp [hx])) g2]

theorem packResources_congr : ∀ (rs : List Resource) {b1 b2 : Bytes} (comp : Option CompMap),
    SameFrom k b1 b2 → k ≤ b1.length → (∀ r ∈ rs, WFResource r) → CompInvOpt k b1 comp →
    packResources rs b1 comp = packResources rs b2 comp := by
  intro rs
  induction rs with
  | nil => intro b1 b2 comp _ _ _ _; rfl
  | cons r rs ih =>
    intro b1 b2 comp hs hk hwf hinv
    unfold packResources
    rw [← packResource_congr hs hk r comp (hwf r (by simp)) hinv]
    cases h1 : packResource r b1 comp with
    | error e => rfl
    | ok res =>
      rcases res with ⟨x1, c1⟩
      simp only []
      rcases packResource_spec b1 x1 r comp c1 hinv hk (hwf r (by simp)) h1 with ⟨_, g2, _⟩
      rw [ih c1 (hs.append x1) (by simp; omega) (fun x hx => hwf x (by simp [hx])) g2]

end NetVerif.Proofs.DnsBuilder
