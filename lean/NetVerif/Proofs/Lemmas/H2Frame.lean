import NetVerif.Model.H2Frame
/-! Helper lemmas about the H2Frame model shared by Proofs/C06 and Proofs/C07. -/
namespace NetVerif.Proofs.H2FrameLemmas
open NetVerif.Model.H2Frame

theorem rd32_be32 (v : Nat) (h : v < 4294967296) :
    rd32 (v / 16777216 % 256) (v / 65536 % 256) (v / 256 % 256) (v % 256) = v := by
  unfold rd32; omega

theorem frameBytes_ok {t fl sid : Nat} {payload bs : List Nat}
    (h : frameBytes t fl sid payload = .ok bs) :
    payload.length < 16777216 ∧
    bs = payload.length / 65536 % 256 :: payload.length / 256 % 256 :: payload.length % 256 ::
            t :: fl :: sid / 16777216 % 256 :: sid / 65536 % 256 :: sid / 256 % 256 :: sid % 256 ::
            payload := by
  unfold frameBytes at h
  split at h
  · cases h
  · simp only [Except.ok.injEq] at h
    exact ⟨by omega, h.symm⟩

/-- Reading what `startWrite … endWrite` produced: the header decodes to the written
type/flags/stream/length, exactly the payload is handed to the parser, and the rest of the stream
is left in the reader. -/
theorem readFrame_frameBytes (fr : Framer) (t fl sid : Nat) (payload rest bs : List Nat)
    (hsid : sid < 2147483648)
    (hw : frameBytes t fl sid payload = .ok bs)
    (hmax : payload.length ≤ fr.maxReadSize) (last' : Nat)
    (hord : checkFrameOrder fr.lastHeaderStream ⟨payload.length, t, fl, sid⟩ = .ok last') :
    readFrame fr (bs ++ rest) =
      ⟨parseFrame ⟨payload.length, t, fl, sid⟩ payload, some ⟨payload.length, t, fl, sid⟩,
       { fr with lastHeaderStream := last' }, rest⟩ := by
  obtain ⟨hlen, rfl⟩ := frameBytes_ok hw
  have h1 : payload.length / 65536 % 256 * 65536 + payload.length / 256 % 256 * 256 + payload.length % 256
      = payload.length := by omega
  have h2 : rd32 (sid / 16777216 % 256) (sid / 65536 % 256) (sid / 256 % 256) (sid % 256) % 2147483648 = sid := by
    rw [rd32_be32 sid (by omega)]; omega
  simp only [List.cons_append, readFrame, decodeHeader, h1, h2, hord]
  have h3 : ¬ (payload.length > fr.maxReadSize) := by omega
  simp [h3, List.length_append]
  omega

end NetVerif.Proofs.H2FrameLemmas
