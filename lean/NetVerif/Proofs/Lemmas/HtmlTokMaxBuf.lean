import NetVerif.Model.HtmlTokExact
import NetVerif.Proofs.Lemmas.HtmlTokExact
/-!
MaxBuf invariant of the exact tokenizer model (after the upstream fix that stops
`readMarkupDeclaration` from calling `readByte` with the error set):
`z.raw.end - z.raw.start ≤ maxBuf` at all times, `< maxBuf` while no error is
pending, and `readByte` is only ever called when no error is pending or the
input is exhausted.
-/
namespace NetVerif.Proofs.Lemmas.HtmlTokMaxBuf
open NetVerif.Model.HtmlTokExact NetVerif.Proofs.Lemmas.HtmlTokExact

structure MB (z : Z) : Prop where
  fe : z.finalErr = .eof ∨ z.finalErr = .other
  lt : z.maxBuf > 0 → z.err = .none → z.rawEnd - z.rawStart < z.maxBuf
  le : z.maxBuf > 0 → z.rawEnd - z.rawStart ≤ z.maxBuf
  fin : z.err ≠ .none → z.err ≠ .exceeded → z.rawEnd ≥ z.inp.size
  exc : z.err = .exceeded → z.rawStart < z.rawEnd

/-- what `MB` looks at -/
def mbv (z : Z) : Nat × Nat × Err × Nat × Array Nat × Err :=
  (z.rawStart, z.rawEnd, z.err, z.maxBuf, z.inp, z.finalErr)

theorem MB_of_mbv {z z' : Z} (h : mbv z' = mbv z) (hz : MB z) : MB z' := by
  simp only [mbv, Prod.mk.injEq] at h
  obtain ⟨a, b, c, d, e, f⟩ := h
  obtain ⟨h1, h2, h3, h4, h5⟩ := hz
  constructor <;> simp_all

theorem mb_readByte (z : Z) (h : MB z) (hs : z.err = .none ∨ z.rawEnd ≥ z.inp.size) : MB (readByte z).2 := by
  obtain ⟨h1, h2, h3, h4, h5⟩ := h
  unfold readByte
  split
  · constructor <;> simp_all <;> grind
  · simp only []
    have he : z.err = .none := by rcases hs with h | h; exact h; omega
    split
    · constructor <;> simp_all <;> omega
    · constructor <;> simp_all <;> omega

@[grind →] theorem mb_readByte' (z : Z) (h : MB z) (he : z.err = .none) : MB (readByte z).2 :=
  mb_readByte z h (Or.inl he)

theorem mb_unread (z : Z) (k : Nat) (h : MB z) (he : z.err = .none) : MB (unread z k) := by
  obtain ⟨h1, h2, h3, h4, h5⟩ := h
  constructor <;> simp_all [unread] <;> omega

@[grind =] theorem err_unread (z : Z) (k : Nat) : (unread z k).err = z.err := rfl
@[grind =] theorem err_outOfFuel (z : Z) : (outOfFuel z).err = z.err := rfl
theorem mb_outOfFuel (z : Z) (h : MB z) : MB (outOfFuel z) := MB_of_mbv (z := z) rfl h

theorem mb_skipWSLoop (f : Nat) (z : Z) (h : MB z) (he : z.err = .none) : MB (skipWSLoop f z) := by
  induction f generalizing z with
  | zero => exact mb_outOfFuel z h
  | succ f ih =>
    simp only [skipWSLoop]
    repeat' split
    all_goals grind [mb_unread]

theorem mb_skipWhiteSpace (z : Z) (h : MB z) : MB (skipWhiteSpace z) := by
  unfold skipWhiteSpace
  split
  · exact h
  · exact mb_skipWSLoop _ z h (by simp_all)

/-! ### facts about a successful `readByte` -/

theorem readByte_ok (z : Z) (h : MB z) (he : z.err = .none) (hok : (readByte z).2.err = .none) :
    (readByte z).2.rawEnd = z.rawEnd + 1 := by
  have hfe := h.fe
  unfold readByte at hok ⊢
  split
  · rename_i hge; simp [hge] at hok; rcases hfe with e | e <;> simp [e] at hok
  · simp only []
    split <;> simp_all

/-- raw-text bookkeeping fields untouched by the byte-level helpers -/
def rt (z : Z) : List Nat × Nat := (z.rawTag, z.dataStart)

@[simp, grind =] theorem rt_readByte (z : Z) : rt (readByte z).2 = rt z := by
  unfold readByte rt
  split
  · rfl
  · simp only []; split <;> rfl
@[simp, grind =] theorem rt_unread (z : Z) (k : Nat) : rt (unread z k) = rt z := rfl
@[simp, grind =] theorem rt_outOfFuel (z : Z) : rt (outOfFuel z) = rt z := rfl

/-! ### readRawEndTag -/

theorem mb_matchRawTag (t : List Nat) (z : Z) (h : MB z) (he : z.err = .none) : MB (matchRawTag t z).2 := by
  induction t generalizing z with
  | nil => exact h
  | cons t ts ih =>
    simp only [matchRawTag]
    repeat' split
    all_goals grind [mb_unread]

@[simp, grind =] theorem rt_matchRawTag (t : List Nat) (z : Z) : rt (matchRawTag t z).2 = rt z := by
  induction t generalizing z with
  | nil => rfl
  | cons t ts ih =>
    simp only [matchRawTag]
    repeat' split
    all_goals grind

set_option linter.unusedVariables false in
theorem matchRawTag_some (t : List Nat) (z : Z) (h : MB z) (he : z.err = .none) (v : Z)
    (hs : (matchRawTag t z).1 = some v) :
    (matchRawTag t z).2.err = .none ∧ (matchRawTag t z).2.rawEnd = z.rawEnd + t.length := by
  induction t generalizing z with
  | nil => simp [matchRawTag, he]
  | cons t ts ih =>
    simp only [matchRawTag] at hs ⊢
    have hb := mb_readByte' z h he
    have hr := readByte_ok z h he
    split at hs
    · simp at hs
    · split at hs
      · simp at hs
      · rename_i h1 h2
        simp only [ne_eq, Decidable.not_not] at h1
        simp only [h1, h2, ne_eq, not_true_eq_false, if_false]
        have := ih (readByte z).2 hb h1 hs
        rw [hr h1] at this
        simp only [List.length_cons]
        exact ⟨this.1, by omega⟩

theorem mb_readRawEndTag (z : Z) (h : MB z) (he : z.err = .none) : MB (readRawEndTag z).2 := by
  unfold readRawEndTag
  have hm := mb_matchRawTag z.rawTag z h he
  split
  · rename_i z1 heq; rw [heq] at hm; exact hm
  · rename_i v z1 heq
    have hs := matchRawTag_some z.rawTag z h he v (by rw [heq])
    rw [heq] at hm hs
    simp only at hm hs
    simp only []
    repeat' split
    all_goals grind [mb_unread]

@[simp, grind =] theorem rt_readRawEndTag (z : Z) : rt (readRawEndTag z).2 = rt z := by
  unfold readRawEndTag
  repeat' split
  all_goals grind

/-- On success the tag `</rawTag` + one more byte was read without error before backing up. -/
theorem readRawEndTag_true (z : Z) (h : MB z) (he : z.err = .none) (hok : (readRawEndTag z).1 = true) :
    (readRawEndTag z).2.err = .none ∧
    (readRawEndTag z).2.rawEnd = z.rawEnd + z.rawTag.length + 1 - (3 + z.rawTag.length) ∧
    (z.maxBuf > 0 → z.rawEnd + z.rawTag.length + 1 - z.rawStart < z.maxBuf) := by
  unfold readRawEndTag at hok ⊢
  have hm := mb_matchRawTag z.rawTag z h he
  have hrt := rt_matchRawTag z.rawTag z
  split at hok
  · simp at hok
  · rename_i v z1 heq
    have hs := matchRawTag_some z.rawTag z h he v (by rw [heq])
    rw [heq] at hm hs hrt
    simp only at hm hs hrt hok
    simp only []
    have hb := mb_readByte' z1 hm hs.1
    have hr := readByte_ok z1 hm hs.1
    have hrt2 := rt_readByte z1
    have hfr := fr_readByte z1
    have hfr0 := fr_matchRawTag z.rawTag z
    rw [heq] at hfr0
    simp only [rt, Prod.mk.injEq] at hrt hrt2
    simp only [fr, Prod.mk.injEq] at hfr hfr0
    split at hok
    · simp at hok
    · rename_i hne
      simp only [ne_eq, Decidable.not_not] at hne
      split at hok
      · have hlt := hb.lt
        simp only [hne, if_false, ne_eq, not_true_eq_false]
        rename_i hte; simp only [hte, if_true]
        refine ⟨by simp [unread, hne], ?_, ?_⟩
        · simp only [unread]; rw [hr hne, hs.2, hrt2.1, hrt.1]
        · intro hmb
          have := hlt (by rw [hfr.2.2.1, hfr0.2.2.1]; exact hmb) hne
          rw [hr hne, hs.2, hfr.1, hfr0.1, hfr.2.2.1, hfr0.2.2.1] at this
          exact this
      · simp at hok

/-! ### readScript -/

theorem mb_matchScript (w : List (Nat × Nat)) (z : Z) (h : MB z) (he : z.err = .none) : MB (matchScript w z).2 := by
  induction w generalizing z with
  | nil => exact h
  | cons w ws ih =>
    obtain ⟨lo, up⟩ := w
    simp only [matchScript]
    repeat' split
    all_goals grind [mb_unread]

@[simp, grind =] theorem rt_matchScript (w : List (Nat × Nat)) (z : Z) : rt (matchScript w z).2 = rt z := by
  induction w generalizing z with
  | nil => rfl
  | cons w ws ih =>
    obtain ⟨lo, up⟩ := w
    simp only [matchScript]
    repeat' split
    all_goals grind

/-- result code 0 is the only one with the error set -/
theorem matchScript_err (w : List (Nat × Nat)) (z : Z) (he : z.err = .none) :
    (matchScript w z).1 ≠ 0 → (matchScript w z).2.err = .none := by
  induction w generalizing z with
  | nil => intro _; exact he
  | cons w ws ih =>
    obtain ⟨lo, up⟩ := w
    simp only [matchScript]
    repeat' split
    all_goals grind

theorem rawTag_of_rt {z z' : Z} (h : rt z' = rt z) : z'.rawTag = z.rawTag := by
  simp only [rt, Prod.mk.injEq] at h; exact h.1

/-- what each script-data state needs on entry -/
def ScriptPre (st : SS) (z : Z) : Prop :=
  z.err = .none ∧ z.rawTag.length = 6 ∧ (st = .dblEscLt → z.rawEnd ≥ 1) ∧ (st = .dblEscEnd → z.rawEnd ≥ 2)

theorem mb_plus9 (z : Z) (h : MB z) (he : z.err = .none) (hl : z.rawTag.length = 6) (h2 : z.rawEnd ≥ 2)
    (hok : (readRawEndTag z).1 = true) :
    MB { (readRawEndTag z).2 with rawEnd := (readRawEndTag z).2.rawEnd + 9 } ∧
    (readRawEndTag z).2.err = .none := by
  obtain ⟨a, b, c⟩ := readRawEndTag_true z h he hok
  have hm := mb_readRawEndTag z h he
  have hfr := fr_readRawEndTag z
  simp only [fr, Prod.mk.injEq] at hfr
  refine ⟨?_, a⟩
  obtain ⟨h1, h2', h3, h4, h5⟩ := hm
  constructor
  · exact h1
  · intro hmb _
    have := c (by rw [← hfr.2.2.1]; exact hmb)
    simp only [b, hl, hfr.1] at *
    omega
  · intro hmb
    have := c (by rw [← hfr.2.2.1]; exact hmb)
    simp only [b, hl, hfr.1] at *
    omega
  · intro h; exact absurd a h
  · intro h; rw [a] at h; cases h

theorem mb_scriptLoop (f : Nat) (st : SS) (z : Z) (h : MB z) (hp : ScriptPre st z) : MB (scriptLoop f st z) := by
  induction f generalizing st z with
  | zero => exact mb_outOfFuel z h
  | succ f ih =>
    obtain ⟨he, hl, h1, h2⟩ := hp
    have hb := mb_readByte' z h he
    have hr := readByte_ok z h he
    have hrt := rawTag_of_rt (rt_readByte z)
    have hre := mb_readRawEndTag z h he
    have hrert := rawTag_of_rt (rt_readRawEndTag z)
    -- the generic step: after a successful read, any state except dblEscEnd may follow
    have step : ∀ st', st' ≠ .dblEscEnd → (readByte z).2.err = .none → MB (scriptLoop f st' (readByte z).2) := by
      intro st' hne hok
      exact ih st' _ hb ⟨hok, by rw [hrt]; exact hl, (fun _ => by rw [hr hok]; omega), (fun e => absurd e hne)⟩
    have stepU : ∀ st', st' ≠ .dblEscEnd → st' ≠ .dblEscLt → (readByte z).2.err = .none →
        MB (scriptLoop f st' (unread (readByte z).2)) := by
      intro st' hne hne2 hok
      exact ih st' _ (mb_unread _ 1 hb hok) ⟨hok, by simp [unread, hrt, hl], fun e => absurd e hne2, fun e => absurd e hne⟩
    have stepE : ∀ st', st' ≠ .dblEscEnd → st' ≠ .dblEscLt → (readRawEndTag z).2.err = .none →
        MB (scriptLoop f st' (readRawEndTag z).2) := by
      intro st' hne hne2 hok
      exact ih st' _ hre ⟨hok, by rw [hrert]; exact hl, fun e => absurd e hne2, fun e => absurd e hne⟩
    cases st <;> simp only [scriptLoop]
    case dblEscLt =>
      split
      · exact hb
      · rename_i hok; simp only [ne_eq, Decidable.not_not] at hok
        split
        · exact ih _ _ hb ⟨hok, by rw [hrt]; exact hl, (fun e => nomatch e), (fun _ => by rw [hr hok]; have := h1 rfl; omega)⟩
        · exact stepU _ (by decide) (by decide) hok
    case dblEscEnd =>
      have h2' := h2 rfl
      split
      · rename_i hok
        obtain ⟨hm9, he9⟩ := mb_plus9 z h he hl h2' hok
        exact ih _ _ hm9 ⟨he9, by simp [hrert, hl], (fun e => nomatch e), (fun e => nomatch e)⟩
      · split
        · exact hre
        · rename_i hok; simp only [ne_eq, Decidable.not_not] at hok
          exact stepE _ (by decide) (by decide) hok
    case dblEscStart =>
      have hu := mb_unread z 1 h he
      have heu : (unread z).err = .none := he
      have hms := mb_matchScript scriptWord (unread z) hu heu
      have hmse := matchScript_err scriptWord (unread z) heu
      have hmsrt := rawTag_of_rt (rt_matchScript scriptWord (unread z))
      split
      · rename_i z1 heq; rw [heq] at hms; exact hms
      · rename_i z1 heq
        rw [heq] at hms hmse hmsrt
        exact ih _ _ hms ⟨hmse (by simp), by rw [hmsrt]; simpa [unread] using hl, (fun e => nomatch e), (fun e => nomatch e)⟩
      · rename_i c z1 hne0 hne1 heq
        rw [heq] at hms hmse hmsrt
        simp only at hms hmse hmsrt
        have hz1 : z1.err = .none := hmse (fun (e : c = 0) => hne0 e)
        have hl1 : z1.rawTag.length = 6 := by rw [hmsrt]; simpa [unread] using hl
        have hb1 := mb_readByte' z1 hms hz1
        have hrt1 := rawTag_of_rt (rt_readByte z1)
        split
        · exact hb1
        · rename_i hok; simp only [ne_eq, Decidable.not_not] at hok
          split
          · exact ih _ _ hb1 ⟨hok, by rw [hrt1]; exact hl1, (fun e => nomatch e), (fun e => nomatch e)⟩
          · exact ih _ _ (mb_unread _ 1 hb1 hok) ⟨hok, by simp [unread, hrt1, hl1], (fun e => nomatch e), (fun e => nomatch e)⟩
    case endTagOpen =>
      split
      · exact hre
      · rename_i hno; simp only [not_or, ne_eq, Decidable.not_not] at hno
        exact stepE _ (by decide) (by decide) hno.2
    case escEndTagOpen =>
      split
      · exact hre
      · rename_i hno; simp only [not_or, ne_eq, Decidable.not_not] at hno
        exact stepE _ (by decide) (by decide) hno.2
    all_goals
      split
      · exact hb
      · rename_i hok; simp only [ne_eq, Decidable.not_not] at hok
        repeat' split
        all_goals first
          | exact step _ (by decide) hok
          | exact stepU _ (by decide) (by decide) hok

/-! ### updates of fields `MB` does not look at -/

theorem mb_iff_of_mbv {z z' : Z} (h : mbv z' = mbv z) : MB z' ↔ MB z :=
  ⟨MB_of_mbv h.symm, MB_of_mbv h⟩

@[grind =] theorem mb_setDataEnd (z : Z) (k : Nat) : MB { z with dataEnd := k } ↔ MB z := mb_iff_of_mbv rfl
@[grind =] theorem mb_setDataStart (z : Z) (k : Nat) : MB { z with dataStart := k } ↔ MB z := mb_iff_of_mbv rfl
@[grind =] theorem mb_setPkStart (z : Z) (k : Nat) : MB { z with pkStart := k } ↔ MB z := mb_iff_of_mbv rfl
@[grind =] theorem mb_setPkEnd (z : Z) (k : Nat) : MB { z with pkEnd := k } ↔ MB z := mb_iff_of_mbv rfl
@[grind =] theorem mb_setPvStart (z : Z) (k : Nat) : MB { z with pvStart := k } ↔ MB z := mb_iff_of_mbv rfl
@[grind =] theorem mb_setPvEnd (z : Z) (k : Nat) : MB { z with pvEnd := k } ↔ MB z := mb_iff_of_mbv rfl
@[grind =] theorem mb_setPv (z : Z) (a b : Nat) : MB { z with pvStart := a, pvEnd := b } ↔ MB z := mb_iff_of_mbv rfl
@[grind =] theorem mb_setRawTag (z : Z) (t : List Nat) : MB { z with rawTag := t } ↔ MB z := mb_iff_of_mbv rfl
@[grind =] theorem mb_setRawTagDataEnd (z : Z) (k : Nat) (t : List Nat) :
    MB { z with dataEnd := k, rawTag := t } ↔ MB z := mb_iff_of_mbv rfl
@[grind =] theorem mb_setAttr (z : Z) (a b : Nat) (c : List (List Nat)) :
    MB { z with nAttr := a, lastValEnd := b, attrNames := c } ↔ MB z := mb_iff_of_mbv rfl


theorem mb_readScript (z : Z) (h : MB z) (he : z.err = .none) (hl : z.rawTag = scriptTag) : MB (readScript z) := by
  unfold readScript
  have := mb_scriptLoop (8 * (z.inp.size + 2)) .data z h
    ⟨he, by rw [hl]; rfl, (fun e => nomatch e), (fun e => nomatch e)⟩
  exact (mb_setDataEnd _ _).2 this

theorem mb_rawLoop (f : Nat) (z : Z) (h : MB z) (he : z.err = .none) : MB (rawLoop f z) := by
  induction f generalizing z with
  | zero => exact mb_outOfFuel z h
  | succ f ih =>
    simp only [rawLoop]
    repeat' split
    all_goals grind [mb_unread, mb_readRawEndTag]

theorem mb_readRawOrRCDATA (z : Z) (h : MB z) (he : z.err = .none) : MB (readRawOrRCDATA z) := by
  unfold readRawOrRCDATA
  split
  · rename_i hl
    exact (mb_setRawTag _ _).2 (mb_readScript z h he hl)
  · exact (mb_setRawTagDataEnd _ _ _).2 (mb_rawLoop _ z h he)

theorem mb_commentLoop (f d : Nat) (b : Bool) (z : Z) (h : MB z) (he : z.err = .none) : MB (commentLoop f d b z) := by
  induction f generalizing d b z with
  | zero => exact mb_outOfFuel z h
  | succ f ih =>
    simp only [commentLoop]
    repeat' split
    all_goals grind

theorem mb_untilCloseAngleLoop (f : Nat) (z : Z) (h : MB z) (he : z.err = .none) : MB (untilCloseAngleLoop f z) := by
  induction f generalizing z with
  | zero => exact mb_outOfFuel z h
  | succ f ih =>
    simp only [untilCloseAngleLoop]
    repeat' split
    all_goals grind

theorem mb_readUntilCloseAngle (z : Z) (h : MB z) (he : z.err = .none) : MB (readUntilCloseAngle z) := by
  unfold readUntilCloseAngle
  exact mb_untilCloseAngleLoop _ _ ((mb_setDataStart _ _).2 h) he

theorem mb_cdataLoop (f b : Nat) (z : Z) (h : MB z) (he : z.err = .none) : MB (cdataLoop f b z) := by
  induction f generalizing b z with
  | zero => exact mb_outOfFuel z h
  | succ f ih =>
    simp only [cdataLoop]
    repeat' split
    all_goals grind

/-! ### markup declarations -/

/-- where `matchWord` backs up to is a position reached without error -/
def DataOK (z : Z) : Prop := z.maxBuf > 0 → z.dataStart - z.rawStart < z.maxBuf

theorem dataOK_of {z z' : Z} (h1 : fr z' = fr z) (h2 : rt z' = rt z) (hd : DataOK z) : DataOK z' := by
  simp only [fr, rt, Prod.mk.injEq] at h1 h2
  unfold DataOK at *
  rw [h1.1, h1.2.2.1, h2.2]; exact hd

theorem mb_backup_eof (z : Z) (h : MB z) (hd : DataOK z) :
    MB { z with rawEnd := z.dataStart, err := .none } := by
  obtain ⟨h1, h2, h3, h4, h5⟩ := h
  unfold DataOK at hd
  constructor <;> simp_all <;> omega

theorem mb_backup (z : Z) (h : MB z) (he : z.err = .none) (hd : DataOK z) :
    MB { z with rawEnd := z.dataStart } := by
  obtain ⟨h1, h2, h3, h4, h5⟩ := h
  unfold DataOK at hd
  constructor <;> simp_all <;> omega

theorem mb_matchWord (ci : Bool) (w : List Nat) (z : Z) (h : MB z) (he : z.err = .none) (hd : DataOK z) :
    MB (matchWord ci w z).2 := by
  induction w generalizing z with
  | nil => exact h
  | cons w ws ih =>
    have hb := mb_readByte' z h he
    have hd' : DataOK (readByte z).2 := dataOK_of (fr_readByte z) (rt_readByte z) hd
    simp only [matchWord]
    split
    · split
      · exact mb_backup_eof _ hb hd'
      · exact hb
    · rename_i hok; simp only [ne_eq, Decidable.not_not] at hok
      split
      · exact mb_backup _ hb hok hd'
      · exact ih _ hb hok hd'

@[simp, grind =] theorem rt_matchWord (ci : Bool) (w : List Nat) (z : Z) : rt (matchWord ci w z).2 = rt z := by
  induction w generalizing z with
  | nil => rfl
  | cons w ws ih =>
    simp only [matchWord]
    repeat' split
    all_goals first | grind | (have := rt_readByte z; simp_all [rt])

theorem matchWord_some (ci : Bool) (w : List Nat) (z : Z) (he : z.err = .none)
    (hs : (matchWord ci w z).1 = some ()) : (matchWord ci w z).2.err = .none := by
  induction w generalizing z with
  | nil => exact he
  | cons w ws ih =>
    simp only [matchWord] at hs ⊢
    split at hs
    · split at hs <;> simp at hs
    · rename_i h1
      split at hs
      · simp at hs
      · rename_i h2
        simp only [ne_eq, Decidable.not_not] at h1
        simp only [h1, ne_eq, not_true_eq_false, if_false, h2]
        exact ih _ h1 hs

theorem mb_readDoctype (z : Z) (h : MB z) (he : z.err = .none) (hd : DataOK z) : MB (readDoctype z).2 := by
  unfold readDoctype
  have hm := mb_matchWord true doctypeWord z h he hd
  have hs := matchWord_some true doctypeWord z he
  split
  · rename_i z1 heq; rw [heq] at hm; exact hm
  · rename_i u z1 heq
    rw [heq] at hm hs
    have h1 : z1.err = .none := hs rfl
    have hw := mb_skipWhiteSpace z1 hm
    simp only []
    split
    · exact hw
    · rename_i hok; simp only [ne_eq, Decidable.not_not] at hok
      exact mb_readUntilCloseAngle _ hw hok

@[simp, grind =] theorem rt_skipWSLoop (f : Nat) (z : Z) : rt (skipWSLoop f z) = rt z := by
  induction f generalizing z with
  | zero => rfl
  | succ f ih =>
    simp only [skipWSLoop]
    repeat' split
    all_goals grind

/-- a failed `readDoctype` leaves the backup position alone -/
theorem readDoctype_false (z : Z) (hf : (readDoctype z).1 = false) :
    rt (readDoctype z).2 = rt z := by
  unfold readDoctype at hf ⊢
  have := rt_matchWord true doctypeWord z
  split
  · rename_i z1 heq; rw [heq] at this; exact this
  · rename_i heq; rw [heq] at hf; simp only [] at hf; split at hf <;> simp at hf

theorem mb_readCDATA (z : Z) (h : MB z) (he : z.err = .none) (hd : DataOK z) : MB (readCDATA z).2 := by
  unfold readCDATA
  have hm := mb_matchWord false cdataWord z h he hd
  have hs := matchWord_some false cdataWord z he
  split
  · rename_i z1 heq; rw [heq] at hm; exact hm
  · rename_i u z1 heq
    rw [heq] at hm hs
    exact mb_cdataLoop _ _ _ ((mb_setDataStart _ _).2 hm) (hs rfl)

theorem mb_readMarkupDeclaration (z : Z) (h : MB z) (he : z.err = .none) :
    MB (readMarkupDeclaration z).2 := by
  unfold readMarkupDeclaration
  simp only []
  -- z0: data.start := raw.end
  have h0 : MB { z with dataStart := z.rawEnd } := (mb_setDataStart _ _).2 h
  have hd0 : DataOK { z with dataStart := z.rawEnd } := fun hm => h.lt hm he
  generalize hz0 : ({ z with dataStart := z.rawEnd } : Z) = z0 at h0 hd0 ⊢
  have he0 : z0.err = .none := by rw [← hz0]; exact he
  have hb1 := mb_readByte' z0 h0 he0
  have hd1 : DataOK (readByte z0).2 := dataOK_of (fr_readByte z0) (rt_readByte z0) hd0
  split
  · exact hb1
  · rename_i hok1; simp only [ne_eq, Decidable.not_not] at hok1
    have hb2 := mb_readByte' _ hb1 hok1
    have hd2 : DataOK (readByte (readByte z0).2).2 := dataOK_of (fr_readByte _) (rt_readByte _) hd1
    split
    · exact hb2
    · rename_i hok2; simp only [ne_eq, Decidable.not_not] at hok2
      split
      · exact mb_commentLoop _ _ _ _ hb2 hok2
      · have hu := mb_unread _ 2 hb2 hok2
        have hdu : DataOK (unread (readByte (readByte z0).2).2 2) := dataOK_of (fr_unread _ _) (rt_unread _ _) hd2
        have heu : (unread (readByte (readByte z0).2).2 2).err = .none := hok2
        generalize (unread (readByte (readByte z0).2).2 2) = zu at hu hdu heu ⊢
        have hdt := mb_readDoctype zu hu heu hdu
        split
        · rename_i z3 heq; rw [heq] at hdt; exact hdt
        · rename_i z3 heq
          rw [heq] at hdt
          have hrt3 : rt z3 = rt zu := by have := readDoctype_false zu (by rw [heq]); rw [heq] at this; exact this
          have hfr3 : fr z3 = fr zu := by have := fr_readDoctype zu; rw [heq] at this; exact this
          have hd3 : DataOK z3 := dataOK_of hfr3 hrt3 hdu
          simp only [] at hdt ⊢
          split
          · exact hdt
          · rename_i hok3; simp only [ne_eq, Decidable.not_not] at hok3
            split
            · have hc := mb_readCDATA z3 hdt hok3 hd3
              split
              · rename_i z4 heq4; rw [heq4] at hc; exact hc
              · rename_i z4 heq4; rw [heq4] at hc
                simp only [] at hc ⊢
                split
                · exact hc
                · rename_i hok4; simp only [ne_eq, Decidable.not_not] at hok4
                  exact mb_readUntilCloseAngle _ hc hok4
            · exact mb_readUntilCloseAngle _ hdt hok3

/-! ### tags -/

theorem mb_tagNameLoop (f : Nat) (z : Z) (h : MB z) (he : z.err = .none) : MB (tagNameLoop f z) := by
  induction f generalizing z with
  | zero => exact mb_outOfFuel z h
  | succ f ih =>
    simp only [tagNameLoop]
    repeat' split
    all_goals grind [mb_unread]

theorem mb_readTagName (z : Z) (h : MB z) (he : z.err = .none) : MB (readTagName z) := by
  unfold readTagName
  exact mb_tagNameLoop _ _ ((mb_setDataStart _ _).2 h) he

theorem mb_attrKeyLoop (f : Nat) (z : Z) (h : MB z) (he : z.err = .none) : MB (attrKeyLoop f z) := by
  induction f generalizing z with
  | zero => exact mb_outOfFuel z h
  | succ f ih =>
    simp only [attrKeyLoop]
    repeat' split
    all_goals grind [mb_unread]

theorem mb_readTagAttrKey (z : Z) (h : MB z) (he : z.err = .none) : MB (readTagAttrKey z) := by
  unfold readTagAttrKey
  exact mb_attrKeyLoop _ _ ((mb_setPkStart _ _).2 h) he

theorem mb_quotedValLoop (f q : Nat) (z : Z) (h : MB z) (he : z.err = .none) : MB (quotedValLoop f q z) := by
  induction f generalizing z with
  | zero => exact mb_outOfFuel z h
  | succ f ih =>
    simp only [quotedValLoop]
    repeat' split
    all_goals grind

theorem mb_unquotedValLoop (f : Nat) (z : Z) (h : MB z) (he : z.err = .none) : MB (unquotedValLoop f z) := by
  induction f generalizing z with
  | zero => exact mb_outOfFuel z h
  | succ f ih =>
    simp only [unquotedValLoop]
    repeat' split
    all_goals grind [mb_unread]

theorem mb_readTagAttrVal (z : Z) (h : MB z) : MB (readTagAttrVal z) := by
  unfold readTagAttrVal
  simp only []
  have h0 : MB { z with pvStart := z.rawEnd, pvEnd := z.rawEnd } := (mb_setPv _ _ _).2 h
  generalize ({ z with pvStart := z.rawEnd, pvEnd := z.rawEnd } : Z) = z0 at h0 ⊢
  have hw := mb_skipWhiteSpace z0 h0
  generalize skipWhiteSpace z0 = z1 at hw ⊢
  split
  · exact hw
  · rename_i e1; simp only [ne_eq, Decidable.not_not] at e1
    have hb := mb_readByte' z1 hw e1
    split
    · exact hb
    · rename_i e2; simp only [ne_eq, Decidable.not_not] at e2
      split
      · exact hb
      · split
        · exact mb_unread _ 1 hb e2
        · have hw2 := mb_skipWhiteSpace _ hb
          generalize skipWhiteSpace (readByte z1).2 = z2 at hw2 ⊢
          split
          · exact hw2
          · rename_i e3; simp only [ne_eq, Decidable.not_not] at e3
            have hb2 := mb_readByte' z2 hw2 e3
            split
            · exact hb2
            · rename_i e4; simp only [ne_eq, Decidable.not_not] at e4
              split
              · exact mb_unread _ 1 hb2 e4
              · split
                · exact mb_quotedValLoop _ _ _ ((mb_setPvStart _ _).2 hb2) e4
                · exact mb_unquotedValLoop _ _ ((mb_setPvStart _ _).2 hb2) e4

theorem mb_tagLoop (f : Nat) (sa : Bool) (z : Z) (h : MB z) (he : z.err = .none) : MB (tagLoop f sa z) := by
  induction f generalizing z with
  | zero => exact mb_outOfFuel z h
  | succ f ih =>
    have hb := mb_readByte' z h he
    simp only [tagLoop]
    split
    · exact hb
    · rename_i hno; simp only [not_or, ne_eq, Decidable.not_not] at hno
      have hu := mb_unread _ 1 hb hno.1
      have hk := mb_readTagAttrKey _ hu hno.1
      have hv := mb_readTagAttrVal _ hk
      generalize readTagAttrVal (readTagAttrKey (unread (readByte z).2)) = zv at hv ⊢
      have key : ∀ z' : Z, MB z' → MB (if (skipWhiteSpace z').err ≠ .none then skipWhiteSpace z'
          else tagLoop f sa (skipWhiteSpace z')) := by
        intro z' hz'
        have hw := mb_skipWhiteSpace z' hz'
        split
        · exact hw
        · rename_i e; simp only [ne_eq, Decidable.not_not] at e
          exact ih _ hw e
      split
      · exact key _ ((mb_setAttr _ _ _ _).2 hv)
      · exact key _ hv

theorem mb_readTag (sa : Bool) (z : Z) (h : MB z) (he : z.err = .none) : MB (readTag sa z) := by
  unfold readTag
  simp only []
  have h0 : MB { z with nAttr := 0, lastValEnd := 0, attrNames := [] } := (mb_setAttr _ _ _ _).2 h
  have hn := mb_readTagName _ h0 he
  have hw := mb_skipWhiteSpace _ hn
  split
  · exact hw
  · rename_i e; simp only [ne_eq, Decidable.not_not] at e
    exact mb_tagLoop _ _ _ hw e

theorem mb_readStartTag (z : Z) (h : MB z) (he : z.err = .none) : MB (readStartTag z).2 := by
  unfold readStartTag
  simp only []
  have ht := mb_readTag true z h he
  generalize readTag true z = z1 at ht ⊢
  repeat' split
  all_goals first | exact ht | exact (mb_setRawTag _ _).2 ht

/-! ### Next -/

theorem mb_plaintextLoop (f : Nat) (z : Z) (h : MB z) : MB (plaintextLoop f z) := by
  induction f generalizing z with
  | zero => exact mb_outOfFuel z h
  | succ f ih =>
    simp only [plaintextLoop]
    split
    · exact h
    · rename_i e; simp only [ne_eq, Decidable.not_not] at e
      exact ih _ (mb_readByte' z h e)

theorem mb_finishText (z : Z) (h : MB z) : MB (finishText z).2 := by
  unfold finishText
  split
  · exact (mb_setDataEnd _ _).2 h
  · exact h

theorem mb_endTagOpen (z : Z) (h : MB z) (he : z.err = .none) : MB (endTagOpen z).2 := by
  unfold endTagOpen
  have hb := mb_readByte' z h he
  simp only []
  split
  · exact mb_finishText _ hb
  · rename_i e; simp only [ne_eq, Decidable.not_not] at e
    split
    · exact hb
    · split
      · have ht := mb_readTag false _ hb e
        split <;> exact ht
      · exact mb_readUntilCloseAngle _ (mb_unread _ 1 hb e) e

theorem mb_textBefore (z : Z) (h : MB z) (he : z.err = .none) :
    MB { z with rawEnd := z.rawEnd - 2, dataEnd := z.rawEnd - 2 } := by
  have := mb_unread z 2 h he
  exact MB_of_mbv (z := unread z 2) rfl this

/-- `readByte` may be called: no error pending, or nothing left to read. -/
def Safe (z : Z) : Prop := z.err = .none ∨ z.rawEnd ≥ z.inp.size

theorem mb_dispatch (k c : Nat) (z : Z) (h : MB z) (he : z.err = .none) : MB (dispatch k c z).2 := by
  unfold dispatch
  split
  · exact mb_textBefore _ h he
  · split
    · exact mb_readStartTag _ h he
    · split
      · exact mb_endTagOpen _ h he
      · split
        · exact mb_readMarkupDeclaration _ h he
        · exact mb_readUntilCloseAngle _ (mb_unread _ 1 h he) he

theorem mb_mainLoop (f : Nat) (z : Z) (h : MB z) (hs : Safe z) : MB (mainLoop f z).2 := by
  induction f generalizing z with
  | zero => exact mb_outOfFuel z h
  | succ f ih =>
    have hb := mb_readByte z h hs
    simp only [mainLoop]
    split
    · exact mb_finishText _ hb
    · rename_i e1; simp only [ne_eq, Decidable.not_not] at e1
      split
      · exact ih _ hb (Or.inl e1)
      · have hb2 := mb_readByte' _ hb e1
        split
        · exact mb_finishText _ hb2
        · rename_i e2; simp only [ne_eq, Decidable.not_not] at e2
          split
          · exact ih _ (mb_unread _ 1 hb2 e2) (Or.inl e2)
          · exact mb_dispatch _ _ _ hb2 e2

@[simp, grind =] theorem rt_scriptLoop (f : Nat) (st : SS) (z : Z) : rt (scriptLoop f st z) = rt z := by
  induction f generalizing st z with
  | zero => rfl
  | succ f ih =>
    have h9 : ∀ (z : Z) (k : Nat), rt { z with rawEnd := k } = rt z := fun _ _ => rfl
    cases st <;> simp only [scriptLoop] <;> (repeat' split) <;> grind

@[simp, grind =] theorem rt_rawLoop (f : Nat) (z : Z) : rt (rawLoop f z) = rt z := by
  induction f generalizing z with
  | zero => rfl
  | succ f ih =>
    simp only [rawLoop]
    repeat' split
    all_goals grind

@[simp, grind =] theorem rt_plaintextLoop (f : Nat) (z : Z) : rt (plaintextLoop f z) = rt z := by
  induction f generalizing z with
  | zero => rfl
  | succ f ih =>
    simp only [plaintextLoop]
    repeat' split
    all_goals grind

theorem readRawOrRCDATA_data (z : Z) :
    (readRawOrRCDATA z).dataStart = z.dataStart ∧ (readRawOrRCDATA z).dataEnd = (readRawOrRCDATA z).rawEnd := by
  unfold readRawOrRCDATA
  split
  · have := rt_scriptLoop (8 * (z.inp.size + 2)) .data z
    simp only [rt, Prod.mk.injEq] at this
    exact ⟨this.2, rfl⟩
  · have := rt_rawLoop (2 * (z.inp.size + 2)) z
    simp only [rt, Prod.mk.injEq] at this
    exact ⟨this.2, rfl⟩

/-- State between two `Next` calls. -/
structure Between (z : Z) : Prop where
  fe : z.finalErr = .eof ∨ z.finalErr = .other
  fin : z.err ≠ .none → z.err ≠ .exceeded → z.rawEnd ≥ z.inp.size

theorem between_of_mb {z : Z} (h : MB z) : Between z := ⟨h.fe, h.fin⟩

theorem mb_start (z : Z) (hb : Between z) (he : z.err = .none) : MB (startToken z) := by
  obtain ⟨h1, h2⟩ := hb
  constructor <;> simp_all [startToken]

/-- a raw-text attempt that produced no text leaves `readByte` callable -/
theorem safe_of_no_text (z : Z) (h : MB z) (hds : z.dataStart = z.rawStart) (hde : z.dataEnd = z.rawEnd)
    (hno : ¬ z.dataEnd > z.dataStart) : Safe z := by
  unfold Safe
  cases he : z.err with
  | none => exact Or.inl rfl
  | exceeded => have := h.exc he; omega
  | eof => exact Or.inr (h.fin (by simp [he]) (by simp [he]))
  | other => exact Or.inr (h.fin (by simp [he]) (by simp [he]))

theorem rawTextAttempt_spec (z : Z) (h : MB z) (he : z.err = .none) :
    MB (rawTextAttempt z) ∧ (rawTextAttempt z).dataStart = z.dataStart ∧
    (rawTextAttempt z).dataEnd = (rawTextAttempt z).rawEnd ∧ (rawTextAttempt z).rawStart = z.rawStart := by
  have hfr := fr_rawTextAttempt z
  simp only [fr, Prod.mk.injEq] at hfr
  refine ⟨?_, ?_, ?_, hfr.1⟩
  · unfold rawTextAttempt
    split
    · exact (mb_setDataEnd _ _).2 (mb_plaintextLoop _ z h)
    · exact mb_readRawOrRCDATA z h he
  · unfold rawTextAttempt
    split
    · have := rt_plaintextLoop (z.inp.size + 2) z
      simp only [rt, Prod.mk.injEq] at this
      exact this.2
    · exact (readRawOrRCDATA_data z).1
  · unfold rawTextAttempt
    split
    · rfl
    · exact (readRawOrRCDATA_data z).2

/-- After every `Next`: the current token's raw is within the limit, and the
state is again a legal starting point. -/
theorem next_bound (z : Z) (hb : Between z) :
    Between (next z).2 ∧ ((next z).2.maxBuf > 0 → (next z).2.rawEnd - (next z).2.rawStart ≤ (next z).2.maxBuf) := by
  unfold next
  simp only []
  have hst : (startToken z).dataStart = (startToken z).rawStart ∧ (startToken z).rawEnd = (startToken z).rawStart :=
    ⟨rfl, rfl⟩
  have hbs : Between (startToken z) := ⟨hb.fe, hb.fin⟩
  have hms : (startToken z).err = .none → MB (startToken z) := fun he => mb_start z hb he
  generalize startToken z = z1 at hst hbs hms ⊢
  have fin : ∀ r : Nat × Z, MB r.2 → Between r.2 ∧ (r.2.maxBuf > 0 → r.2.rawEnd - r.2.rawStart ≤ r.2.maxBuf) :=
    fun r hr => ⟨between_of_mb hr, hr.le⟩
  split
  · refine ⟨hbs, ?_⟩
    intro _; simp only []; rw [hst.2]; omega
  · rename_i he1; simp only [ne_eq, Decidable.not_not] at he1
    have hm1 := hms he1
    split
    · obtain ⟨a, b, c, d⟩ := rawTextAttempt_spec z1 hm1 he1
      generalize rawTextAttempt z1 = z2 at a b c d ⊢
      split
      · exact fin (1, z2) a
      · rename_i hno
        exact fin _ (mb_mainLoop _ _ a (safe_of_no_text _ a (by rw [b, d, hst.1]) c hno))
    · exact fin _ (mb_mainLoop _ _ hm1 (Or.inl he1))

end NetVerif.Proofs.Lemmas.HtmlTokMaxBuf
