import NetVerif.Proofs.Lemmas.WriteSched
/-!
The C12 specification: a control FIFO, one FIFO per stream, flow-control windows; and the
proof that any run of the specification conserves every pushed token (ledger theorem).
-/
namespace NetVerif.Proofs.WriteSchedSpec
open NetVerif.Model.WriteSched NetVerif.Proofs.WriteSchedLemmas

/-- Abstract state: the control FIFO and the FIFO of every stream. -/
structure Abs where
  ctl : List Frame
  q : Nat → List Frame

def Abs.empty : Abs := ⟨[], fun _ => []⟩

/-- What a `Pop` may do on the specification.  `n` is the byte limit handed to `Consume`
(`math.MaxInt32`, or the RFC 7540 write-throttle limit; always positive).  `strict` switches the clause
"nothing is returned only if nothing is sendable" on (it is proved for three schedulers, not for RFC 7540). -/
inductive PopSpec (strict : Prop) (e : Env) (a : Abs) : Res → Env → Abs → Prop
  /-- control frames first, in FIFO order -/
  | ctl {f : Frame} {rest : List Frame} : a.ctl = f :: rest → PopSpec strict e a (.frame f) e ⟨rest, a.q⟩
  /-- the head of one stream's FIFO, written whole -/
  | whole {id : Nat} {f : Frame} {rest : List Frame} {e' : Env} {n : Int} :
      a.ctl = [] → a.q id = f :: rest → 0 < n → f.consume e n = (e', .whole f) →
      PopSpec strict e a (.frame f) e' ⟨[], upd a.q id rest⟩
  /-- a prefix of the head DATA frame; the remainder stays at the head -/
  | split {id : Nat} {f c r : Frame} {rest : List Frame} {e' : Env} {n : Int} :
      a.ctl = [] → a.q id = f :: rest → 0 < n → f.consume e n = (e', .split c r) →
      PopSpec strict e a (.frame c) e' ⟨[], upd a.q id (r :: rest)⟩
  /-- nothing: only if no queued frame is sendable under the windows -/
  | none : a.ctl = [] → (strict → ∀ id f rest, a.q id = f :: rest → ∃ e', f.consume e maxInt32 = (e', .none)) →
      PopSpec strict e a .none e a

/-- Effect of the other calls on the specification state. -/
def Abs.applyOp (a : Abs) : Op → Abs
  | .closeS id => ⟨a.ctl, upd a.q id []⟩
  | .push f => if f.isControl then ⟨a.ctl ++ [f], a.q⟩ else ⟨a.ctl, upd a.q f.streamID (a.q f.streamID ++ [f])⟩
  | _ => a

def envOp (e : Env) : Op → Env
  | .win id d => if id = 0 then { e with connWin := e.connWin + d } else { e with win := upd e.win id (e.win id + d) }
  | .maxframe n => { e with maxFrame := n }
  | _ => e

/-- One step of the specification. -/
inductive StepSpec (strict : Prop) (e : Env) (a : Abs) : Op → Res → Env → Abs → Prop
  | pop {h : Option Nat} {r : Res} {e' : Env} {a' : Abs} : PopSpec strict e a r e' a' → StepSpec strict e a (.pop h) r e' a'
  /-- random scheduler only: the caller's report of the served stream was not a legal outcome -/
  | reject {h : Option Nat} : StepSpec strict e a (.pop h) .reject e a
  | other {op : Op} : (∀ h, op ≠ .pop h) → StepSpec strict e a op .ok (envOp e op) (a.applyOp op)

/-! ### The WriteScheduler contract, tracked on the set of open streams -/

def pushOK (opn : Nat → Bool) : Frame → Prop
  | .data sid _ _ _ _ last => opn sid = true ∧ last = true
  | .hdr sid _ => opn sid = true
  | .ctl _ => True
  | .rst _ _ => True
  | .empty => False

def OpOK (opn : Nat → Bool) : Op → Prop
  | .openS id _ c => id ≠ 0 ∧ opn id = false ∧ c < 16
  | .closeS id => opn id = true
  | .adjust id _ _ _ c => id ≠ 0 ∧ c < 16
  | .push f => pushOK opn f
  | _ => True

def opnOp (opn : Nat → Bool) : Op → Nat → Bool
  | .openS id _ _ => upd opn id true
  | .closeS id => upd opn id false
  | _ => opn

/-- A history respects the contract: fresh non-zero ids are opened, only open streams are closed,
stream frames are pushed on open streams only, no zero-valued request is pushed. -/
def Contract (opn : Nat → Bool) : List Op → Prop
  | [] => True
  | op :: ops => OpOK opn op ∧ Contract (opnOp opn op) ops

/-! ### Ledger: tokens pushed per stream vs. tokens that left the queue (written or dropped by CloseStream) -/

structure Ledger where
  pushed : Nat → List Tok
  /-- tokens handed out by `Pop`, in order, interleaved with the tokens discarded by `CloseStream` -/
  gone : Nat → List Tok
  /-- the part of `gone` that was discarded by `CloseStream` -/
  dropped : Nat → List Tok

def Ledger.empty : Ledger := ⟨fun _ => [], fun _ => [], fun _ => []⟩

def Ledger.step (a : Abs) (L : Ledger) : Op → Res → Ledger
  | .push f, _ =>
    if f.isControl then L else { L with pushed := upd L.pushed f.streamID (L.pushed f.streamID ++ toks f) }
  | .closeS id, _ =>
    { L with gone := upd L.gone id (L.gone id ++ flatToks (a.q id)),
             dropped := upd L.dropped id (L.dropped id ++ flatToks (a.q id)) }
  | .pop _, .frame f =>
    if f.isControl then L else { L with gone := upd L.gone f.streamID (L.gone f.streamID ++ toks f) }
  | _, _ => L

/-- A run of the specification, with its ledger. -/
inductive SpecRun (strict : Prop) : Env → Abs → Ledger → List Op → List Res → Env → Abs → Ledger → Prop
  | nil {e a L} : SpecRun strict e a L [] [] e a L
  | cons {e a L op r e1 a1 ops rs e2 a2 L2} :
      StepSpec strict e a op r e1 a1 → SpecRun strict e1 a1 (L.step a op r) ops rs e2 a2 L2 →
      SpecRun strict e a L (op :: ops) (r :: rs) e2 a2 L2

/-- Well-formedness of the specification state w.r.t. the open set. -/
structure AbsWF (a : Abs) (opn : Nat → Bool) : Prop where
  ctl : ∀ f ∈ a.ctl, f.isControl = true ∧ f ≠ .empty
  str : ∀ id, ∀ f ∈ a.q id, f.isControl = false ∧ f.streamID = id
  closed : ∀ id, opn id = false → a.q id = []

def LedgerOK (a : Abs) (L : Ledger) : Prop := ∀ id, L.gone id ++ flatToks (a.q id) = L.pushed id

theorem absWF_empty : AbsWF Abs.empty (fun _ => false) :=
  ⟨by simp [Abs.empty], by simp [Abs.empty], by simp [Abs.empty]⟩

theorem ledgerOK_empty : LedgerOK Abs.empty Ledger.empty := by
  intro id; simp [Abs.empty, Ledger.empty]

theorem isControl_streamID_of_pushOK {opn : Nat → Bool} {f : Frame} (h : pushOK opn f) (hc : f.isControl = false) :
    opn f.streamID = true := by
  cases f <;> simp_all [pushOK, Frame.isControl, Frame.streamID]

/-- One specification step keeps the state well formed, keeps the ledger balanced, and a popped
frame is never the zero request. -/
theorem step_preserves {strict : Prop} {e e1 : Env} {a a1 : Abs} {L : Ledger} {opn : Nat → Bool} {op : Op} {r : Res}
    (hwf : AbsWF a opn) (hl : LedgerOK a L) (hok : OpOK opn op) (hs : StepSpec strict e a op r e1 a1) :
    AbsWF a1 (opnOp opn op) ∧ LedgerOK a1 (L.step a op r) ∧ r ≠ .frame .empty ∧ r ≠ .panic := by
  cases hs with
  | reject => exact ⟨by simpa [opnOp] using hwf, by simpa [Ledger.step] using hl, by simp, by simp⟩
  | other hnp =>
    refine ⟨?_, ?_, by simp, by simp⟩
    · cases op with
      | pop h => exact absurd rfl (hnp h)
      | openS id p c =>
        simp only [Abs.applyOp, opnOp]
        refine ⟨hwf.ctl, hwf.str, ?_⟩
        intro x hx
        by_cases hxi : x = id
        · subst hxi; exact hwf.closed x hok.2.1
        · simp only [upd, hxi, if_false] at hx; exact hwf.closed x hx
      | closeS id =>
        simp only [Abs.applyOp, opnOp]
        refine ⟨hwf.ctl, ?_, ?_⟩
        · intro x f hf
          by_cases hxi : x = id
          · subst hxi; simp [upd] at hf
          · simp only [upd, hxi, if_false] at hf; exact hwf.str x f hf
        · intro x hx
          by_cases hxi : x = id
          · subst hxi; simp [upd]
          · simp only [upd, hxi, if_false] at hx ⊢; exact hwf.closed x hx
      | adjust id d ex w c => simpa [Abs.applyOp, opnOp] using hwf
      | win id d => simpa [Abs.applyOp, opnOp] using hwf
      | maxframe n => simpa [Abs.applyOp, opnOp] using hwf
      | push f =>
        simp only [Abs.applyOp, opnOp]
        by_cases hc : f.isControl = true
        · simp only [hc, if_true]
          refine ⟨?_, hwf.str, hwf.closed⟩
          intro g hg
          simp at hg
          rcases hg with hg | rfl
          · exact hwf.ctl g hg
          · refine ⟨hc, ?_⟩
            intro he; subst he; exact hok
        · have hc' : f.isControl = false := by simpa using hc
          simp only [hc', Bool.false_eq_true, if_false]
          have hopen := isControl_streamID_of_pushOK hok hc'
          refine ⟨hwf.ctl, ?_, ?_⟩
          · intro x g hg
            by_cases hxi : x = f.streamID
            · subst hxi
              simp [upd] at hg
              rcases hg with hg | rfl
              · exact hwf.str _ g hg
              · exact ⟨hc', rfl⟩
            · simp only [upd, hxi, if_false] at hg; exact hwf.str x g hg
          · intro x hx
            by_cases hxi : x = f.streamID
            · subst hxi; rw [hopen] at hx; cases hx
            · simp only [upd, hxi, if_false]; exact hwf.closed x hx
    · intro x
      cases op with
      | pop h => exact absurd rfl (hnp h)
      | openS id p c => simpa [Abs.applyOp, Ledger.step] using hl x
      | adjust id d ex w c => simpa [Abs.applyOp, Ledger.step] using hl x
      | win id d => simpa [Abs.applyOp, Ledger.step] using hl x
      | maxframe n => simpa [Abs.applyOp, Ledger.step] using hl x
      | closeS id =>
        simp only [Abs.applyOp, Ledger.step]
        by_cases hxi : x = id
        · subst hxi; simp [upd]; exact hl x
        · simp [upd, hxi]; exact hl x
      | push f =>
        simp only [Abs.applyOp, Ledger.step]
        by_cases hc : f.isControl = true
        · simp only [hc, if_true]; exact hl x
        · have hc' : f.isControl = false := by simpa using hc
          simp only [hc', Bool.false_eq_true, if_false]
          by_cases hxi : x = f.streamID
          · subst hxi; simp [upd]; rw [← hl f.streamID]; simp
          · simp [upd, hxi]; exact hl x
  | pop hp =>
    cases hp with
    | ctl hc =>
      rename_i f rest
      have hf := hwf.ctl f (by simp [hc])
      refine ⟨⟨?_, hwf.str, hwf.closed⟩, ?_, ?_, by simp⟩
      · intro g hg; exact hwf.ctl g (by simp [hc, hg])
      · intro x; simp [Ledger.step, hf.1]; exact hl x
      · intro h; cases h; exact hf.2 rfl
    | none hc hall => exact ⟨by simpa [opnOp] using hwf, by simpa [Ledger.step] using hl, by simp, by simp⟩
    | whole hc hq hn hcons =>
      rename_i h id f rest n
      have hf := hwf.str id f (by simp [hq])
      refine ⟨⟨by simp, ?_, ?_⟩, ?_, ?_, by simp⟩
      · intro x g hg
        by_cases hxi : x = id
        · subst hxi; simp [upd] at hg; exact hwf.str x g (by simp [hq, hg])
        · simp only [upd, hxi, if_false] at hg; exact hwf.str x g hg
      · intro x hx
        simp only [opnOp] at hx
        by_cases hxi : x = id
        · subst hxi; have := hwf.closed x hx; rw [hq] at this; cases this
        · simp only [upd, hxi, if_false]; exact hwf.closed x hx
      · intro x
        simp only [Ledger.step, hf.1, Bool.false_eq_true, if_false, hf.2]
        by_cases hxi : x = id
        · subst hxi; simp [upd]; rw [← hl x, hq]; simp
        · simp [upd, hxi]; exact hl x
      · intro h; cases h; simp [Frame.isControl] at hf
    | split hc hq hn hcons =>
      rename_i h id f c r rest n
      have hf := hwf.str id f (by simp [hq])
      obtain ⟨htok, hcs, hrs, hcc, hrc, sid, tag, off, len, hcd, _⟩ := consume_split_toks hcons
      refine ⟨⟨by simp, ?_, ?_⟩, ?_, ?_, by simp⟩
      · intro x g hg
        by_cases hxi : x = id
        · subst hxi
          simp [upd] at hg
          rcases hg with rfl | hg
          · exact ⟨hrc, by rw [hrs, hf.2]⟩
          · exact hwf.str x g (by simp [hq, hg])
        · simp only [upd, hxi, if_false] at hg; exact hwf.str x g hg
      · intro x hx
        simp only [opnOp] at hx
        by_cases hxi : x = id
        · subst hxi; have := hwf.closed x hx; rw [hq] at this; cases this
        · simp only [upd, hxi, if_false]; exact hwf.closed x hx
      · intro x
        have hcid : c.streamID = id := by rw [hcs, hf.2]
        simp only [Ledger.step, hcc, Bool.false_eq_true, if_false, hcid]
        by_cases hxi : x = id
        · subst hxi; simp [upd]; rw [← hl x, hq]; simp [← htok]
        · simp [upd, hxi]; exact hl x
      · intro h; cases h; cases hcd

/-- **Ledger theorem.**  Along any run of the specification over a contract-respecting history:
every token ever pushed on a stream is, in push order, either already handed out by `Pop`, dropped by a
`CloseStream`, or still queued — nothing is lost, duplicated or reordered; `Pop` never yields the zero
request and no call panics. -/
theorem specRun_ledger {strict : Prop} {e e' : Env} {a a' : Abs} {L L' : Ledger} {opn : Nat → Bool} {ops : List Op} {rs : List Res}
    (hwf : AbsWF a opn) (hl : LedgerOK a L) (hc : Contract opn ops) (hr : SpecRun strict e a L ops rs e' a' L') :
    LedgerOK a' L' ∧ (∀ r ∈ rs, r ≠ .frame .empty ∧ r ≠ .panic) := by
  induction hr generalizing opn with
  | nil => exact ⟨hl, by simp⟩
  | cons hs _ ih =>
    obtain ⟨hok, hc'⟩ := hc
    obtain ⟨hwf1, hl1, hne, hnp⟩ := step_preserves hwf hl hok hs
    obtain ⟨h1, h2⟩ := ih hwf1 hl1 hc'
    refine ⟨h1, ?_⟩
    intro r hr
    simp at hr
    rcases hr with rfl | hr
    · exact ⟨hne, hnp⟩
    · exact h2 r hr

end NetVerif.Proofs.WriteSchedSpec
