import NetVerif.Model.Flow
/-!
`outflow` arithmetic facts used by C08/C09 (add/take/available specifications over int32 counters).
These are copies of the corresponding theorems of `Proofs/Lemmas/Flow.lean` (C10/C11 builder) so that the
C08/C09 proof tree does not depend on `Gen/Flow.lean`, which other properties' checks regenerate.
-/
namespace NetVerif.Proofs.SendWinFlow
open NetVerif.Model.Flow

/-! ### outflow -/

theorem wrap32_id (x : Int) (h : IsInt32 x) : wrap32 x = x := by
  unfold IsInt32 at h
  unfold wrap32
  show (x + 2147483648) % 4294967296 - 2147483648 = x
  omega

theorem wrap32_range (x : Int) : IsInt32 (wrap32 x) := by
  unfold IsInt32 wrap32
  show -2147483648 ≤ (x + 2147483648) % 4294967296 - 2147483648 ∧
       (x + 2147483648) % 4294967296 - 2147483648 ≤ 2147483647
  omega

/-- `outflow.add` returns true iff the exact sum is representable as an int32 (in
particular it returns false whenever the sum would exceed 2^31-1), and then stores it. -/
theorem outflow_add_spec (f : Outflow) (n : Int) (hf : IsInt32 f.n) (hn : IsInt32 n) :
    ((f.add n).1 = true ↔ IsInt32 (f.n + n)) ∧
    ((f.add n).1 = true → (f.add n).2 = { f with n := f.n + n }) ∧
    ((f.add n).1 = false → (f.add n).2 = f) := by
  unfold IsInt32 at *
  unfold Outflow.add
  generalize hwv : wrap32 (f.n + n) = w
  have hw : (-2147483648 ≤ f.n + n ∧ f.n + n ≤ 2147483647 ∧ w = f.n + n) ∨
            (f.n + n > 2147483647 ∧ w = f.n + n - 4294967296) ∨
            (f.n + n < -2147483648 ∧ w = f.n + n + 4294967296) := by
    subst hwv
    unfold wrap32
    show (_ ∧ _ ∧ (f.n + n + 2147483648) % 4294967296 - 2147483648 = _) ∨
         (_ ∧ (f.n + n + 2147483648) % 4294967296 - 2147483648 = _) ∨
         (_ ∧ (f.n + n + 2147483648) % 4294967296 - 2147483648 = _)
    omega
  dsimp only
  rcases hw with ⟨h1, h2, h3⟩ | ⟨h1, h3⟩ | ⟨h1, h3⟩
  · subst h3
    by_cases h0 : f.n > 0
    · have : f.n + n > n := by omega
      simp [h0, this, h1, h2]
    · have : ¬ f.n + n > n := by omega
      simp [h0, this, h1, h2]
  · have a : ¬ w > n := by omega
    have b : f.n > 0 := by omega
    have c : ¬ f.n + n ≤ 2147483647 := by omega
    simp [a, b, c]
  · have a : w > n := by omega
    have b : ¬ f.n > 0 := by omega
    have c : ¬ -2147483648 ≤ f.n + n := by omega
    simp [a, b, c]

/-- `available` is the minimum of the stream and connection windows. -/
theorem outflow_available_spec (f : Outflow) :
    f.available ≤ f.n ∧ (∀ c, f.conn = some c → f.available ≤ c ∧ (f.available = c ∨ f.available = f.n)) ∧
    (f.conn = none → f.available = f.n) := by
  unfold Outflow.available
  cases hc : f.conn with
  | none => simp
  | some c =>
    by_cases h : c < f.n <;> simp [h] <;> omega

/-- `outflow.take n` panics iff `n > available`; otherwise both counters drop by exactly
`n` (no wrap for `0 ≤ n` on int32 counters) and stay ≥ 0 if they were. -/
theorem outflow_take_spec (f : Outflow) (n : Int) (hn : 0 ≤ n) (hf : IsInt32 f.n)
    (hc : ∀ c, f.conn = some c → IsInt32 c) :
    (f.take n = none ↔ n > f.available) ∧
    (∀ g, f.take n = some g → g.n = f.n - n ∧ g.conn = f.conn.map (· - n) ∧ 0 ≤ g.available - (f.available - n)
        ∧ g.available = f.available - n) := by
  unfold Outflow.take
  by_cases h : n > f.available
  · simp [h]
  · simp only [h, if_false]
    refine ⟨by simp, ?_⟩
    intro g hg
    simp only [Option.some.injEq] at hg
    subst hg
    have av := outflow_available_spec f
    unfold IsInt32 at hf
    cases hcc : f.conn with
    | none =>
      have e : f.available = f.n := av.2.2 hcc
      have w : wrap32 (f.n - n) = f.n - n := wrap32_id _ (by unfold IsInt32; omega)
      simp [Outflow.available, hcc, w] at *
    | some c =>
      have hc' := hc c hcc
      unfold IsInt32 at hc'
      have ⟨a1, a2⟩ := av.2.1 c hcc
      have w1 : wrap32 (f.n - n) = f.n - n := wrap32_id _ (by unfold IsInt32; omega)
      have w2 : wrap32 (c - n) = c - n := wrap32_id _ (by unfold IsInt32; omega)
      simp only [Option.map_some, w1, w2, true_and]
      unfold Outflow.available at *
      simp only [hcc] at *
      by_cases hlt : c < f.n
      · have : c - n < f.n - n := by omega
        simp [hlt, this]
      · have : ¬ c - n < f.n - n := by omega
        simp [hlt, this]

end NetVerif.Proofs.SendWinFlow
