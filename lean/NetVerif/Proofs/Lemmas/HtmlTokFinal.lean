import NetVerif.Proofs.Lemmas.HtmlTokFuel3
/-! Non-error tokens are non-empty; a non-empty ErrorToken is an open tag. -/
namespace NetVerif.Proofs.Lemmas.HtmlTokFuel
open NetVerif.Model.HtmlTokExact NetVerif.Proofs.Lemmas.HtmlTokExact NetVerif.Proofs.Lemmas.HtmlTokSpan

/-- `input[a:b]` begins `<`letter or `</`letter (the tag the tokenizer was in when the input ended) -/
def OpenTag (inp : Array Nat) (a b : Nat) : Prop :=
  a + 2 ≤ b ∧ inp.getD a 0 = 60 ∧
  (isLetter (inp.getD (a + 1) 0) = true ∨
   (inp.getD (a + 1) 0 = 47 ∧ a + 3 ≤ b ∧ isLetter (inp.getD (a + 2) 0) = true))

theorem readByte_val (z : Z) (h : Ok z) (hok : (readByte z).2.err = .none) :
    (readByte z).1 = z.inp.getD z.rawEnd 0 := by
  unfold readByte at hok ⊢
  split
  · rename_i h1; simp only [h1, if_true] at hok; exact absurd hok h.2
  · rename_i h1
    simp only [h1, if_false] at hok ⊢
    split
    · rename_i h2; simp only [h2, if_true] at hok; cases hok
    · rfl

theorem ty_readMarkupDeclaration (z : Z) : (readMarkupDeclaration z).1 ≠ 0 := by
  unfold readMarkupDeclaration
  simp only []
  repeat' split
  all_goals simp

theorem tokenKind_2 (c : Nat) (h : tokenKind c = 2) : isLetter c = true := by
  unfold tokenKind at h
  split at h
  · assumption
  · split at h
    · simp at h
    · split at h <;> simp at h

theorem tokenKind_3 (c : Nat) (h : tokenKind c = 3) : c = 47 := by
  unfold tokenKind at h
  split at h
  · simp at h
  · split at h
    · rename_i h1; simpa using h1
    · split at h <;> simp at h

/-- what `dispatch` returns: a non-empty token, and if it is the ErrorToken, an open tag -/
theorem dispatch_result (c : Nat) (z : Z) (h : Ok z) (hs2 : z.rawStart + 2 ≤ z.rawEnd)
    (b1 : z.inp.getD (z.rawEnd - 2) 0 = 60) (b2 : z.inp.getD (z.rawEnd - 1) 0 = c) :
    (dispatch (tokenKind c) c z).2.rawStart < (dispatch (tokenKind c) c z).2.rawEnd ∧
    ((dispatch (tokenKind c) c z).1 = 0 →
      OpenTag z.inp (dispatch (tokenKind c) c z).2.rawStart (dispatch (tokenKind c) c z).2.rawEnd) := by
  unfold dispatch
  split
  · rename_i hlt
    exact ⟨by simp only []; omega, fun e => by simp at e⟩
  · rename_i hge
    have hrs : z.rawStart = z.rawEnd - 2 := by omega
    have fromMono : ∀ (r : Nat × Z), Mono z r.2 →
        r.2.rawStart < r.2.rawEnd ∧ (isLetter c = true → OpenTag z.inp r.2.rawStart r.2.rawEnd) := by
      intro r m
      obtain ⟨m1, m2, m3, m4, m5⟩ := m
      refine ⟨by rw [m4]; omega, fun hl => ?_⟩
      rw [m4]
      refine ⟨by omega, by rw [hrs]; exact b1, Or.inl ?_⟩
      have : z.rawStart + 1 = z.rawEnd - 1 := by omega
      rw [this, b2]; exact hl
    split
    · rename_i hk
      have := fromMono _ (mono_readStartTag z h)
      exact ⟨this.1, fun _ => this.2 (tokenKind_2 c hk)⟩
    · split
      · rename_i hk
        have hc47 := tokenKind_3 c hk
        -- endTagOpen
        have hm := mono_endTagOpen z h
        refine ⟨(fromMono _ hm).1, ?_⟩
        unfold endTagOpen
        have hr := rb z h
        have hok := ok_of_mono h hr.1
        simp only []
        split
        · unfold finishText
          have : (readByte z).2.rawStart < (readByte z).2.rawEnd := by
            have := hr.1.1; rw [hr.1.2.2.2.1]; omega
          simp only [this, if_true]
          intro e; simp at e
        · rename_i e1; simp only [ne_eq, Decidable.not_not] at e1
          have hval := readByte_val z h e1
          have hpos := hr.2.2 e1
          split
          · intro e; simp at e
          · split
            · rename_i hlet
              have hmt := hr.1.trans (mono_readTag false _ hok)
              have hge1 := (mono_readTag false _ hok).1
              obtain ⟨m1, m2, m3, m4, m5⟩ := hmt
              have ot : OpenTag z.inp (readTag false (readByte z).2).rawStart (readTag false (readByte z).2).rawEnd := by
                rw [m4]
                refine ⟨by omega, by rw [hrs]; exact b1, Or.inr ⟨?_, by omega, ?_⟩⟩
                · have : z.rawStart + 1 = z.rawEnd - 1 := by omega
                  rw [this, b2]; exact hc47
                · have : z.rawStart + 2 = z.rawEnd := by omega
                  rw [this, ← hval]; exact hlet
              split
              · intro _; exact ot
              · intro e; simp at e
            · intro e; simp at e
      · split
        · exact ⟨(fromMono _ (mono_readMarkupDeclaration z h)).1, fun e => absurd e (ty_readMarkupDeclaration z)⟩
        · have hoku : Ok (unread z) := ⟨by show z.rawEnd - 1 ≤ z.inp.size; have h1 : z.rawEnd ≤ z.inp.size := h.1; omega, h.2⟩
          have hm := mono_readUntilCloseAngle _ hoku
          obtain ⟨m1, m2, m3, m4, m5⟩ := hm
          refine ⟨?_, fun e => by simp at e⟩
          show (readUntilCloseAngle (unread z)).rawStart < (readUntilCloseAngle (unread z)).rawEnd
          have e1 : (unread z).rawEnd = z.rawEnd - 1 := rfl
          have e2 : (unread z).rawStart = z.rawStart := rfl
          rw [m4, e2]; omega

/-- result of the scanning loop: a non-error token is non-empty; the ErrorToken is empty or an open tag -/
def GoodResult (inp : Array Nat) (r : Nat × Z) : Prop :=
  (r.1 ≠ 0 → r.2.rawStart < r.2.rawEnd) ∧
  (r.1 = 0 → r.2.rawStart = r.2.rawEnd ∨ OpenTag inp r.2.rawStart r.2.rawEnd)

theorem good_inp {i j : Array Nat} {r : Nat × Z} (e : i = j) (h : GoodResult i r) : GoodResult j r := e ▸ h

theorem good_finishText (inp : Array Nat) (z : Z) (hs : z.rawStart ≤ z.rawEnd) : GoodResult inp (finishText z) := by
  unfold finishText GoodResult
  split
  · rename_i h; exact ⟨fun _ => h, fun e => by simp at e⟩
  · rename_i h; exact ⟨fun e => by simp at e, fun _ => Or.inl (by simp only []; omega)⟩

theorem good_mainLoop (f : Nat) (z : Z) (h : Ok z) (hs : z.rawStart ≤ z.rawEnd) (hf : rem z < f) :
    GoodResult z.inp (mainLoop f z) := by
  induction f generalizing z with
  | zero => omega
  | succ f ih =>
    have hr := rb z h
    have hok := ok_of_mono h hr.1
    obtain ⟨m1, m2, m3, m4, m5⟩ := hr.1
    have hs1 : (readByte z).2.rawStart ≤ (readByte z).2.rawEnd := by rw [m4]; omega
    simp only [mainLoop]
    split
    · exact good_finishText _ _ hs1
    · rename_i e1; simp only [ne_eq, Decidable.not_not] at e1
      have p1 := rem_read z h e1
      have v1 := readByte_val z h e1
      have q1 := hr.2.2 e1
      split
      · exact good_inp m3 (ih _ hok hs1 (by omega))
      · rename_i hc60; simp only [ne_eq, Decidable.not_not] at hc60
        have hr2 := rb _ hok
        have hok2 := ok_of_mono hok hr2.1
        obtain ⟨n1, n2, n3, n4, n5⟩ := hr2.1
        have hs2' : (readByte (readByte z).2).2.rawStart ≤ (readByte (readByte z).2).2.rawEnd := by
          rw [n4, m4]; omega
        split
        · exact good_finishText _ _ hs2'
        · rename_i e2; simp only [ne_eq, Decidable.not_not] at e2
          have v2 := readByte_val _ hok e2
          have q2 := hr2.2.2 e2
          split
          · have hu := mono_unread1 _ hok e2
            have q := rem_mono hu
            have := ih _ (ok_of_mono hok hu) (by have := hu.1; rw [hu.2.2.2.1, m4]; omega) (by omega)
            have hinp : (unread (readByte (readByte z).2).2).inp = z.inp := by rw [hu.2.2.1, m3]
            exact good_inp hinp this
          · have hd := dispatch_result (readByte (readByte z).2).1 (readByte (readByte z).2).2 hok2
              (by rw [n4, m4, q2, q1]; omega)
              (by rw [n3, m3, q2, q1]; have : z.rawEnd + 1 + 1 - 2 = z.rawEnd := by omega
                  rw [this, ← v1]; exact hc60)
              (by rw [n3, q2]; have : (readByte z).2.rawEnd + 1 - 1 = (readByte z).2.rawEnd := by omega
                  rw [this, ← v2])
            rw [n3, m3] at hd
            exact ⟨fun _ => hd.1, fun e => Or.inr (hd.2 e)⟩

theorem rawTextAttempt_data (z : Z) :
    (rawTextAttempt z).dataStart = z.dataStart ∧ (rawTextAttempt z).dataEnd = (rawTextAttempt z).rawEnd := by
  unfold rawTextAttempt
  split
  · have := NetVerif.Proofs.Lemmas.HtmlTokMaxBuf.rt_plaintextLoop (z.inp.size + 2) z
    simp only [NetVerif.Proofs.Lemmas.HtmlTokMaxBuf.rt, Prod.mk.injEq] at this
    exact ⟨this.2, rfl⟩
  · exact NetVerif.Proofs.Lemmas.HtmlTokMaxBuf.readRawOrRCDATA_data z

/-- **Every `Next`**: a non-error token has a non-empty raw; the ErrorToken's raw is
empty or is an open tag `<`letter… / `</`letter…. -/
theorem good_next (z : Z) (h : Ok z) : GoodResult z.inp (next z) := by
  unfold next
  simp only []
  have hst : Ok (startToken z) := h
  have hss : (startToken z).rawStart = (startToken z).rawEnd := rfl
  have hds : (startToken z).dataStart = (startToken z).rawStart := rfl
  have hin : (startToken z).inp = z.inp := rfl
  generalize startToken z = z1 at hst hss hds hin ⊢
  have hrem := rem_le_size z1
  split
  · exact ⟨fun e => by simp at e, fun _ => Or.inl hss⟩
  · split
    · have ha := span_rawTextAttempt z1 hst (by omega)
      have hd := rawTextAttempt_data z1
      generalize rawTextAttempt z1 = z2 at ha hd ⊢
      obtain ⟨a1, a2, a3, a4, a5⟩ := ha
      split
      · rename_i hgt
        exact ⟨fun _ => by rw [hd.1, hd.2, hds, ← a4] at hgt; exact hgt, fun e => by simp at e⟩
      · have hok2 : Ok z2 := ⟨a2, by rw [a5]; exact hst.2⟩
        have := rem_le_size z2
        exact good_inp (a3.trans hin) (good_mainLoop (z2.inp.size + 2) z2 hok2 a1 (by omega))
    · exact good_inp hin (good_mainLoop (z1.inp.size + 2) z1 hst (by omega) (by omega))

end NetVerif.Proofs.Lemmas.HtmlTokFuel
