import NetVerif.Model.NetIP
/-!
Mathematical reading of the byte-level `net.IP` operations of `Model/NetIP.lean`
(used by C52 and C53): `IP.Equal` is equality of normalised addresses (IPv4-mapped IPv6 = IPv4),
`IsLoopback` is 127.0.0.0/8 or ::1, and the masked comparison of `IPNet.Contains` is equality of
the first `ones` BITS.
-/
namespace NetVerif.Proofs.Lemmas.NetIP
open NetVerif.Model.NetIP

def IPWF (ip : List Nat) : Prop := ip.length = 4 ∨ ip.length = 16
def BytesWF (bs : List Nat) : Prop := ∀ b ∈ bs, b < 256

/-- Normal form of an address: IPv4-mapped IPv6 addresses are the IPv4 address. -/
def norm (ip : List Nat) : List Nat := match to4 ip with | some x => x | none => ip

theorem to4_len4 (ip : List Nat) (h : ip.length = 4) : to4 ip = some ip := by simp [to4, h]

theorem to4_len16 (ip : List Nat) (h : ip.length = 16) :
    to4 ip = if ip.take 12 = v4InV6Prefix then some (ip.drop 12) else none := by
  simp [to4, h]

theorem norm_length (ip : List Nat) (h : IPWF ip) : (norm ip).length = 4 ∨ (norm ip).length = 16 := by
  rcases h with h | h
  · left; rw [norm, to4_len4 ip h]; exact h
  · rw [norm, to4_len16 ip h]
    by_cases hm : ip.take 12 = v4InV6Prefix
    · left; simp [hm, h]
    · right; simp [hm, h]

theorem norm_len4 (ip : List Nat) (h : ip.length = 4) : norm ip = ip := by simp [norm, to4_len4 ip h]

theorem norm_len16 (ip : List Nat) (h : ip.length = 16) :
    norm ip = if ip.take 12 = v4InV6Prefix then ip.drop 12 else ip := by
  rw [norm, to4_len16 ip h]
  by_cases hm : ip.take 12 = v4InV6Prefix <;> simp [hm]

private theorem ipEqual_4_16 (a b : List Nat) (ha : a.length = 4) (hb : b.length = 16) :
    ipEqual a b = (b.take 12 == v4InV6Prefix && a == b.drop 12) := by
  simp [ipEqual, ha, hb]

private theorem ipEqual_16_4 (a b : List Nat) (ha : a.length = 16) (hb : b.length = 4) :
    ipEqual a b = (a.take 12 == v4InV6Prefix && a.drop 12 == b) := by
  simp [ipEqual, ha, hb]

private theorem ipEqual_same (a b : List Nat) (h : a.length = b.length) : ipEqual a b = (a == b) := by
  simp [ipEqual, h]

/-- `IP.Equal` = equality of normal forms. -/
theorem ipEqual_iff (a b : List Nat) (ha : IPWF a) (hb : IPWF b) :
    ipEqual a b = true ↔ norm a = norm b := by
  rcases ha with ha | ha <;> rcases hb with hb | hb
  · rw [ipEqual_same a b (by omega), norm_len4 a ha, norm_len4 b hb]; simp
  · rw [ipEqual_4_16 a b ha hb, norm_len4 a ha, norm_len16 b hb]
    by_cases hm : b.take 12 = v4InV6Prefix
    · simp [hm]
    · simp only [hm, if_false, Bool.and_eq_true, beq_iff_eq, false_and, false_iff]
      intro h; rw [← h] at hb; omega
  · rw [ipEqual_16_4 a b ha hb, norm_len4 b hb, norm_len16 a ha]
    by_cases hm : a.take 12 = v4InV6Prefix
    · simp [hm]
    · simp only [hm, if_false, Bool.and_eq_true, beq_iff_eq, false_and, false_iff]
      intro h; rw [h] at ha; omega
  · rw [ipEqual_same a b (by omega), norm_len16 a ha, norm_len16 b hb]
    simp only [beq_iff_eq]
    by_cases hma : a.take 12 = v4InV6Prefix <;> by_cases hmb : b.take 12 = v4InV6Prefix
    · simp only [hma, hmb, if_true]
      constructor
      · intro h; rw [h]
      · intro h
        rw [← List.take_append_drop 12 a, ← List.take_append_drop 12 b, hma, hmb, h]
    · simp only [hma, hmb, if_true, if_false]
      constructor
      · intro h; rw [h] at hma; exact absurd hma hmb
      · intro h
        have : (a.drop 12).length = b.length := by rw [h]
        simp at this; omega
    · simp only [hma, hmb, if_true, if_false]
      constructor
      · intro h; rw [h] at hma; exact absurd hmb hma
      · intro h
        have : a.length = (b.drop 12).length := by rw [h]
        simp at this; omega
    · simp only [hma, hmb, if_false]

/-- `IP.IsLoopback` = 127.0.0.0/8 (also as an IPv4-mapped address) or ::1. -/
theorem isLoopback_iff (ip : List Nat) (h : IPWF ip) :
    isLoopback ip = true ↔
      ((norm ip).length = 4 ∧ (norm ip).head? = some 127) ∨ ip = ipv6Loopback := by
  rcases h with h | h
  · have hne : ip ≠ ipv6Loopback := by intro e; rw [e] at h; simp [ipv6Loopback] at h
    simp [isLoopback, norm, to4_len4 ip h, h, hne]
  · rw [isLoopback, norm, to4_len16 ip h]
    by_cases hm : ip.take 12 = v4InV6Prefix
    · have hne : ip ≠ ipv6Loopback := by
        intro e; rw [e] at hm; revert hm; decide
      simp [hm, h, hne]
    · simp only [hm, if_false]
      have : ipEqual ip ipv6Loopback = (ip == ipv6Loopback) := by
        simp [ipEqual, h, ipv6Loopback]
      rw [this]
      simp [h]

/-! ### `IPNet.Contains`: the masked comparison is equality of the first `ones` bits -/

/-- The 8 bits of a byte, most significant first. -/
def byteBits (b : Nat) : List Bool :=
  [decide (b / 128 % 2 = 1), decide (b / 64 % 2 = 1), decide (b / 32 % 2 = 1), decide (b / 16 % 2 = 1),
   decide (b / 8 % 2 = 1), decide (b / 4 % 2 = 1), decide (b / 2 % 2 = 1), decide (b % 2 = 1)]

/-- The bits of an address, in network order. -/
def bitsOf : List Nat → List Bool
  | [] => []
  | b :: bs => byteBits b ++ bitsOf bs

/-- "the first `ones` bits of the two addresses agree". -/
def PrefixMatch (a b : List Nat) (ones : Nat) : Prop := (bitsOf a).take ones = (bitsOf b).take ones

private theorem and255 : ∀ n < 256, n &&& 255 = n := by decide +kernel

private theorem andMask : ∀ k < 8, ∀ n < 256, n &&& (255 - 255 / 2 ^ k) = n / 2 ^ (8 - k) * 2 ^ (8 - k) := by
  decide +kernel

private theorem bit_eq (x y : Nat) (h : x % 2 = 1 ↔ y % 2 = 1) : x % 2 = y % 2 := by omega

private theorem byteBits_inj (n i : Nat) (hn : n < 256) (hi : i < 256) : byteBits n = byteBits i ↔ n = i := by
  constructor
  · intro h
    simp only [byteBits, List.cons.injEq, and_true, decide_eq_decide] at h
    obtain ⟨h7, h6, h5, h4, h3, h2, h1, h0⟩ := h
    have e7 := bit_eq _ _ h7
    have e6 := bit_eq _ _ h6
    have e5 := bit_eq _ _ h5
    have e4 := bit_eq _ _ h4
    have e3 := bit_eq _ _ h3
    have e2 := bit_eq _ _ h2
    have e1 := bit_eq _ _ h1
    have e0 := bit_eq _ _ h0
    clear h7 h6 h5 h4 h3 h2 h1 h0
    omega
  · intro h; rw [h]

private theorem take_byteBits (k n i : Nat) (hk : k < 8) (hn : n < 256) (hi : i < 256) :
    (byteBits n).take k = (byteBits i).take k ↔ n / 2 ^ (8 - k) = i / 2 ^ (8 - k) := by
  have hk' : k = 0 ∨ k = 1 ∨ k = 2 ∨ k = 3 ∨ k = 4 ∨ k = 5 ∨ k = 6 ∨ k = 7 := by omega
  rcases hk' with rfl | rfl | rfl | rfl | rfl | rfl | rfl | rfl
  · simp; omega
  · simp only [byteBits, List.take_succ_cons, List.take_zero, List.cons.injEq, and_true, decide_eq_decide,
      Nat.reducePow, Nat.reduceSub]
    constructor
    · rintro h0
      have e0 := bit_eq _ _ h0
      clear h0
      omega
    · intro h
      exact by omega
  · simp only [byteBits, List.take_succ_cons, List.take_zero, List.cons.injEq, and_true, decide_eq_decide,
      Nat.reducePow, Nat.reduceSub]
    constructor
    · rintro ⟨h0, h1⟩
      have e0 := bit_eq _ _ h0
      have e1 := bit_eq _ _ h1
      clear h0 h1
      omega
    · intro h
      exact ⟨by omega, by omega⟩
  · simp only [byteBits, List.take_succ_cons, List.take_zero, List.cons.injEq, and_true, decide_eq_decide,
      Nat.reducePow, Nat.reduceSub]
    constructor
    · rintro ⟨h0, h1, h2⟩
      have e0 := bit_eq _ _ h0
      have e1 := bit_eq _ _ h1
      have e2 := bit_eq _ _ h2
      clear h0 h1 h2
      omega
    · intro h
      exact ⟨by omega, by omega, by omega⟩
  · simp only [byteBits, List.take_succ_cons, List.take_zero, List.cons.injEq, and_true, decide_eq_decide,
      Nat.reducePow, Nat.reduceSub]
    constructor
    · rintro ⟨h0, h1, h2, h3⟩
      have e0 := bit_eq _ _ h0
      have e1 := bit_eq _ _ h1
      have e2 := bit_eq _ _ h2
      have e3 := bit_eq _ _ h3
      clear h0 h1 h2 h3
      omega
    · intro h
      exact ⟨by omega, by omega, by omega, by omega⟩
  · simp only [byteBits, List.take_succ_cons, List.take_zero, List.cons.injEq, and_true, decide_eq_decide,
      Nat.reducePow, Nat.reduceSub]
    constructor
    · rintro ⟨h0, h1, h2, h3, h4⟩
      have e0 := bit_eq _ _ h0
      have e1 := bit_eq _ _ h1
      have e2 := bit_eq _ _ h2
      have e3 := bit_eq _ _ h3
      have e4 := bit_eq _ _ h4
      clear h0 h1 h2 h3 h4
      omega
    · intro h
      exact ⟨by omega, by omega, by omega, by omega, by omega⟩
  · simp only [byteBits, List.take_succ_cons, List.take_zero, List.cons.injEq, and_true, decide_eq_decide,
      Nat.reducePow, Nat.reduceSub]
    constructor
    · rintro ⟨h0, h1, h2, h3, h4, h5⟩
      have e0 := bit_eq _ _ h0
      have e1 := bit_eq _ _ h1
      have e2 := bit_eq _ _ h2
      have e3 := bit_eq _ _ h3
      have e4 := bit_eq _ _ h4
      have e5 := bit_eq _ _ h5
      clear h0 h1 h2 h3 h4 h5
      omega
    · intro h
      exact ⟨by omega, by omega, by omega, by omega, by omega, by omega⟩
  · simp only [byteBits, List.take_succ_cons, List.take_zero, List.cons.injEq, and_true, decide_eq_decide,
      Nat.reducePow, Nat.reduceSub]
    constructor
    · rintro ⟨h0, h1, h2, h3, h4, h5, h6⟩
      have e0 := bit_eq _ _ h0
      have e1 := bit_eq _ _ h1
      have e2 := bit_eq _ _ h2
      have e3 := bit_eq _ _ h3
      have e4 := bit_eq _ _ h4
      have e5 := bit_eq _ _ h5
      have e6 := bit_eq _ _ h6
      clear h0 h1 h2 h3 h4 h5 h6
      omega
    · intro h
      exact ⟨by omega, by omega, by omega, by omega, by omega, by omega, by omega⟩

private theorem byteBits_length (n : Nat) : (byteBits n).length = 8 := rfl

private theorem maskBytes_length (l n : Nat) : (maskBytes l n).length = l := by
  induction l generalizing n with
  | zero => rfl
  | succ l ih => unfold maskBytes; split <;> simp [ih]

/-- **Masked comparison = bit-prefix equality.** For equally long addresses and `ones ≤ 8·len`,
`nn[i] & m[i] == ip[i] & m[i]` for all `i` with `m = CIDRMask(ones, 8·len)` holds iff the first
`ones` bits agree. -/
theorem maskedEq_iff (nn ip : List Nat) (ones : Nat) (hl : nn.length = ip.length)
    (hn : BytesWF nn) (hi : BytesWF ip) :
    maskedEq nn (maskBytes nn.length ones) ip = true ↔ PrefixMatch nn ip ones := by
  unfold PrefixMatch
  induction nn generalizing ip ones with
  | nil =>
    cases ip with
    | nil => simp [maskedEq, bitsOf]
    | cons _ _ => simp at hl
  | cons n ns ih =>
    cases ip with
    | nil => simp at hl
    | cons i is =>
      have hn' : BytesWF ns := fun b hb => hn b (List.mem_cons_of_mem _ hb)
      have hi' : BytesWF is := fun b hb => hi b (List.mem_cons_of_mem _ hb)
      have hnb : n < 256 := hn n List.mem_cons_self
      have hib : i < 256 := hi i List.mem_cons_self
      have hl' : ns.length = is.length := by simpa using hl
      simp only [List.length_cons, maskBytes, bitsOf]
      by_cases h8 : ones ≥ 8
      · simp only [h8, if_true, maskedEq, Bool.and_eq_true, beq_iff_eq, and255 n hnb, and255 i hib,
          ih is (ones - 8) hl' hn' hi']
        have t1 : (byteBits n).take ones = byteBits n :=
          List.take_of_length_le (by rw [byteBits_length]; exact h8)
        have t2 : (byteBits i).take ones = byteBits i :=
          List.take_of_length_le (by rw [byteBits_length]; exact h8)
        rw [List.take_append, List.take_append, t1, t2, byteBits_length, byteBits_length]
        constructor
        · rintro ⟨rfl, h2⟩; rw [h2]
        · intro h
          have := List.append_inj h (by simp [byteBits_length])
          exact ⟨(byteBits_inj n i hnb hib).1 this.1, this.2⟩
      · have hk : ones < 8 := by omega
        have hz := (ih is 0 hl' hn' hi').2 (by simp)
        simp only [h8, if_false, maskedEq, Bool.and_eq_true, beq_iff_eq, hz, and_true,
          andMask ones hk n hnb, andMask ones hk i hib]
        rw [List.take_append, List.take_append, byteBits_length, byteBits_length,
          show ones - 8 = 0 by omega, List.take_zero, List.take_zero, List.append_nil, List.append_nil,
          take_byteBits ones n i hk hnb hib]
        have hpos : 0 < 2 ^ (8 - ones) := Nat.pos_of_ne_zero (by simp)
        constructor
        · intro h; exact Nat.eq_of_mul_eq_mul_right hpos h
        · intro h; rw [h]

theorem norm_bytes (ip : List Nat) (h : BytesWF ip) : BytesWF (norm ip) := by
  unfold norm to4
  split
  · rename_i x hx
    split at hx
    · cases hx; exact h
    · split at hx
      · cases hx; exact fun b hb => h b (List.mem_of_mem_drop hb)
      · cases hx
  · exact h

private theorem contains_unfold (nip : List Nat) (ones bits : Nat) (ip : List Nat) :
    contains nip ones bits ip =
      (let nm := networkNumberAndMask nip (maskBytes (bits / 8) ones)
       if (norm ip).length ≠ nm.1.length then false else maskedEq nm.1 nm.2 (norm ip)) := by
  unfold contains norm
  rfl

/-- An IPv4 network `a.b.c.d/ones`: contains exactly the addresses that are IPv4 (possibly written
as IPv4-mapped IPv6) and share the first `ones` bits. -/
theorem contains_v4 (nip ip : List Nat) (ones : Nat) (hn : nip.length = 4)
    (hnb : BytesWF nip) (hib : BytesWF ip) :
    contains nip ones 32 ip = true ↔ (norm ip).length = 4 ∧ PrefixMatch nip (norm ip) ones := by
  rw [contains_unfold]
  have hnm : networkNumberAndMask nip (maskBytes (32 / 8) ones) = (nip, maskBytes nip.length ones) := by
    simp [networkNumberAndMask, to4_len4 nip hn, maskBytes_length, hn]
  simp only [hnm, hn]
  by_cases hl : (norm ip).length = 4
  · have := maskedEq_iff nip (norm ip) ones (by omega) hnb (norm_bytes ip hib)
    rw [hn] at this
    simp [hl, this]
  · simp [hl]

/-- An IPv6 network that is not IPv4-mapped: contains exactly the 16-byte, non-IPv4-mapped
addresses sharing the first `ones` bits. -/
theorem contains_v6 (nip ip : List Nat) (ones : Nat) (hn : nip.length = 16)
    (hm : nip.take 12 ≠ v4InV6Prefix) (hnb : BytesWF nip) (hib : BytesWF ip) :
    contains nip ones 128 ip = true ↔ (norm ip).length = 16 ∧ PrefixMatch nip (norm ip) ones := by
  rw [contains_unfold]
  have hnm : networkNumberAndMask nip (maskBytes (128 / 8) ones) = (nip, maskBytes nip.length ones) := by
    simp [networkNumberAndMask, to4_len16 nip hn, hm, maskBytes_length, hn]
  simp only [hnm, hn]
  by_cases hl : (norm ip).length = 16
  · have := maskedEq_iff nip (norm ip) ones (by omega) hnb (norm_bytes ip hib)
    rw [hn] at this
    simp [hl, this]
  · simp [hl]

private theorem maskBytes_succ (l n : Nat) : maskBytes (l + 1) n =
    if n ≥ 8 then 255 :: maskBytes l (n - 8) else (255 - 255 / 2 ^ n) :: maskBytes l 0 := by
  rw [maskBytes]

private theorem maskBytes_drop (a b n : Nat) : (maskBytes (a + b) n).drop a = maskBytes b (n - 8 * a) := by
  induction a generalizing n with
  | zero => simp
  | succ a ih =>
    have : a + 1 + b = (a + b) + 1 := by omega
    rw [this, maskBytes_succ]
    split
    · rename_i h8
      simp only [List.drop_succ_cons]
      rw [ih, show n - 8 - 8 * a = n - 8 * (a + 1) by omega]
    · rename_i h8
      simp only [List.drop_succ_cons]
      rw [ih, show 0 - 8 * a = n - 8 * (a + 1) by omega]

/-- An IPv4-mapped IPv6 network `::ffff:a.b.c.d/ones`: it is the IPv4 network `a.b.c.d/(ones-96)`. -/
theorem contains_v4mapped (nip ip : List Nat) (ones : Nat) (hn : nip.length = 16)
    (hm : nip.take 12 = v4InV6Prefix) (hnb : BytesWF nip) (hib : BytesWF ip) :
    contains nip ones 128 ip = true ↔
      (norm ip).length = 4 ∧ PrefixMatch (nip.drop 12) (norm ip) (ones - 96) := by
  rw [contains_unfold]
  have hd : (nip.drop 12).length = 4 := by simp [hn]
  have hmd : (maskBytes 16 ones).drop 12 = maskBytes 4 (ones - 96) := maskBytes_drop 12 4 ones
  have hnm : networkNumberAndMask nip (maskBytes (128 / 8) ones) = (nip.drop 12, maskBytes (nip.drop 12).length (ones - 96)) := by
    simp [networkNumberAndMask, to4_len16 nip hn, hm, maskBytes_length, hn, hmd]
  simp only [hnm, hd]
  have hdb : BytesWF (nip.drop 12) := fun b hb => hnb b (List.mem_of_mem_drop hb)
  by_cases hl : (norm ip).length = 4
  · have := maskedEq_iff (nip.drop 12) (norm ip) (ones - 96) (by omega) hdb (norm_bytes ip hib)
    rw [hd] at this
    simp [hl, this]
  · simp [hl]

end NetVerif.Proofs.Lemmas.NetIP
