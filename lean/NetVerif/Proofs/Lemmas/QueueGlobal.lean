import NetVerif.Proofs.Lemmas.QueueInv
/-!
Global invariant of the queue (C29, layer 2) for every reachable configuration.
-/
namespace NetVerif.Proofs.QueueInv
open NetVerif.Model.ChanSem NetVerif.Proofs.GateInv

def qholders (gs : List QG) : Nat := holders (gs.map (·.g))

structure QInv (c : QConfig) : Prop where
  swf : SWf c.σ
  wf : ∀ qg ∈ c.gs, QWf c.sh qg
  /-- tokens(set) + tokens(unset) + holders = 1 -/
  tok : tokens c.σ + qholders c.gs = 1
  /-- FIFO refinement: what was accepted is what was delivered followed by what is queued -/
  fifo : c.sh.accepted = c.sh.delivered ++ c.sh.q
  /-- `queue.unlock` recomputes the condition: while the gate is free the token is in `set`
  iff the queue is closed or non-empty -/
  cond : qholders c.gs = 0 → ((c.σ .set).len = 1 ↔ condVal c.sh = true)

theorem holders_unique_mem {l : List GG} (h : holders l ≤ 1) {a b : GG} (ha : a ∈ l) (hb : b ∈ l)
    (hha : a.holding = true) (hhb : b.holding = true) : a = b := by
  obtain ⟨i, hi⟩ := List.mem_iff_getElem?.mp ha
  obtain ⟨j, hj⟩ := List.mem_iff_getElem?.mp hb
  have := holders_unique h hi hj hha hhb
  subst this
  rw [hi] at hj; exact Option.some.inj hj

theorem qstep_local {σ σ' : Store GCh} {sh sh' : QShared} {qg qg' : QG} {a : QAct}
    (hσ : SWf σ) (hw : QWf sh qg) (h : qg.step queue gate σ sh a = some (σ', sh', qg')) :
    QFacts σ sh qg σ' sh' qg' := by
  cases a with
  | call m v => exact qstep_call hσ hw h
  | gate a => exact qstep_gate hσ hw h
  | stmt => exact qstep_stmt hσ hw h

theorem qstep_cases {c c' : QConfig} {i : Nat} {a : QAct} (h : c.step queue gate i a = some c') :
    ∃ qg σ' sh' qg', c.gs[i]? = some qg ∧ qg.step queue gate c.σ c.sh a = some (σ', sh', qg') ∧
      c' = { σ := σ', sh := sh', gs := c.gs.set i qg' } := by
  simp only [QConfig.step] at h
  split at h
  · simp at h
  · rename_i qg hg
    split at h
    · simp at h
    · rename_i σ' sh' qg' hs
      simp only [Option.some.injEq] at h
      exact ⟨qg, σ', sh', qg', hg, hs, h.symm⟩

theorem qinv_step {c c' : QConfig} {i : Nat} {a : QAct} (hI : QInv c)
    (h : c.step queue gate i a = some c') : QInv c' := by
  obtain ⟨qg, σ', sh', qg', hg, hs, rfl⟩ := qstep_cases h
  have hmem : qg ∈ c.gs := List.mem_of_getElem? hg
  have F := qstep_local hI.swf (hI.wf qg hmem) hs
  have hgm : (c.gs.map (·.g))[i]? = some qg.g := by simp [hg]
  have hset := holders_set (c.gs.map (·.g)) i qg.g qg'.g hgm
  have hmapset : (c.gs.set i qg').map (·.g) = (c.gs.map (·.g)).set i qg'.g := by
    simp [List.map_set]
  have htok := hI.tok
  have hle : holders (c.gs.map (·.g)) ≤ 1 := by simp [qholders] at htok; omega
  constructor
  · exact F.swf
  · intro x hx
    rcases List.mem_or_eq_of_mem_set hx with hx | rfl
    · -- another goroutine: only the recorded unlock argument depends on the shared fields
      by_cases hsh : sh' = c.sh
      · simp only; rw [hsh]; exact hI.wf x hx
      · obtain ⟨hh, hidle, _, _⟩ := F.excl hsh
        obtain ⟨hxg, hxi, hxr⟩ := hI.wf x hx
        refine ⟨hxg, hxi, ?_⟩
        intro hne
        rcases hxr hne with h1 | h1 | ⟨hm, _, _⟩
        · exact Or.inl h1
        · exact Or.inr (Or.inl h1)
        · exfalso
          have hxh : x.g.holding = true := by
            rcases hxg with ⟨hc, _⟩ | ⟨_, _, hh⟩ | ⟨hh, _⟩
            · exact absurd hc hne
            · rcases hh with ⟨hm', _⟩ | ⟨hm', _⟩ | ⟨hm', _⟩ <;> (rw [hm] at hm'; cases hm')
            · exact hh
          have := holders_unique_mem hle (List.mem_map_of_mem hx) (List.mem_map_of_mem hmem) hxh hh
          rw [this] at hne
          exact hne hidle
    · exact F.wf
  · have := F.cons
    simp only [qholders, hmapset] at *
    omega
  · exact F.fifo hI.fifo
  · intro h0
    simp only [qholders, hmapset] at h0 ⊢
    simp only [qholders] at htok
    cases hh : qg.g.holding <;> cases hh' : qg'.g.holding
    · have hσ := F.frame (by rw [hh, hh'])
      by_cases hsh : sh' = c.sh
      · rw [hσ, hsh]
        apply hI.cond
        simp [hh, hh', b2n, qholders] at hset ⊢; omega
      · obtain ⟨hx, _⟩ := F.excl hsh
        simp [hh] at hx
    · simp [hh, hh', b2n] at hset; omega
    · obtain ⟨hsh, hs1, _⟩ := F.release hh hh'
      have h1 := holders_pos hgm hh
      simp only [tokens] at htok
      rw [hs1, hsh]
      cases hb : condVal c.sh <;> simp [b2n] <;> omega
    · have h1 := holders_pos hgm hh
      simp [hh, hh', b2n] at hset; omega

theorem qinv_init (n : Nat) : QInv (QConfig.init gate n) := by
  have hh : qholders (List.replicate n ({} : QG)) = 0 := by
    induction n with
    | zero => rfl
    | succ n ih => simp [List.replicate_succ, qholders, holders, b2n]
  constructor
  · simp [SWf, QConfig.init, gateStore, gate]
  · intro qg hqg
    simp [QConfig.init] at hqg
    rw [hqg.2]
    refine ⟨Or.inl ⟨rfl, rfl⟩, fun _ => Or.inl ⟨rfl, rfl, rfl⟩, fun h => absurd rfl h⟩
  · simp only [QConfig.init, hh]; simp [tokens, gateStore]
  · rfl
  · intro _; simp [QConfig.init, gateStore, condVal]

theorem queue_invariant {c : QConfig} (h : QReachable queue gate c) : QInv c := by
  induction h with
  | init n => exact qinv_init n
  | step _ hs ih => exact qinv_step ih hs

end NetVerif.Proofs.QueueInv
