import NetVerif.Model.Punycode
import Mathlib.Tactic.Ring
import Mathlib.Tactic.Linarith
/-! Helper lemmas for Proofs/C50. -/
namespace NetVerif.Proofs.Lemmas.Punycode
open NetVerif.Model.Punycode

theorem adaptLoop_done : ∀ (fuel d k : Nat), d < 456 * 35 ^ fuel → (adaptLoop fuel d k).1 ≤ 455
  | 0, d, k, h => by simp [adaptLoop] at *; omega
  | fuel + 1, d, k, h => by
    unfold adaptLoop
    split
    · apply adaptLoop_done fuel
      simp only [base, tmin]
      rw [Nat.pow_succ] at h
      omega
    · simp_all [base, tmin, tmax]

theorem decodeDigit_encDigit (d : Nat) (h : d < 36) : decodeDigit (encDigit d) = some d := by
  unfold decodeDigit encDigit
  repeat' split
  all_goals simp
  all_goals omega

theorem threshold_le (k bias : Nat) : threshold k bias ≤ 26 := by
  unfold threshold tmin tmax; split
  · omega
  · split <;> omega

theorem encodeVar_digits_ok (bias k q : Nat) :
    ∀ c ∈ encodeVar bias k q, ∃ d, d < 36 ∧ c = encDigit d ∧ encodeDigit d = some c := by
  fun_induction encodeVar bias k q with
  | case1 k q hlt =>
    intro c hc
    have := threshold_le k bias
    simp at hc
    refine ⟨q, by omega, hc, ?_⟩
    subst hc
    unfold encodeDigit encDigit; split <;> simp_all; omega
  | case2 k q hge ih =>
    intro c hc
    have hle := threshold_le k bias
    have hpos := threshold_pos k bias
    simp only [List.mem_cons] at hc
    rcases hc with hc | hc
    · have hm : (q - threshold k bias) % (base - threshold k bias) < base - threshold k bias :=
        Nat.mod_lt _ (by unfold base; omega)
      refine ⟨threshold k bias + (q - threshold k bias) % (base - threshold k bias), ?_, hc, ?_⟩
      · unfold base at hm ⊢; omega
      · subst hc
        unfold base at hm
        unfold encodeDigit encDigit base; split <;> simp_all; omega
    · exact ih c hc

theorem madd_some (a b c : Nat) (h : a + b * c ≤ maxInt32) : madd a b c = some (a + b * c) := by
  unfold madd; split
  · omega
  · rfl

theorem varint_roundtrip (bias k q i w : Nat) (rest : List Nat)
    (h : i + 35 * (q * w) ≤ maxInt32) (hw : 1 ≤ w) :
    decodeVar bias k i w (encodeVar bias k q ++ rest) = some (i + q * w, rest) := by
  fun_induction encodeVar bias k q generalizing i w with
  | case1 k q hlt =>
    have := threshold_le k bias
    simp only [List.singleton_append]
    unfold decodeVar
    rw [decodeDigit_encDigit q (by omega)]
    simp only
    rw [madd_some i q w (by omega)]
    simp [hlt]
  | case2 k q hge ih =>
    have hle := threshold_le k bias
    have hpos := threshold_pos k bias
    generalize ht : threshold k bias = t at *
    have hx : 0 < base - t := by unfold base; omega
    have hx35 : base - t ≤ 35 := by unfold base; omega
    generalize hxx : base - t = x at *
    have hm : (q - t) % x < x := Nat.mod_lt _ hx
    have hdm := Nat.div_add_mod (q - t) x
    generalize hq' : (q - t) / x = q' at *
    generalize hr : (q - t) % x = r at *
    have hq : q = t + r + x * q' := by omega
    have hd36 : t + r < 36 := by unfold base at hxx; omega
    simp only [List.cons_append]
    unfold decodeVar
    rw [decodeDigit_encDigit (t + r) hd36]
    simp only
    have h1 : (t + r) * w ≤ q * w := Nat.mul_le_mul_right w (by omega)
    have h2 : w ≤ q * w := by
      have : 1 * w ≤ q * w := Nat.mul_le_mul_right w (by omega)
      omega
    have h3 : w * x ≤ 35 * w := by rw [Nat.mul_comm]; exact Nat.mul_le_mul_right w hx35
    rw [madd_some i (t + r) w (by omega)]
    simp only [ht]
    rw [if_neg (by omega)]
    rw [hxx, madd_some 0 w x (by omega)]
    simp only
    have hqw : q * w = (t + r) * w + q' * (0 + w * x) := by rw [hq]; ring
    rw [ih (i + (t + r) * w) (0 + w * x)]
    · rw [hqw]; simp [Nat.add_assoc]
    · have : 35 * ((t + r) * w) ≥ (t + r) * w := by omega
      rw [hqw] at h
      omega
    · have : 1 * 1 ≤ w * x := Nat.mul_le_mul hw hx
      omega

theorem madd_inv (a b c v : Nat) (h : madd a b c = some v) : v = a + b * c := by
  unfold madd at h; split at h <;> simp_all

theorem encDigit_of_decodeDigit (c d : Nat) (h : decodeDigit c = some d) :
    encDigit d = lowerAscii c ∧ d < 36 := by
  unfold decodeDigit at h
  unfold encDigit lowerAscii
  repeat' split at h
  all_goals simp at h
  all_goals subst h
  all_goals (repeat' split)
  all_goals omega

theorem varint_canonical (bias k i w : Nat) (inp rest : List Nat) (i' : Nat)
    (h : decodeVar bias k i w inp = some (i', rest)) :
    ∃ q ds, inp = ds ++ rest ∧ i' = i + q * w ∧ ds.map lowerAscii = encodeVar bias k q := by
  induction inp generalizing k i w with
  | nil => simp [decodeVar] at h
  | cons c cs ih =>
    unfold decodeVar at h
    split at h
    · simp at h
    · rename_i digit hdig
      obtain ⟨hlow, hd36⟩ := encDigit_of_decodeDigit c digit hdig
      split at h
      · simp at h
      · rename_i i1 hm1
        have hi1 := madd_inv _ _ _ _ hm1
        split at h
        · rename_i hlt
          simp only [Option.some.injEq, Prod.mk.injEq] at h
          obtain ⟨rfl, rfl⟩ := h
          refine ⟨digit, [c], by simp, hi1, ?_⟩
          rw [encodeVar, if_pos hlt]
          simp [hlow]
        · rename_i hge
          split at h
          · simp at h
          · rename_i w' hm2
            have hw' := madd_inv _ _ _ _ hm2
            obtain ⟨q', ds', hcs, hi', hds⟩ := ih _ _ _ h
            have hle := threshold_le k bias
            have hpos := threshold_pos k bias
            generalize ht : threshold k bias = t at *
            have hx : 0 < base - t := by unfold base; omega
            generalize hxx : base - t = x at *
            have hdx : digit - t < x := by unfold base at hxx; omega
            refine ⟨digit + x * q', c :: ds', by simp [hcs], ?_, ?_⟩
            · rw [hi', hi1, hw']; ring
            · rw [encodeVar, ht, if_neg (by omega), hxx]
              have e1 : digit + x * q' - t = (digit - t) + x * q' := by omega
              rw [e1, Nat.add_mul_mod_self_left, Nat.mod_eq_of_lt hdx, Nat.add_mul_div_left _ _ hx,
                Nat.div_eq_of_lt hdx]
              simp only [List.map_cons, hds, Nat.zero_add]
              congr 2
              · rw [← hlow]; congr 1; omega

/-! ### basic code points -/

theorem encOuter_done (fuel : Nat) (s : List Nat) (b n : Nat) (st : EncSt) (h : ¬ st.h < s.length) :
    encOuter fuel s b n st = some st.out := by
  cases fuel <;> simp [encOuter, h]

theorem splitLast_append_hyphen (s : List Nat) : splitLast (s ++ [hyphen]) = some (s, []) := by
  induction s with
  | nil => simp [splitLast]
  | cons c cs ih => simp [splitLast, ih]

theorem goRune_ascii (r : Nat) (h : r < 128) : goRune r = r := by
  unfold goRune maxRune; split
  · omega
  · rfl

theorem map_goRune_ascii (s : List Nat) (hs : ∀ r ∈ s, r < 128) : s.map goRune = s := by
  induction s with
  | nil => rfl
  | cons c cs ih =>
    simp only [List.map_cons]
    rw [goRune_ascii c (hs c (by simp)), ih (fun r hr => hs r (by simp [hr]))]

theorem decode_encode_ascii (s : List Nat) (hs : ∀ r ∈ s, r < 128) :
    encode [] s = some (if s = [] then [] else s ++ [hyphen]) ∧
    decode (if s = [] then [] else s ++ [hyphen]) = some s := by
  have hf : s.filter (· < 128) = s := List.filter_eq_self.mpr (by simpa using hs)
  constructor
  · unfold encode
    simp only [hf]
    rw [encOuter_done _ _ _ _ _ (by simp)]
    cases s <;> simp
  · cases s with
    | nil => simp [decode, decodeRunes]
    | cons c cs =>
      simp only [reduceCtorEq, if_false]
      unfold decode decodeRunes
      rw [splitLast_append_hyphen]
      have hasc : isAscii (c :: cs) = true := by
        unfold isAscii; rw [List.all_eq_true]; intro r hr; simpa using hs r hr
      simp [hasc, map_goRune_ascii _ hs]

theorem encInner_prefix (n b : Nat) (rs : List Nat) (st st' : EncSt) (h : encInner n b rs st = some st') :
    st.out <+: st'.out := by
  induction rs generalizing st with
  | nil => simp [encInner] at h; subst h; exact List.prefix_refl _
  | cons r rs ih =>
    unfold encInner at h
    split at h
    · split at h
      · simp at h
      · have := ih _ h
        simpa using this
    · split at h
      · exact ih _ h
      · have := ih _ h
        exact List.IsPrefix.trans (List.prefix_append _ _) this

theorem encOuter_prefix (fuel : Nat) (s : List Nat) (b n : Nat) (st : EncSt) (a : List Nat)
    (h : encOuter fuel s b n st = some a) : st.out <+: a := by
  induction fuel generalizing n st with
  | zero =>
    unfold encOuter at h
    split at h
    · simp at h
    · simp at h; subst h; exact List.prefix_refl _
  | succ fuel ih =>
    unfold encOuter at h
    split at h
    · simp only at h
      split at h
      · simp at h
      · split at h
        · simp at h
        · rename_i d _ st' hin
          have h1 := encInner_prefix _ _ _ _ _ hin
          have h2 := ih _ _ h
          exact List.IsPrefix.trans h1 h2
    · simp at h; subst h; exact List.prefix_refl _

theorem encode_basic_prefix (pfx s a : List Nat) (h : encode pfx s = some a) :
    (pfx ++ s.filter (· < 128) ++ (if (s.filter (· < 128)).length > 0 then [hyphen] else [])) <+: a := by
  unfold encode at h
  exact encOuter_prefix _ _ _ _ _ _ h

/-! ### A-label branch -/

theorem firstLoop_err (ls : List (List Nat)) : (firstLoop true ls).2 = true := by
  induction ls with
  | nil => rfl
  | cons l ls ih => simp [firstLoop, ih]

theorem secondLoop_err (u16 : Bool) (ls : List (List Nat)) : (secondLoop u16 true ls).2 = true := by
  induction ls with
  | nil => rfl
  | cons l ls ih =>
    unfold secondLoop
    split <;> simp [ih]

theorem alabelStep_bad (l : List Nat) (h : badALabel l = true) : (alabelStep l).2 = true := by
  unfold badALabel undecodableALabel asciiOnlyALabel hasAce at h
  unfold alabelStep
  cases hp : acePrefix.isPrefixOf l with
  | false => simp [hp] at h
  | true =>
    simp only [hp, Bool.true_and, if_true] at h ⊢
    cases hd : decode (l.drop 4) with
    | none => rfl
    | some u => simpa [hd] using h

theorem firstLoop_bad (err : Bool) (ls : List (List Nat)) (h : ls.any badALabel = true) :
    (firstLoop err ls).2 = true := by
  induction ls generalizing err with
  | nil => simp at h
  | cons l ls ih =>
    simp only [List.any_cons, Bool.or_eq_true] at h
    simp only [firstLoop]
    rcases h with h | h
    · rw [alabelStep_bad l h]
      simp [firstLoop_err]
    · exact ih _ h

theorem process_err_of_first (u16 toASCII : Bool) (s : List Nat)
    (h : (firstLoop false (splitDots s)).2 = true) : (processPunycode u16 toASCII s).2 = true := by
  unfold processPunycode
  generalize firstLoop false (splitDots s) = r at h
  obtain ⟨ls, err⟩ := r
  simp only at h
  subst h
  cases toASCII
  · rfl
  · simp [secondLoop_err]

theorem alabel_holds (u16 toASCII : Bool) (s : List Nat)
    (h : (splitDots s).any badALabel = true) : (processPunycode u16 toASCII s).2 = true :=
  process_err_of_first _ _ _ (firstLoop_bad _ _ h)

end NetVerif.Proofs.Lemmas.Punycode
