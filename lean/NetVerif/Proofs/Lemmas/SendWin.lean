import NetVerif.Model.SendWin
/-! Table lemmas and the monitor/ledger relation for C08/C09. -/
namespace NetVerif.Proofs.SendWin
open NetVerif.Model.SendWin NetVerif.Model.Flow

@[simp] theorem tget_nil (sid : Nat) : tget [] sid = none := rfl

theorem tget_cons (k : Nat) (v : Int) (t : Tbl) (sid : Nat) :
    tget ((k, v) :: t) sid = if k = sid then some v else tget t sid := rfl

theorem tget_tset (t : Tbl) (k : Nat) (x : Int) (j : Nat) :
    tget (tset t k x) j = if k = j then (tget t j).map (fun _ => x) else tget t j := by
  induction t with
  | nil => simp [tset]
  | cons p t ih =>
    obtain ⟨a, v⟩ := p
    by_cases h1 : a = k
    · subst h1
      by_cases h2 : a = j <;> simp [tset, tget_cons, h2]
    · by_cases h2 : a = j
      · subst h2
        have : ¬ k = a := fun h => h1 h.symm
        simp [tset, tget_cons, h1, this]
      · simp [tset, tget_cons, h1, h2, ih]

theorem tget_tdel (t : Tbl) (k j : Nat) :
    tget (tdel t k) j = if k = j then none else tget t j := by
  induction t with
  | nil => simp [tdel]
  | cons p t ih =>
    obtain ⟨a, v⟩ := p
    by_cases h1 : a = k
    · subst h1
      by_cases h2 : a = j
      · subst h2; simpa [tdel] using ih
      · simp [tdel, tget_cons, h2, ih]
    · by_cases h2 : a = j
      · subst h2
        have : ¬ k = a := fun h => h1 h.symm
        simp [tdel, tget_cons, h1, this]
      · simp [tdel, tget_cons, h1, h2, ih]

theorem tget_taddAll (t : Tbl) (d : Int) (j : Nat) :
    tget (taddAll t d) j = (tget t j).map (· + d) := by
  induction t with
  | nil => simp [taddAll]
  | cons p t ih =>
    obtain ⟨a, v⟩ := p
    by_cases h : a = j <;> simp [taddAll, tget_cons, h, ih]

/-! ### monitor state vs specification ledger -/

/-- window = credit − sent, pointwise on open streams -/
def RelS : Option Int → Option Int → Option Int → Prop
  | none, none, none => True
  | some w, some c, some s => w = c - s
  | _, _, _ => False

structure Rel (m : Mon) (L : Ledger) : Prop where
  conn : m.connWin = L.connCredit - L.connSent
  iw : m.initWin = L.initWin
  mf : m.maxFrame = L.maxFrame
  dead : m.dead = L.dead
  str : ∀ sid, RelS (tget m.win sid) (tget L.credit sid) (tget L.sent sid)

theorem rel_init : Rel Mon.init Ledger.init :=
  ⟨by decide, rfl, rfl, rfl, fun _ => trivial⟩

theorem relS_cases {w c s : Option Int} (h : RelS w c s) :
    (w = none ∧ c = none ∧ s = none) ∨ ∃ w' c' s', w = some w' ∧ c = some c' ∧ s = some s' ∧ w' = c' - s' := by
  cases w <;> cases c <;> cases s <;> simp_all [RelS]

theorem rel_settings {m : Mon} {L : Ledger} (h : Rel m L) (mfs iw : Option Int) :
    Rel (m.settings mfs iw) (L.settings mfs iw) := by
  obtain ⟨h1, h2, h3, h4, h5⟩ := h
  have key : ∀ (m1 : Mon) (L1 : Ledger), Rel m1 L1 →
      Rel (match iw with
            | none => m1
            | some v => if validIw v then { m1 with initWin := v, win := taddAll m1.win (v - m1.initWin) }
                        else { m1 with dead := true })
          (match iw with
            | none => L1
            | some v => if validIw v then { L1 with initWin := v, credit := taddAll L1.credit (v - L1.initWin) }
                        else { L1 with dead := true }) := by
    intro m1 L1 ⟨g1, g2, g3, g4, g5⟩
    cases iw with
    | none => exact ⟨g1, g2, g3, g4, g5⟩
    | some v =>
      by_cases hv : validIw v = true
      · simp only [hv, if_true]
        refine ⟨g1, rfl, g3, g4, ?_⟩
        intro sid
        have := g5 sid
        simp only [tget_taddAll, g2]
        rcases relS_cases this with ⟨a, b, c⟩ | ⟨w, c, s, a, b, d, e⟩
        · simp [a, b, c, RelS]
        · simp [a, b, d, RelS]; omega
      · simp only [hv]
        exact ⟨g1, g2, g3, rfl, g5⟩
  unfold Mon.settings Ledger.settings
  cases mfs with
  | none => exact key m L ⟨h1, h2, h3, h4, h5⟩
  | some v =>
    by_cases hv : validMfs v = true
    · simp only [hv, if_true]
      exact key _ _ ⟨h1, h2, rfl, h4, h5⟩
    · simp only [hv]
      exact ⟨h1, h2, h3, rfl, h5⟩

/-- One monitor step: if the monitor accepts the event, the property's demand on that event holds in
the ledger, and the relation is kept. -/
theorem step_sound {m m' : Mon} {L : Ledger} {e : Ev} (h : Rel m L) (hs : m.step e = .ok m') :
    L.Sat e ∧ Rel m' (L.step e) := by
  obtain ⟨h1, h2, h3, h4, h5⟩ := h
  cases e with
  | settings mfs iw =>
    simp only [Mon.step, Except.ok.injEq] at hs
    subst hs
    refine ⟨trivial, ?_⟩
    simp only [Ledger.step]
    by_cases hd : m.dead = true
    · have hL : L.dead = true := by rw [← h4]; exact hd
      simp only [hd, hL, if_true]; exact ⟨h1, h2, h3, h4, h5⟩
    · have hL : ¬ L.dead = true := by rw [← h4]; exact hd
      simp only [hd, hL]; exact rel_settings ⟨h1, h2, h3, h4, h5⟩ mfs iw
  | wu sid inc =>
    refine ⟨trivial, ?_⟩
    simp only [Mon.step] at hs
    simp only [Ledger.step]
    by_cases hd : m.dead = true ∨ inc < 0
    · have hL : L.dead = true ∨ inc < 0 := by rw [← h4]; exact hd
      simp only [hd, hL, if_true, Except.ok.injEq] at hs ⊢
      subst hs; exact ⟨h1, h2, h3, h4, h5⟩
    · have hL : ¬ (L.dead = true ∨ inc < 0) := by rw [← h4]; exact hd
      simp only [hd, hL, if_false] at hs ⊢
      by_cases h0 : sid = 0
      · simp only [h0, if_true, Except.ok.injEq] at hs ⊢
        subst hs
        exact ⟨by simp only [h1]; omega, h2, h3, h4, h5⟩
      · simp only [h0, if_false] at hs ⊢
        rcases relS_cases (h5 sid) with ⟨a, b, c⟩ | ⟨w, c, s0, a, b, d, e⟩
        · simp only [a, b, Except.ok.injEq] at hs ⊢
          subst hs; exact ⟨h1, h2, h3, h4, h5⟩
        · simp only [a, b, Except.ok.injEq] at hs ⊢
          subst hs
          refine ⟨h1, h2, h3, h4, ?_⟩
          intro j
          simp only [tget_tset]
          by_cases hj : sid = j
          · subst hj; simp [a, b, d, RelS]; omega
          · simp only [hj, if_false]; exact h5 j
  | sopen sid =>
    simp only [Mon.step] at hs
    simp only [Ledger.step, Ledger.Sat]
    by_cases hd : m.dead = true
    · have hL : L.dead = true := by rw [← h4]; exact hd
      simp only [hd, hL, if_true, Except.ok.injEq] at hs ⊢
      subst hs
      exact ⟨by simp, h1, h2, h3, h4, h5⟩
    · have hL : ¬ L.dead = true := by rw [← h4]; exact hd
      simp only [hd, hL, if_false, Bool.false_eq_true] at hs ⊢
      rcases relS_cases (h5 sid) with ⟨a, b, c⟩ | ⟨w, c, s0, a, b, d, e⟩
      · simp only [a, Except.ok.injEq] at hs
        subst hs
        refine ⟨fun _ => b, h1, h2, h3, by simp, ?_⟩
        intro j
        simp only [tget_cons]
        by_cases hj : sid = j
        · simp [hj, RelS, h2]
        · simp only [hj, if_false]; exact h5 j
      · simp [a] at hs
  | sclose sid =>
    simp only [Mon.step, Except.ok.injEq] at hs
    subst hs
    refine ⟨trivial, h1, h2, h3, h4, ?_⟩
    intro j
    simp only [Ledger.step, tget_tdel]
    by_cases hj : sid = j
    · simp [hj, RelS]
    · simp only [hj, if_false]; exact h5 j
  | data sid len fin =>
    simp only [Mon.step] at hs
    rcases relS_cases (h5 sid) with ⟨a, b, c⟩ | ⟨w, c, s0, a, b, d, e⟩
    · simp [a] at hs
    · simp only [a] at hs
      by_cases g1 : (len : Int) > m.maxFrame
      · rw [if_pos g1] at hs; cases hs
      · by_cases g2 : 0 < len ∧ (len : Int) > w
        · rw [if_neg g1, if_pos g2] at hs; cases hs
        · by_cases g3 : 0 < len ∧ (len : Int) > m.connWin
          · rw [if_neg g1, if_neg g2, if_pos g3] at hs; cases hs
          · rw [if_neg g1, if_neg g2, if_neg g3] at hs
            simp only [Except.ok.injEq] at hs
            subst hs
            constructor
            · simp only [Ledger.Sat]
              refine ⟨by omega, c, s0, b, d, ?_⟩
              intro hl
              have hl' : 0 < len := hl
              constructor <;> omega
            · simp only [Ledger.step]
              by_cases hf : fin = true
              · simp only [hf, if_true]
                refine ⟨by simp only [h1]; omega, h2, h3, h4, ?_⟩
                intro j
                simp only [tget_tdel]
                by_cases hj : sid = j
                · simp [hj, RelS]
                · simp only [hj, if_false]; exact h5 j
              · have hf' : fin = false := by cases fin <;> simp_all
                subst hf'
                simp only [d, Bool.false_eq_true, if_false]
                refine ⟨by simp only [h1]; omega, h2, h3, h4, ?_⟩
                intro j
                simp only [tget_tset]
                by_cases hj : sid = j
                · subst hj; simp [a, b, d, RelS]; omega
                · simp only [hj, if_false]; exact h5 j
  | stop =>
    simp only [Mon.step, Except.ok.injEq] at hs
    subst hs
    exact ⟨trivial, h1, h2, h3, rfl, h5⟩

theorem run_sound : ∀ (tr : List Ev) {m m' : Mon} {L : Ledger}, Rel m L → m.run tr = .ok m' → TraceOK L tr
  | [], _, _, _, _, _ => trivial
  | e :: t, m, m', L, h, hr => by
    simp only [Mon.run] at hr
    cases hs : m.step e with
    | error x => simp [hs] at hr
    | ok m1 =>
      simp only [hs] at hr
      have := step_sound h hs
      exact ⟨this.1, run_sound t this.2 hr⟩

end NetVerif.Proofs.SendWin
