import NetVerif.Model.Bpf
/-!
Arithmetic reading of the opcode masks of bpf/constants.go (helpers for C48/C49):
`x &&& mask` for a contiguous mask is a div/mod expression, so that `omega`
can reason about opcode fields.
-/
namespace NetVerif.Proofs.Lemmas.Bpf
open NetVerif.Model.Bpf

theorem and_shifted_mask (x j k : Nat) : x &&& ((2^j - 1) * 2^k) = x / 2^k % 2^j * 2^k := by
  have h1 : (x &&& ((2^j - 1) * 2^k)) % 2^k = 0 := by
    rw [Nat.and_mod_two_pow, Nat.mul_mod_left, Nat.and_zero]
  have h2 : (x &&& ((2^j - 1) * 2^k)) / 2^k = x / 2^k % 2^j := by
    rw [Nat.and_div_two_pow, Nat.mul_div_cancel _ (Nat.two_pow_pos k), Nat.and_two_pow_sub_one_eq_mod]
  have := Nat.div_add_mod (x &&& ((2^j - 1) * 2^k)) (2^k)
  rw [h1, h2] at this
  rw [← this]; simp [Nat.mul_comm]

theorem and_maskCls (op : Nat) : op &&& opMaskCls = op % 8 := by
  simpa using and_shifted_mask op 3 0
theorem and_maskLoadDest (op : Nat) : op &&& opMaskLoadDest = op % 2 := by
  simpa using and_shifted_mask op 1 0
theorem and_maskLoadWidth (op : Nat) : op &&& opMaskLoadWidth = op / 8 % 4 * 8 := and_shifted_mask op 2 3
theorem and_maskLoadMode (op : Nat) : op &&& opMaskLoadMode = op / 32 % 8 * 32 := and_shifted_mask op 3 5
theorem and_maskOperand (op : Nat) : op &&& opMaskOperand = op / 8 % 2 * 8 := and_shifted_mask op 1 3
theorem and_maskOperator (op : Nat) : op &&& opMaskOperator = op / 16 % 16 * 16 := and_shifted_mask op 4 4

/-- `a ||| b = a + b` when the bits are disjoint (`a` below `2^k`, `b` a multiple of `2^k`). -/
theorem or_eq_add_of_disjoint (a b k : Nat) (ha : a < 2^k) (hb : b % 2^k = 0) : a ||| b = a + b := by
  obtain ⟨q, rfl⟩ : ∃ q, b = 2^k * q := ⟨b / 2^k, by have := Nat.div_add_mod b (2^k); omega⟩
  rw [Nat.or_comm, Nat.add_comm]
  exact (Nat.two_pow_add_eq_or_of_lt ha q).symm

end NetVerif.Proofs.Lemmas.Bpf
