import NetVerif.Model.HuffmanTable
import NetVerif.Proofs.Lemmas.HuffmanAcc
/-!
The byte-stride decoder of `huffmanDecode` equals the bit-level decoder.

* `stride t p`: what walking the bits `p` from tree node `t` meets first (dead end, a leaf after
  `k` bits, or an inner node after all of `p`); `decodeAux_stride` says what `decodeAux` does over `p`.
* `checkNode`: slot by slot, the lookup table built by `rootTable` agrees with `stride` over the
  8 bits of the slot index (kernel-evaluated on the regenerated tables: `rootTable_ok`).
* `Inv`: the simulation invariant between the Go variables (`n`, `cur`, `cbits`, `sbits`, `buf`) and
  the bit-level state (tree node, bits since the last symbol, output) plus the `cbits` bits of
  look-ahead `W` not yet walked.
-/
namespace NetVerif.Proofs.Lemmas.HuffmanStride
open NetVerif.Model.Huffman
open NetVerif.Proofs.Lemmas.Huffman
open NetVerif.Proofs.Lemmas.HuffmanAcc
open NetVerif

inductive Stride where
  | dead
  | leaf (sym k : Nat)
  | inner (t : Trie)

def bump : Stride → Stride
  | .leaf s k => .leaf s (k + 1)
  | r => r

/-- Mirrors the case analysis of `decodeAux` on `cur.child b`. -/
def stride : Trie → List Bool → Stride
  | t, [] => .inner t
  | t, b :: bs =>
    match t.child b with
    | .empty => .dead
    | .leaf s => .leaf s 1
    | .node z o => bump (stride (.node z o) bs)

theorem stride_leaf_bounds : ∀ (p : List Bool) (t : Trie) (s k : Nat), stride t p = .leaf s k →
    1 ≤ k ∧ k ≤ p.length := by
  intro p
  induction p with
  | nil => intro t s k h; simp [stride] at h
  | cons b p ih =>
    intro t s k h
    simp only [stride] at h
    split at h
    · simp at h
    · simp only [Stride.leaf.injEq] at h; simp [← h.2]
    · rename_i z o _
      cases hs : stride (.node z o) p with
      | dead => rw [hs] at h; simp [bump] at h
      | inner t' => rw [hs] at h; simp [bump] at h
      | leaf s' k' =>
        rw [hs] at h
        simp only [bump, Stride.leaf.injEq] at h
        have := ih _ _ _ hs
        simp only [List.length_cons]
        omega

theorem stride_inner_isNode : ∀ (p : List Bool) (t t' : Trie), t.isNode = true → stride t p = .inner t' →
    t'.isNode = true := by
  intro p
  induction p with
  | nil => intro t t' ht h; simp only [stride, Stride.inner.injEq] at h; rw [← h]; exact ht
  | cons b p ih =>
    intro t t' _ h
    simp only [stride] at h
    split at h
    · simp at h
    · simp at h
    · rename_i z o _
      cases hs : stride (.node z o) p with
      | dead => rw [hs] at h; simp [bump] at h
      | leaf s' k' => rw [hs] at h; simp [bump] at h
      | inner t'' =>
        rw [hs] at h
        simp only [bump, Stride.inner.injEq] at h
        rw [← h]
        exact ih _ _ rfl hs

/-- What the bit-level decoder does over the bits `p`, read off `stride`. -/
theorem decodeAux_stride (root : Trie) (m : Nat) (rest : List Bool) :
    ∀ (p : List Bool) (t : Trie) (pend : List Bool) (acc : List Nat),
      match stride t p with
      | .dead => decodeAux root m t pend acc (p ++ rest) = .error .invalid
      | .leaf s k => decodeAux root m t pend acc (p ++ rest) =
          (if m ≠ 0 ∧ acc.length = m then .error .strLen
           else decodeAux root m root [] (s :: acc) (p.drop k ++ rest))
      | .inner t' => decodeAux root m t pend acc (p ++ rest) =
          decodeAux root m t' (p.reverse ++ pend) acc rest := by
  intro p
  induction p with
  | nil => intro t pend acc; simp [stride]
  | cons b p ih =>
    intro t pend acc
    simp only [stride, List.cons_append, decodeAux]
    cases hc : t.child b with
    | empty => simp
    | leaf s => simp
    | node z o =>
      simp only
      have := ih (.node z o) (b :: pend) acc
      cases hs : stride (.node z o) p with
      | dead => rw [hs] at this; simpa [bump] using this
      | leaf s k => rw [hs] at this; simpa [bump] using this
      | inner t' => rw [hs] at this; simpa [bump] using this

/-- `stride` over a concatenation. -/
theorem stride_append : ∀ (p q : List Bool) (t : Trie),
    stride t (p ++ q) =
      match stride t p with
      | .dead => .dead
      | .leaf s k => .leaf s k
      | .inner t' =>
        match stride t' q with
        | .leaf s k => .leaf s (k + p.length)
        | r => r := by
  intro p
  induction p with
  | nil => intro q t; simp only [List.nil_append, stride, List.length_nil, Nat.add_zero]; cases stride t q <;> rfl
  | cons b p ih =>
    intro q t
    simp only [List.cons_append, stride]
    cases hc : t.child b with
    | empty => rfl
    | leaf s => rfl
    | node z o =>
      simp only
      rw [ih q (.node z o)]
      cases hs : stride (.node z o) p with
      | dead => rfl
      | leaf s k => rfl
      | inner t' =>
        simp only [bump]
        cases stride t' q with
        | dead => rfl
        | leaf s k => simp only [List.length_cons, Stride.leaf.injEq, true_and]; omega
        | inner t'' => rfl

/-! ### No dead end behind a zero bit -/

/-- Every zero-child in the tree is non-empty (dead ends are reached by one-bits only: EOS). -/
def checkNZ : Trie → Bool
  | .node z o => (z != .empty) && checkNZ z && checkNZ o
  | _ => true

theorem checkNZ_child (t : Trie) (b : Bool) (h : checkNZ t = true) : checkNZ (t.child b) = true := by
  cases t with
  | empty => rfl
  | leaf s => rfl
  | node z o =>
    simp only [checkNZ, Bool.and_eq_true] at h
    cases b <;> simp [Gen.Huffman.Trie.child, h.1.2, h.2]

theorem stride_inner_NZ : ∀ (p : List Bool) (t t' : Trie), checkNZ t = true → stride t p = .inner t' →
    checkNZ t' = true := by
  intro p
  induction p with
  | nil => intro t t' ht h; simp only [stride, Stride.inner.injEq] at h; rw [← h]; exact ht
  | cons b p ih =>
    intro t t' ht h
    simp only [stride] at h
    have hcn := checkNZ_child t b ht
    split at h
    · simp at h
    · simp at h
    · rename_i z o heq
      rw [heq] at hcn
      cases hs : stride (.node z o) p with
      | dead => rw [hs] at h; simp [bump] at h
      | leaf s' k' => rw [hs] at h; simp [bump] at h
      | inner t'' =>
        rw [hs] at h
        simp only [bump, Stride.inner.injEq] at h
        rw [← h]
        exact ih _ _ hcn hs

/-- Zero bits alone never run into a dead end. -/
theorem stride_zeros_not_dead : ∀ (j : Nat) (t : Trie), t.isNode = true → checkNZ t = true →
    stride t (List.replicate j false) ≠ .dead := by
  intro j
  induction j with
  | zero => intro t _ _ h; simp [stride] at h
  | succ j ih =>
    intro t ht hnz h
    cases t with
    | empty => simp [Gen.Huffman.Trie.isNode] at ht
    | leaf s => simp [Gen.Huffman.Trie.isNode] at ht
    | node z o =>
      simp only [List.replicate_succ, stride, Gen.Huffman.Trie.child, Bool.false_eq_true, ↓reduceIte] at h
      simp only [checkNZ, Bool.and_eq_true, bne_iff_ne, ne_eq] at hnz
      cases z with
      | empty => exact hnz.1.1 rfl
      | leaf s => simp at h
      | node z' o' =>
        simp only at h
        have := ih (.node z' o') rfl hnz.1.2
        cases hs : stride (.node z' o') (List.replicate j false) with
        | dead => exact this hs
        | leaf s k => rw [hs] at h; simp [bump] at h
        | inner t' => rw [hs] at h; simp [bump] at h

/-! ### The built table against the tree -/

/-- Node `id` of the table agrees, slot by slot, with 8-bit strides from tree node `t`
(`f` bounds the depth of internal nodes below). -/
def checkNode (tbl : Nat) : Nat → Nat → Trie → Bool
  | 0, _, _ => false
  | f + 1, id, t => (List.range 256).all fun idx =>
      match stride t (natToBits 8 idx), childAt tbl id idx with
      | .dead, .nil => true
      | .leaf s k, .leaf s' k' => s == s' && k == k'
      | .inner t', .inner id' => checkNode tbl f id' t'
      | _, _ => false

/-- **Table obligation** (kernel evaluation of the transcription of `buildRootHuffmanNode` on the
regenerated code tables): the lookup tree is exactly the 8-bit-stride view of the binary code tree;
the build never followed a leaf pointer; dead ends of the code tree are reached by one-bits only. -/
def checkRoot : Nat → Bool
  | 0 => false
  | n + 1 => checkNode (n + 1) 5 0 trie

theorem checkRoot_ok : checkRoot rootTable.tbl = true := by decide +kernel

theorem rootTable_ok :
    checkNode rootTable.tbl 5 0 trie = true ∧ rootTable.ok = true ∧ checkNZ trie = true ∧
      trie.isNode = true := by
  refine ⟨?_, by decide +kernel, by decide +kernel, by decide +kernel⟩
  have := checkRoot_ok
  unfold checkRoot at this
  split at this
  · simp at this
  · rename_i n heq; rw [heq]; exact this

theorem checkNode_slot (tbl f id : Nat) (t : Trie) (h : checkNode tbl f id t = true) (idx : Nat) (hi : idx < 256) :
    match stride t (natToBits 8 idx), childAt tbl id idx with
    | .dead, .nil => True
    | .leaf s k, .leaf s' k' => s = s' ∧ k = k'
    | .inner t', .inner id' => f ≥ 1 ∧ checkNode tbl (f - 1) id' t' = true
    | _, _ => False := by
  cases f with
  | zero => simp [checkNode] at h
  | succ f =>
    simp only [checkNode, List.all_eq_true] at h
    have := h idx (List.mem_range.mpr hi)
    revert this
    cases stride t (natToBits 8 idx) <;> cases childAt tbl id idx <;> simp

/-! ### Window arithmetic -/

theorem natToBits_mod : ∀ (k a r : Nat), natToBits k (a * 2 ^ k + r) = natToBits k r := by
  intro k
  induction k with
  | zero => intro a r; rfl
  | succ k ih =>
    intro a r
    simp only [natToBits]
    have hp : 0 < 2 ^ k := Nat.two_pow_pos k
    have e : a * 2 ^ (k + 1) + r = r + (a * 2) * 2 ^ k := by
      rw [Nat.pow_succ, Nat.add_comm, Nat.mul_assoc, Nat.mul_comm (2 ^ k) 2]
    congr 1
    · rw [e, Nat.add_mul_div_right _ _ hp, Nat.add_mul_mod_self_right]
    · rw [e, Nat.add_comm]; exact ih (a * 2) r

theorem natToBits_bitsToNat : ∀ (l : List Bool), natToBits l.length (bitsToNat l) = l := by
  intro l
  induction l with
  | nil => rfl
  | cons b l ih =>
    simp only [List.length_cons, natToBits, bitsToNat]
    have hlt := bitsToNat_lt l
    have hp : 0 < 2 ^ l.length := Nat.two_pow_pos _
    congr 1
    · cases b
      · simp [Nat.div_eq_of_lt hlt]
      · simp only [↓reduceIte]
        rw [Nat.add_comm, show bitsToNat l + 2 ^ l.length = bitsToNat l + 1 * 2 ^ l.length by omega,
          Nat.add_mul_div_right _ _ hp, Nat.div_eq_of_lt hlt]
        rfl
    · cases b
      · simpa using ih
      · simp only [↓reduceIte]
        have := natToBits_mod l.length 1 (bitsToNat l)
        rw [Nat.one_mul] at this
        rw [this, ih]

theorem bitsToNat_zeros (k : Nat) : bitsToNat (List.replicate k false) = 0 := by
  induction k with
  | zero => rfl
  | succ k ih => simp [List.replicate_succ, bitsToNat, ih]

theorem bitsToNat_all_ones (W : List Bool) : bitsToNat W = 2 ^ W.length - 1 ↔ W.all id = true := by
  induction W with
  | nil => simp [bitsToNat]
  | cons b W ih =>
    have hlt := bitsToNat_lt W
    have hp : 0 < 2 ^ W.length := Nat.two_pow_pos _
    simp only [bitsToNat, List.length_cons, Nat.pow_succ, List.all_cons, id, Bool.and_eq_true]
    cases b
    · simp; omega
    · simp only [↓reduceIte, true_and]
      rw [← ih]; omega

/-- `cur = cur<<8 | uint(b)` appends the bits of `b` to the look-ahead window. -/
theorem window_push (cur c b : Nat) (W : List Bool) (hcur : cur < 2 ^ 64) (hc : c < 8) (hb : b < 256)
    (hl : W.length = c) (hw : cur % 2 ^ c = bitsToNat W) :
    (((cur <<< 8) % 2 ^ 64) ||| b) < 2 ^ 64 ∧
    (((cur <<< 8) % 2 ^ 64) ||| b) % 2 ^ (c + 8) = bitsToNat (W ++ natToBits 8 b) := by
  have hx := step_x cur 8 b (by omega) (by omega)
  rw [Nat.mod_eq_of_lt hcur] at hx
  rw [hx]
  refine ⟨Nat.mod_lt _ (Nat.two_pow_pos _), ?_⟩
  have hd : (2 : Nat) ^ (c + 8) ∣ 2 ^ 64 := Nat.pow_dvd_pow 2 (by omega)
  rw [Nat.mod_mod_of_dvd _ hd, bitsToNat_append, natToBits_length, bitsToNat_natToBits, ← hw,
    Nat.mod_eq_of_lt (show b < 2 ^ 8 by omega)]
  have h1 : cur * 2 ^ 8 % 2 ^ (c + 8) = cur % 2 ^ c * 2 ^ 8 := by
    rw [Nat.pow_add, Nat.mul_mod_mul_right]
  have hr : cur % 2 ^ c < 2 ^ c := Nat.mod_lt _ (Nat.two_pow_pos _)
  have hbound : cur % 2 ^ c * 2 ^ 8 + b < 2 ^ (c + 8) := by
    have : (cur % 2 ^ c + 1) * 2 ^ 8 ≤ 2 ^ c * 2 ^ 8 := Nat.mul_le_mul_right _ hr
    rw [Nat.pow_add]
    rw [Nat.add_mul] at this
    omega
  rw [Nat.add_mod, h1, Nat.mod_eq_of_lt (show b < 2 ^ (c + 8) from Nat.lt_of_lt_of_le (show b < 2 ^ 8 by omega)
    (Nat.pow_le_pow_right (by omega) (by omega))), Nat.mod_eq_of_lt hbound]

/-- `byte(cur >> (cbits-8))` is the first 8 bits of the window. -/
theorem window_idx (cur c : Nat) (W : List Bool) (hc : 8 ≤ c) (hl : W.length = c)
    (hw : cur % 2 ^ c = bitsToNat W) :
    (cur >>> (c - 8)) % 256 = bitsToNat (W.take 8) ∧ natToBits 8 ((cur >>> (c - 8)) % 256) = W.take 8 := by
  have htl : (W.take 8).length = 8 := by rw [List.length_take, hl]; omega
  have hdl : (W.drop 8).length = c - 8 := by rw [List.length_drop, hl]
  have hsplit := bitsToNat_append (W.take 8) (W.drop 8)
  rw [List.take_append_drop, hdl] at hsplit
  have hlt := bitsToNat_lt (W.drop 8)
  rw [hdl] at hlt
  have hp : 0 < 2 ^ (c - 8) := Nat.two_pow_pos _
  have h1 : (cur >>> (c - 8)) % 256 = bitsToNat (W.take 8) := by
    rw [Nat.shiftRight_eq_div_pow, show (256 : Nat) = 2 ^ 8 by rfl, ← Nat.mod_mul_right_div_self,
      ← Nat.pow_add, show c - 8 + 8 = c by omega, hw, hsplit, Nat.add_comm,
      Nat.add_mul_div_right _ _ hp, Nat.div_eq_of_lt hlt, Nat.zero_add]
  refine ⟨h1, ?_⟩
  rw [h1]
  have := natToBits_bitsToNat (W.take 8)
  rw [htl] at this
  exact this

/-- Dropping `k` consumed bits from the window. -/
theorem window_drop (cur c k : Nat) (W : List Bool) (hk : k ≤ c) (hl : W.length = c)
    (hw : cur % 2 ^ c = bitsToNat W) : cur % 2 ^ (c - k) = bitsToNat (W.drop k) := by
  have hdl : (W.drop k).length = c - k := by rw [List.length_drop, hl]
  have hsplit := bitsToNat_append (W.take k) (W.drop k)
  rw [List.take_append_drop, hdl] at hsplit
  have hlt := bitsToNat_lt (W.drop k)
  rw [hdl] at hlt
  have hd : (2 : Nat) ^ (c - k) ∣ 2 ^ c := Nat.pow_dvd_pow 2 (by omega)
  rw [← Nat.mod_mod_of_dvd cur hd, hw, hsplit, Nat.add_comm, Nat.add_mul_mod_self_right, Nat.mod_eq_of_lt hlt]

/-- `byte(cur << (8-cbits))`: the window padded with zero bits. -/
theorem window_pad (cur c : Nat) (W : List Bool) (hc : c ≤ 8) (hl : W.length = c)
    (hw : cur % 2 ^ c = bitsToNat W) :
    natToBits 8 (((cur <<< (8 - c)) % 2 ^ 64) % 256) = W ++ List.replicate (8 - c) false := by
  have hd : (256 : Nat) ∣ 2 ^ 64 := by
    rw [show (256 : Nat) = 2 ^ 8 by rfl]; exact Nat.pow_dvd_pow 2 (by omega)
  have h256 : (256 : Nat) = 2 ^ c * 2 ^ (8 - c) := by
    rw [← Nat.pow_add, show c + (8 - c) = 8 by omega]
  have h1 : ((cur <<< (8 - c)) % 2 ^ 64) % 256 = bitsToNat (W ++ List.replicate (8 - c) false) := by
    rw [Nat.mod_mod_of_dvd _ hd, Nat.shiftLeft_eq, bitsToNat_append, bitsToNat_zeros, List.length_replicate,
      Nat.add_zero, ← hw, h256, Nat.mul_mod_mul_right]
  rw [h1]
  have := natToBits_bitsToNat (W ++ List.replicate (8 - c) false)
  rw [List.length_append, List.length_replicate, hl, show c + (8 - c) = 8 by omega] at this
  exact this

/-! ### Simulation -/

@[irreducible] def tbl : Nat := rootTable.tbl

theorem tbl_eq : tbl = rootTable.tbl := by unfold tbl; rfl

/-- Go state `st` stands for: bit-level decoder at tree node `t` with `pend` read since the last
symbol, output `st.out`, and the look-ahead bits `W` (the low `cbits` bits of `cur`) still to walk. -/
structure Inv (st : DState) (t : Trie) (pend W : List Bool) : Prop where
  rel : ∃ f, f + pend.length / 8 ≤ 5 ∧ checkNode tbl f st.n t = true
  node : t.isNode = true
  nz : checkNZ t = true
  wlen : W.length = st.cbits
  win : st.cur % 2 ^ st.cbits = bitsToNat W
  sb : st.sbits = pend.length + st.cbits
  p8 : pend.length % 8 = 0
  cur64 : st.cur < 2 ^ 64

theorem inv_root (cur c : Nat) (out : List Nat) (W : List Bool) (hl : W.length = c)
    (hw : cur % 2 ^ c = bitsToNat W) (h64 : cur < 2 ^ 64) :
    Inv { n := 0, cur := cur, cbits := c, sbits := c, out := out } trie [] W where
  rel := ⟨5, Nat.le_refl 5, by rw [tbl_eq]; exact rootTable_ok.1⟩
  node := rootTable_ok.2.2.2
  nz := rootTable_ok.2.2.1
  wlen := hl
  win := hw
  sb := (Nat.zero_add c).symm
  p8 := rfl
  cur64 := h64

theorem take_drop_drop (W : List Bool) (k : Nat) (hk : k ≤ 8) :
    (W.take 8).drop k ++ W.drop 8 = W.drop k := by
  have : W.drop k = (W.take 8 ++ W.drop 8).drop k := by rw [List.take_append_drop]
  rw [this, List.drop_append]
  by_cases h8 : W.length ≤ 8
  · have hd : W.drop 8 = [] := List.drop_eq_nil_of_le h8
    simp [hd]
  · have : (W.take 8).length = 8 := by rw [List.length_take]; omega
    rw [this, show k - 8 = 0 by omega]
    rfl

set_option maxRecDepth 4000 in
theorem drain_sim (m : Nat) (rest : List Bool) : ∀ (fuel : Nat) (st : DState) (t : Trie) (pend W : List Bool),
    Inv st t pend W → st.cbits < fuel →
    match drain tbl m fuel st with
    | .error e => decodeAux trie m t pend st.out (W ++ rest) = .error e
    | .ok st' => ∃ t' pend' W', Inv st' t' pend' W' ∧ st'.cbits < 8 ∧
        decodeAux trie m t pend st.out (W ++ rest) = decodeAux trie m t' pend' st'.out (W' ++ rest) := by
  intro fuel
  induction fuel with
  | zero => intro st t pend W _ h; omega
  | succ fuel ih =>
    intro st t pend W inv hf
    simp only [drain]
    by_cases hc : st.cbits ≥ 8
    · simp only [hc, ↓reduceIte]
      have hbits := (window_idx st.cur st.cbits W hc inv.wlen inv.win).2
      have hi : (st.cur >>> (st.cbits - 8)) % 256 < 256 := Nat.mod_lt _ (by decide)
      have ⟨f, hfb, hck⟩ := inv.rel
      have hslot := checkNode_slot tbl f st.n t hck _ hi
      rw [hbits] at hslot
      have hspec := decodeAux_stride trie m (W.drop 8 ++ rest) (W.take 8) t pend st.out
      rw [← List.append_assoc, List.take_append_drop] at hspec
      have htl : (W.take 8).length = 8 := by rw [List.length_take, inv.wlen]; omega
      cases hs : stride t (W.take 8) with
      | dead =>
        rw [hs] at hslot hspec
        cases hch : childAt tbl st.n ((st.cur >>> (st.cbits - 8)) % 256) with
        | nil => simpa using hspec
        | leaf s' k' => rw [hch] at hslot; exact hslot.elim
        | inner id' => rw [hch] at hslot; exact hslot.elim
      | leaf s k =>
        rw [hs] at hslot hspec
        simp only at hslot hspec
        obtain ⟨hk1, hk8⟩ := stride_leaf_bounds _ _ _ _ hs
        rw [htl] at hk8
        cases hch : childAt tbl st.n ((st.cur >>> (st.cbits - 8)) % 256) with
        | nil => rw [hch] at hslot; exact hslot.elim
        | inner id' => rw [hch] at hslot; exact hslot.elim
        | leaf s' k' =>
          rw [hch] at hslot
          obtain ⟨rfl, rfl⟩ := hslot
          simp only
          by_cases hm : m ≠ 0 ∧ st.out.length = m
          · rw [if_pos hm] at hspec ⊢
            exact hspec
          · rw [if_neg hm] at hspec ⊢
            rw [← List.append_assoc, take_drop_drop W k hk8] at hspec
            have inv' : Inv { st with out := s :: st.out, cbits := st.cbits - k, n := 0, sbits := st.cbits - k }
                trie [] (W.drop k) :=
              inv_root st.cur (st.cbits - k) (s :: st.out) (W.drop k)
                (by rw [List.length_drop, inv.wlen])
                (window_drop st.cur st.cbits k W (by omega) inv.wlen inv.win) inv.cur64
            have := ih _ trie [] (W.drop k) inv' (by simp only; omega)
            rw [hspec]
            exact this
      | inner t' =>
        rw [hs] at hslot hspec
        cases hch : childAt tbl st.n ((st.cur >>> (st.cbits - 8)) % 256) with
        | nil => rw [hch] at hslot; exact hslot.elim
        | leaf s' k' => rw [hch] at hslot; exact hslot.elim
        | inner id' =>
          rw [hch] at hslot
          simp only
          have inv' : Inv { st with n := id', cbits := st.cbits - 8 } t' ((W.take 8).reverse ++ pend) (W.drop 8) := by
            refine ⟨⟨f - 1, ?_, hslot.2⟩, stride_inner_isNode _ _ _ inv.node hs, stride_inner_NZ _ _ _ inv.nz hs,
              by rw [List.length_drop, inv.wlen], window_drop st.cur st.cbits 8 W hc inv.wlen inv.win, ?_, ?_, inv.cur64⟩
            · simp only [List.length_append, List.length_reverse, htl]
              have := hslot.1
              omega
            · simp only [List.length_append, List.length_reverse, htl]
              have := inv.sb
              omega
            · simp only [List.length_append, List.length_reverse, htl]
              have := inv.p8
              omega
          have := ih _ t' _ (W.drop 8) inv' (by simp only; omega)
          rw [hspec]
          exact this
    · simp only [hc, ↓reduceIte]
      exact ⟨t, pend, W, inv, by omega, rfl⟩

/-- `cur = cur<<8 | uint(b); cbits += 8; sbits += 8`. -/
def pushByte (st : DState) (b : Nat) : DState :=
  { st with cur := ((st.cur <<< 8) % 2 ^ 64) ||| b, cbits := (st.cbits + 8) % 256, sbits := (st.sbits + 8) % 256 }

theorem feed_cons (m : Nat) (st : DState) (b : Nat) (bs : List Nat) :
    feed tbl m st (b :: bs) =
      match drain tbl m 16 (pushByte st b) with
      | .error e => .error e
      | .ok st => feed tbl m st bs := rfl

theorem feed_sim (m : Nat) : ∀ (bytes : List Nat) (st : DState) (t : Trie) (pend W : List Bool),
    (∀ b ∈ bytes, b < 256) → Inv st t pend W → st.cbits < 8 →
    match feed tbl m st bytes with
    | .error e => decodeAux trie m t pend st.out (W ++ bytesToBits bytes) = .error e
    | .ok st' => ∃ t' pend' W', Inv st' t' pend' W' ∧ st'.cbits < 8 ∧
        decodeAux trie m t pend st.out (W ++ bytesToBits bytes) = decodeAux trie m t' pend' st'.out W' := by
  intro bytes
  induction bytes with
  | nil =>
    intro st t pend W _ inv hc
    simp only [feed, bytesToBits, List.flatMap_nil, List.append_nil]
    exact ⟨t, pend, W, inv, hc, rfl⟩
  | cons b bs ih =>
    intro st t pend W hb inv hc
    have hb256 : b < 256 := hb b (by simp)
    have hbs : ∀ x ∈ bs, x < 256 := fun x hx => hb x (by simp [hx])
    obtain ⟨hlt, hwin⟩ := window_push st.cur st.cbits b W inv.cur64 hc hb256 inv.wlen inv.win
    obtain ⟨f, hfb, hck⟩ := inv.rel
    have hpl : pend.length ≤ 47 := by omega
    have e1 : (st.cbits + 8) % 256 = st.cbits + 8 := Nat.mod_eq_of_lt (by omega)
    have e2 : (st.sbits + 8) % 256 = st.sbits + 8 := Nat.mod_eq_of_lt (by have := inv.sb; omega)
    have inv1 : Inv (pushByte st b) t pend (W ++ natToBits 8 b) := by
      refine ⟨⟨f, hfb, hck⟩, inv.node, inv.nz, ?_, ?_, ?_, inv.p8, hlt⟩
      · simp only [pushByte, List.length_append, natToBits_length, inv.wlen, e1]
      · simp only [pushByte, e1]; exact hwin
      · simp only [pushByte, e1, e2]; have := inv.sb; omega
    have hbits : W ++ bytesToBits (b :: bs) = (W ++ natToBits 8 b) ++ bytesToBits bs := by
      simp [bytesToBits]
    rw [feed_cons, hbits]
    have hd := drain_sim m (bytesToBits bs) 16 (pushByte st b) t pend (W ++ natToBits 8 b) inv1
      (by simp only [pushByte, e1]; omega)
    cases hdr : drain tbl m 16 (pushByte st b) with
    | error e => rw [hdr] at hd; exact hd
    | ok st' =>
      rw [hdr] at hd
      obtain ⟨t', pend', W', inv', hc', heq⟩ := hd
      simp only
      have := ih st' t' pend' W' hbs inv' hc'
      have hout : (pushByte st b).out = st.out := rfl
      rw [hout] at heq
      rw [heq]
      exact this

/-- The final checks against the bit-level end-of-input test. -/
theorem finish_sim (st : DState) (t : Trie) (pend W : List Bool) (inv : Inv st t pend W) (hc : st.cbits < 8) :
    finishDecode st =
      (if (W.reverse ++ pend).length > 7 then .error .invalid
       else if (W.reverse ++ pend).all id then .ok st.out.reverse else .error .invalid) := by
  have hlen : (W.reverse ++ pend).length = st.sbits := by
    simp only [List.length_append, List.length_reverse, inv.wlen, inv.sb]; omega
  simp only [finishDecode, hlen]
  by_cases hs : st.sbits > 7
  · simp [hs]
  · simp only [hs, ↓reduceIte]
    have hp : pend = [] := by
      have := inv.p8; have := inv.sb
      exact List.eq_nil_of_length_eq_zero (by omega)
    subst hp
    rw [Nat.one_shiftLeft, Nat.and_two_pow_sub_one_eq_mod, inv.win, List.append_nil, List.all_reverse]
    have hiff := bitsToNat_all_ones W
    rw [inv.wlen] at hiff
    by_cases hall : W.all id = true
    · simp [hall, hiff.mpr hall]
    · have : bitsToNat W ≠ 2 ^ st.cbits - 1 := fun h => hall (hiff.mp h)
      simp [hall, this]

theorem tail_sim (m : Nat) : ∀ (fuel : Nat) (st : DState) (t : Trie) (pend W : List Bool),
    Inv st t pend W → st.cbits < 8 → st.cbits < fuel →
    (match drainTail tbl m fuel st with
      | .error e => .error e
      | .ok st' => finishDecode st') = decodeAux trie m t pend st.out W := by
  intro fuel
  induction fuel with
  | zero => intro st t pend W _ _ h; omega
  | succ fuel ih =>
    intro st t pend W inv hc hf
    have hstay : ∀ t', stride t W = .inner t' →
        finishDecode st = decodeAux trie m t pend st.out W := by
      intro t' hs
      have hspec := decodeAux_stride trie m [] W t pend st.out
      rw [hs, List.append_nil] at hspec
      rw [hspec, finish_sim st t pend W inv hc]
      simp [decodeAux]
    simp only [drainTail]
    by_cases hpos : st.cbits > 0
    · simp only [hpos, ↓reduceIte]
      have hbits := window_pad st.cur st.cbits W (by omega) inv.wlen inv.win
      have hi : ((st.cur <<< (8 - st.cbits)) % 2 ^ 64) % 256 < 256 := Nat.mod_lt _ (by omega)
      obtain ⟨f, hfb, hck⟩ := inv.rel
      have hslot := checkNode_slot tbl f st.n t hck _ hi
      rw [hbits, stride_append] at hslot
      have hspec := decodeAux_stride trie m [] W t pend st.out
      rw [List.append_nil] at hspec
      cases hs : stride t W with
      | dead =>
        rw [hs] at hslot hspec
        cases hch : childAt tbl st.n (((st.cur <<< (8 - st.cbits)) % 2 ^ 64) % 256) with
        | nil => simpa using hspec.symm
        | leaf s' k' => rw [hch] at hslot; exact hslot.elim
        | inner id' => rw [hch] at hslot; exact hslot.elim
      | leaf s k =>
        rw [hs] at hslot hspec
        simp only at hslot hspec
        obtain ⟨hk1, hkc⟩ := stride_leaf_bounds _ _ _ _ hs
        rw [inv.wlen] at hkc
        cases hch : childAt tbl st.n (((st.cur <<< (8 - st.cbits)) % 2 ^ 64) % 256) with
        | nil => rw [hch] at hslot; exact hslot.elim
        | inner id' => rw [hch] at hslot; exact hslot.elim
        | leaf s' k' =>
          rw [hch] at hslot
          obtain ⟨rfl, rfl⟩ := hslot
          simp only [show ¬ k > st.cbits by omega, ↓reduceIte]
          by_cases hm : m ≠ 0 ∧ st.out.length = m
          · rw [if_pos hm] at hspec ⊢
            exact hspec.symm
          · rw [if_neg hm] at hspec ⊢
            rw [List.append_nil] at hspec
            have inv' : Inv { st with out := s :: st.out, cbits := st.cbits - k, n := 0, sbits := st.cbits - k }
                trie [] (W.drop k) :=
              inv_root st.cur (st.cbits - k) (s :: st.out) (W.drop k)
                (by rw [List.length_drop, inv.wlen])
                (window_drop st.cur st.cbits k W hkc inv.wlen inv.win) inv.cur64
            have := ih _ trie [] (W.drop k) inv' (by simp only; omega) (by simp only; omega)
            rw [hspec]
            exact this
      | inner t' =>
        rw [hs] at hslot
        simp only at hslot
        have hnode := stride_inner_isNode _ _ _ inv.node hs
        have hnz := stride_inner_NZ _ _ _ inv.nz hs
        cases hz : stride t' (List.replicate (8 - st.cbits) false) with
        | dead => exact absurd hz (stride_zeros_not_dead _ _ hnode hnz)
        | leaf s k =>
          rw [hz] at hslot
          simp only at hslot
          obtain ⟨hk1, _⟩ := stride_leaf_bounds _ _ _ _ hz
          cases hch : childAt tbl st.n (((st.cur <<< (8 - st.cbits)) % 2 ^ 64) % 256) with
          | nil => rw [hch] at hslot; exact hslot.elim
          | inner id' => rw [hch] at hslot; exact hslot.elim
          | leaf s' k' =>
            rw [hch] at hslot
            obtain ⟨_, hk⟩ := hslot
            simp only [show k' > st.cbits by rw [← hk, inv.wlen]; omega, ↓reduceIte]
            exact hstay t' hs
        | inner t'' =>
          rw [hz] at hslot
          simp only at hslot
          cases hch : childAt tbl st.n (((st.cur <<< (8 - st.cbits)) % 2 ^ 64) % 256) with
          | nil => rw [hch] at hslot; exact hslot.elim
          | leaf s' k' => rw [hch] at hslot; exact hslot.elim
          | inner id' => simp only; exact hstay t' hs
    · simp only [hpos, ↓reduceIte]
      have hw : W = [] := List.eq_nil_of_length_eq_zero (by rw [inv.wlen]; omega)
      subst hw
      exact hstay t (by simp [stride])

/-- **The byte-stride decoder is the bit-level decoder.** -/
theorem decodeBytesMax_eq (m : Nat) (v : List Nat) (hv : ∀ b ∈ v, b < 256) :
    decodeBytesMax m v = decodeMax m v := by
  unfold decodeBytesMax decodeMax
  have inv0 : Inv { n := 0, cur := 0, cbits := 0, sbits := 0, out := [] } trie [] [] :=
    inv_root 0 0 [] [] rfl (by simp [bitsToNat]) (by omega)
  have hf := feed_sim m v _ trie [] [] hv inv0 (by simp)
  simp only [List.nil_append] at hf
  cases hfe : feed rootTable.tbl m { n := 0, cur := 0, cbits := 0, sbits := 0, out := [] } v with
  | error e =>
    have : feed tbl m { n := 0, cur := 0, cbits := 0, sbits := 0, out := [] } v = .error e := by rw [tbl_eq]; exact hfe
    rw [this] at hf
    simp only
    exact hf.symm
  | ok st' =>
    have : feed tbl m { n := 0, cur := 0, cbits := 0, sbits := 0, out := [] } v = .ok st' := by rw [tbl_eq]; exact hfe
    rw [this] at hf
    obtain ⟨t', pend', W', inv', hc', heq⟩ := hf
    simp only
    rw [heq]
    have := tail_sim m 8 st' t' pend' W' inv' hc' hc'
    rw [tbl_eq] at this
    exact this

end NetVerif.Proofs.Lemmas.HuffmanStride
