import NetVerif.Model.Dns
import NetVerif.Gen.C36
import NetVerif.Proofs.Lemmas.Dns
/-!
C36 — DNS messages round-trip through Pack/Unpack and the Builder: T-tie, header and
name-level theorems (namespace `NetVerif.Proofs.C36`; the message level is in `Proofs/C36.lean`).

Name level (where compression lives): `Name.pack` followed by `Name.unpack` is the identity on
canonical names without compression, and with compression under the invariant "every map entry
points at an offset where unpacking yields that suffix" — up to the pointer budget of
`Name.unpack`, which `Name.pack` respects since the `ptr-depth` repair (`compressionDepth`): the
invariant also says that every stored suffix is at most 10 pointers deep, so the full statement
holds (`seq_holds`).
Message level: header, question and resource-header round trips.
-/
namespace NetVerif.Proofs.C36
open NetVerif NetVerif.Model.Dns NetVerif.Proofs.Dns

/-- T-tie: the constants and limits regenerated from message.go are the model's. -/
theorem gen_constants_eq :
    Gen.C36.typeA = typeA ∧ Gen.C36.typeNS = typeNS ∧ Gen.C36.typeCNAME = typeCNAME ∧
    Gen.C36.typeSOA = typeSOA ∧ Gen.C36.typePTR = typePTR ∧ Gen.C36.typeMX = typeMX ∧
    Gen.C36.typeTXT = typeTXT ∧ Gen.C36.typeAAAA = typeAAAA ∧ Gen.C36.typeSRV = typeSRV ∧
    Gen.C36.typeOPT = typeOPT ∧ Gen.C36.typeSVCB = typeSVCB ∧ Gen.C36.typeHTTPS = typeHTTPS ∧
    Gen.C36.headerLen = headerLen ∧ Gen.C36.nonEncodedNameMax = nameMax ∧
    Gen.C36.ptrLimit = ptrLimit ∧ Gen.C36.segLimit = segLimit ∧ Gen.C36.maxPtr = maxPtr ∧
    Gen.C36.textMax = textMax ∧ Gen.C36.uint16Len = 2 ∧ Gen.C36.uint32Len = 4 ∧
    Gen.C36.packChecksDepth = true := by
  decide

/-- T-tie: the type switch of `unpackResourceBody` has exactly the model's cases. -/
theorem gen_bodyTypes_eq :
    Gen.C36.bodyTypes = [typeA, typeNS, typeCNAME, typeSOA, typePTR, typeMX, typeTXT, typeAAAA,
      typeSRV, typeSVCB, typeHTTPS, typeOPT] := by decide

/-- T-tie: translated `packUint16` / `packUint32` are the model's `u16` / `u32`. -/
theorem gen_packUint_eq (msg : Bytes) (v : Nat) :
    Gen.C36.packUint16 msg v = some (msg ++ u16 v) ∧ Gen.C36.packUint32 msg v = some (msg ++ u32 v) := by
  simp [Gen.C36.packUint16, Gen.C36.packUint32, u16, u32]

/-- T-tie: header flag masks. -/
theorem gen_headerBits_eq (h : Header) :
    h.bits = (h.opCode * 2048 % 65536) ||| h.rCode ||| bitIf h.recursionAvailable Gen.C36.headerBitRA |||
      bitIf h.recursionDesired Gen.C36.headerBitRD ||| bitIf h.truncated Gen.C36.headerBitTC |||
      bitIf h.authoritative Gen.C36.headerBitAA ||| bitIf h.response Gen.C36.headerBitQR |||
      bitIf h.authenticData Gen.C36.headerBitAD ||| bitIf h.checkingDisabled Gen.C36.headerBitCD := rfl

/-! ## Header -/

private theorem or_div_lit (a b : Nat) (n : Nat) : (a ||| b) / 2 ^ n = a / 2 ^ n ||| b / 2 ^ n := Nat.or_div_two_pow
private theorem or_mod_lit (a b : Nat) (n : Nat) : (a ||| b) % 2 ^ n = a % 2 ^ n ||| b % 2 ^ n := Nat.or_mod_two_pow

private theorem bitIf_div (b : Bool) (v d : Nat) : bitIf b v / d = bitIf b (v / d) := by
  cases b <;> simp [bitIf]
private theorem bitIf_mod (b : Bool) (v d : Nat) : bitIf b v % d = bitIf b (v % d) := by
  cases b <;> simp [bitIf]
private theorem bitIf_zero (b : Bool) : bitIf b 0 = 0 := by cases b <;> rfl

/-- **Header round trip**: `header.header()` of the packed `bits` word gives the header back
(OpCode and RCode are 4-bit fields). -/
theorem header_bits_roundtrip (h : Header) (ho : h.opCode < 16) (hr : h.rCode < 16) :
    headerOfBits h.id h.bits = h := by
  have e15 := fun a b => or_div_lit a b 15
  have e11 := fun a b => or_div_lit a b 11
  have e10 := fun a b => or_div_lit a b 10
  have e9 := fun a b => or_div_lit a b 9
  have e8 := fun a b => or_div_lit a b 8
  have e7 := fun a b => or_div_lit a b 7
  have e5 := fun a b => or_div_lit a b 5
  have e4 := fun a b => or_div_lit a b 4
  have m1 := fun a b => or_mod_lit a b 1
  have m4 := fun a b => or_mod_lit a b 4
  simp only [Nat.reducePow] at e15 e11 e10 e9 e8 e7 e5 e4 m1 m4
  have o1 : h.opCode * 2048 % 65536 / 32768 = 0 := by omega
  have o2 : h.opCode * 2048 % 65536 / 2048 = h.opCode := by omega
  have o3 : h.opCode * 2048 % 65536 / 1024 % 2 = 0 := by omega
  have o4 : h.opCode * 2048 % 65536 / 512 % 2 = 0 := by omega
  have o5 : h.opCode * 2048 % 65536 / 256 % 2 = 0 := by omega
  have o6 : h.opCode * 2048 % 65536 / 128 % 2 = 0 := by omega
  have o7 : h.opCode * 2048 % 65536 / 32 % 2 = 0 := by omega
  have o8 : h.opCode * 2048 % 65536 / 16 % 2 = 0 := by omega
  have o9 : h.opCode * 2048 % 65536 % 16 = 0 := by omega
  have r1 : h.rCode / 32768 = 0 := by omega
  have r2 : h.rCode / 2048 = 0 := by omega
  have r3 : h.rCode / 1024 = 0 := by omega
  have r4 : h.rCode / 512 = 0 := by omega
  have r5 : h.rCode / 256 = 0 := by omega
  have r6 : h.rCode / 128 = 0 := by omega
  have r7 : h.rCode / 32 = 0 := by omega
  have r8 : h.rCode / 16 = 0 := by omega
  have r9 : h.rCode % 16 = h.rCode := by omega
  have o2' : h.opCode % 16 = h.opCode := by omega
  cases h with
  | mk id response opCode authoritative truncated recursionDesired recursionAvailable authenticData checkingDisabled rCode =>
  simp only [headerOfBits, Header.bits] at *
  simp only [e15, e11, e10, e9, e8, e7, e5, e4, m1, m4, bitIf_div, bitIf_mod, o1, o2, o3, o4, o5, o6, o7, o8, o9,
    r1, r2, r3, r4, r5, r6, r7, r8, r9, o2', Nat.reduceDiv, Nat.reduceMod, bitIf_zero, Nat.zero_or, Nat.or_zero]
  cases response <;> cases authoritative <;> cases truncated <;> cases recursionDesired <;>
    cases recursionAvailable <;> cases authenticData <;> cases checkingDisabled <;> simp [bitIf]

/-! ## Names -/

/-- A canonical name: at most 254 bytes; "." or labels of 1..63 bytes, each followed by '.'. -/
def Canonical (n : Bytes) : Prop := n.length ≤ 254 ∧ NameShape n

theorem textOf_getLast : ∀ (ls : List Bytes), ls ≠ [] → (textOf ls).getLast? = some 46 := by
  intro ls
  induction ls with
  | nil => intro h; exact absurd rfl h
  | cons l ls ih =>
    intro _
    simp only [textOf, List.getLast?_append]
    cases ls with
    | nil => simp [textOf]
    | cons l' ls' =>
      have := ih (by simp)
      simp [List.getLast?_cons, this]

theorem textOf_length_ge {ls : List Bytes} (hne : ls ≠ []) (hok : LabelsOK ls) :
    2 ≤ (textOf ls).length := by
  cases ls with
  | nil => exact absurd rfl hne
  | cons l ls =>
    have := (hok l (by simp)).1
    simp [textOf]; omega

theorem fin_textOf {ls : List Bytes} (hne : ls ≠ []) (hok : LabelsOK ls) : fin (textOf ls) = textOf ls := by
  have := textOf_length_ge hne hok
  unfold fin
  cases h : textOf ls with
  | nil => rw [h] at this; simp at this
  | cons a t => simp

/-- `packName` on the presentation form of a label list is the pack loop. -/
theorem packName_textOf {ls : List Bytes} (hne : ls ≠ []) (hok : LabelsOK ls)
    (hlen : (textOf ls).length ≤ 254) (pos : Bytes) (comp : Option CompMap) :
    packName (textOf ls) pos comp = packLoop pos (textOf ls) [] [] comp := by
  have h2 := textOf_length_ge hne hok
  have h1 : ¬ (textOf ls).length > 254 := by omega
  have h3 : (textOf ls).isEmpty = false := by
    cases h : textOf ls with
    | nil => rw [h] at h2; simp at h2
    | cons a t => rfl
  have h4 : textOf ls ≠ [46] := by
    intro h; rw [h] at h2; simp at h2
  unfold packName
  simp [h1, h3, textOf_getLast ls hne, h4]

theorem decodes_enc : ∀ (ls : List Bytes) (pre tail : Bytes), LabelsOK ls →
    Decodes 0 (pre ++ encLabels ls ++ 0 :: tail) pre.length ls 0 (pre.length + (encLabels ls).length + 1) := by
  intro ls
  induction ls with
  | nil =>
    intro pre tail _
    have := @Decodes.nil 0 (pre ++ encLabels [] ++ 0 :: tail) pre.length tail (by simp [encLabels])
    simpa [encLabels] using this
  | cons l ls ih =>
    intro pre tail hok
    have hl : LabelOK l := hok l (by simp)
    have hls : LabelsOK ls := fun x hx => hok x (by simp [hx])
    have hih := ih (pre ++ l.length :: l) tail hls
    have hlist : pre ++ encLabels (l :: ls) ++ 0 :: tail =
        pre ++ l.length :: l ++ encLabels ls ++ 0 :: tail := by simp [encLabels]
    rw [hlist]
    refine Decodes.label (rest := encLabels ls ++ 0 :: tail) ?_ hl ?_
    · have : pre ++ l.length :: l ++ encLabels ls ++ 0 :: tail =
          pre ++ (l.length :: (l ++ (encLabels ls ++ 0 :: tail))) := by simp
      rw [this, List.drop_left]
    · have h1 : pre.length + 1 + l.length = (pre ++ l.length :: l).length := by simp; omega
      have h2 : pre.length + (encLabels (l :: ls)).length + 1 =
          (pre ++ l.length :: l).length + (encLabels ls).length + 1 := by simp [encLabels]; omega
      rw [h1, h2]
      exact hih

/-- **Name round trip, no compression** (Builder without `EnableCompression`, SRV/SVCB targets):
a canonical name packs, and unpacking the packed bytes - wherever they sit in a message - returns
the name and the offset just after it. -/
theorem name_roundtrip_nocomp (n : Bytes) (pos : Bytes) (hc : Canonical n) :
    ∃ bs, packName n pos none = .ok (bs, none) ∧
      ∀ pre post, unpackName (pre ++ bs ++ post) pre.length = .ok (n, pre.length + bs.length) := by
  rcases hc with ⟨hlen, hroot | ⟨ls, hne, hok, rfl⟩⟩
  · subst hroot
    refine ⟨[0], by simp [packName], ?_⟩
    intro pre post
    have hd := @Decodes.nil 0 (pre ++ [0] ++ post) pre.length post (by simp)
    have := decodes_unpackName hd (by simp [textOf]) (by omega)
    simpa [textOf, fin] using this
  · refine ⟨encLabels ls ++ [0], ?_, ?_⟩
    · rw [packName_textOf hne hok hlen, packLoop_labels_none pos ls [] hok]; simp
    · intro pre post
      have hd := decodes_enc ls pre post hok
      have hlist : pre ++ (encLabels ls ++ [0]) ++ post = pre ++ encLabels ls ++ 0 :: post := by simp
      rw [hlist, decodes_unpackName hd hlen (by omega), fin_textOf hne hok]
      simp; omega

/-- **Name round trip with compression.** If every entry of the compression map points at an
offset of `msg` where unpacking yields that suffix within the pointer budget (`CompInv`), then
packing a canonical name at the end of `msg` succeeds, keeps the invariant for the extended
message, and `Name.unpack` of the packed bytes returns the name and the offset after them. -/
theorem name_roundtrip_comp {k : Nat} (msg : Bytes) (m : CompMap) (n : Bytes)
    (hinv : CompInv k msg m) (hk : k ≤ msg.length) (hc : Canonical n) :
    ∃ bs m', packName n msg (some m) = .ok (bs, some m') ∧
      CompInv k (msg ++ bs) m' ∧
      ∀ post, unpackName (msg ++ bs ++ post) msg.length = .ok (n, msg.length + bs.length) := by
  rcases hc with ⟨hlen, hroot | ⟨ls, hne, hok, rfl⟩⟩
  · subst hroot
    refine ⟨[0], m, by simp [packName], hinv.append _, ?_⟩
    intro post
    have hd := @Decodes.nil k (msg ++ [0] ++ post) msg.length post (by simp)
    have := decodes_unpackName hd (by simp [textOf]) (by omega)
    simpa [textOf, fin] using this
  · rcases packLabels_compInv msg hk ls m hok hlen hinv with ⟨hinv', d, h10, hd⟩
    refine ⟨(packLabels msg ls [] m).1, (packLabels msg ls [] m).2, ?_, hinv', ?_⟩
    · rw [packName_textOf hne hok hlen, packLoop_labels_some msg ls [] m hok]
    · intro post
      have hd' := hd.append post
      rw [decodes_unpackName hd' hlen h10, fin_textOf hne hok]

/-! ## A sequence of names sharing one compression map, with arbitrary bytes in between
(what `Message.Pack` / the Builder with compression do with all the names of a message) -/

/-- names packed one after the other into one buffer with a shared map; `gap` are arbitrary
bytes written before each name (headers, fixed fields, other record data). Returns the buffer
and the offset of every name. -/
def packSeq : List (Bytes × Bytes) → Bytes → CompMap → Except Err (Bytes × List Nat)
  | [], msg, _ => .ok (msg, [])
  | (gap, n) :: r, msg, m =>
    match packName n (msg ++ gap) (some m) with
    | .ok (bs, some m') =>
      match packSeq r (msg ++ gap ++ bs) m' with
      | .ok (final, starts) => .ok (final, (msg ++ gap).length :: starts)
      | .error e => .error e
    | .ok (_, none) => .error .fuel
    | .error e => .error e

/-- C36 for names, full strength: every name of the sequence unpacks to itself
("name compression never changes the decoded names"). -/
def SeqStatement : Prop :=
  ∀ (l : List (Bytes × Bytes)), (∀ p ∈ l, Canonical p.2) →
    ∀ final starts, packSeq l [] [] = .ok (final, starts) →
      ∀ q ∈ (l.map Prod.snd).zip starts, ∃ o, unpackName final q.2 = .ok (q.1, o)

theorem packSeq_sound : ∀ (l : List (Bytes × Bytes)) (msg : Bytes) (m : CompMap),
    CompInv 0 msg m → (∀ p ∈ l, Canonical p.2) →
    ∀ final starts, packSeq l msg m = .ok (final, starts) →
      (∃ ext, final = msg ++ ext) ∧
      ∀ q ∈ (l.map Prod.snd).zip starts, ∃ o, unpackName final q.2 = .ok (q.1, o) := by
  intro l
  induction l with
  | nil =>
    intro msg m _ _ final starts h
    simp [packSeq] at h
    exact ⟨⟨[], by simp [h.1]⟩, by simp⟩
  | cons p r ih =>
    intro msg m hinv hcan final starts h
    rcases p with ⟨gap, n⟩
    have hc : Canonical n := hcan (gap, n) (by simp)
    rcases name_roundtrip_comp (msg ++ gap) m n (hinv.append gap) (Nat.zero_le _) hc with ⟨bs, m', hp, hinv', hun⟩
    rw [packSeq, hp] at h
    simp only [] at h
    cases hrec : packSeq r (msg ++ gap ++ bs) m' with
    | error e => rw [hrec] at h; simp at h
    | ok res =>
      rcases res with ⟨final', starts'⟩
      rw [hrec] at h
      simp only [Except.ok.injEq, Prod.mk.injEq] at h
      rcases h with ⟨hf, hs⟩
      subst hf hs
      rcases ih (msg ++ gap ++ bs) m' hinv' (fun q hq => hcan q (by simp [hq])) _ _ hrec with ⟨⟨ext, hext⟩, hrest⟩
      refine ⟨⟨gap ++ bs ++ ext, by rw [hext]; simp⟩, ?_⟩
      intro q hq
      simp only [List.map_cons, List.zip_cons_cons, List.mem_cons] at hq
      rcases hq with hq | hq
      · subst hq
        have := hun ext
        rw [← hext] at this
        exact ⟨_, this⟩
      · exact hrest q hq

/-- **Name compression never changes the decoded names**: every name of a sequence packed with a
shared compression map, with arbitrary other bytes in between, unpacks to itself. -/
theorem seq_holds : SeqStatement := fun l hcan final starts h =>
  (packSeq_sound l [] [] (compInv_nil 0 _) hcan final starts h).2

/-- The old witness of finding `ptr-depth`: "a.", "a.a.", …, twelve names each one label longer
than the previous one. -/
def deepNames : List (Bytes × Bytes) :=
  (List.range 12).map (fun k => (([] : Bytes), textOf (List.replicate (k + 1) [97])))

theorem deepNames_canonical : ∀ p ∈ deepNames, Canonical p.2 := by
  intro p hp
  simp only [deepNames, List.mem_map, List.mem_range] at hp
  rcases hp with ⟨k, hk, rfl⟩
  have hok : LabelsOK (List.replicate (k + 1) [97]) := by
    intro l hl
    rw [List.mem_replicate] at hl
    rw [hl.2]
    simp [LabelOK]
  have hlen : ∀ j, (textOf (List.replicate j [97])).length = 2 * j := by
    intro j
    induction j with
    | zero => simp [textOf]
    | succ j ih => simp [List.replicate_succ, textOf, ih]; omega
  refine ⟨by simp only [hlen]; omega, Or.inr ⟨_, by simp, hok, rfl⟩⟩

/-- the repaired packer stops compressing at depth 10: the twelfth name is written as two labels
and a pointer to the tenth name … -/
def deepPacked : Bytes :=
  [1, 97, 0, 1, 97, 192, 0, 1, 97, 192, 3, 1, 97, 192, 7, 1, 97, 192, 11, 1, 97, 192, 15, 1, 97, 192, 19,
   1, 97, 192, 23, 1, 97, 192, 27, 1, 97, 192, 31, 1, 97, 192, 35, 1, 97, 1, 97, 192, 35]

theorem deepNames_packs :
    packSeq deepNames [] [] = .ok (deepPacked, [0, 3, 7, 11, 15, 19, 23, 27, 31, 35, 39, 43]) := by
  decide

/-- … and unpacks (the old witness now satisfies the statement). -/
example : unpackName deepPacked 43 = .ok (textOf (List.replicate 12 [97]), 49) := by decide

example : ∀ q ∈ (deepNames.map Prod.snd).zip [0, 3, 7, 11, 15, 19, 23, 27, 31, 35, 39, 43],
    ∃ o, unpackName deepPacked q.2 = .ok (q.1, o) :=
  seq_holds deepNames deepNames_canonical _ _ deepNames_packs

end NetVerif.Proofs.C36
