import NetVerif.Model.Flow
import NetVerif.Gen.Flow
/-!
Arithmetic facts about `Model.Flow` used by C10 and C11 (and available to C08/C09):
single-step theorems for `inflow.add/take`, `takeInflows`, `outflow.*`, and the
T-tie `Gen.Flow.* = Model.Flow.*` against the functions regenerated from flow.go.
-/
namespace NetVerif.Proofs.Flow
open NetVerif.Model.Flow

/-! ### T-tie: regenerated Go = model -/

theorem gen_inflowMinRefresh_eq : NetVerif.Gen.Flow.inflowMinRefresh = inflowMinRefresh := rfl
theorem gen_initialWindowSize_eq : NetVerif.Gen.Flow.initialWindowSize = initialWindowSize := rfl

theorem gen_wrap32_eq (x : Int) : NetVerif.Gen.Flow.wrap32 x = wrap32 x := rfl

/-- `inflow.init` -/
theorem gen_inflowInit_eq (f : Inflow) (n : Int) :
    NetVerif.Gen.Flow.inflowInit f.avail f.unsent n = some ((f.init n).avail, (f.init n).unsent) := rfl

/-- `inflow.add`: the translated Go function is the model, on every input (no hypothesis). -/
theorem gen_inflowAdd_eq (f : Inflow) (n : Int) :
    NetVerif.Gen.Flow.inflowAdd f.avail f.unsent n =
      (f.add n).map (fun r => (r.1, r.2.avail, r.2.unsent)) := by
  unfold NetVerif.Gen.Flow.inflowAdd Inflow.add maxWindow inflowMinRefresh
  by_cases h1 : n < 0
  · simp [h1]
  · simp only [h1, if_false]
    by_cases h2 : f.unsent + n + f.avail > 2147483647
    · have : f.unsent + n + f.avail > 1 * 2147483648 - 1 := by omega
      simp [h2]
    · have : ¬ f.unsent + n + f.avail > 1 * 2147483648 - 1 := by omega
      simp only [h2, this, if_false]
      by_cases h3 : f.unsent + n < 4096 ∧ f.unsent + n < f.avail
      · simp [h3]
      · simp [h3]

/-- `inflow.take`: equal to the model whenever `avail` is a non-negative int32 (then
`uint32(f.avail)` is `f.avail`). -/
theorem gen_inflowTake_eq (f : Inflow) (n : Int) (h0 : 0 ≤ f.avail) (h1 : f.avail ≤ maxWindow) :
    NetVerif.Gen.Flow.inflowTake f.avail f.unsent n =
      some ((f.take n).1, (f.take n).2.avail, (f.take n).2.unsent) := by
  unfold maxWindow at h1
  have e : Int.emod f.avail 4294967296 = f.avail := by
    show f.avail % 4294967296 = f.avail
    omega
  unfold NetVerif.Gen.Flow.inflowTake Inflow.take
  rw [e]
  by_cases h : n > f.avail <;> simp [h]

/-- `takeInflows` -/
theorem gen_takeInflows_eq (f1 f2 : Inflow) (n : Int)
    (h1 : 0 ≤ f1.avail ∧ f1.avail ≤ maxWindow) (h2 : 0 ≤ f2.avail ∧ f2.avail ≤ maxWindow) :
    NetVerif.Gen.Flow.takeInflows f1.avail f2.avail n =
      some ((takeInflows f1 f2 n).1, (takeInflows f1 f2 n).2.1.avail, (takeInflows f1 f2 n).2.2.avail) := by
  unfold maxWindow at h1 h2
  have e1 : Int.emod f1.avail 4294967296 = f1.avail := by
    show f1.avail % 4294967296 = f1.avail
    omega
  have e2 : Int.emod f2.avail 4294967296 = f2.avail := by
    show f2.avail % 4294967296 = f2.avail
    omega
  unfold NetVerif.Gen.Flow.takeInflows takeInflows
  rw [e1, e2]
  by_cases h : n > f1.avail ∨ n > f2.avail <;> simp [h]

/-- Encoding of `outflow.conn` for the translated functions: flag and counter. -/
def connFlag (f : Outflow) : Int := match f.conn with | some _ => 1 | none => 0
def connN (f : Outflow) : Int := match f.conn with | some c => c | none => 0

theorem gen_outflowAvailable_eq (f : Outflow) :
    NetVerif.Gen.Flow.outflowAvailable f.n (connFlag f) (connN f) = some f.available := by
  unfold NetVerif.Gen.Flow.outflowAvailable Outflow.available connFlag connN
  cases hc : f.conn with
  | none => simp
  | some c =>
    by_cases h : c < f.n <;> simp [h]

theorem gen_outflowTake_eq (f : Outflow) (n : Int) :
    NetVerif.Gen.Flow.outflowTake f.n (connFlag f) (connN f) n =
      (f.take n).map (fun g => (g.n, connFlag g, connN g)) := by
  unfold NetVerif.Gen.Flow.outflowTake NetVerif.Gen.Flow.outflowAvailableD
  rw [gen_outflowAvailable_eq]
  unfold Outflow.take
  by_cases h : n > f.available
  · simp [h]
  · simp only [Option.getD_some, h, if_false, Option.map_some]
    unfold connFlag connN
    cases hc : f.conn with
    | none => simp [gen_wrap32_eq]
    | some c => simp [gen_wrap32_eq]

theorem gen_outflowAdd_eq (f : Outflow) (n : Int) :
    NetVerif.Gen.Flow.outflowAdd f.n (connFlag f) (connN f) n =
      some ((f.add n).1, (f.add n).2.n, connFlag (f.add n).2, connN (f.add n).2) := by
  unfold NetVerif.Gen.Flow.outflowAdd Outflow.add
  rw [gen_wrap32_eq]
  by_cases h : (decide (wrap32 (f.n + n) > n)) = (decide (f.n > 0))
  · simp only [h, if_true]
    rfl
  · simp only [h, if_false]

/-! ### inflow.add -/

/-- `add` panics exactly when the update is negative or would push `avail + unsent`
above 2^31-1 (the two `panic` sites of the Go code). -/
theorem add_none_iff (f : Inflow) (n : Int) :
    f.add n = none ↔ n < 0 ∨ f.avail + f.unsent + n > maxWindow := by
  unfold Inflow.add
  by_cases h1 : n < 0
  · simp [h1]
  · by_cases h2 : f.unsent + n + f.avail > maxWindow
    · simp [h1, h2]; omega
    · simp only [h1, h2, if_false]
      split <;> simp <;> omega

/-- Everything a successful `add` does, in one statement: total credit grows by `n`,
the advertised window grows by exactly the returned increment, never above 2^31-1,
the increment is either 0 (buffered) or all of the pending credit, and what stays
unsent is below both batching bounds. -/
theorem add_spec (f f' : Inflow) (n r : Int) (h : f.add n = some (r, f')) :
    0 ≤ n ∧
    f'.avail + f'.unsent = f.avail + f.unsent + n ∧
    f'.avail + f'.unsent ≤ maxWindow ∧
    f'.avail = f.avail + r ∧
    ((r = 0 ∧ f'.unsent = f.unsent + n ∧ f'.unsent < inflowMinRefresh ∧ f'.unsent < f'.avail) ∨
     (r = f.unsent + n ∧ f'.unsent = 0 ∧ ¬ (r < inflowMinRefresh ∧ r < f.avail))) := by
  unfold Inflow.add at h
  by_cases h1 : n < 0
  · simp [h1] at h
  · by_cases h2 : f.unsent + n + f.avail > maxWindow
    · simp [h1, h2] at h
    · simp only [h1, h2, if_false] at h
      by_cases h3 : f.unsent + n < inflowMinRefresh ∧ f.unsent + n < f.avail
      · simp only [h3, and_self, if_true, Option.some.injEq, Prod.mk.injEq] at h
        obtain ⟨hr, hf⟩ := h
        subst hr; subst hf
        dsimp only
        omega
      · simp only [h3, if_false, Option.some.injEq, Prod.mk.injEq] at h
        obtain ⟨hr, hf⟩ := h
        subst hr; subst hf
        dsimp only
        omega

/-- After every successful `add` the only credit withheld is the batching residue. -/
theorem add_residue (f f' : Inflow) (n r : Int) (h : f.add n = some (r, f')) :
    f'.unsent = 0 ∨ (f'.unsent < inflowMinRefresh ∧ f'.unsent < f'.avail) := by
  rcases (add_spec f f' n r h).2.2.2.2 with h1 | h1
  · exact Or.inr ⟨h1.2.2.1, h1.2.2.2⟩
  · exact Or.inl h1.2.1

theorem add_wf (f f' : Inflow) (n r : Int) (hw : f.WF) (h : f.add n = some (r, f')) :
    f'.WF ∧ 0 ≤ r ∧ r ≤ maxWindow := by
  have s := add_spec f f' n r h
  unfold Inflow.WF at *
  rcases s.2.2.2.2 with h1 | h1 <;> omega

/-! ### inflow.take / takeInflows (C11) -/

/-- `take` accepts iff `n ≤ avail` — exact at the boundary — and then subtracts exactly `n`;
a rejected take leaves the window untouched. -/
theorem take_spec (f : Inflow) (n : Int) :
    ((f.take n).1 = true ↔ n ≤ f.avail) ∧
    ((f.take n).1 = true → (f.take n).2 = { f with avail := f.avail - n }) ∧
    ((f.take n).1 = false → (f.take n).2 = f) := by
  unfold Inflow.take
  by_cases h : n > f.avail <;> simp [h] <;> omega

theorem take_wf (f : Inflow) (n : Int) (hn : 0 ≤ n) (hw : f.WF) : (f.take n).2.WF := by
  unfold Inflow.take Inflow.WF at *
  by_cases h : n > f.avail <;> simp [h] <;> omega

/-- `takeInflows` accepts iff `n` fits in both windows; all-or-nothing. -/
theorem takeInflows_spec (f1 f2 : Inflow) (n : Int) :
    ((takeInflows f1 f2 n).1 = true ↔ (n ≤ f1.avail ∧ n ≤ f2.avail)) ∧
    ((takeInflows f1 f2 n).1 = true →
        (takeInflows f1 f2 n).2 = ({ f1 with avail := f1.avail - n }, { f2 with avail := f2.avail - n })) ∧
    ((takeInflows f1 f2 n).1 = false → (takeInflows f1 f2 n).2 = (f1, f2)) := by
  unfold takeInflows
  by_cases h : n > f1.avail ∨ n > f2.avail <;> simp [h] <;> omega

/-- `takeInflows` is `take` on both windows when both accept. -/
theorem takeInflows_eq_takes (f1 f2 : Inflow) (n : Int) :
    (takeInflows f1 f2 n).1 = ((f1.take n).1 && (f2.take n).1) ∧
    ((takeInflows f1 f2 n).1 = true → (takeInflows f1 f2 n).2 = ((f1.take n).2, (f2.take n).2)) := by
  unfold takeInflows Inflow.take
  by_cases h1 : n > f1.avail <;> by_cases h2 : n > f2.avail <;> simp [h1, h2]

/-! ### outflow -/

theorem wrap32_id (x : Int) (h : IsInt32 x) : wrap32 x = x := by
  unfold IsInt32 at h
  unfold wrap32
  show (x + 2147483648) % 4294967296 - 2147483648 = x
  omega

theorem wrap32_range (x : Int) : IsInt32 (wrap32 x) := by
  unfold IsInt32 wrap32
  show -2147483648 ≤ (x + 2147483648) % 4294967296 - 2147483648 ∧
       (x + 2147483648) % 4294967296 - 2147483648 ≤ 2147483647
  omega

/-- `outflow.add` returns true iff the exact sum is representable as an int32 (in
particular it returns false whenever the sum would exceed 2^31-1), and then stores it. -/
theorem outflow_add_spec (f : Outflow) (n : Int) (hf : IsInt32 f.n) (hn : IsInt32 n) :
    ((f.add n).1 = true ↔ IsInt32 (f.n + n)) ∧
    ((f.add n).1 = true → (f.add n).2 = { f with n := f.n + n }) ∧
    ((f.add n).1 = false → (f.add n).2 = f) := by
  unfold IsInt32 at *
  unfold Outflow.add
  generalize hwv : wrap32 (f.n + n) = w
  have hw : (-2147483648 ≤ f.n + n ∧ f.n + n ≤ 2147483647 ∧ w = f.n + n) ∨
            (f.n + n > 2147483647 ∧ w = f.n + n - 4294967296) ∨
            (f.n + n < -2147483648 ∧ w = f.n + n + 4294967296) := by
    subst hwv
    unfold wrap32
    show (_ ∧ _ ∧ (f.n + n + 2147483648) % 4294967296 - 2147483648 = _) ∨
         (_ ∧ (f.n + n + 2147483648) % 4294967296 - 2147483648 = _) ∨
         (_ ∧ (f.n + n + 2147483648) % 4294967296 - 2147483648 = _)
    omega
  dsimp only
  rcases hw with ⟨h1, h2, h3⟩ | ⟨h1, h3⟩ | ⟨h1, h3⟩
  · subst h3
    by_cases h0 : f.n > 0
    · have : f.n + n > n := by omega
      simp [h0, this, h1, h2]
    · have : ¬ f.n + n > n := by omega
      simp [h0, this, h1, h2]
  · have a : ¬ w > n := by omega
    have b : f.n > 0 := by omega
    have c : ¬ f.n + n ≤ 2147483647 := by omega
    simp [a, b, c]
  · have a : w > n := by omega
    have b : ¬ f.n > 0 := by omega
    have c : ¬ -2147483648 ≤ f.n + n := by omega
    simp [a, b, c]

/-- `available` is the minimum of the stream and connection windows. -/
theorem outflow_available_spec (f : Outflow) :
    f.available ≤ f.n ∧ (∀ c, f.conn = some c → f.available ≤ c ∧ (f.available = c ∨ f.available = f.n)) ∧
    (f.conn = none → f.available = f.n) := by
  unfold Outflow.available
  cases hc : f.conn with
  | none => simp
  | some c =>
    by_cases h : c < f.n <;> simp [h] <;> omega

/-- `outflow.take n` panics iff `n > available`; otherwise both counters drop by exactly
`n` (no wrap for `0 ≤ n` on int32 counters) and stay ≥ 0 if they were. -/
theorem outflow_take_spec (f : Outflow) (n : Int) (hn : 0 ≤ n) (hf : IsInt32 f.n)
    (hc : ∀ c, f.conn = some c → IsInt32 c) :
    (f.take n = none ↔ n > f.available) ∧
    (∀ g, f.take n = some g → g.n = f.n - n ∧ g.conn = f.conn.map (· - n) ∧ 0 ≤ g.available - (f.available - n)
        ∧ g.available = f.available - n) := by
  unfold Outflow.take
  by_cases h : n > f.available
  · simp [h]
  · simp only [h, if_false]
    refine ⟨by simp, ?_⟩
    intro g hg
    simp only [Option.some.injEq] at hg
    subst hg
    have av := outflow_available_spec f
    unfold IsInt32 at hf
    cases hcc : f.conn with
    | none =>
      have e : f.available = f.n := av.2.2 hcc
      have w : wrap32 (f.n - n) = f.n - n := wrap32_id _ (by unfold IsInt32; omega)
      simp [Outflow.available, hcc, w] at *
    | some c =>
      have hc' := hc c hcc
      unfold IsInt32 at hc'
      have ⟨a1, a2⟩ := av.2.1 c hcc
      have w1 : wrap32 (f.n - n) = f.n - n := wrap32_id _ (by unfold IsInt32; omega)
      have w2 : wrap32 (c - n) = c - n := wrap32_id _ (by unfold IsInt32; omega)
      simp only [Option.map_some, w1, w2, true_and]
      unfold Outflow.available at *
      simp only [hcc] at *
      by_cases hlt : c < f.n
      · have : c - n < f.n - n := by omega
        simp [hlt, this]
      · have : ¬ c - n < f.n - n := by omega
        simp [hlt, this]

end NetVerif.Proofs.Flow
