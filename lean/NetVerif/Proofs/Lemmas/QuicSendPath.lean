import NetVerif.Model.QuicStream
import NetVerif.Proofs.C24
import NetVerif.Proofs.Lemmas.RangesetBounds
/-! Send-path invariant of one QUIC stream (used by Proofs/C20 `send_path_holds`). -/
namespace NetVerif.Proofs.Lemmas.QuicSendPath
open NetVerif.Model NetVerif.Model.QuicStream
open NetVerif.Model.Rangeset (RS Rg)
open NetVerif.Proofs.C24 (Mem WF Chain mem_add wf_add mem_sub wf_sub chain_head_le)
open NetVerif.Proofs.Lemmas.RangesetBounds

/-- the flushed, permitted prefix of the stream -/
def lim (s : Stream) : Int := imin s.outflushed s.outwin

/-- Send-side invariant of a stream that has not been reset. -/
structure SInv (s : Stream) : Prop where
  bound : s.outmaxsent ≤ lim s
  uRP : AllRP (lim s) (lim s) s.outunsent
  uWF : WF s.outunsent
  uNew : ∀ x, s.outmaxsent ≤ x → x < lim s → Mem s.outunsent x    -- never-sent permitted bytes are unsent
  aRP : AllRP s.outmaxsent s.outmaxsent s.outacked
  start : s.out.start ≤ s.outmaxsent
  flushed : s.outflushed ≤ s.out.stop

theorem imin_le_left (a b : Int) : imin a b ≤ a := by unfold imin; split <;> omega
theorem imin_le_right (a b : Int) : imin a b ≤ b := by unfold imin; split <;> omega
theorem le_imin {a b c : Int} (h1 : c ≤ a) (h2 : c ≤ b) : c ≤ imin a b := by unfold imin; split <;> omega

theorem ptoEnd_bounds (start e : Int) (acked : List Rg) (hse : start ≤ e) (ha : ∀ r ∈ acked, r.s ≤ e) :
    0 ≤ ptoEnd start e acked ∧ start + ptoEnd start e acked ≤ e := by
  induction acked with
  | nil => simp [ptoEnd]; omega
  | cons r rest ih =>
    unfold ptoEnd
    have hr := ha r (by simp)
    by_cases h : r.s > start
    · simp only [h, if_true]; omega
    · simp only [h, if_false]; exact ih (fun x hx => ha x (by simp [hx]))

/-- the range chosen by `dataToSend` starts at or below `outmaxsent` and stays within the permitted prefix -/
theorem dataToSend_facts (s : Stream) (h : SInv s) (pto : Bool) :
    let d := dataToSend (imin s.out.start s.outwin) (lim s) s.outunsent s.outacked pto
    d.1 ≤ s.outmaxsent ∧ 0 ≤ d.2 ∧ d.1 + d.2 ≤ lim s := by
  unfold dataToSend
  by_cases hp : pto = true
  · simp only [hp, if_true]
    have h1 : imin s.out.start s.outwin ≤ s.outmaxsent := Int.le_trans (imin_le_left _ _) h.start
    have hb := ptoEnd_bounds (imin s.out.start s.outwin) (lim s) s.outacked (Int.le_trans h1 h.bound)
      (fun r hr => by have := h.aRP r hr; unfold RP at this; have := h.bound; omega)
    exact ⟨h1, hb.1, hb.2⟩
  · have hp' : pto = false := by simpa using hp
    subst hp'
    simp only [Bool.false_eq_true, if_false]
    cases hu : s.outunsent with
    | nil =>
      simp only []
      have : lim s ≤ s.outmaxsent := by
        apply Int.not_lt.1
        intro hlt
        have := h.uNew s.outmaxsent (Int.le_refl _) hlt
        rw [hu] at this; simp at this
      refine ⟨this, Int.le_refl _, by omega⟩
    | cons r0 rest =>
      simp only []
      have hr0 := h.uRP r0 (by rw [hu]; simp)
      unfold RP at hr0
      refine ⟨?_, by omega, by omega⟩
      by_cases hlt : s.outmaxsent < lim s
      · have hm := h.uNew s.outmaxsent (Int.le_refl _) hlt
        rw [hu] at hm
        obtain ⟨b, hb⟩ := h.uWF
        rw [hu] at hb
        exact chain_head_le hb hm
      · omega


/-- `SInv` only looks at these fields. -/
theorem SInv_congr {s t : Stream} (h : SInv s) (h1 : t.outmaxsent = s.outmaxsent) (h2 : t.outflushed = s.outflushed)
    (h3 : t.outwin = s.outwin) (h4 : t.outunsent = s.outunsent) (h5 : t.outacked = s.outacked) (h6 : t.out = s.out) :
    SInv t := by
  have hl : lim t = lim s := by unfold lim; rw [h2, h3]
  exact ⟨by rw [h1, hl]; exact h.bound, by rw [hl, h4]; exact h.uRP, by rw [h4]; exact h.uWF,
    by rw [h1, hl, h4]; exact h.uNew, by rw [h1, h5]; exact h.aRP, by rw [h6, h1]; exact h.start,
    by rw [h2, h6]; exact h.flushed⟩

/-- Placing `[off, e)` into a STREAM frame: `outmaxsent` becomes `max(outmaxsent, e)`, the range leaves `unsent`. -/
theorem SInv_sent (s : Stream) (h : SInv s) (off e : Int) (hoe : off ≤ e) (he : e ≤ lim s) :
    SInv { s with outmaxsent := (charge 0 s.outmaxsent e).2, outunsent := Rangeset.sub s.outunsent off e } := by
  have hm : (charge 0 s.outmaxsent e).2 = (if e > s.outmaxsent then e else s.outmaxsent) := by
    unfold charge; split <;> rfl
  have hge : s.outmaxsent ≤ (charge 0 s.outmaxsent e).2 ∧ e ≤ (charge 0 s.outmaxsent e).2 ∧
      (charge 0 s.outmaxsent e).2 ≤ lim s := by
    rw [hm]; have := h.bound; split <;> omega
  refine ⟨?_, ?_, ?_, ?_, ?_, ?_, ?_⟩
  · exact hge.2.2
  · exact sub_rp h.uRP he
  · exact wf_sub _ _ _ h.uWF hoe
  · intro x hx hlt
    show Mem (Rangeset.sub s.outunsent off e) x
    rw [mem_sub _ _ _ h.uWF hoe]
    have hx' : (charge 0 s.outmaxsent e).2 ≤ x := hx
    refine ⟨h.uNew x (by omega) hlt, ?_⟩
    omega
  · exact allRP_mono h.aRP hge.1 hge.1
  · show s.out.start ≤ (charge 0 s.outmaxsent e).2
    have := h.start; omega
  · exact h.flushed

theorem charge_snd (u u' ms e : Int) : (charge u ms e).2 = (charge u' ms e).2 := by
  unfold charge; split <;> rfl


theorem clamp_within (off size ms av : Int) (hs : 0 ≤ size) (hav : 0 ≤ av) (hoff : off ≤ ms) :
    0 ≤ clampSize off size ms av ∧ clampSize off size ms av ≤ size ∧ off + clampSize off size ms av ≤ ms + av := by
  unfold clampSize QuicStream.imax QuicStream.imin
  repeat' split
  all_goals omega

theorem fit_le (a id off size : Int) (fin : Bool) (n : Int) (wf : Bool)
    (h : streamFrameFit a id off size fin = some (n, wf)) (hs : 0 ≤ size) : 0 ≤ n ∧ n ≤ size := by
  unfold streamFrameFit at h
  simp only [] at h
  generalize (if off ≠ 0 then szv off else 0) = o at h
  by_cases h1 : (a - 1 - szv id - o - szv size < 0 ∨ (a - 1 - szv id - o - szv size = 0 ∧ size > 0))
  · rw [if_pos h1] at h; exact absurd h (by simp)
  · rw [if_neg h1] at h
    by_cases h2 : a - 1 - szv id - o - szv size < size
    · rw [if_pos h2] at h; simp only [Option.some.injEq, Prod.mk.injEq] at h; omega
    · rw [if_neg h2] at h; simp only [Option.some.injEq, Prod.mk.injEq] at h; omega

/-- what one run of the STREAM loop guarantees -/
structure LoopPost (c c' : Conn) (s s' : Stream) (w w' : Writer) : Prop where
  omax : c'.omax = c.omax
  used : c'.oused ≤ c'.omax
  inv : SInv s'
  charged : c'.oused - c.oused = s'.outmaxsent - s.outmaxsent
  mono : s.outmaxsent ≤ s'.outmaxsent
  win : s'.outwin = s.outwin
  reset : s'.outreset = s.outreset
  sid : s'.id = s.id
  recs : ∀ r ∈ w'.recs, r ∈ w.recs ∨ ∃ a e f, r = Rec.stream s.id a e f ∧ a ≤ e ∧ e ≤ s'.outmaxsent

theorem LoopPost.refl (c : Conn) (s : Stream) (w : Writer) (hc : c.oused ≤ c.omax) (hs : SInv s) :
    LoopPost c c s s w w :=
  ⟨rfl, hc, hs, by omega, Int.le_refl _, rfl, rfl, rfl, fun r hr => Or.inl hr⟩

theorem LoopPost.trans {c c1 c2 : Conn} {s s1 s2 : Stream} {w w1 w2 : Writer}
    (h1 : LoopPost c c1 s s1 w w1) (h2 : LoopPost c1 c2 s1 s2 w1 w2) : LoopPost c c2 s s2 w w2 := by
  refine ⟨by rw [h2.omax, h1.omax], h2.used, h2.inv, ?_, Int.le_trans h1.mono h2.mono, by rw [h2.win, h1.win],
    by rw [h2.reset, h1.reset], by rw [h2.sid, h1.sid], ?_⟩
  · have := h1.charged; have := h2.charged; omega
  · intro r hr
    rcases h2.recs r hr with h | ⟨a, e, f, h, h3, h4⟩
    · rcases h1.recs r h with h | ⟨a, e, f, h, h3, h4⟩
      · exact Or.inl h
      · exact Or.inr ⟨a, e, f, h, h3, Int.le_trans h4 h2.mono⟩
    · exact Or.inr ⟨a, e, f, by rw [h, h1.sid], h3, h4⟩

/-- one frame placed by the loop -/
theorem step_post (c : Conn) (s : Stream) (w : Writer) (pn : Int) (hc : c.oused ≤ c.omax) (hs : SInv s)
    (off size n : Int) (wireFin : Bool) (data : List Nat)
    (hoff : off ≤ s.outmaxsent) (hsz : 0 ≤ size) (hlim : off + size ≤ lim s)
    (hn : 0 ≤ n) (hn2 : n ≤ clampSize off size s.outmaxsent (avail c.omax c.oused)) :
    LoopPost c { c with oused := (charge c.oused s.outmaxsent (off + n)).1 } s
      (markFin (frameOpensStream
        { s with outmaxsent := (charge c.oused s.outmaxsent (off + n)).2,
                 outunsent := Rangeset.sub s.outunsent off (off + n) } pn) wireFin pn)
      w (w.put (streamFrameCost s.id off n) (.stream s.id off data wireFin) (.stream s.id off (off + n) wireFin)) := by
  have hav : 0 ≤ avail c.omax c.oused := by unfold avail; omega
  have hcl := clamp_within off size s.outmaxsent (avail c.omax c.oused) hsz hav hoff
  have he : off + n ≤ lim s := by omega
  have hinv := SInv_sent s hs off (off + n) (by omega) he
  rw [charge_snd 0 c.oused] at hinv
  have hch : (charge c.oused s.outmaxsent (off + n)).1 ≤ c.omax ∧
      (charge c.oused s.outmaxsent (off + n)).1 - c.oused = (charge c.oused s.outmaxsent (off + n)).2 - s.outmaxsent ∧
      s.outmaxsent ≤ (charge c.oused s.outmaxsent (off + n)).2 ∧ off + n ≤ (charge c.oused s.outmaxsent (off + n)).2 := by
    unfold charge consume avail at *
    split <;> simp <;> omega
  have hfields : ∀ t : Stream, (markFin (frameOpensStream t pn) wireFin pn).outmaxsent = t.outmaxsent ∧
      (markFin (frameOpensStream t pn) wireFin pn).outflushed = t.outflushed ∧
      (markFin (frameOpensStream t pn) wireFin pn).outwin = t.outwin ∧
      (markFin (frameOpensStream t pn) wireFin pn).outunsent = t.outunsent ∧
      (markFin (frameOpensStream t pn) wireFin pn).outacked = t.outacked ∧
      (markFin (frameOpensStream t pn) wireFin pn).out = t.out ∧
      (markFin (frameOpensStream t pn) wireFin pn).outreset = t.outreset ∧
      (markFin (frameOpensStream t pn) wireFin pn).id = t.id := by
    intro t; unfold markFin frameOpensStream
    cases wireFin <;> simp <;> split <;> simp
  have hf := hfields ({ s with outmaxsent := (charge c.oused s.outmaxsent (off + n)).2, outunsent := Rangeset.sub s.outunsent off (off + n) } : Stream)
  refine ⟨rfl, hch.1, SInv_congr hinv hf.1 hf.2.1 hf.2.2.1 hf.2.2.2.1 hf.2.2.2.2.1 hf.2.2.2.2.2.1, ?_, ?_, ?_, ?_, ?_, ?_⟩
  · rw [hf.1]; exact hch.2.1
  · rw [hf.1]; exact hch.2.2.1
  · rw [hf.2.2.1]
  · rw [hf.2.2.2.2.2.2.1]
  · rw [hf.2.2.2.2.2.2.2]
  · intro r hr
    simp only [Writer.put, List.mem_append, List.mem_singleton] at hr
    rcases hr with hr | hr
    · exact Or.inl hr
    · exact Or.inr ⟨off, off + n, wireFin, hr, by omega, by rw [hf.1]; exact hch.2.2.2⟩


/-- **The STREAM loop of `appendOutFramesLocked` keeps the invariant, for any fuel.** -/
theorem outLoop_post : ∀ (fuel : Nat) (c : Conn) (s : Stream) (w : Writer) (pn : Int) (pto : Bool),
    c.oused ≤ c.omax → SInv s →
    LoopPost c (outLoop fuel c s w pn pto).1 s (outLoop fuel c s w pn pto).2.1 w (outLoop fuel c s w pn pto).2.2.1 := by
  intro fuel
  induction fuel with
  | zero => intro c s w pn pto hc hs; simp only [outLoop]; exact LoopPost.refl c s w hc hs
  | succ k ih =>
    intro c s w pn pto hc hs
    have hd := dataToSend_facts s hs pto
    unfold lim at hd
    unfold outLoop
    generalize dataToSend (imin s.out.start s.outwin) (imin s.outflushed s.outwin) s.outunsent s.outacked pto = d at hd ⊢
    obtain ⟨off, size⟩ := d
    simp only [] at hd ⊢
    have hav : 0 ≤ avail c.omax c.oused := by unfold avail; omega
    have hcl := clamp_within off size s.outmaxsent (avail c.omax c.oused) hd.2.1 hav hd.1
    split
    · exact LoopPost.refl c s w hc hs
    · split
      · exact LoopPost.refl c s w hc hs
      · rename_i n wireFin hfit
        have hn := fit_le _ _ _ _ _ _ _ hfit hcl.1
        split
        · -- Pipe.copy failed (a Go panic): only the `panicked` flag changes
          refine ⟨rfl, hc, SInv_congr hs rfl rfl rfl rfl rfl rfl, by simp, Int.le_refl _, rfl, rfl, rfl, fun r hr => Or.inl hr⟩
        · rename_i data hcopy
          have hstep := step_post c s w pn hc hs off size n wireFin data hd.1 hd.2.1 hd.2.2 hn.1 hn.2
          split
          · exact hstep
          · split
            · exact hstep
            · exact LoopPost.trans hstep (ih _ _ _ pn pto hstep.used hstep.inv)


/-! ### the other send-side operations -/

theorem pipeWrite_bounds (p : Pipe.Pipe) (b : List Nat) (off : Int) :
    (pipeWrite p b off).1.start = p.start ∧ p.stop ≤ (pipeWrite p b off).1.stop := by
  unfold pipeWrite Pipe.writeAt Pipe.writeLoop
  simp only []
  repeat' split
  all_goals simp
  all_goals omega

theorem imin_eq (a b : Int) : imin a b = (if b ≤ a then b else a) := by
  unfold imin; split <;> split <;> omega

/-- `flushLocked` keeps the invariant. -/
theorem flushLocked_inv (s : Stream) (h : SInv s) :
    SInv (flushLocked s) ∧ (flushLocked s).outmaxsent = s.outmaxsent ∧ (flushLocked s).outwin = s.outwin ∧
      (flushLocked s).outreset = s.outreset := by
  -- flushFast only moves out.stop forward
  have hff : (flushFast s).out.start = s.out.start ∧ s.out.stop ≤ (flushFast s).out.stop ∧
      (flushFast s).outmaxsent = s.outmaxsent ∧ (flushFast s).outflushed = s.outflushed ∧
      (flushFast s).outwin = s.outwin ∧ (flushFast s).outunsent = s.outunsent ∧
      (flushFast s).outacked = s.outacked ∧ (flushFast s).outreset = s.outreset := by
    unfold flushFast; split
    · simp
    · simp; omega
  unfold flushLocked
  simp only []
  generalize flushFast s = t at hff ⊢
  obtain ⟨f1, f2, f3, f4, f5, f6, f7, f8⟩ := hff
  have hb := h.bound; have hfl := h.flushed
  by_cases hlt : t.outflushed < t.outwin
  · simp only [hlt, if_true]
    refine ⟨?_, by simp [f3], by simp [f5], by simp [f8]⟩
    have hlt' : s.outflushed < s.outwin := by rw [← f4, ← f5]; exact hlt
    have hlim : lim s = s.outflushed := by unfold lim imin; split <;> omega
    have hen : (if t.outwin ≤ t.out.stop then t.outwin else t.out.stop) = imin t.out.stop t.outwin := (imin_eq _ _).symm
    have hge : s.outflushed ≤ imin t.out.stop t.outwin := by
      apply le_imin <;> omega
    refine ⟨?_, ?_, ?_, ?_, ?_, ?_, ?_⟩
    · show t.outmaxsent ≤ imin t.out.stop t.outwin
      rw [f3]; rw [hlim] at hb; omega
    · show AllRP (imin t.out.stop t.outwin) (imin t.out.stop t.outwin) (Rangeset.add t.outunsent t.outflushed _)
      rw [hen, f6, f4]
      exact add_rp (allRP_mono h.uRP (by rw [hlim]; exact hge) (by rw [hlim]; exact hge)) hge hge (Int.le_refl _)
    · show WF (Rangeset.add t.outunsent t.outflushed _)
      rw [hen, f6, f4]; exact wf_add _ _ _ h.uWF hge
    · intro x hx hxl
      show Mem (Rangeset.add t.outunsent t.outflushed _) x
      rw [hen, f6, f4, mem_add _ _ _ h.uWF hge]
      have hx' : s.outmaxsent ≤ x := by rw [← f3]; exact hx
      have hxl' : x < imin t.out.stop t.outwin := hxl
      by_cases hc : x < s.outflushed
      · left; exact h.uNew x hx' (by rw [hlim]; exact hc)
      · right; omega
    · show AllRP t.outmaxsent t.outmaxsent t.outacked
      rw [f3, f7]; exact h.aRP
    · show t.out.start ≤ t.outmaxsent
      rw [f1, f3]; exact h.start
    · show t.out.stop ≤ t.out.stop
      exact Int.le_refl _
  · simp only [hlt, if_false]
    refine ⟨?_, by simp [f3], by simp [f5], by simp [f8]⟩
    have hge : s.outwin ≤ s.outflushed := by rw [← f4, ← f5]; omega
    have hlim : lim s = s.outwin := by unfold lim imin; split <;> omega
    have hlim' : imin t.out.stop t.outwin = s.outwin := by rw [f5]; unfold imin; split <;> omega
    refine ⟨?_, ?_, ?_, ?_, ?_, ?_, ?_⟩
    · show t.outmaxsent ≤ imin t.out.stop t.outwin
      rw [hlim', f3]; rw [hlim] at hb; exact hb
    · show AllRP (imin t.out.stop t.outwin) (imin t.out.stop t.outwin) t.outunsent
      rw [hlim', f6, ← hlim]; exact h.uRP
    · show WF t.outunsent
      rw [f6]; exact h.uWF
    · intro x hx hxl
      show Mem t.outunsent x
      have hxl' : x < imin t.out.stop t.outwin := hxl
      rw [f6]; exact h.uNew x (by rw [← f3]; exact hx) (by rw [hlim, ← hlim']; exact hxl')
    · show AllRP t.outmaxsent t.outmaxsent t.outacked
      rw [f3, f7]; exact h.aRP
    · show t.out.start ≤ t.outmaxsent
      rw [f1, f3]; exact h.start
    · show t.out.stop ≤ t.out.stop
      exact Int.le_refl _


/-- `SInv` from the values of the fields it looks at. -/
theorem SInv_fields {s t : Stream} (h1 : t.outmaxsent = s.outmaxsent) (h5 : t.outacked = s.outacked)
    (hstart : t.out.start ≤ t.outmaxsent) (hfl : t.outflushed ≤ t.out.stop)
    (hb : t.outmaxsent ≤ lim t) (hu : AllRP (lim t) (lim t) t.outunsent) (hw : WF t.outunsent)
    (hn : ∀ x, t.outmaxsent ≤ x → x < lim t → Mem t.outunsent x) (h : SInv s) : SInv t :=
  ⟨hb, hu, hw, hn, by rw [h1, h5]; exact h.aRP, hstart, hfl⟩

/-- `handleMaxStreamData` (any value: stale and duplicate ones change nothing). -/
theorem handleMaxStreamData_inv (s : Stream) (v : Int) (h : SInv s) :
    SInv (handleMaxStreamData s v) ∧ (handleMaxStreamData s v).outmaxsent = s.outmaxsent ∧
      s.outwin ≤ (handleMaxStreamData s v).outwin ∧ (handleMaxStreamData s v).outreset = s.outreset := by
  by_cases hv : v ≤ s.outwin
  · have he : handleMaxStreamData s v = s := by unfold handleMaxStreamData; simp [hv]
    rw [he]; exact ⟨h, rfl, Int.le_refl _, rfl⟩
  · have hf : (handleMaxStreamData s v).outmaxsent = s.outmaxsent ∧ (handleMaxStreamData s v).outflushed = s.outflushed ∧
        (handleMaxStreamData s v).outwin = v ∧ (handleMaxStreamData s v).outacked = s.outacked ∧
        (handleMaxStreamData s v).out = s.out ∧ (handleMaxStreamData s v).outreset = s.outreset ∧
        (handleMaxStreamData s v).outunsent = (if s.outflushed > s.outwin then
          Rangeset.add s.outunsent s.outwin (if v ≤ s.outflushed then v else s.outflushed) else s.outunsent) := by
      unfold handleMaxStreamData
      simp only [hv, if_false]
      repeat' split
      all_goals simp_all
    generalize handleMaxStreamData s v = t at hf ⊢
    obtain ⟨f1, f2, f3, f4, f5, f6, f7⟩ := hf
    refine ⟨?_, f1, by omega, f6⟩
    have hb := h.bound
    have hlt : lim t = imin s.outflushed v := by unfold lim; rw [f2, f3]
    have hmono : lim s ≤ lim t := by rw [hlt]; unfold lim imin; repeat' split
                                     all_goals omega
    apply SInv_fields f1 f4 (by rw [f5, f1]; exact h.start) (by rw [f2, f5]; exact h.flushed) _ _ _ _ h
    · rw [f1]; omega
    · rw [f7]
      by_cases hc : s.outflushed > s.outwin
      · simp only [hc, if_true]
        have hl : lim s = s.outwin := by unfold lim imin; split <;> omega
        have he : (if v ≤ s.outflushed then v else s.outflushed) = lim t := by rw [hlt, imin_eq]
        rw [he]
        exact add_rp (allRP_mono h.uRP hmono hmono) (by rw [← hl]; exact hmono) (by rw [← hl]; exact hmono) (Int.le_refl _)
      · simp only [hc, if_false]; exact allRP_mono h.uRP hmono hmono
    · rw [f7]
      by_cases hc : s.outflushed > s.outwin
      · simp only [hc, if_true]
        have hl : lim s = s.outwin := by unfold lim imin; split <;> omega
        have he : (if v ≤ s.outflushed then v else s.outflushed) = lim t := by rw [hlt, imin_eq]
        exact wf_add _ _ _ h.uWF (by rw [he, ← hl]; exact hmono)
      · simp only [hc, if_false]; exact h.uWF
    · intro x hx hxl
      rw [f1] at hx
      rw [f7]
      by_cases hc : s.outflushed > s.outwin
      · simp only [hc, if_true]
        have hl : lim s = s.outwin := by unfold lim imin; split <;> omega
        have he : (if v ≤ s.outflushed then v else s.outflushed) = lim t := by rw [hlt, imin_eq]
        rw [mem_add _ _ _ h.uWF (by rw [he, ← hl]; exact hmono), he]
        by_cases hx2 : x < s.outwin
        · left; exact h.uNew x hx (by rw [hl]; exact hx2)
        · right; omega
      · simp only [hc, if_false]
        have : lim t = lim s := by rw [hlt]; unfold lim imin; repeat' split
                                   all_goals omega
        exact h.uNew x hx (by rw [← this]; exact hxl)


theorem foldl_sub_keep (M : Int) (acked : List Rg) : ∀ (u : RS), WF u → (∀ a ∈ acked, a.s ≤ a.e ∧ a.e ≤ M) →
    WF (acked.foldl (fun u a => Rangeset.sub u a.s a.e) u) ∧
    ∀ x, M ≤ x → (Mem (acked.foldl (fun u a => Rangeset.sub u a.s a.e) u) x ↔ Mem u x) := by
  induction acked with
  | nil => intro u hu _; exact ⟨hu, fun x _ => Iff.rfl⟩
  | cons a rest ih =>
    intro u hu ha
    have haa := ha a (by simp)
    simp only [List.foldl_cons]
    have := ih (Rangeset.sub u a.s a.e) (wf_sub _ _ _ hu haa.1) (fun x hx => ha x (by simp [hx]))
    refine ⟨this.1, fun x hx => ?_⟩
    rw [this.2 x hx, mem_sub _ _ _ hu haa.1]
    constructor
    · exact fun h => h.1
    · exact fun h => ⟨h, by omega⟩

/-- `ackOrLossData` for a frame `[st,en)` that was really sent (`en ≤ outmaxsent`), either fate. -/
theorem ackOrLossData_inv (s : Stream) (pn st en : Int) (fin acked : Bool) (h : SInv s)
    (hse : st ≤ en) (hen : en ≤ s.outmaxsent) :
    SInv (ackOrLossData s pn st en fin acked) ∧ (ackOrLossData s pn st en fin acked).outmaxsent = s.outmaxsent ∧
      (ackOrLossData s pn st en fin acked).outwin = s.outwin ∧
      ((ackOrLossData s pn st en fin acked).outreset = s.outreset) := by
  have hb := h.bound
  by_cases hr : s.outreset.isSet = true
  · have : ackOrLossData s pn st en fin acked =
        (if fin then { { s with outopened := s.outopened.ackOrLoss pn acked } with outclosed := s.outclosed.ackOrLoss pn acked }
         else { s with outopened := s.outopened.ackOrLoss pn acked }) := by
      unfold ackOrLossData; cases fin <;> simp [hr]
    rw [this]
    cases fin <;> exact ⟨SInv_congr h rfl rfl rfl rfl rfl rfl, rfl, rfl, rfl⟩
  · cases acked with
    | true =>
      have hf : (ackOrLossData s pn st en fin true).outmaxsent = s.outmaxsent ∧
          (ackOrLossData s pn st en fin true).outflushed = s.outflushed ∧
          (ackOrLossData s pn st en fin true).outwin = s.outwin ∧
          (ackOrLossData s pn st en fin true).outreset = s.outreset ∧
          (ackOrLossData s pn st en fin true).outacked = Rangeset.add s.outacked st en ∧
          (ackOrLossData s pn st en fin true).outunsent = Rangeset.sub s.outunsent st en ∧
          ((ackOrLossData s pn st en fin true).out = s.out ∨
            ∃ r0 ∈ Rangeset.add s.outacked st en,
              (ackOrLossData s pn st en fin true).out = Pipe.discardBefore s.out r0.e) := by
        unfold ackOrLossData
        cases fin <;> simp [hr] <;> (repeat' split) <;> simp_all
      generalize ackOrLossData s pn st en fin true = t at hf ⊢
      obtain ⟨f1, f2, f3, f4, f5, f6, f7⟩ := hf
      refine ⟨?_, f1, f3, f4⟩
      have hl : lim t = lim s := by unfold lim; rw [f2, f3]
      have hak : AllRP s.outmaxsent s.outmaxsent (Rangeset.add s.outacked st en) :=
        add_rp h.aRP hse (by omega) hen
      refine ⟨by rw [f1, hl]; exact hb, ?_, ?_, ?_, by rw [f1, f5]; exact hak, ?_, ?_⟩
      · rw [hl, f6]; exact sub_rp h.uRP (by omega)
      · rw [f6]; exact wf_sub _ _ _ h.uWF hse
      · intro x hx hxl
        rw [f1] at hx; rw [hl] at hxl
        rw [f6, mem_sub _ _ _ h.uWF hse]
        exact ⟨h.uNew x hx hxl, by omega⟩
      · rw [f1]
        rcases f7 with f7 | ⟨r0, hr0, f7⟩
        · rw [f7]; exact h.start
        · rw [f7]; unfold Pipe.discardBefore; simp only []
          have := hak r0 hr0; unfold RP at this; omega
      · rw [f2]
        rcases f7 with f7 | ⟨r0, hr0, f7⟩
        · rw [f7]; exact h.flushed
        · rw [f7]; unfold Pipe.discardBefore; simp only []
          have := h.flushed; split <;> omega
    | false =>
      have hf : (ackOrLossData s pn st en fin false).outmaxsent = s.outmaxsent ∧
          (ackOrLossData s pn st en fin false).outflushed = s.outflushed ∧
          (ackOrLossData s pn st en fin false).outwin = s.outwin ∧
          (ackOrLossData s pn st en fin false).outreset = s.outreset ∧
          (ackOrLossData s pn st en fin false).outacked = s.outacked ∧
          (ackOrLossData s pn st en fin false).out = s.out ∧
          (ackOrLossData s pn st en fin false).outunsent =
            s.outacked.foldl (fun u a => Rangeset.sub u a.s a.e) (Rangeset.add s.outunsent st en) := by
        unfold ackOrLossData
        cases fin <;> simp [hr]
      generalize ackOrLossData s pn st en fin false = t at hf ⊢
      obtain ⟨f1, f2, f3, f4, f5, f6, f7⟩ := hf
      refine ⟨?_, f1, f3, f4⟩
      have hl : lim t = lim s := by unfold lim; rw [f2, f3]
      have hadd : AllRP (lim s) (lim s) (Rangeset.add s.outunsent st en) := add_rp h.uRP hse (by omega) (by omega)
      have haa : ∀ a ∈ s.outacked, a.s ≤ a.e ∧ a.e ≤ s.outmaxsent := fun a ha => by
        have := h.aRP a ha; unfold RP at this; omega
      have hk := foldl_sub_keep s.outmaxsent s.outacked _ (wf_add _ _ _ h.uWF hse) haa
      apply SInv_fields f1 f5 (by rw [f6, f1]; exact h.start) (by rw [f2, f6]; exact h.flushed) _ _ _ _ h
      · rw [f1, hl]; exact hb
      · rw [hl, f7]; exact foldl_sub_rp _ _ hadd (fun a ha => by have := haa a ha; omega)
      · rw [f7]; exact hk.1
      · intro x hx hxl
        rw [f1] at hx; rw [hl] at hxl
        rw [f7, hk.2 x hx, mem_add _ _ _ h.uWF hse]
        left; exact h.uNew x hx hxl


/-- same send fields, pipe window only grows at its end -/
structure SameSend (s t : Stream) : Prop where
  ms : t.outmaxsent = s.outmaxsent
  fl : t.outflushed = s.outflushed
  win : t.outwin = s.outwin
  un : t.outunsent = s.outunsent
  ak : t.outacked = s.outacked
  rs : t.outreset = s.outreset
  start : t.out.start = s.out.start
  stop : s.out.stop ≤ t.out.stop

theorem SInv_same {s t : Stream} (h : SInv s) (e : SameSend s t) : SInv t := by
  have hl : lim t = lim s := by unfold lim; rw [e.fl, e.win]
  exact ⟨by rw [e.ms, hl]; exact h.bound, by rw [hl, e.un]; exact h.uRP, by rw [e.un]; exact h.uWF,
    by rw [e.ms, hl, e.un]; exact h.uNew, by rw [e.ms, e.ak]; exact h.aRP, by rw [e.start, e.ms]; exact h.start,
    by rw [e.fl]; exact Int.le_trans h.flushed e.stop⟩

/-- what every non-sending operation guarantees -/
structure Keeps (s t : Stream) : Prop where
  inv : SInv t
  ms : t.outmaxsent = s.outmaxsent
  win : s.outwin ≤ t.outwin
  rs : t.outreset = s.outreset

theorem Keeps.trans {s t u : Stream} (a : Keeps s t) (b : Keeps t u) : Keeps s u :=
  ⟨b.inv, by rw [b.ms, a.ms], Int.le_trans a.win b.win, by rw [b.rs, a.rs]⟩

theorem keeps_same {s t : Stream} (h : SInv s) (e : SameSend s t) : Keeps s t :=
  ⟨SInv_same h e, e.ms, by rw [e.win]; exact Int.le_refl _, e.rs⟩

theorem keeps_flushLocked (s : Stream) (h : SInv s) : Keeps s (flushLocked s) :=
  have := flushLocked_inv s h
  ⟨this.1, this.2.1, by rw [this.2.2.1]; exact Int.le_refl _, this.2.2.2⟩

theorem flushFast_same (s : Stream) : SameSend s (flushFast s) := by
  unfold flushFast; split
  · exact ⟨rfl, rfl, rfl, rfl, rfl, rfl, rfl, Int.le_refl _⟩
  · exact ⟨rfl, rfl, rfl, rfl, rfl, rfl, rfl, by simp; omega⟩

theorem keeps_refl {s : Stream} (h : SInv s) : Keeps s s :=
  keeps_same h ⟨rfl, rfl, rfl, rfl, rfl, rfl, rfl, Int.le_refl _⟩

theorem keeps_if_flush (c : Bool) {s : Stream} (h : SInv s) : Keeps s (if c = true then flushLocked s else s) := by
  cases c
  · simp; exact keeps_refl h
  · simp; exact keeps_flushLocked s h

theorem keeps_if_blocked (P : Prop) [Decidable P] (v : SV) {t : Stream} (h : SInv t) :
    Keeps t (if P then { t with outblocked := v } else t) := by
  split
  · exact keeps_same h ⟨rfl, rfl, rfl, rfl, rfl, rfl, rfl, Int.le_refl _⟩
  · exact keeps_refl h

theorem writeLoop_keeps : ∀ (fuel : Nat) (s : Stream) (b : List Nat) (n : Nat) (cw : Bool), SInv s →
    Keeps s (writeLoop fuel s b n cw).1 := by
  intro fuel
  induction fuel with
  | zero => intro s b n cw h; simp only [writeLoop]; exact keeps_refl h
  | succ k ih =>
    intro s b n cw h
    unfold writeLoop
    split
    · exact keeps_refl h
    · split
      · exact keeps_refl h
      · split
        · exact keeps_refl h
        · simp only []
          have hpw := pipeWrite_bounds s.out (b.take (if (b.length : Int) ≤ s.out.start + s.outmaxbuf - s.out.stop then (b.length : Int) else s.out.start + s.outmaxbuf - s.out.stop).toNat) s.out.stop
          generalize pipeWrite s.out _ s.out.stop = pw at hpw ⊢
          have k1 : Keeps s { s with out := pw.1, panicked := s.panicked || pw.2 } :=
            keeps_same h ⟨rfl, rfl, rfl, rfl, rfl, rfl, hpw.1, hpw.2⟩
          have k2 := keeps_if_flush (decide (pw.1.stop ≥ s.outwin) || decide (pw.1.stop ≥ s.out.start + s.outmaxbuf) ||
            decide (pw.1.stop - s.outflushed ≥ autoFlushSize)) k1.inv
          refine Keeps.trans ?a (ih _ _ _ _ ?b)
          case a => exact Keeps.trans k1 (Keeps.trans k2 (keeps_if_blocked _ _ k2.inv))
          case b => exact (keeps_if_blocked _ _ k2.inv).inv


theorem pokeTail_bounds (p : Pipe.Pipe) (pos : Int) (b : List Nat) :
    (pokeTail p pos b).start = p.start ∧ (pokeTail p pos b).stop = p.stop := by
  unfold pokeTail; split <;> simp

theorem write_keeps (s : Stream) (b : List Nat) (h : SInv s) : Keeps s (write s b).1 := by
  unfold write
  split
  · exact keeps_refl h
  · split
    · exact keeps_same h ⟨rfl, rfl, rfl, rfl, rfl, rfl, (pokeTail_bounds _ _ _).1, by simp [(pokeTail_bounds s.out _ b).2]⟩
    · simp only []
      have k1 := keeps_same h (flushFast_same s)
      have k2 := Keeps.trans k1 (writeLoop_keeps (b.length + 2) (flushFast s) b 0 s.canWrite k1.inv)
      split
      · exact k2
      · split
        · split
          · exact Keeps.trans k2 (keeps_same k2.inv ⟨rfl, rfl, rfl, rfl, rfl, rfl, rfl, Int.le_refl _⟩)
          · exact Keeps.trans k2 (keeps_same k2.inv ⟨rfl, rfl, rfl, rfl, rfl, rfl, rfl, Int.le_refl _⟩)
        · exact k2

theorem flush_keeps (s : Stream) (h : SInv s) : Keeps s (flush s).1 := by
  unfold flush
  split
  · exact keeps_refl h
  · split
    · exact keeps_refl h
    · exact keeps_flushLocked s h

theorem closeWrite_keeps (s : Stream) (h : SInv s) : Keeps s (closeWrite s) := by
  unfold closeWrite
  split
  · exact keeps_refl h
  · have k1 : Keeps s { s with outclosed := s.outclosed.set } :=
      keeps_same h ⟨rfl, rfl, rfl, rfl, rfl, rfl, rfl, Int.le_refl _⟩
    exact Keeps.trans k1 (keeps_flushLocked _ k1.inv)

/-! ### facts that hold in every state (also after a reset) -/

/-- `outmaxsent` and `outreset` untouched, `outwin` not lowered -/
def Frm (s t : Stream) : Prop := t.outmaxsent = s.outmaxsent ∧ s.outwin ≤ t.outwin ∧ t.outreset = s.outreset

theorem Frm.refl (s : Stream) : Frm s s := ⟨rfl, Int.le_refl _, rfl⟩
theorem Frm.trans {s t u : Stream} (a : Frm s t) (b : Frm t u) : Frm s u :=
  ⟨by rw [b.1, a.1], Int.le_trans a.2.1 b.2.1, by rw [b.2.2, a.2.2]⟩

theorem frm_flushFast (s : Stream) : Frm s (flushFast s) := by
  unfold flushFast; split <;> exact ⟨rfl, Int.le_refl _, rfl⟩

theorem frm_flushLocked (s : Stream) : Frm s (flushLocked s) := by
  have h := frm_flushFast s
  unfold flushLocked
  simp only []
  generalize flushFast s = t at h ⊢
  split <;> exact ⟨h.1, h.2.1, h.2.2⟩

theorem frm_writeLoop : ∀ (fuel : Nat) (s : Stream) (b : List Nat) (n : Nat) (cw : Bool),
    Frm s (writeLoop fuel s b n cw).1 := by
  intro fuel
  induction fuel with
  | zero => intro s b n cw; simp only [writeLoop]; exact Frm.refl s
  | succ k ih =>
    intro s b n cw
    unfold writeLoop
    split
    · exact Frm.refl s
    · split
      · exact Frm.refl s
      · split
        · exact Frm.refl s
        · simp only []
          refine Frm.trans ?a (ih _ _ _ _)
          generalize pipeWrite s.out _ s.out.stop = pw
          split
          · split
            · exact Frm.trans (s := s) (t := { s with out := pw.1, panicked := s.panicked || pw.2 }) ⟨rfl, Int.le_refl _, rfl⟩
                (Frm.trans (frm_flushLocked _) ⟨rfl, Int.le_refl _, rfl⟩)
            · exact Frm.trans (s := s) (t := { s with out := pw.1, panicked := s.panicked || pw.2 }) ⟨rfl, Int.le_refl _, rfl⟩
                (frm_flushLocked _)
          · split <;> exact ⟨rfl, Int.le_refl _, rfl⟩

theorem frm_write (s : Stream) (b : List Nat) : Frm s (write s b).1 := by
  unfold write
  split
  · exact Frm.refl s
  · split
    · exact ⟨rfl, Int.le_refl _, rfl⟩
    · simp only []
      have k := Frm.trans (frm_flushFast s) (frm_writeLoop (b.length + 2) (flushFast s) b 0 s.canWrite)
      split
      · exact k
      · split
        · split <;> exact ⟨k.1, k.2.1, k.2.2⟩
        · exact k

theorem frm_flush (s : Stream) : Frm s (flush s).1 := by
  unfold flush; split
  · exact Frm.refl s
  · split
    · exact Frm.refl s
    · exact frm_flushLocked s

theorem frm_closeWrite (s : Stream) : Frm s (closeWrite s) := by
  unfold closeWrite; split
  · exact Frm.refl s
  · exact Frm.trans (s := s) (t := { s with outclosed := s.outclosed.set }) ⟨rfl, Int.le_refl _, rfl⟩ (frm_flushLocked _)

theorem frm_handleMaxStreamData (s : Stream) (v : Int) : Frm s (handleMaxStreamData s v) := by
  unfold handleMaxStreamData Frm
  simp only []
  repeat' split
  all_goals simp_all
  all_goals omega

theorem frm_ackOrLossData (s : Stream) (pn st en : Int) (fin acked : Bool) :
    Frm s (ackOrLossData s pn st en fin acked) := by
  unfold ackOrLossData Frm
  simp only []
  repeat' split
  all_goals simp_all

/-- `resetInternal` leaves `outmaxsent`/`outwin` alone and a reset stream stays reset -/
theorem resetInternal_frm (s : Stream) (code : Int) (u : Bool) :
    (resetInternal s code u).outmaxsent = s.outmaxsent ∧ (resetInternal s code u).outwin = s.outwin ∧
    ((resetInternal s code u).outreset.isSet = true ∨ resetInternal s code u = s) := by
  unfold resetInternal
  simp only []
  repeat' split
  all_goals simp_all [SV.isSet]

end NetVerif.Proofs.Lemmas.QuicSendPath
