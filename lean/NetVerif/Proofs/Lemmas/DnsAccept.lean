import NetVerif.Proofs.Lemmas.DnsMsg
/-!
What `Message.Unpack` accepts is well formed (C37 → C36 bridge): every name canonical, every
integer field within its Go type, addresses of the right size, options/parameters within 16-bit
sizes, unknown bodies only under types without a decoder, and the header `Type` equal to the
body's type. Needs the input to consist of bytes (`BytesWF`).
-/
namespace NetVerif.Proofs.DnsAccept
open NetVerif.Model.Dns NetVerif.Proofs.Dns NetVerif.Proofs.C36 NetVerif.Proofs.DnsMsg

def BytesWF (msg : Bytes) : Prop := ∀ b ∈ msg, b < 256

theorem drop_head_lt {msg : Bytes} (hb : BytesWF msg) {off a : Nat} {rest : Bytes}
    (h : msg.drop off = a :: rest) : a < 256 := by
  apply hb
  apply List.mem_of_mem_drop (i := off)
  rw [h]; simp

theorem drop_tail {msg : Bytes} {off a : Nat} {rest : Bytes} (h : msg.drop off = a :: rest) :
    msg.drop (off + 1) = rest := by
  rw [← List.drop_drop, h]; rfl

theorem u16At_lt {msg : Bytes} (hb : BytesWF msg) {off v o : Nat} (h : u16At msg off = .ok (v, o)) :
    v < 65536 := by
  unfold u16At at h
  split at h
  · rename_i a b rest hd
    have ha := drop_head_lt hb hd
    have hb' := drop_head_lt hb (drop_tail hd)
    simp at h
    omega
  · simp at h

theorem u32At_lt {msg : Bytes} (hb : BytesWF msg) {off v o : Nat} (h : u32At msg off = .ok (v, o)) :
    v < 4294967296 := by
  unfold u32At at h
  split at h
  · rename_i a b c d rest hd
    have h1 := drop_head_lt hb hd
    have h2 := drop_head_lt hb (drop_tail hd)
    have h3 := drop_head_lt hb (drop_tail (drop_tail hd))
    have h4 := drop_head_lt hb (drop_tail (drop_tail (drop_tail hd)))
    simp at h
    omega
  · simp at h

theorem bytesAt_length {msg : Bytes} {off n : Nat} {bs : Bytes} (h : bytesAt msg off n = .ok bs) :
    bs.length = n := by
  unfold bytesAt at h
  split at h
  · simp at h
  · simp at h
    rw [← h]
    simp [List.length_take, List.length_drop]
    omega

theorem unpackName_canonical {msg : Bytes} {off : Nat} {n : Bytes} {o : Nat}
    (h : unpackName msg off = .ok (n, o)) : Canonical n := by
  have := unpackLoop_shape msg unpackFuel off 0 [] off n o (by intro l hl; simp at hl)
    (by simp [textOf]) (by simpa [textOf, unpackName] using h)
  refine ⟨this.1, ?_⟩
  rcases this.2 with ⟨_, h1⟩ | h2
  · exact Or.inl h1
  · exact Or.inr h2

theorem nameOnly_canonical {msg : Bytes} {off : Nat} {n : Bytes}
    (h : nameOnly msg off = .ok n) : Canonical n := by
  unfold nameOnly at h
  split at h
  · rename_i n' o hn
    simp at h
    subst h
    exact unpackName_canonical hn
  · simp at h

theorem optLoop_wf {msg : Bytes} (hb : BytesWF msg) (e : Nat) : ∀ (fuel off : Nat) (os : List (Nat × Bytes)),
    optLoop msg e fuel off = .ok os → WFPairs16 os := by
  intro fuel
  induction fuel with
  | zero => intro off os h; simp [optLoop] at h
  | succ fuel ih =>
    intro off os h
    unfold optLoop at h
    split at h
    · split at h
      · simp at h
      · rename_i code off1 h1
        split at h
        · simp at h
        · rename_i l off2 h2
          split at h
          · simp at h
          · split at h
            · simp at h
            · rename_i hlen
              split at h
              · rename_i os' hrec
                simp at h
                subst h
                intro p hp
                simp only [List.mem_cons] at hp
                rcases hp with rfl | hp
                · have g2 := u16At_lt hb h2
                  have h3 : ((msg.drop off2).take l).length = l := by
                    rw [List.length_take, List.length_drop]; omega
                  exact ⟨u16At_lt hb h1, by simp only []; rw [h3]; exact g2⟩
                · exact ih _ _ hrec p hp
              · simp at h
    · simp at h
      subst h
      intro p hp
      simp at hp

theorem svcbPass1_wf {msg : Bytes} (hb : BytesWF msg) (e : Nat) :
    ∀ (fuel off : Nat) (prev : Option Nat) (l : List (Nat × Nat × Nat)),
    svcbPass1 msg e fuel off prev = .ok l → ∀ x ∈ l, x.1 < 65536 ∧ x.2.1 < 65536 := by
  intro fuel
  induction fuel with
  | zero => intro off prev l h; simp [svcbPass1] at h
  | succ fuel ih =>
    intro off prev l h
    unfold svcbPass1 at h
    split at h
    · split at h
      · simp at h
      · rename_i key off1 h1
        split at h
        · simp at h
        · split at h
          · simp at h
          · rename_i size off2 h2
            split at h
            · simp at h
            · split at h
              · rename_i ps hrec
                simp at h
                subst h
                intro x hx
                simp only [List.mem_cons] at hx
                rcases hx with rfl | hx
                · exact ⟨u16At_lt hb h1, u16At_lt hb h2⟩
                · exact ih _ _ _ hrec x hx
              · simp at h
    · split at h
      · simp at h
      · simp at h
        subst h
        intro x hx
        simp at hx

theorem svcbPass2_wf {msg : Bytes} : ∀ (l : List (Nat × Nat × Nat)) (ps : List (Nat × Bytes)),
    (∀ x ∈ l, x.1 < 65536 ∧ x.2.1 < 65536) → svcbPass2 msg l = .ok ps → WFPairs16 ps := by
  intro l
  induction l with
  | nil =>
    intro ps _ h
    simp [svcbPass2] at h
    subst h
    intro p hp
    simp at hp
  | cons x l ih =>
    intro ps hl h
    rcases x with ⟨key, size, voff⟩
    unfold svcbPass2 at h
    split at h
    · simp at h
    · rename_i hlen
      split at h
      · rename_i ps' hrec
        simp at h
        subst h
        intro p hp
        simp only [List.mem_cons] at hp
        rcases hp with rfl | hp
        · have := hl (key, size, voff) (by simp)
          have h1 : key < 65536 := this.1
          have h2 : size < 65536 := this.2
          have h3 : ((msg.drop voff).take size).length = size := by
            rw [List.length_take, List.length_drop]; omega
          exact ⟨h1, by simp only []; rw [h3]; exact h2⟩
        · exact ih ps' (fun y hy => hl y (by simp [hy])) hrec p hp
      · simp at h

theorem unpackSVCB_wf {msg : Bytes} (hb : BytesWF msg) {off len prio : Nat} {t : Bytes}
    {ps : List (Nat × Bytes)} (h : unpackSVCB msg off len = .ok (prio, t, ps)) :
    prio < 65536 ∧ Canonical t ∧ WFPairs16 ps := by
  unfold unpackSVCB at h
  split at h
  · simp at h
  · rename_i p off1 h1
    split at h
    · simp at h
    · rename_i t' off2 h2
      split at h
      · simp at h
      · split at h
        · simp at h
        · rename_i l h3
          split at h
          · simp at h
          · rename_i ps' h4
            simp at h
            rcases h with ⟨rfl, rfl, rfl⟩
            exact ⟨u16At_lt hb h1, unpackName_canonical h2,
              svcbPass2_wf l _ (svcbPass1_wf hb _ _ _ _ _ h3) h4⟩

theorem map_ok {α β : Type} {r : Except Err α} {f : α → β} {y : β} (h : r.map f = .ok y) :
    ∃ x, r = .ok x ∧ f x = y := by
  cases r with
  | error e => simp [Except.map] at h
  | ok x => exact ⟨x, rfl, by simpa [Except.map] using h⟩

/-- An accepted body is well formed and its type is the header's type. -/
theorem unpackBody_wf {msg : Bytes} (hb : BytesWF msg) {off typ len : Nat} {b : Body}
    (htyp : typ < 65536) (h : unpackBody msg off typ len = .ok b) :
    WFBody b ∧ b.realType = typ := by
  by_cases k1 : typ = 1
  · subst k1
    simp only [unpackBody, Nat.reduceEqDiff, reduceIte] at h
    rcases map_ok h with ⟨x, hx, rfl⟩
    exact ⟨bytesAt_length hx, rfl⟩
  by_cases k2 : typ = 2
  · subst k2
    simp only [unpackBody, Nat.reduceEqDiff, reduceIte] at h
    rcases map_ok h with ⟨x, hx, rfl⟩
    exact ⟨nameOnly_canonical hx, rfl⟩
  by_cases k3 : typ = 5
  · subst k3
    simp only [unpackBody, Nat.reduceEqDiff, reduceIte] at h
    rcases map_ok h with ⟨x, hx, rfl⟩
    exact ⟨nameOnly_canonical hx, rfl⟩
  by_cases k4 : typ = 6
  · subst k4
    simp only [unpackBody, Nat.reduceEqDiff, reduceIte] at h
    split at h
    · simp at h
    · rename_i ns o1 h1
      split at h
      · simp at h
      · rename_i mbox o2 h2
        split at h
        · simp at h
        · rename_i a o3 h3
          split at h
          · simp at h
          · rename_i b' o4 h4
            split at h
            · simp at h
            · rename_i c o5 h5
              split at h
              · simp at h
              · rename_i d o6 h6
                split at h
                · simp at h
                · rename_i e o7 h7
                  simp at h
                  subst h
                  exact ⟨⟨unpackName_canonical h1, unpackName_canonical h2, u32At_lt hb h3, u32At_lt hb h4,
                    u32At_lt hb h5, u32At_lt hb h6, u32At_lt hb h7⟩, rfl⟩
  by_cases k5 : typ = 12
  · subst k5
    simp only [unpackBody, Nat.reduceEqDiff, reduceIte] at h
    rcases map_ok h with ⟨x, hx, rfl⟩
    exact ⟨nameOnly_canonical hx, rfl⟩
  by_cases k6 : typ = 15
  · subst k6
    simp only [unpackBody, Nat.reduceEqDiff, reduceIte] at h
    split at h
    · simp at h
    · rename_i pref o1 h1
      rcases map_ok h with ⟨x, hx, rfl⟩
      exact ⟨⟨u16At_lt hb h1, nameOnly_canonical hx⟩, rfl⟩
  by_cases k7 : typ = 16
  · subst k7
    simp only [unpackBody, Nat.reduceEqDiff, reduceIte] at h
    rcases map_ok h with ⟨x, hx, rfl⟩
    exact ⟨trivial, rfl⟩
  by_cases k8 : typ = 28
  · subst k8
    simp only [unpackBody, Nat.reduceEqDiff, reduceIte] at h
    rcases map_ok h with ⟨x, hx, rfl⟩
    exact ⟨bytesAt_length hx, rfl⟩
  by_cases k9 : typ = 33
  · subst k9
    simp only [unpackBody, Nat.reduceEqDiff, reduceIte] at h
    split at h
    · simp at h
    · rename_i p o1 h1
      split at h
      · simp at h
      · rename_i w o2 h2
        split at h
        · simp at h
        · rename_i port o3 h3
          rcases map_ok h with ⟨x, hx, rfl⟩
          exact ⟨⟨u16At_lt hb h1, u16At_lt hb h2, u16At_lt hb h3, nameOnly_canonical hx⟩, rfl⟩
  by_cases k10 : typ = 64
  · subst k10
    simp only [unpackBody, Nat.reduceEqDiff, reduceIte] at h
    rcases map_ok h with ⟨x, hx, rfl⟩
    rcases x with ⟨p, t, ps⟩
    exact ⟨unpackSVCB_wf hb hx, rfl⟩
  by_cases k11 : typ = 65
  · subst k11
    simp only [unpackBody, Nat.reduceEqDiff, reduceIte] at h
    rcases map_ok h with ⟨x, hx, rfl⟩
    rcases x with ⟨p, t, ps⟩
    exact ⟨unpackSVCB_wf hb hx, rfl⟩
  by_cases k12 : typ = 41
  · subst k12
    simp only [unpackBody, Nat.reduceEqDiff, reduceIte] at h
    rcases map_ok h with ⟨x, hx, rfl⟩
    exact ⟨optLoop_wf hb _ _ _ _ hx, rfl⟩
  · simp only [unpackBody, k1, k2, k3, k4, k5, k6, k7, k8, k9, k10, k11, k12, if_false] at h
    rcases map_ok h with ⟨x, hx, rfl⟩
    refine ⟨⟨htyp, ?_⟩, rfl⟩
    simp [knownTypes]
    omega

theorem unpackQuestion_wf {msg : Bytes} (hb : BytesWF msg) {off : Nat} {q : Question} {o : Nat}
    (h : unpackQuestion msg off = .ok (q, o)) : WFQuestion q := by
  unfold unpackQuestion at h
  split at h
  · simp at h
  · rename_i n o1 h1
    split at h
    · simp at h
    · rename_i t o2 h2
      split at h
      · simp at h
      · rename_i c o3 h3
        simp at h
        rcases h with ⟨rfl, _⟩
        exact ⟨unpackName_canonical h1, u16At_lt hb h2, u16At_lt hb h3⟩

theorem unpackResource_wf {msg : Bytes} (hb : BytesWF msg) {off : Nat} {r : Resource} {o : Nat}
    (h : unpackResource msg off = .ok (r, o)) : WFResource r ∧ r.body.realType = r.hdr.typ := by
  unfold unpackResource at h
  split at h
  · simp at h
  · rename_i hd o1 hh
    split at h
    · simp at h
    · rename_i b hbody
      simp at h
      rcases h with ⟨rfl, _⟩
      unfold unpackRHeader at hh
      split at hh
      · simp at hh
      · rename_i n o2 h1
        split at hh
        · simp at hh
        · rename_i t o3 h2
          split at hh
          · simp at hh
          · rename_i c o4 h3
            split at hh
            · simp at hh
            · rename_i ttl o5 h4
              split at hh
              · simp at hh
              · rename_i len o6 h5
                split at hh
                · simp at hh
                · simp at hh
                  rcases hh with ⟨rfl, rfl⟩
                  have := unpackBody_wf hb (u16At_lt hb h2) hbody
                  exact ⟨⟨unpackName_canonical h1, u16At_lt hb h3, u32At_lt hb h4, this.1⟩, this.2⟩

theorem unpackQuestions_wf {msg : Bytes} (hb : BytesWF msg) : ∀ (k off : Nat) (qs : List Question) (o : Nat),
    unpackQuestions msg k off = .ok (qs, o) → ∀ q ∈ qs, WFQuestion q := by
  intro k
  induction k with
  | zero => intro off qs o h; simp [unpackQuestions] at h; rcases h with ⟨rfl, _⟩; simp
  | succ k ih =>
    intro off qs o h
    unfold unpackQuestions at h
    split at h
    · simp at h
    · rename_i q o1 h1
      split at h
      · simp at h
      · rename_i qs' o2 h2
        simp at h
        rcases h with ⟨rfl, _⟩
        intro x hx
        simp only [List.mem_cons] at hx
        rcases hx with rfl | hx
        · exact unpackQuestion_wf hb h1
        · exact ih _ _ _ h2 x hx

theorem unpackResources_wf {msg : Bytes} (hb : BytesWF msg) : ∀ (k off : Nat) (rs : List Resource) (o : Nat),
    unpackResources msg k off = .ok (rs, o) → ∀ r ∈ rs, WFResource r ∧ r.body.realType = r.hdr.typ := by
  intro k
  induction k with
  | zero => intro off rs o h; simp [unpackResources] at h; rcases h with ⟨rfl, _⟩; simp
  | succ k ih =>
    intro off rs o h
    unfold unpackResources at h
    split at h
    · simp at h
    · rename_i r o1 h1
      split at h
      · simp at h
      · rename_i rs' o2 h2
        simp at h
        rcases h with ⟨rfl, _⟩
        intro x hx
        simp only [List.mem_cons] at hx
        rcases hx with rfl | hx
        · exact unpackResource_wf hb h1
        · exact ih _ _ _ h2 x hx

/-- every record header carries its body's type -/
def TypesConsistent (m : Message) : Prop :=
  (∀ r ∈ m.answers, r.body.realType = r.hdr.typ) ∧ (∀ r ∈ m.authorities, r.body.realType = r.hdr.typ) ∧
  (∀ r ∈ m.additionals, r.body.realType = r.hdr.typ)

/-- **What `Message.Unpack` accepts is a well-formed message.** -/
theorem unpackMessage_wf {msg : Bytes} (hb : BytesWF msg) {m : Message}
    (h : unpackMessage msg = .ok m) : WFMessage m ∧ TypesConsistent m := by
  unfold unpackMessage at h
  split at h
  · rename_i m' o hoff
    simp at h
    subst h
    unfold unpackMessageOff at hoff
    split at hoff
    · simp at hoff
    · rename_i w hw
      split at hoff
      · simp at hoff
      · rename_i qs o1 h1
        split at hoff
        · simp at hoff
        · rename_i an o2 h2
          split at hoff
          · simp at hoff
          · rename_i au o3 h3
            split at hoff
            · simp at hoff
            · rename_i ad o4 h4
              simp at hoff
              rcases hoff with ⟨rfl, _⟩
              have hq := unpackQuestions_wf hb _ _ _ _ h1
              have han := unpackResources_wf hb _ _ _ _ h2
              have hau := unpackResources_wf hb _ _ _ _ h3
              have had := unpackResources_wf hb _ _ _ _ h4
              have hid : w.id < 65536 := by
                unfold unpackWireHeader at hw
                split at hw
                · rename_i a0 a1 _ _ _ _ _ _ _ _ _ _ _
                  have x0 := hb a0 (by simp)
                  have x1 := hb a1 (by simp)
                  simp at hw
                  rw [← hw]
                  simp
                  omega
                · simp at hw
              refine ⟨⟨hid, ?_, ?_, hq, fun r hr => (han r hr).1, fun r hr => (hau r hr).1,
                fun r hr => (had r hr).1⟩, fun r hr => (han r hr).2, fun r hr => (hau r hr).2,
                fun r hr => (had r hr).2⟩
              · simp [headerOfBits]; omega
              · simp [headerOfBits]; omega
  · simp at h

/-! ## Equality up to the `Length` header fields -/

def eraseLen (r : Resource) : Resource := { r with hdr := { r.hdr with length := 0 } }

/-- the message with every `ResourceHeader.Length` blanked (they count packed bytes, which
depend on compression) -/
def eraseLens (m : Message) : Message :=
  { m with answers := m.answers.map eraseLen, authorities := m.authorities.map eraseLen,
           additionals := m.additionals.map eraseLen }

theorem eraseLen_norm (r : Resource) (len : Nat) (h : r.body.realType = r.hdr.typ) :
    eraseLen (normResource r len) = eraseLen r := by
  simp [eraseLen, normResource, h]

theorem eraseLen_zipWith : ∀ (rs : List Resource) (lens : List Nat), lens.length = rs.length →
    (∀ r ∈ rs, r.body.realType = r.hdr.typ) →
    (List.zipWith normResource rs lens).map eraseLen = rs.map eraseLen := by
  intro rs
  induction rs with
  | nil => intro lens _ _; simp
  | cons r rs ih =>
    intro lens hl ht
    cases lens with
    | nil => simp at hl
    | cons l lens =>
      simp only [List.zipWith_cons_cons, List.map_cons]
      rw [eraseLen_norm r l (ht r (by simp)), ih lens (by simpa using hl) (fun x hx => ht x (by simp [hx]))]

theorem eraseLens_norm (m : Message) (l1 l2 l3 : List Nat) (ht : TypesConsistent m)
    (h1 : l1.length = m.answers.length) (h2 : l2.length = m.authorities.length)
    (h3 : l3.length = m.additionals.length) :
    eraseLens (normMessage m l1 l2 l3) = eraseLens m := by
  simp only [eraseLens, normMessage]
  rw [eraseLen_zipWith _ _ h1 ht.1, eraseLen_zipWith _ _ h2 ht.2.1, eraseLen_zipWith _ _ h3 ht.2.2]

end NetVerif.Proofs.DnsAccept
