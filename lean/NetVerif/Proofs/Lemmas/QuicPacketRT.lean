import NetVerif.Model.QuicPacket
import NetVerif.Proofs.Lemmas.QuicCodec
/-! Packet protection: header-protection masking and AEAD sealing are undone by `unprotect`,
with the AEAD and the mask function abstract. -/
namespace NetVerif.Proofs.Lemmas.QuicPacketRT
open NetVerif.Model NetVerif.Model.VarintQuic NetVerif.Model.QuicFrames NetVerif.Model.QuicPacket
open NetVerif.Proofs.Lemmas.QuicCodec

theorem xor_cancel (a b : Nat) : (a ^^^ b) ^^^ b = a := by
  rw [Nat.xor_assoc, Nat.xor_self, Nat.xor_zero]

theorem xorBytes_length : ∀ (a m : List Nat), (xorBytes a m).length = a.length
  | [], _ => by simp [xorBytes]
  | _ :: _, [] => by simp [xorBytes]
  | a :: as, m :: ms => by simp [xorBytes, xorBytes_length as ms]

theorem xorBytes_cancel : ∀ (a m : List Nat), a.length ≤ m.length → xorBytes (xorBytes a m) m = a
  | [], _, _ => by simp [xorBytes]
  | _ :: _, [], h => by simp at h
  | a :: as, m :: ms, h => by
    simp at h
    simp [xorBytes, xor_cancel, xorBytes_cancel as ms h]

/-- Long header: masking the low four bits keeps the form/fixed/type bits and is undone by
masking again. -/
theorem long_first_byte : ∀ tb ∈ [0, 16, 32], ∀ n ∈ [1, 2, 3, 4], ∀ x, x < 16 →
    ((128 + 64 + tb + (n - 1)) ^^^ x) / 128 % 2 = 1 ∧ ((128 + 64 + tb + (n - 1)) ^^^ x) / 64 % 2 = 1 ∧
    ((128 + 64 + tb + (n - 1)) ^^^ x) / 16 % 4 = tb / 16 ∧ (128 + 64 + tb + (n - 1)) % 4 + 1 = n := by
  decide

/-- Short header: the same for the low five bits, with the key-phase bit. -/
theorem short_first_byte : ∀ ph ∈ [0, 4], ∀ n ∈ [1, 2, 3, 4],
    ((64 + (n - 1)) ||| ph) % 4 + 1 = n ∧ ((64 + (n - 1)) ||| ph) / 4 % 2 * 4 = ph := by
  decide

theorem drop_hdr (b0 : Nat) (hmid r : List Nat) (k : Nat) :
    (b0 :: (hmid ++ r)).drop (1 + hmid.length + k) = r.drop k := by
  have : 1 + hmid.length + k = (hmid.length + k) + 1 := by omega
  rw [this, List.drop_succ_cons, List.drop_append]
  simp

theorem drop4_pn (pn ct : List Nat) (h : pn.length ≤ 4) : (pn ++ ct).drop 4 = ct.drop (4 - pn.length) := by
  rw [List.drop_append]
  simp [List.drop_eq_nil_of_le h]

/-- `applyMask` on a packet laid out as first byte, rest of header, packet number, ciphertext. -/
theorem applyMask_shape (c : Crypto) (long : Bool) (b0 : Nat) (hmid pn ct : List Nat) :
    applyMask c long (b0 :: (hmid ++ (pn ++ ct))) (1 + hmid.length) pn.length =
      (b0 ^^^ ((c.hpMask (((pn ++ ct).drop 4).take sampleSize)).headD 0 &&& (if long then 15 else 31))) ::
        (hmid ++ (xorBytes pn ((c.hpMask (((pn ++ ct).drop 4).take sampleSize)).drop 1) ++ ct)) := by
  unfold applyMask
  have d1 : (b0 :: (hmid ++ (pn ++ ct))).drop (1 + hmid.length + 4) = (pn ++ ct).drop 4 := drop_hdr _ _ _ _
  have d2 : (b0 :: (hmid ++ (pn ++ ct))).drop (1 + hmid.length) = pn ++ ct := by
    have := drop_hdr b0 hmid (pn ++ ct) 0
    simpa using this
  have d3 : (b0 :: (hmid ++ (pn ++ ct))).drop (1 + hmid.length + pn.length) = ct := by
    rw [drop_hdr]; simp
  simp only [d1, d2, d3, List.headD_cons, List.drop_succ_cons, List.drop_zero]
  simp

/-- **Protection is undone by `unprotect`.** Hypotheses: the mask of a 16-byte sample has five bytes; the AEAD opens
what it sealed (given here as `hopen` for the sealed payload); the packet number length matches
the low bits of the first byte; there are at least 20 bytes after the packet-number offset (the
header-protection sample); the truncated number decodes to `pnum` in the receiver's window. -/
theorem unprotect_applyMask (c : Crypto) (long : Bool) (b0 : Nat) (hmid pn ct pay : List Nat)
    (pnum : Nat) (recvMax : Int)
    (hmask : ∀ s, s.length = sampleSize → (c.hpMask s).length = 5)
    (hn1 : 1 ≤ pn.length) (hn4 : pn.length ≤ 4) (hb0 : b0 % 4 + 1 = pn.length)
    (hct : 20 ≤ pn.length + ct.length)
    (hdec : PacketNumber.decodePN recvMax (beNat pn) pn.length = (pnum : Int))
    (hopen : c.aeadOpen pnum (b0 :: (hmid ++ pn)) ct = some pay) :
    unprotect c long (applyMask c long (b0 :: (hmid ++ (pn ++ ct))) (1 + hmid.length) pn.length)
      (1 + hmid.length) recvMax = some (pay, pnum, b0 :: (hmid ++ pn)) := by
  rw [applyMask_shape]
  generalize hm : c.hpMask (((pn ++ ct).drop 4).take sampleSize) = m
  have hml : m.length = 5 := by
    rw [← hm]; apply hmask
    simp only [List.length_take, List.length_drop, List.length_append, sampleSize]; omega
  have hpl : (xorBytes pn (m.drop 1)).length = pn.length := xorBytes_length _ _
  unfold unprotect
  have hlen : ¬ ((b0 ^^^ (m.headD 0 &&& (if long then 15 else 31))) ::
      (hmid ++ (xorBytes pn (m.drop 1) ++ ct))).length < 1 + hmid.length + 4 + sampleSize := by
    simp only [List.length_cons, List.length_append, hpl, sampleSize]; omega
  simp only [hlen, if_false]
  have d1 : ((b0 ^^^ (m.headD 0 &&& (if long then 15 else 31))) ::
      (hmid ++ (xorBytes pn (m.drop 1) ++ ct))).drop (1 + hmid.length + 4) =
      (pn ++ ct).drop 4 := by
    rw [drop_hdr, drop4_pn _ _ (by omega), drop4_pn _ _ hn4, hpl]
  rw [d1, hm]
  simp only [List.headD_cons, xor_cancel, hb0]
  have d2 : ((b0 ^^^ (m.headD 0 &&& (if long then 15 else 31))) ::
      (hmid ++ (xorBytes pn (m.drop 1) ++ ct))).drop (1 + hmid.length) = xorBytes pn (m.drop 1) ++ ct := by
    have := drop_hdr (b0 ^^^ (m.headD 0 &&& (if long then 15 else 31))) hmid (xorBytes pn (m.drop 1) ++ ct) 0
    simpa using this
  have d3 : ((b0 ^^^ (m.headD 0 &&& (if long then 15 else 31))) ::
      (hmid ++ (xorBytes pn (m.drop 1) ++ ct))).drop (1 + hmid.length + pn.length) = ct := by
    rw [drop_hdr, ← hpl]; simp
  have t1 : (xorBytes pn (m.drop 1) ++ ct).take pn.length = xorBytes pn (m.drop 1) := by
    rw [← hpl]; simp
  have hc : xorBytes (xorBytes pn (m.drop 1)) (m.drop 1) = pn :=
    xorBytes_cancel _ _ (by simp [hml]; omega)
  simp only [d2, d3, t1, hc, hdec, List.drop_succ_cons, List.drop_zero]
  simp [hopen]

/-! ### packet numbers -/

theorem pnLen_range (pnum maxAcked : Int) : 1 ≤ pnLen pnum maxAcked ∧ pnLen pnum maxAcked ≤ 4 := by
  unfold pnLen
  simp only
  repeat' split
  all_goals omega

theorem pnLen_mem (pnum maxAcked : Int) : pnLen pnum maxAcked ∈ [1, 2, 3, 4] := by
  have := pnLen_range pnum maxAcked
  simp; omega

theorem pnBytes_length (pnum n : Nat) (h1 : 1 ≤ n) (h4 : n ≤ 4) : (pnBytes pnum n).length = n := by
  unfold pnBytes
  repeat' split
  all_goals simp
  all_goals omega

theorem beNat_pnBytes (pnum n : Nat) (h1 : 1 ≤ n) (h4 : n ≤ 4) : beNat (pnBytes pnum n) = pnum % 256 ^ n := by
  have : n = 1 ∨ n = 2 ∨ n = 3 ∨ n = 4 := by omega
  rcases this with rfl | rfl | rfl | rfl <;> simp [pnBytes, beNat] <;> omega

/-- What was written into the packet: the payload truncated to the room left, then zero padding
(so that the header-protection sample exists). -/
def Padded (payload out : List Nat) : Prop :=
  ∃ k z, 0 < k ∧ k ≤ payload.length ∧ z ≤ 3 ∧ out = payload.take k ++ List.replicate z 0

/-- Facts about the protected packet that the parsers recompute before calling `unprotect`. -/
theorem masked_facts (c : Crypto) (long : Bool) (b0 : Nat) (hmid pn ct : List Nat) (hn4 : pn.length ≤ 4) :
    let pkt := applyMask c long (b0 :: (hmid ++ (pn ++ ct))) (1 + hmid.length) pn.length
    pkt.length = 1 + hmid.length + pn.length + ct.length ∧
    (pkt.drop (1 + hmid.length + 4)).take sampleSize = ((pn ++ ct).drop 4).take sampleSize ∧
    pkt.headD 0 = b0 ^^^ ((c.hpMask (((pn ++ ct).drop 4).take sampleSize)).headD 0 &&& (if long then 15 else 31)) ∧
    (pkt.drop 1).take hmid.length = hmid := by
  simp only
  rw [applyMask_shape]
  generalize c.hpMask (((pn ++ ct).drop 4).take sampleSize) = m
  have hpl := xorBytes_length pn (m.drop 1)
  refine ⟨?_, ?_, ?_, ?_⟩
  · simp only [List.length_cons, List.length_append, hpl]; omega
  · rw [drop_hdr, drop4_pn _ _ (by omega), drop4_pn _ _ hn4, hpl]
  · simp
  · simp

/-- **1-RTT (short header) packets round-trip**, AEAD and header protection abstract.
Hypotheses: `open (seal x) = x`; the AEAD adds 16 bytes; the mask has 5 bytes; the key phase is
0 or 4; the truncated packet number decodes in the receiver's window. The payload comes back
truncated to the room in the datagram and zero-padded to the sample size. -/
theorem short_roundtrip (c cNext : Crypto) (lim phase : Nat) (dcid : List Nat) (pnum : Nat) (maxAcked recvMax : Int)
    (payload pkt : List Nat)
    (hopen : ∀ pn hdr pay, c.aeadOpen pn hdr (c.aeadSeal pn hdr pay) = some pay)
    (hlen : ∀ pn hdr pay, (c.aeadSeal pn hdr pay).length = pay.length + 16)
    (hmask : ∀ s, s.length = sampleSize → (c.hpMask s).length = 5)
    (hph : phase = 0 ∨ phase = 4)
    (hdec : PacketNumber.decodePN recvMax ((pnum % 256 ^ pnLen pnum maxAcked : Nat)) (pnLen pnum maxAcked) = (pnum : Int))
    (h : writeShort c lim phase dcid pnum maxAcked payload = PW.packet pkt) :
    ∃ out, Padded payload out ∧ pkt.length ≤ lim ∧
      parseShort c cNext phase pkt dcid.length recvMax = some (pnum, out) := by
  unfold writeShort at h
  simp only at h
  split at h <;> try (simp at h; done)
  rename_i hroom
  split at h <;> try (simp at h; done)
  rename_i hpay
  simp only [PW.packet.injEq] at h
  obtain ⟨hn1, hn4⟩ := pnLen_range pnum maxAcked
  generalize hn : pnLen pnum maxAcked = n at *
  generalize hpd : payload.take (lim - aeadOverhead - (1 + dcid.length + n)) ++
    List.replicate (padTo (payload.take (lim - aeadOverhead - (1 + dcid.length + n))).length n) 0 = padded at h
  generalize hb0 : ((64 + (n - 1)) ||| phase) = b0 at h
  have hpnl := pnBytes_length pnum n hn1 hn4
  generalize hpn : pnBytes pnum n = pn at *
  generalize hct : c.aeadSeal pnum (b0 :: (dcid ++ pn)) padded = ct at h
  have hctl : ct.length = padded.length + 16 := by rw [← hct]; exact hlen _ _ _
  have e0 : b0 :: (dcid ++ pn) ++ ct = b0 :: (dcid ++ (pn ++ ct)) := by simp
  rw [e0, ← hpnl] at h
  -- lengths
  have hk : 0 < (payload.take (lim - aeadOverhead - (1 + dcid.length + n))).length := by
    rcases hp : (payload.take (lim - aeadOverhead - (1 + dcid.length + n))).length with _ | k
    · exact absurd hp hpay
    · omega
  have hpadl : padded.length + n ≥ 4 ∧ 1 + dcid.length + n + padded.length + 16 ≤ lim := by
    rw [← hpd]; simp only [List.length_append, List.length_replicate, padTo, aeadOverhead, sampleSize] at *
    simp only [List.length_take] at *
    omega
  obtain ⟨hfl, hfs, hfh, _⟩ := masked_facts c false b0 dcid pn ct (by omega)
  rw [h] at hfl hfs hfh
  have hbits := short_first_byte phase (by rcases hph with rfl | rfl <;> simp) n
    (by simp; omega)
  rw [hb0] at hbits
  refine ⟨padded, ?_, ?_, ?_⟩
  · refine ⟨(payload.take (lim - aeadOverhead - (1 + dcid.length + n))).length,
      padTo (payload.take (lim - aeadOverhead - (1 + dcid.length + n))).length n, hk, ?_, ?_, ?_⟩
    · simp [List.length_take]; omega
    · simp only [padTo, aeadOverhead]; omega
    · rw [← hpd]; simp
  · simp only [aeadOverhead, sampleSize] at *
    omega
  · unfold parseShort
    simp only
    have hl : ¬ (pkt.length < 1 + dcid.length + 4 + sampleSize) := by
      simp only [sampleSize]; omega
    have hfh' : pkt.headD 0 = b0 ^^^ ((c.hpMask (((pn ++ ct).drop 4).take sampleSize)).headD 0 &&& 31) := by
      simpa using hfh
    simp only [hl, if_false, hfs, hfh', xor_cancel, hbits.2, if_true]
    have hc : ({ c with hpMask := c.hpMask } : Crypto) = c := by cases c; rfl
    rw [hc, ← h]
    have hdec' : PacketNumber.decodePN recvMax (beNat pn) pn.length = (pnum : Int) := by
      rw [← hpn, beNat_pnBytes pnum n hn1 hn4, pnBytes_length pnum n hn1 hn4]; exact hdec
    rw [unprotect_applyMask c false b0 dcid pn ct padded pnum recvMax hmask (by omega) (by omega)
      (by rw [hpnl]; exact hbits.1) (by omega) hdec' (by rw [← hct]; exact hopen _ _ _)]

/-! ### long header -/

theorem two_byte_len (plen : Nat) (r : List Nat) (h : plen < 16384) :
    takeVarint ((64 + plen / 256 % 256) :: plen % 256 :: r) = some (plen, r) := by
  have h1 : (64 + plen / 256 % 256) / 64 = 1 := by omega
  simp [takeVarint, consumeVarint, h1]
  clear h1
  have hq : plen / 256 < 64 := by omega
  have hm : plen / 256 % 64 = plen / 256 := Nat.mod_eq_of_lt hq
  rw [hm]
  omega

theorem u32_rt (v : Nat) (r : List Nat) (h : v < 4294967296) :
    consumeUint32 (u32be v ++ r) = some (v, 4) := by
  simp only [u32be, List.cons_append, List.nil_append, consumeUint32]
  have : v / 16777216 % 256 * 16777216 + v / 65536 % 256 * 65536 + v / 256 % 256 * 256 + v % 256 = v := by omega
  rw [this]

/-- The key-independent part of `parseLongHeaderPacket` on a well-formed header. -/
theorem parseLong_header (c : Crypto) (b0 version ptype : Nat) (dcid scid token d s t X pay hdr : List Nat)
    (plen num : Nat) (recvMax : Int)
    (hb1 : b0 / 128 % 2 = 1) (hb2 : b0 / 64 % 2 = 1) (hb3 : b0 / 16 % 4 + 1 = ptype)
    (hpt : 1 ≤ ptype ∧ ptype ≤ 3) (hv0 : 0 < version) (hv : version < 4294967296)
    (hd : appendUint8Bytes dcid = some d) (hs : appendUint8Bytes scid = some s)
    (ht : (if ptype = 1 then appendVarintBytes token else some []) = some t)
    (hdl : dcid.length ≤ 20) (hsl : scid.length ≤ 20) (hpl : plen < 16384) (hX : plen ≤ X.length)
    (hu : unprotect c true
        ((b0 :: (u32be version ++ (d ++ (s ++ (t ++ ((64 + plen / 256 % 256) :: plen % 256 :: X)))))).take
          (1 + (4 + d.length + s.length + t.length + 2) + plen))
        (1 + (4 + d.length + s.length + t.length + 2)) recvMax = some (pay, num, hdr)) :
    parseLong c (b0 :: (u32be version ++ (d ++ (s ++ (t ++ ((64 + plen / 256 % 256) :: plen % 256 :: X)))))) recvMax =
      some ({ ptype := ptype, version := version, num := num, dcid := dcid, scid := scid,
              extra := (if ptype = 1 then token else []), payload := pay },
            1 + (4 + d.length + s.length + t.length + 2) + plen) := by
  generalize hfull : b0 :: (u32be version ++ (d ++ (s ++ (t ++ ((64 + plen / 256 % 256) :: plen % 256 :: X))))) = full at hu ⊢
  have hlen : full.length = 1 + (4 + d.length + s.length + t.length + 2) + X.length := by
    rw [← hfull]; simp [u32be]; omega
  have hhead : full.headD 0 = b0 := by rw [← hfull]; rfl
  have hd1 : full.drop 1 = u32be version ++ (d ++ (s ++ (t ++ ((64 + plen / 256 % 256) :: plen % 256 :: X)))) := by
    rw [← hfull]; rfl
  have hd5 : full.drop 5 = d ++ (s ++ (t ++ ((64 + plen / 256 % 256) :: plen % 256 :: X))) := by
    rw [← hfull]; simp [u32be]
  have hver : (full.drop 1).take 4 ≠ [0, 0, 0, 0] := by
    rw [hd1]; simp [u32be]; omega
  have htype : longType full = ptype := by
    unfold longType
    simp only [hver, if_false, hhead, hb2, ne_eq, not_true_eq_false, hb3]
  unfold parseLong
  have c1 : ¬ (full.length < 5 ∨ full.headD 0 / 128 % 2 ≠ 1) := by
    rw [hhead, hlen]; omega
  have c2 : ¬ (ptype = 0) := by omega
  have c3 : ¬ (version = 0) := by omega
  have c4 : ¬ (dcid.length > QuicPacket.maxConnIDLen) := by simp [QuicPacket.maxConnIDLen]; omega
  have c5 : ¬ (scid.length > QuicPacket.maxConnIDLen) := by simp [QuicPacket.maxConnIDLen]; omega
  have c6 : ¬ (ptype = 4) := by omega
  simp only [c1, if_false, htype, c2, hd1, u32_rt version _ hv, c3, hd5, takeUint8Bytes_append dcid _ d hd, c4,
    takeUint8Bytes_append scid _ s hs, c5, c6]
  by_cases h1 : ptype = 1
  · simp only [h1, if_true] at ht ⊢
    simp only [takeVarintBytes_append token _ t ht, two_byte_len plen X hpl]
    have c7 : ¬ (X.length < plen) := by omega
    have e : full.length - X.length = 1 + (4 + d.length + s.length + t.length + 2) := by omega
    simp only [c7, if_false, e, hu]
  · simp only [h1, if_false] at ht ⊢
    simp at ht; subst ht
    simp only [List.nil_append, two_byte_len plen X hpl]
    have c7 : ¬ (X.length < plen) := by omega
    have e : full.length - X.length = 1 + (4 + d.length + s.length + 0 + 2) := by simp at hlen; omega
    simp only [List.length_nil] at hu
    simp only [c7, if_false, e, hu, List.length_nil]

theorem typeBits_mem (ptype : Nat) (h : 1 ≤ ptype ∧ ptype ≤ 3) :
    typeBits ptype ∈ [0, 16, 32] ∧ typeBits ptype / 16 + 1 = ptype := by
  have : ptype = 1 ∨ ptype = 2 ∨ ptype = 3 := by omega
  rcases this with rfl | rfl | rfl <;> simp [typeBits]

theorem uint8Bytes_len (v b : List Nat) (h : appendUint8Bytes v = some b) : b.length = 1 + v.length := by
  unfold appendUint8Bytes at h
  split at h <;> simp at h
  subst h; simp; omega

/-- Offset of the packet number in a long header = bytes before the 2-byte Length field's value
starts counting (`pnumOff` in `startProtectedLongHeaderPacket`). -/
def longPnumOff (ptype : Nat) (dcid scid token : List Nat) : Nat :=
  1 + 4 + 1 + dcid.length + 1 + scid.length +
    (if ptype = 1 then (sizeVarint token.length).getD 0 + token.length else 0) + 2

/-- **Long-header packets (Initial, 0-RTT, Handshake) round-trip**, AEAD and header protection
abstract. Hypotheses: `open (seal x) = x`; the AEAD adds 16 bytes; the mask has 5 bytes; a
non-zero 32-bit version; connection IDs of at most 20 bytes (longer ones are refused by the
parser); the truncated packet number decodes in the receiver's window. Anything may follow the
packet in the datagram (`trailing`): the parser reports exactly the packet's length. -/
theorem long_roundtrip (c : Crypto) (lim ptype version : Nat) (dcid scid token : List Nat) (pnum : Nat)
    (maxAcked recvMax : Int) (payload pkt trailing : List Nat)
    (hopen : ∀ pn hdr pay, c.aeadOpen pn hdr (c.aeadSeal pn hdr pay) = some pay)
    (hlen : ∀ pn hdr pay, (c.aeadSeal pn hdr pay).length = pay.length + 16)
    (hmask : ∀ s, s.length = sampleSize → (c.hpMask s).length = 5)
    (hpt : 1 ≤ ptype ∧ ptype ≤ 3) (hv0 : 0 < version) (hv : version < 4294967296)
    (hdl : dcid.length ≤ 20) (hsl : scid.length ≤ 20)
    (hdec : PacketNumber.decodePN recvMax ((pnum % 256 ^ pnLen pnum maxAcked : Nat)) (pnLen pnum maxAcked) = (pnum : Int))
    (h : writeLong c lim ptype version dcid scid token pnum maxAcked payload = PW.packet pkt) :
    ∃ out, Padded payload out ∧ pkt.length ≤ lim ∧
      pkt.length ≤ longPnumOff ptype dcid scid token + 16383 ∧
      parseLong c (pkt ++ trailing) recvMax =
        some ({ ptype := ptype, version := version, num := pnum, dcid := dcid, scid := scid,
                extra := (if ptype = 1 then token else []), payload := out }, pkt.length) := by
  obtain ⟨hn1, hn4⟩ := pnLen_range pnum maxAcked
  have hnm := pnLen_mem pnum maxAcked
  unfold writeLong at h
  simp only at h
  generalize hn : pnLen pnum maxAcked = n at *
  generalize htsz : (if ptype = 1 then sizeVarint token.length else some 0) = otsz at h
  cases otsz with
  | none => simp at h
  | some tsz =>
  simp only at h
  generalize hextra : (if ptype = 1 then tsz + token.length else 0) = extra at h
  generalize hpoff : 1 + 4 + 1 + dcid.length + 1 + scid.length + extra + 2 = pnumOff at h
  have hlimfacts : (if pnumOff + 16383 - aeadOverhead < lim - aeadOverhead then pnumOff + 16383 - aeadOverhead
      else lim - aeadOverhead) ≤ pnumOff + 16383 - aeadOverhead ∧
      (if pnumOff + 16383 - aeadOverhead < lim - aeadOverhead then pnumOff + 16383 - aeadOverhead
      else lim - aeadOverhead) ≤ lim - aeadOverhead := by split <;> omega
  generalize (if pnumOff + 16383 - aeadOverhead < lim - aeadOverhead then pnumOff + 16383 - aeadOverhead
      else lim - aeadOverhead) = pktLim at h hlimfacts
  generalize hpay' : payload.take (pktLim - (pnumOff + n)) = pay at h
  generalize hpd : pay ++ List.replicate (padTo pay.length n) 0 = padded at h
  generalize hplen : padded.length + n + aeadOverhead = plen at h
  split at h
  · simp at h
  rename_i hroom
  split at h
  · simp at h
  rename_i hpay
  generalize hlh : longHeader ptype version dcid scid token n plen = olh at h
  cases olh with
  | none => simp at h
  | some hh =>
  simp only [PW.packet.injEq] at h
  -- the unprotected header
  unfold longHeader at hlh
  split at hlh <;> try (simp at hlh; done)
  rename_i d s t hd hs ht
  simp only [Option.some.injEq] at hlh
  have hdlen := uint8Bytes_len _ _ hd
  have hslen := uint8Bytes_len _ _ hs
  have htlen : t.length = extra := by
    rw [← hextra]
    by_cases h1 : ptype = 1
    · simp only [h1, if_true] at ht htsz ⊢
      obtain ⟨q, hq, rfl⟩ : ∃ q, appendVarint token.length = some q ∧ t = q ++ token := by
        unfold appendVarintBytes at ht
        split at ht <;> simp at ht
        exact ⟨_, ‹_›, ht.symm⟩
      have := size_eq_length _ _ hq
      rw [htsz] at this
      simp at this
      simp [this]
    · simp only [h1, if_false] at ht ⊢
      simp at ht; subst ht; rfl
  have hpnl := pnBytes_length pnum n hn1 hn4
  generalize hpn : pnBytes pnum n = pn at *
  obtain ⟨htbm, htb⟩ := typeBits_mem ptype hpt
  generalize hb0 : 128 + 64 + typeBits ptype + (n - 1) = b0 at *
  generalize hmid : u32be version ++ (d ++ (s ++ (t ++ [64 + plen / 256 % 256, plen % 256]))) = mid at *
  subst hlh
  generalize hct : c.aeadSeal pnum (b0 :: mid ++ pn) padded = ct at h
  have hctl : ct.length = padded.length + 16 := by rw [← hct]; exact hlen _ _ _
  have hmidl : mid.length = 4 + d.length + s.length + t.length + 2 := by
    rw [← hmid]; simp [u32be]; omega
  have hoff : pnumOff = 1 + mid.length := by rw [hmidl, hdlen, hslen, htlen, ← hpoff]; omega
  have e0 : b0 :: mid ++ pn ++ ct = b0 :: (mid ++ (pn ++ ct)) := by simp
  rw [e0, hoff, ← hpnl] at h
  -- sizes
  have hk : 0 < pay.length := by
    rcases hp : pay.length with _ | k
    · exact absurd hp hpay
    · omega
  have hpayle : pay.length ≤ payload.length ∧
      pnumOff + n + pay.length + 16 ≤ lim ∧ pay.length + n + 16 ≤ 16383 := by
    rw [← hpay']
    simp only [List.length_take, aeadOverhead, sampleSize] at *
    omega
  have hpadl : padded.length + n ≥ 4 ∧ pnumOff + n + padded.length + 16 ≤ lim ∧ plen < 16384 ∧ plen = n + ct.length := by
    rw [← hplen, hctl, ← hpd]
    simp only [List.length_append, List.length_replicate, padTo, aeadOverhead, sampleSize] at *
    omega
  obtain ⟨hp4, hplim, hpl16, hplct⟩ := hpadl
  -- the protected packet, explicitly
  have hshape := applyMask_shape c true b0 mid pn ct
  rw [h] at hshape
  generalize hm : c.hpMask (((pn ++ ct).drop 4).take sampleSize) = m at hshape
  have hx : m.headD 0 &&& 15 < 16 := Nat.and_lt_two_pow _ (by decide : 15 < 2 ^ 4)
  obtain ⟨hb1, hb2, hb3, hb4⟩ := long_first_byte (typeBits ptype) htbm n hnm (m.headD 0 &&& 15) hx
  rw [hb0] at hb1 hb2 hb3 hb4
  have hpl' : (xorBytes pn (m.drop 1)).length = pn.length := xorBytes_length _ _
  have hpktlen : pkt.length = 1 + mid.length + plen := by
    rw [hshape]; simp only [List.length_cons, List.length_append, hpl']; omega
  have hoffeq : pnumOff = longPnumOff ptype dcid scid token := by
    unfold longPnumOff
    rw [← hpoff, ← hextra]
    by_cases h1 : ptype = 1
    · simp only [h1, if_true] at htsz ⊢
      rw [htsz]; rfl
    · simp only [h1, if_false]
  refine ⟨padded, ⟨pay.length, padTo pay.length n, hk, hpayle.1, ?_, ?_⟩, ?_, ?_, ?_⟩
  · simp only [padTo, aeadOverhead]; omega
  · rw [← hpd, ← hpay']; simp
  · omega
  · rw [← hoffeq]; omega
  · -- parse
    have hfull : pkt ++ trailing = (b0 ^^^ (m.headD 0 &&& (if true = true then 15 else 31))) ::
        (u32be version ++ (d ++ (s ++ (t ++ ((64 + plen / 256 % 256) :: plen % 256 ::
          (xorBytes pn (m.drop 1) ++ (ct ++ trailing))))))) := by
      rw [hshape, ← hmid]; simp
    have htake : (pkt ++ trailing).take (1 + (4 + d.length + s.length + t.length + 2) + plen) = pkt := by
      rw [← hmidl]; exact List.take_left' hpktlen
    have hdec' : PacketNumber.decodePN recvMax (beNat pn) pn.length = (pnum : Int) := by
      rw [← hpn, beNat_pnBytes pnum n hn1 hn4, pnBytes_length pnum n hn1 hn4]; exact hdec
    have hu := unprotect_applyMask c true b0 mid pn ct padded pnum recvMax hmask (by omega) (by omega)
      (by rw [hpnl]; exact hb4) (by omega) hdec' (by rw [← hct]; simpa using hopen pnum (b0 :: (mid ++ pn)) padded)
    rw [h] at hu
    have := parseLong_header c (b0 ^^^ (m.headD 0 &&& (if true = true then 15 else 31))) version ptype dcid scid token d s t
      (xorBytes pn (m.drop 1) ++ (ct ++ trailing)) padded (b0 :: (mid ++ pn)) plen pnum recvMax
      (by simpa using hb1) (by simpa using hb2) (by simp only [if_true]; omega) hpt hv0 hv hd hs ht hdl hsl hpl16
      (by simp only [List.length_append, hpl']; omega)
      (by rw [← hfull, htake, ← hmidl]; exact hu)
    rw [hfull, this, hpktlen, hmidl]

/-! ### the toy instance satisfies the hypotheses -/

theorem toy_mask (k : Nat) : ∀ s, s.length = sampleSize → ((toy k).hpMask s).length = 5 := by
  intro s hs
  simp [toy, sampleSize] at *
  omega

theorem toy_len (k : Nat) : ∀ pn hdr pay, ((toy k).aeadSeal pn hdr pay).length = pay.length + 16 := by
  intro pn hdr pay
  simp [toy, toySeal, toyTag]

private theorem map_xor_cancel (x : Nat) (p : List Nat) : (p.map (· ^^^ x)).map (· ^^^ x) = p := by
  induction p with
  | nil => rfl
  | cons a t ih => simp [xor_cancel, ih]

theorem toy_open (k : Nat) : ∀ pn hdr pay, (toy k).aeadOpen pn hdr ((toy k).aeadSeal pn hdr pay) = some pay := by
  intro pn hdr pay
  simp only [toy, toyOpen, toySeal]
  generalize (toyNonce (toyIV k) pn).getD 11 0 = x
  have hl : (toyTag (toyNonce (toyIV k) pn) hdr pay).length = 16 := by simp [toyTag]
  have h1 : ¬ ((pay.map (· ^^^ x) ++ toyTag (toyNonce (toyIV k) pn) hdr pay).length < 16) := by
    simp [hl]
  have h2 : (pay.map (· ^^^ x) ++ toyTag (toyNonce (toyIV k) pn) hdr pay).length - 16 = (pay.map (· ^^^ x)).length := by
    simp [hl]
  simp only [h1, if_false, h2, List.take_left, List.drop_left, map_xor_cancel, if_true]

end NetVerif.Proofs.Lemmas.QuicPacketRT
