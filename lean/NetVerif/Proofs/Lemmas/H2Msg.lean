import NetVerif.Model.H2Msg
/-!
Helper lemmas for C14 (`Proofs/C14.lean`): fragmentation, chunking, and how the receive state
machine `run` consumes the three kinds of frame runs an encoded message consists of.
-/
namespace NetVerif.Proofs.H2MsgLemmas
open NetVerif NetVerif.Model.H2Frame NetVerif.Model.H2Msg

/-! ### splitLoop / splitBlock -/

theorem splitLoop_flatten (max : Nat) (hmax : 0 < max) :
    ∀ (fuel : Nat) (hb : Bytes), hb.length ≤ fuel → (splitLoop fuel max hb).flatten = hb := by
  intro fuel
  induction fuel with
  | zero =>
    intro hb h
    have : hb = [] := List.length_eq_zero_iff.mp (by omega)
    subst this; simp [splitLoop]
  | succ n ih =>
    intro hb h
    unfold splitLoop
    split
    · rename_i hpos
      have hd : (hb.drop max).length ≤ n := by simp [List.length_drop]; omega
      simp [ih _ hd]
    · rename_i hz
      have : hb = [] := List.length_eq_zero_iff.mp (by omega)
      subst this; simp

theorem splitLoop_bounds (max : Nat) (hmax : 0 < max) :
    ∀ (fuel : Nat) (hb : Bytes), ∀ f ∈ splitLoop fuel max hb, 0 < f.length ∧ f.length ≤ max := by
  intro fuel
  induction fuel with
  | zero => intro hb f hf; simp [splitLoop] at hf
  | succ n ih =>
    intro hb f hf
    unfold splitLoop at hf
    split at hf
    · rename_i hpos
      rcases List.mem_cons.mp hf with h | h
      · subst h; simp [List.length_take]; omega
      · exact ih _ f h
    · simp at hf

theorem splitLoop_ne_nil (max fuel : Nat) (hb : Bytes) (h : hb ≠ []) :
    splitLoop (fuel + 1) max hb ≠ [] := by
  unfold splitLoop
  have : hb.length > 0 := List.length_pos_iff.mpr h
  simp [this]

theorem splitBlock_ne_nil (max : Nat) (hb : Bytes) (h : hb ≠ []) : splitBlock max hb ≠ [] := by
  unfold splitBlock
  have hl : hb.length > 0 := List.length_pos_iff.mpr h
  obtain ⟨n, hn⟩ : ∃ n, hb.length = n + 1 := ⟨hb.length - 1, by omega⟩
  rw [hn]; exact splitLoop_ne_nil max n hb h

/-! ### chunks -/

theorem chunks_flatten (max : Nat) (hmax : 0 < max) :
    ∀ (cuts : List Nat) (b : Bytes), (chunks max cuts b).flatten = b := by
  intro cuts
  induction cuts with
  | nil => intro b; simp [chunks, splitBlock, splitLoop_flatten max hmax _ b (Nat.le_refl _)]
  | cons c cs ih =>
    intro b
    unfold chunks
    split
    · simp [ih]
    · rename_i hz
      have : b = [] := List.length_eq_zero_iff.mp (by omega)
      subst this; simp

theorem chunks_le (max : Nat) (hmax : 0 < max) :
    ∀ (cuts : List Nat) (b : Bytes), ∀ c ∈ chunks max cuts b, c.length ≤ max := by
  intro cuts
  induction cuts with
  | nil =>
    intro b c hc
    exact (splitLoop_bounds max hmax _ b c (by simpa [chunks, splitBlock] using hc)).2
  | cons c0 cs ih =>
    intro b c hc
    unfold chunks at hc
    split at hc
    · rcases List.mem_cons.mp hc with h | h
      · subst h; simp [List.length_take]; omega
      · exact ih _ c h
    · simp at hc

/-! ### frame lists -/

theorem contFrames_frag (sid : Nat) : ∀ frs : List Bytes, (contFrames sid frs).map SFrame.frag = frs
  | [] => rfl
  | [_] => rfl
  | f :: g :: rest => by simp [contFrames, SFrame.frag, contFrames_frag sid (g :: rest)]

theorem headerFrames_frag (sid : Nat) (es : Bool) (frs : List Bytes) :
    (headerFrames sid es frs).map SFrame.frag = frs := by
  cases frs with
  | nil => rfl
  | cons f rest => simp [headerFrames, SFrame.frag, contFrames_frag]

theorem contFrames_endHeaders (sid : Nat) : ∀ frs : List Bytes, frs ≠ [] →
    (contFrames sid frs).map SFrame.endHeaders = List.replicate (frs.length - 1) false ++ [true]
  | [], h => absurd rfl h
  | [_], _ => rfl
  | f :: g :: rest, _ => by
    have := contFrames_endHeaders sid (g :: rest) (by simp)
    simp [contFrames, SFrame.endHeaders, this, List.replicate_succ]

theorem contFrames_length (sid : Nat) : ∀ frs : List Bytes, (contFrames sid frs).length = frs.length
  | [] => rfl
  | [_] => rfl
  | f :: g :: rest => by simp [contFrames, contFrames_length sid (g :: rest)]

theorem contFrames_isCont (sid : Nat) : ∀ frs : List Bytes, ∀ f ∈ contFrames sid frs, f.isContinuation = true
  | [], f, h => by simp [contFrames] at h
  | [_], f, h => by simp [contFrames] at h; subst h; rfl
  | a :: g :: rest, f, h => by
    simp only [contFrames, List.mem_cons] at h
    rcases h with h | h
    · subst h; rfl
    · exact contFrames_isCont sid (g :: rest) f h

theorem contFrames_endStream (sid : Nat) (frs : List Bytes) :
    ∀ f ∈ contFrames sid frs, f.endStream = false := by
  intro f hf
  have := contFrames_isCont sid frs f hf
  cases f <;> simp_all [SFrame.isContinuation, SFrame.endStream]

theorem dataFrames_data (sid : Nat) (e : Bool) : ∀ chs : List Bytes,
    (dataFrames sid e chs).map SFrame.dataBytes = chs
  | [] => rfl
  | [_] => rfl
  | c :: d :: rest => by simp [dataFrames, SFrame.dataBytes, dataFrames_data sid e (d :: rest)]

/-! ### how `run` consumes the runs -/

theorem run_append {D : Type} (dec : D → Bytes → Option (List Field × D)) :
    ∀ (fs gs : List SFrame) (d : D) (st : StreamSt),
      run dec d st (fs ++ gs) = (run dec d st fs).bind (fun p => run dec p.1 p.2 gs) := by
  intro fs
  induction fs with
  | nil => intro gs d st; simp [run]
  | cons f fs ih =>
    intro gs d st
    simp only [List.cons_append, run]
    cases h : step dec d st f with
    | none => simp
    | some p => obtain ⟨d', st'⟩ := p; simp [ih]

theorem finishHdr_phase {D : Type} (dec : D → Bytes → Option (List Field × D)) (d : D) (st : StreamSt)
    (ph : Phase) (es : Bool) (blk : Bytes) :
    finishHdr dec d { st with phase := ph } es blk = finishHdr dec d st es blk := by
  unfold finishHdr; cases dec d blk <;> rfl

theorem finishTrl_phase {D : Type} (dec : D → Bytes → Option (List Field × D)) (d : D) (st : StreamSt)
    (ph : Phase) (blk : Bytes) :
    finishTrl dec d { st with phase := ph } blk = finishTrl dec d st blk := by
  unfold finishTrl; cases dec d blk <;> rfl

/-- CONTINUATION frames of a first header block. -/
theorem run_cont_hdr {D : Type} (dec : D → Bytes → Option (List Field × D)) (sid : Nat) :
    ∀ (frs : List Bytes), frs ≠ [] → ∀ (d : D) (st : StreamSt) (es : Bool) (acc : Bytes),
      st.sid = sid → st.phase = .hdrBlock es acc →
      run dec d st (contFrames sid frs) = finishHdr dec d st es (acc ++ frs.flatten)
  | [], h, _, _, _, _, _, _ => absurd rfl h
  | [f], _, d, st, es, acc, hs, hp => by
    simp only [contFrames, run, step, SFrame.sid, hs, hp, ne_eq, not_true_eq_false, ite_false, ite_true,
      List.flatten_cons, List.flatten_nil, List.append_nil]
    cases h : finishHdr dec d st es (acc ++ f) with
    | none => rfl
    | some p => simp [run]
  | f :: g :: rest, _, d, st, es, acc, hs, hp => by
    subst hs
    simp only [contFrames, run, step, SFrame.sid, hp, ne_eq, not_true_eq_false, ite_false,
      Bool.false_eq_true]
    rw [run_cont_hdr dec st.sid (g :: rest) (by simp) d { st with phase := Phase.hdrBlock es (acc ++ f) } es (acc ++ f) rfl rfl]
    rw [finishHdr_phase]
    simp [List.append_assoc]

/-- CONTINUATION frames of a trailer block. -/
theorem run_cont_trl {D : Type} (dec : D → Bytes → Option (List Field × D)) (sid : Nat) :
    ∀ (frs : List Bytes), frs ≠ [] → ∀ (d : D) (st : StreamSt) (acc : Bytes),
      st.sid = sid → st.phase = .trlBlock acc →
      run dec d st (contFrames sid frs) = finishTrl dec d st (acc ++ frs.flatten)
  | [], h, _, _, _, _, _ => absurd rfl h
  | [f], _, d, st, acc, hs, hp => by
    simp only [contFrames, run, step, SFrame.sid, hs, hp, ne_eq, not_true_eq_false, ite_false, ite_true,
      List.flatten_cons, List.flatten_nil, List.append_nil]
    cases h : finishTrl dec d st (acc ++ f) with
    | none => rfl
    | some p => simp [run]
  | f :: g :: rest, _, d, st, acc, hs, hp => by
    subst hs
    simp only [contFrames, run, step, SFrame.sid, hp, ne_eq, not_true_eq_false, ite_false,
      Bool.false_eq_true]
    rw [run_cont_trl dec st.sid (g :: rest) (by simp) d { st with phase := Phase.trlBlock (acc ++ f) } (acc ++ f) rfl rfl]
    rw [finishTrl_phase]
    simp [List.append_assoc]

/-- a whole first header block (HEADERS + CONTINUATIONs). -/
theorem run_headerFrames {D : Type} (dec : D → Bytes → Option (List Field × D)) (sid : Nat) (es : Bool)
    (frs : List Bytes) (hne : frs ≠ []) (d : D) (st : StreamSt) (hs : st.sid = sid)
    (hp : st.phase = .start) :
    run dec d st (headerFrames sid es frs) = finishHdr dec d st es frs.flatten := by
  cases frs with
  | nil => exact absurd rfl hne
  | cons f rest =>
    cases rest with
    | nil =>
      simp only [headerFrames, contFrames, List.isEmpty_nil, run, step, SFrame.sid, hs, hp, ne_eq,
        not_true_eq_false, ite_false, ite_true, List.flatten_cons, List.flatten_nil, List.append_nil]
      cases h : finishHdr dec d st es f with
      | none => rfl
      | some p => simp [run]
    | cons g rest =>
      subst hs
      simp only [headerFrames, List.isEmpty_cons, run, step, SFrame.sid, hp, ne_eq,
        not_true_eq_false, ite_false, Bool.false_eq_true]
      rw [run_cont_hdr dec st.sid (g :: rest) (by simp) d { st with phase := Phase.hdrBlock es f } es f rfl rfl, finishHdr_phase]
      simp

/-- a whole trailer block (HEADERS with END_STREAM + CONTINUATIONs). -/
theorem run_trailerFrames {D : Type} (dec : D → Bytes → Option (List Field × D)) (sid : Nat)
    (frs : List Bytes) (hne : frs ≠ []) (d : D) (st : StreamSt) (hs : st.sid = sid)
    (hp : st.phase = .body) :
    run dec d st (headerFrames sid true frs) = finishTrl dec d st frs.flatten := by
  cases frs with
  | nil => exact absurd rfl hne
  | cons f rest =>
    cases rest with
    | nil =>
      simp only [headerFrames, contFrames, List.isEmpty_nil, run, step, SFrame.sid, hs, hp, ne_eq,
        not_true_eq_false, ite_false, ite_true, List.flatten_cons, List.flatten_nil, List.append_nil,
        Bool.not_true, Bool.false_eq_true]
      cases h : finishTrl dec d st f with
      | none => rfl
      | some p => simp [run]
    | cons g rest =>
      subst hs
      simp only [headerFrames, List.isEmpty_cons, run, step, SFrame.sid, hp, ne_eq,
        not_true_eq_false, ite_false, Bool.false_eq_true, Bool.not_true]
      rw [run_cont_trl dec st.sid (g :: rest) (by simp) d { st with phase := Phase.trlBlock f } f rfl rfl, finishTrl_phase]
      simp

/-- DATA frames: payloads are collected in order; END_STREAM on the last iff `e`. -/
theorem run_dataFrames {D : Type} (dec : D → Bytes → Option (List Field × D)) (sid : Nat) (e : Bool) :
    ∀ (chs : List Bytes) (d : D) (st : StreamSt), st.sid = sid → st.phase = .body →
      run dec d st (dataFrames sid e chs) =
        some (d, { st with chunksRev := chs.reverse ++ st.chunksRev,
                           phase := if e && !chs.isEmpty then .done else .body })
  | [], d, st, _, hp => by
    simp [dataFrames, run]
    cases st; simp_all
  | [c], d, st, hs, hp => by
    simp only [dataFrames, run, step, SFrame.sid, hs, hp, ne_eq, not_true_eq_false, ite_false]
    cases e <;> simp
  | c :: c2 :: rest, d, st, hs, hp => by
    subst hs
    simp only [dataFrames, run, step, SFrame.sid, hp, ne_eq, not_true_eq_false, ite_false,
      Bool.false_eq_true]
    rw [run_dataFrames dec st.sid e (c2 :: rest) d { st with chunksRev := c :: st.chunksRev, phase := Phase.body } rfl rfl]
    simp

end NetVerif.Proofs.H2MsgLemmas
