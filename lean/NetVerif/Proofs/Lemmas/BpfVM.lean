import NetVerif.Model.Bpf
import NetVerif.Model.BpfVM
import NetVerif.Proofs.Lemmas.Bpf
import NetVerif.Proofs.Lemmas.BpfRoundTrip
/-!
Helper lemmas for C49 (bpf VM = classic BPF semantics of the assembled program):
`step_eq` (one `VM.Run` dispatch step on a typed instruction = one reference step on its encoding),
`runFuel_congr` (instruction-wise corresponding programs have equal outcomes), `runFuel_fuel`
(fuel = length suffices for every program), `step_safe` / `run_safe` (accepted programs never panic,
never hit an unknown instruction, never leave the program).
-/
namespace NetVerif.Proofs.Lemmas.BpfVM
open NetVerif NetVerif.Model.Bpf NetVerif.Model.BpfVM NetVerif.Proofs.Lemmas.BpfRoundTrip

attribute [local simp] regA regX aluOpAdd aluOpSub aluOpMul aluOpDiv aluOpOr aluOpAnd aluOpShiftLeft
  aluOpShiftRight aluOpNeg aluOpMod aluOpXor jumpEqual jumpNotEqual jumpGreaterThan jumpLessThan
  jumpGreaterOrEqual jumpLessOrEqual jumpBitsSet jumpBitsNotSet extOffset extLen
  opClsLoadA opClsLoadX opClsStoreA opClsStoreX opClsALU opClsJump opClsReturn opClsMisc
  opAddrModeImmediate opAddrModeAbsolute opAddrModeIndirect opAddrModeScratch opAddrModePacketLen
  opAddrModeMemShift opLoadWidth4 opLoadWidth2 opLoadWidth1 opOperandConstant opOperandX
  opJumpAlways opJumpEqual opJumpGT opJumpGE opJumpSet opRetSrcConstant opRetSrcA opMiscTAX opMiscTXA
  extThreshold opMaskCls opMaskLoadDest opMaskLoadWidth opMaskLoadMode opMaskOperand opMaskOperator two32

/-- Instructions `VM.Run` implements. -/
def implemented : Instr → Bool
  | .negateA => false
  | .raw _ => false
  | _ => true

/-- ALU instructions use one of the ten exported operators. -/
def aluKnown : Instr → Bool
  | .aluOpConstant op _ => isALUBinary op
  | .aluOpX op => isALUBinary op
  | _ => true

theorem load_eq (s : State) (pkt : List Nat) (off : Nat) (size : Int) (n : Nat)
    (h : (size = 1 ∧ n = 1) ∨ (size = 2 ∧ n = 2) ∨ (size = 4 ∧ n = 4)) :
    loadToA s (loadCommon pkt off size) = rawLoadA s (pktLoad pkt off n) := by
  by_cases hb : off + n ≤ pkt.length
  · have hb' : ¬ ¬ ((off : Int) + size ≤ (pkt.length : Int)) := by omega
    rcases h with ⟨h1, h2⟩ | ⟨h1, h2⟩ | ⟨h1, h2⟩ <;> subst h1 h2 <;>
      (unfold loadCommon; rw [if_neg hb']; simp [pktLoad, pktBE, hb, loadToA, rawLoadA, Nat.add_assoc]) <;> omega
  · have hb' : ¬ ((off : Int) + size ≤ (pkt.length : Int)) := by omega
    rcases h with ⟨h1, h2⟩ | ⟨h1, h2⟩ | ⟨h1, h2⟩ <;> subst h1 h2 <;>
      (unfold loadCommon; rw [if_pos hb']; simp [pktLoad, hb, loadToA, rawLoadA])

theorem toNat_mod_small (n : Int) (h0 : 0 ≤ n) (h1 : n ≤ 15) : (n % 4294967296).toNat = n.toNat := by omega

/-- One step of `VM.Run` on a typed instruction = one step of the reference interpreter on its encoding. -/
theorem step_eq (i : Instr) (r : Raw) (c : Nat) (s : State) (pkt : List Nat)
    (himpl : implemented i = true) (hk : aluKnown i = true)
    (hc : checkInstr c i = true) (ha : asm i = some r) : stepTyped i s pkt = stepRaw r s pkt := by
  cases i with
  | negateA => simp [implemented] at himpl
  | raw r' => simp [implemented] at himpl
  | loadConstant dst val =>
    simp only [asm, assembleLoad] at ha
    split at ha <;> simp at ha
    subst ha
    rcases ‹dst = regA ∨ dst = regX› with hd | hd <;> subst hd <;> simp [stepTyped, stepRaw]
  | loadScratch dst n =>
    simp only [asm, assembleLoad, u32OfInt] at ha
    repeat' split at ha
    all_goals simp at ha
    all_goals (try (exfalso; omega))
    all_goals subst ha
    all_goals have hn := toNat_mod_small n (by omega) (by omega)
    all_goals rcases ‹dst = regA ∨ dst = regX› with hd | hd <;> subst hd <;>
      simp [stepTyped, stepRaw, hn] <;>
      first | (simp at *; done) | (rw [if_pos (by omega), if_pos (by omega)])
  | storeScratch src n =>
    simp only [asm, u32OfInt] at ha
    repeat' split at ha
    all_goals simp at ha
    all_goals subst ha
    all_goals have hn := toNat_mod_small n (by omega) (by omega)
    all_goals subst_vars
    all_goals simp [stepTyped, stepRaw, hn]
    all_goals first | (simp at *; done) | (rw [if_pos (by omega), if_pos (by omega)])
  | loadAbsolute off size =>
    simp only [asm, assembleLoad] at ha
    repeat' split at ha
    all_goals simp at ha
    all_goals subst ha
    all_goals subst_vars
    all_goals simp only [stepTyped, stepRaw]
    all_goals first | (simp at *; done) | exact load_eq s pkt off _ _ (by simp)
  | loadIndirect off size =>
    simp only [asm, assembleLoad] at ha
    repeat' split at ha
    all_goals simp at ha
    all_goals subst ha
    all_goals subst_vars
    all_goals simp only [stepTyped, stepRaw]
    all_goals first | (simp at *; done) | (rw [Nat.add_comm s.x off]; exact load_eq s pkt _ _ _ (by simp))
  | loadMemShift off =>
    simp [asm, assembleLoad] at ha; subst ha
    have h15 : ∀ b : Nat, b &&& 15 = b % 16 := fun b => Nat.and_two_pow_sub_one_eq_mod b 4
    by_cases hb : off + 1 ≤ pkt.length <;> simp [stepTyped, stepRaw, pktLoad, pktBE, hb, h15, Nat.mul_comm]
  | loadExtension num =>
    simp [checkInstr] at hc; subst hc
    simp [asm, assembleLoad] at ha; subst ha
    simp [stepTyped, stepRaw, wrap32]
  | jump skip => simp [asm] at ha; subst ha; simp [stepTyped, stepRaw]
  | retA => simp [asm] at ha; subst ha; simp [stepTyped, stepRaw]
  | retConstant val => simp [asm] at ha; subst ha; simp [stepTyped, stepRaw]
  | txa => simp [asm] at ha; subst ha; simp [stepTyped, stepRaw]
  | tax => simp [asm] at ha; subst ha; simp [stepTyped, stepRaw]
  | aluOpConstant op val =>
    simp only [asm, Option.some.injEq] at ha; subst ha
    simp only [aluKnown, isALUBinary_iff] at hk
    simp [checkInstr] at hc
    rcases hk with h | h | h | h | h | h | h | h | h | h <;> subst h <;>
      simp [stepTyped, stepRaw, aluOpCommon, rawALU, wrap32, Nat.shiftLeft_eq, Nat.shiftRight_eq_div_pow] at hc ⊢ <;>
      first | done | (split <;> simp_all <;> omega) | (simp [hc]) | trace_state
  | aluOpX op =>
    simp only [asm, Option.some.injEq] at ha; subst ha
    simp only [aluKnown, isALUBinary_iff] at hk
    rcases hk with h | h | h | h | h | h | h | h | h | h <;> subst h <;>
      simp [stepTyped, stepRaw, aluOpCommon, rawALU, wrap32, Nat.shiftLeft_eq, Nat.shiftRight_eq_div_pow] <;>
      first | done | (split <;> simp_all <;> omega) | trace_state
  | jumpIf cond val st sf =>
    simp only [asm, jumpToRaw] at ha
    split at ha
    · simp at ha
    rename_i c' f hj
    rcases jumpTestToOp_some _ _ _ hj with ⟨h1, h2, h3⟩ | ⟨h1, h2, h3⟩ | ⟨h1, h2, h3⟩ | ⟨h1, h2, h3⟩ |
      ⟨h1, h2, h3⟩ | ⟨h1, h2, h3⟩ | ⟨h1, h2, h3⟩ | ⟨h1, h2, h3⟩ <;> subst h1 h2 h3 <;> simp at ha <;> subst ha <;>
      simp [stepTyped, stepRaw, jumpIfCommon, NetVerif.Model.BpfVM.cond] <;>
      first | done | (repeat' split) <;> first | rfl | omega | (exfalso; omega) | simp_all
  | jumpIfX cond st sf =>
    simp only [asm, jumpToRaw] at ha
    split at ha
    · simp at ha
    rename_i c' f hj
    rcases jumpTestToOp_some _ _ _ hj with ⟨h1, h2, h3⟩ | ⟨h1, h2, h3⟩ | ⟨h1, h2, h3⟩ | ⟨h1, h2, h3⟩ |
      ⟨h1, h2, h3⟩ | ⟨h1, h2, h3⟩ | ⟨h1, h2, h3⟩ | ⟨h1, h2, h3⟩ <;> subst h1 h2 h3 <;> simp at ha <;> subst ha <;>
      simp [stepTyped, stepRaw, jumpIfCommon, NetVerif.Model.BpfVM.cond] <;>
      first | done | (repeat' split) <;> first | rfl | omega | (exfalso; omega) | simp_all

/-! ### programs -/

theorem asmProg_get (p : List Instr) (rp : List Raw) (h : asmProg p = some rp) :
    rp.length = p.length ∧
    ∀ (pc : Nat) (i : Instr), p[pc]? = some i → ∃ r, asm i = some r ∧ rp[pc]? = some r := by
  induction p generalizing rp with
  | nil => simp [asmProg] at h; subst h; simp
  | cons i rest ih =>
    simp only [asmProg] at h
    split at h
    · simp at h
    rename_i r hr
    split at h
    · simp at h
    rename_i rs hrs
    simp at h; subst h
    obtain ⟨hl, hg⟩ := ih rs hrs
    refine ⟨by simp [hl], ?_⟩
    intro pc j hj
    cases pc with
    | zero => simp at hj; subst hj; exact ⟨r, hr, by simp⟩
    | succ pc => simp at hj ⊢; exact hg pc j hj

/-- Two machines whose programs correspond instruction by instruction compute the same outcome. -/
theorem runFuel_congr {α β : Type} (stepA : α → State → List Nat → Step) (stepB : β → State → List Nat → Step)
    (pa : List α) (pb : List β) (pkt : List Nat) (hlen : pb.length = pa.length)
    (hstep : ∀ (pc : Nat) (a : α), pa[pc]? = some a → ∃ b, pb[pc]? = some b ∧ ∀ s, stepA a s pkt = stepB b s pkt) :
    ∀ fuel pc s, runFuel stepA pa pkt fuel pc s = runFuel stepB pb pkt fuel pc s := by
  intro fuel
  induction fuel with
  | zero => intro pc s; simp [runFuel, hlen]
  | succ fuel ih =>
    intro pc s
    simp only [runFuel]
    cases ha : pa[pc]? with
    | none =>
      have : pb[pc]? = none := by
        rw [List.getElem?_eq_none_iff] at ha ⊢; omega
      simp [this]
    | some a =>
      obtain ⟨b, hb, hs⟩ := hstep pc a ha
      simp only [hb, hs s]
      split <;> simp [ih]

/-- Fuel = program length is always enough: the program counter grows by at least one per step. -/
theorem runFuel_fuel {α : Type} (step : α → State → List Nat → Step) (prog : List α) (pkt : List Nat) :
    ∀ fuel pc s, prog.length ≤ pc + fuel → runFuel step prog pkt fuel pc s ≠ .outOfFuel := by
  intro fuel
  induction fuel with
  | zero => intro pc s h; simp [runFuel]; omega
  | succ fuel ih =>
    intro pc s h
    simp only [runFuel]
    split
    · simp
    · split <;> simp
      exact ih _ _ (by omega)


/-! ### accepted programs run safely -/

theorem jumpIfCommon_cases (cond st sf a v : Nat) :
    jumpIfCommon cond st sf a v = st ∨ jumpIfCommon cond st sf a v = sf := by
  unfold jumpIfCommon
  generalize (if cond = jumpEqual then _ else _ : Bool) = b
  cases b <;> simp

theorem aluOpCommon_some (op a v : Nat) (h : ¬ v = 0 ∨ (¬ op = aluOpDiv ∧ ¬ op = aluOpMod)) :
    ∃ a', aluOpCommon op a v = some a' := by
  unfold aluOpCommon
  repeat' split
  all_goals simp_all

/-- What one step of an accepted instruction can do: never a panic or an unknown-instruction error; a
continuing instruction is not a return and skips fewer than `c` instructions. -/
def StepSafe (c : Nat) (i : Instr) : Step → Prop
  | .next _ k => isRet i = false ∧ (k = 0 ∨ k < c)
  | .done _ => True
  | .halt => True
  | .unknown => False
  | .panic => False

theorem step_safe (i : Instr) (r : Raw) (c : Nat) (s : State) (pkt : List Nat)
    (himpl : implemented i = true) (hc : checkInstr c i = true) (ha : asm i = some r) :
    StepSafe c i (stepTyped i s pkt) := by
  cases i with
  | negateA => simp [implemented] at himpl
  | raw r' => simp [implemented] at himpl
  | jump skip => simp [checkInstr] at hc; simp [stepTyped, StepSafe, isRet]; omega
  | jumpIf cond val st sf =>
    simp [checkInstr] at hc
    simp only [stepTyped, StepSafe, isRet]
    rcases jumpIfCommon_cases cond st sf s.a val with h | h <;> rw [h] <;> simp <;> omega
  | jumpIfX cond st sf =>
    simp [checkInstr] at hc
    simp only [stepTyped, StepSafe, isRet]
    rcases jumpIfCommon_cases cond st sf s.a s.x with h | h <;> rw [h] <;> simp <;> omega
  | aluOpConstant op val =>
    simp [checkInstr] at hc
    obtain ⟨a', h'⟩ := aluOpCommon_some op s.a val (by simpa using hc)
    simp [stepTyped, h', StepSafe, isRet]
  | aluOpX op =>
    simp only [stepTyped]
    split
    · simp [StepSafe]
    · rename_i hx
      obtain ⟨a', h'⟩ := aluOpCommon_some op s.a s.x (by
        by_cases hx0 : s.x = 0
        · right; simp [hx0] at hx; simpa using hx
        · left; exact hx0)
      simp [h', StepSafe, isRet]
  | loadExtension num =>
    simp [checkInstr] at hc; subst hc
    simp [stepTyped, StepSafe, isRet]
  | loadAbsolute off size =>
    simp only [asm, assembleLoad] at ha
    simp only [stepTyped]
    repeat' split at ha
    all_goals simp at ha
    all_goals subst_vars
    all_goals first
      | (simp at *; done)
      | ((first | rw [load_eq s pkt off 1 1 (by simp)] | rw [load_eq s pkt off 2 2 (by simp)] | rw [load_eq s pkt off 4 4 (by simp)]);
         generalize pktLoad pkt _ _ = v; cases v <;> simp [rawLoadA, StepSafe, isRet])
  | loadIndirect off size =>
    simp only [asm, assembleLoad] at ha
    simp only [stepTyped]
    repeat' split at ha
    all_goals simp at ha
    all_goals subst_vars
    all_goals first
      | (simp at *; done)
      | ((first | rw [load_eq s pkt _ 1 1 (by simp)] | rw [load_eq s pkt _ 2 2 (by simp)] | rw [load_eq s pkt _ 4 4 (by simp)]);
         generalize pktLoad pkt _ _ = v; cases v <;> simp [rawLoadA, StepSafe, isRet])
  | loadScratch dst n =>
    simp only [asm, assembleLoad] at ha
    simp only [stepTyped]
    repeat' split at ha
    all_goals simp at ha
    all_goals (repeat' split)
    all_goals simp_all [StepSafe, isRet]
    all_goals omega
  | storeScratch src n =>
    simp only [asm] at ha
    simp only [stepTyped]
    repeat' split at ha
    all_goals simp at ha
    all_goals (repeat' split)
    all_goals simp_all [StepSafe, isRet]
    all_goals omega
  | loadConstant dst val =>
    simp only [stepTyped]
    repeat' split
    all_goals simp [StepSafe, isRet]
  | loadMemShift off => simp only [stepTyped]; split <;> simp [StepSafe, isRet]
  | retA => simp [stepTyped, StepSafe]
  | retConstant val => simp [stepTyped, StepSafe]
  | txa => simp [stepTyped, StepSafe, isRet]
  | tax => simp [stepTyped, StepSafe, isRet]


theorem checkAll_get (p : List Instr) (h : checkAll p = true) :
    ∀ (pc : Nat) (i : Instr), p[pc]? = some i → checkInstr (p.length - (pc + 1)) i = true := by
  induction p with
  | nil => intro pc i hi; simp at hi
  | cons j rest ih =>
    simp only [checkAll, Bool.and_eq_true] at h
    intro pc i hi
    cases pc with
    | zero => simp at hi; subst hi; simpa using h.1
    | succ pc =>
      simp at hi
      have := ih h.2 pc i hi
      simpa [Nat.add_sub_add_right] using this

theorem newVM_parts (p : List Instr) (h : newVM p = true) :
    p ≠ [] ∧ checkAll p = true ∧ (∀ i, p[p.length - 1]? = some i → isRet i = true) ∧
    ∃ rp, asmProg p = some rp := by
  simp only [newVM, Bool.and_eq_true] at h
  obtain ⟨⟨⟨h1, h2⟩, h3⟩, h4⟩ := h
  refine ⟨by intro hp; subst hp; simp at h1, h2, ?_, ?_⟩
  · intro i hi
    rw [← List.getLast?_eq_getElem?] at hi
    simpa [hi] using h3
  · cases hp : asmProg p with
    | none => simp [hp] at h4
    | some rp => exact ⟨rp, rfl⟩

/-- An accepted program of implemented instructions always ends in a return or in a `ok = false` halt:
no panic, no error, never runs or jumps off the end, and fuel = length suffices. -/
theorem run_safe (p : List Instr) (pkt : List Nat) (hvm : newVM p = true)
    (himpl : ∀ i ∈ p, implemented i = true) :
    ∀ fuel pc s, pc < p.length → p.length ≤ pc + fuel →
      (∃ v, runFuel stepTyped p pkt fuel pc s = .ret v) ∨ runFuel stepTyped p pkt fuel pc s = .halt := by
  obtain ⟨_, hchk, hlast, rp, hasm⟩ := newVM_parts p hvm
  obtain ⟨_, hget⟩ := asmProg_get p rp hasm
  intro fuel
  induction fuel with
  | zero => intro pc s h1 h2; omega
  | succ fuel ih =>
    intro pc s h1 h2
    have hi : p[pc]? = some p[pc] := List.getElem?_eq_getElem h1
    obtain ⟨r, hr, _⟩ := hget pc _ hi
    have hc := checkAll_get p hchk pc _ hi
    have hs := step_safe p[pc] r _ s pkt (himpl _ (List.getElem_mem h1)) hc hr
    simp only [runFuel, hi]
    cases hst : stepTyped p[pc] s pkt with
    | next s' k =>
      rw [hst] at hs
      simp only [StepSafe] at hs
      have hnl : pc ≠ p.length - 1 := by
        intro he
        have := hlast p[pc] (by rw [← he]; exact hi)
        rw [this] at hs; simp at hs
      exact ih (pc + 1 + k) s' (by omega) (by omega)
    | done v => exact Or.inl ⟨v, rfl⟩
    | halt => exact Or.inr rfl
    | unknown => rw [hst] at hs; exact hs.elim
    | panic => rw [hst] at hs; exact hs.elim

end NetVerif.Proofs.Lemmas.BpfVM
