import NetVerif.Model.DnsChecked
import NetVerif.Proofs.Lemmas.DnsTotal
/-!
The checked twin (`Model/DnsChecked.lean`) is the model: every checked access sits behind a guard
that makes it succeed, so each `fC` equals `f` - for all byte strings and offsets.
-/
namespace NetVerif.Proofs.DnsChecked
open NetVerif.Model.Dns NetVerif.Proofs.DnsTotal

theorem getC_ok {msg : Bytes} {i : Nat} (h : i < msg.length) : getC msg i = .ok msg[i] := by
  simp [getC, h]

theorem sliceC_ok {msg : Bytes} {a b : Nat} (h1 : a ≤ b) (h2 : b ≤ msg.length) :
    sliceC msg a b = .ok ((msg.drop a).take (b - a)) := by
  simp [sliceC, h1, h2]

theorem drop_get {msg : Bytes} {i : Nat} (h : i < msg.length) : msg.drop i = msg[i] :: msg.drop (i + 1) :=
  List.drop_eq_getElem_cons h

theorem u16AtC_eq (msg : Bytes) (off : Nat) : u16AtC msg off = u16At msg off := by
  unfold u16AtC u16At
  by_cases h : off + 2 > msg.length
  · simp only [h, if_true]
    split
    · rename_i a b r hd
      have := congrArg List.length hd
      simp at this; omega
    · rfl
  · have h0 : off < msg.length := by omega
    have h1 : off + 1 < msg.length := by omega
    simp only [h, if_false, getC_ok h0, getC_ok h1]
    rw [drop_get h0, drop_get h1]

theorem u32AtC_eq (msg : Bytes) (off : Nat) : u32AtC msg off = u32At msg off := by
  unfold u32AtC u32At
  by_cases h : off + 4 > msg.length
  · simp only [h, if_true]
    split
    · rename_i a b c d r hd
      have := congrArg List.length hd
      simp at this; omega
    · rfl
  · have h0 : off < msg.length := by omega
    have h1 : off + 1 < msg.length := by omega
    have h2 : off + 2 < msg.length := by omega
    have h3 : off + 3 < msg.length := by omega
    simp only [h, if_false, getC_ok h0, getC_ok h1, getC_ok h2, getC_ok h3]
    rw [drop_get h0, drop_get h1, drop_get h2, drop_get h3]

theorem bytesAtC_eq (msg : Bytes) (off n : Nat) : bytesAtC msg off n = bytesAt msg off n := by
  unfold bytesAtC bytesAt
  by_cases h : off + n > msg.length
  · simp [h]
  · simp only [h, if_false]
    rw [sliceC_ok (by omega) (by omega)]
    simp

theorem textAtC_eq (msg : Bytes) (off : Nat) : textAtC msg off = textAt msg off := by
  unfold textAtC textAt
  by_cases h : off ≥ msg.length
  · simp [h, List.drop_eq_nil_of_le h]
  · have h0 : off < msg.length := by omega
    simp only [h, if_false, getC_ok h0]
    rw [drop_get h0]
    simp only []
    have hl : (msg.drop (off + 1)).length = msg.length - (off + 1) := by simp
    by_cases hc : off + 1 + msg[off] > msg.length
    · have : (msg.drop (off + 1)).length < msg[off] := by omega
      simp only [hc, this, if_true]
    · have : ¬ (msg.drop (off + 1)).length < msg[off] := by omega
      simp only [hc, this, if_false]
      rw [sliceC_ok (by omega) (by omega)]
      simp

theorem unpackLoopC_eq (msg : Bytes) : ∀ (fuel cur ptr : Nat) (name : Bytes) (newOff : Nat),
    unpackLoopC msg fuel cur ptr name newOff = unpackLoop msg fuel cur ptr name newOff := by
  intro fuel
  induction fuel with
  | zero => intro cur ptr name newOff; rfl
  | succ fuel ih =>
    intro cur ptr name newOff
    unfold unpackLoopC unpackLoop
    by_cases h : cur ≥ msg.length
    · simp [h, List.drop_eq_nil_of_le h]
    · have h0 : cur < msg.length := by omega
      simp only [h, if_false, getC_ok h0]
      rw [drop_get h0]
      simp only []
      have hl : (msg.drop (cur + 1)).length = msg.length - (cur + 1) := by simp
      by_cases hc : msg[cur] / 64 = 0
      · simp only [hc, if_true]
        by_cases hz : msg[cur] = 0
        · simp [hz]
        · simp only [hz, if_false]
          by_cases hb : cur + 1 + msg[cur] > msg.length
          · have : (msg.drop (cur + 1)).length < msg[cur] := by omega
            simp only [hb, this, if_true]
          · have : ¬ (msg.drop (cur + 1)).length < msg[cur] := by omega
            simp only [hb, this, if_false]
            rw [sliceC_ok (by omega) (by omega)]
            have e : cur + 1 + msg[cur] - (cur + 1) = msg[cur] := by omega
            simp only [e, ih]
      · simp only [hc, if_false]
        by_cases h3 : msg[cur] / 64 = 3
        · simp only [h3, if_true]
          by_cases hp : cur + 1 ≥ msg.length
          · simp [hp, List.drop_eq_nil_of_le hp]
          · have h1 : cur + 1 < msg.length := by omega
            simp only [hp, if_false, getC_ok h1]
            rw [drop_get h1]
            simp only [ih]
        · simp [h3]

theorem unpackNameC_eq (msg : Bytes) (off : Nat) : unpackNameC msg off = unpackName msg off :=
  unpackLoopC_eq msg _ _ _ _ _

theorem skipLoopC_eq (msg : Bytes) : ∀ (fuel cur : Nat), skipLoopC msg fuel cur = skipLoop msg fuel cur := by
  intro fuel
  induction fuel with
  | zero => intro cur; rfl
  | succ fuel ih =>
    intro cur
    unfold skipLoopC skipLoop
    by_cases h : cur ≥ msg.length
    · simp [h, List.drop_eq_nil_of_le h]
    · have h0 : cur < msg.length := by omega
      simp only [h, if_false, getC_ok h0]
      rw [drop_get h0]
      simp only []
      have hl : (msg.drop (cur + 1)).length = msg.length - (cur + 1) := by simp
      by_cases hc : msg[cur] / 64 = 0
      · simp only [hc, if_true]
        by_cases hz : msg[cur] = 0
        · simp [hz]
        · simp only [hz, if_false]
          by_cases hb : cur + 1 + msg[cur] > msg.length
          · have : (msg.drop (cur + 1)).length < msg[cur] := by omega
            simp only [hb, this, if_true]
          · have : ¬ (msg.drop (cur + 1)).length < msg[cur] := by omega
            simp only [hb, this, if_false, ih]
      · simp [hc]

theorem skipNameC_eq (msg : Bytes) (off : Nat) : skipNameC msg off = skipName msg off :=
  skipLoopC_eq msg _ _

theorem unpackLoop_newOff (msg : Bytes) : ∀ (fuel cur ptr : Nat) (name : Bytes) (newOff : Nat) (n : Bytes) (o : Nat),
    ptr ≠ 0 → unpackLoop msg fuel cur ptr name newOff = .ok (n, o) → o = newOff := by
  intro fuel
  induction fuel with
  | zero => intro cur ptr name newOff n o _ h; simp [unpackLoop] at h
  | succ fuel ih =>
    intro cur ptr name newOff n o hp h
    unfold unpackLoop at h
    split at h
    · simp at h
    · split at h
      · split at h
        · simp at h; exact h.2.symm
        · split at h
          · simp at h
          · split at h
            · simp at h
            · split at h
              · simp at h
              · exact ih _ _ _ _ _ _ hp h
      · split at h
        · split at h
          · simp at h
          · split at h
            · simp at h
            · have := ih _ _ _ _ _ _ (by omega) h
              simpa [hp] using this
        · simp at h

theorem drop_cons_lt {msg : Bytes} {cur c : Nat} {rest : Bytes} (h : msg.drop cur = c :: rest) :
    cur + 1 + rest.length = msg.length := by
  have := congrArg List.length h
  simp at this
  omega

theorem unpackLoop_offset (msg : Bytes) : ∀ (fuel cur : Nat) (name : Bytes) (newOff : Nat) (n : Bytes) (o : Nat),
    unpackLoop msg fuel cur 0 name newOff = .ok (n, o) → cur < o ∧ o ≤ msg.length := by
  intro fuel
  induction fuel with
  | zero => intro cur name newOff n o h; simp [unpackLoop] at h
  | succ fuel ih =>
    intro cur name newOff n o h
    unfold unpackLoop at h
    split at h
    · simp at h
    · rename_i c rest hdrop
      have hlen := drop_cons_lt hdrop
      split at h
      · split at h
        · simp at h; omega
        · split at h
          · simp at h
          · split at h
            · simp at h
            · split at h
              · simp at h
              · have := ih _ _ _ _ _ h
                omega
      · split at h
        · split at h
          · simp at h
          · rename_i c1 rest' 
            split at h
            · simp at h
            · have := unpackLoop_newOff msg _ _ _ _ _ _ _ (by omega) h
              simp at this
              simp at hlen
              omega
        · simp at h

theorem unpackName_le {msg : Bytes} {off : Nat} {n : Bytes} {o : Nat}
    (h : unpackName msg off = .ok (n, o)) : o ≤ msg.length :=
  (unpackLoop_offset msg _ _ _ _ _ _ h).2

theorem optLoopC_eq (msg : Bytes) (e : Nat) : ∀ (fuel off : Nat), optLoopC msg e fuel off = optLoop msg e fuel off := by
  intro fuel
  induction fuel with
  | zero => intro off; rfl
  | succ fuel ih =>
    intro off
    unfold optLoopC optLoop
    simp only [u16AtC_eq]
    split
    · cases h1 : u16At msg off with
      | error e1 => rfl
      | ok r1 =>
        rcases r1 with ⟨code, off1⟩
        simp only []
        cases h2 : u16At msg off1 with
        | error e2 => rfl
        | ok r2 =>
          rcases r2 with ⟨l, off2⟩
          simp only []
          have b2 := u16At_bound h2
          split
          · rfl
          · rw [sliceC_ok (by omega) (Nat.le_refl _)]
            simp only []
            have ht : (msg.drop off2).take (msg.length - off2) = msg.drop off2 := by
              apply List.take_of_length_le; simp
            rw [ht]
            have hl : (msg.drop off2).length = msg.length - off2 := by simp
            rw [hl]
            simp only [ih]
            split
            · rfl
            · cases optLoop msg e fuel (off2 + l) <;> rfl
    · rfl

theorem svcbPass1_voff (msg : Bytes) (e : Nat) : ∀ (fuel off : Nat) (prev : Option Nat) (l : List (Nat × Nat × Nat)),
    svcbPass1 msg e fuel off prev = .ok l → ∀ x ∈ l, x.2.2 ≤ msg.length := by
  intro fuel
  induction fuel with
  | zero => intro off prev l h; simp [svcbPass1] at h
  | succ fuel ih =>
    intro off prev l h
    unfold svcbPass1 at h
    split at h
    · split at h
      · simp at h
      · rename_i key off1 h1
        split at h
        · simp at h
        · split at h
          · simp at h
          · rename_i size off2 h2
            have b2 := u16At_bound h2
            split at h
            · simp at h
            · split at h
              · rename_i ps hrec
                simp at h
                subst h
                intro x hx
                simp only [List.mem_cons] at hx
                rcases hx with rfl | hx
                · simp; omega
                · exact ih _ _ _ hrec x hx
              · simp at h
    · split at h
      · simp at h
      · simp at h; subst h; intro x hx; simp at hx

theorem svcbPass2C_eq (msg : Bytes) : ∀ (l : List (Nat × Nat × Nat)), (∀ x ∈ l, x.2.2 ≤ msg.length) →
    svcbPass2C msg l = svcbPass2 msg l := by
  intro l
  induction l with
  | nil => intro _; rfl
  | cons x l ih =>
    intro hl
    rcases x with ⟨key, size, voff⟩
    have hv : voff ≤ msg.length := hl (key, size, voff) (by simp)
    unfold svcbPass2C svcbPass2
    rw [sliceC_ok hv (Nat.le_refl _)]
    simp only []
    have ht : (msg.drop voff).take (msg.length - voff) = msg.drop voff := by
      apply List.take_of_length_le; simp
    rw [ht]
    have hlen : (msg.drop voff).length = msg.length - voff := by simp
    rw [hlen]
    split
    · rfl
    · rename_i hs
      rw [sliceC_ok (Nat.zero_le _) (by rw [hlen]; omega)]
      simp only [List.drop_zero, Nat.sub_zero, ih (fun y hy => hl y (by simp [hy]))]
      cases svcbPass2 msg l <;> rfl

theorem targetCompressedC_eq (msg : Bytes) : ∀ (fuel i stop : Nat), stop ≤ msg.length →
    targetCompressedC msg fuel i stop = .ok (targetCompressed msg fuel i stop) := by
  intro fuel
  induction fuel with
  | zero => intro i stop _; rfl
  | succ fuel ih =>
    intro i stop hs
    unfold targetCompressedC targetCompressed
    split
    · rename_i hi
      have h0 : i < msg.length := by omega
      rw [getC_ok h0, drop_get h0]
      simp only []
      split
      · rfl
      · exact ih _ _ hs
    · rfl

/-! ## Composite functions: textual copies over equal primitives -/

theorem nameOnlyC_eq (msg : Bytes) (off : Nat) : nameOnlyC msg off = nameOnly msg off := by
  unfold nameOnlyC nameOnly
  simp only [unpackNameC_eq]
  repeat' (first | rfl | split)

theorem txtLoopC_eq (msg : Bytes) (len : Nat) : ∀ (fuel off n : Nat), txtLoopC msg len fuel off n = txtLoop msg len fuel off n := by
  intro fuel
  induction fuel with
  | zero => intro off n; rfl
  | succ fuel ih =>
    intro off n
    unfold txtLoopC txtLoop
    simp only [textAtC_eq, ih]
    repeat' (first | rfl | split)

theorem svcbPass1C_eq (msg : Bytes) (e : Nat) : ∀ (fuel off : Nat) (prev : Option Nat),
    svcbPass1C msg e fuel off prev = svcbPass1 msg e fuel off prev := by
  intro fuel
  induction fuel with
  | zero => intro off prev; rfl
  | succ fuel ih =>
    intro off prev
    unfold svcbPass1C svcbPass1
    simp only [u16AtC_eq, ih]
    repeat' (first | rfl | split)

theorem unpackSVCBC_eq (msg : Bytes) (off len : Nat) : unpackSVCBC msg off len = unpackSVCB msg off len := by
  unfold unpackSVCBC unpackSVCB
  simp only [u16AtC_eq, unpackNameC_eq, svcbPass1C_eq]
  cases h1 : u16At msg off with
  | error e => rfl
  | ok r1 =>
    rcases r1 with ⟨prio, off1⟩
    simp only []
    cases h2 : unpackName msg off1 with
    | error e => rfl
    | ok r2 =>
      rcases r2 with ⟨t, off2⟩
      simp only []
      rw [targetCompressedC_eq msg _ _ _ (unpackName_le h2)]
      cases targetCompressed msg (off2 + 1) off1 off2 with
      | true => rfl
      | false =>
        simp only []
        cases h3 : svcbPass1 msg (off + len) (msg.length + 1) off2 none with
        | error e => rfl
        | ok l =>
          simp only [Bool.false_eq_true, if_false]
          rw [svcbPass2C_eq msg l (svcbPass1_voff msg _ _ _ _ _ h3)]
          repeat' (first | rfl | split)

theorem unpackBodyC_eq (msg : Bytes) (off typ len : Nat) : unpackBodyC msg off typ len = unpackBody msg off typ len := by
  unfold unpackBodyC unpackBody
  simp only [bytesAtC_eq, nameOnlyC_eq, unpackNameC_eq, u16AtC_eq, u32AtC_eq, txtLoopC_eq, unpackSVCBC_eq, optLoopC_eq]
  repeat' (first | rfl | split)

theorem unpackQuestionC_eq (msg : Bytes) (off : Nat) : unpackQuestionC msg off = unpackQuestion msg off := by
  unfold unpackQuestionC unpackQuestion
  simp only [unpackNameC_eq, u16AtC_eq]
  repeat' (first | rfl | split)

theorem unpackRHeaderC_eq (msg : Bytes) (off : Nat) : unpackRHeaderC msg off = unpackRHeader msg off := by
  unfold unpackRHeaderC unpackRHeader
  simp only [unpackNameC_eq, u16AtC_eq, u32AtC_eq]
  repeat' (first | rfl | split)

theorem unpackResourceC_eq (msg : Bytes) (off : Nat) : unpackResourceC msg off = unpackResource msg off := by
  unfold unpackResourceC unpackResource
  simp only [unpackRHeaderC_eq, unpackBodyC_eq]
  repeat' (first | rfl | split)

theorem skipQuestionC_eq (msg : Bytes) (off : Nat) : skipQuestionC msg off = skipQuestion msg off := by
  unfold skipQuestionC skipQuestion
  simp only [skipNameC_eq]
  repeat' (first | rfl | split)

theorem skipResourceC_eq (msg : Bytes) (off : Nat) : skipResourceC msg off = skipResource msg off := by
  unfold skipResourceC skipResource
  simp only [skipNameC_eq, u16AtC_eq]
  repeat' (first | rfl | split)

theorem unpackQuestionsC_eq (msg : Bytes) : ∀ (k off : Nat), unpackQuestionsC msg k off = unpackQuestions msg k off := by
  intro k
  induction k with
  | zero => intro off; rfl
  | succ k ih => intro off; unfold unpackQuestionsC unpackQuestions; simp only [unpackQuestionC_eq, ih]; repeat' (first | rfl | split)

theorem unpackResourcesC_eq (msg : Bytes) : ∀ (k off : Nat), unpackResourcesC msg k off = unpackResources msg k off := by
  intro k
  induction k with
  | zero => intro off; rfl
  | succ k ih => intro off; unfold unpackResourcesC unpackResources; simp only [unpackResourceC_eq, ih]; repeat' (first | rfl | split)

theorem skipQuestionsC_eq (msg : Bytes) : ∀ (k off : Nat), skipQuestionsC msg k off = skipQuestions msg k off := by
  intro k
  induction k with
  | zero => intro off; rfl
  | succ k ih => intro off; unfold skipQuestionsC skipQuestions; simp only [skipQuestionC_eq, ih]; repeat' (first | rfl | split)

theorem skipResourcesC_eq (msg : Bytes) : ∀ (k off : Nat), skipResourcesC msg k off = skipResources msg k off := by
  intro k
  induction k with
  | zero => intro off; rfl
  | succ k ih => intro off; unfold skipResourcesC skipResources; simp only [skipResourceC_eq, ih]; repeat' (first | rfl | split)

theorem unpackWireHeaderC_eq (msg : Bytes) : unpackWireHeaderC msg = unpackWireHeader msg := by
  unfold unpackWireHeaderC unpackWireHeader
  simp only [u16AtC_eq, u16At]
  rcases msg with _ | ⟨a0, _ | ⟨a1, _ | ⟨b0, _ | ⟨b1, _ | ⟨c0, _ | ⟨c1, _ | ⟨d0, _ | ⟨d1, _ | ⟨e0, _ | ⟨e1, _ | ⟨f0, _ | ⟨f1, r⟩⟩⟩⟩⟩⟩⟩⟩⟩⟩⟩⟩ <;> rfl

theorem unpackMessageOffC_eq (msg : Bytes) : unpackMessageOffC msg = unpackMessageOff msg := by
  unfold unpackMessageOffC unpackMessageOff
  simp only [unpackWireHeaderC_eq, unpackQuestionsC_eq, unpackResourcesC_eq]
  repeat' (first | rfl | split)

theorem unpackMessageC_eq (msg : Bytes) : unpackMessageC msg = unpackMessage msg := by
  unfold unpackMessageC unpackMessage
  simp only [unpackMessageOffC_eq]
  repeat' (first | rfl | split)

theorem skipMessageC_eq (msg : Bytes) : skipMessageC msg = skipMessage msg := by
  unfold skipMessageC skipMessage
  simp only [unpackWireHeaderC_eq, skipQuestionsC_eq, skipResourcesC_eq]
  repeat' (first | rfl | split)

theorem walkQuestionC_eq (msg : Bytes) (off : Nat) (s : Step) : walkQuestionC msg off s = walkQuestion msg off s := by
  cases s <;> simp only [walkQuestionC, walkQuestion, unpackQuestionC_eq, skipQuestionC_eq] <;> repeat' (first | rfl | split)

theorem walkResourceC_eq (msg : Bytes) (off : Nat) (s : Step) : walkResourceC msg off s = walkResource msg off s := by
  cases s <;> simp only [walkResourceC, walkResource, unpackResourceC_eq, skipResourceC_eq, unpackRHeaderC_eq, unpackBodyC_eq] <;>
    repeat' (first | rfl | split)

theorem walkSectionC_eq (one one' : Bytes → Nat → Step → Except Err (Item × Nat)) (h : ∀ m o s, one m o s = one' m o s)
    (msg : Bytes) : ∀ (n off : Nat) (sc : List Step), walkSectionC one msg n off sc = walkSection one' msg n off sc := by
  intro n
  induction n with
  | zero => intro off sc; rfl
  | succ n ih => intro off sc; unfold walkSectionC walkSection; simp only [h, ih]; repeat' (first | rfl | split)

theorem walkMessageC_eq (msg : Bytes) (sc : List Step) : walkMessageC msg sc = walkMessage msg sc := by
  unfold walkMessageC walkMessage
  simp only [unpackWireHeaderC_eq, walkSectionC_eq _ _ walkQuestionC_eq, walkSectionC_eq _ _ walkResourceC_eq]
  repeat' (first | rfl | split)

end NetVerif.Proofs.DnsChecked
