import NetVerif.Model.Dns
/-!
Shared lemmas for C36/C37: label lists, the presentation form `textOf`, the
wire form `encLabels`, and what `Name.unpack` computes.
-/
namespace NetVerif.Proofs.Dns
open NetVerif.Model.Dns

/-- presentation form of a label list: every label followed by '.' -/
def textOf : List Bytes → Bytes
  | [] => []
  | l :: ls => l ++ 46 :: textOf ls

/-- a label: 1..63 bytes, no '.' -/
def LabelOK (l : Bytes) : Prop := 0 < l.length ∧ l.length < 64 ∧ 46 ∉ l

def LabelsOK (ls : List Bytes) : Prop := ∀ l ∈ ls, LabelOK l

theorem textOf_append (a b : List Bytes) : textOf (a ++ b) = textOf a ++ textOf b := by
  induction a with
  | nil => simp [textOf]
  | cons l ls ih => simp [textOf, ih]

theorem labelsOK_append {a b : List Bytes} (ha : LabelsOK a) (hb : LabelsOK b) : LabelsOK (a ++ b) := by
  intro l hl
  rcases List.mem_append.mp hl with h | h
  · exact ha l h
  · exact hb l h

/-- The shape C37 promises for a decoded name: the root ".", or a sequence of labels
(1..63 bytes, none containing '.') each followed by '.'. -/
def NameShape (n : Bytes) : Prop :=
  n = [46] ∨ ∃ ls, ls ≠ [] ∧ LabelsOK ls ∧ n = textOf ls

/-- Result shape of the unpack loop, from any state whose partial name is a label text. -/
theorem unpackLoop_shape (msg : Bytes) :
    ∀ (fuel cur ptr : Nat) (ls0 : List Bytes) (newOff : Nat) (n : Bytes) (o : Nat),
      LabelsOK ls0 → (textOf ls0).length ≤ 254 →
      unpackLoop msg fuel cur ptr (textOf ls0) newOff = .ok (n, o) →
      n.length ≤ 254 ∧
      ((ls0 = [] ∧ n = [46]) ∨ ∃ ls, ls ≠ [] ∧ LabelsOK ls ∧ n = textOf ls) := by
  intro fuel
  induction fuel with
  | zero => intro cur ptr ls0 newOff n o _ _ h; simp [unpackLoop] at h
  | succ fuel ih =>
    intro cur ptr ls0 newOff n o hok hlen h
    unfold unpackLoop at h
    split at h
    · simp at h
    · rename_i c rest hdrop
      split at h
      · -- label or end
        rename_i hc
        split at h
        · -- end of name
          simp only [Except.ok.injEq, Prod.mk.injEq] at h
          rcases h with ⟨hn, _⟩
          cases ls0 with
          | nil => simp [textOf] at hn; subst hn; simp
          | cons l ls =>
            have hne : (textOf (l :: ls)).isEmpty = false := by
              simp [textOf]
            rw [hne] at hn
            simp at hn
            subst hn
            exact ⟨hlen, Or.inr ⟨l :: ls, by simp, hok, rfl⟩⟩
        · rename_i hc0
          split at h
          · simp at h
          · rename_i hrest
            split at h
            · simp at h
            · rename_i hdot
              split at h
              · simp at h
              · rename_i hlen2
                have hl : LabelOK (rest.take c) := by
                  refine ⟨?_, ?_, ?_⟩
                  · simp [List.length_take]; omega
                  · simp [List.length_take]; omega
                  · intro hmem
                    apply hdot
                    simp [hmem]
                have heq : textOf ls0 ++ rest.take c ++ [46] = textOf (ls0 ++ [rest.take c]) := by
                  simp [textOf_append, textOf]
                rw [heq] at h
                have hok' : LabelsOK (ls0 ++ [rest.take c]) :=
                  labelsOK_append hok (by intro l hl'; simp at hl'; subst hl'; exact hl)
                have hlen' : (textOf (ls0 ++ [rest.take c])).length ≤ 254 := by
                  rw [← heq]; simp [List.length_take]; omega
                have := ih _ _ _ _ _ _ hok' hlen' h
                rcases this with ⟨h1, h2⟩
                refine ⟨h1, Or.inr ?_⟩
                rcases h2 with ⟨hnil, _⟩ | h2
                · simp at hnil
                · exact h2
      · split at h
        · -- pointer
          split at h
          · simp at h
          · split at h
            · simp at h
            · exact ih _ _ _ _ _ _ hok hlen h
        · simp at h

/-- Termination: the fuel never runs out when it exceeds the remaining name capacity plus the
remaining pointer budget. -/
theorem unpackLoop_no_fuel (msg : Bytes) :
    ∀ (fuel cur ptr : Nat) (name : Bytes) (newOff : Nat),
      name.length ≤ 254 → ptr ≤ 10 → (254 - name.length) + (10 - ptr) < fuel →
      unpackLoop msg fuel cur ptr name newOff ≠ .error .fuel := by
  intro fuel
  induction fuel with
  | zero => intro cur ptr name newOff _ _ h; omega
  | succ fuel ih =>
    intro cur ptr name newOff hlen hptr hf
    unfold unpackLoop
    split
    · simp
    · rename_i c rest hdrop
      split
      · split
        · simp
        · split
          · simp
          · split
            · simp
            · split
              · simp
              · apply ih
                · simp [List.length_take]; omega
                · exact hptr
                · simp [List.length_take]; omega
      · split
        · split
          · simp
          · split
            · simp
            · apply ih
              · exact hlen
              · omega
              · omega
        · simp

/-- More fuel does not change a result that is not the fuel error. -/
theorem unpackLoop_succ (msg : Bytes) :
    ∀ (fuel cur ptr : Nat) (name : Bytes) (newOff : Nat),
      unpackLoop msg fuel cur ptr name newOff ≠ .error .fuel →
      unpackLoop msg (fuel + 1) cur ptr name newOff = unpackLoop msg fuel cur ptr name newOff := by
  intro fuel
  induction fuel with
  | zero => intro cur ptr name newOff h; simp [unpackLoop] at h
  | succ fuel ih =>
    intro cur ptr name newOff h
    unfold unpackLoop at h ⊢
    split
    · rfl
    · rename_i c rest hdrop
      simp only [hdrop] at h
      split
      · rename_i hc
        simp only [hc, if_true] at h
        split
        · rfl
        · rename_i hc0
          simp only [hc0, if_false] at h
          split
          · rfl
          · rename_i h1
            simp only [h1, if_false] at h
            split
            · rfl
            · rename_i h2
              simp only [h2] at h
              split
              · rfl
              · rename_i h3
                simp only [h3, if_false] at h
                exact ih _ _ _ _ h
      · rename_i hc
        simp only [hc, if_false] at h
        split
        · rename_i hc3
          simp only [hc3, if_true] at h
          split
          · rfl
          · split
            · rfl
            · rename_i h4
              simp only [h4, if_false] at h
              exact ih _ _ _ _ h
        · rfl

theorem unpackLoop_add (msg : Bytes) (fuel cur ptr : Nat) (name : Bytes) (newOff : Nat)
    (h : unpackLoop msg fuel cur ptr name newOff ≠ .error .fuel) :
    ∀ k, unpackLoop msg (fuel + k) cur ptr name newOff = unpackLoop msg fuel cur ptr name newOff := by
  intro k
  induction k with
  | zero => rfl
  | succ k ih =>
    have : unpackLoop msg (fuel + k) cur ptr name newOff ≠ .error .fuel := by rw [ih]; exact h
    rw [← Nat.add_assoc, unpackLoop_succ msg _ _ _ _ _ this, ih]

/-- A result obtained with some fuel is the result with the model's fuel. -/
theorem unpackName_of_fuel (msg : Bytes) (off fuel : Nat) (r : Bytes × Nat)
    (h : unpackLoop msg fuel off 0 [] off = .ok r) : unpackName msg off = .ok r := by
  unfold unpackName
  have hnf : unpackLoop msg unpackFuel off 0 [] off ≠ .error .fuel :=
    unpackLoop_no_fuel msg _ _ _ _ _ (by simp) (by omega) (by simp [unpackFuel])
  by_cases hle : fuel ≤ unpackFuel
  · have := unpackLoop_add msg fuel off 0 [] off (by rw [h]; simp) (unpackFuel - fuel)
    rw [show fuel + (unpackFuel - fuel) = unpackFuel by omega] at this
    rw [this, h]
  · have := unpackLoop_add msg unpackFuel off 0 [] off hnf (fuel - unpackFuel)
    rw [show unpackFuel + (fuel - unpackFuel) = fuel by omega] at this
    rw [← this, h]

theorem unpackName_of_fuel_err (msg : Bytes) (off fuel : Nat) (e : Err) (he : e ≠ .fuel)
    (h : unpackLoop msg fuel off 0 [] off = .error e) : unpackName msg off = .error e := by
  unfold unpackName
  have hnf : unpackLoop msg unpackFuel off 0 [] off ≠ .error .fuel :=
    unpackLoop_no_fuel msg _ _ _ _ _ (by simp) (by omega) (by simp [unpackFuel])
  by_cases hle : fuel ≤ unpackFuel
  · have := unpackLoop_add msg fuel off 0 [] off (by rw [h]; simp [he]) (unpackFuel - fuel)
    rw [show fuel + (unpackFuel - fuel) = unpackFuel by omega] at this
    rw [this, h]
  · have := unpackLoop_add msg unpackFuel off 0 [] off hnf (fuel - unpackFuel)
    rw [show unpackFuel + (fuel - unpackFuel) = fuel by omega] at this
    rw [← this, h]

/-! ## What a position of a message decodes to -/

/-- wire form of a label list (without terminator) -/
def encLabels : List Bytes → Bytes
  | [] => []
  | l :: ls => l.length :: l ++ encLabels ls

/-- `Decodes msg off ls d e`: reading a name at `off` yields the labels `ls`, following `d`
compression pointers; `e` is the offset just after the part stored at `off` (the terminator or
the first pointer). No pointer leads below offset `k` (12 = past the header, for the Builder,
which writes the header last). -/
inductive Decodes (k : Nat) (msg : Bytes) : Nat → List Bytes → Nat → Nat → Prop
  | nil {off : Nat} {rest : Bytes} : msg.drop off = 0 :: rest → Decodes k msg off [] 0 (off + 1)
  | label {off : Nat} {l : Bytes} {ls : List Bytes} {d e : Nat} {rest : Bytes} :
      msg.drop off = l.length :: (l ++ rest) → LabelOK l →
      Decodes k msg (off + 1 + l.length) ls d e → Decodes k msg off (l :: ls) d e
  | ptr {off p : Nat} {ls : List Bytes} {d e : Nat} {rest : Bytes} :
      msg.drop off = (192 + p / 256) :: (p % 256) :: rest → p < 16384 → k ≤ p →
      Decodes k msg p ls d e → Decodes k msg off ls (d + 1) (off + 2)

variable {k : Nat}

/-- `name` as `Name.unpack` finishes it: the empty name is the root. -/
def fin (name : Bytes) : Bytes := if name.isEmpty then [46] else name

/-- Soundness of `Decodes` for the unpack loop, within the pointer budget. -/
theorem unpackLoop_of_decodes {msg : Bytes} {off : Nat} {ls : List Bytes} {d e : Nat}
    (hd : Decodes k msg off ls d e) :
    ∀ (fuel ptr : Nat) (acc : Bytes) (newOff : Nat),
      acc.length + (textOf ls).length ≤ 254 → ptr + d ≤ 10 → ls.length + d < fuel →
      unpackLoop msg fuel off ptr acc newOff =
        .ok (fin (acc ++ textOf ls), if ptr = 0 then e else newOff) := by
  induction hd with
  | nil h =>
    intro fuel ptr acc newOff _ _ hf
    cases fuel with
    | zero => omega
    | succ fuel => simp [unpackLoop, h, textOf, fin]
  | @label off l ls d e rest h hl _ ih =>
    intro fuel ptr acc newOff hlen hp hf
    cases fuel with
    | zero => omega
    | succ fuel =>
      rcases hl with ⟨h0, h64, hdot⟩
      have hlen' : acc.length + l.length + 1 + (textOf ls).length ≤ 254 := by
        simp [textOf] at hlen; omega
      have hih := ih fuel ptr (acc ++ l ++ [46]) newOff (by simp; omega) hp (by simp at hf; omega)
      unfold unpackLoop
      simp only [h]
      have h1 : l.length / 64 = 0 := by omega
      have h2 : ¬ l.length = 0 := by omega
      have h3 : ¬ (l ++ rest).length < l.length := by simp
      have h4 : (l ++ rest).take l.length = l := List.take_left' rfl
      have h5 : ¬ (l.contains 46 = true) := by simpa using hdot
      have h6 : ¬ acc.length + l.length ≥ 254 := by omega
      simp only [h1, h2, h3, h4, h5, h6, if_true, if_false]
      rw [hih]
      simp [textOf]
  | @ptr off p ls d e rest h hp hkp _ ih =>
    intro fuel ptr acc newOff hlen hpd hf
    cases fuel with
    | zero => omega
    | succ fuel =>
      have hih := ih fuel (ptr + 1) acc (if ptr = 0 then off + 2 else newOff) hlen (by omega) (by omega)
      unfold unpackLoop
      simp only [h]
      have h1 : ¬ (192 + p / 256) / 64 = 0 := by omega
      have h2 : (192 + p / 256) / 64 = 3 := by omega
      have h3 : ¬ ptr + 1 > 10 := by omega
      have h4 : (192 + p / 256) % 64 * 256 + p % 256 = p := by omega
      simp only [h2, h3, h4, if_true, if_false]
      rw [hih]
      simp

/-- Past the pointer budget the loop reports `errTooManyPtr`. -/
theorem unpackLoop_of_decodes_deep {msg : Bytes} {off : Nat} {ls : List Bytes} {d e : Nat}
    (hd : Decodes k msg off ls d e) :
    ∀ (fuel ptr : Nat) (acc : Bytes) (newOff : Nat),
      acc.length + (textOf ls).length ≤ 254 → ptr ≤ 10 → 10 < ptr + d → ls.length + d < fuel →
      unpackLoop msg fuel off ptr acc newOff = .error .tooManyPtr := by
  induction hd with
  | nil h => intro fuel ptr acc newOff _ hp hd _; omega
  | @label off l ls d e rest h hl _ ih =>
    intro fuel ptr acc newOff hlen hp hpd hf
    cases fuel with
    | zero => omega
    | succ fuel =>
      rcases hl with ⟨h0, h64, hdot⟩
      have hlen' : acc.length + l.length + 1 + (textOf ls).length ≤ 254 := by
        simp [textOf] at hlen; omega
      have hih := ih fuel ptr (acc ++ l ++ [46]) newOff (by simp; omega) hp hpd (by simp at hf; omega)
      unfold unpackLoop
      simp only [h]
      have h1 : l.length / 64 = 0 := by omega
      have h2 : ¬ l.length = 0 := by omega
      have h3 : ¬ (l ++ rest).length < l.length := by simp
      have h4 : (l ++ rest).take l.length = l := List.take_left' rfl
      have h5 : ¬ (l.contains 46 = true) := by simpa using hdot
      have h6 : ¬ acc.length + l.length ≥ 254 := by omega
      simp only [h1, h2, h3, h4, h5, h6, if_true, if_false]
      exact hih
  | @ptr off p ls d e rest h hp hkp _ ih =>
    intro fuel ptr acc newOff hlen hp10 hpd hf
    cases fuel with
    | zero => omega
    | succ fuel =>
      unfold unpackLoop
      simp only [h]
      have h1 : ¬ (192 + p / 256) / 64 = 0 := by omega
      have h2 : (192 + p / 256) / 64 = 3 := by omega
      have h4 : (192 + p / 256) % 64 * 256 + p % 256 = p := by omega
      simp only [h2, h4, if_true]
      by_cases h3 : ptr + 1 > 10
      · simp [h3]
      · simp only [h3, if_false]
        exact ih fuel (ptr + 1) acc _ hlen (by omega) (by omega) (by omega)

/-- `Decodes` only looks at `msg` through `drop`, so it survives appending. -/
theorem Decodes.append {msg : Bytes} {off : Nat} {ls : List Bytes} {d e : Nat}
    (hd : Decodes k msg off ls d e) (ext : Bytes) : Decodes k (msg ++ ext) off ls d e := by
  have key : ∀ {off : Nat} {x : Nat} {xs : Bytes}, msg.drop off = x :: xs →
      (msg ++ ext).drop off = x :: (xs ++ ext) := by
    intro off x xs h
    have hle : off ≤ msg.length := by
      apply Nat.le_of_lt
      apply Nat.lt_of_not_le
      intro hge
      rw [List.drop_eq_nil_of_le hge] at h
      cases h
    rw [List.drop_append_of_le_length hle, h]
    rfl
  induction hd with
  | nil h => exact Decodes.nil (key h)
  | @label _ _ _ _ _ rest h hl _ ih =>
    refine Decodes.label (rest := rest ++ ext) ?_ hl ih
    rw [key h, List.append_assoc]
  | @ptr _ _ _ _ _ rest h hp hkp _ ih =>
    refine Decodes.ptr (rest := rest ++ ext) ?_ hp hkp ih
    rw [key h]
    rfl

theorem decodes_unpackName {msg : Bytes} {off : Nat} {ls : List Bytes} {d e : Nat}
    (hd : Decodes k msg off ls d e) (hlen : (textOf ls).length ≤ 254) (hdepth : d ≤ 10) :
    unpackName msg off = .ok (fin (textOf ls), e) := by
  apply unpackName_of_fuel msg off (ls.length + d + 1)
  have := unpackLoop_of_decodes hd (ls.length + d + 1) 0 [] off (by simpa using hlen) (by omega) (by omega)
  simpa using this

theorem decodes_unpackName_deep {msg : Bytes} {off : Nat} {ls : List Bytes} {d e : Nat}
    (hd : Decodes k msg off ls d e) (hlen : (textOf ls).length ≤ 254) (hdepth : 10 < d) :
    unpackName msg off = .error .tooManyPtr := by
  apply unpackName_of_fuel_err msg off (ls.length + d + 1) _ (by simp)
  exact unpackLoop_of_decodes_deep hd (ls.length + d + 1) 0 [] off (by simpa using hlen) (by omega)
    (by omega) (by omega)

/-! ## `compressionDepth` counts the pointers of a `Decodes` chain -/

theorem labels_le_text : ∀ (ls : List Bytes), LabelsOK ls → 2 * ls.length ≤ (textOf ls).length := by
  intro ls
  induction ls with
  | nil => intro _; simp
  | cons l ls ih =>
    intro hok
    have := (hok l (by simp)).1
    have := ih (fun x hx => hok x (by simp [hx]))
    simp [textOf]; omega

theorem depthLoop_of_decodes {buf : Bytes} {off : Nat} {ls : List Bytes} {d e : Nat}
    (hd : Decodes k buf off ls d e) :
    ∀ (fuel acc : Nat), ls.length + d < fuel → acc + d ≤ 10 → depthLoop buf fuel off acc = acc + d := by
  induction hd with
  | nil h =>
    intro fuel acc hf _
    cases fuel with
    | zero => omega
    | succ fuel => simp [depthLoop, h]
  | @label off l ls d e rest h hl _ ih =>
    intro fuel acc hf hacc
    cases fuel with
    | zero => omega
    | succ fuel =>
      rcases hl with ⟨h0, h64, _⟩
      unfold depthLoop
      simp only [h]
      have h1 : l.length / 64 = 0 := by omega
      have h2 : ¬ l.length = 0 := by omega
      simp only [h1, h2, if_true, if_false]
      exact ih fuel acc (by simp at hf; omega) hacc
  | @ptr off p ls d e rest h hp hkp _ ih =>
    intro fuel acc hf hacc
    cases fuel with
    | zero => omega
    | succ fuel =>
      unfold depthLoop
      simp only [h]
      have h1 : ¬ (192 + p / 256) / 64 = 0 := by omega
      have h2 : (192 + p / 256) / 64 = 3 := by omega
      have h4 : (192 + p / 256) % 64 * 256 + p % 256 = p := by omega
      simp only [h2, h4, Nat.reduceEqDiff, reduceIte]
      by_cases hcap : acc + 1 ≥ 10
      · simp [hcap]; omega
      · simp only [hcap, if_false]
        rw [ih fuel (acc + 1) (by omega) (by omega)]
        omega

/-- On a name that decodes with `d ≤ 10` pointers, within the name length limit,
`compressionDepth` is `d`. -/
theorem compressionDepth_of_decodes {buf : Bytes} {off : Nat} {ls : List Bytes} {d e : Nat}
    (hd : Decodes k buf off ls d e) (hok : LabelsOK ls) (hlen : (textOf ls).length ≤ 254) (h10 : d ≤ 10) :
    compressionDepth buf off = d := by
  have := labels_le_text ls hok
  have := depthLoop_of_decodes hd (11 * (buf.length + 2) + 140) 0 (by omega) (by omega)
  simpa [compressionDepth] using this

/-! ## The pack loop on label lists -/

theorem packLoop_cons (buf : Bytes) (c : Nat) (rest lab out : Bytes) (comp : Option CompMap) :
    packLoop buf (c :: rest) lab out comp =
    if c = 46 then
      if lab.length ≥ 64 then .error .segTooLong
      else if lab.length = 0 then .error .zeroSegLen
      else packLoop buf rest [] (out ++ lab.length :: lab) comp
    else if lab.isEmpty then
      match comp with
      | some m =>
        match lookup (c :: rest) m with
        | some p =>
          if compressionDepth (buf ++ out) p < 10 then .ok (out ++ ptrBytes p, some m)
          else packLoop buf rest [c] out
            (some (if buf.length + out.length ≤ 16383 then (c :: rest, buf.length + out.length) :: m else m))
        | none =>
          packLoop buf rest [c] out
            (some (if buf.length + out.length ≤ 16383 then (c :: rest, buf.length + out.length) :: m else m))
      | none => packLoop buf rest [c] out none
    else packLoop buf rest (lab ++ [c]) out comp := by
  conv => lhs; unfold packLoop
  rfl

theorem packLoop_mid (pos : Bytes) : ∀ (l lab rest out : Bytes) (comp : Option CompMap),
    46 ∉ l → lab ≠ [] →
    packLoop pos (l ++ 46 :: rest) lab out comp =
      if (lab ++ l).length ≥ 64 then .error .segTooLong
      else packLoop pos rest [] (out ++ (lab ++ l).length :: (lab ++ l)) comp := by
  intro l
  induction l with
  | nil =>
    intro lab rest out comp _ hlab
    have : lab.length ≠ 0 := by
      intro h; exact hlab (List.eq_nil_of_length_eq_zero h)
    rw [List.nil_append, packLoop_cons]
    simp [this]
  | cons c l ih =>
    intro lab rest out comp hdot hlab
    have hc : c ≠ 46 := by intro h; apply hdot; simp [h]
    have hl : 46 ∉ l := by intro h; apply hdot; simp [h]
    have hemp : lab.isEmpty = false := by cases lab <;> simp at hlab ⊢
    simp only [List.cons_append]
    rw [packLoop_cons]
    simp only [hc, if_false, hemp]
    rw [ih (lab ++ [c]) rest out comp hl (by simp)]
    simp

/-- the map entry a suffix may be compressed against: present, and not already stored behind
`maxCompressionPointers` pointers -/
def usable (buf : Bytes) (k : Bytes) (m : CompMap) : Option Nat :=
  (lookup k m).filter (fun p => decide (compressionDepth buf p < 10))

/-- `Name.pack` on a label list, compression map present (functional form of the loop). -/
def packLabels (buf : Bytes) : List Bytes → Bytes → CompMap → Bytes × CompMap
  | [], out, m => (out ++ [0], m)
  | l :: ls, out, m =>
    match usable (buf ++ out) (textOf (l :: ls)) m with
    | some p => (out ++ ptrBytes p, m)
    | none => packLabels buf ls (out ++ l.length :: l)
               (if buf.length + out.length ≤ 16383 then (textOf (l :: ls), buf.length + out.length) :: m else m)

theorem packLoop_labels_some (buf : Bytes) : ∀ (ls : List Bytes) (out : Bytes) (m : CompMap),
    LabelsOK ls →
    packLoop buf (textOf ls) [] out (some m) =
      .ok ((packLabels buf ls out m).1, some (packLabels buf ls out m).2) := by
  intro ls
  induction ls with
  | nil => intro out m _; simp [textOf, packLoop, packLabels]
  | cons l ls ih =>
    intro out m hok
    have hl : LabelOK l := hok l (by simp)
    have hls : LabelsOK ls := fun x hx => hok x (by simp [hx])
    rcases hl with ⟨h0, h64, hdot⟩
    cases l with
    | nil => simp at h0
    | cons c l' =>
      have hc : c ≠ 46 := by intro h; apply hdot; simp [h]
      have hl' : 46 ∉ l' := by intro h; apply hdot; simp [h]
      have htext : textOf ((c :: l') :: ls) = c :: (l' ++ 46 :: textOf ls) := by simp [textOf]
      have h64' : ¬ ([c] ++ l').length ≥ 64 := by simp at h64 ⊢; omega
      have hcont : packLoop buf (l' ++ 46 :: textOf ls) [c] out
            (some (if buf.length + out.length ≤ 16383 then (c :: (l' ++ 46 :: textOf ls), buf.length + out.length) :: m else m)) =
          .ok ((packLabels buf ls (out ++ (c :: l').length :: (c :: l'))
              (if buf.length + out.length ≤ 16383 then (c :: (l' ++ 46 :: textOf ls), buf.length + out.length) :: m else m)).1,
            some (packLabels buf ls (out ++ (c :: l').length :: (c :: l'))
              (if buf.length + out.length ≤ 16383 then (c :: (l' ++ 46 :: textOf ls), buf.length + out.length) :: m else m)).2) := by
        rw [packLoop_mid buf l' [c] (textOf ls) out _ hl' (by simp)]
        simp only [h64', if_false]
        rw [ih _ _ hls]
        simp
      rw [packLabels, htext, packLoop_cons]
      simp only [hc, if_false, List.isEmpty_nil, if_true, usable]
      cases hlook : lookup (c :: (l' ++ 46 :: textOf ls)) m with
      | none => simp only [Option.filter]; exact hcont
      | some p =>
        by_cases hdep : compressionDepth (buf ++ out) p < 10
        · simp [Option.filter, hdep]
        · simp only [Option.filter, hdep, if_false, decide_false]
          exact hcont

theorem packLoop_labels_none (pos : Bytes) : ∀ (ls : List Bytes) (out : Bytes),
    LabelsOK ls →
    packLoop pos (textOf ls) [] out none = .ok (out ++ encLabels ls ++ [0], none) := by
  intro ls
  induction ls with
  | nil => intro out _; simp [textOf, packLoop, encLabels]
  | cons l ls ih =>
    intro out hok
    have hl : LabelOK l := hok l (by simp)
    have hls : LabelsOK ls := fun x hx => hok x (by simp [hx])
    rcases hl with ⟨h0, h64, hdot⟩
    cases l with
    | nil => simp at h0
    | cons c l' =>
      have hc : c ≠ 46 := by intro h; apply hdot; simp [h]
      have hl' : 46 ∉ l' := by intro h; apply hdot; simp [h]
      have htext : textOf ((c :: l') :: ls) = c :: (l' ++ 46 :: textOf ls) := by simp [textOf]
      rw [htext, packLoop_cons]
      simp only [hc, if_false, List.isEmpty_nil, if_true]
      rw [packLoop_mid pos l' [c] (textOf ls) out _ hl' (by simp)]
      have : ¬ ([c] ++ l').length ≥ 64 := by simp at h64 ⊢; omega
      simp only [this, if_false]
      rw [ih _ hls]
      simp [encLabels]

/-! ## Injectivity of the presentation form -/
theorem split_at_dot : ∀ (l l' x y : Bytes), 46 ∉ l → 46 ∉ l' → l ++ 46 :: x = l' ++ 46 :: y →
    l = l' ∧ x = y := by
  intro l
  induction l with
  | nil =>
    intro l' x y _ h' h
    cases l' with
    | nil => simpa using h
    | cons c l' =>
      simp at h
      exact absurd h.1.symm (by intro hc; apply h'; simp [hc])
  | cons c l ih =>
    intro l' x y hl h' h
    cases l' with
    | nil =>
      simp at h
      exact absurd h.1 (by intro hc; apply hl; simp [hc])
    | cons c' l' =>
      simp at h
      have := ih l' x y (by intro hm; apply hl; simp [hm]) (by intro hm; apply h'; simp [hm]) h.2
      exact ⟨by rw [h.1, this.1], this.2⟩

theorem textOf_inj : ∀ (a b : List Bytes), LabelsOK a → LabelsOK b → textOf a = textOf b → a = b := by
  intro a
  induction a with
  | nil =>
    intro b _ _ h
    cases b with
    | nil => rfl
    | cons l ls => simp [textOf] at h
  | cons l ls ih =>
    intro b ha hb h
    cases b with
    | nil => simp [textOf] at h
    | cons l' ls' =>
      simp only [textOf] at h
      have := split_at_dot l l' _ _ (ha l (by simp)).2.2 (hb l' (by simp)).2.2 h
      rw [this.1, ih ls' (fun x hx => ha x (by simp [hx])) (fun x hx => hb x (by simp [hx])) this.2]

/-! ## The compression invariant -/

/-- A map entry `key ↦ p` is good for `msg`: unpacking at `p` yields the labels of `key`, following
at most `maxCompressionPointers` pointers, none of which leads below offset `k`. -/
def Good (k : Nat) (msg : Bytes) (key : Bytes) (p : Nat) : Prop :=
  k ≤ p ∧ p < 16384 ∧ ∃ ls d e, key = textOf ls ∧ LabelsOK ls ∧ Decodes k msg p ls d e ∧ d ≤ 10

/-- "every map entry points at an offset where unpacking yields that suffix" -/
def CompInv (k : Nat) (msg : Bytes) (m : CompMap) : Prop :=
  ∀ key p, lookup key m = some p → Good k msg key p

def CompInvUpTo (k : Nat) (n : Nat) (msg : Bytes) (m : CompMap) : Prop :=
  ∀ key p, key.length ≤ n → lookup key m = some p → Good k msg key p

theorem Good.append {k : Nat} {msg key p} (h : Good k msg key p) (ext : Bytes) : Good k (msg ++ ext) key p := by
  rcases h with ⟨hk, hp, ls, d, e, hkey, hok, hd, h10⟩
  exact ⟨hk, hp, ls, d, e, hkey, hok, hd.append ext, h10⟩

theorem CompInv.append {k : Nat} {msg m} (h : CompInv k msg m) (ext : Bytes) : CompInv k (msg ++ ext) m :=
  fun key p hl => (h key p hl).append ext

theorem compInv_nil (k : Nat) (msg : Bytes) : CompInv k msg [] := by
  intro key p h; simp [lookup] at h

theorem usable_some {buf key : Bytes} {m : CompMap} {p : Nat} (h : usable buf key m = some p) :
    lookup key m = some p ∧ compressionDepth buf p < 10 := by
  unfold usable at h
  cases hl : lookup key m with
  | none => rw [hl] at h; simp [Option.filter] at h
  | some q =>
    rw [hl] at h
    simp only [Option.filter] at h
    split at h
    · rename_i hd
      simp at h
      subst h
      exact ⟨rfl, by simpa using hd⟩
    · simp at h

theorem compInvUpTo_step {k : Nat} {pre out l : Bytes} {ls : List Bytes} {m : CompMap}
    (hinv : CompInvUpTo k (textOf (l :: ls)).length (pre ++ out) m) :
    CompInvUpTo k (textOf ls).length (pre ++ (out ++ l.length :: l))
      (if pre.length + out.length ≤ 16383 then (textOf (l :: ls), pre.length + out.length) :: m else m) := by
  intro key p hkl hlk
  have hklen : key.length ≤ (textOf (l :: ls)).length := by simp [textOf]; omega
  have hold : lookup key m = some p → Good k (pre ++ (out ++ l.length :: l)) key p := by
    intro h
    have := (hinv key p hklen h).append (l.length :: l)
    simpa [List.append_assoc] using this
  split at hlk
  · simp only [lookup] at hlk
    split at hlk
    · rename_i heq
      rw [← heq] at hkl
      simp [textOf] at hkl
      omega
    · exact hold hlk
  · exact hold hlk

theorem packLabels_decodes {k : Nat} (pre : Bytes) (hk : k ≤ pre.length) :
    ∀ (ls : List Bytes) (out : Bytes) (m : CompMap),
    LabelsOK ls → (textOf ls).length ≤ 254 → CompInvUpTo k (textOf ls).length (pre ++ out) m →
    ∃ d e x, (packLabels pre ls out m).1 = out ++ x ∧
      Decodes k (pre ++ out ++ x) (pre ++ out).length ls d e ∧ e = (pre ++ out ++ x).length ∧ d ≤ 10 := by
  intro ls
  induction ls with
  | nil =>
    intro out m _ _ _
    refine ⟨0, (pre ++ out).length + 1, [0], by simp [packLabels], ?_, by simp; omega, by omega⟩
    have := @Decodes.nil k (pre ++ out ++ [0]) (pre ++ out).length [] (by simp)
    simpa using this
  | cons l ls ih =>
    intro out m hok hlen hinv
    have hl : LabelOK l := hok l (by simp)
    have hls : LabelsOK ls := fun x hx => hok x (by simp [hx])
    have hlen' : (textOf ls).length ≤ 254 := by simp [textOf] at hlen; omega
    rw [packLabels]
    cases hlook : usable (pre ++ out) (textOf (l :: ls)) m with
    | some p =>
      simp only []
      rcases usable_some hlook with ⟨hlk, hdep⟩
      rcases hinv _ p (Nat.le_refl _) hlk with ⟨hkp, hp, ls', d, e, hkey, hok', hd, h10⟩
      have : ls' = l :: ls := (textOf_inj _ _ hok hok' hkey).symm
      subst this
      rw [compressionDepth_of_decodes hd hok hlen h10] at hdep
      refine ⟨d + 1, (pre ++ out).length + 2, ptrBytes p, rfl, ?_, by simp [ptrBytes]; omega, by omega⟩
      have hd' := hd.append (ptrBytes p)
      have hb : (pre ++ out ++ ptrBytes p).drop (pre ++ out).length =
          (192 + p / 256) :: (p % 256) :: [] := by
        rw [List.drop_left]
        simp only [ptrBytes]
        have : p / 256 % 64 = p / 256 := by omega
        rw [this]
      exact Decodes.ptr hb hp hkp hd'
    | none =>
      simp only []
      rcases ih (out ++ l.length :: l) _ hls hlen' (compInvUpTo_step hinv) with ⟨d, e, x, hx, hd, he, h10⟩
      refine ⟨d, e, l.length :: l ++ x, ?_, ?_, ?_, h10⟩
      · rw [hx]; simp
      · have hlist : pre ++ out ++ (l.length :: l ++ x) = pre ++ (out ++ l.length :: l) ++ x := by simp
        rw [hlist]
        refine Decodes.label (rest := x) ?_ hl ?_
        · have : pre ++ (out ++ l.length :: l) ++ x = (pre ++ out) ++ (l.length :: (l ++ x)) := by simp
          rw [this, List.drop_left]
        · have : (pre ++ out).length + 1 + l.length = (pre ++ (out ++ l.length :: l)).length := by
            simp; omega
          rw [this]; exact hd
      · rw [he]; simp

theorem packLabels_inv {k : Nat} (pre : Bytes) (hk : k ≤ pre.length) :
    ∀ (ls : List Bytes) (out : Bytes) (m : CompMap),
    LabelsOK ls → (textOf ls).length ≤ 254 → CompInvUpTo k (textOf ls).length (pre ++ out) m →
    ∀ key p, lookup key (packLabels pre ls out m).2 = some p →
      lookup key m = some p ∨ Good k (pre ++ (packLabels pre ls out m).1) key p := by
  intro ls
  induction ls with
  | nil => intro out m _ _ _ key p h; left; simpa [packLabels] using h
  | cons l ls ih =>
    intro out m hok hlen hinv key p h
    have hl : LabelOK l := hok l (by simp)
    have hls : LabelsOK ls := fun x hx => hok x (by simp [hx])
    have hlen' : (textOf ls).length ≤ 254 := by simp [textOf] at hlen; omega
    have hdec := packLabels_decodes pre hk (l :: ls) out m hok hlen hinv
    rw [packLabels] at h hdec ⊢
    cases hlook : usable (pre ++ out) (textOf (l :: ls)) m with
    | some q => rw [hlook] at h; left; simpa using h
    | none =>
      rw [hlook] at h hdec
      simp only [] at h hdec ⊢
      rcases ih (out ++ l.length :: l) _ hls hlen' (compInvUpTo_step hinv) key p h with h1 | h1
      · split at h1
        · rename_i hpos
          simp only [lookup] at h1
          split at h1
          · rename_i heq
            right
            rcases hdec with ⟨d, e, x, hx, hd, _, h10⟩
            rw [hx]
            simp only [Option.some.injEq] at h1
            refine ⟨by omega, by omega, l :: ls, d, e, heq.symm, hok, ?_, h10⟩
            rw [← h1]
            simpa [List.append_assoc] using hd
          · left; exact h1
        · left; exact h1
      · right; exact h1

/-- One `Name.pack` with compression preserves the invariant, and its output decodes to the name
within the pointer budget. -/
theorem packLabels_compInv {k : Nat} (msg : Bytes) (hk : k ≤ msg.length) (ls : List Bytes) (m : CompMap)
    (hok : LabelsOK ls) (hlen : (textOf ls).length ≤ 254) (hinv : CompInv k msg m) :
    CompInv k (msg ++ (packLabels msg ls [] m).1) (packLabels msg ls [] m).2 ∧
    ∃ d, d ≤ 10 ∧ Decodes k (msg ++ (packLabels msg ls [] m).1) msg.length ls d
      (msg.length + (packLabels msg ls [] m).1.length) := by
  have hup : CompInvUpTo k (textOf ls).length (msg ++ []) m := by
    intro key p _ h; simpa using hinv key p h
  constructor
  · intro key p h
    rcases packLabels_inv msg hk ls [] m hok hlen hup key p h with h1 | h1
    · exact (hinv key p h1).append _
    · exact h1
  · rcases packLabels_decodes msg hk ls [] m hok hlen hup with ⟨d, e, x, hx, hd, he, h10⟩
    refine ⟨d, h10, ?_⟩
    rw [hx]
    simp only [List.append_nil, List.nil_append] at hd he ⊢
    rw [he] at hd
    simpa using hd

/-! ## Two buffers that agree from offset `k` on (the Builder's zero header vs the real one) -/

def SameFrom (k : Nat) (b1 b2 : Bytes) : Prop := b1.length = b2.length ∧ b1.drop k = b2.drop k

theorem SameFrom.drop {k : Nat} {b1 b2 : Bytes} (h : SameFrom k b1 b2) {off : Nat} (ho : k ≤ off) :
    b1.drop off = b2.drop off := by
  have e : off = k + (off - k) := by omega
  rw [e, ← List.drop_drop, ← List.drop_drop, h.2]

theorem SameFrom.append {k : Nat} {b1 b2 : Bytes} (h : SameFrom k b1 b2) (x : Bytes) :
    SameFrom k (b1 ++ x) (b2 ++ x) := by
  refine ⟨by simp [h.1], ?_⟩
  rw [List.drop_append, List.drop_append, h.2, h.1]

theorem Decodes.transfer {k : Nat} {b1 b2 : Bytes} (hs : SameFrom k b1 b2) {off : Nat} {ls : List Bytes}
    {d e : Nat} (hd : Decodes k b1 off ls d e) (ho : k ≤ off) : Decodes k b2 off ls d e := by
  induction hd with
  | nil h => exact Decodes.nil (by rw [← hs.drop ho]; exact h)
  | label h hl _ ih => exact Decodes.label (by rw [← hs.drop ho]; exact h) hl (ih (by omega))
  | ptr h hp hkp _ ih => exact Decodes.ptr (by rw [← hs.drop ho]; exact h) hp hkp (ih hkp)

theorem Good.transfer {k : Nat} {b1 b2 key : Bytes} {p : Nat} (hs : SameFrom k b1 b2) (h : Good k b1 key p) :
    Good k b2 key p := by
  rcases h with ⟨hk, hp, ls, d, e, hkey, hok, hd, h10⟩
  exact ⟨hk, hp, ls, d, e, hkey, hok, hd.transfer hs hk, h10⟩

end NetVerif.Proofs.Dns
