import NetVerif.Proofs.Lemmas.DnsNames
/-!
Message-level round trip for C36: every `packX` of the writer, run at the end of a buffer `msg`
under the compression invariant, produces bytes that the corresponding `unpackX` reads back -
wherever more bytes follow (since the `ptr-depth` repair also with compression: the packer
never builds a pointer chain longer than the unpacker's budget).
-/
namespace NetVerif.Proofs.DnsMsg
open NetVerif.Model.Dns NetVerif.Proofs.Dns NetVerif.Proofs.C36

/-- the invariant for an optional compression map (`nil` map = compression disabled) -/
def CompInvOpt (k : Nat) (msg : Bytes) : Option CompMap → Prop
  | none => True
  | some m => CompInv k msg m

theorem CompInvOpt.append {k : Nat} {msg : Bytes} {c : Option CompMap} (h : CompInvOpt k msg c) (ext : Bytes) :
    CompInvOpt k (msg ++ ext) c := by
  cases c with
  | none => trivial
  | some m => exact CompInv.append h ext

variable {k : Nat}

/-- `Name.pack` at the end of `msg`, in inversion form. -/
theorem packName_spec (msg n bs : Bytes) (comp comp' : Option CompMap)
    (hinv : CompInvOpt k msg comp) (hk : k ≤ msg.length) (hc : Canonical n)
    (hp : packName n msg comp = .ok (bs, comp')) :
    comp'.isNone = comp.isNone ∧ CompInvOpt k (msg ++ bs) comp' ∧
    ∀ post, unpackName (msg ++ bs ++ post) msg.length = .ok (n, msg.length + bs.length) := by
  cases comp with
  | none =>
    rcases name_roundtrip_nocomp n msg hc with ⟨bs0, hp0, hu⟩
    rw [hp0] at hp
    simp only [Except.ok.injEq, Prod.mk.injEq] at hp
    rcases hp with ⟨rfl, rfl⟩
    exact ⟨rfl, trivial, fun post => hu msg post⟩
  | some m =>
    rcases name_roundtrip_comp msg m n hinv hk hc with ⟨bs0, m', hp0, hinv', hu⟩
    rw [hp0] at hp
    simp only [Except.ok.injEq, Prod.mk.injEq] at hp
    rcases hp with ⟨rfl, rfl⟩
    exact ⟨rfl, hinv', hu⟩

theorem u16At_drop {F : Bytes} {off v : Nat} {rest : Bytes} (h : F.drop off = u16 v ++ rest)
    (hv : v < 65536) : u16At F off = .ok (v, off + 2) := by
  unfold u16At
  rw [h]
  simp [u16]
  omega

theorem u32At_drop {F : Bytes} {off v : Nat} {rest : Bytes} (h : F.drop off = u32 v ++ rest)
    (hv : v < 4294967296) : u32At F off = .ok (v, off + 4) := by
  unfold u32At
  rw [h]
  simp [u32]
  omega

/-! ## Question -/

def WFQuestion (q : Question) : Prop := Canonical q.name ∧ q.typ < 65536 ∧ q.cls < 65536

theorem packQuestion_spec (msg bs : Bytes) (q : Question) (comp comp' : Option CompMap)
    (hinv : CompInvOpt k msg comp) (hk : k ≤ msg.length) (hwf : WFQuestion q)
    (hp : packQuestion q msg comp = .ok (bs, comp')) :
    comp'.isNone = comp.isNone ∧ CompInvOpt k (msg ++ bs) comp' ∧
    ∀ post, unpackQuestion (msg ++ bs ++ post) msg.length = .ok (q, msg.length + bs.length) := by
  unfold packQuestion at hp
  cases hn : packName q.name msg comp with
  | error e => rw [hn] at hp; simp at hp
  | ok res =>
    rcases res with ⟨nb, c1⟩
    rw [hn] at hp
    simp only [Except.ok.injEq, Prod.mk.injEq] at hp
    rcases hp with ⟨rfl, rfl⟩
    rcases packName_spec msg q.name nb comp c1 hinv hk hwf.1 hn with ⟨hnone, hinv1, hread⟩
    refine ⟨hnone, ?_, fun post => ?_⟩
    · have := hinv1.append (u16 q.typ ++ u16 q.cls)
      simpa [List.append_assoc] using this
    · have hF : msg ++ (nb ++ u16 q.typ ++ u16 q.cls) ++ post = msg ++ nb ++ (u16 q.typ ++ u16 q.cls ++ post) := by
        simp
      rw [hF]
      have hok := hread (u16 q.typ ++ u16 q.cls ++ post)
      have h1 : u16At (msg ++ nb ++ (u16 q.typ ++ u16 q.cls ++ post)) (msg.length + nb.length) =
          .ok (q.typ, msg.length + nb.length + 2) :=
        u16At_drop (rest := u16 q.cls ++ post) (by simp) hwf.2.1
      have h2 : u16At (msg ++ nb ++ (u16 q.typ ++ u16 q.cls ++ post)) (msg.length + nb.length + 2) =
          .ok (q.cls, msg.length + nb.length + 2 + 2) :=
        u16At_drop (rest := post) (by simp [Nat.add_assoc, u16]) hwf.2.2
      simp only [unpackQuestion, hok, h1, h2]
      simp [u16]
      omega

/-! ## Resource bodies -/

theorem bytesAt_append (msg bs post : Bytes) :
    bytesAt (msg ++ bs ++ post) msg.length bs.length = .ok bs := by
  unfold bytesAt
  have h1 : ¬ (msg.length + bs.length > (msg ++ bs ++ post).length) := by simp
  simp only [h1, if_false]
  rw [List.append_assoc, List.drop_left, List.take_left' rfl]

theorem nameOnly_of_ok {F : Bytes} {off : Nat} {n : Bytes} {o : Nat}
    (h : unpackName F off = .ok (n, o)) : nameOnly F off = .ok n := by
  simp [nameOnly, h]

/-- TXT: the loop of `unpackTXTResource` reads back what `packText` wrote. -/
theorem txtLoop_spec : ∀ (ss : List Bytes) (bs : Bytes), packTexts ss = .ok bs →
    ∀ (pre post : Bytes) (n L fuel : Nat), n + bs.length = L → ss.length < fuel →
      txtLoop (pre ++ bs ++ post) L fuel pre.length n = .ok ss := by
  intro ss
  induction ss with
  | nil =>
    intro bs hp pre post n L fuel hL hf
    simp [packTexts] at hp
    subst hp
    cases fuel with
    | zero => omega
    | succ fuel =>
      have : ¬ n < L := by simp at hL; omega
      simp [txtLoop, this]
  | cons s ss ih =>
    intro bs hp pre post n L fuel hL hf
    unfold packTexts at hp
    split at hp
    · simp at hp
    · cases hr : packTexts ss with
      | error e => rw [hr] at hp; simp at hp
      | ok r =>
        rw [hr] at hp
        simp only [Except.ok.injEq] at hp
        subst hp
        cases fuel with
        | zero => omega
        | succ fuel =>
          have hlt : n < L := by simp at hL; omega
          have htext : textAt (pre ++ (s.length :: s ++ r) ++ post) pre.length =
              .ok (s, pre.length + 1 + s.length) := by
            unfold textAt
            have : (pre ++ (s.length :: s ++ r) ++ post).drop pre.length = s.length :: (s ++ (r ++ post)) := by
              simp
            rw [this]
            simp
          have hchk : ¬ (L - n < s.length + 1) := by simp at hL; omega
          have hrec := ih r hr (pre ++ s.length :: s) post (n + s.length + 1) L fuel
            (by simp at hL ⊢; omega) (by simp at hf; omega)
          have hF : pre ++ (s.length :: s ++ r) ++ post = pre ++ s.length :: s ++ r ++ post := by simp
          unfold txtLoop
          simp only [hlt, if_true, htext, hchk, if_false]
          rw [hF]
          have hoff : pre.length + 1 + s.length = (pre ++ s.length :: s).length := by simp; omega
          rw [hoff, hrec]

theorem packTexts_length : ∀ (ss : List Bytes) (bs : Bytes), packTexts ss = .ok bs → ss.length ≤ bs.length := by
  intro ss
  induction ss with
  | nil => intro bs h; simp
  | cons s ss ih =>
    intro bs hp
    unfold packTexts at hp
    split at hp
    · simp at hp
    · cases hr : packTexts ss with
      | error e => rw [hr] at hp; simp at hp
      | ok r =>
        rw [hr] at hp
        simp only [Except.ok.injEq] at hp
        subst hp
        have := ih r hr
        simp; omega

def WFPairs16 (ps : List (Nat × Bytes)) : Prop := ∀ p ∈ ps, p.1 < 65536 ∧ p.2.length < 65536

/-- OPT: the loop of `unpackOPTResource` reads back what `OPTResource.pack` wrote. -/
theorem optLoop_spec : ∀ (opts : List (Nat × Bytes)), WFPairs16 opts →
    ∀ (pre post : Bytes) (fuel : Nat), opts.length < fuel →
      optLoop (pre ++ packOpts opts ++ post) (pre.length + (packOpts opts).length) fuel pre.length = .ok opts := by
  intro opts
  induction opts with
  | nil =>
    intro _ pre post fuel hf
    cases fuel with
    | zero => omega
    | succ fuel => simp [optLoop, packOpts]
  | cons o opts ih =>
    intro hwf pre post fuel hf
    rcases o with ⟨code, data⟩
    have hw := hwf (code, data) (by simp)
    have hwf' : WFPairs16 opts := fun p hp => hwf p (by simp [hp])
    cases fuel with
    | zero => omega
    | succ fuel =>
      have hmod : data.length % 65536 = data.length := Nat.mod_eq_of_lt hw.2
      have hlt : pre.length < pre.length + (packOpts ((code, data) :: opts)).length := by
        simp [packOpts, u16]
      have h1 : u16At (pre ++ packOpts ((code, data) :: opts) ++ post) pre.length = .ok (code, pre.length + 2) :=
        u16At_drop (rest := u16 (data.length % 65536) ++ data ++ packOpts opts ++ post)
          (by simp [packOpts]) hw.1
      have h2 : u16At (pre ++ packOpts ((code, data) :: opts) ++ post) (pre.length + 2) =
          .ok (data.length, pre.length + 2 + 2) := by
        have := u16At_drop (F := pre ++ packOpts ((code, data) :: opts) ++ post) (off := pre.length + 2)
          (v := data.length) (rest := data ++ packOpts opts ++ post)
          (by simp [packOpts, hmod, u16]) hw.2
        exact this
      have h3 : ¬ ((pre ++ packOpts ((code, data) :: opts) ++ post).length - (pre.length + 2 + 2) < data.length) := by
        simp [packOpts, u16]; omega
      have h3' : ¬ (pre.length + 2 + 2 + data.length > pre.length + (packOpts ((code, data) :: opts)).length) := by
        simp [packOpts, u16]; omega
      have h4 : ((pre ++ packOpts ((code, data) :: opts) ++ post).drop (pre.length + 2 + 2)).take data.length = data := by
        have : (pre ++ packOpts ((code, data) :: opts) ++ post).drop (pre.length + 2 + 2) =
            data ++ (packOpts opts ++ post) := by
          simp [packOpts, u16, Nat.add_assoc]
        rw [this, List.take_left' rfl]
      have hrec := ih hwf' (pre ++ u16 code ++ u16 (data.length % 65536) ++ data) post fuel (by simp at hf; omega)
      have hF : pre ++ packOpts ((code, data) :: opts) ++ post =
          pre ++ u16 code ++ u16 (data.length % 65536) ++ data ++ packOpts opts ++ post := by
        simp [packOpts]
      have hoff : pre.length + 2 + 2 + data.length = (pre ++ u16 code ++ u16 (data.length % 65536) ++ data).length := by
        simp [u16]; omega
      have hend : pre.length + (packOpts ((code, data) :: opts)).length =
          (pre ++ u16 code ++ u16 (data.length % 65536) ++ data).length + (packOpts opts).length := by
        simp [packOpts, u16]; omega
      unfold optLoop
      simp only [hlt, if_true, h1, h2, h3', h3, if_false, h4]
      rw [hoff, hend, hF, hrec]

theorem packOpts_length : ∀ (opts : List (Nat × Bytes)), opts.length ≤ (packOpts opts).length := by
  intro opts
  induction opts with
  | nil => simp
  | cons o opts ih => rcases o with ⟨c, d⟩; simp [packOpts, u16]; omega

/-- SVCB/HTTPS parameters: both passes of `unpackSVCBResource` read back what
`SVCBResource.pack` wrote (which has already checked the key order and the value sizes). -/
theorem svcbParams_spec : ∀ (ps : List (Nat × Bytes)) (prev : Option Nat) (pb : Bytes),
    packParams prev ps = .ok pb → WFPairs16 ps →
    ∀ (pre post : Bytes) (fuel : Nat), ps.length < fuel →
      ∃ l, svcbPass1 (pre ++ pb ++ post) (pre.length + pb.length) fuel pre.length prev = .ok l ∧
        svcbPass2 (pre ++ pb ++ post) l = .ok ps := by
  intro ps
  induction ps with
  | nil =>
    intro prev pb hp _ pre post fuel hf
    simp [packParams] at hp
    subst hp
    cases fuel with
    | zero => omega
    | succ fuel => exact ⟨[], by simp [svcbPass1], by simp [svcbPass2]⟩
  | cons kv ps ih =>
    intro prev pb hp hwf pre post fuel hf
    rcases kv with ⟨key, value⟩
    have hw := hwf (key, value) (by simp)
    have hwf' : WFPairs16 ps := fun p hp => hwf p (by simp [hp])
    unfold packParams at hp
    split at hp
    · simp at hp
    · rename_i hord
      split at hp
      · simp at hp
      · rename_i hvl
        cases hr : packParams (some key) ps with
        | error e => rw [hr] at hp; simp at hp
        | ok rest =>
          rw [hr] at hp
          simp only [Except.ok.injEq] at hp
          subst hp
          cases fuel with
          | zero => omega
          | succ fuel =>
            rcases ih (some key) rest hr hwf' (pre ++ u16 key ++ u16 value.length ++ value) post fuel
              (by simp at hf; omega) with ⟨l', hp1, hp2⟩
            have hF : pre ++ (u16 key ++ u16 value.length ++ value ++ rest) ++ post =
                pre ++ u16 key ++ u16 value.length ++ value ++ rest ++ post := by simp
            have hlt : pre.length < pre.length + (u16 key ++ u16 value.length ++ value ++ rest).length := by
              simp [u16]
            have h1 : u16At (pre ++ (u16 key ++ u16 value.length ++ value ++ rest) ++ post) pre.length =
                .ok (key, pre.length + 2) :=
              u16At_drop (rest := u16 value.length ++ value ++ rest ++ post) (by simp) hw.1
            have h2 : u16At (pre ++ (u16 key ++ u16 value.length ++ value ++ rest) ++ post) (pre.length + 2) =
                .ok (value.length, pre.length + 2 + 2) :=
              u16At_drop (rest := value ++ rest ++ post) (by simp [u16]) hw.2
            have h3 : ¬ (pre.length + 2 + 2 + value.length >
                pre.length + (u16 key ++ u16 value.length ++ value ++ rest).length) := by
              simp [u16]; omega
            have hoff : pre.length + 2 + 2 + value.length =
                (pre ++ u16 key ++ u16 value.length ++ value).length := by simp [u16]; omega
            have hend : pre.length + (u16 key ++ u16 value.length ++ value ++ rest).length =
                (pre ++ u16 key ++ u16 value.length ++ value).length + rest.length := by
              simp [u16]; omega
            have hord' : outOfOrder prev key = false := by simpa using hord
            refine ⟨(key, value.length, pre.length + 2 + 2) :: l', ?_, ?_⟩
            · unfold svcbPass1
              simp only [hlt, if_true, h1, hord', h2, h3, if_false]
              rw [hoff, hend, hF, hp1]
              simp
            · unfold svcbPass2
              have h4 : ¬ ((pre ++ (u16 key ++ u16 value.length ++ value ++ rest) ++ post).length -
                  (pre.length + 2 + 2) < value.length) := by simp [u16]; omega
              have h5 : ((pre ++ (u16 key ++ u16 value.length ++ value ++ rest) ++ post).drop
                  (pre.length + 2 + 2)).take value.length = value := by
                have : (pre ++ (u16 key ++ u16 value.length ++ value ++ rest) ++ post).drop (pre.length + 2 + 2) =
                    value ++ (rest ++ post) := by simp [u16, Nat.add_assoc]
                rw [this, List.take_left' rfl]
              simp only [h4, if_false, h5]
              rw [hF, hp2]

theorem packParams_length : ∀ (ps : List (Nat × Bytes)) (prev : Option Nat) (pb : Bytes),
    packParams prev ps = .ok pb → ps.length ≤ pb.length := by
  intro ps
  induction ps with
  | nil => intro prev pb h; simp
  | cons kv ps ih =>
    intro prev pb hp
    rcases kv with ⟨key, value⟩
    unfold packParams at hp
    split at hp
    · simp at hp
    · split at hp
      · simp at hp
      · cases hr : packParams (some key) ps with
        | error e => rw [hr] at hp; simp at hp
        | ok rest =>
          rw [hr] at hp
          simp only [Except.ok.injEq] at hp
          subst hp
          have := ih _ _ hr
          simp [u16]; omega

/-- the in-place walk over an uncompressed name finds no pointer -/
theorem targetCompressed_enc : ∀ (ls : List Bytes) (pre tail : Bytes) (fuel : Nat), LabelsOK ls →
    targetCompressed (pre ++ encLabels ls ++ 0 :: tail) fuel pre.length
      (pre.length + (encLabels ls).length + 1) = false := by
  intro ls
  induction ls with
  | nil =>
    intro pre tail fuel _
    cases fuel with
    | zero => rfl
    | succ fuel =>
      unfold targetCompressed
      simp only [encLabels, List.append_nil, List.length_nil, Nat.add_zero, Nat.lt_add_one, if_true, List.drop_left]
      simp only [Nat.zero_div, Nat.reduceEqDiff, reduceIte]
      cases fuel with
      | zero => rfl
      | succ f => simp [targetCompressed]
  | cons l ls ih =>
    intro pre tail fuel hok
    have hl : LabelOK l := hok l (by simp)
    have hls : LabelsOK ls := fun x hx => hok x (by simp [hx])
    cases fuel with
    | zero => rfl
    | succ fuel =>
      have hih := ih (pre ++ l.length :: l) tail fuel hls
      have hlist : pre ++ encLabels (l :: ls) ++ 0 :: tail = pre ++ l.length :: l ++ encLabels ls ++ 0 :: tail := by
        simp [encLabels]
      have hdrop : (pre ++ encLabels (l :: ls) ++ 0 :: tail).drop pre.length =
          l.length :: (l ++ (encLabels ls ++ 0 :: tail)) := by simp [encLabels]
      have h1 : pre.length < pre.length + (encLabels (l :: ls)).length + 1 := by omega
      have h2 : ¬ l.length / 64 = 3 := by have := hl.2.1; omega
      have h3 : pre.length + 1 + l.length = (pre ++ l.length :: l).length := by simp; omega
      have h4 : pre.length + (encLabels (l :: ls)).length + 1 = (pre ++ l.length :: l).length + (encLabels ls).length + 1 := by
        simp [encLabels]; omega
      unfold targetCompressed
      simp only [h1, if_true, hdrop, h2, if_false]
      rw [h3, h4, hlist]
      exact hih

/-- the bytes of an uncompressed canonical name, as `Name.pack` writes them without a map -/
theorem packName_none_bytes (n buf : Bytes) (hc : Canonical n) :
    (n = [46] ∧ packName n buf none = .ok ([0], none)) ∨
    ∃ ls, ls ≠ [] ∧ LabelsOK ls ∧ n = textOf ls ∧ packName n buf none = .ok (encLabels ls ++ [0], none) := by
  rcases hc with ⟨hlen, hroot | ⟨ls, hne, hok, rfl⟩⟩
  · left; subst hroot; exact ⟨rfl, by simp [packName]⟩
  · right
    refine ⟨ls, hne, hok, rfl, ?_⟩
    rw [packName_textOf hne hok hlen, packLoop_labels_none buf ls [] hok]; simp

/-- `SVCBResource.pack` / `unpackSVCBResource` (no compression is ever used here). -/
theorem svcb_spec (msg bb : Bytes) (prio : Nat) (target : Bytes) (ps : List (Nat × Bytes))
    (hprio : prio < 65536) (hc : Canonical target) (hwf : WFPairs16 ps)
    (hp : packSVCB prio target ps = .ok bb) :
    ∀ post, unpackSVCB (msg ++ bb ++ post) msg.length bb.length = .ok (prio, target, ps) := by
  intro post
  unfold packSVCB at hp
  rcases name_roundtrip_nocomp target [] hc with ⟨tb, htp, htu⟩
  rw [htp] at hp
  simp only [] at hp
  cases hpp : packParams none ps with
  | error e => rw [hpp] at hp; simp at hp
  | ok pb =>
    rw [hpp] at hp
    simp only [Except.ok.injEq] at hp
    subst hp
    have hF : msg ++ (u16 prio ++ tb ++ pb) ++ post = msg ++ u16 prio ++ tb ++ pb ++ post := by simp
    have h1 : u16At (msg ++ (u16 prio ++ tb ++ pb) ++ post) msg.length = .ok (prio, msg.length + 2) :=
      u16At_drop (rest := tb ++ pb ++ post) (by simp) hprio
    have h2 : unpackName (msg ++ (u16 prio ++ tb ++ pb) ++ post) (msg.length + 2) =
        .ok (target, msg.length + 2 + tb.length) := by
      have := htu (msg ++ u16 prio) (pb ++ post)
      simpa [u16, List.append_assoc] using this
    have hfuel : ps.length < (msg ++ (u16 prio ++ tb ++ pb) ++ post).length + 1 := by
      have := packParams_length ps none pb hpp
      simp; omega
    rcases svcbParams_spec ps none pb hpp hwf (msg ++ u16 prio ++ tb) post _ hfuel with ⟨l, hp1, hp2⟩
    have hoff : msg.length + 2 + tb.length = (msg ++ u16 prio ++ tb).length := by simp [u16]; omega
    have hend : msg.length + (u16 prio ++ tb ++ pb).length = (msg ++ u16 prio ++ tb).length + pb.length := by
      simp [u16]; omega
    have hnc : targetCompressed (msg ++ (u16 prio ++ tb ++ pb) ++ post) (msg.length + 2 + tb.length + 1)
        (msg.length + 2) (msg.length + 2 + tb.length) = false := by
      rcases packName_none_bytes target [] hc with ⟨_, hb⟩ | ⟨ls, _, hok, _, hb⟩
      · rw [htp] at hb
        simp only [Except.ok.injEq, Prod.mk.injEq] at hb
        rw [hb.1]
        have := targetCompressed_enc [] (msg ++ u16 prio) (pb ++ post) (msg.length + 2 + 1 + 1) (by intro l hl; simp at hl)
        simpa [encLabels, u16, List.append_assoc, Nat.add_assoc] using this
      · rw [htp] at hb
        simp only [Except.ok.injEq, Prod.mk.injEq] at hb
        rw [hb.1]
        have := targetCompressed_enc ls (msg ++ u16 prio) (pb ++ post) (msg.length + 2 + (encLabels ls ++ [0]).length + 1) hok
        simpa [u16, List.append_assoc, Nat.add_assoc] using this
    unfold unpackSVCB
    simp only [h1, h2, hnc]
    rw [hF] at hp1
    rw [hoff, hend, hF, hp1]
    simp only []
    rw [hp2]
    simp

/-- the types `unpackResourceBody` has a case for -/
def knownTypes : List Nat := [1, 2, 5, 6, 12, 15, 16, 28, 33, 41, 64, 65]

/-- Well-formed resource body: canonical names, integer fields within their Go types,
fixed-size addresses, unknown bodies only under types without a dedicated decoder.
(String, value and key-order limits are checked by the packer itself.) -/
def WFBody : Body → Prop
  | .a ip => ip.length = 4
  | .aaaa ip => ip.length = 16
  | .ns n => Canonical n
  | .cname n => Canonical n
  | .ptr n => Canonical n
  | .mx pref n => pref < 65536 ∧ Canonical n
  | .txt _ => True
  | .soa ns mbox a b c d e => Canonical ns ∧ Canonical mbox ∧ a < 4294967296 ∧ b < 4294967296 ∧
      c < 4294967296 ∧ d < 4294967296 ∧ e < 4294967296
  | .srv p w port t => p < 65536 ∧ w < 65536 ∧ port < 65536 ∧ Canonical t
  | .opt opts => WFPairs16 opts
  | .svcb p t ps => p < 65536 ∧ Canonical t ∧ WFPairs16 ps
  | .https p t ps => p < 65536 ∧ Canonical t ∧ WFPairs16 ps
  | .unknown t _ => t < 65536 ∧ t ∉ knownTypes

theorem packBody_name_spec (msg bb n : Bytes) (comp comp' : Option CompMap) (mk : Bytes → Body) (typ : Nat)
    (hinv : CompInvOpt k msg comp) (hk : k ≤ msg.length) (hc : Canonical n)
    (hp : packName n msg comp = .ok (bb, comp'))
    (hun : ∀ F off len, unpackBody F off typ len = (nameOnly F off).map mk) :
    comp'.isNone = comp.isNone ∧ CompInvOpt k (msg ++ bb) comp' ∧
    ∀ post, unpackBody (msg ++ bb ++ post) msg.length typ bb.length = .ok (mk n) := by
  rcases packName_spec msg n bb comp comp' hinv hk hc hp with ⟨h1, h2, h3⟩
  refine ⟨h1, h2, fun post => ?_⟩
  rw [hun, nameOnly_of_ok (h3 post)]
  rfl

/-- **Every resource body**: `ResourceBody.pack` at the end of `msg`, then `unpackResourceBody`
with the packed length, gives the body back. -/
theorem packBody_spec (msg bb : Bytes) (b : Body) (comp comp' : Option CompMap)
    (hinv : CompInvOpt k msg comp) (hk : k ≤ msg.length) (hwf : WFBody b)
    (hp : packBody b msg comp = .ok (bb, comp')) :
    comp'.isNone = comp.isNone ∧ CompInvOpt k (msg ++ bb) comp' ∧
    ∀ post, unpackBody (msg ++ bb ++ post) msg.length b.realType bb.length = .ok b := by
  cases b with
  | a ip =>
    simp only [packBody, Except.ok.injEq, Prod.mk.injEq] at hp
    rcases hp with ⟨rfl, rfl⟩
    refine ⟨rfl, hinv.append _, fun post => ?_⟩
    have := bytesAt_append msg ip post
    simp only [WFBody] at hwf
    rw [hwf] at this
    simp only [unpackBody, Body.realType, typeA, Nat.reduceEqDiff, reduceIte, hwf]
    rw [this]; rfl
  | aaaa ip =>
    simp only [packBody, Except.ok.injEq, Prod.mk.injEq] at hp
    rcases hp with ⟨rfl, rfl⟩
    refine ⟨rfl, hinv.append _, fun post => ?_⟩
    have := bytesAt_append msg ip post
    simp only [WFBody] at hwf
    rw [hwf] at this
    simp only [unpackBody, Body.realType, typeAAAA, Nat.reduceEqDiff, reduceIte, hwf]
    rw [this]; rfl
  | ns n =>
    exact packBody_name_spec msg bb n comp comp' Body.ns 2 hinv hk hwf (by simpa [packBody] using hp)
      (by intro F off len; simp [unpackBody])
  | cname n =>
    exact packBody_name_spec msg bb n comp comp' Body.cname 5 hinv hk hwf (by simpa [packBody] using hp)
      (by intro F off len; simp [unpackBody])
  | ptr n =>
    exact packBody_name_spec msg bb n comp comp' Body.ptr 12 hinv hk hwf (by simpa [packBody] using hp)
      (by intro F off len; simp [unpackBody])
  | mx pref n =>
    simp only [packBody] at hp
    cases hn : packName n (msg ++ u16 pref) comp with
    | error e => rw [hn] at hp; simp at hp
    | ok res =>
      rcases res with ⟨nb, c1⟩
      rw [hn] at hp
      simp only [Except.ok.injEq, Prod.mk.injEq] at hp
      rcases hp with ⟨rfl, rfl⟩
      rcases packName_spec (msg ++ u16 pref) n nb comp c1 (hinv.append _) (by simp; omega) hwf.2 hn with ⟨h1, h2, h3⟩
      refine ⟨h1, by simpa [List.append_assoc] using h2, fun post => ?_⟩
      have hpos : msg.length + 2 = (msg ++ u16 pref).length := by simp [u16]
      have hF : msg ++ (u16 pref ++ nb) ++ post = msg ++ u16 pref ++ nb ++ post := by simp
      have hu : u16At (msg ++ (u16 pref ++ nb) ++ post) msg.length = .ok (pref, msg.length + 2) :=
        u16At_drop (rest := nb ++ post) (by simp) hwf.1
      have hr := nameOnly_of_ok (h3 post)
      rw [← hF, ← hpos] at hr
      simp only [unpackBody, Body.realType, typeMX, Nat.reduceEqDiff, reduceIte, hu, hr]
      rfl
  | txt ss =>
    simp only [packBody] at hp
    cases ht : packTexts ss with
    | error e => rw [ht] at hp; simp at hp
    | ok bs =>
      rw [ht] at hp
      simp only [Except.ok.injEq, Prod.mk.injEq] at hp
      rcases hp with ⟨rfl, rfl⟩
      refine ⟨rfl, hinv.append _, fun post => ?_⟩
      have := txtLoop_spec ss bs ht msg post 0 bs.length (bs.length + 1) (by simp)
        (by have := packTexts_length ss bs ht; omega)
      simp only [unpackBody, Body.realType, typeTXT, Nat.reduceEqDiff, reduceIte]
      rw [this]; rfl
  | soa ns mbox a b c d e =>
    rcases hwf with ⟨hc1, hc2, ha, hb, hcc, hd, he⟩
    simp only [packBody] at hp
    cases hn1 : packName ns msg comp with
    | error e => rw [hn1] at hp; simp at hp
    | ok res1 =>
      rcases res1 with ⟨b1, c1⟩
      rw [hn1] at hp
      simp only [] at hp
      have hpos : msg.length + b1.length = (msg ++ b1).length := by simp
      cases hn2 : packName mbox (msg ++ b1) c1 with
      | error e => rw [hn2] at hp; simp at hp
      | ok res2 =>
        rcases res2 with ⟨b2, c2⟩
        rw [hn2] at hp
        simp only [Except.ok.injEq, Prod.mk.injEq] at hp
        rcases hp with ⟨rfl, rfl⟩
        rcases packName_spec msg ns b1 comp c1 hinv hk hc1 hn1 with ⟨g1, g2, g3⟩
        rcases packName_spec (msg ++ b1) mbox b2 c1 c2 g2 (by simp; omega) hc2 hn2 with ⟨k1, k2, k3⟩
        refine ⟨by rw [k1, g1], ?_, fun post => ?_⟩
        · have := k2.append (u32 a ++ u32 b ++ u32 c ++ u32 d ++ u32 e)
          simpa [List.append_assoc] using this
        · have hF : msg ++ (b1 ++ b2 ++ u32 a ++ u32 b ++ u32 c ++ u32 d ++ u32 e) ++ post =
              msg ++ b1 ++ (b2 ++ u32 a ++ u32 b ++ u32 c ++ u32 d ++ u32 e ++ post) := by simp
          have hF2 : msg ++ (b1 ++ b2 ++ u32 a ++ u32 b ++ u32 c ++ u32 d ++ u32 e) ++ post =
              msg ++ b1 ++ b2 ++ (u32 a ++ u32 b ++ u32 c ++ u32 d ++ u32 e ++ post) := by simp
          have r1 := g3 (b2 ++ u32 a ++ u32 b ++ u32 c ++ u32 d ++ u32 e ++ post)
          have r2 := k3 (u32 a ++ u32 b ++ u32 c ++ u32 d ++ u32 e ++ post)
          rw [← hF] at r1
          rw [← hF2, ← hpos] at r2
          have u1 : u32At (msg ++ (b1 ++ b2 ++ u32 a ++ u32 b ++ u32 c ++ u32 d ++ u32 e) ++ post)
              (msg.length + b1.length + b2.length) = .ok (a, msg.length + b1.length + b2.length + 4) :=
            u32At_drop (rest := u32 b ++ u32 c ++ u32 d ++ u32 e ++ post) (by simp [Nat.add_assoc]) ha
          have u2 : u32At (msg ++ (b1 ++ b2 ++ u32 a ++ u32 b ++ u32 c ++ u32 d ++ u32 e) ++ post)
              (msg.length + b1.length + b2.length + 4) = .ok (b, msg.length + b1.length + b2.length + 4 + 4) :=
            u32At_drop (rest := u32 c ++ u32 d ++ u32 e ++ post) (by simp [Nat.add_assoc, u32]) hb
          have u3 : u32At (msg ++ (b1 ++ b2 ++ u32 a ++ u32 b ++ u32 c ++ u32 d ++ u32 e) ++ post)
              (msg.length + b1.length + b2.length + 4 + 4) = .ok (c, msg.length + b1.length + b2.length + 4 + 4 + 4) :=
            u32At_drop (rest := u32 d ++ u32 e ++ post) (by simp [Nat.add_assoc, u32]) hcc
          have u4 : u32At (msg ++ (b1 ++ b2 ++ u32 a ++ u32 b ++ u32 c ++ u32 d ++ u32 e) ++ post)
              (msg.length + b1.length + b2.length + 4 + 4 + 4) = .ok (d, msg.length + b1.length + b2.length + 4 + 4 + 4 + 4) :=
            u32At_drop (rest := u32 e ++ post) (by simp [Nat.add_assoc, u32]) hd
          have u5 : u32At (msg ++ (b1 ++ b2 ++ u32 a ++ u32 b ++ u32 c ++ u32 d ++ u32 e) ++ post)
              (msg.length + b1.length + b2.length + 4 + 4 + 4 + 4) = .ok (e, msg.length + b1.length + b2.length + 4 + 4 + 4 + 4 + 4) :=
            u32At_drop (rest := post) (by simp [Nat.add_assoc, u32]) he
          simp only [unpackBody, Body.realType, typeSOA, Nat.reduceEqDiff, reduceIte, r1, r2, u1, u2, u3, u4, u5]
  | srv p w port t =>
    rcases hwf with ⟨hp1, hw1, hport, hc⟩
    simp only [packBody] at hp
    rcases name_roundtrip_nocomp t (msg ++ u16 p ++ u16 w ++ u16 port) hc with ⟨tb, htp, htu⟩
    rw [htp] at hp
    simp only [Except.ok.injEq, Prod.mk.injEq] at hp
    rcases hp with ⟨rfl, rfl⟩
    refine ⟨rfl, hinv.append _, fun post => ?_⟩
    have u1 : u16At (msg ++ (u16 p ++ u16 w ++ u16 port ++ tb) ++ post) msg.length = .ok (p, msg.length + 2) :=
      u16At_drop (rest := u16 w ++ u16 port ++ tb ++ post) (by simp) hp1
    have u2 : u16At (msg ++ (u16 p ++ u16 w ++ u16 port ++ tb) ++ post) (msg.length + 2) = .ok (w, msg.length + 2 + 2) :=
      u16At_drop (rest := u16 port ++ tb ++ post) (by simp [u16]) hw1
    have u3 : u16At (msg ++ (u16 p ++ u16 w ++ u16 port ++ tb) ++ post) (msg.length + 2 + 2) = .ok (port, msg.length + 2 + 2 + 2) :=
      u16At_drop (rest := tb ++ post) (by simp [u16, Nat.add_assoc]) hport
    have hn : unpackName (msg ++ (u16 p ++ u16 w ++ u16 port ++ tb) ++ post) (msg.length + 2 + 2 + 2) =
        .ok (t, msg.length + 2 + 2 + 2 + tb.length) := by
      have := htu (msg ++ u16 p ++ u16 w ++ u16 port) post
      simpa [u16, List.append_assoc, Nat.add_assoc] using this
    simp only [unpackBody, Body.realType, typeSRV]
    simp only [show ¬ ((33 : Nat) = 1) by decide, show ¬ ((33 : Nat) = 2) by decide,
      show ¬ ((33 : Nat) = 5) by decide, show ¬ ((33 : Nat) = 6) by decide, show ¬ ((33 : Nat) = 12) by decide,
      show ¬ ((33 : Nat) = 15) by decide, show ¬ ((33 : Nat) = 16) by decide, show ¬ ((33 : Nat) = 28) by decide,
      if_false, if_true, u1, u2, u3, nameOnly, hn]
    rfl
  | opt opts =>
    simp only [packBody, Except.ok.injEq, Prod.mk.injEq] at hp
    rcases hp with ⟨rfl, rfl⟩
    refine ⟨rfl, hinv.append _, fun post => ?_⟩
    have := optLoop_spec opts hwf msg post ((msg ++ packOpts opts ++ post).length + 1)
      (by have := packOpts_length opts; simp; omega)
    simp only [unpackBody, Body.realType, typeOPT, Nat.reduceEqDiff, reduceIte]
    rw [this]; rfl
  | svcb p t ps =>
    rcases hwf with ⟨hp1, hc, hps⟩
    simp only [packBody] at hp
    cases hs : packSVCB p t ps with
    | error e => rw [hs] at hp; simp at hp
    | ok bs =>
      rw [hs] at hp
      simp only [Except.ok.injEq, Prod.mk.injEq] at hp
      rcases hp with ⟨rfl, rfl⟩
      refine ⟨rfl, hinv.append _, fun post => ?_⟩
      have := svcb_spec msg bs p t ps hp1 hc hps hs post
      simp only [unpackBody, Body.realType, typeSVCB, Nat.reduceEqDiff, reduceIte]
      rw [this]; rfl
  | https p t ps =>
    rcases hwf with ⟨hp1, hc, hps⟩
    simp only [packBody] at hp
    cases hs : packSVCB p t ps with
    | error e => rw [hs] at hp; simp at hp
    | ok bs =>
      rw [hs] at hp
      simp only [Except.ok.injEq, Prod.mk.injEq] at hp
      rcases hp with ⟨rfl, rfl⟩
      refine ⟨rfl, hinv.append _, fun post => ?_⟩
      have := svcb_spec msg bs p t ps hp1 hc hps hs post
      simp only [unpackBody, Body.realType, typeHTTPS, Nat.reduceEqDiff, reduceIte]
      rw [this]; rfl
  | unknown t data =>
    simp only [packBody, Except.ok.injEq, Prod.mk.injEq] at hp
    rcases hp with ⟨rfl, rfl⟩
    refine ⟨rfl, hinv.append _, fun post => ?_⟩
    have := bytesAt_append msg data post
    simp only [WFBody, knownTypes] at hwf
    have hk := hwf.2
    simp only [List.mem_cons, List.not_mem_nil, or_false, not_or] at hk
    rcases hk with ⟨k1, k2, k3, k4, k5, k6, k7, k8, k9, k10, k11, k12⟩
    simp only [unpackBody, Body.realType, k1, k2, k3, k4, k5, k6, k7, k8, k9, k10, k11, k12, if_false, this]
    rfl

/-! ## Resources -/

def WFResource (r : Resource) : Prop :=
  Canonical r.hdr.name ∧ r.hdr.cls < 65536 ∧ r.hdr.ttl < 4294967296 ∧ WFBody r.body

theorem realType_lt {b : Body} (h : WFBody b) : b.realType < 65536 := by
  cases b <;> simp [Body.realType, typeA, typeAAAA, typeNS, typeCNAME, typePTR, typeMX, typeTXT, typeSOA,
    typeSRV, typeOPT, typeSVCB, typeHTTPS]
  exact h.1

/-- **One resource record**: header (with the `Type` of the body and the final `Length`) and
body are read back; the result is the record as `Pack` normalises it. -/
theorem packResource_spec (msg bs : Bytes) (r : Resource) (comp comp' : Option CompMap)
    (hinv : CompInvOpt k msg comp) (hk : k ≤ msg.length) (hwf : WFResource r)
    (hp : packResource r msg comp = .ok (bs, comp')) :
    comp'.isNone = comp.isNone ∧ CompInvOpt k (msg ++ bs) comp' ∧
    ∃ len, ∀ post, unpackResource (msg ++ bs ++ post) msg.length =
      .ok (normResource r len, msg.length + bs.length) := by
  rcases hwf with ⟨hc, hcls, httl, hb⟩
  have htyp := realType_lt hb
  unfold packResource at hp
  cases hn : packName r.hdr.name msg comp with
  | error e => rw [hn] at hp; simp at hp
  | ok res =>
    rcases res with ⟨nb, c1⟩
    rw [hn] at hp
    simp only [] at hp
    cases hbp0 : packBody r.body (msg ++ nb ++ u16 r.body.realType ++ u16 r.hdr.cls ++ u32 r.hdr.ttl ++
        u16 r.hdr.length) c1 with
    | error e => rw [hbp0] at hp; simp at hp
    | ok res2 =>
      rcases res2 with ⟨bb, c2⟩
      rw [hbp0] at hp
      simp only [] at hp
      split at hp
      · simp at hp
      · rename_i hlen
        split at hp
        · simp at hp
        · rename_i hsame
          have hbp : packBody r.body (msg ++ nb ++ u16 r.body.realType ++ u16 r.hdr.cls ++ u32 r.hdr.ttl ++
              u16 bb.length) c1 = .ok (bb, c2) := by
            simpa using hsame
          simp only [Except.ok.injEq, Prod.mk.injEq] at hp
          rcases hp with ⟨rfl, rfl⟩
          have hlen' : bb.length < 65536 := by omega
          rcases packName_spec msg r.hdr.name nb comp c1 hinv hk hc hn with ⟨g1, g2, g3⟩
          have hpos : msg.length + nb.length + 10 =
              (msg ++ nb ++ u16 r.body.realType ++ u16 r.hdr.cls ++ u32 r.hdr.ttl ++ u16 bb.length).length := by
            simp [u16, u32]; omega
          have hinvB : CompInvOpt k (msg ++ nb ++ u16 r.body.realType ++ u16 r.hdr.cls ++ u32 r.hdr.ttl ++
              u16 bb.length) c1 := by
            have := g2.append (u16 r.body.realType ++ u16 r.hdr.cls ++ u32 r.hdr.ttl ++ u16 bb.length)
            simpa [List.append_assoc] using this
          rcases packBody_spec _ bb r.body c1 c2 hinvB (by simp [u16, u32]; omega) hb hbp with ⟨k1, k2, k3⟩
          refine ⟨by rw [k1, g1], by simpa [List.append_assoc] using k2, bb.length, fun post => ?_⟩
          have hF : msg ++ (nb ++ u16 r.body.realType ++ u16 r.hdr.cls ++ u32 r.hdr.ttl ++ u16 bb.length ++ bb) ++ post =
              msg ++ nb ++ (u16 r.body.realType ++ u16 r.hdr.cls ++ u32 r.hdr.ttl ++ u16 bb.length ++ bb ++ post) := by
            simp
          have hF2 : msg ++ (nb ++ u16 r.body.realType ++ u16 r.hdr.cls ++ u32 r.hdr.ttl ++ u16 bb.length ++ bb) ++ post =
              msg ++ nb ++ u16 r.body.realType ++ u16 r.hdr.cls ++ u32 r.hdr.ttl ++ u16 bb.length ++ bb ++ post := by
            simp
          have r1 := g3 (u16 r.body.realType ++ u16 r.hdr.cls ++ u32 r.hdr.ttl ++ u16 bb.length ++ bb ++ post)
          have r2 := k3 post
          rw [← hF] at r1
          rw [← hF2, ← hpos] at r2
          have u1 : u16At (msg ++ (nb ++ u16 r.body.realType ++ u16 r.hdr.cls ++ u32 r.hdr.ttl ++ u16 bb.length ++ bb) ++ post)
              (msg.length + nb.length) = .ok (r.body.realType, msg.length + nb.length + 2) :=
            u16At_drop (rest := u16 r.hdr.cls ++ u32 r.hdr.ttl ++ u16 bb.length ++ bb ++ post) (by simp) htyp
          have u2 : u16At (msg ++ (nb ++ u16 r.body.realType ++ u16 r.hdr.cls ++ u32 r.hdr.ttl ++ u16 bb.length ++ bb) ++ post)
              (msg.length + nb.length + 2) = .ok (r.hdr.cls, msg.length + nb.length + 2 + 2) :=
            u16At_drop (rest := u32 r.hdr.ttl ++ u16 bb.length ++ bb ++ post) (by simp [u16, Nat.add_assoc]) hcls
          have u3 : u32At (msg ++ (nb ++ u16 r.body.realType ++ u16 r.hdr.cls ++ u32 r.hdr.ttl ++ u16 bb.length ++ bb) ++ post)
              (msg.length + nb.length + 2 + 2) = .ok (r.hdr.ttl, msg.length + nb.length + 2 + 2 + 4) :=
            u32At_drop (rest := u16 bb.length ++ bb ++ post) (by simp [u16, Nat.add_assoc]) httl
          have u4 : u16At (msg ++ (nb ++ u16 r.body.realType ++ u16 r.hdr.cls ++ u32 r.hdr.ttl ++ u16 bb.length ++ bb) ++ post)
              (msg.length + nb.length + 2 + 2 + 4) = .ok (bb.length, msg.length + nb.length + 2 + 2 + 4 + 2) :=
            u16At_drop (rest := bb ++ post) (by simp [u16, u32, Nat.add_assoc]) hlen'
          have h10 : msg.length + nb.length + 2 + 2 + 4 + 2 = msg.length + nb.length + 10 := by omega
          rw [h10] at u4
          have hin : ¬ (msg.length + nb.length + 10 + bb.length >
              (msg ++ (nb ++ u16 r.body.realType ++ u16 r.hdr.cls ++ u32 r.hdr.ttl ++ u16 bb.length ++ bb) ++ post).length) := by
            simp [u16, u32]; omega
          simp only [unpackResource, unpackRHeader, r1, u1, u2, u3, u4, hin, if_false, r2]
          simp [normResource, u16, u32]
          omega

/-! ## Sections -/

theorem packQuestions_spec : ∀ (qs : List Question) (msg bs : Bytes) (comp comp' : Option CompMap),
    CompInvOpt k msg comp → k ≤ msg.length → (∀ q ∈ qs, WFQuestion q) →
    packQuestions qs msg comp = .ok (bs, comp') →
    comp'.isNone = comp.isNone ∧ CompInvOpt k (msg ++ bs) comp' ∧
    ∀ post, unpackQuestions (msg ++ bs ++ post) qs.length msg.length = .ok (qs, msg.length + bs.length) := by
  intro qs
  induction qs with
  | nil =>
    intro msg bs comp comp' hinv hk _ hp
    simp only [packQuestions, Except.ok.injEq, Prod.mk.injEq] at hp
    rcases hp with ⟨rfl, rfl⟩
    exact ⟨rfl, by simpa using hinv, fun post => by simp [unpackQuestions]⟩
  | cons q qs ih =>
    intro msg bs comp comp' hinv hk hwf hp
    unfold packQuestions at hp
    cases h1 : packQuestion q msg comp with
    | error e => rw [h1] at hp; simp at hp
    | ok res =>
      rcases res with ⟨b1, c1⟩
      rw [h1] at hp
      simp only [] at hp
      have hpos : msg.length + b1.length = (msg ++ b1).length := by simp
      cases h2 : packQuestions qs (msg ++ b1) c1 with
      | error e => rw [h2] at hp; simp at hp
      | ok res2 =>
        rcases res2 with ⟨b2, c2⟩
        rw [h2] at hp
        simp only [Except.ok.injEq, Prod.mk.injEq] at hp
        rcases hp with ⟨rfl, rfl⟩
        rcases packQuestion_spec msg b1 q comp c1 hinv hk (hwf q (by simp)) h1 with ⟨g1, g2, g3⟩
        rcases ih (msg ++ b1) b2 c1 c2 g2 (by simp; omega) (fun x hx => hwf x (by simp [hx])) h2 with ⟨k1, k2, k3⟩
        refine ⟨by rw [k1, g1], by simpa [List.append_assoc] using k2, fun post => ?_⟩
        have hF : msg ++ (b1 ++ b2) ++ post = msg ++ b1 ++ (b2 ++ post) := by simp
        have hF2 : msg ++ (b1 ++ b2) ++ post = msg ++ b1 ++ b2 ++ post := by simp
        have r1 := g3 (b2 ++ post)
        have r2 := k3 post
        rw [← hF] at r1
        rw [← hF2, ← hpos] at r2
        simp only [List.length_cons, unpackQuestions, r1, r2]
        simp; omega

theorem packResources_spec : ∀ (rs : List Resource) (msg bs : Bytes) (comp comp' : Option CompMap),
    CompInvOpt k msg comp → k ≤ msg.length → (∀ r ∈ rs, WFResource r) →
    packResources rs msg comp = .ok (bs, comp') →
    comp'.isNone = comp.isNone ∧ CompInvOpt k (msg ++ bs) comp' ∧
    ∃ lens, lens.length = rs.length ∧
      ∀ post, unpackResources (msg ++ bs ++ post) rs.length msg.length =
        .ok (List.zipWith normResource rs lens, msg.length + bs.length) := by
  intro rs
  induction rs with
  | nil =>
    intro msg bs comp comp' hinv hk _ hp
    simp only [packResources, Except.ok.injEq, Prod.mk.injEq] at hp
    rcases hp with ⟨rfl, rfl⟩
    exact ⟨rfl, by simpa using hinv, [], rfl, fun post => by simp [unpackResources]⟩
  | cons r rs ih =>
    intro msg bs comp comp' hinv hk hwf hp
    unfold packResources at hp
    cases h1 : packResource r msg comp with
    | error e => rw [h1] at hp; simp at hp
    | ok res =>
      rcases res with ⟨b1, c1⟩
      rw [h1] at hp
      simp only [] at hp
      have hpos : msg.length + b1.length = (msg ++ b1).length := by simp
      cases h2 : packResources rs (msg ++ b1) c1 with
      | error e => rw [h2] at hp; simp at hp
      | ok res2 =>
        rcases res2 with ⟨b2, c2⟩
        rw [h2] at hp
        simp only [Except.ok.injEq, Prod.mk.injEq] at hp
        rcases hp with ⟨rfl, rfl⟩
        rcases packResource_spec msg b1 r comp c1 hinv hk (hwf r (by simp)) h1 with ⟨g1, g2, len, g3⟩
        rcases ih (msg ++ b1) b2 c1 c2 g2 (by simp; omega) (fun x hx => hwf x (by simp [hx])) h2 with ⟨k1, k2, lens, hl, k3⟩
        refine ⟨by rw [k1, g1], by simpa [List.append_assoc] using k2, len :: lens, by simp [hl], fun post => ?_⟩
        have hF : msg ++ (b1 ++ b2) ++ post = msg ++ b1 ++ (b2 ++ post) := by simp
        have hF2 : msg ++ (b1 ++ b2) ++ post = msg ++ b1 ++ b2 ++ post := by simp
        have r1 := g3 (b2 ++ post)
        have r2 := k3 post
        rw [← hF] at r1
        rw [← hF2, ← hpos] at r2
        simp only [List.length_cons, unpackResources, r1, r2]
        simp; omega

/-! ## The whole message -/

theorem bits_lt (h : Header) (hr : h.rCode < 16) : h.bits < 65536 := by
  have hb : ∀ (b : Bool) (v : Nat), v < 65536 → bitIf b v < 2 ^ 16 := by
    intro b v hv; cases b <;> simp [bitIf] <;> omega
  have h0 : h.opCode * 2048 % 65536 < 2 ^ 16 := by omega
  have h1 : h.rCode < 2 ^ 16 := by omega
  unfold Header.bits
  have := Nat.or_lt_two_pow (Nat.or_lt_two_pow (Nat.or_lt_two_pow (Nat.or_lt_two_pow (Nat.or_lt_two_pow
    (Nat.or_lt_two_pow (Nat.or_lt_two_pow (Nat.or_lt_two_pow h0 h1) (hb h.recursionAvailable 128 (by omega)))
    (hb h.recursionDesired 256 (by omega))) (hb h.truncated 512 (by omega))) (hb h.authoritative 1024 (by omega)))
    (hb h.response 32768 (by omega))) (hb h.authenticData 32 (by omega))) (hb h.checkingDisabled 16 (by omega))
  simpa using this

theorem unpackWireHeader_pack (h : Header) (nq na nu nr : Nat) (rest : Bytes)
    (hid : h.id < 65536) (hr : h.rCode < 16)
    (h1 : nq < 65536) (h2 : na < 65536) (h3 : nu < 65536) (h4 : nr < 65536) :
    unpackWireHeader (packHeader h nq na nu nr ++ rest) =
      .ok { id := h.id, bits := h.bits, nq := nq, na := na, nu := nu, nr := nr } := by
  have hb := bits_lt h hr
  simp only [packHeader, u16, unpackWireHeader, List.cons_append, List.nil_append]
  have e : ∀ v, v < 65536 → v / 256 % 256 * 256 + v % 256 = v := by intro v hv; omega
  simp only [e _ hid, e _ hb, e _ h1, e _ h2, e _ h3, e _ h4]

def WFMessage (m : Message) : Prop :=
  m.hdr.id < 65536 ∧ m.hdr.opCode < 16 ∧ m.hdr.rCode < 16 ∧
  (∀ q ∈ m.questions, WFQuestion q) ∧ (∀ r ∈ m.answers, WFResource r) ∧
  (∀ r ∈ m.authorities, WFResource r) ∧ (∀ r ∈ m.additionals, WFResource r)

/-- `m` as `Pack` leaves it (and as `Unpack` of the packed bytes returns it): every record header
carries the body's `Type` and the packed body `Length`. -/
def normMessage (m : Message) (l1 l2 l3 : List Nat) : Message :=
  { m with answers := List.zipWith normResource m.answers l1,
           authorities := List.zipWith normResource m.authorities l2,
           additionals := List.zipWith normResource m.additionals l3 }

theorem packMessage_spec (m : Message) (comp : Option CompMap) (bytes : Bytes)
    (hcomp : comp = none ∨ comp = some [])
    (hwf : WFMessage m) (hp : packMessageWith m comp = .ok bytes) :
    ∃ l1 l2 l3, l1.length = m.answers.length ∧ l2.length = m.authorities.length ∧
      l3.length = m.additionals.length ∧
      unpackMessage bytes = .ok (normMessage m l1 l2 l3) := by
  rcases hwf with ⟨hid, hop, hrc, hq, han, hau, had⟩
  unfold packMessageWith at hp
  split at hp
  · simp at hp
  · rename_i c1
    split at hp
    · simp at hp
    · rename_i c2
      split at hp
      · simp at hp
      · rename_i c3
        split at hp
        · simp at hp
        · rename_i c4
          simp only [] at hp
          generalize hm0 : packHeader m.hdr m.questions.length m.answers.length m.authorities.length
            m.additionals.length = msg0 at hp
          have hl0 : msg0.length = 12 := by rw [← hm0]; simp [packHeader, u16]
          have hinv0 : CompInvOpt 0 msg0 comp := by
            rcases hcomp with rfl | rfl
            · trivial
            · exact compInv_nil 0 _
          cases h1 : packQuestions m.questions msg0 comp with
          | error e => rw [h1] at hp; simp at hp
          | ok res1 =>
            rcases res1 with ⟨b1, k1⟩
            rw [h1] at hp
            simp only [] at hp
            have p1 : msg0.length + b1.length = (msg0 ++ b1).length := by simp
            cases h2 : packResources m.answers (msg0 ++ b1) k1 with
            | error e => rw [h2] at hp; simp at hp
            | ok res2 =>
              rcases res2 with ⟨b2, k2⟩
              rw [h2] at hp
              simp only [] at hp
              have p2 : (msg0 ++ b1).length + b2.length = (msg0 ++ b1 ++ b2).length := by simp; omega
              cases h3 : packResources m.authorities (msg0 ++ b1 ++ b2) k2 with
              | error e => rw [h3] at hp; simp at hp
              | ok res3 =>
                rcases res3 with ⟨b3, k3⟩
                rw [h3] at hp
                simp only [] at hp
                have p3 : (msg0 ++ b1 ++ b2).length + b3.length = (msg0 ++ b1 ++ b2 ++ b3).length := by simp; omega
                cases h4 : packResources m.additionals (msg0 ++ b1 ++ b2 ++ b3) k3 with
                | error e => rw [h4] at hp; simp at hp
                | ok res4 =>
                  rcases res4 with ⟨b4, k4⟩
                  rw [h4] at hp
                  simp only [Except.ok.injEq] at hp
                  subst hp
                  rcases packQuestions_spec m.questions msg0 b1 comp k1 hinv0 (Nat.zero_le _) hq h1 with ⟨e1, i1, r1⟩
                  rcases packResources_spec m.answers (msg0 ++ b1) b2 k1 k2 i1 (Nat.zero_le _) han h2 with ⟨e2, i2, l1, hl1, r2⟩
                  rcases packResources_spec m.authorities (msg0 ++ b1 ++ b2) b3 k2 k3 i2 (Nat.zero_le _) hau h3 with ⟨e3, i3, l2, hl2, r3⟩
                  rcases packResources_spec m.additionals (msg0 ++ b1 ++ b2 ++ b3) b4 k3 k4 i3 (Nat.zero_le _) had h4 with ⟨e4, i4, l3, hl3, r4⟩
                  refine ⟨l1, l2, l3, hl1, hl2, hl3, ?_⟩
                  have hw := unpackWireHeader_pack m.hdr m.questions.length m.answers.length m.authorities.length
                    m.additionals.length (b1 ++ b2 ++ b3 ++ b4) hid hrc (by omega) (by omega) (by omega) (by omega)
                  rw [hm0] at hw
                  have hF : msg0 ++ b1 ++ b2 ++ b3 ++ b4 = msg0 ++ (b1 ++ b2 ++ b3 ++ b4) := by simp
                  have q1 := r1 (b2 ++ b3 ++ b4)
                  have q2 := r2 (b3 ++ b4)
                  have q3 := r3 b4
                  have q4 := r4 []
                  have f1 : msg0 ++ b1 ++ (b2 ++ b3 ++ b4) = msg0 ++ b1 ++ b2 ++ b3 ++ b4 := by simp
                  have f2 : msg0 ++ b1 ++ b2 ++ (b3 ++ b4) = msg0 ++ b1 ++ b2 ++ b3 ++ b4 := by simp
                  have f4 : msg0 ++ b1 ++ b2 ++ b3 ++ b4 ++ [] = msg0 ++ b1 ++ b2 ++ b3 ++ b4 := by simp
                  rw [f1, hl0] at q1
                  rw [f2, ← p1, hl0] at q2
                  rw [← p2, ← p1, hl0] at q3
                  rw [f4, ← p3, ← p2, ← p1, hl0] at q4
                  rw [← hF] at hw
                  have hhdr := header_bits_roundtrip m.hdr hop hrc
                  unfold unpackMessage unpackMessageOff
                  simp only [hw, q1, q2, q3, q4, hhdr, normMessage]

end NetVerif.Proofs.DnsMsg
