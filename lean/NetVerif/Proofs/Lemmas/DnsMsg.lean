import NetVerif.Proofs.Lemmas.DnsNames
/-!
Message-level round trip for C36: every `packX` of the writer, run at the end of a buffer `msg`
under the compression invariant, produces bytes that the corresponding `unpackX` reads back -
wherever more bytes follow - or (only with compression) `Name.unpack` stops with
`errTooManyPtr`.
-/
namespace NetVerif.Proofs.DnsMsg
open NetVerif.Model.Dns NetVerif.Proofs.Dns NetVerif.Proofs.C36

/-- the invariant for an optional compression map (`nil` map = compression disabled) -/
def CompInvOpt (msg : Bytes) : Option CompMap → Prop
  | none => True
  | some m => CompInv msg m

theorem CompInvOpt.append {msg : Bytes} {c : Option CompMap} (h : CompInvOpt msg c) (ext : Bytes) :
    CompInvOpt (msg ++ ext) c := by
  cases c with
  | none => trivial
  | some m => exact CompInv.append h ext

/-- `r` is the expected value, or - unless `strict` - the reader hit the pointer budget. -/
def Agrees {α : Type} (strict : Bool) (r : Except Err α) (x : α) : Prop :=
  r = .ok x ∨ (strict = false ∧ r = .error .tooManyPtr)

theorem Agrees.weaken {α : Type} {r : Except Err α} {x : α} (h : Agrees true r x) (s : Bool) : Agrees s r x := by
  rcases h with h | ⟨h, _⟩
  · exact Or.inl h
  · cases h

/-- `Name.pack` at the end of `msg`, in inversion form. -/
theorem packName_spec (msg n bs : Bytes) (comp comp' : Option CompMap)
    (hinv : CompInvOpt msg comp) (hc : Canonical n)
    (hp : packName n msg.length comp = .ok (bs, comp')) :
    comp'.isNone = comp.isNone ∧ CompInvOpt (msg ++ bs) comp' ∧
    ∀ post, Agrees comp.isNone (unpackName (msg ++ bs ++ post) msg.length) (n, msg.length + bs.length) := by
  cases comp with
  | none =>
    rcases name_roundtrip_nocomp n msg.length hc with ⟨bs0, hp0, hu⟩
    rw [hp0] at hp
    simp only [Except.ok.injEq, Prod.mk.injEq] at hp
    rcases hp with ⟨rfl, rfl⟩
    exact ⟨rfl, trivial, fun post => Or.inl (hu msg post)⟩
  | some m =>
    rcases name_roundtrip_comp msg m n hinv hc with ⟨bs0, m', d, hp0, hinv', hu⟩
    rw [hp0] at hp
    simp only [Except.ok.injEq, Prod.mk.injEq] at hp
    rcases hp with ⟨rfl, rfl⟩
    refine ⟨rfl, hinv', fun post => ?_⟩
    rw [hu post]
    by_cases h10 : d ≤ 10
    · left; simp [h10]
    · right; simp [h10]

theorem u16At_drop {F : Bytes} {off v : Nat} {rest : Bytes} (h : F.drop off = u16 v ++ rest)
    (hv : v < 65536) : u16At F off = .ok (v, off + 2) := by
  unfold u16At
  rw [h]
  simp [u16]
  omega

theorem u32At_drop {F : Bytes} {off v : Nat} {rest : Bytes} (h : F.drop off = u32 v ++ rest)
    (hv : v < 4294967296) : u32At F off = .ok (v, off + 4) := by
  unfold u32At
  rw [h]
  simp [u32]
  omega

/-! ## Question -/

def WFQuestion (q : Question) : Prop := Canonical q.name ∧ q.typ < 65536 ∧ q.cls < 65536

theorem packQuestion_spec (msg bs : Bytes) (q : Question) (comp comp' : Option CompMap)
    (hinv : CompInvOpt msg comp) (hwf : WFQuestion q)
    (hp : packQuestion q msg.length comp = .ok (bs, comp')) :
    comp'.isNone = comp.isNone ∧ CompInvOpt (msg ++ bs) comp' ∧
    ∀ post, Agrees comp.isNone (unpackQuestion (msg ++ bs ++ post) msg.length) (q, msg.length + bs.length) := by
  unfold packQuestion at hp
  cases hn : packName q.name msg.length comp with
  | error e => rw [hn] at hp; simp at hp
  | ok res =>
    rcases res with ⟨nb, c1⟩
    rw [hn] at hp
    simp only [Except.ok.injEq, Prod.mk.injEq] at hp
    rcases hp with ⟨rfl, rfl⟩
    rcases packName_spec msg q.name nb comp c1 hinv hwf.1 hn with ⟨hnone, hinv1, hread⟩
    refine ⟨hnone, ?_, fun post => ?_⟩
    · have := hinv1.append (u16 q.typ ++ u16 q.cls)
      simpa [List.append_assoc] using this
    · have hF : msg ++ (nb ++ u16 q.typ ++ u16 q.cls) ++ post = msg ++ nb ++ (u16 q.typ ++ u16 q.cls ++ post) := by
        simp
      rw [hF]
      rcases hread (u16 q.typ ++ u16 q.cls ++ post) with hok | ⟨hs, herr⟩
      · left
        have h1 : u16At (msg ++ nb ++ (u16 q.typ ++ u16 q.cls ++ post)) (msg.length + nb.length) =
            .ok (q.typ, msg.length + nb.length + 2) :=
          u16At_drop (rest := u16 q.cls ++ post) (by simp) hwf.2.1
        have h2 : u16At (msg ++ nb ++ (u16 q.typ ++ u16 q.cls ++ post)) (msg.length + nb.length + 2) =
            .ok (q.cls, msg.length + nb.length + 2 + 2) :=
          u16At_drop (rest := post) (by simp [Nat.add_assoc, u16]) hwf.2.2
        simp only [unpackQuestion, hok, h1, h2]
        simp [u16]
        omega
      · right
        exact ⟨hs, by simp only [unpackQuestion, herr]⟩

/-! ## Resource bodies -/

theorem bytesAt_append (msg bs post : Bytes) :
    bytesAt (msg ++ bs ++ post) msg.length bs.length = .ok bs := by
  unfold bytesAt
  have h1 : ¬ (msg.length + bs.length > (msg ++ bs ++ post).length) := by simp
  simp only [h1, if_false]
  rw [List.append_assoc, List.drop_left, List.take_left' rfl]

theorem nameOnly_of_agrees {s : Bool} {F : Bytes} {off : Nat} {n : Bytes} {o : Nat}
    (h : Agrees s (unpackName F off) (n, o)) : Agrees s (nameOnly F off) n := by
  rcases h with h | ⟨hs, h⟩
  · left; simp [nameOnly, h]
  · right; exact ⟨hs, by simp [nameOnly, h]⟩

theorem Agrees.map {α β : Type} {s : Bool} {r : Except Err α} {x : α} (f : α → β)
    (h : Agrees s r x) : Agrees s (r.map f) (f x) := by
  rcases h with h | ⟨hs, h⟩
  · left; rw [h]; rfl
  · right; exact ⟨hs, by rw [h]; rfl⟩

/-- TXT: the loop of `unpackTXTResource` reads back what `packText` wrote. -/
theorem txtLoop_spec : ∀ (ss : List Bytes) (bs : Bytes), packTexts ss = .ok bs →
    ∀ (pre post : Bytes) (n L fuel : Nat), n + bs.length = L → ss.length < fuel →
      txtLoop (pre ++ bs ++ post) L fuel pre.length n = .ok ss := by
  intro ss
  induction ss with
  | nil =>
    intro bs hp pre post n L fuel hL hf
    simp [packTexts] at hp
    subst hp
    cases fuel with
    | zero => omega
    | succ fuel =>
      have : ¬ n < L := by simp at hL; omega
      simp [txtLoop, this]
  | cons s ss ih =>
    intro bs hp pre post n L fuel hL hf
    unfold packTexts at hp
    split at hp
    · simp at hp
    · cases hr : packTexts ss with
      | error e => rw [hr] at hp; simp at hp
      | ok r =>
        rw [hr] at hp
        simp only [Except.ok.injEq] at hp
        subst hp
        cases fuel with
        | zero => omega
        | succ fuel =>
          have hlt : n < L := by simp at hL; omega
          have htext : textAt (pre ++ (s.length :: s ++ r) ++ post) pre.length =
              .ok (s, pre.length + 1 + s.length) := by
            unfold textAt
            have : (pre ++ (s.length :: s ++ r) ++ post).drop pre.length = s.length :: (s ++ (r ++ post)) := by
              simp
            rw [this]
            simp
          have hchk : ¬ (L - n < s.length + 1) := by simp at hL; omega
          have hrec := ih r hr (pre ++ s.length :: s) post (n + s.length + 1) L fuel
            (by simp at hL ⊢; omega) (by simp at hf; omega)
          have hF : pre ++ (s.length :: s ++ r) ++ post = pre ++ s.length :: s ++ r ++ post := by simp
          unfold txtLoop
          simp only [hlt, if_true, htext, hchk, if_false]
          rw [hF]
          have hoff : pre.length + 1 + s.length = (pre ++ s.length :: s).length := by simp; omega
          rw [hoff, hrec]

theorem packTexts_length : ∀ (ss : List Bytes) (bs : Bytes), packTexts ss = .ok bs → ss.length ≤ bs.length := by
  intro ss
  induction ss with
  | nil => intro bs h; simp
  | cons s ss ih =>
    intro bs hp
    unfold packTexts at hp
    split at hp
    · simp at hp
    · cases hr : packTexts ss with
      | error e => rw [hr] at hp; simp at hp
      | ok r =>
        rw [hr] at hp
        simp only [Except.ok.injEq] at hp
        subst hp
        have := ih r hr
        simp; omega

def WFPairs16 (ps : List (Nat × Bytes)) : Prop := ∀ p ∈ ps, p.1 < 65536 ∧ p.2.length < 65536

/-- OPT: the loop of `unpackOPTResource` reads back what `OPTResource.pack` wrote. -/
theorem optLoop_spec : ∀ (opts : List (Nat × Bytes)), WFPairs16 opts →
    ∀ (pre post : Bytes) (fuel : Nat), opts.length < fuel →
      optLoop (pre ++ packOpts opts ++ post) (pre.length + (packOpts opts).length) fuel pre.length = .ok opts := by
  intro opts
  induction opts with
  | nil =>
    intro _ pre post fuel hf
    cases fuel with
    | zero => omega
    | succ fuel => simp [optLoop, packOpts]
  | cons o opts ih =>
    intro hwf pre post fuel hf
    rcases o with ⟨code, data⟩
    have hw := hwf (code, data) (by simp)
    have hwf' : WFPairs16 opts := fun p hp => hwf p (by simp [hp])
    cases fuel with
    | zero => omega
    | succ fuel =>
      have hmod : data.length % 65536 = data.length := Nat.mod_eq_of_lt hw.2
      have hlt : pre.length < pre.length + (packOpts ((code, data) :: opts)).length := by
        simp [packOpts, u16]
      have h1 : u16At (pre ++ packOpts ((code, data) :: opts) ++ post) pre.length = .ok (code, pre.length + 2) :=
        u16At_drop (rest := u16 (data.length % 65536) ++ data ++ packOpts opts ++ post)
          (by simp [packOpts]) hw.1
      have h2 : u16At (pre ++ packOpts ((code, data) :: opts) ++ post) (pre.length + 2) =
          .ok (data.length, pre.length + 2 + 2) := by
        have := u16At_drop (F := pre ++ packOpts ((code, data) :: opts) ++ post) (off := pre.length + 2)
          (v := data.length) (rest := data ++ packOpts opts ++ post)
          (by simp [packOpts, hmod, u16]) hw.2
        exact this
      have h3 : ¬ ((pre ++ packOpts ((code, data) :: opts) ++ post).length - (pre.length + 2 + 2) < data.length) := by
        simp [packOpts, u16]; omega
      have h4 : ((pre ++ packOpts ((code, data) :: opts) ++ post).drop (pre.length + 2 + 2)).take data.length = data := by
        have : (pre ++ packOpts ((code, data) :: opts) ++ post).drop (pre.length + 2 + 2) =
            data ++ (packOpts opts ++ post) := by
          simp [packOpts, u16, Nat.add_assoc]
        rw [this, List.take_left' rfl]
      have hrec := ih hwf' (pre ++ u16 code ++ u16 (data.length % 65536) ++ data) post fuel (by simp at hf; omega)
      have hF : pre ++ packOpts ((code, data) :: opts) ++ post =
          pre ++ u16 code ++ u16 (data.length % 65536) ++ data ++ packOpts opts ++ post := by
        simp [packOpts]
      have hoff : pre.length + 2 + 2 + data.length = (pre ++ u16 code ++ u16 (data.length % 65536) ++ data).length := by
        simp [u16]; omega
      have hend : pre.length + (packOpts ((code, data) :: opts)).length =
          (pre ++ u16 code ++ u16 (data.length % 65536) ++ data).length + (packOpts opts).length := by
        simp [packOpts, u16]; omega
      unfold optLoop
      simp only [hlt, if_true, h1, h2, h3, if_false, h4]
      rw [hoff, hend, hF, hrec]

theorem packOpts_length : ∀ (opts : List (Nat × Bytes)), opts.length ≤ (packOpts opts).length := by
  intro opts
  induction opts with
  | nil => simp
  | cons o opts ih => rcases o with ⟨c, d⟩; simp [packOpts, u16]; omega

/-- SVCB/HTTPS parameters: both passes of `unpackSVCBResource` read back what
`SVCBResource.pack` wrote (which has already checked the key order and the value sizes). -/
theorem svcbParams_spec : ∀ (ps : List (Nat × Bytes)) (prev : Option Nat) (pb : Bytes),
    packParams prev ps = .ok pb → WFPairs16 ps →
    ∀ (pre post : Bytes) (fuel : Nat), ps.length < fuel →
      ∃ l, svcbPass1 (pre ++ pb ++ post) (pre.length + pb.length) fuel pre.length prev = .ok l ∧
        svcbPass2 (pre ++ pb ++ post) l = .ok ps := by
  intro ps
  induction ps with
  | nil =>
    intro prev pb hp _ pre post fuel hf
    simp [packParams] at hp
    subst hp
    cases fuel with
    | zero => omega
    | succ fuel => exact ⟨[], by simp [svcbPass1], by simp [svcbPass2]⟩
  | cons kv ps ih =>
    intro prev pb hp hwf pre post fuel hf
    rcases kv with ⟨key, value⟩
    have hw := hwf (key, value) (by simp)
    have hwf' : WFPairs16 ps := fun p hp => hwf p (by simp [hp])
    unfold packParams at hp
    split at hp
    · simp at hp
    · rename_i hord
      split at hp
      · simp at hp
      · rename_i hvl
        cases hr : packParams (some key) ps with
        | error e => rw [hr] at hp; simp at hp
        | ok rest =>
          rw [hr] at hp
          simp only [Except.ok.injEq] at hp
          subst hp
          cases fuel with
          | zero => omega
          | succ fuel =>
            rcases ih (some key) rest hr hwf' (pre ++ u16 key ++ u16 value.length ++ value) post fuel
              (by simp at hf; omega) with ⟨l', hp1, hp2⟩
            have hF : pre ++ (u16 key ++ u16 value.length ++ value ++ rest) ++ post =
                pre ++ u16 key ++ u16 value.length ++ value ++ rest ++ post := by simp
            have hlt : pre.length < pre.length + (u16 key ++ u16 value.length ++ value ++ rest).length := by
              simp [u16]
            have h1 : u16At (pre ++ (u16 key ++ u16 value.length ++ value ++ rest) ++ post) pre.length =
                .ok (key, pre.length + 2) :=
              u16At_drop (rest := u16 value.length ++ value ++ rest ++ post) (by simp) hw.1
            have h2 : u16At (pre ++ (u16 key ++ u16 value.length ++ value ++ rest) ++ post) (pre.length + 2) =
                .ok (value.length, pre.length + 2 + 2) :=
              u16At_drop (rest := value ++ rest ++ post) (by simp [u16]) hw.2
            have h3 : ¬ (pre.length + 2 + 2 + value.length >
                pre.length + (u16 key ++ u16 value.length ++ value ++ rest).length) := by
              simp [u16]; omega
            have hoff : pre.length + 2 + 2 + value.length =
                (pre ++ u16 key ++ u16 value.length ++ value).length := by simp [u16]; omega
            have hend : pre.length + (u16 key ++ u16 value.length ++ value ++ rest).length =
                (pre ++ u16 key ++ u16 value.length ++ value).length + rest.length := by
              simp [u16]; omega
            have hord' : outOfOrder prev key = false := by simpa using hord
            refine ⟨(key, value.length, pre.length + 2 + 2) :: l', ?_, ?_⟩
            · unfold svcbPass1
              simp only [hlt, if_true, h1, hord', h2, h3, if_false]
              rw [hoff, hend, hF, hp1]
              simp
            · unfold svcbPass2
              have h4 : ¬ ((pre ++ (u16 key ++ u16 value.length ++ value ++ rest) ++ post).length -
                  (pre.length + 2 + 2) < value.length) := by simp [u16]; omega
              have h5 : ((pre ++ (u16 key ++ u16 value.length ++ value ++ rest) ++ post).drop
                  (pre.length + 2 + 2)).take value.length = value := by
                have : (pre ++ (u16 key ++ u16 value.length ++ value ++ rest) ++ post).drop (pre.length + 2 + 2) =
                    value ++ (rest ++ post) := by simp [u16, Nat.add_assoc]
                rw [this, List.take_left' rfl]
              simp only [h4, if_false, h5]
              rw [hF, hp2]

theorem packParams_length : ∀ (ps : List (Nat × Bytes)) (prev : Option Nat) (pb : Bytes),
    packParams prev ps = .ok pb → ps.length ≤ pb.length := by
  intro ps
  induction ps with
  | nil => intro prev pb h; simp
  | cons kv ps ih =>
    intro prev pb hp
    rcases kv with ⟨key, value⟩
    unfold packParams at hp
    split at hp
    · simp at hp
    · split at hp
      · simp at hp
      · cases hr : packParams (some key) ps with
        | error e => rw [hr] at hp; simp at hp
        | ok rest =>
          rw [hr] at hp
          simp only [Except.ok.injEq] at hp
          subst hp
          have := ih _ _ hr
          simp [u16]; omega

/-- `SVCBResource.pack` / `unpackSVCBResource` (no compression is ever used here). -/
theorem svcb_spec (msg bb : Bytes) (prio : Nat) (target : Bytes) (ps : List (Nat × Bytes))
    (hprio : prio < 65536) (hc : Canonical target) (hwf : WFPairs16 ps)
    (hp : packSVCB prio target ps = .ok bb) :
    ∀ post, unpackSVCB (msg ++ bb ++ post) msg.length bb.length = .ok (prio, target, ps) := by
  intro post
  unfold packSVCB at hp
  rcases name_roundtrip_nocomp target 0 hc with ⟨tb, htp, htu⟩
  rw [htp] at hp
  simp only [] at hp
  cases hpp : packParams none ps with
  | error e => rw [hpp] at hp; simp at hp
  | ok pb =>
    rw [hpp] at hp
    simp only [Except.ok.injEq] at hp
    subst hp
    have hF : msg ++ (u16 prio ++ tb ++ pb) ++ post = msg ++ u16 prio ++ tb ++ pb ++ post := by simp
    have h1 : u16At (msg ++ (u16 prio ++ tb ++ pb) ++ post) msg.length = .ok (prio, msg.length + 2) :=
      u16At_drop (rest := tb ++ pb ++ post) (by simp) hprio
    have h2 : unpackName (msg ++ (u16 prio ++ tb ++ pb) ++ post) (msg.length + 2) =
        .ok (target, msg.length + 2 + tb.length) := by
      have := htu (msg ++ u16 prio) (pb ++ post)
      simpa [u16, List.append_assoc] using this
    have hfuel : ps.length < (msg ++ (u16 prio ++ tb ++ pb) ++ post).length + 1 := by
      have := packParams_length ps none pb hpp
      simp; omega
    rcases svcbParams_spec ps none pb hpp hwf (msg ++ u16 prio ++ tb) post _ hfuel with ⟨l, hp1, hp2⟩
    have hoff : msg.length + 2 + tb.length = (msg ++ u16 prio ++ tb).length := by simp [u16]; omega
    have hend : msg.length + (u16 prio ++ tb ++ pb).length = (msg ++ u16 prio ++ tb).length + pb.length := by
      simp [u16]; omega
    unfold unpackSVCB
    simp only [h1, h2]
    rw [hF] at hp1
    rw [hoff, hend, hF, hp1]
    simp only []
    rw [hp2]

/-- the types `unpackResourceBody` has a case for -/
def knownTypes : List Nat := [1, 2, 5, 6, 12, 15, 16, 28, 33, 41, 64, 65]

/-- Well-formed resource body: canonical names, integer fields within their Go types,
fixed-size addresses, unknown bodies only under types without a dedicated decoder.
(String, value and key-order limits are checked by the packer itself.) -/
def WFBody : Body → Prop
  | .a ip => ip.length = 4
  | .aaaa ip => ip.length = 16
  | .ns n => Canonical n
  | .cname n => Canonical n
  | .ptr n => Canonical n
  | .mx pref n => pref < 65536 ∧ Canonical n
  | .txt _ => True
  | .soa ns mbox a b c d e => Canonical ns ∧ Canonical mbox ∧ a < 4294967296 ∧ b < 4294967296 ∧
      c < 4294967296 ∧ d < 4294967296 ∧ e < 4294967296
  | .srv p w port t => p < 65536 ∧ w < 65536 ∧ port < 65536 ∧ Canonical t
  | .opt opts => WFPairs16 opts
  | .svcb p t ps => p < 65536 ∧ Canonical t ∧ WFPairs16 ps
  | .https p t ps => p < 65536 ∧ Canonical t ∧ WFPairs16 ps
  | .unknown t _ => t < 65536 ∧ t ∉ knownTypes

theorem packBody_name_spec (msg bb n : Bytes) (comp comp' : Option CompMap) (mk : Bytes → Body) (typ : Nat)
    (hinv : CompInvOpt msg comp) (hc : Canonical n)
    (hp : packName n msg.length comp = .ok (bb, comp'))
    (hun : ∀ F off len, unpackBody F off typ len = (nameOnly F off).map mk) :
    comp'.isNone = comp.isNone ∧ CompInvOpt (msg ++ bb) comp' ∧
    ∀ post, Agrees comp.isNone (unpackBody (msg ++ bb ++ post) msg.length typ bb.length) (mk n) := by
  rcases packName_spec msg n bb comp comp' hinv hc hp with ⟨h1, h2, h3⟩
  refine ⟨h1, h2, fun post => ?_⟩
  rw [hun]
  exact (nameOnly_of_agrees (h3 post)).map mk

/-- **Every resource body**: `ResourceBody.pack` at the end of `msg`, then `unpackResourceBody`
with the packed length, gives the body back. -/
theorem packBody_spec (msg bb : Bytes) (b : Body) (comp comp' : Option CompMap)
    (hinv : CompInvOpt msg comp) (hwf : WFBody b)
    (hp : packBody b msg.length comp = .ok (bb, comp')) :
    comp'.isNone = comp.isNone ∧ CompInvOpt (msg ++ bb) comp' ∧
    ∀ post, Agrees comp.isNone (unpackBody (msg ++ bb ++ post) msg.length b.realType bb.length) b := by
  cases b with
  | a ip =>
    simp only [packBody, Except.ok.injEq, Prod.mk.injEq] at hp
    rcases hp with ⟨rfl, rfl⟩
    refine ⟨rfl, hinv.append _, fun post => Or.inl ?_⟩
    have := bytesAt_append msg ip post
    simp only [WFBody] at hwf
    rw [hwf] at this
    simp only [unpackBody, Body.realType, typeA, Nat.reduceEqDiff, reduceIte, hwf]
    rw [this]; rfl
  | aaaa ip =>
    simp only [packBody, Except.ok.injEq, Prod.mk.injEq] at hp
    rcases hp with ⟨rfl, rfl⟩
    refine ⟨rfl, hinv.append _, fun post => Or.inl ?_⟩
    have := bytesAt_append msg ip post
    simp only [WFBody] at hwf
    rw [hwf] at this
    simp only [unpackBody, Body.realType, typeAAAA, Nat.reduceEqDiff, reduceIte, hwf]
    rw [this]; rfl
  | ns n =>
    exact packBody_name_spec msg bb n comp comp' Body.ns 2 hinv hwf (by simpa [packBody] using hp)
      (by intro F off len; simp [unpackBody])
  | cname n =>
    exact packBody_name_spec msg bb n comp comp' Body.cname 5 hinv hwf (by simpa [packBody] using hp)
      (by intro F off len; simp [unpackBody])
  | ptr n =>
    exact packBody_name_spec msg bb n comp comp' Body.ptr 12 hinv hwf (by simpa [packBody] using hp)
      (by intro F off len; simp [unpackBody])
  | mx pref n =>
    simp only [packBody] at hp
    have hpos : msg.length + 2 = (msg ++ u16 pref).length := by simp [u16]
    rw [hpos] at hp
    cases hn : packName n (msg ++ u16 pref).length comp with
    | error e => rw [hn] at hp; simp at hp
    | ok res =>
      rcases res with ⟨nb, c1⟩
      rw [hn] at hp
      simp only [Except.ok.injEq, Prod.mk.injEq] at hp
      rcases hp with ⟨rfl, rfl⟩
      rcases packName_spec (msg ++ u16 pref) n nb comp c1 (hinv.append _) hwf.2 hn with ⟨h1, h2, h3⟩
      refine ⟨h1, by simpa [List.append_assoc] using h2, fun post => ?_⟩
      have hF : msg ++ (u16 pref ++ nb) ++ post = msg ++ u16 pref ++ nb ++ post := by simp
      have hu : u16At (msg ++ (u16 pref ++ nb) ++ post) msg.length = .ok (pref, msg.length + 2) :=
        u16At_drop (rest := nb ++ post) (by simp) hwf.1
      have hr := nameOnly_of_agrees (h3 post)
      rw [← hF, ← hpos] at hr
      simp only [unpackBody, Body.realType, typeMX]
      simp only [show ¬ ((15 : Nat) = 1) by decide, show ¬ ((15 : Nat) = 2) by decide,
        show ¬ ((15 : Nat) = 5) by decide, show ¬ ((15 : Nat) = 6) by decide,
        show ¬ ((15 : Nat) = 12) by decide, if_false, if_true, hu]
      exact hr.map (Body.mx pref)
  | txt ss =>
    simp only [packBody] at hp
    cases ht : packTexts ss with
    | error e => rw [ht] at hp; simp at hp
    | ok bs =>
      rw [ht] at hp
      simp only [Except.ok.injEq, Prod.mk.injEq] at hp
      rcases hp with ⟨rfl, rfl⟩
      refine ⟨rfl, hinv.append _, fun post => Or.inl ?_⟩
      have := txtLoop_spec ss bs ht msg post 0 bs.length (bs.length + 1) (by simp)
        (by have := packTexts_length ss bs ht; omega)
      simp only [unpackBody, Body.realType, typeTXT, Nat.reduceEqDiff, reduceIte]
      rw [this]; rfl
  | soa ns mbox a b c d e =>
    rcases hwf with ⟨hc1, hc2, ha, hb, hcc, hd, he⟩
    simp only [packBody] at hp
    cases hn1 : packName ns msg.length comp with
    | error e => rw [hn1] at hp; simp at hp
    | ok res1 =>
      rcases res1 with ⟨b1, c1⟩
      rw [hn1] at hp
      simp only [] at hp
      have hpos : msg.length + b1.length = (msg ++ b1).length := by simp
      rw [hpos] at hp
      cases hn2 : packName mbox (msg ++ b1).length c1 with
      | error e => rw [hn2] at hp; simp at hp
      | ok res2 =>
        rcases res2 with ⟨b2, c2⟩
        rw [hn2] at hp
        simp only [Except.ok.injEq, Prod.mk.injEq] at hp
        rcases hp with ⟨rfl, rfl⟩
        rcases packName_spec msg ns b1 comp c1 hinv hc1 hn1 with ⟨g1, g2, g3⟩
        rcases packName_spec (msg ++ b1) mbox b2 c1 c2 g2 hc2 hn2 with ⟨k1, k2, k3⟩
        refine ⟨by rw [k1, g1], ?_, fun post => ?_⟩
        · have := k2.append (u32 a ++ u32 b ++ u32 c ++ u32 d ++ u32 e)
          simpa [List.append_assoc] using this
        · rw [g1] at k3
          have hF : msg ++ (b1 ++ b2 ++ u32 a ++ u32 b ++ u32 c ++ u32 d ++ u32 e) ++ post =
              msg ++ b1 ++ (b2 ++ u32 a ++ u32 b ++ u32 c ++ u32 d ++ u32 e ++ post) := by simp
          have hF2 : msg ++ (b1 ++ b2 ++ u32 a ++ u32 b ++ u32 c ++ u32 d ++ u32 e) ++ post =
              msg ++ b1 ++ b2 ++ (u32 a ++ u32 b ++ u32 c ++ u32 d ++ u32 e ++ post) := by simp
          have r1 := g3 (b2 ++ u32 a ++ u32 b ++ u32 c ++ u32 d ++ u32 e ++ post)
          have r2 := k3 (u32 a ++ u32 b ++ u32 c ++ u32 d ++ u32 e ++ post)
          rw [← hF] at r1
          rw [← hF2, ← hpos] at r2
          simp only [unpackBody, Body.realType, typeSOA]
          simp only [show ¬ ((6 : Nat) = 1) by decide, show ¬ ((6 : Nat) = 2) by decide,
            show ¬ ((6 : Nat) = 5) by decide, if_false, if_true]
          rcases r1 with r1 | ⟨hs, r1⟩
          · rcases r2 with r2 | ⟨hs, r2⟩
            · left
              have u1 : u32At (msg ++ (b1 ++ b2 ++ u32 a ++ u32 b ++ u32 c ++ u32 d ++ u32 e) ++ post)
                  (msg.length + b1.length + b2.length) = .ok (a, msg.length + b1.length + b2.length + 4) :=
                u32At_drop (rest := u32 b ++ u32 c ++ u32 d ++ u32 e ++ post) (by simp [Nat.add_assoc]) ha
              have u2 : u32At (msg ++ (b1 ++ b2 ++ u32 a ++ u32 b ++ u32 c ++ u32 d ++ u32 e) ++ post)
                  (msg.length + b1.length + b2.length + 4) = .ok (b, msg.length + b1.length + b2.length + 4 + 4) :=
                u32At_drop (rest := u32 c ++ u32 d ++ u32 e ++ post) (by simp [Nat.add_assoc, u32]) hb
              have u3 : u32At (msg ++ (b1 ++ b2 ++ u32 a ++ u32 b ++ u32 c ++ u32 d ++ u32 e) ++ post)
                  (msg.length + b1.length + b2.length + 4 + 4) = .ok (c, msg.length + b1.length + b2.length + 4 + 4 + 4) :=
                u32At_drop (rest := u32 d ++ u32 e ++ post) (by simp [Nat.add_assoc, u32]) hcc
              have u4 : u32At (msg ++ (b1 ++ b2 ++ u32 a ++ u32 b ++ u32 c ++ u32 d ++ u32 e) ++ post)
                  (msg.length + b1.length + b2.length + 4 + 4 + 4) = .ok (d, msg.length + b1.length + b2.length + 4 + 4 + 4 + 4) :=
                u32At_drop (rest := u32 e ++ post) (by simp [Nat.add_assoc, u32]) hd
              have u5 : u32At (msg ++ (b1 ++ b2 ++ u32 a ++ u32 b ++ u32 c ++ u32 d ++ u32 e) ++ post)
                  (msg.length + b1.length + b2.length + 4 + 4 + 4 + 4) = .ok (e, msg.length + b1.length + b2.length + 4 + 4 + 4 + 4 + 4) :=
                u32At_drop (rest := post) (by simp [Nat.add_assoc, u32]) he
              simp only [r1, r2, u1, u2, u3, u4, u5]
            · right; exact ⟨hs, by simp only [r1, r2]⟩
          · right; exact ⟨hs, by simp only [r1]⟩
  | srv p w port t =>
    rcases hwf with ⟨hp1, hw1, hport, hc⟩
    simp only [packBody] at hp
    rcases name_roundtrip_nocomp t (msg.length + 6) hc with ⟨tb, htp, htu⟩
    rw [htp] at hp
    simp only [Except.ok.injEq, Prod.mk.injEq] at hp
    rcases hp with ⟨rfl, rfl⟩
    refine ⟨rfl, hinv.append _, fun post => Or.inl ?_⟩
    have u1 : u16At (msg ++ (u16 p ++ u16 w ++ u16 port ++ tb) ++ post) msg.length = .ok (p, msg.length + 2) :=
      u16At_drop (rest := u16 w ++ u16 port ++ tb ++ post) (by simp) hp1
    have u2 : u16At (msg ++ (u16 p ++ u16 w ++ u16 port ++ tb) ++ post) (msg.length + 2) = .ok (w, msg.length + 2 + 2) :=
      u16At_drop (rest := u16 port ++ tb ++ post) (by simp [u16]) hw1
    have u3 : u16At (msg ++ (u16 p ++ u16 w ++ u16 port ++ tb) ++ post) (msg.length + 2 + 2) = .ok (port, msg.length + 2 + 2 + 2) :=
      u16At_drop (rest := tb ++ post) (by simp [u16, Nat.add_assoc]) hport
    have hn : unpackName (msg ++ (u16 p ++ u16 w ++ u16 port ++ tb) ++ post) (msg.length + 2 + 2 + 2) =
        .ok (t, msg.length + 2 + 2 + 2 + tb.length) := by
      have := htu (msg ++ u16 p ++ u16 w ++ u16 port) post
      simpa [u16, List.append_assoc, Nat.add_assoc] using this
    simp only [unpackBody, Body.realType, typeSRV]
    simp only [show ¬ ((33 : Nat) = 1) by decide, show ¬ ((33 : Nat) = 2) by decide,
      show ¬ ((33 : Nat) = 5) by decide, show ¬ ((33 : Nat) = 6) by decide, show ¬ ((33 : Nat) = 12) by decide,
      show ¬ ((33 : Nat) = 15) by decide, show ¬ ((33 : Nat) = 16) by decide, show ¬ ((33 : Nat) = 28) by decide,
      if_false, if_true, u1, u2, u3, nameOnly, hn]
    rfl
  | opt opts =>
    simp only [packBody, Except.ok.injEq, Prod.mk.injEq] at hp
    rcases hp with ⟨rfl, rfl⟩
    refine ⟨rfl, hinv.append _, fun post => Or.inl ?_⟩
    have := optLoop_spec opts hwf msg post ((msg ++ packOpts opts ++ post).length + 1)
      (by have := packOpts_length opts; simp; omega)
    simp only [unpackBody, Body.realType, typeOPT, Nat.reduceEqDiff, reduceIte]
    rw [this]; rfl
  | svcb p t ps =>
    rcases hwf with ⟨hp1, hc, hps⟩
    simp only [packBody] at hp
    cases hs : packSVCB p t ps with
    | error e => rw [hs] at hp; simp at hp
    | ok bs =>
      rw [hs] at hp
      simp only [Except.ok.injEq, Prod.mk.injEq] at hp
      rcases hp with ⟨rfl, rfl⟩
      refine ⟨rfl, hinv.append _, fun post => Or.inl ?_⟩
      have := svcb_spec msg bs p t ps hp1 hc hps hs post
      simp only [unpackBody, Body.realType, typeSVCB, Nat.reduceEqDiff, reduceIte]
      rw [this]; rfl
  | https p t ps =>
    rcases hwf with ⟨hp1, hc, hps⟩
    simp only [packBody] at hp
    cases hs : packSVCB p t ps with
    | error e => rw [hs] at hp; simp at hp
    | ok bs =>
      rw [hs] at hp
      simp only [Except.ok.injEq, Prod.mk.injEq] at hp
      rcases hp with ⟨rfl, rfl⟩
      refine ⟨rfl, hinv.append _, fun post => Or.inl ?_⟩
      have := svcb_spec msg bs p t ps hp1 hc hps hs post
      simp only [unpackBody, Body.realType, typeHTTPS, Nat.reduceEqDiff, reduceIte]
      rw [this]; rfl
  | unknown t data =>
    simp only [packBody, Except.ok.injEq, Prod.mk.injEq] at hp
    rcases hp with ⟨rfl, rfl⟩
    refine ⟨rfl, hinv.append _, fun post => Or.inl ?_⟩
    have := bytesAt_append msg data post
    simp only [WFBody, knownTypes] at hwf
    have hk := hwf.2
    simp only [List.mem_cons, List.not_mem_nil, or_false, not_or] at hk
    rcases hk with ⟨k1, k2, k3, k4, k5, k6, k7, k8, k9, k10, k11, k12⟩
    simp only [unpackBody, Body.realType, k1, k2, k3, k4, k5, k6, k7, k8, k9, k10, k11, k12, if_false, this]
    rfl

end NetVerif.Proofs.DnsMsg
