import NetVerif.Model.H3Conn
/-!
Safety invariant of the repaired HTTP/3 stream code (C33 allocation bound, C35 no panic):
starting from a live stream whose recorded allocations are bounded, every modelled operation
ends without a Go panic, in a live stream whose recorded allocations are bounded.
-/
namespace NetVerif.Proofs.H3Safe
open NetVerif.Model.H3Stream NetVerif.Model.Qpack NetVerif.Model.H3Conn

/-- Every recorded allocation `(capacity, bytes of the stream not yet consumed)` is at most twice
the bytes actually available plus the 512-byte initial buffer of `io.ReadAll`. -/
def AllocsBounded (st : St) : Prop := ∀ a ∈ st.allocs, a.1 ≤ 2 * a.2 + 512

def Good (s : St) : Prop := s.dead = false ∧ AllocsBounded s

/-- The outcome is not a panic and leaves a good state. -/
def Safe {α : Type} : Out α → Prop
  | .ok _ s => Good s
  | .err _ s => Good s
  | .panic => False
  | .hang => True

theorem Good.upd {s s' : St} (h : Good s) (hd : s'.dead = false) (ha : s'.allocs = s.allocs) : Good s' := by
  unfold Good AllocsBounded at *; rw [hd, ha]; exact ⟨rfl, h.2⟩

/-- Case analysis on a sub-call whose safety `h` is known: only the `.ok` case remains. -/
macro "ocases " h:ident " : " e:term : tactic =>
  `(tactic| (generalize $e = x at $h:ident ⊢; cases x <;> (try dsimp only at $h:ident ⊢) <;>
      (try (first | exact $h | exact False.elim $h | exact True.intro))))

macro "upd " h:ident : tactic => `(tactic| exact Good.upd $h (by first | rfl | exact ($h).1) rfl)

theorem Safe.bind {α β : Type} {x : Out α} {f : α → St → Out β} (hx : Safe x)
    (hf : ∀ a s, Good s → Safe (f a s)) : Safe (x.bind f) := by
  cases x <;> simp_all [Out.bind, Safe]

theorem safe_qsReadByte (s : St) (h : Good s) : Safe (qsReadByte s) := by
  unfold qsReadByte
  split
  · rename_i hd; rw [h.1] at hd; cases hd
  · split
    · exact h
    · upd h

theorem safe_recordBytesRead (s : St) (n : Nat) (h : Good s) : Safe (recordBytesRead s n) := by
  unfold recordBytesRead
  split
  · exact h
  · split
    · upd h
    · upd h

theorem safe_readByte (s : St) (h : Good s) : Safe (readByte s) := by
  unfold readByte
  have h1 := safe_recordBytesRead s 1 h
  ocases h1 : recordBytesRead s 1
  rename_i a s1
  have h2 := safe_qsReadByte s1 h1
  ocases h2 : qsReadByte s1
  split <;> exact h2

theorem safe_qsRead (s : St) (k : Nat) (h : Good s) :
    ∃ bs eof s1, qsRead s k = some (bs, eof, s1) ∧ Good s1 := by
  unfold qsRead
  split
  · rename_i hd; rw [h.1] at hd; cases hd
  · split
    · exact ⟨_, _, _, rfl, h⟩
    · split
      · exact ⟨_, _, _, rfl, by upd h⟩
      · split
        · exact ⟨_, _, _, rfl, by upd h⟩
        · exact ⟨_, _, _, rfl, by upd h⟩

theorem safe_read (s : St) (k : Nat) (h : Good s) : Safe (NetVerif.Model.H3Stream.read s k) := by
  unfold NetVerif.Model.H3Stream.read
  obtain ⟨bs, eof, s1, hq, h1⟩ := safe_qsRead s k h
  rw [hq]
  simp only
  have h2 := safe_recordBytesRead s1 bs.length h1
  ocases h2 : recordBytesRead s1 bs.length
  rename_i a_ s_
  repeat' split
  all_goals exact h2

theorem safe_readFullAux : ∀ (fuel : Nat) (s : St) (want : Nat) (acc : List Nat), Good s →
    Safe (readFullAux fuel s want acc) := by
  intro fuel
  induction fuel with
  | zero => intro s want acc _; simp [readFullAux, Safe]
  | succ f ih =>
    intro s want acc h
    unfold readFullAux
    split
    · exact h
    · have h1 := safe_read s want h
      ocases h1 : NetVerif.Model.H3Stream.read s want
      rename_i a_ s_
      repeat' split
      all_goals (first | exact h1 | exact ih _ _ _ h1)

theorem safe_readFull (s : St) (n : Nat) (h : Good s) : Safe (readFull s n) :=
  safe_readFullAux _ s n [] h

theorem safe_qsReadBE : ∀ (k v : Nat) (s : St), Good s → Safe (qsReadBE k v s) := by
  intro k
  induction k with
  | zero => intro v s h; exact h
  | succ k ih =>
    intro v s h
    unfold qsReadBE
    have h1 := safe_qsReadByte s h
    ocases h1 : qsReadByte s
    rename_i a_ s_
    exact ih _ _ h1

theorem safe_readVarint (s : St) (h : Good s) : Safe (readVarint s) := by
  unfold readVarint
  have h1 := safe_qsReadByte s h
  ocases h1 : qsReadByte s
  rename_i b s1
  have h2 := safe_qsReadBE (2 ^ (b / 64) - 1) (b % 64) s1 h1
  ocases h2 : qsReadBE (2 ^ (b / 64) - 1) (b % 64) s1
  rename_i v s2
  have h3 := safe_recordBytesRead s2 (2 ^ (b / 64)) h2
  ocases h3 : recordBytesRead s2 (2 ^ (b / 64))

theorem safe_readFrameHeader (s : St) (h : Good s) : Safe (readFrameHeader s) := by
  unfold readFrameHeader
  split
  · exact h
  · refine Safe.bind (safe_readVarint s h) ?_
    intro ft s1 h1
    have h2 := safe_readVarint s1 h1
    generalize readVarint s1 = x at h2 ⊢
    cases x with
    | ok size s2 => show Good _; upd h2
    | err e s2 => dsimp only; split <;> exact h2
    | panic => exact False.elim h2
    | hang => exact True.intro

theorem safe_endFrame (s : St) (h : Good s) : Safe (endFrame s) := by
  unfold endFrame
  split
  · exact h
  · show Good _; upd h

theorem safe_discardLoop : ∀ (k : Nat) (s : St), Good s → Safe (discardLoop k s) := by
  intro k
  induction k with
  | zero => intro s h; exact h
  | succ k ih =>
    intro s h
    unfold discardLoop
    have h1 := safe_qsReadByte s h
    ocases h1 : qsReadByte s
    rename_i a_ s_
    exact ih _ h1

theorem safe_discardFrame (s : St) (h : Good s) : Safe (discardFrame s) := by
  unfold discardFrame
  refine Safe.bind (safe_discardLoop _ s h) ?_
  intro _ s1 h1
  show Good _
  upd h1

theorem safe_discardUnknownFrame (s : St) (ft : Nat) (h : Good s) : Safe (discardUnknownFrame s ft) := by
  unfold discardUnknownFrame
  split
  · exact h
  · exact safe_discardFrame s h

/-! ### settings.go -/

theorem safe_settingsLoop : ∀ (fuel : Nat) (s : St) (acc : List (Nat × Nat)), Good s →
    Safe (settingsLoop fuel s acc) := by
  intro fuel
  induction fuel with
  | zero => intro s acc _; exact True.intro
  | succ f ih =>
    intro s acc h
    unfold settingsLoop
    split
    · refine Safe.bind (safe_readVarint s h) ?_
      intro t s1 h1
      refine Safe.bind (safe_readVarint s1 h1) ?_
      intro v s2 h2
      split
      · exact h2
      · exact ih _ _ h2
    · refine Safe.bind (safe_endFrame s h) ?_
      intro _ s1 h1
      exact h1

theorem safe_readSettings (s : St) (h : Good s) : Safe (readSettings s) := by
  unfold readSettings
  have h1 := safe_readFrameHeader s h
  ocases h1 : readFrameHeader s
  rename_i ft s1
  split
  · exact h1
  · exact safe_settingsLoop _ _ _ h1

/-! ### qpack.go / qpack_decode.go -/

theorem safe_readUvarintAux : ∀ (k x m : Nat) (s : St), Good s → Safe (readUvarintAux k x m s) := by
  intro k
  induction k with
  | zero => intro x m s h; exact h
  | succ k ih =>
    intro x m s h
    unfold readUvarintAux
    have h1 := safe_readByte s h
    ocases h1 : readByte s
    rename_i b s1
    repeat' split
    all_goals (first | exact h1 | exact ih _ _ _ h1)

theorem safe_readPrefixedIntWithByte (s : St) (first p : Nat) (h : Good s) :
    Safe (readPrefixedIntWithByte s first p) := by
  unfold readPrefixedIntWithByte
  simp only
  split
  · exact h
  · have h1 := safe_readUvarintAux 10 0 1 s h
    unfold readUvarint
    ocases h1 : readUvarintAux 10 0 1 s
    split <;> exact h1

theorem safe_readPrefixedInt (s : St) (p : Nat) (h : Good s) : Safe (readPrefixedInt s p) := by
  unfold readPrefixedInt
  have h1 := safe_readByte s h
  ocases h1 : readByte s
  rename_i b s1
  refine Safe.bind (safe_readPrefixedIntWithByte s1 b p h1) ?_
  intro v s2 h2
  exact h2

/-- The one place that records an allocation: its capacity bound is covered by the bytes present. -/
theorem safe_readPrefixedStringWithByte (H : Huff) (s : St) (first p : Nat) (h : Good s) :
    Safe (readPrefixedStringWithByte H s first p) := by
  unfold readPrefixedStringWithByte
  have h1 := safe_readPrefixedIntWithByte s first p h
  ocases h1 : readPrefixedIntWithByte s first p
  rename_i size s1
  split
  · exact h1
  · have hg : Good { s1 with allocs := (2 * min size s1.data.length + 512, s1.data.length) :: s1.allocs } := by
      refine ⟨h1.1, ?_⟩
      intro a ha
      simp only [List.mem_cons] at ha
      rcases ha with rfl | ha
      · simp only; have := Nat.min_le_right size s1.data.length; omega
      · exact h1.2 a ha
    have h2 := safe_readFull _ size hg
    ocases h2 : readFull { s1 with allocs := (2 * min size s1.data.length + 512, s1.data.length) :: s1.allocs } size
    repeat' split
    all_goals exact h2

theorem safe_readPrefixedString (H : Huff) (s : St) (p : Nat) (h : Good s) : Safe (readPrefixedString H s p) := by
  unfold readPrefixedString
  have h1 := safe_readByte s h
  ocases h1 : readByte s
  rename_i b s1
  refine Safe.bind (safe_readPrefixedStringWithByte H s1 b p h1) ?_
  intro v s2 h2
  exact h2

theorem safe_decodeFieldLine (H : Huff) (tbl : List (List Nat × List Nat)) (s : St) (b : Nat) (h : Good s) :
    Safe (decodeFieldLine H tbl s b) := by
  unfold decodeFieldLine
  repeat' split
  · unfold decodeIndexedFieldLine
    refine Safe.bind (safe_readPrefixedIntWithByte s b 6 h) ?_
    intro i s1 h1
    repeat' split
    all_goals exact h1
  · unfold decodeLiteralNameRef
    refine Safe.bind (safe_readPrefixedIntWithByte s b 4 h) ?_
    intro i s1 h1
    repeat' split
    · refine Safe.bind (safe_readPrefixedString H s1 7 h1) ?_
      intro r s2 h2
      exact h2
    all_goals exact h1
  · unfold decodeLiteralLiteralName
    refine Safe.bind (safe_readPrefixedStringWithByte H s b 3 h) ?_
    intro n s1 h1
    refine Safe.bind (safe_readPrefixedString H s1 7 h1) ?_
    intro r s2 h2
    exact h2
  · exact h
  · exact h

theorem safe_decodeLoop (H : Huff) (tbl : List (List Nat × List Nat)) :
    ∀ (fuel : Nat) (s : St) (saw : Bool) (acc : List Field), Good s →
    Safe (decodeLoop H tbl fuel s saw acc).final := by
  intro fuel
  induction fuel with
  | zero => intro s saw acc _; exact True.intro
  | succ f ih =>
    intro s saw acc h
    unfold decodeLoop
    split
    · have h1 := safe_readByte s h
      ocases h1 : readByte s
      rename_i b s1
      have h2 := safe_decodeFieldLine H tbl s1 b h1
      ocases h2 : decodeFieldLine H tbl s1 b
      rename_i fl s2
      repeat' split
      all_goals (first | exact h2 | exact ih _ _ _ h2)
    · exact h

theorem safe_decode (H : Huff) (tbl : List (List Nat × List Nat)) (s : St) (h : Good s) :
    Safe (decode H tbl s).final := by
  unfold decode
  have h1 := safe_readPrefixedInt s 8 h
  ocases h1 : readPrefixedInt s 8
  rename_i r s1
  split
  · exact h1
  · have h2 := safe_readPrefixedInt s1 7 h1
    ocases h2 : readPrefixedInt s1 7
    rename_i r2 s2
    exact safe_decodeLoop H tbl _ _ _ _ h2

/-! ### body.go -/

def SafeB : BRes → Prop
  | .done _ _ _ s => Good s
  | .panic => False
  | .hang => True

def SafeNext : Option BRes × St → Prop
  | (some r, _) => SafeB r
  | (none, s) => Good s

theorem safe_bodyNextFrame (H : Huff) (tbl : List (List Nat × List Nat)) (b : Body) :
    ∀ (fuel : Nat) (s : St), Good s → SafeNext (bodyNextFrame H tbl b fuel s) := by
  intro fuel
  induction fuel with
  | zero => intro s _; exact True.intro
  | succ f ih =>
    intro s h
    unfold bodyNextFrame
    split
    · have h1 := safe_readFrameHeader s h
      ocases h1 : readFrameHeader s
      · rename_i ft s1
        split
        · split
          · exact h1
          · exact h1
        · split
          · split
            · exact h1
            · have h2 := safe_decode H tbl s1 h1
              ocases h2 : (decode H tbl s1).final
              rename_i u s2
              have h3 := safe_discardFrame s2 h2
              ocases h3 : discardFrame s2
          · have h2 := safe_discardUnknownFrame s1 ft h1
            ocases h2 : discardUnknownFrame s1 ft
            exact ih _ h2
      · rename_i e s1
        split <;> exact h1
    · exact h

theorem safe_afterEnd (b : Body) (s : St) (h : Good s) :
    SafeNext (if s.lim = 0 then
        match endFrame s with
        | .ok _ s1 => (none, s1)
        | .err e s1 => (some (bodyFail b s1 e), s1)
        | .panic => (some .panic, s)
        | .hang => (some .hang, s)
      else (none, s)) := by
  split
  · have h1 := safe_endFrame s h
    generalize endFrame s = x at h1 ⊢
    cases x
    · exact h1
    · exact h1
    · exact False.elim h1
    · exact True.intro
  · exact h

theorem safe_bodyTail (b : Body) (s2 : St) (k' : Nat) (h2 : Good s2) :
    SafeB (match NetVerif.Model.H3Stream.read s2 k' with
        | .ok (bs, eof) s3 =>
          let b' : Body := { b with remain := if b.remain > 0 then b.remain - bs.length else b.remain }
          if eof then .done bs (some .eof) { b' with err := some .eof } s3 else .done bs none b' s3
        | .err e s3 => .done [] (some e) { b with err := some e } s3
        | .panic => .panic
        | .hang => .hang) := by
  have h3 := safe_read s2 k' h2
  generalize NetVerif.Model.H3Stream.read s2 k' = x at h3 ⊢
  cases x with
  | ok r s3 => obtain ⟨bs, eof⟩ := r; dsimp only; split <;> exact h3
  | err e s3 => exact h3
  | panic => exact False.elim h3
  | hang => exact True.intro

theorem safe_bodyRead (H : Huff) (tbl : List (List Nat × List Nat)) (b : Body) (s : St) (k : Nat) (h : Good s) :
    SafeB (bodyRead H tbl b s k) := by
  unfold bodyRead
  split
  · exact h
  · dsimp only
    have hae := safe_afterEnd b s h
    split
    · rename_i r s' heq
      show SafeNext (some r, s')
      rw [← heq]; exact hae
    · rename_i s1 heq
      have h1 : Good s1 := by
        show SafeNext (none, s1)
        rw [← heq]; exact hae
      have hn := safe_bodyNextFrame H tbl b (s1.data.length + 2) s1 h1
      split
      · rename_i r s' heq2
        rw [heq2] at hn; exact hn
      · rename_i s2 heq2
        rw [heq2] at hn
        exact safe_bodyTail b s2 _ hn

theorem safe_bodyDrain (H : Huff) (tbl : List (List Nat × List Nat)) (k : Nat) :
    ∀ (fuel : Nat) (b : Body) (s : St) (acc : List Nat), Good s → Safe (bodyDrain H tbl k fuel b s acc).2 := by
  intro fuel
  induction fuel with
  | zero => intro b s acc _; exact True.intro
  | succ f ih =>
    intro b s acc h
    unfold bodyDrain
    have h1 := safe_bodyRead H tbl b s k h
    revert h1
    cases bodyRead H tbl b s k with
    | done bs e b' s' =>
      intro h1
      have h1 : Good s' := h1
      cases e with
      | none => exact ih _ _ _ h1
      | some e => cases e <;> exact h1
    | panic => intro h1; exact False.elim h1
    | hang => intro _; exact True.intro

/-! ### conn.go -/

theorem safe_requestHandler (H : Huff) (tbl : List (List Nat × List Nat)) (k : Nat) (s : St) (h : Good s) :
    Safe (requestHandler H tbl k s).2 := by
  unfold requestHandler
  have h1 := safe_readFrameHeader s h
  ocases h1 : readFrameHeader s
  rename_i ft s1
  split
  · exact h1
  · have h2 := safe_decode H tbl s1 h1
    ocases h2 : (decode H tbl s1).final
    rename_i u s2
    have h3 := safe_endFrame s2 h2
    ocases h3 : endFrame s2
    rename_i u3 s3
    exact safe_bodyDrain H tbl k _ _ _ _ h3

theorem finish_no_panic (o : Out Unit) (h : Safe o) : finish o ≠ .panic := by
  unfold finish handleStreamError
  cases o with
  | ok a s => have := h.1; simp [this]
  | err e s => have := h.1; cases e <;> simp [this]
  | panic => exact False.elim h
  | hang => simp

theorem good_fresh (data : List Nat) : Good (St.fresh data) := ⟨rfl, by intro a ha; cases ha⟩

theorem safe_controlLoop : ∀ (fuel : Nat) (s : St), Good s → Safe (controlLoop fuel s) := by
  intro fuel
  induction fuel with
  | zero => intro s _; exact True.intro
  | succ f ih =>
    intro s h
    unfold controlLoop
    have h1 := safe_readFrameHeader s h
    ocases h1 : readFrameHeader s
    rename_i ft s1
    split
    · exact h1
    · split
      · exact h1
      · have h2 := safe_discardUnknownFrame s1 ft h1
        ocases h2 : discardUnknownFrame s1 ft
        exact ih _ h2

theorem safe_handleControlStream (s : St) (h : Good s) : Safe (handleControlStream s) := by
  unfold handleControlStream
  have h1 := safe_readSettings s h
  ocases h1 : readSettings s
  exact safe_controlLoop _ _ h1

theorem handleUni_no_panic (data : List Nat) : handleUni (St.fresh data) ≠ .panic := by
  unfold handleUni
  have h1 := safe_readVarint (St.fresh data) (good_fresh data)
  revert h1
  cases readVarint (St.fresh data) with
  | ok stype s1 =>
    intro h1
    have h1 : Good s1 := h1
    simp only
    split
    · have h2 := safe_handleControlStream s1 h1
      revert h2
      cases handleControlStream s1 with
      | ok a s2 => intro h2; exact finish_no_panic _ h2
      | err e s2 =>
        intro h2
        have hd : s2.dead = false := (show Good s2 from h2).1
        cases e <;> simp only [finish, handleStreamError, hd] <;> (try split) <;> simp_all
      | panic => intro h2; exact False.elim h2
      | hang => intro _; simp [finish]
    · split
      · simp [handleStreamError]
      · simp [handleStreamError, h1.1]
  | err e s1 => intro _; simp
  | panic => intro h1; exact False.elim h1
  | hang => intro _; simp

end NetVerif.Proofs.H3Safe
