import NetVerif.Model.H3Conn
/-!
Safety invariant of the repaired HTTP/3 stream code (C33 allocation bound, C35 no panic):
starting from a live stream whose recorded allocations are bounded, every modelled operation
ends without a Go panic, in a live stream whose recorded allocations are bounded.
-/
namespace NetVerif.Proofs.H3Safe
open NetVerif.Model.H3Stream NetVerif.Model.Qpack NetVerif.Model.H3Conn

/-- Every recorded allocation `(capacity, bytes of the stream not yet consumed)` is at most twice
the bytes actually available plus the 512-byte initial buffer of `io.ReadAll`. -/
def AllocsBounded (st : St) : Prop := ∀ a ∈ st.allocs, a.1 ≤ 2 * a.2 + 512

def Good (s : St) : Prop := s.dead = false ∧ AllocsBounded s

/-- The outcome is not a panic and leaves a good state. -/
def Safe {α : Type} : Out α → Prop
  | .ok _ s => Good s
  | .err _ s => Good s
  | .panic => False
  | .hang => True

theorem Good.upd {s s' : St} (h : Good s) (hd : s'.dead = s.dead) (ha : s'.allocs = s.allocs) : Good s' := by
  unfold Good AllocsBounded at *; rw [hd, ha]; exact h

theorem Safe.bind {α β : Type} {x : Out α} {f : α → St → Out β} (hx : Safe x)
    (hf : ∀ a s, Good s → Safe (f a s)) : Safe (x.bind f) := by
  cases x <;> simp_all [Out.bind, Safe]

theorem safe_qsReadByte (s : St) (h : Good s) : Safe (qsReadByte s) := by
  unfold qsReadByte
  simp only [h.1, Bool.false_eq_true, if_false]
  split
  · exact h
  · exact h.upd rfl rfl

theorem safe_recordBytesRead (s : St) (n : Nat) (h : Good s) : Safe (recordBytesRead s n) := by
  unfold recordBytesRead
  split
  · exact h
  · split
    · exact h.upd rfl rfl
    · exact h.upd rfl rfl

theorem safe_readByte (s : St) (h : Good s) : Safe (readByte s) := by
  unfold readByte
  have h1 := safe_recordBytesRead s 1 h
  split <;> simp_all [Safe]
  rename_i s1 _
  have h2 := safe_qsReadByte s1 h1
  split <;> simp_all [Safe]
  split <;> exact h2

theorem safe_qsRead (s : St) (k : Nat) (h : Good s) :
    ∃ bs eof s1, qsRead s k = some (bs, eof, s1) ∧ Good s1 := by
  unfold qsRead
  simp only [h.1, Bool.false_eq_true, if_false]
  split
  · exact ⟨_, _, _, rfl, h⟩
  · split
    · exact ⟨_, _, _, rfl, h.upd rfl rfl⟩
    · split
      · exact ⟨_, _, _, rfl, h.upd rfl rfl⟩
      · exact ⟨_, _, _, rfl, h.upd rfl rfl⟩

theorem safe_read (s : St) (k : Nat) (h : Good s) : Safe (NetVerif.Model.H3Stream.read s k) := by
  unfold NetVerif.Model.H3Stream.read
  obtain ⟨bs, eof, s1, hq, h1⟩ := safe_qsRead s k h
  rw [hq]
  simp only
  have h2 := safe_recordBytesRead s1 bs.length h1
  split <;> simp_all [Safe]
  repeat' split
  all_goals simp_all [Safe]

theorem safe_readFullAux : ∀ (fuel : Nat) (s : St) (want : Nat) (acc : List Nat), Good s →
    Safe (readFullAux fuel s want acc) := by
  intro fuel
  induction fuel with
  | zero => intro s want acc _; simp [readFullAux, Safe]
  | succ f ih =>
    intro s want acc h
    unfold readFullAux
    split
    · exact h
    · have h1 := safe_read s want h
      split <;> simp_all [Safe]
      repeat' split
      all_goals (first | exact h1 | exact ih _ _ _ h1)

theorem safe_readFull (s : St) (n : Nat) (h : Good s) : Safe (readFull s n) :=
  safe_readFullAux _ s n [] h

theorem safe_qsReadBE : ∀ (k v : Nat) (s : St), Good s → Safe (qsReadBE k v s) := by
  intro k
  induction k with
  | zero => intro v s h; exact h
  | succ k ih =>
    intro v s h
    unfold qsReadBE
    have h1 := safe_qsReadByte s h
    split <;> simp_all [Safe]

theorem safe_readVarint (s : St) (h : Good s) : Safe (readVarint s) := by
  unfold readVarint
  have h1 := safe_qsReadByte s h
  split <;> simp_all [Safe]
  rename_i b s1 _
  have h2 := safe_qsReadBE (2 ^ (b / 64) - 1) (b % 64) s1 h1
  split <;> simp_all [Safe]
  rename_i v s2 _
  have h3 := safe_recordBytesRead s2 (2 ^ (b / 64)) h2
  split <;> simp_all [Safe]

theorem safe_readFrameHeader (s : St) (h : Good s) : Safe (readFrameHeader s) := by
  unfold readFrameHeader
  split
  · exact h
  · refine Safe.bind (safe_readVarint s h) ?_
    intro ft s1 h1
    refine Safe.bind (safe_readVarint s1 h1) ?_
    intro size s2 h2
    exact h2.upd rfl rfl

theorem safe_endFrame (s : St) (h : Good s) : Safe (endFrame s) := by
  unfold endFrame
  split
  · exact h
  · exact h.upd rfl rfl

theorem safe_discardLoop : ∀ (k : Nat) (s : St), Good s → Safe (discardLoop k s) := by
  intro k
  induction k with
  | zero => intro s h; exact h
  | succ k ih =>
    intro s h
    unfold discardLoop
    have h1 := safe_qsReadByte s h
    split <;> simp_all [Safe]

theorem safe_discardFrame (s : St) (h : Good s) : Safe (discardFrame s) := by
  unfold discardFrame
  refine Safe.bind (safe_discardLoop _ s h) ?_
  intro _ s1 h1
  exact h1.upd rfl rfl

theorem safe_discardUnknownFrame (s : St) (ft : Nat) (h : Good s) : Safe (discardUnknownFrame s ft) := by
  unfold discardUnknownFrame
  split
  · exact h
  · exact safe_discardFrame s h

end NetVerif.Proofs.H3Safe
