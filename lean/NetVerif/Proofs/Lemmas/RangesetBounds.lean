import NetVerif.Model.Rangeset
/-! Element-wise bounds through `rangeset.add` / `rangeset.sub` (no well-formedness needed):
if every stored range satisfies `s ≤ e`, `s ≤ M`, `e ≤ B`, so does every range after the operation. -/
namespace NetVerif.Proofs.Lemmas.RangesetBounds
open NetVerif.Model.Rangeset

def RP (M B : Int) (r : Rg) : Prop := r.s ≤ r.e ∧ r.s ≤ M ∧ r.e ≤ B
def AllRP (M B : Int) (l : RS) : Prop := ∀ r ∈ l, RP M B r

theorem allRP_mono {M B M' B' : Int} {l : RS} (h : AllRP M B l) (hM : M ≤ M') (hB : B ≤ B') : AllRP M' B' l := by
  intro r hr; have := h r hr; unfold RP at *; omega

theorem allRP_nil (M B : Int) : AllRP M B [] := by intro r hr; cases hr

theorem allRP_cons {M B : Int} {r : Rg} {l : RS} : AllRP M B (r :: l) ↔ RP M B r ∧ AllRP M B l := by
  unfold AllRP; simp

theorem mem_removeranges {l : RS} {i j : Nat} {x : Rg} (h : x ∈ removeranges l i j) : x ∈ l := by
  unfold removeranges at h
  split at h
  · exact h
  · rcases List.mem_append.1 h with h | h
    · exact List.mem_of_mem_take h
    · exact List.mem_of_mem_drop h

theorem coalesce_bounds (rest : List Rg) : ∀ (e B : Int), (∀ r ∈ rest, r.e ≤ B) → e ≤ B →
    (coalesce e rest).1 ≤ B ∧ e ≤ (coalesce e rest).1 := by
  induction rest with
  | nil => intro e B _ he; simp [coalesce]; exact he
  | cons r rest ih =>
    intro e B hall he
    unfold coalesce
    by_cases h : e ≥ r.s
    · simp only [h, if_true]
      have hr : r.e ≤ B := hall r (by simp)
      have := ih (if r.e > e then r.e else e) B (fun x hx => hall x (by simp [hx])) (by split <;> omega)
      constructor
      · exact this.1
      · have h2 := this.2; split at h2 <;> omega
    · simp only [h, if_false]; omega

theorem addLoop_rp (M B st en : Int) (hse : st ≤ en) (hM : st ≤ M) (hB : en ≤ B) :
    ∀ l : List Rg, AllRP M B l → AllRP M B (addLoop st en l) := by
  intro l
  induction l with
  | nil => intro _; unfold addLoop; intro r hr; simp at hr; subst hr; exact ⟨hse, hM, hB⟩
  | cons r rest ih =>
    intro hall
    have hr := (allRP_cons.1 hall).1
    have hrest := (allRP_cons.1 hall).2
    unfold addLoop
    by_cases h1 : r.s > en
    · simp only [h1, if_true]
      exact allRP_cons.2 ⟨⟨hse, hM, hB⟩, hall⟩
    · simp only [h1, if_false]
      by_cases h2 : st > r.e
      · simp only [h2, if_true]
        exact allRP_cons.2 ⟨hr, ih hrest⟩
      · simp only [h2, if_false]
        unfold RP at hr
        by_cases h3 : en ≤ r.e
        · simp only [h3, if_true]
          refine allRP_cons.2 ⟨?_, hrest⟩
          unfold RP; simp only []; split <;> omega
        · simp only [h3, if_false]
          have hc := coalesce_bounds rest en B (fun x hx => (hrest x hx).2.2) hB
          intro x hx
          have hx' := mem_removeranges hx
          rcases List.mem_cons.1 hx' with hx' | hx'
          · subst hx'; unfold RP; simp only []; split <;> omega
          · exact hrest x hx'

theorem add_rp {M B st en : Int} {l : RS} (hall : AllRP M B l) (hse : st ≤ en) (hM : st ≤ M) (hB : en ≤ B) :
    AllRP M B (add l st en) := by
  unfold add
  split
  · exact hall
  · exact addLoop_rp M B st en hse hM hB l hall

theorem subLoop_rp (M B st en : Int) (hM : en ≤ M) :
    ∀ (l : List Rg) (i : Nat) (rf : Option Nat) (rt : Nat), AllRP M B l → AllRP M B (subLoop st en l i rf rt).l := by
  intro l
  induction l with
  | nil => intro i rf rt _; unfold subLoop; exact allRP_nil M B
  | cons r rest ih =>
    intro i rf rt hall
    have hr := (allRP_cons.1 hall).1
    have hrest := (allRP_cons.1 hall).2
    unfold RP at hr
    unfold subLoop
    by_cases h1 : en < r.s
    · simp only [h1, if_true]; exact hall
    · simp only [h1, if_false]
      by_cases h2 : r.e < st
      · simp only [h2, if_true]
        exact allRP_cons.2 ⟨hr, ih _ _ _ hrest⟩
      · simp only [h2, if_false]
        by_cases h3 : st ≤ r.s ∧ en ≥ r.e
        · simp only [h3, and_self, if_true]
          exact allRP_cons.2 ⟨hr, ih _ _ _ hrest⟩
        · simp only [h3, if_false]
          by_cases h4 : st ≤ r.s
          · simp only [h4, if_true]
            refine allRP_cons.2 ⟨?_, ih _ _ _ hrest⟩
            unfold RP; simp only []; omega
          · simp only [h4, if_false]
            by_cases h5 : en ≥ r.e
            · simp only [h5, if_true]
              refine allRP_cons.2 ⟨?_, ih _ _ _ hrest⟩
              unfold RP; simp only []; omega
            · simp only [h5, if_false]
              refine allRP_cons.2 ⟨?_, allRP_cons.2 ⟨?_, hrest⟩⟩
              · unfold RP; simp only []; omega
              · unfold RP; simp only []; omega

theorem sub_rp {M B st en : Int} {l : RS} (hall : AllRP M B l) (hM : en ≤ M) : AllRP M B (sub l st en) := by
  unfold sub
  split
  · exact hall
  · have h := subLoop_rp M B st en hM l 0 none 0 hall
    simp only []
    split
    · exact h
    · split
      · exact h
      · intro x hx; exact h x (mem_removeranges hx)

theorem foldl_sub_rp {M B : Int} (acked : List Rg) : ∀ (u : RS), AllRP M B u → (∀ a ∈ acked, a.e ≤ M) →
    AllRP M B (acked.foldl (fun u a => sub u a.s a.e) u) := by
  induction acked with
  | nil => intro u hu _; exact hu
  | cons a rest ih =>
    intro u hu ha
    simp only [List.foldl_cons]
    exact ih _ (sub_rp hu (ha a (by simp))) (fun x hx => ha x (by simp [hx]))

end NetVerif.Proofs.Lemmas.RangesetBounds
