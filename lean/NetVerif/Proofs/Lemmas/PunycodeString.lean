import NetVerif.Proofs.Lemmas.Punycode
/-! String-level Punycode round trip (`decode (encode s) = s`): the insertion-order argument. -/
set_option linter.unusedSimpArgs false
set_option linter.unusedVariables false

namespace NetVerif.Proofs.Lemmas.PunycodeString
open NetVerif.Model.Punycode NetVerif.Proofs.Lemmas.Punycode

/-- Upper bound of every delta that occurs for strings of at most 1024 code points ≤ U+10FFFF
(`1114111 * 1025 = 1141963775`), and it is `< 35^6`. -/
def Q : Nat := 1142000000

theorem threshold_small (k bias : Nat) (h : threshold k bias ≤ 12) : k ≤ bias + 12 := by
  unfold threshold tmin tmax at h
  split at h
  · omega
  · split at h <;> omega

theorem threshold_one (k bias : Nat) (h : k ≤ bias) : threshold k bias = 1 := by
  unfold threshold tmin; simp [h]

/-- Sharp version of the per-delta round trip: no overflow hypothesis on the decoder's weights, only
`q * w ≤ Q`. The weights never overflow because below the bias all thresholds are 1 (so the weight is
exactly `35^j`, and `35^6 > Q`), and above it a threshold `≥ 13` bounds the next weight by `23/13 · Q`. -/
theorem varint_roundtrip_sharp (bias k q i w : Nat) (rest : List Nat) (j : Nat)
    (hk : k = 36 * (j + 1)) (hpow : k ≤ bias + 36 → w = 35 ^ j) (hw : 1 ≤ w)
    (hq : q * w ≤ Q) (hi : i + q * w ≤ maxInt32) :
    decodeVar bias k i w (encodeVar bias k q ++ rest) = some (i + q * w, rest) := by
  fun_induction encodeVar bias k q generalizing i w j with
  | case1 k q hlt =>
    have := threshold_le k bias
    simp only [List.singleton_append]
    unfold decodeVar
    rw [decodeDigit_encDigit q (by omega)]
    simp only
    rw [madd_some i q w (by omega)]
    simp [hlt]
  | case2 k q hge ih =>
    have hle := threshold_le k bias
    have hpos := threshold_pos k bias
    have hsmall := threshold_small k bias
    have hone := threshold_one k bias
    generalize ht : threshold k bias = t at *
    have hx : 0 < base - t := by unfold base; omega
    have hx35 : base - t ≤ 35 := by unfold base; omega
    have hxt : base - t = 36 - t := by unfold base; rfl
    generalize hxx : base - t = x at *
    have hm : (q - t) % x < x := Nat.mod_lt _ hx
    have hdm := Nat.div_add_mod (q - t) x
    generalize hq' : (q - t) / x = q' at *
    generalize hr : (q - t) % x = r at *
    have hqe : q = t + r + x * q' := by omega
    have hd36 : t + r < 36 := by omega
    simp only [List.cons_append]
    unfold decodeVar
    rw [decodeDigit_encDigit (t + r) hd36]
    simp only
    have h1 : (t + r) * w ≤ q * w := Nat.mul_le_mul_right w (by omega)
    have htw : t * w ≤ q * w := Nat.mul_le_mul_right w (by omega)
    -- the next weight does not overflow
    have hwx : w * x ≤ maxInt32 := by
      unfold maxInt32
      by_cases h13 : 13 ≤ t
      · have : 13 * w ≤ t * w := Nat.mul_le_mul_right w h13
        have h23 : w * x ≤ w * 23 := Nat.mul_le_mul_left w (by omega)
        unfold Q at hq
        omega
      · have hkb : k ≤ bias + 36 := by have := hsmall (by omega); omega
        have hwj := hpow hkb
        have hj5 : j ≤ 5 := by
          by_contra hcon
          have : 35 ^ 6 ≤ 35 ^ j := Nat.pow_le_pow_right (by omega) (by omega)
          have h1w : 1 * w ≤ q * w := Nat.mul_le_mul_right w (by omega)
          unfold Q at hq
          have : (35 : Nat) ^ 6 = 1838265625 := by decide
          omega
        have : 35 ^ j ≤ 35 ^ 5 := Nat.pow_le_pow_right (by omega) hj5
        have h35 : w * x ≤ w * 35 := Nat.mul_le_mul_left w hx35
        have : (35 : Nat) ^ 5 = 52521875 := by decide
        omega
    rw [madd_some i (t + r) w (by omega)]
    simp only [ht]
    rw [if_neg (by omega)]
    rw [hxx, madd_some 0 w x (by omega)]
    simp only
    have hqw : q * w = (t + r) * w + q' * (0 + w * x) := by rw [hqe]; ring
    rw [ih (i + (t + r) * w) (0 + w * x) (j + 1)]
    · rw [hqw]; simp [Nat.add_assoc]
    · omega
    · intro hk'
      have hkb : k ≤ bias := by omega
      have ht1 : t = 1 := hone hkb
      have hwj := hpow (by omega)
      have : x = 35 := by omega
      rw [this, hwj, Nat.pow_succ]; omega
    · have : 1 * 1 ≤ w * x := Nat.mul_le_mul hw hx
      omega
    · rw [hqw] at hq; omega
    · rw [hqw] at hi; omega

/-! ### the decoder loop, one delta at a time -/

theorem decodeVar_rest_lt (bias : Nat) : ∀ (inp : List Nat) (k i w i' : Nat) (rest : List Nat),
    decodeVar bias k i w inp = some (i', rest) → rest.length < inp.length
  | [], _, _, _, _, _, h => by simp [decodeVar] at h
  | c :: cs, k, i, w, i', rest, h => by
    unfold decodeVar at h
    split at h
    · simp at h
    · split at h
      · simp at h
      · split at h
        · simp only [Option.some.injEq, Prod.mk.injEq] at h
          rw [← h.2]; simp
        · split at h
          · simp at h
          · have := decodeVar_rest_lt bias cs _ _ _ _ _ h
            simp; omega

theorem encodeVar_ne_nil (bias k q : Nat) : encodeVar bias k q ≠ [] := by
  rw [encodeVar]; split <;> simp

theorem decodeLoop_nil (f : Nat) (out : List Nat) (i n bias : Nat) :
    decodeLoop f [] out i n bias = some out := by
  cases f <;> simp [decodeLoop]

theorem decodeLoop_fuel : ∀ (f f' : Nat) (inp out : List Nat) (i n bias : Nat),
    inp.length ≤ f → inp.length ≤ f' →
    decodeLoop f inp out i n bias = decodeLoop f' inp out i n bias
  | f, f', [], out, i, n, bias, _, _ => by rw [decodeLoop_nil, decodeLoop_nil]
  | 0, _, _ :: _, _, _, _, _, h, _ => by simp at h
  | _, 0, _ :: _, _, _, _, _, _, h => by simp at h
  | f + 1, f' + 1, c :: cs, out, i, n, bias, h1, h2 => by
    simp only [decodeLoop]
    cases hv : decodeVar bias base i 1 (c :: cs) with
    | none => rfl
    | some r =>
      obtain ⟨i', rest⟩ := r
      have hlt := decodeVar_rest_lt bias _ _ _ _ _ _ hv
      simp only [List.length_cons] at hlt h1 h2
      simp only
      split
      · rfl
      · split
        · rfl
        · exact decodeLoop_fuel f f' rest _ _ _ _ (by omega) (by omega)

structure DecSt where
  out : List Nat
  i : Nat
  n : Nat
  bias : Nat

def decodeAll (inp : List Nat) (d : DecSt) : Option (List Nat) :=
  decodeLoop inp.length inp d.out d.i d.n d.bias

theorem decodeAll_nil (d : DecSt) : decodeAll [] d = some d.out := by
  simp [decodeAll, decodeLoop_nil]

/-- One round of the decoder loop on a delta whose digits are `V`. -/
theorem decodeAll_step (V tail : List Nat) (d : DecSt) (delta : Nat)
    (hV : decodeVar d.bias base d.i 1 (V ++ tail) = some (d.i + delta, tail)) (hne : V ≠ [])
    (hlen : d.out.length < maxOutput)
    (hn : d.n + (d.i + delta) / (d.out.length + 1) ≤ maxRune) :
    decodeAll (V ++ tail) d = decodeAll tail
      { out := insertAt ((d.i + delta) % (d.out.length + 1)) (d.n + (d.i + delta) / (d.out.length + 1)) d.out,
        i := (d.i + delta) % (d.out.length + 1) + 1,
        n := d.n + (d.i + delta) / (d.out.length + 1),
        bias := adapt delta (d.out.length + 1) (d.i == 0) } := by
  unfold decodeAll
  cases hvt : V ++ tail with
  | nil => cases V <;> simp_all
  | cons c cs =>
    rw [hvt] at hV
    have hlt := decodeVar_rest_lt _ _ _ _ _ _ _ hV
    simp only [List.length_cons] at hlt ⊢
    simp only [decodeLoop, hV]
    rw [if_neg (by omega), if_neg (by omega)]
    simp only [Nat.add_sub_cancel_left]
    exact decodeLoop_fuel _ _ tail _ _ _ _ (by omega) (Nat.le_refl _)

/-! ### the encoder's inner loop against the decoder -/

/-- Invariant while the encoder scans `s = pre ++ post` for the code point `m`: the decoder's output
is `s` restricted to what has been handled (everything `< m`, and the `m`s of `pre`); the pending
`delta` is exactly what moves the decoder's `(n, i)` to `(m, position of the next slot)`. -/
structure InvI (b m : Nat) (pre post : List Nat) (st : EncSt) (d : DecSt) : Prop where
  out : d.out = pre.filter (fun r => decide (r ≤ m)) ++ post.filter (fun r => decide (r < m))
  h : st.h = d.out.length
  bias : st.bias = d.bias
  nle : d.n ≤ m
  pos : d.i + st.delta =
    (m - d.n) * (d.out.length + 1) + (pre.filter (fun r => decide (r ≤ m))).length
  hb : b ≤ st.h
  first : d.i = 0 ↔ st.h = b

theorem encDigit_ne_hyphen (d : Nat) (h : d < 36) : encDigit d ≠ hyphen := by
  unfold encDigit hyphen; split <;> omega

theorem encodeVar_no_hyphen (bias k q : Nat) : ∀ c ∈ encodeVar bias k q, c ≠ hyphen := by
  intro c hc
  obtain ⟨d, hd, rfl, _⟩ := encodeVar_digits_ok bias k q c hc
  exact encDigit_ne_hyphen d hd

theorem div_mod_slot (a x q : Nat) (hq : q < x) : (a * x + q) / x = a ∧ (a * x + q) % x = q := by
  have hx : 0 < x := by omega
  constructor
  · rw [Nat.add_comm, Nat.add_mul_div_right _ _ hx, Nat.div_eq_of_lt hq]; simp
  · rw [Nat.add_comm, Nat.add_mul_mod_self_right, Nat.mod_eq_of_lt hq]

theorem insertAt_append (A B : List Nat) (m : Nat) : insertAt A.length m (A ++ B) = A ++ m :: B := by
  simp [insertAt]

theorem inner (b m : Nat) (hm : m ≤ maxRune) :
    ∀ (post pre : List Nat) (st st' : EncSt) (d : DecSt),
      (pre ++ post).length ≤ maxOutput → InvI b m pre post st d → encInner m b post st = some st' →
      ∃ (E : List Nat) (d' : DecSt), st'.out = st.out ++ E ∧ (∀ c ∈ E, c ≠ hyphen) ∧
        (∀ tail, decodeAll (E ++ tail) d = decodeAll tail d') ∧ InvI b m (pre ++ post) [] st' d'
  | [], pre, st, st', d, _, inv, h => by
    simp only [encInner, Option.some.injEq] at h
    subst h
    exact ⟨[], d, by simp, by simp, by simp, by simpa using inv⟩
  | r :: post, pre, st, st', d, hlen, inv, h => by
    have hassoc : (pre ++ [r]) ++ post = pre ++ r :: post := by simp
    unfold encInner at h
    by_cases hlt : r < m
    · simp only [hlt, if_true] at h
      split at h
      · simp at h
      · have inv1 : InvI b m (pre ++ [r]) post { st with delta := st.delta + 1 } d := {
          out := by rw [inv.out]; simp [List.filter_cons, hlt, Nat.le_of_lt hlt]
          h := inv.h, bias := inv.bias, nle := inv.nle
          pos := by
            have := inv.pos
            simp only [List.filter_append, List.filter_cons, Nat.le_of_lt hlt, decide_true, if_true,
              List.filter_nil, List.length_append, List.length_cons, List.length_nil] at this ⊢
            omega
          hb := inv.hb, first := inv.first }
        obtain ⟨E, d', h1, h2, h3, h4⟩ := inner b m hm post (pre ++ [r]) _ st' d (by rw [hassoc]; exact hlen) inv1 h
        exact ⟨E, d', h1, h2, h3, by rw [hassoc] at h4; exact h4⟩
    · simp only [hlt, if_false] at h
      by_cases hgt : r > m
      · simp only [hgt, if_true] at h
        have hnle : ¬ r ≤ m := by omega
        have inv1 : InvI b m (pre ++ [r]) post st d := {
          out := by rw [inv.out]; simp [List.filter_cons, hlt, hnle]
          h := inv.h, bias := inv.bias, nle := inv.nle
          pos := by
            have := inv.pos
            simp only [List.filter_append, List.filter_cons, hnle, decide_false, Bool.false_eq_true,
              if_false, List.filter_nil, List.append_nil] at this ⊢
            exact this
          hb := inv.hb, first := inv.first }
        obtain ⟨E, d', h1, h2, h3, h4⟩ := inner b m hm post (pre ++ [r]) _ st' d (by rw [hassoc]; exact hlen) inv1 h
        exact ⟨E, d', h1, h2, h3, by rw [hassoc] at h4; exact h4⟩
      · simp only [hgt, if_false] at h
        have hrm : r = m := by omega
        subst hrm
        -- abbreviations
        obtain ⟨A, hA⟩ : ∃ A, pre.filter (fun x => decide (x ≤ r)) = A := ⟨_, rfl⟩
        obtain ⟨B, hB⟩ : ∃ B, post.filter (fun x => decide (x < r)) = B := ⟨_, rfl⟩
        have hout : d.out = A ++ B := by rw [inv.out, hA]; simp [List.filter_cons, hB]
        have hAl : A.length ≤ pre.length := by rw [← hA]; exact List.length_filter_le _ _
        have hBl : B.length ≤ post.length := by rw [← hB]; exact List.length_filter_le _ _
        have hlen' : pre.length + (post.length + 1) ≤ maxOutput := by simpa using hlen
        have holen : d.out.length = A.length + B.length := by rw [hout]; simp
        have hpos := inv.pos
        rw [hA] at hpos
        have hq : A.length < d.out.length + 1 := by omega
        obtain ⟨hdiv, hmod⟩ := div_mod_slot (r - d.n) (d.out.length + 1) A.length hq
        have hx : d.out.length + 1 ≤ 1024 := by unfold maxOutput at hlen'; omega
        have hprod : (r - d.n) * (d.out.length + 1) ≤ 1114111 * 1024 :=
          Nat.mul_le_mul (by unfold maxRune at hm; omega) hx
        have htot : d.i + st.delta ≤ Q := by unfold Q; omega
        have hV := varint_roundtrip_sharp d.bias base st.delta d.i 1
        have hstep : ∀ tail, decodeAll (encodeVar st.bias base st.delta ++ tail) d = decodeAll tail
            { out := A ++ r :: B, i := A.length + 1, n := r,
              bias := adapt st.delta (st.h + 1) (st.h == b) } := by
          intro tail
          have hv := hV tail 0 (by unfold base; rfl) (by intro _; simp) (Nat.le_refl 1)
            (by simp; omega) (by unfold maxInt32; unfold Q at htot; simp; omega)
          simp only [Nat.mul_one] at hv
          rw [inv.bias]
          rw [decodeAll_step _ tail d st.delta hv (encodeVar_ne_nil _ _ _)
            (by unfold maxOutput; omega)
            (by rw [hpos, hdiv]; have := inv.nle; omega)]
          have hfirst : (d.i == 0) = (st.h == b) := by
            rw [Bool.eq_iff_iff]; simp [inv.first]
          have hn' : d.n + (r - d.n) = r := by have := inv.nle; omega
          simp only [hpos, hdiv, hmod, hn', hfirst, inv.h]
          rw [hout, insertAt_append]
        have inv1 : InvI b r (pre ++ [r]) post
            { delta := 0, h := st.h + 1, bias := adapt st.delta (st.h + 1) (st.h == b),
              out := st.out ++ encodeVar st.bias base st.delta }
            { out := A ++ r :: B, i := A.length + 1, n := r,
              bias := adapt st.delta (st.h + 1) (st.h == b) } := {
          out := by simp [List.filter_append, List.filter_cons, hA, hB]
          h := by simp [inv.h, holen]; omega
          bias := rfl
          nle := Nat.le_refl _
          pos := by simp [List.filter_append, List.filter_cons, hA]
          hb := by have := inv.hb; simp; omega
          first := by have := inv.hb; simp; omega }
        obtain ⟨E, d', h1, h2, h3, h4⟩ := inner b r hm post (pre ++ [r]) _ st' _
          (by rw [hassoc]; exact hlen) inv1 h
        refine ⟨encodeVar st.bias base st.delta ++ E, d', by rw [h1]; simp, ?_, ?_, by rw [hassoc] at h4; exact h4⟩
        · intro c hc
          rcases List.mem_append.mp hc with hc | hc
          · exact encodeVar_no_hyphen _ _ _ c hc
          · exact h2 c hc
        · intro tail
          rw [List.append_assoc, hstep, h3]

/-! ### the encoder's outer loop -/

theorem foldl_min (n : Nat) : ∀ (s : List Nat) (acc : Nat),
    let m := s.foldl (fun m r => if m > r ∧ r ≥ n then r else m) acc
    m ≤ acc ∧ (m = acc ∨ (m ∈ s ∧ m ≥ n)) ∧ ∀ r ∈ s, r ≥ n → m ≤ r
  | [], acc => by simp
  | r :: s, acc => by
    simp only [List.foldl_cons]
    have ih := foldl_min n s (if acc > r ∧ r ≥ n then r else acc)
    simp only at ih
    obtain ⟨h1, h2, h3⟩ := ih
    by_cases hc : acc > r ∧ r ≥ n
    · simp only [hc, and_self, if_true] at h1 h2 h3 ⊢
      refine ⟨by omega, ?_, ?_⟩
      · rcases h2 with h2 | h2
        · right; exact ⟨by simp [h2], by omega⟩
        · right; exact ⟨by simp [h2.1], h2.2⟩
      · intro r' hr' hge
        rcases List.mem_cons.mp hr' with rfl | hr'
        · exact h1
        · exact h3 r' hr' hge
    · simp only [hc, if_false] at h1 h2 h3 ⊢
      refine ⟨h1, ?_, ?_⟩
      · rcases h2 with h2 | h2
        · left; exact h2
        · right; exact ⟨by simp [h2.1], h2.2⟩
      · intro r' hr' hge
        rcases List.mem_cons.mp hr' with rfl | hr'
        · omega
        · exact h3 r' hr' hge

theorem minGE_spec (n : Nat) (s : List Nat) (hex : ∃ r ∈ s, r ≥ n) (hb : ∀ r ∈ s, r < maxInt32) :
    minGE n s ∈ s ∧ minGE n s ≥ n ∧ ∀ r ∈ s, r ≥ n → minGE n s ≤ r := by
  have := foldl_min n s maxInt32
  simp only at this
  obtain ⟨h1, h2, h3⟩ := this
  obtain ⟨r, hr, hge⟩ := hex
  have hlt : minGE n s < maxInt32 := Nat.lt_of_le_of_lt (h3 r hr hge) (hb r hr)
  unfold minGE at hlt ⊢
  rcases h2 with h2 | h2
  · omega
  · exact ⟨h2.1, h2.2, h3⟩

theorem filter_full (p : Nat → Bool) : ∀ (l : List Nat), l.length ≤ (l.filter p).length → l.filter p = l
  | [], _ => rfl
  | a :: l, h => by
    have hle := List.length_filter_le p l
    by_cases hp : p a = true
    · simp only [List.filter_cons, hp, if_true, List.length_cons] at h ⊢
      rw [filter_full p l (by omega)]
    · have hp' : p a = false := by simpa using hp
      simp only [List.filter_cons, hp', Bool.false_eq_true, if_false, List.length_cons] at h
      omega

structure InvO (b ne : Nat) (s : List Nat) (st : EncSt) (d : DecSt) : Prop where
  out : d.out = s.filter (fun r => decide (r < ne))
  h : st.h = d.out.length
  bias : st.bias = d.bias
  nle : d.n ≤ ne
  pos : d.i + st.delta = (ne - d.n) * (d.out.length + 1)
  hb : b ≤ st.h
  first : d.i = 0 ↔ st.h = b

theorem outer_done (b ne : Nat) (s : List Nat) (st : EncSt) (d : DecSt) (inv : InvO b ne s st d)
    (hh : ¬ st.h < s.length) : decodeAll [] d = some s := by
  rw [decodeAll_nil, inv.out]
  congr 1
  apply filter_full
  have := inv.h
  rw [inv.out] at this
  omega

theorem encInner_succ (m b : Nat) : ∀ (post : List Nat) (st : EncSt),
    st.delta + post.length ≤ maxInt32 → ∃ st', encInner m b post st = some st'
  | [], st, _ => ⟨st, by simp [encInner]⟩
  | r :: post, st, h => by
    simp only [List.length_cons] at h
    rw [encInner]
    by_cases hlt : r < m
    · simp only [hlt, if_true]
      rw [if_neg (by omega)]
      exact encInner_succ m b post _ (by simp; omega)
    · simp only [hlt, if_false]
      by_cases hgt : r > m
      · simp only [hgt, if_true]
        exact encInner_succ m b post _ (by omega)
      · simp only [hgt, if_false]
        exact encInner_succ m b post _ (by simp; omega)

theorem filter_lt_le_mono (m : Nat) : ∀ (s : List Nat),
    (s.filter (fun r => decide (r < m))).length ≤ (s.filter (fun r => decide (r ≤ m))).length
  | [] => by simp
  | x :: xs => by
    have ih := filter_lt_le_mono m xs
    by_cases h1 : x < m
    · have : x ≤ m := by omega
      simp [List.filter_cons, h1, this]; exact ih
    · by_cases h2 : x ≤ m
      · simp [List.filter_cons, h1, h2]; omega
      · simp [List.filter_cons, h1, h2]; exact ih

theorem filter_lt_le (m : Nat) : ∀ (s : List Nat), m ∈ s →
    (s.filter (fun r => decide (r < m))).length < (s.filter (fun r => decide (r ≤ m))).length
  | [], h => by simp at h
  | r :: s, h => by
    have hmono := filter_lt_le_mono m s
    rcases List.mem_cons.mp h with rfl | h
    · simp [List.filter_cons]; omega
    · have ih := filter_lt_le m s h
      by_cases h1 : r < m
      · have : r ≤ m := by omega
        simp [List.filter_cons, h1, this]; exact ih
      · by_cases h2 : r ≤ m
        · simp [List.filter_cons, h1, h2]; omega
        · simp [List.filter_cons, h1, h2]; exact ih

/-- The encoder's outer loop succeeds (no int32 overflow, enough fuel) on every string of at most
1024 code points ≤ U+10FFFF, and the decoder replays its output to `s`. -/
theorem outer (s : List Nat) (b : Nat) (hs : ∀ r ∈ s, r ≤ maxRune) (hlen : s.length ≤ maxOutput) :
    ∀ (fuel ne : Nat) (st : EncSt) (d : DecSt),
      s.length - st.h ≤ fuel → InvO b ne s st d →
      ∃ a E, encOuter fuel s b ne st = some a ∧ a = st.out ++ E ∧ (∀ c ∈ E, c ≠ hyphen) ∧
        decodeAll E d = some s
  | 0, ne, st, d, hf, inv => by
    have hh : ¬ st.h < s.length := by omega
    refine ⟨st.out, [], by simp [encOuter, hh], by simp, by simp, outer_done b ne s st d inv hh⟩
  | fuel + 1, ne, st, d, hf, inv => by
    rw [encOuter]
    by_cases hh : st.h < s.length
    · simp only [hh, if_true]
      have hex : ∃ r ∈ s, r ≥ ne := by
        by_contra hcon
        simp only [not_exists, not_and, Nat.not_le] at hcon
        have : s.filter (fun r => decide (r < ne)) = s :=
          List.filter_eq_self.mpr (fun r hr => by simpa using hcon r hr)
        have h2 := inv.h
        rw [inv.out, this] at h2
        omega
      obtain ⟨hmem, hge, hmin⟩ := minGE_spec ne s hex
        (fun r hr => by have := hs r hr; unfold maxRune at this; unfold maxInt32; omega)
      generalize hmdef : minGE ne s = m at *
      have hnle := inv.nle
      have hmR := hs m hmem
      -- the adjusted delta is exactly what moves the decoder to (m, slot 0); it does not overflow
      have hp := inv.pos
      have hh' := inv.h
      have hxle : d.out.length + 1 ≤ 1024 := by unfold maxOutput at hlen; omega
      have hprod : (m - d.n) * (d.out.length + 1) ≤ 1114111 * 1024 :=
        Nat.mul_le_mul (by unfold maxRune at hmR; omega) hxle
      have hsum : d.i + (st.delta + (m - ne) * (st.h + 1)) = (m - d.n) * (d.out.length + 1) := by
        rw [← Nat.add_assoc, hp, hh', ← Nat.add_mul]
        congr 1; omega
      rw [madd_some st.delta (m - ne) (st.h + 1) (by unfold maxInt32; omega)]
      simp only
      obtain ⟨st1, hin⟩ := encInner_succ m b s { st with delta := st.delta + (m - ne) * (st.h + 1) }
        (by unfold maxInt32; unfold maxOutput at hlen; simp only; omega)
      rw [hin]
      simp only
      have hcongr : s.filter (fun r => decide (r < ne)) = s.filter (fun r => decide (r < m)) := by
        apply List.filter_congr
        intro r hr
        by_cases hr1 : r < ne
        · have : r < m := by omega
          simp [hr1, this]
        · have := hmin r hr (by omega)
          have : ¬ r < m := by omega
          simp [hr1, this]
      have invI : InvI b m [] s { st with delta := st.delta + (m - ne) * (st.h + 1) } d := {
        out := by rw [inv.out, hcongr]; simp
        h := inv.h, bias := inv.bias
        nle := by omega
        pos := by simpa using hsum
        hb := inv.hb, first := inv.first }
      obtain ⟨E1, d1, ho1, hy1, hdec1, inv1⟩ :=
        inner b m hmR s [] _ st1 d (by simpa using hlen) invI hin
      have hcongr2 : s.filter (fun r => decide (r ≤ m)) = s.filter (fun r => decide (r < m + 1)) := by
        apply List.filter_congr
        intro r _
        by_cases hr1 : r ≤ m
        · have : r < m + 1 := by omega
          simp [hr1, this]
        · have : ¬ r < m + 1 := by omega
          simp [hr1, this]
      have ho := inv1.out
      simp only [List.nil_append, List.filter_nil, List.append_nil] at ho
      have invO : InvO b (m + 1) s { st1 with delta := st1.delta + 1 } d1 := {
        out := by rw [ho, hcongr2]
        h := inv1.h, bias := inv1.bias
        nle := by have := inv1.nle; omega
        pos := by
          have hp1 := inv1.pos
          have hnl := inv1.nle
          simp only [List.nil_append] at hp1
          have hl : (s.filter (fun r => decide (r ≤ m))).length = d1.out.length := by rw [ho]
          rw [hl] at hp1
          have : m + 1 - d1.n = (m - d1.n) + 1 := by omega
          rw [this, Nat.add_mul]
          simp only [Nat.one_mul]
          omega
        hb := inv1.hb, first := inv1.first }
      -- progress: at least the code point m itself was handled
      have hprog : s.length - st1.h ≤ fuel := by
        have h1 := inv1.h
        rw [ho] at h1
        have h0 := inv.h
        rw [inv.out, hcongr] at h0
        have := filter_lt_le m s hmem
        omega
      obtain ⟨a, E2, henc, ha, hy2, hdec2⟩ :=
        outer s b hs hlen fuel (m + 1) { st1 with delta := st1.delta + 1 } d1 (by simpa using hprog) invO
      refine ⟨a, E1 ++ E2, henc, by rw [ha]; simp [ho1], ?_, ?_⟩
      · intro c hc
        rcases List.mem_append.mp hc with hc | hc
        · exact hy1 c hc
        · exact hy2 c hc
      · rw [hdec1, hdec2]
    · simp only [hh, if_false]
      exact ⟨st.out, [], rfl, by simp, by simp, outer_done b ne s st d inv hh⟩

/-! ### assembling `decodeRunes (encode s) = s` -/

theorem splitLast_no_hyphen : ∀ (E : List Nat), (∀ c ∈ E, c ≠ hyphen) → splitLast E = none
  | [], _ => rfl
  | c :: E, h => by
    have := splitLast_no_hyphen E (fun x hx => h x (by simp [hx]))
    have hc := h c (by simp)
    simp [splitLast, this, hc]

theorem splitLast_append : ∀ (B E : List Nat), (∀ c ∈ E, c ≠ hyphen) →
    splitLast (B ++ hyphen :: E) = some (B, E)
  | [], E, h => by simp [splitLast, splitLast_no_hyphen E h]
  | c :: B, E, h => by simp [splitLast, splitLast_append B E h]

theorem decodeRunes_encode (s a : List Nat) (hs : ∀ r ∈ s, r ≤ maxRune) (hlen : s.length ≤ maxOutput)
    (h : encode [] s = some a) : decodeRunes a = some s := by
  unfold encode at h
  simp only [List.nil_append] at h
  obtain ⟨B, hB⟩ : ∃ B, s.filter (fun x => decide (x < 128)) = B := ⟨_, rfl⟩
  rw [hB] at h
  have hBasc : isAscii B = true := by
    unfold isAscii
    rw [List.all_eq_true]
    intro r hr
    rw [← hB] at hr
    exact (List.mem_filter.mp hr).2
  have inv0 : InvO B.length initialN s
      { delta := 0, h := B.length, bias := initialBias,
        out := B ++ (if B.length > 0 then [hyphen] else []) }
      { out := B, i := 0, n := initialN, bias := initialBias } := {
    out := by simp only [initialN]; exact hB.symm
    h := rfl, bias := rfl, nle := Nat.le_refl _
    pos := by simp
    hb := Nat.le_refl _
    first := by simp }
  obtain ⟨a', E, henc, ha, hy, hdec⟩ := outer s B.length hs hlen s.length _ _ _ (by simp) inv0
  have haa : a = a' := by rw [henc] at h; exact (Option.some.inj h).symm
  subst haa
  simp only at ha
  unfold decodeAll at hdec
  simp only at hdec
  cases hBe : B with
  | nil =>
    subst hBe
    simp only [List.length_nil, Nat.lt_irrefl, gt_iff_lt, if_false, List.append_nil, List.nil_append] at ha
    subst ha
    unfold decodeRunes
    by_cases hE : a = []
    · subst hE
      simp only [List.length_nil] at hdec
      rw [decodeLoop_nil] at hdec
      simpa using hdec
    · simp only [hE, if_false, splitLast_no_hyphen a hy]
      exact hdec
  | cons c cs =>
    rw [hBe] at ha hdec hBasc
    simp only [List.length_cons, gt_iff_lt, Nat.zero_lt_succ, if_true, List.append_assoc,
      List.singleton_append] at ha
    subst ha
    unfold decodeRunes
    rw [if_neg (by simp), splitLast_append _ _ hy]
    simp only [reduceCtorEq, if_false, hBasc, Bool.not_true, Bool.false_eq_true]
    by_cases hE : E = []
    · subst hE
      simp only [List.length_nil] at hdec
      rw [decodeLoop_nil] at hdec
      simpa using hdec
    · simp only [hE, if_false]
      exact hdec

end NetVerif.Proofs.Lemmas.PunycodeString
