import NetVerif.Model.PublicSuffix
/-! Helper lemmas for Proofs/C51. -/
namespace NetVerif.Proofs.Lemmas.PublicSuffix
open NetVerif.Model.PublicSuffix

/-- No label sequence is both a normal and an exception rule. -/
def NoConflict (rules : List Rule) : Prop :=
  ∀ p, ¬ (hasNormal rules p = true ∧ hasExc rules p = true)

theorem hasKind_iff (rules : List Rule) (k : Kind) (p : List Nat) :
    hasKind rules k p = true ↔ ∃ r ∈ rules, r.kind = k ∧ r.labels = p := by
  simp [hasKind]

@[simp] theorem listIndex_exc (rules : List Rule) : (listIndex rules).exc = hasExc rules := rfl
@[simp] theorem listIndex_normal (rules : List Rule) : (listIndex rules).normal = hasNormal rules := rfl
@[simp] theorem listIndex_wild (rules : List Rule) : (listIndex rules).wild = hasWild rules := rfl

theorem nodeAt_none (rules : List Rule) (p : List Nat) (h : nodeAt rules p = none) :
    ∀ r ∈ rules, ¬ p <+: r.labels := by
  unfold nodeAt at h
  by_cases hany : rules.any (fun r => p.isPrefixOf r.labels) = true
  · rw [if_pos hany] at h; exact absurd h (Option.some_ne_none _)
  · simp only [List.any_eq_true, not_exists, not_and, Bool.not_eq_true] at hany
    intro r hr hp
    have := hany r hr
    have hh := List.isPrefixOf_iff_prefix.mpr hp
    rw [this] at hh
    exact Bool.noConfusion hh

/-- Below a path that no rule extends, the PSL scan finds nothing more. -/
theorem specGo_dead (rules : List Rule) : ∀ (more p : List Nat) (best : Option Nat),
    (∀ r ∈ rules, ¬ p <+: r.labels) → specGo (listIndex rules) p more best = best
  | [], _, _, _ => by simp [specGo]
  | l :: more, p, best, h => by
    have hp : ∀ r ∈ rules, ¬ (p ++ [l]) <+: r.labels := fun r hr hpre =>
      h r hr (List.IsPrefix.trans (List.prefix_append p [l]) hpre)
    have e1 : hasExc rules (p ++ [l]) = false := by
      apply Bool.eq_false_iff.mpr; intro hc
      obtain ⟨r, hr, _, hl⟩ := (hasKind_iff _ _ _).mp hc
      exact hp r hr (by rw [hl]; exact List.prefix_refl _)
    have e2 : hasNormal rules (p ++ [l]) = false := by
      apply Bool.eq_false_iff.mpr; intro hc
      obtain ⟨r, hr, _, hl⟩ := (hasKind_iff _ _ _).mp hc
      exact hp r hr (by rw [hl]; exact List.prefix_refl _)
    have e3 : hasWild rules p = false := by
      apply Bool.eq_false_iff.mpr; intro hc
      obtain ⟨r, hr, _, hl⟩ := (hasKind_iff _ _ _).mp hc
      exact h r hr (by rw [hl]; exact List.prefix_refl _)
    simp only [specGo, listIndex_exc, listIndex_normal, listIndex_wild, e1, e2, e3, Bool.false_eq_true, if_false, Bool.or_self]
    exact specGo_dead rules more (p ++ [l]) best hp

theorem nodeAt_wild (rules : List Rule) (p : List Nat) (nd : NodeInfo) (h : nodeAt rules p = some nd) :
    nd.wildcard = hasWild rules p := by
  unfold nodeAt at h
  split at h
  · simp at h; rw [← h]
  · simp at h

theorem nodeAt_type (rules : List Rule) (hnc : NoConflict rules) (p : List Nat) (nd : NodeInfo)
    (h : nodeAt rules p = some nd) :
    (nd.ntype = 1 ↔ hasExc rules p = true) ∧ (nd.ntype = 0 ↔ hasNormal rules p = true) := by
  unfold nodeAt at h
  split at h
  · simp only [Option.some.injEq] at h
    rw [← h]
    simp only
    split
    · rename_i r hf
      have hmem := List.mem_of_find?_eq_some hf
      have hpr := List.find?_some hf
      simp only [Bool.and_eq_true, decide_eq_true_eq, Bool.not_eq_true', decide_eq_false_iff_not] at hpr
      by_cases hk : r.kind = .exception
      · have hex : hasExc rules p = true := (hasKind_iff _ _ _).mpr ⟨r, hmem, hk, hpr.1⟩
        have hno : ¬ hasNormal rules p = true := fun hn => hnc p ⟨hn, hex⟩
        simp [hk, hex, hno]
      · have hkn : r.kind = .normal := by
          cases hkk : r.kind <;> simp_all
        have hn : hasNormal rules p = true := (hasKind_iff _ _ _).mpr ⟨r, hmem, hkn, hpr.1⟩
        have hne : ¬ hasExc rules p = true := fun he => hnc p ⟨hn, he⟩
        simp [hk, hn, hne]
    · rename_i hf
      have hnone := List.find?_eq_none.mp hf
      have hne : ¬ hasExc rules p = true := by
        intro hc
        obtain ⟨r, hr, hk, hl⟩ := (hasKind_iff _ _ _).mp hc
        have := hnone r hr
        simp [hk, hl] at this
      have hnn : ¬ hasNormal rules p = true := by
        intro hc
        obtain ⟨r, hr, hk, hl⟩ := (hasKind_iff _ _ _).mp hc
        have := hnone r hr
        simp [hk, hl] at this
      simp [hne, hnn]
  · simp at h

/-- Main simulation: the loop of `PublicSuffix` on the trie built from `rules` computes the PSL scan
over `rules`. -/
theorem walk_eq_specGo (rules : List Rule) (hnc : NoConflict rules) :
    ∀ (rest path : List Nat) (st : WalkSt), st.wild = hasWild rules path →
      (walk (nodeAt rules) path rest st).1 = specGo (listIndex rules) path rest st.suffix
  | [], _, _, _ => by simp [walk, specGo]
  | l :: more, path, st, hw => by
    unfold walk specGo
    simp only [listIndex_exc, listIndex_normal, listIndex_wild]
    cases hlook : nodeAt rules (path ++ [l]) with
    | none =>
      have hdead := nodeAt_none rules _ hlook
      have e1 : hasExc rules (path ++ [l]) = false := by
        apply Bool.eq_false_iff.mpr; intro hc
        obtain ⟨r, hr, _, hl⟩ := (hasKind_iff _ _ _).mp hc
        exact hdead r hr (by rw [hl]; exact List.prefix_refl _)
      have e2 : hasNormal rules (path ++ [l]) = false := by
        apply Bool.eq_false_iff.mpr; intro hc
        obtain ⟨r, hr, _, hl⟩ := (hasKind_iff _ _ _).mp hc
        exact hdead r hr (by rw [hl]; exact List.prefix_refl _)
      simp only [e1, Bool.false_eq_true, if_false]
      simp only [e2, hw, Bool.false_or]
      exact (specGo_dead rules more (path ++ [l]) _ hdead).symm
    | some nd =>
      obtain ⟨ht1, ht0⟩ := nodeAt_type rules hnc _ nd hlook
      have hwd := nodeAt_wild rules _ nd hlook
      simp only
      by_cases h1 : nd.ntype = 1
      · simp [h1, ht1.mp h1]
      · have hex : hasExc rules (path ++ [l]) = false := by
          apply Bool.eq_false_iff.mpr; intro hc; exact h1 (ht1.mpr hc)
        simp only [h1, if_false, hex, Bool.false_eq_true]
        have hbest : (if nd.ntype = 0 then some (path.length + 1)
              else if st.wild = true then some (path.length + 1) else st.suffix) =
            (if (hasNormal rules (path ++ [l]) || hasWild rules path) = true then some (path.length + 1)
              else st.suffix) := by
          by_cases h0 : nd.ntype = 0
          · simp [h0, ht0.mp h0]
          · have : hasNormal rules (path ++ [l]) = false := by
              apply Bool.eq_false_iff.mpr; intro hc; exact h0 (ht0.mpr hc)
            simp [h0, this, hw]
        cases more with
        | nil => simp [specGo, hbest]
        | cons l' ls =>
          simp only
          rw [walk_eq_specGo rules hnc (l' :: ls) (path ++ [l]) _ (by simpa using hwd)]
          simp only [hbest]
          rfl

/-! ### binary search -/

theorem find_sound (lab : Nat → Nat) (x : Nat) : ∀ (fuel lo hi i : Nat),
    find lab x fuel lo hi = some i → lo ≤ i ∧ i < hi ∧ lab i = x
  | 0, _, _, _, h => by simp [find] at h
  | fuel + 1, lo, hi, i, h => by
    unfold find at h
    split at h
    · simp only at h
      split at h
      · have := find_sound lab x fuel _ _ _ h; omega
      · split at h
        · simp at h; subst h; omega
        · have := find_sound lab x fuel _ _ _ h; omega
    · simp at h

theorem find_complete (lab : Nat → Nat) (x : Nat) : ∀ (fuel lo hi i : Nat),
    (∀ a b, lo ≤ a → a < b → b < hi → lab a < lab b) → lo ≤ i → i < hi → lab i = x → hi - lo < fuel →
    find lab x fuel lo hi = some i
  | 0, _, _, _, _, _, _, _, hf => by omega
  | fuel + 1, lo, hi, i, hs, h1, h2, hx, hf => by
    unfold find
    have hlt : lo < hi := by omega
    simp only [hlt, if_true]
    have hm1 : lo ≤ lo + (hi - lo) / 2 := by omega
    have hm2 : lo + (hi - lo) / 2 < hi := by omega
    generalize hmid : lo + (hi - lo) / 2 = mid at *
    by_cases hc1 : lab mid < x
    · simp only [hc1, if_true]
      have : mid < i := by
        rcases Nat.lt_trichotomy i mid with hlt' | heq | hgt
        · have := hs i mid h1 hlt' hm2; omega
        · subst heq; omega
        · exact hgt
      exact find_complete lab x fuel (mid + 1) hi i (fun a b ha hab hb => hs a b (by omega) hab hb)
        (by omega) h2 hx (by omega)
    · simp only [hc1, if_false]
      by_cases hc2 : lab mid = x
      · simp only [hc2, if_true]
        rcases Nat.lt_trichotomy i mid with hlt' | heq | hgt
        · have := hs i mid h1 hlt' hm2; omega
        · rw [heq]
        · have := hs mid i hm1 hgt h2; omega
      · simp only [hc2, if_false]
        have : i < mid := by
          rcases Nat.lt_trichotomy i mid with hlt' | heq | hgt
          · exact hlt'
          · subst heq; omega
          · have := hs mid i hm1 hgt h2; omega
        exact find_complete lab x fuel lo mid i (fun a b ha hab hb => hs a b ha hab (by omega))
          h1 this hx (by omega)

/-! ### packed walk = walk over the denoted trie -/

theorem reach_snoc (f : Flat) (p : List Nat) (l : Nat) :
    f.reach (p ++ [l]) = (f.reach p).bind (fun x => f.child x.2.1 x.2.2 l) := by
  simp [Flat.reach, List.foldl_append]

theorem flat_eq_walk (f : Flat) : ∀ (rest path : List Nat) (lo hi : Nat) (st : WalkSt) (x : NodeInfo),
    f.reach path = some (x, lo, hi) →
    flatWalk f path.length rest lo hi st = walk f.look path rest st
  | [], _, _, _, _, _, _ => by simp [flatWalk, walk]
  | l :: more, path, lo, hi, st, x, hr => by
    unfold flatWalk walk
    have hstep : f.reach (path ++ [l]) = f.child lo hi l := by rw [reach_snoc, hr]; rfl
    cases hc : f.child lo hi l with
    | none => simp [Flat.look, hstep, hc]
    | some y =>
      obtain ⟨nd, lo', hi'⟩ := y
      have hl : f.look (path ++ [l]) = some nd := by simp [Flat.look, hstep, hc]
      simp only [hl]
      split
      · rfl
      · cases more with
        | nil => rfl
        | cons l' ls =>
          simp only
          have := flat_eq_walk f (l' :: ls) (path ++ [l]) lo' hi'
            { wild := nd.wildcard, icannNode := nd.icann,
              suffix := if nd.ntype = 0 then some (path.length + 1) else
                if st.wild = true then some (path.length + 1) else st.suffix,
              icann := if nd.ntype = 0 then nd.icann else (if st.wild = true then st.icannNode else st.icann) }
            nd (by rw [hstep, hc])
          simpa using this

/-- `walk` only consults the trie on prefixes of the domain. -/
theorem walk_congr (look1 look2 : List Nat → Option NodeInfo) : ∀ (rest path : List Nat) (st : WalkSt),
    (∀ p, p <+: path ++ rest → look1 p = look2 p) → walk look1 path rest st = walk look2 path rest st
  | [], _, _, _ => by simp [walk]
  | l :: more, path, st, h => by
    unfold walk
    have hl : look1 (path ++ [l]) = look2 (path ++ [l]) :=
      h _ (by rw [show path ++ l :: more = (path ++ [l]) ++ more by simp]; exact List.prefix_append _ _)
    rw [hl]
    cases look2 (path ++ [l]) with
    | none => rfl
    | some nd =>
      simp only
      split
      · rfl
      · cases more with
        | nil => rfl
        | cons l' ls =>
          simp only
          exact walk_congr look1 look2 (l' :: ls) (path ++ [l]) _ (by simpa using h)

/-! ### ICANN flag -/

/-- Rules with the same label sequence (e.g. `b.c` and `*.b.c`) are in the same section: the packed
trie has one ICANN bit per node. -/
def FlagConsistent (rules : List Rule) : Prop :=
  ∀ r1 ∈ rules, ∀ r2 ∈ rules, r1.labels = r2.labels → r1.icann = r2.icann

theorem nodeAt_icann (rules : List Rule) (hfc : FlagConsistent rules) (p : List Nat) (nd : NodeInfo)
    (h : nodeAt rules p = some nd) (k : Kind) (hk : hasKind rules k p = true) :
    nd.icann = firstFlag rules k p := by
  unfold nodeAt at h
  by_cases hany : rules.any (fun r => p.isPrefixOf r.labels) = true
  · rw [if_pos hany] at h
    simp only [Option.some.injEq] at h
    rw [← h]
    simp only
    unfold firstFlag
    obtain ⟨r, hr, hkk, hl⟩ := (hasKind_iff _ _ _).mp hk
    cases hf : rules.find? (fun r => decide (r.kind = k) && decide (r.labels = p)) with
    | none =>
      have := List.find?_eq_none.mp hf r hr
      simp [hkk, hl] at this
    | some r0 =>
      have hmem := List.mem_of_find?_eq_some hf
      have hpr := List.find?_some hf
      simp only [Bool.and_eq_true, decide_eq_true_eq] at hpr
      simp only
      cases hi : r0.icann with
      | true =>
        rw [List.all_eq_true]
        intro r' hr'
        by_cases hl' : r'.labels = p
        · have := hfc r' hr' r0 hmem (by rw [hl', hpr.2])
          simp [this, hi]
        · simp [hl']
      | false =>
        rw [Bool.eq_false_iff]
        intro hall
        have := List.all_eq_true.mp hall r0 hmem
        simp [hpr.2, hi] at this
  · rw [if_neg hany] at h; exact absurd h (by simp)

theorem specFlagGo_dead (rules : List Rule) : ∀ (more p : List Nat) (best : Bool),
    (∀ r ∈ rules, ¬ p <+: r.labels) → specFlagGo rules p more best = best
  | [], _, _, _ => by simp [specFlagGo]
  | l :: more, p, best, h => by
    have hp : ∀ r ∈ rules, ¬ (p ++ [l]) <+: r.labels := fun r hr hpre =>
      h r hr (List.IsPrefix.trans (List.prefix_append p [l]) hpre)
    have e1 : hasExc rules (p ++ [l]) = false := by
      apply Bool.eq_false_iff.mpr; intro hc
      obtain ⟨r, hr, _, hl⟩ := (hasKind_iff _ _ _).mp hc
      exact hp r hr (by rw [hl]; exact List.prefix_refl _)
    have e2 : hasNormal rules (p ++ [l]) = false := by
      apply Bool.eq_false_iff.mpr; intro hc
      obtain ⟨r, hr, _, hl⟩ := (hasKind_iff _ _ _).mp hc
      exact hp r hr (by rw [hl]; exact List.prefix_refl _)
    have e3 : hasWild rules p = false := by
      apply Bool.eq_false_iff.mpr; intro hc
      obtain ⟨r, hr, _, hl⟩ := (hasKind_iff _ _ _).mp hc
      exact h r hr (by rw [hl]; exact List.prefix_refl _)
    simp only [specFlagGo, e1, e2, e3, Bool.false_eq_true, if_false]
    exact specFlagGo_dead rules more (p ++ [l]) best hp

/-- The flag the loop returns is the flag of the prevailing rule of the PSL scan. -/
theorem walk_flag_eq (rules : List Rule) (hnc : NoConflict rules) (hfc : FlagConsistent rules) :
    ∀ (rest path : List Nat) (st : WalkSt), st.wild = hasWild rules path →
      (st.wild = true → st.icannNode = firstFlag rules .wildcard path) →
      (walk (nodeAt rules) path rest st).2 = specFlagGo rules path rest st.icann
  | [], _, _, _, _ => by simp [walk, specFlagGo]
  | l :: more, path, st, hw, hin => by
    unfold walk specFlagGo
    have hic1 : (if st.wild = true then st.icannNode else st.icann) =
        (if hasWild rules path = true then firstFlag rules .wildcard path else st.icann) := by
      by_cases hwt : st.wild = true
      · simp [hwt, ← hw, hin hwt]
      · have : hasWild rules path = false := by rw [← hw]; simpa using hwt
        simp [hwt, this]
    cases hlook : nodeAt rules (path ++ [l]) with
    | none =>
      have hdead := nodeAt_none rules _ hlook
      have e1 : hasExc rules (path ++ [l]) = false := by
        apply Bool.eq_false_iff.mpr; intro hc
        obtain ⟨r, hr, _, hl⟩ := (hasKind_iff _ _ _).mp hc
        exact hdead r hr (by rw [hl]; exact List.prefix_refl _)
      have e2 : hasNormal rules (path ++ [l]) = false := by
        apply Bool.eq_false_iff.mpr; intro hc
        obtain ⟨r, hr, _, hl⟩ := (hasKind_iff _ _ _).mp hc
        exact hdead r hr (by rw [hl]; exact List.prefix_refl _)
      simp only [e1, e2, Bool.false_eq_true, if_false]
      rw [specFlagGo_dead rules more (path ++ [l]) _ hdead]
      exact hic1
    | some nd =>
      obtain ⟨ht1, ht0⟩ := nodeAt_type rules hnc _ nd hlook
      have hwd := nodeAt_wild rules _ nd hlook
      simp only
      by_cases h1 : nd.ntype = 1
      · have hex := ht1.mp h1
        simp only [h1, if_true, hex]
        exact nodeAt_icann rules hfc _ nd hlook .exception hex
      · have hex : hasExc rules (path ++ [l]) = false := by
          apply Bool.eq_false_iff.mpr; intro hc; exact h1 (ht1.mpr hc)
        simp only [h1, if_false, hex, Bool.false_eq_true]
        have hbest : (if nd.ntype = 0 then nd.icann
              else if st.wild = true then st.icannNode else st.icann) =
            (if hasNormal rules (path ++ [l]) = true then firstFlag rules .normal (path ++ [l])
              else if hasWild rules path = true then firstFlag rules .wildcard path else st.icann) := by
          by_cases h0 : nd.ntype = 0
          · have hn := ht0.mp h0
            simp only [h0, if_true, hn]
            exact nodeAt_icann rules hfc _ nd hlook .normal hn
          · have : hasNormal rules (path ++ [l]) = false := by
              apply Bool.eq_false_iff.mpr; intro hc; exact h0 (ht0.mpr hc)
            simp only [h0, if_false, this, Bool.false_eq_true]
            exact hic1
        cases more with
        | nil => simp only [specFlagGo]; exact hbest
        | cons l' ls =>
          simp only
          rw [walk_flag_eq rules hnc hfc (l' :: ls) (path ++ [l]) _ (by simpa using hwd)
            (by
              intro hwt
              simp only at hwt ⊢
              exact nodeAt_icann rules hfc _ nd hlook .wildcard (by show hasWild rules (path ++ [l]) = true; rw [← hwd]; exact hwt))]
          simp only [hbest]

end NetVerif.Proofs.Lemmas.PublicSuffix
