import NetVerif.Proofs.Lemmas.HtmlTokFuel2
/-! Fuel sufficiency, part 3: the attribute loop of readTag makes progress. -/
namespace NetVerif.Proofs.Lemmas.HtmlTokFuel
open NetVerif.Model.HtmlTokExact NetVerif.Proofs.Lemmas.HtmlTokExact NetVerif.Proofs.Lemmas.HtmlTokSpan

/-- the byte `readByte` would deliver without setting an error -/
def peek (z : Z) : Option Nat :=
  if z.rawEnd ≥ z.inp.size then none
  else if z.maxBuf > 0 ∧ z.rawEnd + 1 - z.rawStart ≥ z.maxBuf then none
  else some (z.inp.getD z.rawEnd 0)

theorem readByte_of_peek (z : Z) (c : Nat) (h : peek z = some c) :
    readByte z = (c, { z with rawEnd := z.rawEnd + 1 }) := by
  unfold peek at h
  unfold readByte
  split at h
  · simp at h
  · rename_i h1
    split at h
    · simp at h
    · rename_i h2
      simp only [Option.some.injEq] at h
      simp only [h1, if_false, h2, h]

theorem peek_of_readByte (z : Z) (h : Ok z) (he : z.err = .none) (hok : (readByte z).2.err = .none) :
    peek z = some (readByte z).1 := by
  unfold peek
  unfold readByte at hok ⊢
  split
  · rename_i h1; simp only [h1, if_true] at hok; exact absurd hok h.2
  · rename_i h1
    simp only [h1, if_false] at hok ⊢
    split
    · rename_i h2; simp only [h2, if_true] at hok; cases hok
    · rename_i h2; simp only [h2, if_false]

/-- after a successful read, `z.raw.end--` restores the state -/
theorem unread_readByte (z : Z) (c : Nat) (h : peek z = some c) : unread (readByte z).2 = z := by
  rw [readByte_of_peek z c h]
  cases z
  simp [unread]

/-- `readTagAttrKey` either consumes something, or stops in front of white space or `/`. -/
theorem key_progress (z : Z) (h : Ok z) (he : z.err = .none) (c : Nat) (hp : peek z = some c) (hc : c ≠ 62) :
    z.rawEnd + 1 ≤ (readTagAttrKey z).rawEnd ∨
    ((readTagAttrKey z).rawEnd = z.rawEnd ∧ (readTagAttrKey z).err = .none ∧ peek (readTagAttrKey z) = some c ∧
      (isWS c = true ∨ c = 47)) := by
  unfold readTagAttrKey
  have hp0 : peek { z with pkStart := z.rawEnd } = some c := hp
  have h0 : Ok { z with pkStart := z.rawEnd } := h
  generalize hz0 : ({ z with pkStart := z.rawEnd } : Z) = z0 at hp0 h0
  have e0 : z0.rawEnd = z.rawEnd := by rw [← hz0]
  have e0k : z0.pkStart = z.rawEnd := by rw [← hz0]
  have e0e : z0.err = .none := by rw [← hz0]; exact he
  have hrb := readByte_of_peek z0 c hp0
  have hok1 : Ok { z0 with rawEnd := z0.rawEnd + 1 } := by
    have := ok_of_mono h0 (rb z0 h0).1; rw [hrb] at this; exact this
  have hsz : z0.inp.size + 2 = (z0.inp.size + 1) + 1 := rfl
  rw [hsz]
  simp only [attrKeyLoop, hrb, e0e, ne_eq, not_true_eq_false, if_false]
  have cont : z.rawEnd + 1 ≤ (attrKeyLoop (z0.inp.size + 1) { z0 with rawEnd := z0.rawEnd + 1 }).rawEnd := by
    have := (mono_attrKeyLoop (z0.inp.size + 1) _ hok1).1
    simp only [e0] at this; exact this
  split
  · exact Or.inl cont
  · rename_i hn1
    split
    · rename_i hterm
      right
      have hu : unread { z0 with rawEnd := z0.rawEnd + 1 } = z0 := by
        have := unread_readByte z0 c hp0; rw [hrb] at this; exact this
      simp only [hu]
      refine ⟨e0, e0e, hp0, ?_⟩
      rcases hterm with h1 | h1 | h1 | h1
      · exfalso; apply hn1; refine ⟨h1, ?_⟩; simp only [e0k, e0]
      · exact Or.inl h1
      · exact Or.inr (by simpa using h1)
      · exact absurd (by simpa using h1) hc
    · exact Or.inl cont

/-- in front of white space or `/`, `readTagAttrVal` consumes at least one byte -/
theorem val_progress (z : Z) (h : Ok z) (he : z.err = .none) (c : Nat) (hp : peek z = some c)
    (hc : isWS c = true ∨ c = 47) : z.rawEnd + 1 ≤ (readTagAttrVal z).rawEnd := by
  unfold readTagAttrVal
  simp only []
  have hp0 : peek { z with pvStart := z.rawEnd, pvEnd := z.rawEnd } = some c := hp
  have h0 : Ok { z with pvStart := z.rawEnd, pvEnd := z.rawEnd } := h
  generalize hz0 : ({ z with pvStart := z.rawEnd, pvEnd := z.rawEnd } : Z) = z0 at hp0 h0
  have e0 : z0.rawEnd = z.rawEnd := by rw [← hz0]
  have e0e : z0.err = .none := by rw [← hz0]; exact he
  have hrb := readByte_of_peek z0 c hp0
  have hok1 : Ok { z0 with rawEnd := z0.rawEnd + 1 } := by
    have := ok_of_mono h0 (rb z0 h0).1; rw [hrb] at this; exact this
  -- skipWhiteSpace z0
  have hsz : z0.inp.size + 2 = (z0.inp.size + 1) + 1 := rfl
  have hskip : (isWS c = true → z.rawEnd + 1 ≤ (skipWhiteSpace z0).rawEnd) ∧ (c = 47 → skipWhiteSpace z0 = z0) := by
    unfold skipWhiteSpace
    simp only [e0e, ne_eq, not_true_eq_false, if_false]
    rw [hsz]
    simp only [skipWSLoop, hrb, e0e, ne_eq, not_true_eq_false, if_false]
    constructor
    · intro hws
      simp only [hws, if_true]
      have := (mono_skipWSLoop (z0.inp.size + 1) _ hok1).1
      simp only [e0] at this; exact this
    · intro h47
      have : isWS c = false := by subst h47; decide
      simp only [this, Bool.false_eq_true, if_false]
      have := unread_readByte z0 c hp0; rw [hrb] at this; exact this
  rcases hc with hws | h47
  · -- white space: everything after skipWhiteSpace only moves forward
    have hm := mono_readTagAttrVal z h
    have key : z.rawEnd + 1 ≤ (skipWhiteSpace z0).rawEnd := hskip.1 hws
    have hw := mono_skipWhiteSpace z0 h0
    have hokw := ok_of_mono h0 hw
    generalize skipWhiteSpace z0 = z1 at key hw hokw ⊢
    split
    · exact key
    · have hr := rb z1 hokw
      have hu := mono_unread1 z1 hokw
      have hok1' := ok_of_mono hokw hr.1
      split
      · have := hr.1.1; omega
      · rename_i e2; simp only [ne_eq, Decidable.not_not] at e2
        split
        · have := hr.1.1; omega
        · split
          · have := (hu e2).1; omega
          · have hw2 := hr.1.trans (mono_skipWhiteSpace _ hok1')
            have hokw2 := ok_of_mono hokw hw2
            generalize skipWhiteSpace (readByte z1).2 = z2 at hw2 hokw2 ⊢
            split
            · have := hw2.1; omega
            · have hr2 := rb z2 hokw2
              have hu2 := mono_unread1 z2 hokw2
              have hm2 := hw2.trans hr2.1
              have hok2 := ok_of_mono hokw hm2
              split
              · have := hm2.1; omega
              · rename_i e4; simp only [ne_eq, Decidable.not_not] at e4
                split
                · have := (hw2.trans (hu2 e4)).1; omega
                · split
                  · have := (hm2.trans (mono_quotedValLoop _ _ { (readByte z2).2 with pvStart := (readByte z2).2.rawEnd } hok2)).1
                    omega
                  · have := (hm2.trans (mono_unquotedValLoop _ { (readByte z2).2 with pvStart := (readByte z2).2.rawEnd - 1 } hok2)).1
                    omega
  · -- `/`: skipWhiteSpace does nothing, the next readByte consumes the `/` and returns
    rw [hskip.2 h47]
    simp only [e0e, ne_eq, not_true_eq_false, if_false, hrb]
    subst h47
    simp only [beq_self_eq_true, if_true, e0]
    exact Nat.le_refl _

end NetVerif.Proofs.Lemmas.HtmlTokFuel
