import NetVerif.Proofs.Lemmas.HtmlTokFuel2
/-! Fuel sufficiency, part 3: the attribute loop of readTag makes progress. -/
namespace NetVerif.Proofs.Lemmas.HtmlTokFuel
open NetVerif.Model.HtmlTokExact NetVerif.Proofs.Lemmas.HtmlTokExact NetVerif.Proofs.Lemmas.HtmlTokSpan

/-- the byte `readByte` would deliver without setting an error -/
def peek (z : Z) : Option Nat :=
  if z.rawEnd ≥ z.inp.size then none
  else if z.maxBuf > 0 ∧ z.rawEnd + 1 - z.rawStart ≥ z.maxBuf then none
  else some (z.inp.getD z.rawEnd 0)

theorem readByte_of_peek (z : Z) (c : Nat) (h : peek z = some c) :
    readByte z = (c, { z with rawEnd := z.rawEnd + 1 }) := by
  unfold peek at h
  unfold readByte
  split at h
  · simp at h
  · rename_i h1
    split at h
    · simp at h
    · rename_i h2
      simp only [Option.some.injEq] at h
      simp only [h1, if_false, h2, h]

theorem peek_of_readByte (z : Z) (h : Ok z) (he : z.err = .none) (hok : (readByte z).2.err = .none) :
    peek z = some (readByte z).1 := by
  unfold peek
  unfold readByte at hok ⊢
  split
  · rename_i h1; simp only [h1, if_true] at hok; exact absurd hok h.2
  · rename_i h1
    simp only [h1, if_false] at hok ⊢
    split
    · rename_i h2; simp only [h2, if_true] at hok; cases hok
    · rename_i h2; simp only [h2, if_false]

/-- after a successful read, `z.raw.end--` restores the state -/
theorem unread_readByte (z : Z) (c : Nat) (h : peek z = some c) : unread (readByte z).2 = z := by
  rw [readByte_of_peek z c h]
  cases z
  simp [unread]

/-- what a successful read gives, with the new state kept opaque -/
theorem read_facts (z : Z) (h : Ok z) (he : z.err = .none) (c : Nat) (hp : peek z = some c) :
    ∃ z1, readByte z = (c, z1) ∧ z1.err = .none ∧ z1.rawEnd = z.rawEnd + 1 ∧ z1.pkStart = z.pkStart ∧
      Ok z1 ∧ unread z1 = z ∧ z1.inp = z.inp := by
  refine ⟨{ z with rawEnd := z.rawEnd + 1 }, readByte_of_peek z c hp, he, rfl, rfl, ?_, ?_, rfl⟩
  · have := ok_of_mono h (rb z h).1; rw [readByte_of_peek z c hp] at this; exact this
  · have := unread_readByte z c hp; rw [readByte_of_peek z c hp] at this; exact this

theorem attrKeyLoop_first (f : Nat) (z0 : Z) (h0 : Ok z0) (he : z0.err = .none) (c : Nat) (hp : peek z0 = some c)
    (hk : z0.pkStart = z0.rawEnd) (hc : c ≠ 62) :
    z0.rawEnd + 1 ≤ (attrKeyLoop (f + 1) z0).rawEnd ∨
    ((attrKeyLoop (f + 1) z0).rawEnd = z0.rawEnd ∧ (attrKeyLoop (f + 1) z0).err = .none ∧
      peek (attrKeyLoop (f + 1) z0) = some c ∧ (isWS c = true ∨ c = 47)) := by
  obtain ⟨z1, hrb, e1, r1, k1, ok1, u1, i1⟩ := read_facts z0 h0 he c hp
  have cont : z0.rawEnd + 1 ≤ (attrKeyLoop f z1).rawEnd := by
    have := (mono_attrKeyLoop f z1 ok1).1; omega
  simp only [attrKeyLoop, hrb]
  rw [if_neg (by simp [e1])]
  split
  · exact Or.inl cont
  · rename_i hn1
    split
    · rename_i hterm
      right
      rw [u1]
      refine ⟨rfl, he, hp, ?_⟩
      rcases hterm with h1 | h1 | h1 | h1
      · exfalso; apply hn1; exact ⟨h1, by rw [k1, hk, r1]⟩
      · exact Or.inl h1
      · exact Or.inr (by simpa using h1)
      · exact absurd (by simpa using h1) hc
    · exact Or.inl cont

/-- `readTagAttrKey` either consumes something, or stops in front of white space or `/`. -/
theorem key_progress (z : Z) (h : Ok z) (he : z.err = .none) (c : Nat) (hp : peek z = some c) (hc : c ≠ 62) :
    z.rawEnd + 1 ≤ (readTagAttrKey z).rawEnd ∨
    ((readTagAttrKey z).rawEnd = z.rawEnd ∧ (readTagAttrKey z).err = .none ∧ peek (readTagAttrKey z) = some c ∧
      (isWS c = true ∨ c = 47)) := by
  unfold readTagAttrKey
  exact attrKeyLoop_first (z.inp.size + 1) { z with pkStart := z.rawEnd } h he c hp rfl hc

theorem skipWS_first (z0 : Z) (h0 : Ok z0) (he : z0.err = .none) (c : Nat) (hp : peek z0 = some c) :
    (isWS c = true → z0.rawEnd + 1 ≤ (skipWhiteSpace z0).rawEnd) ∧ (isWS c = false → skipWhiteSpace z0 = z0) := by
  obtain ⟨z1, hrb, e1, r1, k1, ok1, u1, i1⟩ := read_facts z0 h0 he c hp
  unfold skipWhiteSpace
  rw [if_neg (by simp [he])]
  have hsz : z0.inp.size + 2 = (z0.inp.size + 1) + 1 := rfl
  rw [hsz, skipWSLoop]
  simp only [hrb]
  rw [if_neg (by simp [e1])]
  constructor
  · intro hws
    rw [if_pos hws]
    have := (mono_skipWSLoop (z0.inp.size + 1) z1 ok1).1; omega
  · intro hws
    rw [if_neg (by simp [hws])]
    exact u1

/-- in front of white space or `/`, `readTagAttrVal` consumes at least one byte -/
theorem val_progress (z : Z) (h : Ok z) (he : z.err = .none) (c : Nat) (hp : peek z = some c)
    (hc : isWS c = true ∨ c = 47) : z.rawEnd + 1 ≤ (readTagAttrVal z).rawEnd := by
  unfold readTagAttrVal
  simp only []
  have hp0 : peek { z with pvStart := z.rawEnd, pvEnd := z.rawEnd } = some c := hp
  have h0 : Ok { z with pvStart := z.rawEnd, pvEnd := z.rawEnd } := h
  have e0 : ({ z with pvStart := z.rawEnd, pvEnd := z.rawEnd } : Z).rawEnd = z.rawEnd := rfl
  have e0e : ({ z with pvStart := z.rawEnd, pvEnd := z.rawEnd } : Z).err = .none := he
  generalize ({ z with pvStart := z.rawEnd, pvEnd := z.rawEnd } : Z) = z0 at hp0 h0 e0 e0e ⊢
  have hskip := skipWS_first z0 h0 e0e c hp0
  rcases hc with hws | h47
  · -- white space: everything after skipWhiteSpace only moves forward
    have key : z.rawEnd + 1 ≤ (skipWhiteSpace z0).rawEnd := by have := hskip.1 hws; omega
    have hw := mono_skipWhiteSpace z0 h0
    have hokw := ok_of_mono h0 hw
    generalize skipWhiteSpace z0 = z1 at key hw hokw ⊢
    split
    · exact key
    · have hr := rb z1 hokw
      have hu := mono_unread1 z1 hokw
      have hok1' := ok_of_mono hokw hr.1
      split
      · have := hr.1.1; omega
      · rename_i e2; simp only [ne_eq, Decidable.not_not] at e2
        split
        · have := hr.1.1; omega
        · split
          · have := (hu e2).1; omega
          · have hw2 := hr.1.trans (mono_skipWhiteSpace _ hok1')
            have hokw2 := ok_of_mono hokw hw2
            generalize skipWhiteSpace (readByte z1).2 = z2 at hw2 hokw2 ⊢
            split
            · have := hw2.1; omega
            · have hr2 := rb z2 hokw2
              have hu2 := mono_unread1 z2 hokw2
              have hm2 := hw2.trans hr2.1
              have hok2 := ok_of_mono hokw hm2
              split
              · have := hm2.1; omega
              · rename_i e4; simp only [ne_eq, Decidable.not_not] at e4
                split
                · have := (hw2.trans (hu2 e4)).1; omega
                · split
                  · exact Nat.le_trans key (hm2.trans (mono_quotedValLoop _ _ { (readByte z2).2 with pvStart := (readByte z2).2.rawEnd } hok2)).1
                  · exact Nat.le_trans key (hm2.trans (mono_unquotedValLoop _ { (readByte z2).2 with pvStart := (readByte z2).2.rawEnd - 1 } hok2)).1
  · -- `/`: skipWhiteSpace does nothing, the next readByte consumes the `/` and returns
    have hnws : isWS c = false := by subst h47; decide
    rw [hskip.2 hnws]
    obtain ⟨z1, hrb, e1, r1, k1, ok1, u1, i1⟩ := read_facts z0 h0 e0e c hp0
    rw [if_neg (by simp [e0e])]
    simp only [hrb]
    rw [if_neg (by simp [e1])]
    subst h47
    simp only [beq_self_eq_true, if_true]
    omega

/-- one round of the attribute loop (key, value) consumes at least one byte -/
theorem attr_round_progress (z : Z) (h : Ok z) (he : z.err = .none) (c : Nat) (hp : peek z = some c) (hc : c ≠ 62) :
    z.rawEnd + 1 ≤ (readTagAttrVal (readTagAttrKey z)).rawEnd := by
  have hk := mono_readTagAttrKey z h
  have hokk := ok_of_mono h hk
  rcases key_progress z h he c hp hc with h1 | ⟨h1, h2, h3, h4⟩
  · have := (mono_readTagAttrVal _ hokk).1; omega
  · have := val_progress _ hokk h2 c h3 h4; omega

theorem fo_tagLoop (f : Nat) (sa : Bool) (z : Z) (h : Ok z) (he : z.err = .none) (hf : rem z < f) :
    (tagLoop f sa z).fuelOut = z.fuelOut := by
  induction f generalizing z with
  | zero => omega
  | succ f ih =>
    have hr := rb z h
    have hfo := fo_readByte z
    simp only [tagLoop]
    split
    · exact hfo
    · rename_i hno; simp only [not_or, ne_eq, Decidable.not_not] at hno
      have hp := peek_of_readByte z h he hno.1
      have hu : unread (readByte z).2 = z := unread_readByte z _ hp
      rw [hu]
      have hc : (readByte z).1 ≠ 62 := by intro e; exact hno.2 (by simp [e])
      have hprog := attr_round_progress z h he _ hp hc
      have hk := mono_readTagAttrKey z h
      have hokk := ok_of_mono h hk
      have hv := hk.trans (mono_readTagAttrVal _ hokk)
      have hokv := ok_of_mono h hv
      have hfv : (readTagAttrVal (readTagAttrKey z)).fuelOut = z.fuelOut := by
        rw [fo_readTagAttrVal _ hokk, fo_readTagAttrKey z h]
      generalize readTagAttrVal (readTagAttrKey z) = zv at hprog hv hokv hfv ⊢
      have key : ∀ z' : Z, Ok z' → z.rawEnd + 1 ≤ z'.rawEnd → z'.inp = z.inp → z'.fuelOut = z.fuelOut →
          (if (skipWhiteSpace z').err ≠ .none then skipWhiteSpace z' else tagLoop f sa (skipWhiteSpace z')).fuelOut
            = z.fuelOut := by
        intro z' hok' hpr hinp hfo'
        have hw := mono_skipWhiteSpace z' hok'
        have hfw := (fo_skipWhiteSpace z' hok').trans hfo'
        split
        · exact hfw
        · rename_i e; simp only [ne_eq, Decidable.not_not] at e
          have hrem : rem (skipWhiteSpace z') + 1 ≤ rem z := by
            obtain ⟨w1, w2, w3, w4, w5⟩ := hw
            rw [w3, hinp] at w2
            show (skipWhiteSpace z').inp.size - (skipWhiteSpace z').rawEnd + 1 ≤ z.inp.size - z.rawEnd
            rw [w3, hinp]; omega
          rw [ih _ (ok_of_mono hok' hw) e (by omega)]; exact hfw
      split
      · exact key _ hokv hprog hv.2.2.1 hfv
      · exact key _ hokv hprog hv.2.2.1 hfv

theorem fo_readTag (sa : Bool) (z : Z) (h : Ok z) : (readTag sa z).fuelOut = z.fuelOut := by
  unfold readTag
  simp only []
  have h0 : Ok { z with nAttr := 0, lastValEnd := 0, attrNames := [] } := h
  have hn : Mono z (readTagName { z with nAttr := 0, lastValEnd := 0, attrNames := [] }) := mono_readTagName _ h0
  have hfn : (readTagName { z with nAttr := 0, lastValEnd := 0, attrNames := [] }).fuelOut = z.fuelOut :=
    fo_readTagName _ h0
  have hokn := ok_of_mono h hn
  have hw := mono_skipWhiteSpace _ hokn
  have hfw := (fo_skipWhiteSpace _ hokn).trans hfn
  have := rem_le_size (skipWhiteSpace (readTagName { z with nAttr := 0, lastValEnd := 0, attrNames := [] }))
  split
  · exact hfw
  · rename_i e; simp only [ne_eq, Decidable.not_not] at e
    rw [fo_tagLoop _ _ _ (ok_of_mono hokn hw) e (by omega)]; exact hfw

theorem fo_readStartTag (z : Z) (h : Ok z) : (readStartTag z).2.fuelOut = z.fuelOut := by
  unfold readStartTag
  simp only []
  have ht := fo_readTag true z h
  generalize readTag true z = z1 at ht ⊢
  repeat' split
  all_goals exact ht

theorem fo_finishText (z : Z) : (finishText z).2.fuelOut = z.fuelOut := by
  unfold finishText; split <;> rfl

theorem fo_endTagOpen (z : Z) (h : Ok z) : (endTagOpen z).2.fuelOut = z.fuelOut := by
  unfold endTagOpen
  have hr := rb z h
  have hu := mono_unread1 z h
  have hok := ok_of_mono h hr.1
  have hfo := fo_readByte z
  simp only []
  split
  · rw [fo_finishText]; exact hfo
  · rename_i e; simp only [ne_eq, Decidable.not_not] at e
    split
    · exact hfo
    · split
      · have ht := (fo_readTag false _ hok).trans hfo
        split <;> exact ht
      · rw [fo_readUntilCloseAngle _ (ok_of_mono h (hu e))]; exact hfo

theorem fo_dispatch (k c : Nat) (z : Z) (h : Ok z) : (dispatch k c z).2.fuelOut = z.fuelOut := by
  unfold dispatch
  split
  · rfl
  · split
    · exact fo_readStartTag z h
    · split
      · exact fo_endTagOpen z h
      · split
        · exact fo_readMarkupDeclaration z h
        · have hoku : Ok (unread z) := ⟨by show z.rawEnd - 1 ≤ z.inp.size; have h1 : z.rawEnd ≤ z.inp.size := h.1; omega, h.2⟩
          exact fo_readUntilCloseAngle _ hoku

theorem fo_mainLoop (f : Nat) (z : Z) (h : Ok z) (hf : rem z < f) : (mainLoop f z).2.fuelOut = z.fuelOut := by
  induction f generalizing z with
  | zero => omega
  | succ f ih =>
    have hr := rb z h
    have hok := ok_of_mono h hr.1
    have hfo := fo_readByte z
    simp only [mainLoop]
    split
    · rw [fo_finishText]; exact hfo
    · rename_i e1; simp only [ne_eq, Decidable.not_not] at e1
      have p1 := rem_read z h e1
      split
      · rw [ih _ hok (by omega)]; exact hfo
      · have hr2 := rb _ hok
        have hok2 := ok_of_mono hok hr2.1
        have hfo2 := (fo_readByte (readByte z).2).trans hfo
        split
        · rw [fo_finishText]; exact hfo2
        · rename_i e2; simp only [ne_eq, Decidable.not_not] at e2
          split
          · have hu := mono_unread1 _ hok e2
            have q := rem_mono hu
            rw [ih _ (ok_of_mono hok hu) (by omega)]; exact hfo2
          · rw [fo_dispatch _ _ _ hok2]; exact hfo2

/-- `Next` never runs out of fuel. -/
theorem fo_next (z : Z) (h : Ok z) : (next z).2.fuelOut = z.fuelOut := by
  unfold next
  simp only []
  have hst : Ok (startToken z) := h
  have hss : (startToken z).rawStart ≤ (startToken z).rawEnd := Nat.le_refl _
  have hfs : (startToken z).fuelOut = z.fuelOut := rfl
  generalize startToken z = z1 at hst hss hfs ⊢
  have hrem := rem_le_size z1
  split
  · exact hfs
  · split
    · have ha := span_rawTextAttempt z1 hst hss
      have hfa := (fo_rawTextAttempt z1 hst hss).trans hfs
      generalize rawTextAttempt z1 = z2 at ha hfa ⊢
      split
      · exact hfa
      · obtain ⟨a1, a2, a3, a4, a5⟩ := ha
        have hok2 : Ok z2 := ⟨a2, by rw [a5]; exact hst.2⟩
        have := rem_le_size z2
        rw [fo_mainLoop _ z2 hok2 (by omega)]; exact hfa
    · rw [fo_mainLoop _ z1 hst (by omega)]; exact hfs

end NetVerif.Proofs.Lemmas.HtmlTokFuel
