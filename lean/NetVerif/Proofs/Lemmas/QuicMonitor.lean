import NetVerif.Model.QuicMonitor
/-! Generic facts about the history monitor, shared by Proofs/C19, C20, C32. -/
namespace NetVerif.Proofs.Lemmas.QuicMonitor
open NetVerif.Model.QuicMonitor

/-- The monitor accepts a trace iff every event satisfies its clause w.r.t. the events before it. -/
theorem run_some_iff (prop : Nat) (tr : List Ev) : ∀ (h : List Ev),
    (run prop h tr).isSome = true ↔ ∀ pre e suf, tr = pre ++ e :: suf → okEv prop (h ++ pre) e = true := by
  induction tr with
  | nil => intro h; simp [run]
  | cons e rest ih =>
    intro h
    unfold run
    constructor
    · intro hr
      by_cases hk : okEv prop h e = true
      · simp only [hk, if_true] at hr
        have := (ih (h ++ [e])).1 hr
        intro pre e' suf heq
        cases pre with
        | nil =>
          simp only [List.nil_append, List.cons.injEq] at heq
          rw [← heq.1]; simpa using hk
        | cons p pre' =>
          simp only [List.cons_append, List.cons.injEq] at heq
          have h2 := this pre' e' suf heq.2
          rw [← heq.1]
          simpa [List.append_assoc] using h2
      · simp [hk] at hr
    · intro hall
      have hk : okEv prop h e = true := by simpa using hall [] e rest rfl
      simp only [hk, if_true]
      apply (ih (h ++ [e])).2
      intro pre e' suf heq
      have := hall (e :: pre) e' suf (by simp [heq])
      simpa [List.append_assoc] using this

theorem accepts_iff (prop : Nat) (tr : List Ev) :
    accepts prop tr = true ↔ ∀ pre e suf, tr = pre ++ e :: suf → okEv prop pre e = true := by
  unfold accepts
  have := run_some_iff prop tr []
  simpa using this

/-- a `foldl` that only ever takes `imax` with something is at least its start value … -/
theorem foldl_imax_ge {α : Type} (f : Int → α → Int) (hf : ∀ m a, f m a ≥ m) (l : List α) :
    ∀ m, l.foldl f m ≥ m := by
  induction l with
  | nil => intro m; simp
  | cons a rest ih => intro m; simp only [List.foldl_cons]; have := ih (f m a); have := hf m a; omega

/-- … and monotone in the start value. -/
theorem foldl_mono {α : Type} (f : Int → α → Int) (hf : ∀ m m' a, m ≤ m' → f m a ≤ f m' a) (l : List α) :
    ∀ m m', m ≤ m' → l.foldl f m ≤ l.foldl f m' := by
  induction l with
  | nil => intro m m' h; simpa using h
  | cons a rest ih => intro m m' h; simp only [List.foldl_cons]; exact ih _ _ (hf m m' a h)

theorem imax_ge_left (a b : Int) : imax a b ≥ a := by unfold imax; split <;> omega
theorem imax_ge_right (a b : Int) : imax a b ≥ b := by unfold imax; split <;> omega
theorem imax_mono (a a' b : Int) (h : a ≤ a') : imax a b ≤ imax a' b := by unfold imax; split <;> split <;> omega

end NetVerif.Proofs.Lemmas.QuicMonitor
