import NetVerif.Proofs.Lemmas.HtmlTokFuel
/-! Fuel sufficiency, part 2. -/
namespace NetVerif.Proofs.Lemmas.HtmlTokFuel
open NetVerif.Model.HtmlTokExact NetVerif.Proofs.Lemmas.HtmlTokExact NetVerif.Proofs.Lemmas.HtmlTokSpan

theorem rem_le_size (z : Z) : rem z ≤ z.inp.size := by unfold rem; omega

theorem fo_readScript (z : Z) (h : Ok z) (hs : z.rawStart ≤ z.rawEnd) (hl : z.rawTag = scriptTag) :
    (readScript z).fuelOut = z.fuelOut := by
  unfold readScript
  have := rem_le_size z
  exact fo_scriptLoop _ .data z h (by simpa [need] using hs) (by rw [hl]; rfl) (by simp only [rank]; omega)

theorem fo_rawLoop (f : Nat) (z : Z) (h : Ok z) (hf : rem z < f) : (rawLoop f z).fuelOut = z.fuelOut := by
  induction f generalizing z with
  | zero => omega
  | succ f ih =>
    have hr := rb z h
    have hok := ok_of_mono h hr.1
    have hfo := fo_readByte z
    simp only [rawLoop]
    split
    · exact hfo
    · rename_i e1; simp only [ne_eq, Decidable.not_not] at e1
      have p1 := rem_read z h e1
      split
      · rw [ih _ hok (by omega)]; exact hfo
      · have hr2 := rb _ hok
        have hok2 := ok_of_mono hok hr2.1
        have hfo2 := fo_readByte (readByte z).2
        split
        · rw [hfo2]; exact hfo
        · rename_i e2; simp only [ne_eq, Decidable.not_not] at e2
          split
          · have hu := mono_unread1 _ hok e2
            have q := rem_mono hu
            rw [ih _ (ok_of_mono hok hu) (by omega)]
            show (readByte (readByte z).2).2.fuelOut = _
            rw [hfo2]; exact hfo
          · have hre := span_readRawEndTag _ hok2
            have hfoe := fo_readRawEndTag (readByte (readByte z).2).2
            cases hb : (readRawEndTag (readByte (readByte z).2).2).1 with
            | true => simp only [true_or, if_true]; rw [hfoe, hfo2]; exact hfo
            | false =>
              simp only [Bool.false_eq_true, false_or]
              have hm3 := hre.1 hb
              have q2 := rem_mono hr2.1
              have q3 := rem_mono hm3
              split
              · rw [hfoe, hfo2]; exact hfo
              · rw [ih _ (ok_of_mono hok2 hm3) (by omega), hfoe, hfo2]; exact hfo

theorem fo_readRawOrRCDATA (z : Z) (h : Ok z) (hs : z.rawStart ≤ z.rawEnd) : (readRawOrRCDATA z).fuelOut = z.fuelOut := by
  unfold readRawOrRCDATA
  have := rem_le_size z
  split
  · rename_i hl; exact fo_readScript z h hs hl
  · exact fo_rawLoop _ z h (by omega)

theorem fo_rawTextAttempt (z : Z) (h : Ok z) (hs : z.rawStart ≤ z.rawEnd) : (rawTextAttempt z).fuelOut = z.fuelOut := by
  unfold rawTextAttempt
  have := rem_le_size z
  split
  · exact fo_plaintextLoop _ z h (by omega)
  · exact fo_readRawOrRCDATA z h hs

theorem fo_matchWord (ci : Bool) (w : List Nat) (z : Z) : (matchWord ci w z).2.fuelOut = z.fuelOut := by
  induction w generalizing z with
  | nil => rfl
  | cons w ws ih =>
    have hfo := fo_readByte z
    simp only [matchWord]
    repeat' split
    all_goals first | exact hfo | (rw [ih]; exact hfo)

theorem fo_readDoctype (z : Z) (h : Ok z) (hd : z.dataStart ≤ z.inp.size) : (readDoctype z).2.fuelOut = z.fuelOut := by
  have hb := back_matchWord true doctypeWord z h hd
  have hfm := fo_matchWord true doctypeWord z
  unfold readDoctype
  split
  · rename_i z1 heq; rw [heq] at hfm; exact hfm
  · rename_i u z1 heq
    rw [heq] at hb hfm
    obtain ⟨⟨b1, b2, b3, b4, b5, b6⟩, _⟩ := hb
    have hok1 : Ok z1 := ⟨b2, by rw [b5]; exact h.2⟩
    have hw := mono_skipWhiteSpace z1 hok1
    have hfw := fo_skipWhiteSpace z1 hok1
    simp only []
    split
    · rw [hfw]; exact hfm
    · rw [fo_readUntilCloseAngle _ (ok_of_mono hok1 hw), hfw]; exact hfm

theorem fo_readCDATA (z : Z) (h : Ok z) (hd : z.dataStart ≤ z.inp.size) : (readCDATA z).2.fuelOut = z.fuelOut := by
  have hb := back_matchWord false cdataWord z h hd
  have hfm := fo_matchWord false cdataWord z
  unfold readCDATA
  split
  · rename_i z1 heq; rw [heq] at hfm; exact hfm
  · rename_i u z1 heq
    rw [heq] at hb hfm
    obtain ⟨⟨b1, b2, b3, b4, b5, b6⟩, _⟩ := hb
    have hok1 : Ok { z1 with dataStart := z1.rawEnd } := ⟨b2, by show z1.finalErr ≠ _; rw [b5]; exact h.2⟩
    have := rem_le_size { z1 with dataStart := z1.rawEnd }
    rw [fo_cdataLoop _ _ _ hok1 (by simp only [] at this ⊢; omega)]; exact hfm

theorem ds_readByte (z : Z) : (readByte z).2.dataStart = z.dataStart := by
  have := NetVerif.Proofs.Lemmas.HtmlTokMaxBuf.rt_readByte z
  simp only [NetVerif.Proofs.Lemmas.HtmlTokMaxBuf.rt, Prod.mk.injEq] at this; exact this.2

theorem fo_readMarkupDeclaration (z : Z) (h : Ok z) : (readMarkupDeclaration z).2.fuelOut = z.fuelOut := by
  unfold readMarkupDeclaration
  simp only []
  have h0 : Ok { z with dataStart := z.rawEnd } := h
  have hm0 : Mono z { z with dataStart := z.rawEnd } := Mono.refl z h
  have hds0 : ({ z with dataStart := z.rawEnd } : Z).dataStart = z.rawEnd := rfl
  have hfo0 : ({ z with dataStart := z.rawEnd } : Z).fuelOut = z.fuelOut := rfl
  generalize ({ z with dataStart := z.rawEnd } : Z) = z0 at h0 hm0 hds0 hfo0 ⊢
  have hr1 := rb z0 h0
  have hok1 := ok_of_mono h0 hr1.1
  have hf1 := (fo_readByte z0).trans hfo0
  split
  · exact hf1
  · have hr2 := rb _ hok1
    have hok2 := ok_of_mono hok1 hr2.1
    have hf2 := (fo_readByte (readByte z0).2).trans hf1
    have hds2 : (readByte (readByte z0).2).2.dataStart = z.rawEnd := by rw [ds_readByte, ds_readByte, hds0]
    have hm2 := (hm0.trans hr1.1).trans hr2.1
    split
    · exact hf2
    · split
      · have := rem_le_size (readByte (readByte z0).2).2
        unfold readComment
        rw [fo_commentLoop _ _ _ _ hok2 (by omega)]; exact hf2
      · have hoku : Ok (unread (readByte (readByte z0).2).2 2) :=
          ⟨by show (readByte (readByte z0).2).2.rawEnd - 2 ≤ (readByte (readByte z0).2).2.inp.size
              have := hok2.1; omega, hok2.2⟩
        have hdsu : (unread (readByte (readByte z0).2).2 2).dataStart = z.rawEnd := hds2
        have hinp : (unread (readByte (readByte z0).2).2 2).inp = z.inp := hm2.2.2.1
        have hfu : (unread (readByte (readByte z0).2).2 2).fuelOut = z.fuelOut := hf2
        generalize (unread (readByte (readByte z0).2).2 2) = zu at hoku hdsu hinp hfu ⊢
        have hdu : zu.dataStart ≤ zu.inp.size := by rw [hdsu, hinp]; exact h.1
        have hfd := (fo_readDoctype zu hoku hdu).trans hfu
        have hld := low_readDoctype zu hoku hdu
        split
        · rename_i z3 heq; rw [heq] at hfd; exact hfd
        · rename_i z3 heq
          rw [heq] at hfd hld
          simp only at hfd hld
          have hok3 := ok_of_low hoku hld.1
          have hds3 : z3.dataStart ≤ z3.inp.size := by rw [hld.2 trivial, hld.1.2.2.1]; exact hdu
          split
          · exact hfd
          · split
            · have hfc := (fo_readCDATA z3 hok3 hds3).trans hfd
              have hlc := low_readCDATA z3 hok3 hds3
              split
              · rename_i z4 heq4; rw [heq4] at hfc; exact hfc
              · rename_i z4 heq4; rw [heq4] at hfc hlc
                split
                · exact hfc
                · rw [fo_readUntilCloseAngle _ (ok_of_low hok3 hlc)]; exact hfc
            · rw [fo_readUntilCloseAngle _ hok3]; exact hfd

theorem fo_readTagName (z : Z) (h : Ok z) : (readTagName z).fuelOut = z.fuelOut := by
  unfold readTagName
  have := rem_le_size z
  exact fo_tagNameLoop _ { z with dataStart := z.rawEnd - 1 } h (by show rem z < _; omega)

theorem fo_readTagAttrKey (z : Z) (h : Ok z) : (readTagAttrKey z).fuelOut = z.fuelOut := by
  unfold readTagAttrKey
  have := rem_le_size z
  exact fo_attrKeyLoop _ { z with pkStart := z.rawEnd } h (by show rem z < _; omega)

theorem fo_readTagAttrVal (z : Z) (h : Ok z) : (readTagAttrVal z).fuelOut = z.fuelOut := by
  unfold readTagAttrVal
  simp only []
  have h0 : Ok { z with pvStart := z.rawEnd, pvEnd := z.rawEnd } := h
  have hf0 : ({ z with pvStart := z.rawEnd, pvEnd := z.rawEnd } : Z).fuelOut = z.fuelOut := rfl
  generalize ({ z with pvStart := z.rawEnd, pvEnd := z.rawEnd } : Z) = z0 at h0 hf0 ⊢
  have hw := mono_skipWhiteSpace z0 h0
  have hfw := (fo_skipWhiteSpace z0 h0).trans hf0
  have hokw := ok_of_mono h0 hw
  generalize skipWhiteSpace z0 = z1 at hw hfw hokw ⊢
  split
  · exact hfw
  · have hr := rb z1 hokw
    have hf1 := (fo_readByte z1).trans hfw
    have hok1 := ok_of_mono hokw hr.1
    split
    · exact hf1
    · split
      · exact hf1
      · split
        · exact hf1
        · have hw2 := mono_skipWhiteSpace _ hok1
          have hfw2 := (fo_skipWhiteSpace _ hok1).trans hf1
          have hokw2 := ok_of_mono hok1 hw2
          generalize skipWhiteSpace (readByte z1).2 = z2 at hw2 hfw2 hokw2 ⊢
          split
          · exact hfw2
          · have hr2 := rb z2 hokw2
            have hf2 := (fo_readByte z2).trans hfw2
            have hok2 := ok_of_mono hokw2 hr2.1
            have := rem_le_size (readByte z2).2
            split
            · exact hf2
            · split
              · exact hf2
              · split
                · rw [fo_quotedValLoop _ _ { (readByte z2).2 with pvStart := (readByte z2).2.rawEnd } hok2
                    (by show rem (readByte z2).2 < _; omega)]; exact hf2
                · rw [fo_unquotedValLoop _ { (readByte z2).2 with pvStart := (readByte z2).2.rawEnd - 1 } hok2
                    (by show rem (readByte z2).2 < _; omega)]; exact hf2

end NetVerif.Proofs.Lemmas.HtmlTokFuel
